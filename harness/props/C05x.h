// C05: elastic_integer results that need multi-word (wide_integer) storage: values travel in hex
// (the big-integer helpers come from the C11 harness; no library arithmetic is used to build or read a value)
#include "C11.h"

template<class Z>
void print_elx(Z const& z)
{
    // (the narrowest type is wide_integer<digits B, B>: print the built-in B)
    using B = typename nw_of<Z>::type;
    printf("el(%d,%s):", int(digits_v<Z>), tn<B>().c_str());
    big_print(big_of(_impl::to_rep(_impl::to_rep(z)), std::is_signed_v<B>));
}

template<int D, class N>
elastic_integer<D, wide_integer<digits_v<N>, N>> mk_el(Big const& b)
{
    using W = wide_integer<digits_v<N>, N>;
    using Z = elastic_integer<D, W>;
    using R = _impl::rep_of_t<Z>;   // wide_integer<D, N>
    using BI = _impl::rep_of_t<R>;  // built-in integer or uintwide_t
    return _impl::from_rep<Z>(_impl::from_rep<R>(bi_of<BI>(b)));
}

#define XHEAD(KIND, NAME) \
    printf("C05 " KIND " " NAME " %d %s %d %s ", LD, tn<LN>().c_str(), RD, tn<RN>().c_str()); \
    big_print(l); \
    putchar(' '); \
    big_print(r); \
    fputs(" => ", stdout);

template<int LD, class LN, int RD, class RN>
void xbin(Rng& rng)
{
    auto lv = bigvals<LD, std::is_signed_v<LN>>(rng, 3 * scale_from_env());
    auto rv = bigvals<RD, std::is_signed_v<RN>>(rng, 3 * scale_from_env());
    for (auto const& l : lv)
        for (auto const& r : rv) {
            auto a = mk_el<LD, LN>(l);
            auto b = mk_el<RD, RN>(r);
            { XHEAD("xbin", "add") VH_RUN(a + b, print_elx) }
            { XHEAD("xbin", "sub") VH_RUN(a - b, print_elx) }
            { XHEAD("xbin", "mul") VH_RUN(a * b, print_elx) }
            if (!r.zero()) {  // (a zero divisor in multi-word storage is outside the property and not modelled)
                { XHEAD("xbin", "div") VH_RUN(a / b, print_elx) }
                { XHEAD("xbin", "mod") VH_RUN(a % b, print_elx) }
            }
            { XHEAD("xcmp", "lt") VH_RUN(a < b, print_tv) }
            { XHEAD("xcmp", "eq") VH_RUN(a == b, print_tv) }
            { XHEAD("xcmp", "ge") VH_RUN(a >= b, print_tv) }
        }
    for (auto const& l : lv) {
        auto a = mk_el<LD, LN>(l);
        printf("C05 xneg %d %s ", LD, tn<LN>().c_str());
        big_print(l);
        fputs(" => ", stdout);
        VH_RUN(-a, print_elx)
    }
}

// ---------------------------------------------------------------------------------------------
// `/` and `%` over multi-word storage: structured operands.  The magnitudes are built here with schoolbook
// arithmetic on 32-bit words (no library arithmetic), every sign combination is run, and each pair also yields an
// `xident` line: (n / d) * d + n % d evaluated in elastic arithmetic (must give n back).

inline Big mag_add(Big const& a, Big const& b)  // |a| + |b|
{
    Big r;
    std::uint64_t c = 0;
    for (std::size_t i = 0; i < std::max(a.m.size(), b.m.size()) || c; ++i) {
        c += (i < a.m.size() ? a.m[i] : 0u);
        c += (i < b.m.size() ? b.m[i] : 0u);
        r.m.push_back(std::uint32_t(c));
        c >>= 32;
    }
    r.norm();
    return r;
}
inline int mag_cmp(Big const& a, Big const& b)
{
    if (a.m.size() != b.m.size()) return a.m.size() < b.m.size() ? -1 : 1;
    for (std::size_t i = a.m.size(); i-- > 0;)
        if (a.m[i] != b.m[i]) return a.m[i] < b.m[i] ? -1 : 1;
    return 0;
}
inline Big mag_sub(Big const& a, Big const& b)  // |a| - |b|, requires |a| >= |b|
{
    Big r;
    std::int64_t bor = 0;
    for (std::size_t i = 0; i < a.m.size(); ++i) {
        std::int64_t t = std::int64_t(a.m[i]) - (i < b.m.size() ? std::int64_t(b.m[i]) : 0) - bor;
        bor = t < 0;
        if (t < 0) t += (std::int64_t(1) << 32);
        r.m.push_back(std::uint32_t(t));
    }
    r.norm();
    return r;
}
inline Big mag_mul(Big const& a, Big const& b)
{
    Big r;
    r.m.assign(a.m.size() + b.m.size() + 1, 0);
    for (std::size_t i = 0; i < a.m.size(); ++i) {
        std::uint64_t c = 0;
        for (std::size_t j = 0; j < b.m.size() || c; ++j) {
            std::uint64_t t = std::uint64_t(r.m[i + j]) + c + (j < b.m.size() ? std::uint64_t(a.m[i]) * b.m[j] : 0);
            r.m[i + j] = std::uint32_t(t);
            c = t >> 32;
        }
    }
    r.norm();
    return r;
}
inline Big mag_shl(Big const& a, int k)
{
    Big r;
    int n = a.bitlen();
    r.m.assign(std::size_t((n + k) / 32 + 1), 0);
    for (int i = 0; i < n; ++i)
        if (a.bit(i)) r.m[std::size_t((i + k) / 32)] |= 1u << ((i + k) % 32);
    r.norm();
    return r;
}
// magnitude from limbs of `w` bits, least significant first
inline Big mag_limbs(std::vector<std::uint64_t> const& l, int w)
{
    Big r;
    r.m.assign(l.size() * std::size_t(w) / 32 + 2, 0);
    for (std::size_t i = 0; i < l.size(); ++i)
        for (int j = 0; j < w; ++j)
            if ((l[i] >> j) & 1) r.m[(i * std::size_t(w) + std::size_t(j)) / 32] |= 1u << ((i * std::size_t(w) + std::size_t(j)) % 32);
    r.norm();
    return r;
}
inline Big with_sign(Big b, bool neg)
{
    b.neg = neg && !b.zero();
    return b;
}

// limb patterns: 0 zero, 1 one, 2 all ones, 3 top bit, 4 top bit clear rest set, 5 all ones but the lowest, 6.. random
inline std::uint64_t limb_pat(Rng& rng, int w, int which)
{
    std::uint64_t const m = w == 64 ? ~std::uint64_t(0) : ((std::uint64_t(1) << w) - 1);
    switch (which) {
    case 0: return 0;
    case 1: return 1;
    case 2: return m;
    case 3: return (m >> 1) + 1;
    case 4: return m >> 1;
    case 5: return m - 1;
    default: return rng.next() & m;
    }
}

// a magnitude of exactly `k` limbs of `w` bits whose top limb is `top` (non-zero)
inline Big mag_shape(Rng& rng, int w, int k, std::uint64_t top, int fill)
{
    std::vector<std::uint64_t> l;
    for (int i = 0; i + 1 < k; ++i) l.push_back(limb_pat(rng, w, fill < 0 ? rng.below(9) : fill));
    l.push_back(top);
    return mag_limbs(l, w);
}

// Operands for which Knuth's algorithm D (limbs of `w` bits, base b = 2^w) takes the rare step D6 ("add back"):
// v = vh*b^(nv-1) + vlow with vh >= b/2 (normalisation factor 1), second limb 0 and 0 < vlow < b^(nv-2); with
// u = q*v + r, 1 <= q <= b-2 and v - (q+1)*vlow <= r < v the trial digit floor(top two limbs of u / vh) is q+1,
// the D3 test (which only looks at the second limb of v) accepts it, and the multiply-and-subtract borrows.
// The classic vector u = 7fffffff 80000000 0 0, v = 80000000 0 1 is the member vh = b/2, vlow = 1, q = b-2,
// r = v-1-(b-2).  `hq` further quotient limbs above and `k` limbs below move the step to any quotient position.
struct AddBack {
    Big u, v;
};
inline AddBack addback(Rng& rng, int w, int nv, int k, int hq, int variant)
{
    std::uint64_t const m = w == 64 ? ~std::uint64_t(0) : ((std::uint64_t(1) << w) - 1);
    std::uint64_t const half = (m >> 1) + 1;
    std::uint64_t vh = variant == 0 ? half : variant % 4 == 1 ? m : variant % 4 == 2 ? half + 1 : (half | (rng.next() & m));
    std::vector<std::uint64_t> vl;
    if (variant == 0) {
        vl.push_back(1);
        for (int i = 1; i < nv - 2; ++i) vl.insert(vl.begin(), 0);  // vlow = b^(nv-3): "…, 1, 0, 0"
    } else {
        for (int i = 0; i < nv - 2; ++i) vl.push_back(limb_pat(rng, w, rng.below(10)));
        if (vl.back() == 0) vl.back() = 1 + (rng.next() & (m >> 1));
    }
    Big vlow = mag_limbs(vl, w);
    std::vector<std::uint64_t> vv = vl;
    vv.push_back(0);
    vv.push_back(vh);
    Big v = mag_limbs(vv, w);
    std::uint64_t q = variant == 0 ? m - 1 : variant % 3 == 0 ? 1 + rng.next() % (m - 1) : variant % 3 == 1 ? m - 1 : half;
    if (q > m - 1) q = m - 1;
    if (q < 1) q = 1;
    Big qb = mag_limbs({q}, w), q1 = mag_limbs({q + 1}, w);
    Big span = mag_mul(q1, vlow);  // r ranges over [v - span, v - 1]
    Big s;
    switch (variant == 0 ? 5 : rng.below(5)) {
    case 0: s = Big(); break;                              // r = v - 1
    case 1: s = mag_sub(span, big_small(1)); break;        // r = v - span: the last operand that adds back
    case 2: s = big_shr(span, 1); break;
    case 3: s = big_shr(span, 1 + rng.below(w)); break;
    case 4: s = span; break;                               // r = v - span - 1: the first operand that does not
    default: s = mag_limbs({m - 1}, w); break;             // classic vector (vlow = 1, q = b - 2)
    }
    if (mag_cmp(s, mag_sub(v, big_small(1))) > 0) s = Big();
    Big r = mag_sub(mag_sub(v, big_small(1)), s);
    // quotient limbs above the add-back digit
    std::vector<std::uint64_t> ql{q};
    for (int i = 0; i < hq; ++i) ql.push_back(limb_pat(rng, w, 2 + rng.below(7)));
    Big u = mag_add(mag_mul(mag_limbs(ql, w), v), r);
    if (k > 0) {
        std::vector<std::uint64_t> low;
        for (int i = 0; i < k; ++i) low.push_back(limb_pat(rng, w, rng.below(9)));
        u = mag_add(mag_shl(u, k * w), mag_limbs(low, w));
    }
    return {u, v};
}

#define XDHEAD(KIND) \
    printf("C05 " KIND " %d %s %d %s ", LD, tn<LN>().c_str(), RD, tn<RN>().c_str()); \
    big_print(l); \
    putchar(' '); \
    big_print(r); \
    fputs(" => ", stdout);

template<int LD, class LN, int RD, class RN>
void xdiv_pair(Big const& lm, Big const& rm)
{
    constexpr bool ls = std::is_signed_v<LN>, rs = std::is_signed_v<RN>;
    if (rm.zero() || lm.bitlen() > LD || rm.bitlen() > RD) return;
    for (int sg = 0; sg < 4; ++sg) {
        bool ln = sg & 1, rn = sg & 2;
        if ((ln && (!ls || lm.zero())) || (rn && !rs)) continue;
        Big l = with_sign(lm, ln), r = with_sign(rm, rn);
        auto a = mk_el<LD, LN>(l);
        auto b = mk_el<RD, RN>(r);
        { XHEAD("xbin", "div") VH_RUN(a / b, print_elx) }
        { XHEAD("xbin", "mod") VH_RUN(a % b, print_elx) }
        { XDHEAD("xident") VH_RUN((a / b) * b + a % b, print_elx) }
    }
}

template<int LD, class LN, int RD, class RN>
void xdiv(Rng& rng)
{
    static_assert(sizeof(LN) == sizeof(RN));
    constexpr int w = int(sizeof(LN)) * 8;
    std::uint64_t const m = w == 64 ? ~std::uint64_t(0) : ((std::uint64_t(1) << w) - 1);
    int const sc = scale_from_env();
    auto pair = [&](Big const& l, Big const& r) { xdiv_pair<LD, LN, RD, RN>(l, r); };
    constexpr int nr = (RD + w - 1) / w;
    // divisors of 1, 2, 3, ... limbs: top limb 1, all ones, 100.., 011.., random; lower limbs zeros / ones / random
    std::uint64_t const tops[] = {1, m, (m >> 1) + 1, m >> 1, 0 /* random */};
    for (int k = 1; k <= nr; k = (k < 4 || k + 2 >= nr) ? k + 1 : k + 1 + rng.below(nr / 3 + 1))
        for (std::uint64_t top : tops)
            for (int rep = 0; rep < 2 * sc; ++rep) {
                std::uint64_t t = top ? top : 1 + rng.next() % m;
                if (k == nr && RD % w) t &= (std::uint64_t(1) << (RD % w)) - 1;
                if (t == 0) t = 1;
                Big d = mag_shape(rng, w, k, t, rep == 0 ? 0 : rep == 1 ? 2 : -1);
                Big d1 = mag_sub(d, big_small(1));
                // dividends: random; q*d, q*d + (d-1), q*d + r with q filling what is left of the dividend's digits;
                // smaller than, equal to, one more than the divisor
                pair(big_rand(rng, 1 + rng.below(LD)), d);
                pair(big_rand(rng, LD), d);
                int qbits = LD - d.bitlen();
                if (qbits >= 1) {
                    Big q = rep % 2 ? big_ones(qbits) : big_rand(rng, qbits);
                    Big qd = mag_mul(q, d);
                    pair(qd, d);
                    pair(mag_add(qd, d1), d);
                    if (!qd.zero()) pair(mag_sub(qd, big_small(1)), d);
                    pair(mag_add(qd, big_shr(d, 1 + rng.below(w))), d);
                }
                pair(d1, d);
                pair(d, d);
                pair(mag_add(d, big_small(1)), d);
                pair(big_shr(d, 1 + rng.below(2 * w)), d);
                pair(mag_add(d, d1), d);  // 2d - 1: quotient 1, remainder d - 1
            }
    // add-back operands at every divisor length and quotient position that fit
    for (int nv = 3; nv <= RD / w; ++nv)
        for (int hq = 0; hq <= 2; ++hq)
            for (int k = 0; nv + 1 + hq + k <= LD / w; k = k < 2 ? k + 1 : k + 1 + rng.below(3))
                for (int variant = 0; variant < 2 + 3 * sc; ++variant) {
                    AddBack ab = addback(rng, w, nv, k, hq, variant);
                    pair(ab.u, ab.v);
                }
}
