// C05: elastic_integer results that need multi-word (wide_integer) storage: values travel in hex
// (the big-integer helpers come from the C11 harness; no library arithmetic is used to build or read a value)
#include "C11.h"

template<class Z>
void print_elx(Z const& z)
{
    // (the narrowest type is wide_integer<digits B, B>: print the built-in B)
    using B = typename nw_of<Z>::type;
    printf("el(%d,%s):", int(digits_v<Z>), tn<B>().c_str());
    big_print(big_of(_impl::to_rep(_impl::to_rep(z)), std::is_signed_v<B>));
}

template<int D, class N>
elastic_integer<D, wide_integer<digits_v<N>, N>> mk_el(Big const& b)
{
    using W = wide_integer<digits_v<N>, N>;
    using Z = elastic_integer<D, W>;
    using R = _impl::rep_of_t<Z>;   // wide_integer<D, N>
    using BI = _impl::rep_of_t<R>;  // built-in integer or uintwide_t
    return _impl::from_rep<Z>(_impl::from_rep<R>(bi_of<BI>(b)));
}

#define XHEAD(KIND, NAME) \
    printf("C05 " KIND " " NAME " %d %s %d %s ", LD, tn<LN>().c_str(), RD, tn<RN>().c_str()); \
    big_print(l); \
    putchar(' '); \
    big_print(r); \
    fputs(" => ", stdout);

template<int LD, class LN, int RD, class RN>
void xbin(Rng& rng)
{
    auto lv = bigvals<LD, std::is_signed_v<LN>>(rng, 3 * scale_from_env());
    auto rv = bigvals<RD, std::is_signed_v<RN>>(rng, 3 * scale_from_env());
    for (auto const& l : lv)
        for (auto const& r : rv) {
            auto a = mk_el<LD, LN>(l);
            auto b = mk_el<RD, RN>(r);
            { XHEAD("xbin", "add") VH_RUN(a + b, print_elx) }
            { XHEAD("xbin", "sub") VH_RUN(a - b, print_elx) }
            { XHEAD("xbin", "mul") VH_RUN(a * b, print_elx) }
            { XHEAD("xcmp", "lt") VH_RUN(a < b, print_tv) }
            { XHEAD("xcmp", "eq") VH_RUN(a == b, print_tv) }
            { XHEAD("xcmp", "ge") VH_RUN(a >= b, print_tv) }
        }
    for (auto const& l : lv) {
        auto a = mk_el<LD, LN>(l);
        printf("C05 xneg %d %s ", LD, tn<LN>().c_str());
        big_print(l);
        fputs(" => ", stdout);
        VH_RUN(-a, print_elx)
    }
}
