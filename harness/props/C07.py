"""C07 — checked arithmetic is total.  Same cases as C06 (plus >>), judged by definedness; in addition
release builds (CNL_RELEASE: `_impl::unreachable` is `__builtin_unreachable`, visible through the hook as UNREACHABLE)
and static_integer / static_number operations at and next to full width of the word (`sn` lines, C11 model)."""
import os, sys
sys.path.insert(0, os.path.dirname(os.path.abspath(__file__)))
import C06

RT = {'nat': 'native_rounding_tag', 'nrst': 'nearest_rounding_tag', 'tpi': 'tie_to_pos_inf_rounding_tag', 'ninf': 'neg_inf_rounding_tag'}
T3 = ['sat', 'thr', 'trp']


def sn_tus(tier, seed):
    """(rounding mode, overflow tag, D1, E1, D2, E2, bare static_integer)"""
    # full width of int (31 digits) and of int64 (63 digits), both operands: the three rounding modes that adjust the
    # truncated quotient x the checked tags; one digit less, mixed widths, a half-word and a byte; fractional exponents
    base = [('nrst', 31, 0, 31, 0, True), ('tpi', 31, 0, 31, 0, True), ('ninf', 31, 0, 31, 0, True), ('nrst', 31, -8, 31, -8, False),
            ('nrst', 63, 0, 63, 0, True), ('tpi', 63, -8, 63, -8, False), ('ninf', 63, 0, 63, 0, True), ('nat', 31, 0, 31, 0, True),
            ('nrst', 30, 0, 31, 0, True), ('tpi', 31, -3, 30, 2, False), ('nrst', 62, 0, 63, 0, True), ('nrst', 15, 0, 15, 0, True),
            ('ninf', 7, -2, 7, 0, False), ('nrst', 31, 0, 63, 0, True), ('tpi', 63, 0, 31, 0, True), ('nat', 63, -4, 63, -4, False)]
    combos = []
    for i, (r, d1, e1, d2, e2, bare) in enumerate(base):
        for k, o in enumerate(T3):
            # every combination under one tag per seed; the full-width divisions of the word under all three
            if k == (i + seed) % 3 or (i < 7 and d1 == d2 and k == (i + seed + 1) % 3) or tier == 'thorough':
                combos.append((r, o, d1, e1, d2, e2, bare))
    res = []
    per = 3
    for i in range(0, len(combos), per):
        lines = ['sn_ops<%s, %s, %d, %d, %d, %d, %s>(rng);' % (RT[r], C06.TAGS[o], d1, e1, d2, e2, 'true' if bare else 'false')
                 for (r, o, d1, e1, d2, e2, bare) in combos[i:i + per]]
        k = i // per
        t = dict(name='C07_sn_%d' % k, src=C06._tu('C07', 1300 + i, lines), compiler='clang++' if k % 4 == 3 else 'g++',
                 defines=['CNL_VERIF_OVERFLOW_PATH=%d' % (1 + k % 2)])
        res.append(t)
    return res


def release_tus(tier, seed):
    """trapping tag in a release build: every operator, both polarities, both detection paths; ++/--, wrapper shifts,
    class-type representations, conversions"""
    res = []
    pairs = [('i32', 'i32'), ('u32', 'u32'), ('i64', 'i64'), ('i8', 'i8'), ('u64', 'u8'), ('i16', 'i64'), ('i32', 'u32'), ('u8', 'i32')]
    CT = C06.CT
    for path in (1, 2):
        for h in range(2):
            ps = pairs[h * 4:h * 4 + 4]
            lines = []
            for (a, b) in ps:
                lines.append('pair<trapping_overflow_tag, %s, %s>(rng);' % (CT[a], CT[b]))
                lines.append('{ std::vector<%s> lv; std::vector<%s> rv; operands<%s,%s>(rng, lv, rv); wrapped<trapping_overflow_tag, %s, %s>(lv, rv); }' % (
                    CT[a], CT[b], CT[a], CT[b], CT[a], CT[b]))
            res.append(dict(name='C07_rel_trp_p%d_%d' % (path, h), src=C06._tu('C07', 1400 + 10 * path + h, lines),
                            compiler='clang++' if (path + h) % 2 == 0 else 'g++', defines=['CNL_VERIF_OVERFLOW_PATH=%d' % path, 'CNL_RELEASE']))
    lines = ['wincdec<trapping_overflow_tag, %s>(rng);' % CT[t] for t in ['i8', 'u8', 'i16', 'i32', 'u32', 'i64', 'u64']]
    lines += ['wclass<trapping_overflow_tag, rounding_integer<std::int32_t, native_rounding_tag>, std::int32_t>(rng);',
              'wclass<trapping_overflow_tag, wide_integer<31, int>, std::int32_t>(rng);',
              'wshift<trapping_overflow_tag, std::int32_t, std::uint32_t>(rng);', 'wshift<trapping_overflow_tag, std::int64_t, std::int64_t>(rng);',
              'shift_dense<trapping_overflow_tag, std::int32_t, std::int32_t>(rng);', 'shift_dense<trapping_overflow_tag, std::int8_t, std::uint8_t>(rng);',
              'shift_dense<trapping_overflow_tag, std::int64_t, std::int32_t>(rng);',
              'wcvt<trapping_overflow_tag, std::int32_t, std::uint32_t>(rng);', 'wcvt<trapping_overflow_tag, std::int64_t, std::int8_t>(rng);',
              'sxr<trapping_overflow_tag, std::int32_t, 0, 2, std::int32_t, -3, 10>(rng);',
              'sn_ops<nearest_rounding_tag, trapping_overflow_tag, 31, 0, 31, 0, true>(rng);']
    res.append(dict(name='C07_rel_trp_wrappers', src=C06._tu('C07', 1450, lines), compiler='g++',
                    defines=['CNL_VERIF_OVERFLOW_PATH=%d' % (1 + seed % 2), 'CNL_RELEASE']))
    return res


def tus(tier, seed):
    res = C06.tus(tier, seed + 1000, table='C07')
    res += sn_tus(tier, seed)
    # debug and release builds alternate over the shared translation units (the model is the same for both:
    # nothing the checked tags do may depend on the build), the dedicated release units come on top
    for i, t in enumerate(res):
        if i % 3 == 1 or tier == 'thorough' and i % 3 == 2:
            t['defines'] = t.get('defines', []) + ['CNL_RELEASE']
            t['name'] += '_release'
    res += release_tus(tier, seed)
    for t in res:
        t['defines'] = t.get('defines', []) + ['VH_WITH_SHR']
    return res


RULE = (C06.RULE + "; non-trivial additionally requires the checked tag (saturated, throwing, trapping); a third of the translation units and dedicated "
        "trapping-tag units (every operator, both polarities, both paths) are release builds (CNL_RELEASE); static_integer / static_number "
        "+ - * / and unary minus with 31 digits on int and 63 digits on int64 (and one digit less, mixed, 15, 7 digits), nearest / tie_to_pos_inf / neg_inf / "
        "native rounding x saturated / throwing / trapping, magnitudes dense in the top two binades of the declared range, both signs")
