"""C07 — checked arithmetic is total.  Same cases as C06 (plus >>), judged by definedness."""
import os, sys
sys.path.insert(0, os.path.dirname(os.path.abspath(__file__)))
import C06


def tus(tier, seed):
    res = C06.tus(tier, seed + 1000, table='C07')
    for t in res:
        t['defines'] = t.get('defines', []) + ['VH_WITH_SHR']
    return res


RULE = C06.RULE + "; non-trivial additionally requires the checked tag (saturated, throwing, trapping)"
