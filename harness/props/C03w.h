// C03: comparisons between wide_integers of different (multi-word) widths
#include "vh.h"
#include <sstream>
using namespace cnl;
using namespace vh;
static const bool vh_strict_on = (vh::strict = true);

template<int D>
std::string dec(wide_integer<D, int> const& v)
{
    std::ostringstream o;
    o << v;
    return o.str();
}

template<int DL, int DR>
void wcmp(Rng& rng)
{
    using A = wide_integer<DL, int>;
    using B = wide_integer<DR, int>;
    std::vector<A> av;
    std::vector<B> bv;
    for (int s : {5, -5, 0, 1, -1, 123456789}) {
        av.push_back(A{s});
        bv.push_back(B{s});
    }
    for (int k : {31, 63, 64, 100, DL - 2, DL - 1}) {
        if (k > 0 && k < DL) {
            av.push_back(A{(A{1} << k) + A{5}});
            av.push_back(A{-(A{1} << k) + A{5}});
        }
    }
    for (int k : {31, 63, 64, 100, DL - 2, DL - 1, DL, DL + 1, DL + 31, DR - 2, DR - 1}) {
        if (k > 0 && k < DR) {
            bv.push_back(B{(B{1} << k) + B{5}});
            bv.push_back(B{-(B{1} << k) + B{5}});
            bv.push_back(B{(B{1} << k) - B{1}});
        }
    }
    (void)rng;
    for (A const& a : av)
        for (B const& b : bv) {
#define WC(NAME, EXPR) \
    { \
        printf("C03 wcmp " NAME " %d %d %s %s => ", DL, DR, dec<DL>(a).c_str(), dec<DR>(b).c_str()); \
        VH_RUN(EXPR, print_tv) \
    }
            WC("lt", a < b)
            WC("le", a <= b)
            WC("gt", a > b)
            WC("ge", a >= b)
            WC("eq", a == b)
            WC("ne", a != b)
        }
}
