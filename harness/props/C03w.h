// C03: comparisons between wide_integers of different types
// (single-word and multi-word storage, different widths, signed and unsigned narrowest types)
#include "vh.h"
#include <sstream>
using namespace cnl;
using namespace vh;
static const bool vh_strict_on = (vh::strict = true);

// storage width of wide_integer<D, N>
template<class W>
constexpr int storage_width = cnl::_impl::width<cnl::_impl::rep_of_t<W>>;

template<class W>
std::string dec(W const& v)
{
    if constexpr (storage_width<W> <= 8) {
        // a char-sized representation would be streamed as a character
        return std::to_string(int(cnl::_impl::to_rep(v)));
    } else {
        std::ostringstream o;
        o << v;
        return o.str();
    }
}

// boundary lattice of wide_integer<D, N> around its own limits and around the digit count / storage width
// (OD, OW) of the other operand: 2^k + 5, 2^k - 1, -2^k + 5 for k at and next to each of them
template<int D, class N, int OD, int OW>
std::vector<wide_integer<D, N>> lattice(Rng& rng)
{
    using A = wide_integer<D, N>;
    constexpr bool sgn = cnl::numbers::signedness_v<N>;
    constexpr int W = storage_width<A>;
    std::vector<A> v;
    for (int s : {5, 0, 1, 123, 123456789})
        if (W > 32 || (long long)s < (1ll << (W - 1)))
            v.push_back(A{s});
    if constexpr (sgn)
        for (int s : {-5, -1, -6})
            v.push_back(A{s});
    for (int k : {31, 63, 64, 100, D - 2, D - 1, D, W - 2, OD - 1, OD, OD + 1, OD + 31, OW - 2, OW - 1, OW, OW + 1, OW + 31}) {
        // the value must fit the storage of A (signed: k <= W-2 for 2^k + 5)
        if (k > 0 && k < W - (sgn ? 1 : 0)) {
            v.push_back(A{(A{1} << k) + A{5}});
            v.push_back(A{(A{1} << k) - A{1}});
            if constexpr (sgn)
                v.push_back(A{-(A{1} << k) + A{5}});
        }
    }
    // the extremes of the storage: all ones (the pattern of -1 in this width) for an unsigned type, the lowest
    // value of a symmetrical range, -(2^(W-1) - 1), for a signed one (kept printable on trees without the repair of
    // finding C13.most_negative_integer) -- what a negative operand of the other type must not be confused with
    if constexpr (W >= 3) {
        A const q{A{1} << (W - 2)};
        if constexpr (sgn)
            v.push_back(A{-q - (q - A{1})});
        else
            v.push_back(A{q + (q - A{1}) + q + q});
    }
    // random values of random magnitude, built 32 bits at a time
    int const nrand = 6 * scale_from_env();
    for (int i = 0; i < nrand; ++i) {
        int const bits = 1 + rng.below(W - (sgn ? 2 : 1));
        if constexpr (W <= 128) {
            // built-in storage: no arithmetic on the narrow type (it would be the harness's own overflow)
            using R = cnl::_impl::rep_of_t<A>;
            U raw = rng.next128();
            raw = bits >= 128 ? raw : (raw & ((U(1) << bits) - 1));
            bool const neg = sgn && (rng.next() & 1);
            v.push_back(A{neg ? R(-I(raw)) : R(raw)});
        } else {
            A x{0};
            for (int b = 0; b < bits; b += 16)
                x = A{(x << 16) + A{int(rng.next() & 0xffff)}};
            // keep `bits` low bits
            int const total = ((bits + 15) / 16) * 16;
            if (total > bits)
                x = A{x >> (total - bits)};
            if (sgn && (rng.next() & 1))
                x = A{-x};
            v.push_back(x);
        }
    }
    return v;
}

template<int DL, class NL, int DR, class NR>
void wcmpt(Rng& rng)
{
    using A = wide_integer<DL, NL>;
    using B = wide_integer<DR, NR>;
    std::vector<A> av = lattice<DL, NL, DR, storage_width<B>>(rng);
    std::vector<B> bv = lattice<DR, NR, DL, storage_width<A>>(rng);
    std::string const tl = tn<NL>(), tr = tn<NR>();
    for (A const& a : av)
        for (B const& b : bv) {
#define WC(NAME, EXPR) \
    { \
        printf("C03 wcmpt " NAME " %d %s %d %s %s %s => ", DL, tl.c_str(), DR, tr.c_str(), dec(a).c_str(), dec(b).c_str()); \
        VH_RUN(EXPR, print_tv) \
    }
            WC("lt", a < b)
            WC("le", a <= b)
            WC("gt", a > b)
            WC("ge", a >= b)
            WC("eq", a == b)
            WC("ne", a != b)
        }
}

template<int DL, int DR>
void wcmp(Rng& rng)
{
    wcmpt<DL, int, DR, int>(rng);
}
