"""C04 — uses the shared scaled_integer harness (C01.h) with its own section."""
import os, sys
sys.path.insert(0, os.path.dirname(os.path.abspath(__file__)))
import C01


def tus(tier, seed):
    return C01.tus(tier, seed, section='C04')


RULE = C01.RULE
