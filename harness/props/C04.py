"""C04 — conversions.  Integer<->integer via the shared scaled harness, plus floating point."""
import os, random, sys
sys.path.insert(0, os.path.dirname(os.path.abspath(__file__)))
import C01

FT = {'f32': 'float', 'f64': 'double', 'f80': 'long double'}


def fgrid(tier, seed):
    rnd = random.Random(seed * 4099 + 4)
    reps = ['i8', 'u8', 'i16', 'u16', 'i32', 'u32', 'i64', 'u64', 'i128', 'u128']
    out = [('i16', -8, 2, 'f32'), ('u8', -4, 2, 'f64'), ('i32', -16, 2, 'f32'), ('i64', -31, 2, 'f64'), ('i32', 0, 2, 'f80'),
           ('u32', 10, 2, 'f32'), ('i16', -1, 10, 'f64'), ('i64', -70, 2, 'f80'), ('u64', 70, 2, 'f64'), ('i8', -7, 2, 'f32'),
           ('i8', 63, 2, 'f64'), ('i32', -63, 2, 'f32'), ('u16', 63, 2, 'f80'), ('i64', -64, 2, 'f64'), ('i16', 62, 2, 'f32'), ('u8', 31, 2, 'f32'), ('i16', -32, 2, 'f64'),
           ('u128', -10, 2, 'f32'), ('i128', -40, 2, 'f32'), ('u128', -64, 2, 'f64'), ('i128', 0, 2, 'f80')]
    n = 31 if tier == 'quick' else 110
    while len(out) < n:
        r = rnd.choice(reps)
        rx = rnd.choice([2, 2, 2, 2, 10])
        e = rnd.choice([-70, -64, -63, -62, -53, -40, -32, -31, -24, -16, -15, -8, -4, -1, 0, 1, 5, 15, 16, 20, 31, 32, 40, 62, 63, 64, 70]) if rx == 2 else rnd.choice([-4, -2, -1, 0, 1, 2])
        c = (r, e, rx, rnd.choice(list(FT)))
        if c not in out:
            out.append(c)
    return out


def tus(tier, seed):
    res = C01.tus(tier, seed, section='C04')
    combos = fgrid(tier, seed)
    hdr = os.path.join(os.path.dirname(os.path.abspath(__file__)), 'C01.h')
    per = 3
    for i in range(0, len(combos), per):
        body = '#define SEC_C04F 1\n#include "%s"\nint main(){ install(); Rng rng(seed_from_env()+%d);\n' % (hdr, 500 + i)
        for (r, e, rx, f) in combos[i:i + per]:
            body += '  gof<%s, %d, %d, %s>(rng);\n' % (C01.CT[r], e, rx, FT[f])
        body += '}\n'
        comp = 'clang++' if (tier == 'thorough' and (i // per) % 3 == 2) else 'g++'
        res.append(dict(name='C04F_%d' % (i // per), src=body, compiler=comp))
    # different radixes (all four sign combinations of the two exponents)
    xs = [('i16', 1, 10, 'i16', 2, 2), ('i32', 2, 10, 'i32', 3, 2), ('i16', -2, 10, 'i32', -8, 2), ('i32', -1, 10, 'i16', 2, 2), ('u16', 1, 3, 'u32', -3, 2),
          ('i32', -8, 2, 'i32', -2, 10), ('u8', 1, 2, 'u16', 1, 10), ('i64', 3, 10, 'i32', 5, 2), ('i16', 2, 2, 'i16', 1, 10)]
    rnd = random.Random(seed * 13 + 4)
    for _ in range(2 if tier == 'quick' else 16):
        xs.append((rnd.choice(['i16', 'i32', 'u16', 'u32', 'i64']), rnd.randint(-3, 3), rnd.choice([10, 3]), rnd.choice(['i16', 'i32', 'u32', 'i64']), rnd.randint(-8, 8), 2))
    for i in range(0, len(xs), 4):
        body = '#define SEC_C04X 1\n#include "%s"\nint main(){ install(); Rng rng(seed_from_env()+%d);\n' % (hdr, 700 + i)
        for (a, e1, r1, b, e2, r2) in xs[i:i + 4]:
            body += '  gox<%s, %d, %d, %s, %d, %d>(rng);\n' % (C01.CT[a], e1, r1, C01.CT[b], e2, r2)
        body += '}\n'
        res.append(dict(name='C04X_%d' % (i // 4), src=body, compiler='g++'))
    # wrap/unwrap and from_rep/to_rep are exact inverses (table C04w, model CnlModel/Wrap.lean)
    whdr = os.path.join(os.path.dirname(os.path.abspath(__file__)), 'C04w.h')
    ovt = ['saturated_overflow_tag', 'trapping_overflow_tag', 'native_overflow_tag', 'undefined_overflow_tag', '_impl::throwing_overflow_tag']
    rdt = ['nearest_rounding_tag', 'tie_to_pos_inf_rounding_tag', 'neg_inf_rounding_tag', 'native_rounding_tag']
    ints = list(C01.CT)
    rnd = random.Random(seed * 71 + 44)
    def ct(t):
        return C01.CT[t]
    def nest():
        r = ct(rnd.choice(ints[:8]))
        last = None
        for _ in range(rnd.randint(0, 2)):
            # (a wrapper directly over the same kind of wrapper is not a nest the library keeps apart: kinds alternate)
            kind = rnd.choice([k for k in ('ov', 'rd') if k != last])
            last = kind
            r = 'overflow_integer<%s, %s>' % (r, rnd.choice(ovt)) if kind == 'ov' else 'rounding_integer<%s, %s>' % (r, rnd.choice(rdt))
        return rnd.choice([r, 'scaled_integer<%s, power<%d, %d>>' % (r, rnd.randint(-20, 20), rnd.choice([2, 2, 10]))])
    Ts = ['scaled_integer<std::int8_t, power<-2>>', 'scaled_integer<std::uint16_t, power<3>>', 'scaled_integer<std::int64_t, power<-3, 10>>',
          'overflow_integer<std::int16_t, saturated_overflow_tag>', 'rounding_integer<std::uint8_t, tie_to_pos_inf_rounding_tag>',
          'scaled_integer<overflow_integer<std::int8_t, saturated_overflow_tag>, power<-2>>',
          'overflow_integer<rounding_integer<std::uint32_t, neg_inf_rounding_tag>, trapping_overflow_tag>',
          'scaled_integer<overflow_integer<rounding_integer<std::int32_t, nearest_rounding_tag>, _impl::throwing_overflow_tag>, power<-8>>',
          'elastic_integer<10, int>', 'elastic_integer<%d, unsigned>' % rnd.randint(1, 32), 'scaled_integer<elastic_integer<%d, int>, power<-3>>' % rnd.randint(2, 31),
          'rounding_integer<elastic_integer<7, std::int16_t>, nearest_rounding_tag>', 'elastic_integer<40, int>', 'int', 'std::uint64_t']
    Ts += [nest() for _ in range(4 if tier == 'quick' else 24)]
    calls = []
    for T in Ts:
        vs = set([rnd.choice(ints[:8]), rnd.choice(ints), 'i32'])
        for t in ints[:8]:
            if ct(t) in T and 'elastic' not in T:
                vs.add(t)   # the archetype's own representation type
        for v in sorted(vs):
            calls.append('gow<%s, %s>(rng);' % (T, ct(v)))
            if T not in ('int', 'std::uint64_t'):
                calls.append('gor<%s, %s>(rng);' % (T, ct(v)))
    per = 14
    for i in range(0, len(calls), per):
        body = '#include "%s"\nint main(){ install(); Rng rng(seed_from_env()+%d);\n  %s\n}\n' % (whdr, 900 + i, '\n  '.join(calls[i:i + per]))
        res.append(dict(name='C04W_%d' % (i // per), src=body, compiler='clang++' if (tier == 'thorough' and (i // per) % 3 == 1) else 'g++'))
    # ---------------------------------------------------------------------------------------------------------------
    # scaled_integer over an elastic_integer / over a native-rounding nest around one: conversion to a coarser (or finer)
    # exponent and to built-in integers, in particular dropping at least as many digits as the word holding the source
    # representation is wide (table C04w ecvt, harness C04e.h, model CnlModel/ElasticNarrow.lean)
    res += etus(tier, seed)
    return res


def etus(tier, seed):
    ehdr = os.path.join(os.path.dirname(os.path.abspath(__file__)), 'C04e.h')
    rnd = random.Random(seed * 131 + 45)
    NW = {'int': (32, True), 'unsigned': (32, False), 'std::int8_t': (8, True), 'std::uint8_t': (8, False), 'std::int16_t': (16, True),
          'std::uint16_t': (16, False), 'std::int64_t': (64, True)}

    def word(n, nw):          # width of the word holding n digits over narrowest nw
        w, sg = NW[nw]
        need = n + (1 if sg else 0)
        while w < need:
            w *= 2
        return w

    def dsts(n, k, sg):      # built-in destinations that hold every quotient (n - k digits, at least none)
        left = max(n - k, 0)
        out = []
        for (t, dg, s) in (('std::int64_t', 63, True), ('std::int32_t', 31, True), ('std::uint64_t', 64, False), ('std::int8_t', 7, True), ('std::uint16_t', 16, False)):
            if left <= dg and (s or not sg):
                out.append(t)
        return out

    # --- bare elastic_integer representations (sanitized units): any k with 1 + k digits available for the divisor
    bare = []
    def add_bare(n, nw, k, eD=None, toint=None):
        sg = NW[nw][1]
        if k > (126 if sg else 127):
            return
        if eD is None:
            eD = rnd.choice([0, 0, -2, -20, 5])
        dn = n + max(0, -k)
        if dn > (63 if sg else 64):
            return
        src = 'scaled_integer<elastic_integer<%d, %s>, power<%d>>' % (n, nw, eD - k)
        bare.append('goe<%s, scaled_integer<elastic_integer<%d, %s>, power<%d>>>(rng);' % (src, dn, nw, eD))
        if toint is None:
            toint = rnd.random() < 0.5
        if toint and k >= 0:
            ds = dsts(n, k, sg)
            if ds:
                bare.append('goe<scaled_integer<elastic_integer<%d, %s>, power<%d>>, %s>(rng);' % (n, nw, -k, rnd.choice(ds)))
    for (n, nw) in [(7, 'int'), (15, 'int'), (31, 'int'), (63, 'int'), (7, 'unsigned'), (15, 'unsigned'), (31, 'unsigned'), (32, 'unsigned'), (63, 'unsigned'),
                    (64, 'unsigned'), (7, 'std::int8_t'), (8, 'std::uint8_t'), (15, 'std::int16_t'), (20, 'int'), (40, 'int'), (16, 'std::int8_t')]:
        w = word(n, nw)
        ks = set([w - 1, w, w + 1, n, n + 1])
        ks.add(rnd.choice([1, 2, max(1, n // 2), max(1, n - 1), w - 2]))
        ks.add(rnd.choice([31, 32, 33, 63, 64, 65, 70, 2 * w - 1, 2 * w, 100, 126]))
        if rnd.random() < 0.3:
            ks.add(-rnd.randint(1, 3))
        for k in sorted(ks):
            if k != 0:
                add_bare(n, nw, k)
    add_bare(31, 'int', 32, 0, True)
    add_bare(20, 'int', 40, 0, True)
    add_bare(40, 'int', 70, 0, True)
    add_bare(63, 'int', 68, -2, False)
    for _ in range(6 if tier == 'quick' else 60):
        nw = rnd.choice(['int', 'int', 'unsigned', 'std::int8_t', 'std::int16_t', 'std::uint16_t', 'std::int64_t'])
        n = rnd.randint(1, 63)
        add_bare(n, nw, rnd.choice([rnd.randint(1, 126), word(n, nw) + rnd.randint(-1, 1)]))

    # --- nests: overflow_integer<elastic_integer<N>>, static_number<N, E, native_rounding_tag, Tag>
    ovt = ['saturated_overflow_tag', 'native_overflow_tag', 'trapping_overflow_tag', '_impl::throwing_overflow_tag', 'undefined_overflow_tag']
    def nest_calls(n, nw, k, kind, tag, eD, toint):
        sg = NW[nw][1]
        dn = n + max(0, -k)
        if kind == 'safe':
            f = lambda d, e: 'scaled_integer<overflow_integer<elastic_integer<%d, %s>, %s>, power<%d>>' % (d, nw, tag, e)
        else:
            f = lambda d, e: 'static_number<%d, %d, native_rounding_tag, %s, %s>' % (d, e, tag, nw)
        out = ['goe<%s, %s>(rng);' % (f(n, eD - k), f(dn, eD))]
        if toint and k >= 0:
            ds = dsts(n, k, sg)
            if ds:
                out.append('goe<%s, %s>(rng);' % (f(n, -k), rnd.choice(ds)))
        return out
    # sanitized units: at most all the digits dropped (k <= N; an unsigned nest keeps one digit: the library's intermediate
    # elastic_integer<N - k> has no well-defined numeric_limits below that -- class C11.narrowing_drops_all_digits of C11)
    nest = []
    for (n, nw) in [(7, 'int'), (15, 'int'), (31, 'int'), (63, 'int'), (20, 'int'), (40, 'int'), (31, 'unsigned'), (32, 'unsigned'), (63, 'unsigned'), (15, 'std::int16_t')]:
        sg = NW[nw][1]
        top = n if sg else n - 1
        for k in sorted(set([top, top - 1, rnd.randint(1, top), -rnd.randint(1, 2)])):
            if k == 0:
                continue
            kind = rnd.choice(['safe', 'static'])
            if kind == 'static' and nw not in ('int', 'unsigned'):
                kind = 'safe'
            nest += nest_calls(n, nw, k, kind, rnd.choice(ovt), rnd.choice([0, 0, -5, 3]), rnd.random() < 0.4)
    # units built without the sanitizers: more digits dropped than the source has, up to and beyond the width of its word
    deep = []
    for (n, nw, k, kind, tag, eD, ti) in [(20, 'int', 40, 'safe', ovt[0], 0, True), (31, 'int', 32, 'safe', ovt[1], 0, True), (16, 'int', 70, 'safe', ovt[1], -30, False),
                                          (40, 'int', 70, 'safe', ovt[0], 0, False), (20, 'int', 35, 'static', ovt[0], -5, False), (31, 'int', 50, 'static', ovt[0], -20, True)]:
        deep += nest_calls(n, nw, k, kind, tag, eD, ti)
    for (n, nw) in [(7, 'int'), (15, 'int'), (31, 'int'), (63, 'int'), (31, 'unsigned'), (63, 'unsigned'), (7, 'std::int8_t'), (15, 'std::int16_t'), (rnd.randint(1, 62), 'int')]:
        w = word(n, nw)
        for k in sorted(set([w - 1, w, w + 1, rnd.choice([n + 1, 2 * w - 1, 2 * w, 63, 64, 70, 100])])):
            if k <= n or k > 120:
                continue
            kind = rnd.choice(['safe', 'static'])
            if kind == 'static' and nw not in ('int', 'unsigned'):
                kind = 'safe'
            deep += nest_calls(n, nw, k, kind, rnd.choice(ovt), rnd.choice([0, 0, -5, 3]), rnd.random() < 0.4)
    res = []
    per = 16
    for (nm, calls, extra) in (('C04E', bare, {}), ('C04EN', nest, {}), ('C04ED', deep, {'nosan': True})):
        for i in range(0, len(calls), per):
            body = '#include "%s"\nint main(){ install(); Rng rng(seed_from_env()+%d);\n  %s\n}\n' % (ehdr, 1300 + i, '\n  '.join(calls[i:i + per]))
            comp = 'clang++' if (tier == 'thorough' and not extra and (i // per) % 3 == 1) else 'g++'
            res.append(dict(name='%s_%d' % (nm, i // per), src=body, compiler=comp, **extra))
    return res


RULE = C01.RULE + "; floating point: all values of 8/16-bit reps, lattice + 200 random for wider reps (to float), and floats around every lattice value +- 0, 1/4, 1/2, 3/4, 1 unit plus structured floats (from float)"
RULE += "; elastic / safe / static_number representations (C04w ecvt): lattice of the declared digits (0, +-1..3, powers of two and neighbours, max, halves, thirds) + 6 random per instantiation, digits dropped k around the digit count and the word width (w-1, w, w+1), 31..126"
