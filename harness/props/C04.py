"""C04 — conversions.  Integer<->integer via the shared scaled harness, plus floating point."""
import os, random, sys
sys.path.insert(0, os.path.dirname(os.path.abspath(__file__)))
import C01

FT = {'f32': 'float', 'f64': 'double', 'f80': 'long double'}


def fgrid(tier, seed):
    rnd = random.Random(seed * 4099 + 4)
    reps = ['i8', 'u8', 'i16', 'u16', 'i32', 'u32', 'i64', 'u64', 'i128', 'u128']
    out = [('i16', -8, 2, 'f32'), ('u8', -4, 2, 'f64'), ('i32', -16, 2, 'f32'), ('i64', -31, 2, 'f64'), ('i32', 0, 2, 'f80'),
           ('u32', 10, 2, 'f32'), ('i16', -1, 10, 'f64'), ('i64', -70, 2, 'f80'), ('u64', 70, 2, 'f64'), ('i8', -7, 2, 'f32'),
           ('i8', 63, 2, 'f64'), ('i32', -63, 2, 'f32'), ('u16', 63, 2, 'f80'), ('i64', -64, 2, 'f64'), ('i16', 62, 2, 'f32'), ('u8', 31, 2, 'f32'), ('i16', -32, 2, 'f64'),
           ('u128', -10, 2, 'f32'), ('i128', -40, 2, 'f32'), ('u128', -64, 2, 'f64'), ('i128', 0, 2, 'f80')]
    n = 31 if tier == 'quick' else 110
    while len(out) < n:
        r = rnd.choice(reps)
        rx = rnd.choice([2, 2, 2, 2, 10])
        e = rnd.choice([-70, -64, -63, -62, -53, -40, -32, -31, -24, -16, -15, -8, -4, -1, 0, 1, 5, 15, 16, 20, 31, 32, 40, 62, 63, 64, 70]) if rx == 2 else rnd.choice([-4, -2, -1, 0, 1, 2])
        c = (r, e, rx, rnd.choice(list(FT)))
        if c not in out:
            out.append(c)
    return out


def tus(tier, seed):
    res = C01.tus(tier, seed, section='C04')
    combos = fgrid(tier, seed)
    hdr = os.path.join(os.path.dirname(os.path.abspath(__file__)), 'C01.h')
    per = 3
    for i in range(0, len(combos), per):
        body = '#define SEC_C04F 1\n#include "%s"\nint main(){ install(); Rng rng(seed_from_env()+%d);\n' % (hdr, 500 + i)
        for (r, e, rx, f) in combos[i:i + per]:
            body += '  gof<%s, %d, %d, %s>(rng);\n' % (C01.CT[r], e, rx, FT[f])
        body += '}\n'
        comp = 'clang++' if (tier == 'thorough' and (i // per) % 3 == 2) else 'g++'
        res.append(dict(name='C04F_%d' % (i // per), src=body, compiler=comp))
    # different radixes (all four sign combinations of the two exponents)
    xs = [('i16', 1, 10, 'i16', 2, 2), ('i32', 2, 10, 'i32', 3, 2), ('i16', -2, 10, 'i32', -8, 2), ('i32', -1, 10, 'i16', 2, 2), ('u16', 1, 3, 'u32', -3, 2),
          ('i32', -8, 2, 'i32', -2, 10), ('u8', 1, 2, 'u16', 1, 10), ('i64', 3, 10, 'i32', 5, 2), ('i16', 2, 2, 'i16', 1, 10)]
    rnd = random.Random(seed * 13 + 4)
    for _ in range(2 if tier == 'quick' else 16):
        xs.append((rnd.choice(['i16', 'i32', 'u16', 'u32', 'i64']), rnd.randint(-3, 3), rnd.choice([10, 3]), rnd.choice(['i16', 'i32', 'u32', 'i64']), rnd.randint(-8, 8), 2))
    for i in range(0, len(xs), 4):
        body = '#define SEC_C04X 1\n#include "%s"\nint main(){ install(); Rng rng(seed_from_env()+%d);\n' % (hdr, 700 + i)
        for (a, e1, r1, b, e2, r2) in xs[i:i + 4]:
            body += '  gox<%s, %d, %d, %s, %d, %d>(rng);\n' % (C01.CT[a], e1, r1, C01.CT[b], e2, r2)
        body += '}\n'
        res.append(dict(name='C04X_%d' % (i // 4), src=body, compiler='g++'))
    return res


RULE = C01.RULE + "; floating point: all values of 8/16-bit reps, lattice + 200 random for wider reps (to float), and floats around every lattice value +- 0, 1/4, 1/2, 3/4, 1 unit plus structured floats (from float)"
