// C15: literals, run-time parse, constant-driven deduction.  Everything printed here is read out of
// the objects without going through the code under test (limbs of a uintwide_t, innermost rep).
#include "vh.h"

#include <cmath>
#include <fstream>
#include <string>

using namespace cnl;
using namespace cnl::literals;
using namespace vh;

namespace c15 {
    template<class T>
    struct is_uw : std::false_type {
    };
    template<std::uint32_t W, class L, class A, bool S>
    struct is_uw<cnl::_impl::math::wide_integer::uintwide_t<W, L, A, S>> : std::true_type {
        static constexpr unsigned width = W;
        static constexpr bool is_signed = S;
    };

    // decimal text of a two's-complement number given as 32-bit limbs, least significant first
    inline void print_limbs(std::vector<std::uint32_t> l, bool is_signed)
    {
        bool neg = is_signed && !l.empty() && (l.back() >> 31);
        if (neg) {  // negate: invert and add one
            std::uint64_t c = 1;
            for (auto& x : l) {
                std::uint64_t s = std::uint64_t(std::uint32_t(~x)) + c;
                x = std::uint32_t(s);
                c = s >> 32;
            }
        }
        std::string out;
        for (;;) {
            bool nz = false;
            for (auto x : l) nz = nz || x;
            if (!nz) break;
            std::uint64_t rem = 0;
            for (std::size_t i = l.size(); i-- > 0;) {
                std::uint64_t cur = (rem << 32) | l[i];
                l[i] = std::uint32_t(cur / 1000000000u);
                rem = cur % 1000000000u;
            }
            for (int k = 0; k < 9; ++k) {
                out.push_back(char('0' + rem % 10));
                rem /= 10;
            }
        }
        while (!out.empty() && out.back() == '0') out.pop_back();
        if (out.empty()) out = "0";
        if (neg) putchar('-');
        for (std::size_t i = out.size(); i-- > 0;) putchar(out[i]);
    }

    // "<rep name>:<value>" of an innermost representation
    template<class R>
    void print_rep(R const& r)
    {
        if constexpr (is_uw<R>::value) {
            static_assert(sizeof(typename R::limb_type) == 4);
            printf("uw(%u):", is_uw<R>::width);
            auto const& rep = r.crepresentation();
            std::vector<std::uint32_t> l(rep.cbegin(), rep.cend());
            print_limbs(l, is_uw<R>::is_signed);
        } else
            print_tv(r);
    }

    // "<type>:<rep name>:<value>"
    template<class Z>
    void print_made(Z const& z)
    {
        fputs(tn<Z>().c_str(), stdout);
        putchar(':');
        print_rep(innermost(z));
    }

    // a parse<T> result: "<T>:<value>"
    template<class Z>
    void print_parsed(Z const& z)
    {
        fputs(tn<Z>().c_str(), stdout);
        putchar(':');
        auto const& r = innermost(z);
        using R = std::remove_cvref_t<decltype(r)>;
        if constexpr (is_uw<R>::value) {
            auto const& rep = r.crepresentation();
            std::vector<std::uint32_t> l(rep.cbegin(), rep.cend());
            print_limbs(l, is_uw<R>::is_signed);
        } else
            prv(r);
    }

    template<auto V>
    void print_constant(constant<V>)
    {
        printf("c(%s):", tn<std::remove_cvref_t<decltype(V)>>().c_str());
        prv(V);
        printf(":D%d", digits_v<constant<V>>);
    }

    inline void print_params(_impl::params const& p)
    {
        printf("%d %d %d %d %d %d %d", int(p.is_negative), p.base, p.stride, p.first_numeral, p.num_bits, p.num_digits,
               p.num_fractional_digits);
    }

    template<class T>
    void parse_line(char const* tok)
    {
        printf("C15 parse %s %s => ", tn<T>().c_str(), tok);
        VH_RUN(_impl::parse<T>(tok), print_parsed)
    }

    inline void scan_line(char const* tok)
    {
        printf("C15 scan %s => ", tok);
        VH_RUN(_impl::scan_string(tok, _impl::strlen(tok)), print_params)
    }

    // token stream written by C15.py: one token per line, prefixed by the tables it goes to
    // (s = scan only, p = scan and every parse<T>)
    template<class... Ts>
    void run_tokens()
    {
        char const* path = getenv("C15_TOKENS");
        if (!path) {
            fputs("C15_TOKENS not set\n", stderr);
            exit(3);
        }
        std::ifstream in(path);
        if (!in) {
            fputs("cannot read token file\n", stderr);
            exit(3);
        }
        std::string line;
        while (std::getline(in, line)) {
            if (line.size() < 3) continue;
            char kind = line[0];
            char const* tok = line.c_str() + 2;
            alarm(20);
            scan_line(tok);
            if (kind == 'p') (parse_line<Ts>(tok), ...);
            alarm(0);
        }
    }
}

////////////////////////////////////////////////////////////////////////////////
// class template argument deduction and from_value

namespace c15 {
    // hex float (never decimal)
    template<class F>
    void prf(F x)
    {
        if constexpr (std::is_same_v<F, long double>)
            printf("%La", x);
        else
            printf("%a", double(x));
    }

    // "<type>:<numerator>/<denominator>", read out of the members
    template<class Fr>
    void print_frac(Fr const& f)
    {
        fputs(tn<Fr>().c_str(), stdout);
        putchar(':');
        prv(f.numerator);
        putchar('/');
        prv(f.denominator);
    }

    // cnl::fraction{v} for the boundary lattice of a built-in integer type
    template<class S>
    void ctad_fraction_int(Rng& rng)
    {
        for (S v : vals<S>(rng, 4 * scale_from_env())) {
            printf("C15 ctad fraction %s ", tn<S>().c_str());
            prv(v);
            fputs(" => ", stdout);
            VH_RUN(cnl::fraction{v}, c15::print_frac)
        }
    }

    // cnl::fraction{n, d}: both component types deduced
    template<class N, class D>
    void ctad_fraction2(Rng& rng)
    {
        auto ns = vals<N>(rng, 2, 64);
        auto ds = vals<D>(rng, 2, 64);
        for (std::size_t i = 0; i < ns.size() + ds.size(); ++i) {
            N n = ns[i % ns.size()];
            D d = ds[(i * 7 + 3) % ds.size()];
            printf("C15 ctad fraction2 %s ", tn<N>().c_str());
            prv(n);
            printf(" %s ", tn<D>().c_str());
            prv(d);
            fputs(" => ", stdout);
            VH_RUN((cnl::fraction{n, d}), c15::print_frac)
        }
    }

    template<class F>
    struct fl;
    template<>
    struct fl<float> {
        static constexpr int prec = 24, digits = 31;
    };
    template<>
    struct fl<double> {
        static constexpr int prec = 53, digits = 63;
    };
    template<>
    struct fl<long double> {
        static constexpr int prec = 64, digits = 127;
    };

    template<class F>
    void ctad_fraction_one(F xv)
    {
        printf("C15 ctad fraction %s ", tn<F>().c_str());
        prf(xv);
        fputs(" => ", stdout);
        volatile F x = xv;
        alarm(5);
        VH_RUN(cnl::fraction{F(x)}, c15::print_frac)
        alarm(0);
    }

    // cnl::fraction{x} for floating x: values whose numerator or denominator needs every width up to the
    // one the deduction guide promises (sizeof(F) * CHAR_BIT bits), both signs
    template<class F>
    void ctad_fraction_float(Rng& rng)
    {
        constexpr int P = fl<F>::prec, W = fl<F>::digits;
        std::vector<F> v;
        auto push = [&](F x) {
            // outside +-[2^-(W-1), 2^(W-1)) no fraction of the deduced type is near the value
            F a = std::fabs(x);
            if (x != 0 && !(a < std::ldexp(F(1), W - 1) && a >= std::ldexp(F(1), -(W - 1)))) return;
            for (F y : v)
                if (y == x) return;
            v.push_back(x);
            if (x != 0) v.push_back(-x);
        };
        push(F(0));
        for (long double x : {0.5L, 0.25L, 0.1L, 1.0L / 3, 3.14285714285714285714L, 1.0L, 2.0L, 255.0L, 1e9L, 1e15L, 1e-15L, 1e19L, 1e-19L,
                              1e-9L, 1e-5L, 1e5L, 4294967295.0L, 4294967296.0L, 9007199254740991.0L, 9223372036854775807.0L,
                              9223372036854775808.0L, 18446744073709551615.0L, 18446744073709551616.0L, 1.5L, 0.75L, 1e30L, 1e-30L, 1e38L})
            push(F(x));
        // 2^k, 2^k - 1 (rounded to the format), 2^-k, (2^P - 1) * 2^-k
        for (int k : {1, 7, 8, 15, 16, 23, 24, 30, 31, 32, 33, 52, 53, 54, 61, 62, 63, 64, 65, 100, 125, 126}) {
            push(std::ldexp(F(1), k));
            push(F(std::ldexp(F(1), k) - 1));
            push(std::ldexp(F(1), -k));
            push(std::ldexp(F(3), -k));
            if (k < W - 1) push(F(std::ldexp(F(1), P) - 1) * std::ldexp(F(1), -k));
        }
        // random dyadic values m * 2^e with numerator and denominator inside the deduced width
        for (int i = 0; i < 24 * scale_from_env(); ++i) {
            int mb = 1 + rng.below(P);
            std::uint64_t m = rng.next();
            if (mb < 64) m &= (std::uint64_t(1) << mb) - 1;
            m |= 1;
            int e = -rng.below(W - 1);
            if (rng.below(3) == 0) e = rng.below(W - 1 - mb > 0 ? W - 1 - mb : 1);
            push(std::ldexp(F(m), e));
        }
        for (F x : v) ctad_fraction_one<F>(x);
    }

    inline bool ctad_wide()  // set by C15.py when the class C15.ctad_default_arguments is listed as open
    {
        static bool w = getenv("C15_CTAD_WIDE") != nullptr;
        return w;
    }

#if !defined(__clang__) || __clang_major__ >= 19  // class template argument deduction for alias templates (P1814)
    // the alias templates of the library have no deduction guides: T{v} takes the default arguments
    template<class S>
    void ctad_alias(Rng& rng)
    {
        for (S v : vals<S>(rng, 4 * scale_from_env())) {
            bool fits = std::numeric_limits<S>::digits <= 31 || (v <= S(2147483647) && (!std::is_signed_v<S> || v >= S(-2147483647 - 1)));
            if (!fits && !ctad_wide()) continue;
#define C15_CTAD(NAME, EXPR) \
    { \
        printf("C15 ctad " NAME " %s ", tn<S>().c_str()); \
        prv(v); \
        fputs(" => ", stdout); \
        VH_RUN(EXPR, c15::print_made) \
    }
            C15_CTAD("scaled_integer", cnl::scaled_integer{v})
            C15_CTAD("elastic_integer", cnl::elastic_integer{v})
            C15_CTAD("overflow_integer", cnl::overflow_integer{v})
            C15_CTAD("rounding_integer", cnl::rounding_integer{v})
            C15_CTAD("wide_integer", cnl::wide_integer{v})
            // static_integer<31> has the symmetric range: the lowest int is not held either
            if (ctad_wide() || !(std::is_signed_v<S> && std::numeric_limits<S>::digits >= 31 && (long long)v == -2147483647LL - 1)) C15_CTAD("static_integer", cnl::static_integer{v})
#undef C15_CTAD
        }
    }

    template<auto V>
    void ctad_alias_c()
    {
#define C15_CTADC(NAME, EXPR) \
    { \
        fputs("C15 ctad " NAME " c ", stdout); \
        prv(V); \
        fputs(" => ", stdout); \
        VH_RUN(EXPR, c15::print_made) \
    }
        C15_CTADC("scaled_integer", cnl::scaled_integer{cnl::constant<V>{}})
        C15_CTADC("elastic_integer", cnl::elastic_integer{cnl::constant<V>{}})
        C15_CTADC("overflow_integer", cnl::overflow_integer{cnl::constant<V>{}})
        C15_CTADC("rounding_integer", cnl::rounding_integer{cnl::constant<V>{}})
        C15_CTADC("wide_integer", cnl::wide_integer{cnl::constant<V>{}})
        if (ctad_wide() || V != -2147483647 - 1) C15_CTADC("static_integer", cnl::static_integer{cnl::constant<V>{}})
#undef C15_CTADC
    }
#endif

    // from_value<Archetype>(constant<V>): through the helper function and through the public trait
    template<class A, auto V>
    void fv_c()
    {
        static std::string const an = tn<A>();
        printf("C15 fv %s c ", an.c_str());
        prv(V);
        fputs(" => ", stdout);
        VH_RUN((cnl::_impl::from_value<A>(cnl::constant<V>{})), c15::print_made)
        printf("C15 fvt %s c ", an.c_str());
        prv(V);
        fputs(" => ", stdout);
        VH_RUN((cnl::from_value<A, cnl::constant<V>>{}(cnl::constant<V>{})), c15::print_made)
    }
    template<class A, auto... Vs>
    void fv_cs()
    {
        (fv_c<A, Vs>(), ...);
    }

    // from_value<Archetype>(v) for the boundary lattice of a built-in type
    template<class A, class S>
    void fv_v(Rng& rng)
    {
        static std::string const an = tn<A>();
        for (S v : vals<S>(rng, 2 * scale_from_env(), 64)) {
            printf("C15 fv %s %s ", an.c_str(), tn<S>().c_str());
            prv(v);
            fputs(" => ", stdout);
            VH_RUN((cnl::_impl::from_value<A>(v)), c15::print_made)
            printf("C15 fvt %s %s ", an.c_str(), tn<S>().c_str());
            prv(v);
            fputs(" => ", stdout);
            VH_RUN((cnl::from_value<A, S>{}(v)), c15::print_made)
        }
    }
    template<class A>
    void fv_vs(Rng& rng)
    {
        fv_v<A, signed char>(rng);
        fv_v<A, unsigned char>(rng);
        fv_v<A, short>(rng);
        fv_v<A, unsigned short>(rng);
        fv_v<A, int>(rng);
        fv_v<A, unsigned>(rng);
        fv_v<A, long>(rng);
        fv_v<A, unsigned long>(rng);
    }
}

// compile-time cases: KIND is c | wide | cnl | cnl2, TOK the token text, EXPR the literal expression
#define C15_LIT_C(TOK, EXPR) \
    { \
        fputs("C15 lit c " TOK " => ", stdout); \
        VH_RUN(EXPR, c15::print_constant) \
    }
#define C15_LIT(KIND, TOK, EXPR) \
    { \
        fputs("C15 lit " KIND " " TOK " => ", stdout); \
        VH_RUN(EXPR, c15::print_made) \
    }
#define C15_MK(FN, ARG, VAL, EXPR) \
    { \
        fputs("C15 mk " FN " " ARG " " VAL " => ", stdout); \
        VH_RUN(EXPR, c15::print_made) \
    }

// make_*(value) over the boundary lattice of a built-in type
template<class T>
void c15_mk_values(Rng& rng)
{
    for (T v : vals<T>(rng, 8 * scale_from_env())) {
#define C15_MKV(FN, EXPR) \
    { \
        printf("C15 mk " FN " %s ", tn<T>().c_str()); \
        prv(v); \
        fputs(" => ", stdout); \
        VH_RUN(EXPR, c15::print_made) \
    }
        C15_MKV("elastic_integer", make_elastic_integer(v))
        C15_MKV("elastic_scaled_integer", make_elastic_scaled_integer(v))
        C15_MKV("scaled_integer", make_scaled_integer(v))
        C15_MKV("static_integer", _impl::make_static_integer(v))
        C15_MKV("static_number", make_static_number(v))
#undef C15_MKV
    }
}
