// C15: literals, run-time parse, constant-driven deduction.  Everything printed here is read out of
// the objects without going through the code under test (limbs of a uintwide_t, innermost rep).
#include "vh.h"

#include <fstream>
#include <string>

using namespace cnl;
using namespace cnl::literals;
using namespace vh;

namespace c15 {
    template<class T>
    struct is_uw : std::false_type {
    };
    template<std::uint32_t W, class L, class A, bool S>
    struct is_uw<cnl::_impl::math::wide_integer::uintwide_t<W, L, A, S>> : std::true_type {
        static constexpr unsigned width = W;
        static constexpr bool is_signed = S;
    };

    // decimal text of a two's-complement number given as 32-bit limbs, least significant first
    inline void print_limbs(std::vector<std::uint32_t> l, bool is_signed)
    {
        bool neg = is_signed && !l.empty() && (l.back() >> 31);
        if (neg) {  // negate: invert and add one
            std::uint64_t c = 1;
            for (auto& x : l) {
                std::uint64_t s = std::uint64_t(std::uint32_t(~x)) + c;
                x = std::uint32_t(s);
                c = s >> 32;
            }
        }
        std::string out;
        for (;;) {
            bool nz = false;
            for (auto x : l) nz = nz || x;
            if (!nz) break;
            std::uint64_t rem = 0;
            for (std::size_t i = l.size(); i-- > 0;) {
                std::uint64_t cur = (rem << 32) | l[i];
                l[i] = std::uint32_t(cur / 1000000000u);
                rem = cur % 1000000000u;
            }
            for (int k = 0; k < 9; ++k) {
                out.push_back(char('0' + rem % 10));
                rem /= 10;
            }
        }
        while (!out.empty() && out.back() == '0') out.pop_back();
        if (out.empty()) out = "0";
        if (neg) putchar('-');
        for (std::size_t i = out.size(); i-- > 0;) putchar(out[i]);
    }

    // "<rep name>:<value>" of an innermost representation
    template<class R>
    void print_rep(R const& r)
    {
        if constexpr (is_uw<R>::value) {
            static_assert(sizeof(typename R::limb_type) == 4);
            printf("uw(%u):", is_uw<R>::width);
            auto const& rep = r.crepresentation();
            std::vector<std::uint32_t> l(rep.cbegin(), rep.cend());
            print_limbs(l, is_uw<R>::is_signed);
        } else
            print_tv(r);
    }

    // "<type>:<rep name>:<value>"
    template<class Z>
    void print_made(Z const& z)
    {
        fputs(tn<Z>().c_str(), stdout);
        putchar(':');
        print_rep(innermost(z));
    }

    // a parse<T> result: "<T>:<value>"
    template<class Z>
    void print_parsed(Z const& z)
    {
        fputs(tn<Z>().c_str(), stdout);
        putchar(':');
        auto const& r = innermost(z);
        using R = std::remove_cvref_t<decltype(r)>;
        if constexpr (is_uw<R>::value) {
            auto const& rep = r.crepresentation();
            std::vector<std::uint32_t> l(rep.cbegin(), rep.cend());
            print_limbs(l, is_uw<R>::is_signed);
        } else
            prv(r);
    }

    template<auto V>
    void print_constant(constant<V>)
    {
        printf("c(%s):", tn<std::remove_cvref_t<decltype(V)>>().c_str());
        prv(V);
        printf(":D%d", digits_v<constant<V>>);
    }

    inline void print_params(_impl::params const& p)
    {
        printf("%d %d %d %d %d %d %d", int(p.is_negative), p.base, p.stride, p.first_numeral, p.num_bits, p.num_digits,
               p.num_fractional_digits);
    }

    template<class T>
    void parse_line(char const* tok)
    {
        printf("C15 parse %s %s => ", tn<T>().c_str(), tok);
        VH_RUN(_impl::parse<T>(tok), print_parsed)
    }

    inline void scan_line(char const* tok)
    {
        printf("C15 scan %s => ", tok);
        VH_RUN(_impl::scan_string(tok, _impl::strlen(tok)), print_params)
    }

    // token stream written by C15.py: one token per line, prefixed by the tables it goes to
    // (s = scan only, p = scan and every parse<T>)
    template<class... Ts>
    void run_tokens()
    {
        char const* path = getenv("C15_TOKENS");
        if (!path) {
            fputs("C15_TOKENS not set\n", stderr);
            exit(3);
        }
        std::ifstream in(path);
        if (!in) {
            fputs("cannot read token file\n", stderr);
            exit(3);
        }
        std::string line;
        while (std::getline(in, line)) {
            if (line.size() < 3) continue;
            char kind = line[0];
            char const* tok = line.c_str() + 2;
            alarm(20);
            scan_line(tok);
            if (kind == 'p') (parse_line<Ts>(tok), ...);
            alarm(0);
        }
    }
}

// compile-time cases: KIND is c | wide | cnl | cnl2, TOK the token text, EXPR the literal expression
#define C15_LIT_C(TOK, EXPR) \
    { \
        fputs("C15 lit c " TOK " => ", stdout); \
        VH_RUN(EXPR, c15::print_constant) \
    }
#define C15_LIT(KIND, TOK, EXPR) \
    { \
        fputs("C15 lit " KIND " " TOK " => ", stdout); \
        VH_RUN(EXPR, c15::print_made) \
    }
#define C15_MK(FN, ARG, VAL, EXPR) \
    { \
        fputs("C15 mk " FN " " ARG " " VAL " => ", stdout); \
        VH_RUN(EXPR, c15::print_made) \
    }

// make_*(value) over the boundary lattice of a built-in type
template<class T>
void c15_mk_values(Rng& rng)
{
    for (T v : vals<T>(rng, 8 * scale_from_env())) {
#define C15_MKV(FN, EXPR) \
    { \
        printf("C15 mk " FN " %s ", tn<T>().c_str()); \
        prv(v); \
        fputs(" => ", stdout); \
        VH_RUN(EXPR, c15::print_made) \
    }
        C15_MKV("elastic_integer", make_elastic_integer(v))
        C15_MKV("elastic_scaled_integer", make_elastic_scaled_integer(v))
        C15_MKV("scaled_integer", make_scaled_integer(v))
        C15_MKV("static_integer", _impl::make_static_integer(v))
        C15_MKV("static_number", make_static_number(v))
#undef C15_MKV
    }
}
