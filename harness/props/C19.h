// C19: cnl::sqrt on built-in integers, elastic_integer, wide_integer and scaled_integer.
//   C19 sqrt <type> <x> => <result type>:<r> | UB | UNREACHABLE | TIMEOUT
//   C19 sweep32 <i32|u32> <lo> <hi> <count> <fails> => ok        (thorough: in-harness exhaustive search)
// <x>, <r>: innermost representation value; decimal, or 0x-hex for multi-word wide_integer.
#include "vh.h"
using namespace cnl;
using namespace vh;

////////////////////////////////////////////////////////////////////////////////
// a minimal unsigned big number (harness side only): little-endian 32-bit limbs

struct Big {
    std::vector<std::uint32_t> l;
    void norm()
    {
        while (!l.empty() && l.back() == 0) l.pop_back();
    }
    int bitlen() const
    {
        if (l.empty()) return 0;
        return int(32 * (l.size() - 1)) + (32 - __builtin_clz(l.back()));
    }
    bool operator==(Big const& o) const { return l == o.l; }
};
inline Big big_u(U v)
{
    Big b;
    while (v) {
        b.l.push_back(std::uint32_t(v));
        v >>= 32;
    }
    return b;
}
inline Big big_pow2(int k)
{
    Big b;
    b.l.assign(std::size_t(k / 32 + 1), 0);
    b.l[std::size_t(k / 32)] = 1u << (k % 32);
    return b;
}
inline Big big_mul(Big const& a, Big const& b)
{
    Big r;
    if (a.l.empty() || b.l.empty()) return r;
    r.l.assign(a.l.size() + b.l.size(), 0);
    for (std::size_t i = 0; i < a.l.size(); ++i) {
        std::uint64_t c = 0;
        for (std::size_t j = 0; j < b.l.size(); ++j) {
            std::uint64_t t = std::uint64_t(a.l[i]) * b.l[j] + r.l[i + j] + c;
            r.l[i + j] = std::uint32_t(t);
            c = t >> 32;
        }
        r.l[i + b.l.size()] = std::uint32_t(c);
    }
    r.norm();
    return r;
}
inline Big big_add(Big const& a, Big const& b)
{
    Big r;
    std::uint64_t c = 0;
    for (std::size_t i = 0; i < std::max(a.l.size(), b.l.size()) || c; ++i) {
        std::uint64_t t = c + (i < a.l.size() ? a.l[i] : 0) + (i < b.l.size() ? b.l[i] : 0);
        r.l.push_back(std::uint32_t(t));
        c = t >> 32;
    }
    r.norm();
    return r;
}
// a - 1 (a > 0)
inline Big big_dec(Big a)
{
    for (std::size_t i = 0; i < a.l.size(); ++i)
        if (a.l[i]--) break;
    a.norm();
    return a;
}
inline Big big_shr(Big const& a, int k)
{
    Big r;
    std::size_t w = std::size_t(k / 32);
    int s = k % 32;
    for (std::size_t i = w; i < a.l.size(); ++i) {
        std::uint64_t v = a.l[i];
        if (i + 1 < a.l.size()) v |= std::uint64_t(a.l[i + 1]) << 32;
        r.l.push_back(std::uint32_t(v >> s));
    }
    r.norm();
    return r;
}
inline Big big_rand(Rng& rng, int bits)  // exactly `bits` significant bits (bits >= 1)
{
    Big b;
    for (int i = 0; i < (bits + 31) / 32; ++i) b.l.push_back(std::uint32_t(rng.next()));
    int top = (bits - 1) % 32;
    b.l.back() &= (top == 31 ? ~0u : ((1u << (top + 1)) - 1));
    b.l.back() |= 1u << top;
    return b;
}
inline U big_to_u(Big const& b)
{
    U v = 0;
    for (std::size_t i = b.l.size(); i-- > 0;) v = (v << 32) | b.l[i];
    return v;
}
inline void big_print_hex(Big const& b)
{
    fputs("0x", stdout);
    if (b.l.empty()) {
        putchar('0');
        return;
    }
    printf("%x", b.l.back());
    for (std::size_t i = b.l.size() - 1; i-- > 0;) printf("%08x", b.l[i]);
}

////////////////////////////////////////////////////////////////////////////////
// building and printing numbers

template<class A>
using inner_t = std::remove_cvref_t<decltype(innermost(std::declval<A>()))>;

template<class T>
inline constexpr bool is_big_v = _impl::is_uintwide_v<T>;

// number of type A whose innermost representation has the (non-negative) value b
template<class A>
A make(Big const& b)
{
    if constexpr (_impl::is_wrapper<A>) {
        using R = _impl::rep_of_t<A>;
        static_assert(std::is_same_v<decltype(_impl::from_rep<A>(std::declval<R>())), A>);
        return _impl::from_rep<A>(make<R>(b));
    } else if constexpr (is_big_v<A>) {
        A w{};
        auto& rep = w.representation();
        using limb = std::remove_cvref_t<decltype(rep[0])>;
        constexpr int per = int(sizeof(limb)) / 4;
        static_assert(sizeof(limb) % 4 == 0 && per >= 1);
        for (std::size_t i = 0; i < rep.size(); ++i) {
            limb v = 0;
            for (int j = per - 1; j >= 0; --j) {
                std::size_t k = i * std::size_t(per) + std::size_t(j);
                std::uint32_t part = k < b.l.size() ? b.l[k] : 0;
                if constexpr (per > 1)
                    v = limb((v << 32) | part);
                else
                    v = limb(part);
            }
            rep[i] = v;
        }
        return w;
    } else
        return A(big_to_u(b));
}
template<class A>
A make_signed(I v)  // for the negative (malformed) stream; built-in innermost types only
{
    if constexpr (_impl::is_wrapper<A>) {
        using R = _impl::rep_of_t<A>;
        return _impl::from_rep<A>(make_signed<R>(v));
    } else
        return A(v);
}

template<class Z>
void pr_inner(Z const& z)
{
    if constexpr (is_big_v<Z>) {
        Big b;
        auto const& rep = z.crepresentation();
        using limb = std::remove_cvref_t<decltype(rep[0])>;
        for (std::size_t i = 0; i < rep.size(); ++i) {
            limb v = rep[i];
            for (std::size_t j = 0; j < sizeof(limb) / 4; ++j) {
                b.l.push_back(std::uint32_t(v));
                if constexpr (sizeof(limb) > 4) v = limb(v >> 32);
            }
        }
        b.norm();
        big_print_hex(b);
    } else
        prv(z);
}
template<class Z>
void print19(Z const& z)
{
    fputs(tn<Z>().c_str(), stdout);
    putchar(':');
    pr_inner(innermost(z));
}

////////////////////////////////////////////////////////////////////////////////
// running one case; a hanging loop is reported as TIMEOUT, and after three of them the
// harness stops (the lines printed so far already show the failure)

inline int n_timeouts = 0;
inline long n_cases = 0;

template<class A>
void run_case(A const& a, bool hex, Big const* b, I sv)
{
    if ((n_cases++ & 255) == 0) alarm(3);
    printf("C19 sqrt %s ", tn<A>().c_str());
    if (b) {
        if (hex)
            big_print_hex(*b);
        else
            pru(big_to_u(*b));
    } else
        pri(sv);
    fputs(" => ", stdout);
    int vh_rc = sigsetjmp(vh::jb, 1);
    if (vh_rc == 0) {
        // a checked overflow_integer reports through the hook (trapping / undefined tags: TRAP+ TRAP- UNREACHABLE)
        // or by exception (throwing tag: THROW+ THROW-)
        try {
            auto z = cnl::sqrt(a);
            print19(z);
        } catch (std::overflow_error const& e) {
            vh::print_throw(e);
        }
    } else {
        vh::print_fail(vh_rc);
        if (vh_rc == SIGALRM) {
            ++n_timeouts;
            alarm(3);
        }
    }
    putchar('\n');
    if (n_timeouts >= 3) {
        fflush(stdout);
        alarm(0);
        _exit(0);
    }
}

////////////////////////////////////////////////////////////////////////////////
// inputs for a type with D value digits: small values, top of the range, powers of two and
// neighbours, perfect squares k*k with k*k-1, k*k+1, k*k+k, k*k+2k (= (k+1)^2-1) for lattice
// and random k, random values of random bit length

inline void push_big(std::vector<Big>& v, Big const& b, int D)
{
    if (b.bitlen() > D) return;
    for (auto const& y : v)
        if (y == b) return;
    v.push_back(b);
}

// floor(sqrt(2) * 2^127)
inline U sqrt2_127() { return (U(0xB504F333F9DE6484ull) << 64) | 0x597D89B3754ABE9Full; }

inline void around_square(std::vector<Big>& v, Big const& k, int D)
{
    Big sq = big_mul(k, k);
    if (sq.bitlen() > D) return;
    if (!sq.l.empty()) push_big(v, big_dec(sq), D);
    push_big(v, sq, D);
    push_big(v, big_add(sq, big_u(1)), D);
    push_big(v, big_add(sq, k), D);
    push_big(v, big_add(sq, big_add(k, k)), D);
}

inline std::vector<Big> values(int D, Rng& rng, int nrand)
{
    std::vector<Big> v;
    for (unsigned d = 0; d <= 5; ++d) push_big(v, big_u(d), D);
    Big top = big_dec(big_pow2(D));
    for (int d = 0; d < 3 && !top.l.empty(); ++d) {
        push_big(v, top, D);
        top = big_dec(top);
    }
    int step = D > 128 ? 7 : D > 64 ? 5 : D > 32 ? 3 : 1;
    for (int j = 1; j < D; j += step) {
        Big p = big_pow2(j);
        push_big(v, big_dec(p), D);
        push_big(v, p, D);
        push_big(v, big_add(p, big_u(1)), D);
    }
    // squares around lattice roots
    int H = (D + 1) / 2;
    for (int j = 0; j <= H; j += (H > 64 ? 5 : H > 16 ? 2 : 1)) {
        Big p = big_pow2(j);
        around_square(v, p, D);
        around_square(v, big_dec(p), D);
        around_square(v, big_add(p, big_u(1)), D);
    }
    // the largest root of the type: 2^(D/2) - 1 for even D, floor(sqrt(2) * 2^((D-1)/2)) for odd D
    if (D % 2 == 0) {
        Big k = big_dec(big_pow2(D / 2));
        around_square(v, k, D);
        around_square(v, big_dec(k), D);
    } else if ((D - 1) / 2 <= 127) {
        Big k = big_shr(big_u(sqrt2_127()), 127 - (D - 1) / 2);
        around_square(v, k, D);
        if (!k.l.empty()) around_square(v, big_dec(k), D);
        around_square(v, big_add(k, big_u(1)), D);
    }
    for (int i = 0; i < nrand; ++i) {
        Big k = big_rand(rng, 1 + rng.below(H));
        if (i % 4 == 0) k = big_rand(rng, H);  // dense at the top of the range
        around_square(v, k, D);
        v.push_back(big_rand(rng, 1 + rng.below(D)));
        if (i % 4 == 0) v.push_back(big_rand(rng, D));
    }
    return v;
}

// does any layer of A check for overflow (overflow_integer with any tag but native_overflow_tag)?  For such types a
// representation value beyond the digits of an inner elastic/wide type is not merely "outside the property": the checked
// operators may report it, so that stream is left out
template<class A>
constexpr bool has_checked_layer()
{
    if constexpr (_impl::is_wrapper<A>) {
        using Tag = _impl::tag_of_t<A>;
        if constexpr (_impl::is_overflow_tag<Tag>::value && !std::is_same_v<Tag, native_overflow_tag>)
            return true;
        else
            return has_checked_layer<_impl::rep_of_t<A>>();
    } else
        return false;
}

// D = digits of the values the property quantifies over (elastic/wide: Digits; built-in: digits of the type)
template<class A>
constexpr int value_digits()
{
    if constexpr (_impl::is_wrapper<A>) {
        using R = _impl::rep_of_t<A>;
        if constexpr (_impl::is_wrapper<R>)
            return value_digits<R>();  // scaled_integer over elastic/wide: the digits of the representation
        else
            return digits_v<A>;  // elastic_integer / wide_integer: Digits; scaled_integer over a built-in: its digits
    } else
        return digits_v<A>;
}

template<class A>
void go(Rng& rng, int nrand, bool exh)
{
    using T = inner_t<A>;
    constexpr int D = value_digits<A>();
    constexpr bool hex = is_big_v<T>;
    constexpr int RD = digits_v<T>;  // digits of the innermost storage
    nrand *= scale_from_env();
    if (D <= 8 || (D <= 16 && exh)) {
        // exhaustive over the property's values
        for (unsigned x = 0; x < (1u << (D <= 16 ? D : 0)); ++x) {
            Big b = big_u(x);
            run_case(make<A>(b), hex, &b, 0);
        }
    } else {
        for (Big const& b : values(D, rng, nrand)) run_case(make<A>(b), hex, &b, 0);
    }
    // outside the property: representation values beyond the digits of an elastic/wide type
    if constexpr (!hex && RD > D && !has_checked_layer<A>()) {
        for (Big b : {big_pow2(D), big_add(big_pow2(D), big_u(1)), big_dec(big_pow2(RD)), big_dec(big_dec(big_pow2(RD)))})
            if (b.bitlen() <= RD) run_case(make<A>(b), hex, &b, 0);
        for (int i = 0; i < 8; ++i) {
            Big b = big_rand(rng, D + 1 + rng.below(RD - D));
            run_case(make<A>(b), hex, &b, 0);
        }
    }
    // outside the property: negative values (CNL_ASSERT)
    if constexpr (!hex && (std::is_signed_v<T> || std::is_same_v<T, I>)) {
        I lo = I(std::numeric_limits<T>::lowest());
        for (I s : {I(-1), I(-2), lo, lo + 1, lo / 2, I(-4), I(-9)}) run_case(make_signed<A>(s), hex, nullptr, s);
        for (int i = 0; i < 4; ++i) {
            I s = -I(big_to_u(big_rand(rng, 1 + rng.below(RD))));
            run_case(make_signed<A>(s), hex, nullptr, s);
        }
    }
}

////////////////////////////////////////////////////////////////////////////////
// thorough tier: exhaustive search over a range of 32-bit values, checked in 64-bit arithmetic

template<class T>
void sweep32(std::uint64_t lo, std::uint64_t hi)
{
    static volatile std::uint64_t cur;
    static std::uint64_t count, fails;
    cur = lo;
    count = fails = 0;
    alarm(0);
    for (;;) {
        int rc = sigsetjmp(vh::jb, 1);
        if (rc != 0) {
            // the case at `cur` trapped / asserted / hung: an ordinary protocol line
            printf("C19 sqrt %s %llu => ", tn<T>().c_str(), (unsigned long long)cur);
            vh::print_fail(rc);
            putchar('\n');
            ++fails;
            ++count;
            cur = cur + 1;
            if (fails > 50) break;
            continue;
        }
        alarm(120);
        std::uint64_t x = cur;
        for (; x < hi; ++x) {
            cur = x;
            auto r = cnl::sqrt(T(x));
            std::uint64_t q = std::uint64_t(r);
            ++count;
            if (!(r >= 0 && q * q <= x && x < (q + 1) * (q + 1))) {
                printf("C19 sqrt %s %llu => ", tn<T>().c_str(), (unsigned long long)x);
                print_tv(r);
                putchar('\n');
                if (++fails > 50) break;
            }
        }
        break;
    }
    alarm(0);
    printf("C19 sweep32 %s %llu %llu %llu %llu => ok\n", tn<T>().c_str(), (unsigned long long)lo, (unsigned long long)hi,
           (unsigned long long)count, (unsigned long long)fails);
}
