"""C08 — division under a rounding mode.  Grid: rounding tag x rep pairs."""
import random

CT = {'i8': 'std::int8_t', 'u8': 'std::uint8_t', 'i16': 'std::int16_t', 'u16': 'std::uint16_t',
      'i32': 'std::int32_t', 'u32': 'std::uint32_t', 'i64': 'std::int64_t', 'u64': 'std::uint64_t'}
TAGS = {'nat': 'native_rounding_tag', 'nrst': 'nearest_rounding_tag', 'tpi': 'tie_to_pos_inf_rounding_tag', 'ninf': 'neg_inf_rounding_tag'}


def grid(tier, seed):
    rnd = random.Random(seed * 31337 + 8)
    out = []
    # exhaustive 8-bit pairs: every tag, signedness mixes rotate with the seed
    mixes = [('i8', 'i8'), ('u8', 'u8'), ('i8', 'u8'), ('u8', 'i8')]
    for k, tag in enumerate(TAGS):
        out.append((tag, *mixes[(k + seed) % 4], True))
        out.append((tag, *mixes[(k + seed + 1) % 4], True))
    # same-type lattice for 16/32/64-bit signed and unsigned
    for tag in TAGS:
        for t in ['i16', 'u16', 'i32', 'u32', 'i64', 'u64']:
            out.append((tag, t, t, False))
    # mixed widths/signedness
    n = 12 if tier == 'quick' else 80
    for _ in range(n):
        out.append((rnd.choice(list(TAGS)), rnd.choice(list(CT)), rnd.choice(list(CT)), False))
    if tier == 'thorough':
        for tag in TAGS:
            for m in mixes:
                out.append((tag, *m, True))
    seen, res = set(), []
    for c in out:
        if c not in seen:
            seen.add(c)
            res.append(c)
    return res


def tus(tier, seed):
    combos = grid(tier, seed)
    per = 3
    res = []
    for i in range(0, len(combos), per):
        body = '#include "%s"\nint main(){ install(); Rng rng(seed_from_env()+%d);\n' % (__file__.replace('.py', '.h'), i)
        for (tag, l, r, ex) in combos[i:i + per]:
            body += '  go<%s, %s, %s>(rng, %s);\n' % (TAGS[tag], CT[l], CT[r], 'true' if ex else 'false')
        body += '}\n'
        res.append(dict(name='C08_%d' % (i // per), src=body, compiler='g++'))
        if tier == 'thorough' and (i // per) % 4 == 0:
            res.append(dict(name='C08_%d_clang' % (i // per), src=body, compiler='clang++'))
    # wrapper (op) built-in integer on either side, comparisons; division by cnl::constant<N>
    rnd = random.Random(seed * 53 + 1)
    mixed = [('nrst', 'i8', 'i32'), ('tpi', 'u8', 'i16'), ('ninf', 'i16', 'u32'), ('nat', 'i8', 'i64'), ('nrst', 'u32', 'i64'), ('tpi', 'i32', 'i8')]
    for _ in range(2 if tier == 'quick' else 16):
        mixed.append((rnd.choice(list(TAGS)), rnd.choice(list(CT)), rnd.choice(list(CT))))
    for i in range(0, len(mixed), 2):
        body = '#include "%s"\nint main(){ install(); Rng rng(seed_from_env()+3000+%d);\n' % (__file__.replace('.py', '.h'), i)
        for (tag, l, r) in mixed[i:i + 2]:
            body += '  gom<%s, %s, %s>(rng);\n' % (TAGS[tag], CT[l], CT[r])
        body += '}\n'
        res.append(dict(name='C08_mixed_%d' % (i // 2), src=body, compiler='g++'))
    consts = [2, 4, 3, 8, -2, 16, 1024, 7, -4, 5000000000]
    body = '#include "%s"\nint main(){ install(); Rng rng(seed_from_env()+4000);\n' % (__file__.replace('.py', '.h'))
    k = 0
    for tag in TAGS:
        for t in ['i8', 'u8', 'i32', 'u32', 'i64', 'u64', 'i16']:
            n = consts[(k + seed) % len(consts)]
            k += 1
            body += '  divc<%s, %s, %dLL, %s>(rng);\n' % (TAGS[tag], CT[t], n, 'std::int32_t' if abs(n) < 2**31 else 'std::int64_t')
            # constants of other value types (unsigned 8/16-bit ones included)
            cts = [c for c in ['std::uint8_t', 'std::uint16_t', 'std::int8_t', 'std::int16_t', 'std::int32_t']
                   if (n >= 0 or 'uint' not in c) and abs(n) < (1 << (int(''.join(ch for ch in c if ch.isdigit())) - 1))]
            if cts:
                body += '  divc<%s, %s, %dLL, std::int32_t, %s>(rng);\n' % (TAGS[tag], CT[t], n, cts[(k + seed) % len(cts)])
    body += '}\n'
    res.append(dict(name='C08_const', src=body, compiler='g++'))
    # numbers made by make_static_integer<RoundingTag>(constant / run-time value) divided by built-in integers
    rnd2 = random.Random(seed * 97 + 8)
    vs = [-7, 7, 1, -1, -100, 12345, 5000000000, -(1 << 40), 2147483647, -2147483647, 9, -9, 15, -15] + [rnd2.randint(-10**6, 10**6) or 3 for _ in range(4)]
    body = '#include "%s"\nint main(){ install(); Rng rng(seed_from_env()+5000);\n' % (__file__.replace('.py', '.h'))
    for tag in TAGS:
        for v in vs:
            body += '  msi<%s, %dLL>(rng);\n' % (TAGS[tag], v)
    body += '}\n'
    res.append(dict(name='C08_msi', src=body, compiler='g++'))
    # numbers with a rounding tag and an elastic layer (either nest order), static_integer, static_number: / and % for
    # all four signedness mixes of dividend and divisor (kind operands and built-in int / unsigned operands on either side)
    H = __file__.replace('.py', '.h')
    pool = [(8, 7), (7, 8), (12, 5), (5, 12), (16, 15), (20, 9), (9, 20), (3, 3), (1, 6), (24, 2), (13, 13)]
    rnd3 = random.Random(seed * 131 + 8)
    NN = {True: 'int', False: 'unsigned'}
    ki = 0
    for kind in ['re', 'er', 'si', 'sn']:
        for tag in TAGS:
            ki += 1
            T = TAGS[tag]
            K = lambda d, sg: 'K_%s<%d, %s, %s>' % (kind, d, NN[sg], T)
            body = '#include "%s"\nint main(){ install(); Rng rng(seed_from_env()+6000+%d);\n' % (H, ki)
            for j, (sl, sr) in enumerate([(False, True), (True, False), (True, True), (False, False)]):
                dl, dr = (8, 7) if (j == 0 and (ki + seed) % 3 == 0) else rnd3.choice(pool)
                body += '  nst<%s, %s, %s>(rng, "%s", %d, %s, %d, %s);\n' % (T, K(dl, sl), K(dr, sr), kind, dl, str(sl).lower(), dr, str(sr).lower())
            d1, d2, d3 = rnd3.choice([8, 11, 16, 23]), rnd3.choice([4, 8, 15]), rnd3.choice([6, 9, 17])
            s2, s3 = rnd3.random() < .5, rnd3.random() < .5
            body += '  nst<%s, %s, int>(rng, "%s", %d, false, 0, true);\n' % (T, K(d1, False), kind, d1)
            body += '  nst<%s, int, %s>(rng, "%s", 0, true, %d, %s);\n' % (T, K(d2, s2), kind, d2, str(s2).lower())
            if rnd3.random() < .5:
                body += '  nst<%s, %s, unsigned>(rng, "%s", %d, %s, 0, false);\n' % (T, K(d3, s3), kind, d3, str(s3).lower())
            else:
                body += '  nst<%s, unsigned, %s>(rng, "%s", 0, false, %d, %s);\n' % (T, K(d3, s3), kind, d3, str(s3).lower())
            body += '}\n'
            res.append(dict(name='C08_nst_%s_%s' % (kind, tag), src=body, compiler='g++'))
            if tier == 'thorough' and ki % 4 == 0:
                res.append(dict(name='C08_nst_%s_%s_clang' % (kind, tag), src=body, compiler='clang++'))
    # an overflow-checked number combined with a rounding tag, either nest order, 8- and 16-bit representations
    # (lowest / -1 is always among the values: the quotient fits the int result, no overflow signal may occur)
    OT = ['saturated_overflow_tag', '_impl::throwing_overflow_tag', 'trapping_overflow_tag', 'undefined_overflow_tag', 'native_overflow_tag']
    narrow = ['i8', 'u8', 'i16', 'u16']
    ki = 0
    for tag in TAGS:
        for outside in ['true', 'false']:
            ki += 1
            body = '#include "%s"\nint main(){ install(); Rng rng(seed_from_env()+7000+%d);\n' % (H, ki)
            for ot in OT:
                pairs = [('i8', 'i8'), ('i16', 'i16'), (rnd3.choice(narrow), rnd3.choice(narrow))]
                for (l, r) in pairs:
                    ex = 'true' if (tier == 'thorough' and l == 'i8' and r == 'i8') else 'false'
                    body += '  ovr<%s, %s, %s, %s, %s>(rng, %s);\n' % (TAGS[tag], ot, CT[l], CT[r], outside, ex)
            body += '}\n'
            res.append(dict(name='C08_ovr_%s_%s' % (tag, 'or' if outside == 'true' else 'ro'), src=body, compiler='g++'))
    return res


RULE = ("nst/ovr: digit-range boundary lattice + ties + seeded random, all four signedness mixes, negative divisors, lowest / -1; "
        "all (a, b) pairs for 8-bit reps; boundary lattice + tie/near-tie dividends q*b +- b/2 +- 1 + seeded random for wider reps; "
        "non-trivial = divisor non-zero and the correctly rounded quotient is representable (for the other operators: the built-in operation is defined)")
