// C18: bit and digit-counting utilities (cnl/bit.h, cnl/numeric.h, cnl/_impl/used_digits.h)
//
// protocol lines   C18 <function> <cfg> <T> <x> [<s> | <radix>] => <result incl. its type>
//   cfg = ig  GCC, CNL_GCC_INTRINSICS_ENABLED (all intrinsic specialisations)
//         ic  Clang, CNL_GCC_INTRINSICS_ENABLED (clz/popcount intrinsics; generic ctz/clrsb)
//         gen CNL_USE_GCC_INTRINSICS=0 (generic recursive definitions for every width)
// C18_SWEEP: supplementary in-harness search over all 2^32 values against <bit> (thorough tier)
#include "vh.h"

#include <bit>
using namespace vh;

#if defined(CNL_GCC_INTRINSICS_ENABLED)
#if defined(__clang__)
#define CFG "ic"
#else
#define CFG "ig"
#endif
#else
#define CFG "gen"
#endif

template<class T>
void head(char const* name, T x)
{
    printf("C18 %s " CFG " %s ", name, tn<T>().c_str());
    prv(x);
}
#define ONE(NAME, EXPR) \
    { \
        head(NAME, x); \
        fputs(" => ", stdout); \
        VH_RUN(EXPR, print_tv) \
    }
#define TWO(NAME, ARG, EXPR) \
    { \
        head(NAME, x); \
        printf(" %u => ", unsigned(ARG)); \
        VH_RUN(EXPR, print_tv) \
    }

// the <bit>-like functions, unsigned operands only
template<class T>
void bits_unsigned(T x)
{
    ONE("countl_zero", cnl::countl_zero(x))
    ONE("countl_one", cnl::countl_one(x))
    ONE("countr_zero", cnl::countr_zero(x))
    ONE("countr_one", cnl::countr_one(x))
    ONE("popcount", cnl::popcount(x))
    ONE("ispow2", cnl::ispow2(x))
    ONE("ceil2", cnl::ceil2(x))
    ONE("floor2", cnl::floor2(x))
    ONE("log2p1", cnl::log2p1(x))
}

// the CNL additions, signed and unsigned operands
template<class T>
void bits_any(T x)
{
    if constexpr (std::is_signed_v<T> || std::is_same_v<T, I>) ONE("countl_rsb", cnl::countl_rsb(x))
    ONE("countl_rb", cnl::countl_rb(x))
    ONE("countr_used", cnl::countr_used(x))
    ONE("used_digits", cnl::used_digits(x))
    ONE("leading_bits", cnl::leading_bits(x))
    ONE("trailing_bits", cnl::trailing_bits(x))
}

template<class T>
void radix_digits(T x)
{
    for (int r : {3, 10, 16}) TWO("used_digits_r", r, cnl::used_digits(x, r))
}

template<class T>
void rot(T x, unsigned s)
{
    TWO("rotl", s, cnl::rotl(x, s))
    TWO("rotr", s, cnl::rotr(x, s))
}

template<class T>
std::vector<unsigned> rot_counts(Rng& rng, bool all)
{
    constexpr unsigned w = cnl::digits_v<T>;
    std::vector<unsigned> c;
    if (all)
        for (unsigned s = 0; s <= 2 * w; ++s) c.push_back(s);
    else {
        if constexpr (sizeof(T) == 2) {
            // exhaustive 16-bit values: the multiples of the width and one random count per value
            for (unsigned s : {0u, w, 2 * w}) c.push_back(s);
        } else
            for (unsigned s : {0u, 1u, w - 1, w, w + 1, 2 * w}) c.push_back(s);
        c.push_back(unsigned(rng.below(int(2 * w + 1))));
    }
    return c;
}
template<class T>
std::vector<unsigned> big_counts(Rng& rng)
{
    constexpr unsigned w = cnl::digits_v<T>;
    return {3 * w, 4 * w + 1, 0x80000000u, 0xFFFFFFFFu, 0xFFFFFFFFu / w * w, unsigned(rng.next()), unsigned(rng.next()) / w * w};
}

// T unsigned.  exhaustive: every value of T (8/16-bit); otherwise boundary lattice (every power of two and
// its neighbours) + seeded structured random values
template<class T>
void go_unsigned(Rng& rng, bool all_rot_counts)
{
    std::vector<T> xs;
    bool exhaustive = sizeof(T) <= 2;
    if constexpr (sizeof(T) <= 2)
        xs = all_vals<T>();
    else
        xs = vals<T>(rng, 3000 * scale_from_env(), 1);
    for (T x : xs) {
        bits_unsigned(x);
        bits_any(x);
    }
    // rotations: every count 0..2w on the lattice (on every value if all_rot_counts), corner counts elsewhere
    Rng r2(rng.next());
    auto lat = vals<T>(r2, 40, 1);
    auto every = rot_counts<T>(rng, true);
    auto big = big_counts<T>(rng);
    for (T x : lat) {
        for (unsigned s : every) rot(x, s);
        for (unsigned s : big) rot(x, s);
        radix_digits(x);
    }
    std::size_t n = 0;
    for (T x : xs) {
        if (!exhaustive && ++n > 1500u * unsigned(scale_from_env())) break;
        if (all_rot_counts)
            for (unsigned s : every) rot(x, s);
        else
            for (unsigned s : rot_counts<T>(rng, false)) rot(x, s);
    }
}

template<class T>
void go_signed(Rng& rng)
{
    std::vector<T> xs;
    if constexpr (sizeof(T) <= 2)
        xs = all_vals<T>();
    else
        xs = vals<T>(rng, 3000 * scale_from_env(), 1);
    for (T x : xs) bits_any(x);
    Rng r2(rng.next());
    for (T x : vals<T>(r2, 40, 1)) radix_digits(x);
}

////////////////////////////////////////////////////////////////////////////////
// supplementary search (thorough tier): all 2^32 values of the 32-bit functions against <bit>.
// Not part of the model tie: only a summary line and any mismatching input (as ordinary protocol lines,
// which the driver then judges) are printed.
#if defined(C18_SWEEP)
inline volatile std::uint32_t sweep_x;

template<class T>
void report(char const* name, T x)
{
    // re-evaluate through the ordinary per-case machinery
    if (!strcmp(name, "countl_zero")) ONE("countl_zero", cnl::countl_zero(x))
    if (!strcmp(name, "countl_one")) ONE("countl_one", cnl::countl_one(x))
    if (!strcmp(name, "countr_zero")) ONE("countr_zero", cnl::countr_zero(x))
    if (!strcmp(name, "countr_one")) ONE("countr_one", cnl::countr_one(x))
    if (!strcmp(name, "popcount")) ONE("popcount", cnl::popcount(x))
    if (!strcmp(name, "ispow2")) ONE("ispow2", cnl::ispow2(x))
    if (!strcmp(name, "ceil2")) ONE("ceil2", cnl::ceil2(x))
    if (!strcmp(name, "floor2")) ONE("floor2", cnl::floor2(x))
    if (!strcmp(name, "log2p1")) ONE("log2p1", cnl::log2p1(x))
}

inline char const* const sweep_names[] = {"countl_zero", "countl_one", "countr_zero", "countr_one", "popcount", "ispow2",
                                          "ceil2", "floor2", "log2p1", "rotl", "rotr", "countl_rsb", "used_digits", "trailing_bits"};

inline int bump(volatile int& r)
{
    int v = r + 1;
    r = v;
    return v;
}

// one chunk [lo, hi] of the 32-bit space; returns number of mismatching (function, input) pairs
inline unsigned long long sweep(std::uint64_t lo, std::uint64_t hi, unsigned s1, unsigned s2)
{
    // modified between sigsetjmp and a possible siglongjmp: must not live in registers
    volatile unsigned long long bad = 0, calls = 0;
    volatile std::uint64_t next = lo;
    volatile int restarts = 0;
    while (next <= hi) {
        int rc = sigsetjmp(jb, 1);
        if (rc != 0) {
            armed = 0;
            // a trap inside the sweep: report the input through the per-case path and go on after it
            bad = bad + 1;
            // and the remaining functions were not examined for this input: hand every function of this input
            // to the per-case path (the driver judges the lines)
            std::uint32_t x = sweep_x;
            if (bump(restarts) <= 64) {
                bits_unsigned(x);
                bits_any(x);
                for (unsigned s : {s1, s2, 0u, 32u}) rot(x, s);
                {
                    std::int32_t v = std::int32_t(x);
                    auto x = v;
                    bits_any(x);
                }
            }
            next = std::uint64_t(x) + 1;
            continue;
        }
        for (std::uint64_t i = next; i <= hi; ++i) {
            std::uint32_t x = std::uint32_t(i);
            sweep_x = x;
            armed = 1;  // traps raised by the code under test are expected here (vh.h rejects them elsewhere)
#define SW(N, NAME, CNL, STD) \
    if ((CNL) != (STD)) { \
        bad = bad + 1; \
        if (bump(restarts) <= 64) report(NAME, x); \
    }
            SW(0, "countl_zero", cnl::countl_zero(x), std::countl_zero(x))
            SW(1, "countl_one", cnl::countl_one(x), std::countl_one(x))
            SW(2, "countr_zero", cnl::countr_zero(x), std::countr_zero(x))
            SW(3, "countr_one", cnl::countr_one(x), std::countr_one(x))
            SW(4, "popcount", cnl::popcount(x), std::popcount(x))
            SW(5, "ispow2", cnl::ispow2(x), std::has_single_bit(x))
            if (x <= 0x80000000u) {
                SW(6, "ceil2", cnl::ceil2(x), (x ? std::bit_ceil(x) : 0u))
            }
            SW(7, "floor2", cnl::floor2(x), std::bit_floor(x))
            SW(8, "log2p1", cnl::log2p1(x), int(std::bit_width(x)))
            for (unsigned s : {s1, s2, 0u, 32u}) {
                if (cnl::rotl(x, s) != std::rotl(x, int(s % 32u)) || cnl::rotr(x, s) != std::rotr(x, int(s % 32u))) {
                    bad = bad + 1;
                    if (bump(restarts) <= 64) rot(x, s);
                }
            }
            {
                std::int32_t v = std::int32_t(x);
                std::uint32_t m = v < 0 ? ~x : x;  // value bits of the two's-complement form
                int bl = int(std::bit_width(m));
                if (cnl::countl_rsb(v) != 31 - bl || cnl::used_digits(v) != bl || cnl::leading_bits(v) != 31 - bl
                    || cnl::countr_used(v) != bl || cnl::trailing_bits(v) != (x ? std::countr_zero(x) : 0)
                    || cnl::used_digits(x) != int(std::bit_width(x)) || cnl::trailing_bits(x) != (x ? std::countr_zero(x) : 0)) {
                    bad = bad + 1;
                    if (bump(restarts) <= 64) {
                        auto x = v;
                        bits_any(x);
                    }
                }
            }
            calls = calls + 24;
        }
        armed = 0;
        next = hi + 1;
    }
    printf("C18 sweep32 " CFG " %llu %llu %llu => %llu\n", (unsigned long long)lo, (unsigned long long)hi, (unsigned long long)calls, (unsigned long long)bad);
    return bad;
}
#endif
