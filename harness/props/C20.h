// C20: cnl::exp2 on scaled_integer<Rep, power<E>> and the <numbers> constants of scaled_integer.
// Lines:  C20 exp2 <rep type> <E> <rep value> => <rep of exp2(x)> | UB
//         C20 num <constant> <rep type> <E> => <stored rep>
//         C20 ser <pi|e> <rep type> <E> => <rep returned by the series procedure _impl::pi/e<Rep,E>()>
#include "vh.h"
#include <numbers>
using namespace cnl;
using namespace vh;

template<class Rep, int E>
void one(Rep r)
{
    using T = scaled_integer<Rep, power<E>>;
    printf("C20 exp2 %s %d ", tn<Rep>().c_str(), E);
    prv(r);
    fputs(" => ", stdout);
    VH_RUN(_impl::to_rep(cnl::exp2(_impl::from_rep<T>(r))), prv)
}

// every value of an 8/16-bit rep
template<class Rep, int E>
void sweep_all()
{
    static_assert(sizeof(Rep) <= 2);
    long lo = std::numeric_limits<Rep>::lowest(), hi = std::numeric_limits<Rep>::max();
    for (long x = lo; x <= hi; ++x) one<Rep, E>(Rep(x));
}

// boundary lattice + integral inputs and their neighbours + dense seeded random (uniform and short fractions)
template<class Rep, int E>
void sweep_rand(Rng& rng, int n)
{
    using L = std::numeric_limits<Rep>;
    std::vector<Rep> v = vals<Rep>(rng, 8);
    constexpr int F = E < 0 ? -E : 0;
    if constexpr (F > 0 && F < L::digits) {
        for (long long k = -(L::digits - F) - 2; k <= (L::digits - F) + 1; ++k) {
            __int128 x = (__int128)k << F;
            for (int d = -2; d <= 2; ++d) {
                __int128 y = x + d;
                if (y >= (__int128)L::lowest() && y <= (__int128)L::max()) v.push_back(Rep(y));
            }
        }
    }
    for (int i = 0; i < n; ++i) {
        std::uint64_t x = rng.next();
        Rep t;
        switch (rng.below(4)) {
        case 0:  // uniform over the type
            t = Rep(x);
            break;
        case 1: {  // small magnitude, every fraction
            int len = 1 + rng.below(L::digits);
            t = Rep(x & ((len >= 64) ? ~0ull : ((1ull << len) - 1)));
            if (std::is_signed_v<Rep> && rng.below(2)) t = Rep(-t);
            break;
        }
        case 2: {  // integer part uniform among those whose result fits, fraction uniform
            int ib = L::digits - F;
            long long ip = ib > 0 ? (long long)(rng.next() % (std::uint64_t)(ib + 1)) : 0;
            if (std::is_signed_v<Rep> && rng.below(3) == 0) ip = -ip - 1;
            __int128 y = ((__int128)ip << F) | (__int128)(F > 0 ? (x & ((F >= 64) ? ~0ull : ((1ull << F) - 1))) : 0);
            t = Rep(y);
            break;
        }
        default: {  // fraction near 0 or near 1
            int ib = L::digits - F;
            long long ip = ib > 0 ? (long long)(rng.next() % (std::uint64_t)(ib + 1)) : 0;
            __int128 y = ((__int128)ip << F) + (long long)(rng.next() % 4096) - 2048;
            t = Rep(y);
            break;
        }
        }
        v.push_back(t);
    }
    for (Rep r : v) one<Rep, E>(r);
}

#define NUM(NAME, REP, E) \
    { \
        printf("C20 num " #NAME " %s %d => ", tn<REP>().c_str(), E); \
        prv(_impl::to_rep(std::numbers::NAME##_v<scaled_integer<REP, power<E>>>)); \
        putchar('\n'); \
    }
#define SER(NAME, REP, E) \
    { \
        printf("C20 ser " #NAME " %s %d => ", tn<REP>().c_str(), E); \
        VH_RUN(_impl::to_rep(cnl::_impl::NAME<REP, E>()), prv) \
    }
