// C01 over wrapped representations (table C01w): + - * and unary minus of scaled_integer whose representation is
//   SEC_C01WO  an overflow_integer<built-in, tag>, every tag (native, saturated, throwing, trapping, undefined),
//              signed and unsigned 8..64-bit (unary minus of an unsigned 8/16-bit rep promotes to int);
//   SEC_C01WOE an overflow_integer<elastic_integer<D, N>, tag> ("safe" fixed point), signed and unsigned narrowest;
//   SEC_C01WEB an elastic_integer<D, N> combined with a built-in integer on either side (negative integers against
//              unsigned narrowest types, D below and above the width of the built-in).
//   C01w obin add|sub|mul <tag> <radix> <L> <eL> <R> <eR> <l> <r> => sc(ov(T,tag),e,radix):<v> | TRAP+- | THROW+- | UB
//   C01w oneg <tag> <radix> <L> <eL> <l>                          => the same
//   C01w oebin add|sub|mul <tag> <DL> <NL> <eL> <DR> <NR> <eR> <l> <r> => sc(ov(el(D,N),tag),e,2)/<storage>:<v>
//   C01w oeneg <tag> <DL> <NL> <eL> <l>                           => the same
//   C01w ebi r|l add|sub|mul <DL> <NL> <eL> <B> <l> <b>           => sc(el(D,N),e,2)/<storage>:<v>
//        (r: elastic OP built-in, l: built-in OP elastic; <l> is always the elastic operand's representation)
//   SEC_C01WW  a MULTI-WORD wide_integer<D, N> (more than 127/128 digits; storage = uintwide_t of D/width(N) limbs),
//              radix 2, 3, 10, equal and different exponents (alignment multiplies by radix^d in the wide type);
//              values travel in hex (arbitrary precision, read limb by limb from the storage);
//   SEC_C01WC  a cnl::constant<V> on either side of + - * next to a scaled_integer over a built-in (signed and
//              unsigned, 8..64-bit) or an elastic_integer representation; V positive and negative.
//   C01w wbin add|sub|mul <radix> <DL> <NL> <eL> <DR> <NR> <eR> <l hex> <r hex> => sc(wd(D,N),e,radix):<hex>
//   C01w cbin r|l add|sub|mul <L> <eL> <V> <l>           => sc(T,e,2):<v>            (r: scaled OP constant, l: constant OP scaled)
//   C01w cebin r|l add|sub|mul <DL> <NL> <eL> <V> <l>    => sc(el(D,N),e,2)/<storage>:<v>
#if defined(SEC_C01WW)
#include "C11.h"  // arbitrary-precision operands (Big, bigvals, bi_of, big_of, big_print)
#else
#include "vh.h"
using namespace cnl;
using namespace vh;
static const bool vh_strict_on = (vh::strict = true);
#endif

#if defined(SEC_C01WO)
#define OHEAD(NAME) \
    printf("C01w obin " NAME " %s %d %s %d %s %d ", TagN<Tag>::name().c_str(), RX, tn<R1>().c_str(), E1, tn<R2>().c_str(), E2); \
    prv(a); \
    putchar(' '); \
    prv(b); \
    fputs(" => ", stdout);

template<class Tag, class R1, int E1, class R2, int E2, int RX>
void ogo(Rng& rng)
{
    using OA = overflow_integer<R1, Tag>;
    using OB = overflow_integer<R2, Tag>;
    using A = scaled_integer<OA, power<E1, RX>>;
    using B = scaled_integer<OB, power<E2, RX>>;
    auto lv = vals<R1>(rng, 4 * scale_from_env(), sizeof(R1) > 4 ? 11 : sizeof(R1) > 2 ? 5 : sizeof(R1) > 1 ? 3 : 1);
    auto rv = vals<R2>(rng, 4 * scale_from_env(), sizeof(R2) > 4 ? 11 : sizeof(R2) > 2 ? 5 : sizeof(R2) > 1 ? 3 : 1);
    for (R1 a : lv)
        for (R2 b : rv) {
            A x = _impl::from_rep<A>(_impl::from_rep<OA>(a));
            B y = _impl::from_rep<B>(_impl::from_rep<OB>(b));
            { OHEAD("add") VH_RUN(x + y, print_num) }
            { OHEAD("sub") VH_RUN(x - y, print_num) }
            { OHEAD("mul") VH_RUN(x * y, print_num) }
        }
}

// unary minus: every value of an 8/16-bit representation, the lattice of the wider ones
template<class Tag, class R1, int E1, int RX>
void oneg(Rng& rng)
{
    using OA = overflow_integer<R1, Tag>;
    using A = scaled_integer<OA, power<E1, RX>>;
    std::vector<R1> lv;
    if constexpr (sizeof(R1) == 1)
        lv = all_vals<R1>();
    else
        lv = vals<R1>(rng, 20 * scale_from_env(), 1);
    for (R1 a : lv) {
        A x = _impl::from_rep<A>(_impl::from_rep<OA>(a));
        printf("C01w oneg %s %d %s %d ", TagN<Tag>::name().c_str(), RX, tn<R1>().c_str(), E1);
        prv(a);
        fputs(" => ", stdout);
        VH_RUN(-x, print_num)
    }
}
#endif

#if defined(SEC_C01WOE) || defined(SEC_C01WEB) || defined(SEC_C01WC)
// operand values of an elastic_integer<D,N>: exhaustive for D <= 5, else a lattice within the declared range
template<int D, class N>
std::vector<I> evals(Rng& rng)
{
    std::vector<I> v;
    constexpr bool sg = std::is_signed_v<N>;
    I hi = (D >= 127) ? I(~U(0) >> 1) : ((I(1) << D) - 1);
    I lo = sg ? -hi : 0;
    if (D <= 5) {
        for (I x = lo; x <= hi; ++x) v.push_back(x);
        return v;
    }
    auto add = [&](I x) {
        if (x < lo || x > hi) return;
        for (I y : v)
            if (y == x) return;
        v.push_back(x);
    };
    for (int d = 0; d <= 2; ++d) {
        add(hi - d);
        add(lo + d);
        add(d);
        add(-d);
    }
    for (int k = D - 1; k >= 1; k -= (D > 40 ? 9 : D > 16 ? 5 : 2)) {
        I p = I(1) << k;
        add(p);
        add(p - 1);
        add(p + 1);
        add(-p);
        add(-p + 1);
        add(-p - 1);
    }
    add(5);
    add(600);
    add(hi / 2);
    add(hi / 2 + 1);
    add(hi / 3);
    add(lo / 2);
    add(lo / 3);
    for (int i = 0; i < 4 * scale_from_env(); ++i) {
        U x = rng.next128();
        int len = 1 + rng.below(D);
        if (len < 128) x &= ((U(1) << len) - 1);
        I t = I(x & U(hi));
        if (sg && rng.below(2)) t = -t;
        add(t);
    }
    return v;
}
#endif

#if defined(SEC_C01WOE)
// type string, storage type of the elastic representation, value
template<class Z>
void print_oes(Z const& z)
{
    fputs(tn<Z>().c_str(), stdout);
    putchar('/');
    using R = _impl::rep_of_t<_impl::rep_of_t<_impl::rep_of_t<Z>>>;
    fputs(tn<R>().c_str(), stdout);
    putchar(':');
    prv(innermost(z));
}
#define OEHEAD(NAME) \
    printf("C01w oebin " NAME " %s %d %s %d %d %s %d ", TagN<Tag>::name().c_str(), LD, tn<LN>().c_str(), LE, RD, tn<RN>().c_str(), RE); \
    pri(l); \
    putchar(' '); \
    pri(r); \
    fputs(" => ", stdout);

template<class Tag, int LD, class LN, int LE, int RD, class RN, int RE>
void oego(Rng& rng)
{
    using EA = elastic_integer<LD, LN>;
    using EB = elastic_integer<RD, RN>;
    using OA = overflow_integer<EA, Tag>;
    using OB = overflow_integer<EB, Tag>;
    using A = scaled_integer<OA, power<LE>>;
    using B = scaled_integer<OB, power<RE>>;
    using AR = _impl::rep_of_t<EA>;
    using BR = _impl::rep_of_t<EB>;
    auto lv = evals<LD, LN>(rng);
    auto rv = evals<RD, RN>(rng);
    for (I l : lv)
        for (I r : rv) {
            A a = _impl::from_rep<A>(_impl::from_rep<OA>(_impl::from_rep<EA>(AR(l))));
            B b = _impl::from_rep<B>(_impl::from_rep<OB>(_impl::from_rep<EB>(BR(r))));
            { OEHEAD("add") VH_RUN(a + b, print_oes) }
            { OEHEAD("sub") VH_RUN(a - b, print_oes) }
            { OEHEAD("mul") VH_RUN(a * b, print_oes) }
        }
    for (I l : lv) {
        A a = _impl::from_rep<A>(_impl::from_rep<OA>(_impl::from_rep<EA>(AR(l))));
        printf("C01w oeneg %s %d %s %d ", TagN<Tag>::name().c_str(), LD, tn<LN>().c_str(), LE);
        pri(l);
        fputs(" => ", stdout);
        VH_RUN(-a, print_oes)
    }
}
#endif

#if defined(SEC_C01WEB)
template<class Z>
void print_es(Z const& z)
{
    fputs(tn<Z>().c_str(), stdout);
    putchar('/');
    using R = _impl::rep_of_t<_impl::rep_of_t<Z>>;
    fputs(tn<R>().c_str(), stdout);
    putchar(':');
    prv(_impl::to_rep(_impl::to_rep(z)));
}
#define EBHEAD(SIDE, NAME) \
    printf("C01w ebi " SIDE " " NAME " %d %s %d %s ", LD, tn<LN>().c_str(), LE, tn<T>().c_str()); \
    pri(l); \
    putchar(' '); \
    prv(b); \
    fputs(" => ", stdout);

template<int LD, class LN, int LE, class T>
void ebgo(Rng& rng)
{
    using EA = elastic_integer<LD, LN>;
    using A = scaled_integer<EA, power<LE>>;
    using AR = _impl::rep_of_t<EA>;
    auto lv = evals<LD, LN>(rng);
    auto rv = vals<T>(rng, 4 * scale_from_env(), sizeof(T) > 4 ? 13 : sizeof(T) > 2 ? 7 : sizeof(T) > 1 ? 3 : 1);
    for (T s : {T(3), T(100), T(768 % 128)}) {
        push_unique(rv, s);
        if constexpr (std::is_signed_v<T>) push_unique(rv, T(-s));
    }
    for (I l : lv)
        for (T b : rv) {
            A a = _impl::from_rep<A>(_impl::from_rep<EA>(AR(l)));
            { EBHEAD("r", "add") VH_RUN(a + b, print_es) }
            { EBHEAD("r", "sub") VH_RUN(a - b, print_es) }
            { EBHEAD("r", "mul") VH_RUN(a * b, print_es) }
            { EBHEAD("l", "add") VH_RUN(b + a, print_es) }
            { EBHEAD("l", "sub") VH_RUN(b - a, print_es) }
            { EBHEAD("l", "mul") VH_RUN(b * a, print_es) }
        }
}
#endif

#if defined(SEC_C01WW)
template<class Z>
void print_ww(Z const& z)
{
    using N = typename nw_of<Z>::type;
    fputs(tn<Z>().c_str(), stdout);
    putchar(':');
    big_print(big_of(innermost_any(z), bool(numbers::signedness_v<N>)));
}
#define WWHEAD(NAME) \
    printf("C01w wbin " NAME " %d %d %s %d %d %s %d ", RX, LD, tn<LN>().c_str(), LE, RD, tn<RN>().c_str(), RE); \
    big_print(l); \
    putchar(' '); \
    big_print(r); \
    fputs(" => ", stdout);

template<int LD, class LN, int LE, int RD, class RN, int RE, int RX>
void wwgo(Rng& rng)
{
    using WA = wide_integer<LD, LN>;
    using WB = wide_integer<RD, RN>;
    using A = scaled_integer<WA, power<LE, RX>>;
    using B = scaled_integer<WB, power<RE, RX>>;
    using AB = _impl::rep_of_t<WA>;
    using BB = _impl::rep_of_t<WB>;
    static_assert(!is_builtin_int<AB> && !is_builtin_int<BB>, "multi-word storage only");
    auto lv = bigvals<LD, std::is_signed_v<LN>>(rng, 3 * scale_from_env());
    auto rv = bigvals<RD, std::is_signed_v<RN>>(rng, 3 * scale_from_env());
    // small and medium magnitudes (far from the capacity: aligned operands and results fit)
    for (long long s : {3LL, 15LL, 325LL, 15000LL, 1234567LL, 999999999999LL}) {
        for (auto* v : {&lv, &rv}) {
            v->push_back(big_small(s));
            if (v == &lv ? std::is_signed_v<LN> : std::is_signed_v<RN>) v->push_back(big_small(-s));
        }
    }
    for (auto const& l : lv)
        for (auto const& r : rv) {
            A a = _impl::from_rep<A>(_impl::from_rep<WA>(bi_of<AB>(l)));
            B b = _impl::from_rep<B>(_impl::from_rep<WB>(bi_of<BB>(r)));
            { WWHEAD("add") VH_RUN(a + b, print_ww) }
            { WWHEAD("sub") VH_RUN(a - b, print_ww) }
            { WWHEAD("mul") VH_RUN(a * b, print_ww) }
        }
}
#endif

#if defined(SEC_C01WC)
// the constants of the grid (non-type template arguments): sign, trailing zero bits, beyond 31 digits
#define C01W_CONSTS(X) X(1) X(6) X(-1) X(-3) X(-8) X(-40) X(96) X(255) X(-256) X(65536) X(-100000) X(2147483647) X(-2147483648LL) X(4294967296LL) X(-6442450944LL) X(123456789012LL)

constexpr int c_tz(long long v)
{
    int n = 0;
    while (v != 0 && !(v & 1)) {
        v /= 2;
        ++n;
    }
    return n;
}
constexpr int c_used(long long v)
{
    unsigned long long u = v < 0 ? ~(unsigned long long)v : (unsigned long long)v;
    int n = 0;
    while (u) {
        u >>= 1;
        ++n;
    }
    return n;
}
// digits of the representation a constant is given: set_digits_t<int, max(31, used_digits - trailing_bits)>
constexpr int c_digits(long long v) { return c_used(v) - c_tz(v) <= 31 ? 31 : 63; }
// + and - with different exponents multiply one operand by 2^d in its own (promoted) type: the power must fit (ill-formed otherwise)
template<class P>
constexpr bool c_alignable(long long v, int e)
{
    return c_tz(v) >= e ? c_tz(v) - e < c_digits(v) : e - c_tz(v) < digits_v<P>;
}

#define CHEAD(SIDE, NAME) \
    printf("C01w cbin " SIDE " " NAME " %s %d %lld ", tn<R1>().c_str(), E1, (long long)V); \
    prv(a); \
    fputs(" => ", stdout);

template<class R1, int E1, long long V>
void cgo1(std::vector<R1> const& lv)
{
    using A = scaled_integer<R1, power<E1>>;
    constexpr constant<V> c{};
    for (R1 a : lv) {
        A x = _impl::from_rep<A>(a);
        if constexpr (c_alignable<decltype(+R1{})>(V, E1)) {
            { CHEAD("r", "add") VH_RUN(x + c, print_num) }
            { CHEAD("r", "sub") VH_RUN(x - c, print_num) }
            { CHEAD("l", "add") VH_RUN(c + x, print_num) }
            { CHEAD("l", "sub") VH_RUN(c - x, print_num) }
        }
        { CHEAD("r", "mul") VH_RUN(x * c, print_num) }
        { CHEAD("l", "mul") VH_RUN(c * x, print_num) }
    }
}

template<class R1, int E1>
void cgo(Rng& rng)
{
    auto lv = vals<R1>(rng, 4 * scale_from_env(), sizeof(R1) > 4 ? 13 : sizeof(R1) > 2 ? 7 : sizeof(R1) > 1 ? 3 : 1);
    for (R1 s : {R1(24), R1(1), R1(100)}) push_unique(lv, s);
#define X(VV) cgo1<R1, E1, VV>(lv);
    C01W_CONSTS(X)
#undef X
}

template<class Z>
void print_ces(Z const& z)
{
    fputs(tn<Z>().c_str(), stdout);
    putchar('/');
    using R = _impl::rep_of_t<_impl::rep_of_t<Z>>;
    fputs(tn<R>().c_str(), stdout);
    putchar(':');
    prv(_impl::to_rep(_impl::to_rep(z)));
}
#define CEHEAD(SIDE, NAME) \
    printf("C01w cebin " SIDE " " NAME " %d %s %d %lld ", LD, tn<LN>().c_str(), LE, (long long)V); \
    pri(l); \
    fputs(" => ", stdout);

template<int LD, class LN, int LE, long long V>
void cego1(std::vector<I> const& lv)
{
    using EA = elastic_integer<LD, LN>;
    using A = scaled_integer<EA, power<LE>>;
    using AR = _impl::rep_of_t<EA>;
    constexpr constant<V> c{};
    for (I l : lv) {
        A x = _impl::from_rep<A>(_impl::from_rep<EA>(AR(l)));
        if constexpr (c_tz(V) >= LE ? c_tz(V) - LE < c_digits(V) : LD + LE - c_tz(V) + 64 <= 126) {
            { CEHEAD("r", "add") VH_RUN(x + c, print_ces) }
            { CEHEAD("r", "sub") VH_RUN(x - c, print_ces) }
            { CEHEAD("l", "add") VH_RUN(c + x, print_ces) }
            { CEHEAD("l", "sub") VH_RUN(c - x, print_ces) }
        }
        { CEHEAD("r", "mul") VH_RUN(x * c, print_ces) }
        { CEHEAD("l", "mul") VH_RUN(c * x, print_ces) }
    }
}

template<int LD, class LN, int LE>
void cego(Rng& rng)
{
    auto lv = evals<LD, LN>(rng);
#define X(VV) cego1<LD, LN, LE, VV>(lv);
    C01W_CONSTS(X)
#undef X
}
#endif
