"""C10, floating-point part — conversions of cnl::wide_integer (multi-limb uintwide_t) to and from
float / double / long double.  `tus_float(tier, seed)` returns extra translation units for C10's grid:
one per compiled wide_integer<Digits, Narrowest>, each running wide->F and F->wide for the three built-in
floating types (lines `C10 w2f ...` / `C10 f2w ...`, handled by CnlDriver/C10F.lean: checkC10F).
"""
import random

CT = {'i8': 'std::int8_t', 'u8': 'std::uint8_t', 'i16': 'std::int16_t', 'u16': 'std::uint16_t',
      'i32': 'std::int32_t', 'u32': 'std::uint32_t', 'i64': 'std::int64_t', 'u64': 'std::uint64_t'}
BITS = {k: int(k[1:]) for k in CT}


def storage(d, t):
    signed = t[0] == 'i'
    if d <= (127 if signed else 128):
        return None
    w = BITS[t]
    minw = d + (1 if signed else 0)
    return w, (minw + w - 1) // w


def instantiable(d, t):
    s = storage(d, t)
    if s is None:
        return False
    width = s[0] * s[1]
    while width % 2 == 0:
        width //= 2
    return width <= 63      # uintwide_t: Width2 must be 2^n times 1..63


# limb width against the precisions 24 / 53 / 64: w=8,16 (limb conversion always exact), w=32 (rounds for float),
# w=64 (rounds for float and double); 128 bits = first multi-limb width (float overflows to inf from 2^128)
FIXED_QUICK = [(200, 'i32'), (256, 'u32'), (130, 'u8'), (512, 'u64'), (1024, 'i16'), (128, 'i64')]
WIDTHS = [128, 129, 130, 160, 191, 192, 200, 224, 255, 256, 257, 300, 384, 500, 512, 640, 768, 1000, 1024]
WIDTHS_THOROUGH = WIDTHS + [1536, 2000, 2047, 2048]


def grid_float(tier, seed):
    rnd = random.Random(seed * 6151 + 1010)
    combos = list(FIXED_QUICK)
    widths = WIDTHS if tier == 'quick' else WIDTHS_THOROUGH
    extra = 2 if tier == 'quick' else 14
    types = list(CT)
    tries = 0
    while extra > 0 and tries < 500:
        tries += 1
        t = rnd.choice(types)
        d = rnd.choice(widths) if rnd.random() < 0.7 else rnd.randrange(128, widths[-1] + 1)
        if instantiable(d, t) and (d, t) not in combos:
            combos.append((d, t))
            extra -= 1
    if tier == 'thorough':
        combos += [(2048, 'u8'), (2047, 'i64'), (1024, 'u32'), (129, 'i8')]
    out = []
    for c in combos:
        if c not in out and instantiable(*c):
            out.append(c)
    return out


def tus_float(tier, seed):
    hdr = '#include "%s"\n' % __file__.replace('.py', '.h')
    res = []
    for i, (d, t) in enumerate(grid_float(tier, seed)):
        body = hdr + 'int main(){ install(); Rng rng(seed_from_env()*1000003ull+%d);\n' % (d * 139 + BITS[t] + (7 if t[0] == 'i' else 0))
        body += '  c10f::go<wide_integer<%d, %s>>(rng);\n}\n' % (d, CT[t])
        name = 'C10_float_%d_%s' % (d, t)
        res.append(dict(name=name, src=body, compiler='g++', run_timeout=600))
        if tier == 'thorough' and i % 3 == 0:
            res.append(dict(name=name + '_clang', src=body, compiler='clang++', run_timeout=600))
    return res


RULE_FLOAT = ("floating-point conversions, per compiled wide_integer x {float, double, long double}: wide->F on magnitudes with 1..N "
              "significant bits (every single bit, runs of ones, values at and next to the rounding midpoints of F at every position "
              "relative to the limb boundaries, limb patterns), both signs; F->wide on NaN/inf/subnormals/limits, small integers, "
              "fractions, 2^k and 2^k+-1/0.5 up to beyond the width, full significands at every binary-point position, the limits of "
              "the N-bit range with neighbours, random; non-trivial = finite input")
ASSUMPTIONS_FLOAT = ["long double is x87 double-extended (x86-64); float/double arithmetic is SSE (FLT_EVAL_METHOD 0)",
                     "wide->F: the property is read as 'the exact value when representable, else one of the two neighbouring values of F' "
                     "(the code accumulates limbs with up to two roundings each and is not always correctly rounded); values beyond the "
                     "largest finite float give +-inf",
                     "F->wide of NaN/inf gives 0 (modelled, not constrained)"]
