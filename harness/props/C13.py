"""C13 — to_chars never writes outside the caller's buffer and reports failure cleanly.
(C14 runs the same translation units with VH_TABLE=C14: same calls, the value oracle instead.)

Instantiation grid: rep type x exponent stratum x radix; per instantiation every value of an 8-bit rep
(16-bit: seeded subsample in the quick tier, every value in the thorough tier; wider: boundary lattice,
powers of five/ten, structured random) x EVERY buffer length 0 .. capacity+2.
"""
import os
import random

HDR = os.path.join(os.path.dirname(os.path.abspath(__file__)), 'C13.h')
CT = {'i8': 'std::int8_t', 'u8': 'std::uint8_t', 'i16': 'std::int16_t', 'u16': 'std::uint16_t',
      'i32': 'std::int32_t', 'u32': 'std::uint32_t', 'i64': 'std::int64_t', 'u64': 'std::uint64_t',
      'i128': '__int128', 'u128': 'unsigned __int128'}

FIXED8 = [-70, -40, -20, -12, -8, -7, -4, -1, 0, 1, 3, 10, 40, 70]
FIXED16 = [-70, -16, -15, -1, 0, 1, 40, 70]
WIDE_E = {'i32': [-70, -33, -31, -1, 0, 1, 31, 70], 'u32': [-70, -32, -1, 0, 2, 70],
          'i64': [-70, -64, -63, -1, 0, 1, 26, 70], 'u64': [-70, -64, -1, 0, 3, 70],
          'i128': [-70, -1, 0, 70], 'u128': [-70, -3, 0, 1, 70]}
OTHER_RADIX = [('i8', -2, 10), ('u8', 2, 10), ('i8', -3, 3), ('u8', 2, 3), ('i8', -2, 8), ('u8', 3, 8),
               ('i8', -1, 10), ('i8', 1, 3), ('u8', -5, 3), ('i8', 19, 10), ('i16', -4, 10), ('u16', 3, 3)]


def items(tier, seed):
    """list of (weight, statement) — statements are calls into namespace tc"""
    rnd = random.Random(seed * 1000003 + 13)
    thorough = tier == 'thorough'
    out = []

    def sc(t, e, r, vals, lenstep=1, w=1.0):
        out.append((w, 'tc::sc_sweep<%s, %d, %d>(%s, %d);' % (CT[t], e, r, vals, lenstep)))

    # A. 8-bit reps, radix 2: all values
    for t in ('i8', 'u8'):
        es = list(FIXED8) + [rnd.randint(-70, 70) for _ in range(4 if not thorough else 24)]
        for e in sorted(set(es)):
            sc(t, e, 2, 'v_%s' % t, 1, 1.0)
    # B. 16-bit reps, radix 2
    for t in ('i16', 'u16'):
        es = list(FIXED16) + [rnd.randint(-70, 70) for _ in range(2 if not thorough else 4)]
        for e in sorted(set(es)):
            # thorough: every value; the middle of the length range is thinned (each length still met by 1/4 of the values)
            sc(t, e, 2, 'v_%s' % t, 1 if not thorough else 4, 1.5 if not thorough else 40.0)
    # C. wider reps: lattice, every length near both ends of the range
    for t, es in WIDE_E.items():
        es = list(es) + [rnd.randint(-70, 70) for _ in range(1 if not thorough else 6)]
        for e in sorted(set(es)):
            sc(t, e, 2, 'v_%s' % t, 1 if thorough else 3, 1.5)
    # D. other radices
    for (t, e, r) in OTHER_RADIX:
        sc(t, e, r, 'v_%s' % t, 1, 0.6)
    # input radix above ten (class input_radix_above_ten, repaired: the headroom test of descale is made for the input
    # radix): every value of 8-bit reps, the two witnesses on 64-bit significands, and the lattices of the wide reps
    # (they contain the powers of two around max/radix and max/10, and the most negative values)
    for (t, e, r) in [('i8', 20, 16), ('u8', 3, 16), ('i8', -3, 16), ('u8', 14, 12), ('i8', 30, 36)]:
        sc(t, e, r, 'v_%s' % t, 1, 0.8)
    out.append((0.1, 'tc::sc_one<std::uint64_t, 1, 16>(std::uint64_t(1) << 60, 30);'))
    out.append((0.1, 'tc::sc_one<std::int64_t, 1, 16>(std::int64_t(1) << 59, 30);'))
    for (t, e, r) in [('i64', 1, 16), ('i64', 3, 16), ('u64', 2, 36), ('i64', 2, 1000), ('i32', 9, 16), ('i128', 2, 12),
                      ('u128', 1, 16), ('i64', -2, 16), ('u64', -3, 12),
                      (rnd.choice(['i64', 'u64', 'i128', 'u128']), rnd.randint(1, 12), rnd.choice([11, 12, 16, 20, 36, 100]))]:
        sc(t, e, r, 'v_%s' % t, 1 if thorough else 3, 1.0)
    if thorough:
        for _ in range(12):
            t = rnd.choice(['i8', 'u8', 'i16', 'i32', 'i64'])
            sc(t, rnd.randint(-12, 12), rnd.choice([3, 8, 10]), 'v_%s' % t, 1, 1.0)
    # E. integers
    out.append((0.5, 'tc::int_sweep<std::int8_t>(v_i8, {2, 3, 8, 10, 16, 36});'))
    out.append((0.5, 'tc::int_sweep<std::uint8_t>(v_u8, {2, 3, 8, 10, 16, 36});'))
    out.append((0.5, 'tc::int_sweep<std::int16_t>(v_i16, {10, 2, %d});' % rnd.randint(3, 36)))
    out.append((0.5, 'tc::int_sweep<std::uint16_t>(v_u16, {10, 16, %d});' % rnd.randint(3, 36)))
    for t in ('i32', 'u32', 'i64', 'u64', 'i128', 'u128'):
        out.append((0.7, 'tc::int_sweep<%s>(v_%s, {10, %d, %d});' % (CT[t], t, rnd.choice([2, 16, 36]), rnd.randint(3, 35))))
    # F. fixed-capacity variants
    for t in ('i8', 'u8'):
        for e in [-70, -8, -7, -1, 0, 1, 70, rnd.randint(-70, 70)]:
            out.append((0.2, 'tc::fix_sweep<scaled_integer<%s, power<%d>>>(v_%s);' % (CT[t], e, t)))
    for t in ('i16', 'u16', 'i32', 'u32', 'i64', 'u64', 'i128', 'u128'):
        for e in [-70, -1, 0, 70, rnd.randint(-70, 70)]:
            out.append((0.2, 'tc::fix_sweep<scaled_integer<%s, power<%d>>>(v_%s);' % (CT[t], e, t)))
    for (t, e, r) in OTHER_RADIX[:6] + [('i64', 3, 16), ('u64', 2, 36), ('i8', 20, 16), ('u8', 14, 12), ('i32', -2, 16)]:
        out.append((0.1, 'tc::fix_sweep<scaled_integer<%s, power<%d, %d>>>(v_%s);' % (CT[t], e, r, t)))
    for t in CT:
        out.append((0.1, 'tc::fix_sweep<%s>(v_%s);' % (CT[t], t)))
    # to_chars_static<Base>: bases other than ten, many values
    for (t, b) in [('u8', 2), ('i8', 7), ('i32', 2), ('i32', 16), ('u16', 3), ('i64', 36), ('u64', 8), ('i128', 16), ('u32', rnd.randint(2, 36))]:
        out.append((0.1, 'tc::fixb_sweep<%s, %d>(v_%s);' % (CT[t], b, t)))
    # to_chars_static<Base>: EVERY base 2..36 at the limits of every width (+ to_chars_capacity<T>{}(base) for every base)
    for t in CT:
        out.append((0.5, 'tc::fixb_all<%s>(rng);' % CT[t]))
    # G. CNL wrapper integers (to_chars converts them to native rounding first; operator<< streams the representation;
    # the capacity is computed from the digits the wrapper declares)
    ov = ['saturated_overflow_tag', 'trapping_overflow_tag', 'native_overflow_tag', 'undefined_overflow_tag']
    rdm = ['nearest_rounding_tag', 'tie_to_pos_inf_rounding_tag', 'neg_inf_rounding_tag', 'native_rounding_tag']
    wrappers = [('rounding_integer<std::int64_t, nearest_rounding_tag>', 'i64'),
                ('rounding_integer<std::int32_t, %s>' % rdm[seed % 3], 'i32'),
                ('rounding_integer<std::uint16_t, tie_to_pos_inf_rounding_tag>', 'u16'),
                ('overflow_integer<std::int32_t, %s>' % ov[seed % 4], 'i32'),
                ('elastic_integer<%d, int>' % [10, 7, 15, 31][seed % 4], 'i32'),
                ('elastic_integer<%d, int>' % [40, 63, 33, 32][seed % 4], 'i64'),
                ('elastic_integer<%d, unsigned>' % [20, 32, 16, 8][seed % 4], 'u32'),
                ('static_integer<%d>' % [31, 24, 12, 30][seed % 4], 'i32'),
                ('overflow_integer<rounding_integer<std::int32_t, %s>, trapping_overflow_tag>' % rdm[(seed + 1) % 4], 'i32'),
                ('wide_integer<%d, int>' % [24, 31, 63, 40][seed % 4], 'i64'),
                ('static_integer<%d, nearest_rounding_tag, saturated_overflow_tag, std::int64_t>' % rnd.randint(33, 63), 'i64'),
                ('rounding_integer<elastic_integer<%d, int>, nearest_rounding_tag>' % rnd.randint(2, 31), 'i32'),
                ('overflow_integer<std::uint64_t, saturated_overflow_tag>', 'u64'),
                # 128-bit representations (values beyond 64 bits: operator<< must not narrow them)
                ('elastic_integer<%d, int>' % [90, 64, 80, 70][seed % 4], 'i128'),
                ('elastic_integer<%d, unsigned>' % [90, 65, 80, 64][seed % 4], 'u128'),
                ('overflow_integer<unsigned __int128, %s>' % ov[(seed + 1) % 4], 'u128'),
                ('rounding_integer<__int128, %s>' % rdm[seed % 4], 'i128'),
                ('static_integer<%d>' % [64, 90, 72, 80][seed % 4], 'i128'),
                ('rounding_integer<%s, %s>' % (CT[rnd.choice(['i16', 'u32', 'u64', 'i64'])], rnd.choice(rdm)), None)]
    wrappers += [('wide_integer<128, unsigned>', 'u128'), ('wide_integer<127, int>', 'i128')]
    for (w, t, e, r) in [('wide_integer<128, unsigned>', 'u128', [-3, -70, 1, -64][seed % 4], 2), ('wide_integer<127, int>', 'i128', [10, -1, -40, 0][seed % 4], 2),
                         ('wide_integer<128, unsigned>', 'u128', rnd.randint(-3, 3), 10), ('wide_integer<127, int>', 'i128', rnd.randint(-70, 70), 2)]:
        out.append((0.8, 'tc::scw_sweep<%s, %s, %d, %d>(v_%s, 3);' % (w, CT[t], e, r, t)))
    # operator<< of multi-word wide_integer<D, int> for every digit count 129..320 (48 per statement)
    for lo in (129, 177, 225, 273):
        out.append((1.2, 'tc::oss_range<%d, 48>();' % lo))
    for (w, t) in wrappers:
        if t is None:
            t = [k for k in CT if CT[k] in w][0]
        out.append((0.5, 'tc::wrap_sweep<%s, %s, %d, %d>(v_%s);' % (w, CT[t], rnd.choice([2, 8, 16]), rnd.randint(3, 36), t)))
    # ... and of wide_integer<D, int>
    # 93, 103, 186, 196, 206: digit counts where D*log10(2) is within 0.02 of an integer (the decimal length formula is tight)
    for d in sorted(set([65, 127, 128, 200, 196, [93, 103, 186, 206][seed % 4], rnd.randint(66, 260)])):
        out.append((1.0, 'tc::fixbw_all<%d>();' % d))
    return out


def source(stmts, k, thorough):
    s = '#include "%s"\nint main(){ tc::init(); Rng rng(seed_from_env() * 131 + %d); int const sc = scale_from_env(); (void)sc;\n' % (HDR, k)
    used = set()
    for st in stmts:
        for t in CT:
            if 'v_%s' % t in st:
                used.add(t)
    for t in sorted(used):
        c = CT[t]
        if t in ('i8', 'u8'):
            s += '  auto v_%s = tc::small_vals<%s>(rng, true, 1);\n' % (t, c)
        elif t in ('i16', 'u16'):
            s += '  auto v_%s = tc::small_vals<%s>(rng, %s, 200);\n' % (t, c, 'true' if thorough else 'false')
        else:
            s += '  auto v_%s = vals<%s>(rng, 6 * sc); tc::add_decimal_corners(v_%s);\n' % (t, c, t)
    for st in stmts:
        s += '  ' + st + '\n'
    s += '}\n'
    return s


def tus_for(table, tier, seed):
    its = items(tier, seed)
    thorough = tier == 'thorough'
    # pack into TUs of bounded weight
    res, cur, w, k = [], [], 0.0, 0
    budget = 4.0

    def flush():
        nonlocal cur, w, k
        if cur:
            res.append(dict(name='%s_%d' % (table, k), src=source(cur, k, thorough), compiler='g++', asan=True,
                            env={'VH_TABLE': table}, run_timeout=1500 if thorough else 600))
            k += 1
            cur, w = [], 0.0
    for (wt, st) in its:
        if w + wt > budget:
            flush()
        cur.append(st)
        w += wt
    flush()
    if table == 'C13':
        # capacities of wide integer types for every digit count 65..260, in every base 2..36
        hdr = __file__.replace('C14.py', 'C13.py').replace('.py', '.h')
        body = '#include "%s"\nint main(){ tc::init(); wide_caps<65, 98>(tc::table); wide_caps<163, 98>(tc::table); }\n' % hdr
        res.append(dict(name='C13_widecaps', src=body, compiler='g++', env={'VH_TABLE': table}))
    # release-mode build (assertions become assumptions of the optimiser) and the second compiler
    extra = []
    pick = [r for i, r in enumerate(res) if i % (3 if thorough else 7) == 0]
    for r in pick:
        d = dict(r)
        d['name'] = r['name'] + '_release'
        d['defines'] = ['CNL_RELEASE']
        extra.append(d)
    if thorough:
        for i, r in enumerate(res):
            if i % 4 == 1:
                d = dict(r)
                d['name'] = r['name'] + '_clang'
                d['compiler'] = 'clang++'
                extra.append(d)
    return res + extra


def tus(tier, seed):
    return tus_for('C13', tier, seed)


THOROUGH_SCALE = 4
EXHAUSTIVE = True
RULE = ("per compiled instantiation (rep type, exponent, radix): every value of 8-bit reps (16-bit: seeded subsample in the quick tier, "
        "all values in the thorough tier; 32/64/128-bit: boundary lattice, powers of five and ten +-1, structured random) x every buffer length "
        "0..capacity+2; a case is non-trivial when the buffer is not empty (C13) / the call succeeded and the oracle constrains the text (C14); "
        "distinct lines only")
ASSUMPTIONS = ["buffers are char arrays inside a guard arena (64 guard bytes each side, ASan beyond); untouched cells hold '#'",
               "CNL_ASSERT failures are observed through the verification hook (debug and release builds alike)"]
TRUSTED = ["AddressSanitizer + guard bytes for out-of-range writes", "CnlSpec.Decimal numeral reader (oracle of C14)"]
