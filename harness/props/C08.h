// C08: integer division under a rounding mode
#include "vh.h"
using namespace cnl;
using namespace vh;
static const bool vh_strict_on = (vh::strict = true);

template<class Tag, class L, class R>
void go(Rng& rng, bool exhaustive)
{
    using A = rounding_integer<L, Tag>;
    using B = rounding_integer<R, Tag>;
    std::vector<L> lv;
    std::vector<R> rv;
    if constexpr (sizeof(L) == 1 && sizeof(R) == 1) {
        if (exhaustive) {
            lv = all_vals<L>();
            rv = all_vals<R>();
        }
    }
    if (lv.empty()) {
        lv = vals<L>(rng, 6 * scale_from_env(), sizeof(L) > 4 ? 13 : 6);
        rv = vals<R>(rng, 6 * scale_from_env(), sizeof(R) > 4 ? 13 : 6);
        // tie and near-tie dividends q*b + b/2 + {-1,0,1}, q*b - b/2 + {-1,0,1}
        std::vector<L> extra;
        for (R r : rv) {
            if (r == 0) continue;
            for (int i = 0; i < 3; ++i) {
                I q = I(rng.next() % 7) - 3;
                if (i == 2) q = I(std::numeric_limits<L>::max() / 2) / (I(r) == 0 ? 1 : I(r));
                for (int s = -1; s <= 1; s += 2)
                    for (int d = -1; d <= 1; ++d) {
                        I v = q * I(r) + s * (I(r) / 2) + d;
                        if (v >= I(std::numeric_limits<L>::lowest()) && v <= I(std::numeric_limits<L>::max())) extra.push_back(L(v));
                    }
            }
        }
        for (L e : extra) push_unique(lv, e);
    }
    std::string mode = TagN<Tag>::name();
    for (L l : lv)
        for (R r : rv) {
            A a{l};
            B b{r};
#define RB(NAME, EXPR) \
    { \
        printf("C08 bin " NAME " %s %s %s ", mode.c_str(), tn<L>().c_str(), tn<R>().c_str()); \
        prv(l); \
        putchar(' '); \
        prv(r); \
        fputs(" => ", stdout); \
        VH_RUN(EXPR, print_num) \
    }
            RB("div", a / b)
            if (!exhaustive) {
                RB("add", a + b)
                RB("sub", a - b)
                RB("mul", a * b)
                RB("mod", a % b)
            }
        }
}

// a rounding_integer combined with a built-in integer (either side) and comparisons: same lines as go<>
// (the built-in operand is lifted by from_value to rounding_integer<R, Tag>, so the result must be the same)
template<class Tag, class L, class R>
void gom(Rng& rng)
{
    using A = rounding_integer<L, Tag>;
    using B = rounding_integer<R, Tag>;
    auto lv = vals<L>(rng, 4 * scale_from_env(), sizeof(L) > 4 ? 13 : 6);
    auto rv = vals<R>(rng, 4 * scale_from_env(), sizeof(R) > 4 ? 13 : 6);
    std::string mode = TagN<Tag>::name();
    for (L l : lv)
        for (R r : rv) {
            A a{l};
            B b{r};
            RB("div", a / r)
            RB("div", l / b)
            RB("add", a + r)
            RB("sub", l - b)
            RB("mul", a * r)
            RB("mod", l % b)
#define RC(NAME, EXPR) \
    { \
        printf("C08 cmp " NAME " %s %s %s ", mode.c_str(), tn<L>().c_str(), tn<R>().c_str()); \
        prv(l); \
        putchar(' '); \
        prv(r); \
        fputs(" => ", stdout); \
        VH_RUN(EXPR, print_tv) \
    }
#define RA(NAME, STMT) \
    { \
        printf("C08 asg " NAME " %s %s %s ", mode.c_str(), tn<L>().c_str(), tn<R>().c_str()); \
        prv(l); \
        putchar(' '); \
        prv(r); \
        fputs(" => ", stdout); \
        VH_RUN(([&] { A c{l}; STMT; return c; }()), print_num) \
    }
            RA("div", c /= r)
            RA("div", c /= b)
            RA("add", c += r)
            RA("mul", c *= b)
            // every compound assignment operator (all other operators behave exactly like the built-in ones)
            RA("sub", c -= b)
            RA("sub", c -= r)
            RA("mod", c %= b)
            RA("mod", c %= r)
            RA("add", c += b)
            RA("mul", c *= r)
            RA("and", c &= b)
            RA("or", c |= r)
            RA("xor", c ^= b)
            RB("and", a & b)
            RB("or", a | r)
            RB("xor", l ^ b)
            if (r >= 0 && r < R(sizeof(int) * 8 - 1) && l >= 0) {
                RB("shl", a << b)
                RB("shr", a >> r)
                RA("shl", c <<= b)
                RA("shr", c >>= r)
                RA("shl", c <<= r)
                RA("shr", c >>= b)
            }
            RC("lt", a < b) RC("lt", a < r) RC("lt", l < b)
            RC("le", a <= r) RC("gt", l > b) RC("ge", a >= r)
            RC("eq", a == b) RC("eq", a == r) RC("eq", l == b)
            RC("ne", a != r) RC("ne", l != b)
        }
}

// division by a cnl::constant<N>: the constant is lifted to rounding_integer<TC, Tag> (TC = int when N fits, else int64)
template<class Tag, class L, long long N, class TC, class CT = long long>
void divc(Rng& rng)
{
    using A = rounding_integer<L, Tag>;
    using R = TC;
    std::vector<L> lv;
    if constexpr (sizeof(L) == 1)
        lv = all_vals<L>();
    else {
        lv = vals<L>(rng, 30 * scale_from_env(), sizeof(L) > 4 ? 7 : 3);
        for (int i = 0; i < 40; ++i) {
            I q = I(rng.next() % 41) - 20;
            if (i % 5 == 0) q = I(std::numeric_limits<L>::max()) / I(N) - (i % 3);
            if (i % 5 == 1) q = I(std::numeric_limits<L>::lowest()) / I(N) + (i % 3);
            for (int s = -1; s <= 1; s += 2)
                for (int d = -1; d <= 1; ++d) {
                    I v = q * I(N) + s * (I(N) / 2) + d;
                    if (v >= I(std::numeric_limits<L>::lowest()) && v <= I(std::numeric_limits<L>::max())) push_unique(lv, L(v));
                }
        }
    }
    std::string mode = TagN<Tag>::name();
    for (L l : lv) {
        A a{l};
        R r = R(N);
        // the value type of the constant (any built-in integer type, signed or unsigned) does not matter:
        // the constant is lifted to the signed type TC that holds its value
        RB("div", a / constant<static_cast<CT>(N)>{})
        if constexpr (N > 0 && N < 64) {
            RB("mul", a * constant<static_cast<CT>(N)>{})
            RB("add", a + constant<static_cast<CT>(N)>{})
            RB("mod", a % constant<static_cast<CT>(N)>{})
        }
    }
}

// make_static_integer<RoundingTag>(constant<V>{}) and make_static_integer<RoundingTag>(int): "any number whose rounding mode is set".
//   C08 msi <mode> <c|rt> <V> <r> => <the number made>|<that number / r>       (each field `<type>:<innermost value>`)
template<class Tag, long long V>
void msi(Rng& rng)
{
    std::string mode = TagN<Tag>::name();
    std::vector<int> rs{1, -1, 2, -2, 3, -3, 4, 7, -7, 10, 100, -1000, 2147483647, -2147483647};
    for (int i = 0; i < 6; ++i) rs.push_back(int(rng.next() % 2000) - 1000 ? int(rng.next() % 2000) - 1000 : 5);
    for (int r : rs) {
        if (r == 0) continue;
        printf("C08 msi %s c %lld %d => ", mode.c_str(), V, r);
        VH_RUN(make_static_integer<Tag>(constant<V>{}), ([&](auto const& x) {
                   print_num(x);
                   putchar('|');
                   print_num(x / r);
               }))
        if constexpr (V >= -2147483647 && V <= 2147483647) {
            printf("C08 msi %s rt %lld %d => ", mode.c_str(), V, r);
            VH_RUN(make_static_integer<Tag>(int(V)), ([&](auto const& x) {
                       print_num(x);
                       putchar('|');
                       print_num(x / r);
                   }))
        }
    }
}

////////////////////////////////////////////////////////////////////////////////
// numbers whose rounding mode is set and that have an ELASTIC layer (either nest order), static_integer, static_number:
//   C08 nst <div|mod> <mode> <kind> <lspec> <rspec> <l> <r> => <number>
// kind: re = rounding_integer<elastic_integer<D,N>,Tag>, er = elastic_integer<D, rounding_integer<N,Tag>>,
//       si = static_integer<D,Tag,undefined,N>, sn = static_number<D,0,Tag,undefined,N>;
// spec: s<D> / u<D> (N = int / unsigned), bi / bu = a built-in int / unsigned operand (the other one is of the kind)
template<int D, class N, class Tag>
using K_re = rounding_integer<elastic_integer<D, N>, Tag>;
template<int D, class N, class Tag>
using K_er = elastic_integer<D, rounding_integer<N, Tag>>;
template<int D, class N, class Tag>
using K_si = static_integer<D, Tag, undefined_overflow_tag, N>;
template<int D, class N, class Tag>
using K_sn = static_number<D, 0, Tag, undefined_overflow_tag, N>;

inline std::vector<long long> dvals(Rng& rng, long long lo, long long hi, int nrand)
{
    std::vector<long long> v;
    auto add = [&](long long x) {
        if (x >= lo && x <= hi) push_unique(v, x);
    };
    for (long long x : {0LL, 1LL, 2LL, 3LL, 5LL, hi, hi - 1, hi / 2, hi / 2 + 1, hi / 3}) {
        add(x);
        add(-x);
    }
    for (int i = 0; i < nrand; ++i) add(lo + (long long)(rng.next() % (unsigned long long)(hi - lo + 1)));
    return v;
}

template<class A>
constexpr A mk(long long v)
{
    if constexpr (std::is_integral_v<A>)
        return static_cast<A>(v);
    else
        return A{v};
}

// lspec/rspec: digits > 0 and signedness of an operand of the kind, digits 0 = built-in int (signed) / unsigned
template<class Tag, class A, class B>
void nst(Rng& rng, char const* kind, int dl, bool sl, int dr, bool sr)
{
    std::string mode = TagN<Tag>::name();
    auto range = [](int d, bool s, long long& lo, long long& hi) {
        hi = d ? (1LL << d) - 1 : (1LL << 20) + 3;  // built-in operands: bounded (the bias of nearest/ties-up near the limits of int is C08's known class)
        lo = s ? -hi : 0;
    };
    long long llo, lhi, rlo, rhi;
    range(dl, sl, llo, lhi);
    range(dr, sr, rlo, rhi);
    auto lv = dvals(rng, llo, lhi, 4 * scale_from_env());
    auto rv = dvals(rng, rlo, rhi, 3 * scale_from_env());
    // tie and near-tie dividends
    std::vector<long long> extra;
    for (std::size_t k = 0; k < rv.size(); k += 3) {
        long long r = rv[k];
        if (r == 0) continue;
        long long q = (long long)(rng.next() % 9) - 4;
        for (int s = -1; s <= 1; s += 2)
            for (int d = -1; d <= 1; ++d) {
                long long v = q * r + s * (r / 2) + d;
                if (v >= llo && v <= lhi) extra.push_back(v);
            }
    }
    for (auto e : extra) push_unique(lv, e);
    auto spec = [](int d, bool s) { return d ? std::string(s ? "s" : "u") + std::to_string(d) : std::string(s ? "bi" : "bu"); };
    std::string ls = spec(dl, sl), rs = spec(dr, sr);
    for (long long l : lv)
        for (long long r : rv) {
            if (r == 0) continue;
            A a = mk<A>(l);
            B b = mk<B>(r);
            printf("C08 nst div %s %s %s %s %lld %lld => ", mode.c_str(), kind, ls.c_str(), rs.c_str(), l, r);
            VH_RUN(a / b, print_num)
            printf("C08 nst mod %s %s %s %s %lld %lld => ", mode.c_str(), kind, ls.c_str(), rs.c_str(), l, r);
            VH_RUN(a % b, print_num)
        }
}

// an overflow-checked number combined with a rounding tag, in either nest order, over representations narrower than int:
//   C08 ovr <div|mod> <mode> <otag> <or|ro> <L> <R> <l> <r> => <number>
//   or = overflow_integer<rounding_integer<T,RTag>,OTag>,  ro = rounding_integer<overflow_integer<T,OTag>,RTag>
// the quotient is computed in the promoted type (int), where every rounded quotient of 8/16-bit values is representable
// (lowest / -1 included): no overflow signal may occur.
template<class RTag, class OTag, class L, class R, bool OvOutside>
void ovr(Rng& rng, bool exhaustive)
{
    using A = std::conditional_t<OvOutside, overflow_integer<rounding_integer<L, RTag>, OTag>, rounding_integer<overflow_integer<L, OTag>, RTag>>;
    using B = std::conditional_t<OvOutside, overflow_integer<rounding_integer<R, RTag>, OTag>, rounding_integer<overflow_integer<R, OTag>, RTag>>;
    std::vector<L> lv;
    std::vector<R> rv;
    if (exhaustive && sizeof(L) == 1 && sizeof(R) == 1) {
        lv = all_vals<L>();
        rv = all_vals<R>();
    } else {
        lv = vals<L>(rng, 5 * scale_from_env(), 6);
        rv = vals<R>(rng, 4 * scale_from_env(), 6);
        push_unique(lv, std::numeric_limits<L>::lowest());
        push_unique(lv, std::numeric_limits<L>::max());
        if (std::is_signed_v<R>) push_unique(rv, R(-1));
        push_unique(rv, R(1));
        push_unique(rv, R(2));
    }
    std::string mode = TagN<RTag>::name(), ot = TagN<OTag>::name();
    for (L l : lv)
        for (R r : rv) {
            if (r == 0) continue;
            A a{l};
            B b{r};
            printf("C08 ovr div %s %s %s %s %s ", mode.c_str(), ot.c_str(), OvOutside ? "or" : "ro", tn<L>().c_str(), tn<R>().c_str());
            prv(l);
            putchar(' ');
            prv(r);
            fputs(" => ", stdout);
            VH_RUN(a / b, print_num)
            if (!exhaustive) {
                printf("C08 ovr mod %s %s %s %s %s ", mode.c_str(), ot.c_str(), OvOutside ? "or" : "ro", tn<L>().c_str(), tn<R>().c_str());
                prv(l);
                putchar(' ');
                prv(r);
                fputs(" => ", stdout);
                VH_RUN(a % b, print_num)
            }
        }
}
