// C01-C04: scaled_integer operators, division, comparison, conversion over built-in reps
#include "vh.h"
using namespace cnl;
using namespace vh;
static const bool vh_strict_on = (vh::strict = true);

template<class Z>
void print_sc(Z const& z)
{
    print_num(z);
}

#define SHEAD(TABLE, KIND, NAME) \
    printf(TABLE " " KIND " " NAME " %d %s %d %s %d ", RX, tn<R1>().c_str(), E1, tn<R2>().c_str(), E2); \
    prv(a); \
    putchar(' '); \
    prv(b); \
    fputs(" => ", stdout);

template<class R1, int E1, class R2, int E2, int RX>
void go(Rng& rng)
{
    using A = scaled_integer<R1, power<E1, RX>>;
    using B = scaled_integer<R2, power<E2, RX>>;
    auto lv = vals<R1>(rng, 5 * scale_from_env(), sizeof(R1) > 8 ? 17 : sizeof(R1) > 4 ? 11 : 5);
    auto rv = vals<R2>(rng, 5 * scale_from_env(), sizeof(R2) > 8 ? 17 : sizeof(R2) > 4 ? 11 : 5);
    for (R1 a : lv)
        for (R2 b : rv) {
            A x = _impl::from_rep<A>(a);
            B y = _impl::from_rep<B>(b);
#if defined(SEC_C01)
            { SHEAD("C01", "bin", "add") VH_RUN(x + y, print_sc) }
            { SHEAD("C01", "bin", "sub") VH_RUN(x - y, print_sc) }
            { SHEAD("C01", "bin", "mul") VH_RUN(x * y, print_sc) }
#endif
#if defined(SEC_C02)
            { SHEAD("C02", "bin", "div") VH_RUN(x / y, print_sc) }
            { SHEAD("C02", "bin", "mod") VH_RUN(x % y, print_sc) }
            {
                printf("C02 ident %d %s %d %s %d ", RX, tn<R1>().c_str(), E1, tn<R2>().c_str(), E2);
                prv(a);
                putchar(' ');
                prv(b);
                fputs(" => ", stdout);
                VH_RUN(((x / y) * y + x % y == x), print_tv)
            }
#endif
#if defined(SEC_C03)
            { SHEAD("C03", "cmp", "lt") VH_RUN(x < y, print_tv) }
            { SHEAD("C03", "cmp", "le") VH_RUN(x <= y, print_tv) }
            { SHEAD("C03", "cmp", "gt") VH_RUN(x > y, print_tv) }
            { SHEAD("C03", "cmp", "ge") VH_RUN(x >= y, print_tv) }
            { SHEAD("C03", "cmp", "eq") VH_RUN(x == y, print_tv) }
            { SHEAD("C03", "cmp", "ne") VH_RUN(x != y, print_tv) }
#endif
        }
    for (R1 a : lv) {
        A x = _impl::from_rep<A>(a);
#if defined(SEC_C01)
        printf("C01 neg %d %s %d ", RX, tn<R1>().c_str(), E1);
        prv(a);
        fputs(" => ", stdout);
        VH_RUN(-x, print_sc)
#endif
#if defined(SEC_C04)
        printf("C04 cvt %d %s %d %s %d ", RX, tn<R1>().c_str(), E1, tn<R2>().c_str(), E2);
        prv(a);
        fputs(" => ", stdout);
        VH_RUN(B{x}, print_sc)
#endif
    }
}
