// C01-C04: scaled_integer operators, division, comparison, conversion over built-in reps
#include "vh.h"
using namespace cnl;
using namespace vh;
static const bool vh_strict_on = (vh::strict = true);

template<class Z>
void print_sc(Z const& z)
{
    print_num(z);
}

#define SHEAD(TABLE, KIND, NAME) \
    printf(TABLE " " KIND " " NAME " %d %s %d %s %d ", RX, tn<R1>().c_str(), E1, tn<R2>().c_str(), E2); \
    prv(a); \
    putchar(' '); \
    prv(b); \
    fputs(" => ", stdout);

template<class R1, int E1, class R2, int E2, int RX>
void go(Rng& rng)
{
    using A = scaled_integer<R1, power<E1, RX>>;
    using B = scaled_integer<R2, power<E2, RX>>;
    auto lv = vals<R1>(rng, 5 * scale_from_env(), sizeof(R1) > 8 ? 17 : sizeof(R1) > 4 ? 11 : 5);
    auto rv = vals<R2>(rng, 5 * scale_from_env(), sizeof(R2) > 8 ? 17 : sizeof(R2) > 4 ? 11 : 5);
    for (R1 a : lv)
        for (R2 b : rv) {
            A x = _impl::from_rep<A>(a);
            B y = _impl::from_rep<B>(b);
#if defined(SEC_C01)
            { SHEAD("C01", "bin", "add") VH_RUN(x + y, print_sc) }
            { SHEAD("C01", "bin", "sub") VH_RUN(x - y, print_sc) }
            { SHEAD("C01", "bin", "mul") VH_RUN(x * y, print_sc) }
#endif
#if defined(SEC_C02)
            { SHEAD("C02", "bin", "div") VH_RUN(x / y, print_sc) }
            { SHEAD("C02", "bin", "mod") VH_RUN(x % y, print_sc) }
            {
                printf("C02 ident %d %s %d %s %d ", RX, tn<R1>().c_str(), E1, tn<R2>().c_str(), E2);
                prv(a);
                putchar(' ');
                prv(b);
                fputs(" => ", stdout);
                VH_RUN(((x / y) * y + x % y == x), print_tv)
            }
#endif
#if defined(SEC_C02Q)
            if constexpr (RX == 2 && sizeof(R1) <= 8 && sizeof(R2) <= 8) {
                SHEAD("C02", "quot", "q") VH_RUN(cnl::quotient(x, y), print_sc)
            }
#endif
#if defined(SEC_C03)
            { SHEAD("C03", "cmp", "lt") VH_RUN(x < y, print_tv) }
            { SHEAD("C03", "cmp", "le") VH_RUN(x <= y, print_tv) }
            { SHEAD("C03", "cmp", "gt") VH_RUN(x > y, print_tv) }
            { SHEAD("C03", "cmp", "ge") VH_RUN(x >= y, print_tv) }
            { SHEAD("C03", "cmp", "eq") VH_RUN(x == y, print_tv) }
            { SHEAD("C03", "cmp", "ne") VH_RUN(x != y, print_tv) }
#endif
        }
    for (R1 a : lv) {
        A x = _impl::from_rep<A>(a);
#if defined(SEC_C01)
        printf("C01 neg %d %s %d ", RX, tn<R1>().c_str(), E1);
        prv(a);
        fputs(" => ", stdout);
        VH_RUN(-x, print_sc)
#endif
#if defined(SEC_C04)
        printf("C04 cvt %d %s %d %s %d ", RX, tn<R1>().c_str(), E1, tn<R2>().c_str(), E2);
        prv(a);
        fputs(" => ", stdout);
        VH_RUN(B{x}, print_sc)
#endif
    }
}

#if defined(SEC_C03I)
// comparisons between a built-in integer and a scaled_integer, integer on either side
template<class R1, int E1, class B, int RX>
void goi(Rng& rng)
{
    using A = scaled_integer<R1, power<E1, RX>>;
    auto lv = vals<R1>(rng, 4 * scale_from_env(), sizeof(R1) > 4 ? 11 : 5);
    auto rv = vals<B>(rng, 4 * scale_from_env(), sizeof(B) > 4 ? 11 : 5);
    for (R1 a : lv)
        for (B b : rv) {
            A x = _impl::from_rep<A>(a);
#define IC(SIDE, NAME, EXPR) \
    { \
        printf("C03 icmp " SIDE " " NAME " %d %s %d %s ", RX, tn<R1>().c_str(), E1, tn<B>().c_str()); \
        prv(a); \
        putchar(' '); \
        prv(b); \
        fputs(" => ", stdout); \
        VH_RUN(EXPR, print_tv) \
    }
            IC("r", "lt", x < b) IC("r", "le", x <= b) IC("r", "gt", x > b) IC("r", "ge", x >= b) IC("r", "eq", x == b) IC("r", "ne", x != b)
            IC("l", "lt", b < x) IC("l", "le", b <= x) IC("l", "gt", b > x) IC("l", "ge", b >= x) IC("l", "eq", b == x) IC("l", "ne", b != x)
        }
}
#endif

#if defined(SEC_C04X)
// conversion between scaled_integers of different radixes
template<class R1, int E1, int RX1, class R2, int E2, int RX2>
void gox(Rng& rng)
{
    using A = scaled_integer<R1, power<E1, RX1>>;
    using B = scaled_integer<R2, power<E2, RX2>>;
    std::vector<R1> lv;
    if constexpr (sizeof(R1) <= 2)
        lv = all_vals<R1>();
    else
        lv = vals<R1>(rng, 200 * scale_from_env(), 1);
    for (R1 a : lv) {
        A x = _impl::from_rep<A>(a);
        printf("C04 cvtx %d %s %d %d %s %d ", RX1, tn<R1>().c_str(), E1, RX2, tn<R2>().c_str(), E2);
        prv(a);
        fputs(" => ", stdout);
        VH_RUN(B{x}, print_sc)
    }
}
#endif

#if defined(SEC_C04F)
#include "vhf.h"
// scaled_integer <-> floating point
template<class R1, int E1, int RX, class F>
void gof(Rng& rng)
{
    using A = scaled_integer<R1, power<E1, RX>>;
    std::vector<R1> lv;
    if constexpr (sizeof(R1) <= 2)
        lv = all_vals<R1>();
    else
        lv = vals<R1>(rng, 200 * scale_from_env(), 1);
    if constexpr (sizeof(R1) >= 4) {
        // values next to the rounding midpoints of every floating format: 2^a + 2^b + c
        constexpr int D = std::numeric_limits<R1>::digits;
        for (int a = D - 1; a >= D - 3 && a > 0; --a)
            for (int p : {24, 25, 53, 54, 64, 65})
                for (int c = -1; c <= 1; ++c) {
                    int b = a - p + 1;
                    if (b < 1) continue;
                    R1 v = R1((R1(1) << a) + (R1(1) << (b - 1)) + R1(c));
                    push_unique(lv, v);
                    if constexpr (std::is_signed_v<R1>) push_unique(lv, R1(-v));
                    R1 w = R1((R1(1) << a) + (R1(3) << (b - 1)) + R1(c));
                    push_unique(lv, w);
                }
    }
    for (R1 a : lv) {
        A x = _impl::from_rep<A>(a);
        printf("C04 tof %d %s %d %s ", RX, tn<R1>().c_str(), E1, vhf::FN<F>::name);
        prv(a);
        fputs(" => ", stdout);
        {
            int vh_rc = sigsetjmp(vh::jb, 1);
            if (vh_rc == 0) {
                vh::armed = 1;
                F z = static_cast<F>(x);
                vh::armed = 0;
                vhf::prf(z);
            } else {
                vh::armed = 0;
                vh::print_fail(vh_rc);
            }
            putchar('\n');
        }
    }
    // floats around the representable range of A: integers and fractions scaled by radix^E1
    std::vector<F> fv;
    F unit = std::pow(F(RX), F(E1));
    for (R1 a : vals<R1>(rng, 40 * scale_from_env(), sizeof(R1) > 4 ? 7 : 3)) {
        for (F o : {F(0), F(0.25), F(0.5), F(0.75), F(1)}) {
            vhf::push_f(fv, F((F(a) + o) * unit));
            vhf::push_f(fv, F((F(a) - o) * unit));
        }
    }
    for (F f : vhf::fvals<F>(rng, 60 * scale_from_env(), false))
        if (std::isfinite(f)) vhf::push_f(fv, f);
    for (F f : fv) {
        printf("C04 fromf %d %s %d %s ", RX, tn<R1>().c_str(), E1, vhf::FN<F>::name);
        vhf::prf(f);
        fputs(" => ", stdout);
        VH_RUN(A{f}, print_sc)
    }
}
#endif
