// C06 / C07: overflow detection and handling under the overflow tags, on both detection paths
#include "vh.h"
#include "vhf.h"
using namespace cnl;
using namespace vh;
static const bool vh_strict_on = (vh::strict = true);

#ifndef VH_TABLE
#define VH_TABLE "C06"
#endif
#if defined(CNL_BUILTIN_OVERFLOW_ENABLED)
#define VH_PATH "builtin"
#else
#define VH_PATH "portable"
#endif

// operand lattices plus the points that solve the predicates' branch conditions
template<class L, class R>
void operands(Rng& rng, std::vector<L>& lv, std::vector<R>& rv)
{
    lv = vals<L>(rng, 5 * scale_from_env(), sizeof(L) > 8 ? 17 : sizeof(L) > 4 ? 11 : 5);
    rv = vals<R>(rng, 5 * scale_from_env(), sizeof(R) > 8 ? 17 : sizeof(R) > 4 ? 11 : 5);
    using T = decltype(std::declval<L>() * std::declval<R>());
    std::vector<L> extra;
    int n = 0;
    for (R r : rv) {
        if (r == 0 || ++n > 24) continue;
        for (int d = -1; d <= 1; ++d) {
            I lim = I(1) << 126;
            I a = I(std::numeric_limits<T>::max() / 2) / I(r);
            I b = I(std::numeric_limits<T>::lowest() / 2) / I(r);
            if (a <= -lim / 2 || a >= lim / 2 || b <= -lim / 2 || b >= lim / 2) continue;
            a = 2 * a + d;
            b = 2 * b + d;
            if (sizeof(T) < 16) {
                a = I(std::numeric_limits<T>::max()) / I(r) + d;
                b = I(std::numeric_limits<T>::lowest()) / I(r) + d;
            }
            for (I v : {a, b, -a, -b})
                if (v >= I(std::numeric_limits<L>::lowest()) && v <= I(std::numeric_limits<L>::max())) extra.push_back(L(v));
        }
    }
    for (L e : extra) push_unique(lv, e);
}

template<class Tag, class Op, class L, class R>
void bin(char const* on, std::vector<L> const& lv, std::vector<R> const& rv)
{
    std::string tag = TagN<Tag>::name();
    bool is_div = !strcmp(on, "div"), is_shl = !strcmp(on, "shl") || !strcmp(on, "shr");
    for (L l : lv)
        for (R r : rv) {
            if (is_div && r == 0) continue;
            if (is_shl && (r < 0 || I(r) > 300)) continue;
            printf(VH_TABLE " bin " VH_PATH " %s %s %s %s ", tag.c_str(), on, tn<L>().c_str(), tn<R>().c_str());
            prv(l);
            putchar(' ');
            prv(r);
            fputs(" => ", stdout);
            VH_RUN((custom_operator<Op, op_value<L, Tag>, op_value<R, Tag>>{}(l, r)), print_tv)
        }
}

template<class Tag, class L>
void neg(std::vector<L> const& lv)
{
    std::string tag = TagN<Tag>::name();
    for (L l : lv) {
        printf(VH_TABLE " neg " VH_PATH " %s %s ", tag.c_str(), tn<L>().c_str());
        prv(l);
        fputs(" => ", stdout);
        VH_RUN((custom_operator<_impl::minus_op, op_value<L, Tag>>{}(l)), print_tv)
    }
}

template<class Tag, class S, class D>
void cvt(std::vector<S> const& sv)
{
    std::string tag = TagN<Tag>::name();
    for (S s : sv) {
        printf(VH_TABLE " cvt " VH_PATH " %s %s %s ", tag.c_str(), tn<S>().c_str(), tn<D>().c_str());
        prv(s);
        fputs(" => ", stdout);
        VH_RUN((convert<Tag, D>{}(s)), print_tv)
    }
}

// through overflow_integer (wrapper dispatch on top of the tagged operators)
template<class Tag, class L, class R>
void wrapped(std::vector<L> const& lv, std::vector<R> const& rv)
{
    std::string tag = TagN<Tag>::name();
    using A = overflow_integer<L, Tag>;
    using B = overflow_integer<R, Tag>;
    int n = 0;
    for (L l : lv)
        for (R r : rv) {
            if ((n++ % 3) != 0) continue;
            A a = _impl::from_rep<A>(l);
            B b = _impl::from_rep<B>(r);
#define WB(NAME, EXPR) \
    { \
        printf(VH_TABLE " wbin " VH_PATH " %s " NAME " %s %s ", tag.c_str(), tn<L>().c_str(), tn<R>().c_str()); \
        prv(l); \
        putchar(' '); \
        prv(r); \
        fputs(" => ", stdout); \
        VH_RUN(EXPR, print_num) \
    }
            WB("add", a + b)
            WB("sub", a - b)
            WB("mul", a * b)
            if (r != 0) WB("div", a / b)
        }
}

// ++ / -- on overflow_integer<T, Tag> (pre_to_assign: `x += 1` under the tag, converted back to T under the tag):
// new value of the operand and the value the expression returns
template<class Tag, class T>
void wincdec(Rng& rng)
{
    std::string tag = TagN<Tag>::name();
    using A = overflow_integer<T, Tag>;
    using NL = std::numeric_limits<T>;
    std::vector<T> lv;
    for (I v : {I(0), I(1), I(-1), I(NL::max()), I(NL::max()) - 1, I(NL::lowest()), I(NL::lowest()) + 1, I(NL::max() / 2)})
        if (v >= I(NL::lowest()) && v <= I(NL::max())) push_unique(lv, T(v));
    for (T v : vals<T>(rng, 2 * scale_from_env(), 64)) push_unique(lv, v);
    for (T l : lv) {
#define WID(NAME, STMT) \
    { \
        printf(VH_TABLE " winc " VH_PATH " %s " NAME " %s ", tag.c_str(), tn<T>().c_str()); \
        prv(l); \
        fputs(" => ", stdout); \
        int vh_rc = sigsetjmp(vh::jb, 1); \
        if (vh_rc == 0) { \
            vh::armed = 1; \
            try { \
                A c = _impl::from_rep<A>(l); \
                A ret = (STMT); \
                vh::armed = 0; \
                prv(_impl::to_rep(c)); \
                putchar('|'); \
                prv(_impl::to_rep(ret)); \
            } catch (std::overflow_error const& e) { \
                vh::armed = 0; \
                fputs(strstr(e.what(), "positive") ? "THROW+" : "THROW-", stdout); \
            } \
        } else { \
            vh::armed = 0; \
            vh::print_fail(vh_rc); \
        } \
        putchar('\n'); \
    }
        WID("pre+", ++c)
        WID("pre-", --c)
        WID("post+", c++)
        WID("post-", c--)
    }
}

// overflow_integer over a class-type representation that has a most negative number (rounding_integer<int>,
// single-word wide_integer): the tests that guard lowest / -1, -lowest and lowest << n must still apply.
// Lines of the `bin` / `neg` tables with the innermost built-in types.
template<class Tag, class Rep, class T>
void wclass(Rng& rng)
{
    std::string tag = TagN<Tag>::name();
    using A = overflow_integer<Rep, Tag>;
    using NL = std::numeric_limits<T>;
    std::vector<T> lv;
    for (I v : {I(0), I(1), I(-1), I(2), I(-2), I(NL::max()), I(NL::lowest()), I(NL::lowest()) + 1, I(NL::lowest() / 2), I(NL::max() / 2) + 1})
        if (v >= I(NL::lowest()) && v <= I(NL::max())) push_unique(lv, T(v));
    for (T v : vals<T>(rng, 2 * scale_from_env(), 64)) push_unique(lv, v);
    auto inner = [](auto const& z) { return innermost(z); };
    for (T l : lv) {
        A a = _impl::from_rep<A>(_impl::from_rep<Rep>(l));
        printf(VH_TABLE " neg " VH_PATH " %s %s ", tag.c_str(), tn<T>().c_str());
        prv(l);
        fputs(" => ", stdout);
        VH_RUN(inner(-a), print_tv)
        for (T r : lv) {
            A b = _impl::from_rep<A>(_impl::from_rep<Rep>(r));
#define WC(NAME, EXPR) \
    { \
        printf(VH_TABLE " bin " VH_PATH " %s " NAME " %s %s ", tag.c_str(), tn<T>().c_str(), tn<T>().c_str()); \
        prv(l); \
        putchar(' '); \
        prv(r); \
        fputs(" => ", stdout); \
        VH_RUN(inner(EXPR), print_tv) \
    }
            if (r != 0) WC("div", a / b)
            WC("add", a + b)
            WC("sub", a - b)
            WC("mul", a * b)
            if (r >= 0 && I(r) <= 70) WC("shl", a << b)
        }
    }
}

// shifts through overflow_integer with the count itself an overflow_integer (wrapper shifted by wrapper):
// counts around the widths and, for wide count types, values whose low 32 bits look negative
template<class Tag, class L, class R>
void wshift(Rng& rng)
{
    std::string tag = TagN<Tag>::name();
    using A = overflow_integer<L, Tag>;
    using B = overflow_integer<R, Tag>;
    using P = decltype(std::declval<L>() << 1);
    using NL = std::numeric_limits<L>;
    constexpr int W = int(sizeof(P) * 8);
    std::vector<L> lv;
    for (I v : {I(0), I(1), I(-1), I(5), I(-5), I(NL::max()), I(NL::lowest()), I(NL::max() / 2) + 1})
        if (v >= I(NL::lowest()) && v <= I(NL::max())) push_unique(lv, L(v));
    for (L v : vals<L>(rng, 2 * scale_from_env(), 64)) push_unique(lv, v);
    std::vector<R> rv;
    for (I c : {I(0), I(1), I(7), I(8), I(W - 1), I(W), I(W + 1), I(2 * W), I(255), I(256), I(257), I(32767), I(65535), I(65536),
                (I(1) << 31) - 1, I(1) << 31, (I(1) << 31) + 1, (I(1) << 31) + 5, (I(1) << 32) - 1, I(1) << 32, (I(1) << 32) + 1, (I(1) << 32) + 31,
                (I(3) << 31), (I(1) << 63) - 1, I(1) << 63, (I(1) << 63) + 3, I(std::numeric_limits<R>::max())})
        if (c >= 0 && c <= I(std::numeric_limits<R>::max())) push_unique(rv, R(c));
    for (L l : lv)
        for (R r : rv) {
            A a = _impl::from_rep<A>(l);
            B b = _impl::from_rep<B>(r);
            WB("shl", a << b)
#if defined(VH_WITH_SHR)
            WB("shr", a >> b)
#endif
            WB("shl", a << r)
#if defined(VH_WITH_SHR)
            WB("shr", a >> r)
#endif
        }
}

template<class Tag, class L, class R>
void pair(Rng& rng)
{
    std::vector<L> lv;
    std::vector<R> rv;
    operands<L, R>(rng, lv, rv);
    bin<Tag, _impl::add_op, L, R>("add", lv, rv);
    bin<Tag, _impl::subtract_op, L, R>("sub", lv, rv);
    bin<Tag, _impl::multiply_op, L, R>("mul", lv, rv);
    bin<Tag, _impl::divide_op, L, R>("div", lv, rv);
    if constexpr (sizeof(R) <= 8) bin<Tag, _impl::shift_left_op, L, R>("shl", lv, rv);
#if defined(VH_WITH_SHR)
    if constexpr (sizeof(R) <= 8) bin<Tag, _impl::shift_right_op, L, R>("shr", lv, rv);
#endif
    neg<Tag, L>(lv);
    cvt<Tag, L, R>(lv);
}


// conversion from floating point under an overflow tag
template<class Tag, class F, class D>
void cvtf(Rng& rng)
{
    std::string tag = TagN<Tag>::name();
    std::vector<F> fv;
    auto nb = [&](F x) {
        vhf::push_f(fv, x);
        vhf::push_f(fv, std::nextafter(x, std::numeric_limits<F>::infinity()));
        vhf::push_f(fv, std::nextafter(x, -std::numeric_limits<F>::infinity()));
    };
    using L = std::numeric_limits<D>;
    for (F o : {F(-2), F(-1), F(-0.5), F(0), F(0.5), F(1), F(2), F(64), F(128), F(256)}) {
        nb(F(F(L::max()) + o));
        nb(F(F(L::lowest()) + o));
    }
    // the repaired boundary, densely: the limits, the powers of two they round to, and +-1, +-2 ulp
    // around each (whatever the format holds of them), both signs; zero and the smallest magnitudes
    auto nb2 = [&](F x) {
        F inf = std::numeric_limits<F>::infinity();
        nb(x);
        vhf::push_f(fv, std::nextafter(std::nextafter(x, inf), inf));
        vhf::push_f(fv, std::nextafter(std::nextafter(x, -inf), -inf));
    };
    for (int k : {L::digits - 1, L::digits, L::digits + 1})
        for (F sg : {F(1), F(-1)}) {
            F p = sg * std::ldexp(F(1), k);
            nb2(p);
            for (F o : {F(0.25), F(0.5), F(0.75), F(1), F(1.5), F(2), F(3)}) {
                nb2(F(p - sg * o));
                nb2(F(p + sg * o));
            }
        }
    nb2(F(L::max()));
    nb2(F(L::lowest()));
    for (F z : {F(0), -F(0), std::numeric_limits<F>::denorm_min(), -std::numeric_limits<F>::denorm_min(), std::numeric_limits<F>::min(),
                -std::numeric_limits<F>::min(), F(-0.25), F(-0.5), F(-0.75), F(-1), F(-1.5)})
        nb2(z);
    for (D d : vals<D>(rng, 6 * scale_from_env(), sizeof(D) > 4 ? 13 : 5)) {
        nb(F(d));
        nb(F(F(d) + F(0.5)));
    }
    for (F f : vhf::fvals<F>(rng, 40 * scale_from_env(), false))
        if (std::isfinite(f)) vhf::push_f(fv, f);
    for (F x : fv) {
        printf(VH_TABLE " cvtf " VH_PATH " %s %s %s ", tag.c_str(), vhf::FN<F>::name, tn<D>().c_str());
        vhf::prf(x);
        fputs(" => ", stdout);
        VH_RUN((convert<Tag, D>{}(x)), print_tv)
    }
}


// the three operators with an intrinsic fast path, for sweeping every operand type pair cheaply
template<class Tag, class L, class R>
void pair_arith(Rng& rng)
{
    std::vector<L> lv;
    std::vector<R> rv;
    operands<L, R>(rng, lv, rv);
    bin<Tag, _impl::add_op, L, R>("add", lv, rv);
    bin<Tag, _impl::subtract_op, L, R>("sub", lv, rv);
    bin<Tag, _impl::multiply_op, L, R>("mul", lv, rv);
}


// shift counts around the width of the promoted left operand, densely (the repaired boundaries:
// 0 << n and x >> n with n >= width, -1 << digits)
template<class Tag, class L, class R>
void shift_dense(Rng& rng)
{
    using P = decltype(std::declval<L>() << 1);
    using NL = std::numeric_limits<L>;
    constexpr int W = int(sizeof(P) * 8), DG = std::numeric_limits<P>::digits;
    std::vector<L> lv;
    for (I v : {I(0), I(1), I(-1), I(2), I(-2), I(3), I(-3), I(NL::max()), I(NL::lowest()), I(NL::max()) - 1, I(NL::lowest()) + 1,
                I(NL::max() / 2), I(NL::max() / 2) + 1, I(NL::lowest() / 2), I(NL::lowest() / 2) - 1})
        if (v >= I(NL::lowest()) && v <= I(NL::max())) push_unique(lv, L(v));
    for (L v : vals<L>(rng, 3 * scale_from_env(), 64)) push_unique(lv, v);
    std::vector<R> rv;
    for (int c : {0, 1, 2, 6, 7, 8, 9, 15, 16, 17, DG - 2, DG - 1, DG, DG + 1, W - 1, W, W + 1, W + 2, 2 * W - 1, 2 * W, 2 * W + 1, 127, 128, 129, 255, 256,
                  int(sizeof(L) * 8) - 1, int(sizeof(L) * 8), int(sizeof(L) * 8) + 1})
        if (c >= 0 && I(c) <= I(std::numeric_limits<R>::max())) push_unique(rv, R(c));
    bin<Tag, _impl::shift_left_op, L, R>("shl", lv, rv);
#if defined(VH_WITH_SHR)
    bin<Tag, _impl::shift_right_op, L, R>("shr", lv, rv);
#endif
}


// ---------------------------------------------------------------------------------------------
// conversions in which an overflow_integer takes part as a NUMBER (the wrapper's converting constructors and
// conversion operator, not the bare `convert<>` functor):
//   wcvt <path> <tag> ww <S> <D> v   overflow_integer<S,Tag> -> overflow_integer<D,Tag>   (constructor from a related wrapper)
//   wcvt <path> <tag> wa <S> <D> v   the same by assignment to an existing object
//   wcvt <path> <tag> wb <S> <D> v   overflow_integer<S,Tag> -> built-in D                (explicit conversion operator)
//   wcvt <path> <tag> bw <S> <D> v   built-in S -> overflow_integer<D,Tag>                (constructor from a non-wrapper)
//   wcvt <path> <tag> rw <S> <D> v   rounding_integer<S> -> overflow_integer<D,Tag>       (constructor from an unrelated wrapper)
//   wcvt <path> <tag> ew <S> <D> v   elastic_integer<digits S> -> overflow_integer<D,Tag> (S may be a width no built-in has: i21, u12)
//   wcvt <path> <tag> wf <S> <D> v   function argument: f(overflow_integer<D,Tag>) called with an overflow_integer<S,Tag>
// values: the lattice of S plus the limits of D and their neighbours (where S holds them)
template<class S, class D>
std::vector<S> cvt_vals(Rng& rng, I slo, I shi)
{
    std::vector<S> sv;
    using DL = std::numeric_limits<D>;
    for (I o : {I(-2), I(-1), I(0), I(1), I(2)})
        for (I b : {I(DL::max()), I(DL::lowest()), I(0), slo, shi, I(DL::max()) / 2, -I(DL::max())}) {
            I v = b + o;
            if ((b > 0 && v < 0) || (b < 0 && v > 0 && o < 0)) continue;  // wrapped in __int128 (never for the types used here)
            if (v >= slo && v <= shi) push_unique(sv, S(v));
        }
    for (S v : vals<S>(rng, 4 * scale_from_env(), sizeof(S) > 4 ? 11 : 5))
        if (I(v) >= slo && I(v) <= shi) push_unique(sv, v);
    return sv;
}

template<class D, class Tag>
overflow_integer<D, Tag> wcvt_arg(overflow_integer<D, Tag> x) { return x; }

#define WCV(KIND, SN, EXPR, PRINT) \
    { \
        printf(VH_TABLE " wcvt " VH_PATH " %s " KIND " %s %s ", tag.c_str(), SN, tn<D>().c_str()); \
        prv(s); \
        fputs(" => ", stdout); \
        VH_RUN(EXPR, PRINT) \
    }

template<class Tag, class S, class D>
void wcvt(Rng& rng)
{
    std::string tag = TagN<Tag>::name();
    using A = overflow_integer<S, Tag>;
    using B = overflow_integer<D, Tag>;
    using SL = std::numeric_limits<S>;
    std::string sn = tn<S>();
    for (S s : cvt_vals<S, D>(rng, I(SL::lowest()), I(SL::max()))) {
        A a = _impl::from_rep<A>(s);
        WCV("ww", sn.c_str(), (B{a}), print_num)
        WCV("wa", sn.c_str(), ([&] { B b{}; b = a; return b; }()), print_num)
        WCV("wf", sn.c_str(), (wcvt_arg<D, Tag>(a)), print_num)
        WCV("wb", sn.c_str(), (static_cast<D>(a)), print_tv)
        WCV("bw", sn.c_str(), (B{s}), print_num)
        if constexpr (sizeof(S) <= 8) {
            using RI = rounding_integer<S, native_rounding_tag>;
            RI r = _impl::from_rep<RI>(s);
            WCV("rw", sn.c_str(), (B{r}), print_num)
        }
    }
}

// a cnl::constant<V> source (the value is a template argument; S = decltype(V)): the tagged convert functor's overload
// for constants, and the constructor of overflow_integer<D, Tag> from a constant
//   ccvt <path> <tag> <S> <D> v        convert<Tag, D>{}(constant<V>{})
//   wcvt <path> <tag> cw <S> <D> v     overflow_integer<D, Tag>{constant<V>{}}
template<class Tag, class D, auto V>
void ccvt()
{
    std::string tag = TagN<Tag>::name();
    using S = std::remove_cv_t<decltype(V)>;
    using B = overflow_integer<D, Tag>;
    S s = V;
    printf(VH_TABLE " ccvt " VH_PATH " %s %s %s ", tag.c_str(), tn<S>().c_str(), tn<D>().c_str());
    prv(s);
    fputs(" => ", stdout);
    VH_RUN((convert<Tag, D>{}(constant<V>{})), print_tv)
    std::string sn = tn<S>();
    WCV("cw", sn.c_str(), (B{constant<V>{}}), print_num)
}

// elastic_integer<ED, N> sources: digit counts that no built-in type has
template<class Tag, int ED, class N, class D>
void wcvt_elastic(Rng& rng)
{
    std::string tag = TagN<Tag>::name();
    using B = overflow_integer<D, Tag>;
    using E = elastic_integer<ED, N>;
    using S = _impl::rep_of_t<E>;
    constexpr bool sg = std::is_signed_v<N>;
    std::string sn = (sg ? "i" : "u") + std::to_string(ED + (sg ? 1 : 0));
    I hi = (I(1) << ED) - 1;
    for (S s : cvt_vals<S, D>(rng, sg ? -hi : I(0), hi)) {
        E e = _impl::from_rep<E>(s);
        WCV("ew", sn.c_str(), (B{e}), print_num)
    }
}


// ---------------------------------------------------------------------------------------------
// static_number / static_integer: the rounding layer INSIDE the overflow layer (the overflow test passes the
// operands on to elastic / rounding arithmetic on the bare representation), at and next to full width of the word:
//   sn bin <mode> <tag> <op> <D1> <E1> <D2> <E2> a b      (the line format of the C11 table, judged by the C11 model)
//   sn neg <mode> <tag> <D1> <E1> a
// E = i in the harness call means a bare static_integer (printed with exponent 0).
template<class Z>
void print_sn(Z const& z)
{
    if constexpr (std::is_same_v<Z, bool>) {
        putchar(z ? '1' : '0');
    } else {
        int e = 0;
        if constexpr (requires { _impl::tag_of_t<Z>::exponent; }) e = _impl::tag_of_t<Z>::exponent;
        printf("sn(%d,%d):", digits_v<Z>, e);
        prv(cnl::unwrap(z));
    }
}

// build from the representation value without going through any checked conversion
template<class T>
T mk_static(I v)
{
    if constexpr (_impl::is_wrapper<T>)
        return _impl::from_rep<T>(mk_static<_impl::rep_of_t<T>>(v));
    else
        return T(v);
}

// magnitudes up to the declared limit 2^D - 1, dense in the top two binades (both operands above half the range:
// the remainder of their division is above a quarter of it), plus small and seeded random values; both signs
template<int D>
std::vector<I> sn_vals(Rng& rng, int nrand)
{
    std::vector<I> v;
    I hi = (I(1) << D) - 1;
    auto add = [&](I x) {
        if (x < 0) x = -x;
        if (x > hi) return;
        push_unique(v, x);
        push_unique(v, I(-x));
    };
    for (int d = 0; d <= 3; ++d) {
        add(hi - d);
        add(d);
        for (int j : {D - 1, D - 2, D - 3, D / 2}) {
            if (j < 0) continue;
            add((I(1) << j) + d);
            add((I(1) << j) - d);
        }
        add(hi / 3 + d);
        add(2 * (hi / 3) + d);
        add(hi / 3 * 2 - d);
        add(hi / 2 + (hi / 4) + d);
    }
    for (I s : {I(7), I(10), I(1000), I(65536)}) add(s);
    for (int i = 0; i < nrand; ++i) {
        U x = rng.next128();
        int len = (i % 2) ? D : 1 + rng.below(D);  // every other one with the top bit of the range set
        x &= ((U(1) << len) - 1);
        if (i % 2) x |= U(1) << (D - 1);
        add(I(x & U(hi)));
    }
    return v;
}

template<class R, class O, int D1, int E1, int D2, int E2, bool Bare = false>
void sn_ops(Rng& rng)
{
    using A = std::conditional_t<Bare, static_integer<D1, R, O>, static_number<D1, E1, R, O>>;
    using B = std::conditional_t<Bare, static_integer<D2, R, O>, static_number<D2, E2, R, O>>;
    std::string rt = TagN<R>::name(), ot = TagN<O>::name();
    auto av = sn_vals<D1>(rng, 6 * scale_from_env());
    auto bv = sn_vals<D2>(rng, 6 * scale_from_env());
#define SNH(NAME) \
    printf(VH_TABLE " sn bin %s %s " NAME " %d %d %d %d ", rt.c_str(), ot.c_str(), D1, E1, D2, E2); \
    pri(a); \
    putchar(' '); \
    pri(b); \
    fputs(" => ", stdout);
    for (I a : av) {
        A x = mk_static<A>(a);
        for (I b : bv) {
            B y = mk_static<B>(b);
            if (b != 0) { SNH("div") VH_RUN(x / y, print_sn) }
            { SNH("add") VH_RUN(x + y, print_sn) }
            { SNH("sub") VH_RUN(x - y, print_sn) }
            if constexpr (D1 + D2 <= 120) { SNH("mul") VH_RUN(x * y, print_sn) }
        }
        printf(VH_TABLE " sn neg %s %s %d %d ", rt.c_str(), ot.c_str(), D1, E1);
        pri(a);
        fputs(" => ", stdout);
        VH_RUN(-x, print_sn)
    }
}


// ---------------------------------------------------------------------------------------------
// scaled_integer conversion between DIFFERENT radixes into an overflow_integer representation:
//   sxr <path> <tag> <S> <eS> <rS> <D> <eD> <rD> v    scaled_integer<S, power<eS, rS>> -> scaled_integer<overflow_integer<D, Tag>, power<eD, rD>>
// the scaling steps (multiplications by a power of either radix, then divisions) must run under the tag.
// values: lattice of S plus the solutions of  limit / factor  for every prefix of the multiplication chain
template<class Tag, class S, int ES, int RS, class D, int ED, int RD>
void sxr(Rng& rng)
{
    static_assert(RS != RD);
    std::string tag = TagN<Tag>::name();
    using A = scaled_integer<S, power<ES, RS>>;
    using B = scaled_integer<overflow_integer<D, Tag>, power<ED, RD>>;
    using SL = std::numeric_limits<S>;
    using DL = std::numeric_limits<D>;
    auto ipow = [](int r, int k) { I p = 1; while (k-- > 0) p *= r; return p; };
    I m1 = ES > 0 ? ipow(RS, ES) : 1, m2 = ED < 0 ? ipow(RD, -ED) : 1;
    I d1 = ES < 0 ? ipow(RS, -ES) : 1, d2 = ED > 0 ? ipow(RD, ED) : 1;
    std::vector<S> sv = vals<S>(rng, 6 * scale_from_env(), sizeof(S) > 4 ? 11 : 5);
    for (I lim : {I(SL::max()), I(SL::lowest()), I(DL::max()), I(DL::lowest()), I(DL::max()) + 1})
        for (I f : {m1, m2, m1 * m2})
            for (I g : {I(1), d1, d1 * d2})
                for (I o : {I(-1), I(0), I(1), I(2)}) {
                    // lim / f * g: the source value whose scaled image is next to the limit
                    I q = lim / f;
                    if (q > (I(1) << 100) / g || q < -(I(1) << 100) / g) continue;
                    for (I v : {q * g + o, -(q * g) + o, (q + o) * g})
                        if (v >= I(SL::lowest()) && v <= I(SL::max())) push_unique(sv, S(v));
                }
    for (S s : sv) {
        printf(VH_TABLE " sxr " VH_PATH " %s %s %d %d %s %d %d ", tag.c_str(), tn<S>().c_str(), ES, RS, tn<D>().c_str(), ED, RD);
        prv(s);
        fputs(" => ", stdout);
        A a = _impl::from_rep<A>(s);
        VH_RUN((B{a}), print_num)
    }
}
