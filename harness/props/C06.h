// C06 / C07: overflow detection and handling under the overflow tags, on both detection paths
#include "vh.h"
#include "vhf.h"
using namespace cnl;
using namespace vh;
static const bool vh_strict_on = (vh::strict = true);

#ifndef VH_TABLE
#define VH_TABLE "C06"
#endif
#if defined(CNL_BUILTIN_OVERFLOW_ENABLED)
#define VH_PATH "builtin"
#else
#define VH_PATH "portable"
#endif

// operand lattices plus the points that solve the predicates' branch conditions
template<class L, class R>
void operands(Rng& rng, std::vector<L>& lv, std::vector<R>& rv)
{
    lv = vals<L>(rng, 5 * scale_from_env(), sizeof(L) > 8 ? 17 : sizeof(L) > 4 ? 11 : 5);
    rv = vals<R>(rng, 5 * scale_from_env(), sizeof(R) > 8 ? 17 : sizeof(R) > 4 ? 11 : 5);
    using T = decltype(std::declval<L>() * std::declval<R>());
    std::vector<L> extra;
    int n = 0;
    for (R r : rv) {
        if (r == 0 || ++n > 24) continue;
        for (int d = -1; d <= 1; ++d) {
            I lim = I(1) << 126;
            I a = I(std::numeric_limits<T>::max() / 2) / I(r);
            I b = I(std::numeric_limits<T>::lowest() / 2) / I(r);
            if (a <= -lim / 2 || a >= lim / 2 || b <= -lim / 2 || b >= lim / 2) continue;
            a = 2 * a + d;
            b = 2 * b + d;
            if (sizeof(T) < 16) {
                a = I(std::numeric_limits<T>::max()) / I(r) + d;
                b = I(std::numeric_limits<T>::lowest()) / I(r) + d;
            }
            for (I v : {a, b, -a, -b})
                if (v >= I(std::numeric_limits<L>::lowest()) && v <= I(std::numeric_limits<L>::max())) extra.push_back(L(v));
        }
    }
    for (L e : extra) push_unique(lv, e);
}

template<class Tag, class Op, class L, class R>
void bin(char const* on, std::vector<L> const& lv, std::vector<R> const& rv)
{
    std::string tag = TagN<Tag>::name();
    bool is_div = !strcmp(on, "div"), is_shl = !strcmp(on, "shl") || !strcmp(on, "shr");
    for (L l : lv)
        for (R r : rv) {
            if (is_div && r == 0) continue;
            if (is_shl && (r < 0 || I(r) > 300)) continue;
            printf(VH_TABLE " bin " VH_PATH " %s %s %s %s ", tag.c_str(), on, tn<L>().c_str(), tn<R>().c_str());
            prv(l);
            putchar(' ');
            prv(r);
            fputs(" => ", stdout);
            VH_RUN((custom_operator<Op, op_value<L, Tag>, op_value<R, Tag>>{}(l, r)), print_tv)
        }
}

template<class Tag, class L>
void neg(std::vector<L> const& lv)
{
    std::string tag = TagN<Tag>::name();
    for (L l : lv) {
        printf(VH_TABLE " neg " VH_PATH " %s %s ", tag.c_str(), tn<L>().c_str());
        prv(l);
        fputs(" => ", stdout);
        VH_RUN((custom_operator<_impl::minus_op, op_value<L, Tag>>{}(l)), print_tv)
    }
}

template<class Tag, class S, class D>
void cvt(std::vector<S> const& sv)
{
    std::string tag = TagN<Tag>::name();
    for (S s : sv) {
        printf(VH_TABLE " cvt " VH_PATH " %s %s %s ", tag.c_str(), tn<S>().c_str(), tn<D>().c_str());
        prv(s);
        fputs(" => ", stdout);
        VH_RUN((convert<Tag, D>{}(s)), print_tv)
    }
}

// through overflow_integer (wrapper dispatch on top of the tagged operators)
template<class Tag, class L, class R>
void wrapped(std::vector<L> const& lv, std::vector<R> const& rv)
{
    std::string tag = TagN<Tag>::name();
    using A = overflow_integer<L, Tag>;
    using B = overflow_integer<R, Tag>;
    int n = 0;
    for (L l : lv)
        for (R r : rv) {
            if ((n++ % 3) != 0) continue;
            A a = _impl::from_rep<A>(l);
            B b = _impl::from_rep<B>(r);
#define WB(NAME, EXPR) \
    { \
        printf(VH_TABLE " wbin " VH_PATH " %s " NAME " %s %s ", tag.c_str(), tn<L>().c_str(), tn<R>().c_str()); \
        prv(l); \
        putchar(' '); \
        prv(r); \
        fputs(" => ", stdout); \
        VH_RUN(EXPR, print_num) \
    }
            WB("add", a + b)
            WB("sub", a - b)
            WB("mul", a * b)
            if (r != 0) WB("div", a / b)
        }
}

// ++ / -- on overflow_integer<T, Tag> (pre_to_assign: `x += 1` under the tag, converted back to T under the tag):
// new value of the operand and the value the expression returns
template<class Tag, class T>
void wincdec(Rng& rng)
{
    std::string tag = TagN<Tag>::name();
    using A = overflow_integer<T, Tag>;
    using NL = std::numeric_limits<T>;
    std::vector<T> lv;
    for (I v : {I(0), I(1), I(-1), I(NL::max()), I(NL::max()) - 1, I(NL::lowest()), I(NL::lowest()) + 1, I(NL::max() / 2)})
        if (v >= I(NL::lowest()) && v <= I(NL::max())) push_unique(lv, T(v));
    for (T v : vals<T>(rng, 2 * scale_from_env(), 64)) push_unique(lv, v);
    for (T l : lv) {
#define WID(NAME, STMT) \
    { \
        printf(VH_TABLE " winc " VH_PATH " %s " NAME " %s ", tag.c_str(), tn<T>().c_str()); \
        prv(l); \
        fputs(" => ", stdout); \
        int vh_rc = sigsetjmp(vh::jb, 1); \
        if (vh_rc == 0) { \
            vh::armed = 1; \
            try { \
                A c = _impl::from_rep<A>(l); \
                A ret = (STMT); \
                vh::armed = 0; \
                prv(_impl::to_rep(c)); \
                putchar('|'); \
                prv(_impl::to_rep(ret)); \
            } catch (std::overflow_error const& e) { \
                vh::armed = 0; \
                fputs(strstr(e.what(), "positive") ? "THROW+" : "THROW-", stdout); \
            } \
        } else { \
            vh::armed = 0; \
            vh::print_fail(vh_rc); \
        } \
        putchar('\n'); \
    }
        WID("pre+", ++c)
        WID("pre-", --c)
        WID("post+", c++)
        WID("post-", c--)
    }
}

// overflow_integer over a class-type representation that has a most negative number (rounding_integer<int>,
// single-word wide_integer): the tests that guard lowest / -1, -lowest and lowest << n must still apply.
// Lines of the `bin` / `neg` tables with the innermost built-in types.
template<class Tag, class Rep, class T>
void wclass(Rng& rng)
{
    std::string tag = TagN<Tag>::name();
    using A = overflow_integer<Rep, Tag>;
    using NL = std::numeric_limits<T>;
    std::vector<T> lv;
    for (I v : {I(0), I(1), I(-1), I(2), I(-2), I(NL::max()), I(NL::lowest()), I(NL::lowest()) + 1, I(NL::lowest() / 2), I(NL::max() / 2) + 1})
        if (v >= I(NL::lowest()) && v <= I(NL::max())) push_unique(lv, T(v));
    for (T v : vals<T>(rng, 2 * scale_from_env(), 64)) push_unique(lv, v);
    auto inner = [](auto const& z) { return innermost(z); };
    for (T l : lv) {
        A a = _impl::from_rep<A>(_impl::from_rep<Rep>(l));
        printf(VH_TABLE " neg " VH_PATH " %s %s ", tag.c_str(), tn<T>().c_str());
        prv(l);
        fputs(" => ", stdout);
        VH_RUN(inner(-a), print_tv)
        for (T r : lv) {
            A b = _impl::from_rep<A>(_impl::from_rep<Rep>(r));
#define WC(NAME, EXPR) \
    { \
        printf(VH_TABLE " bin " VH_PATH " %s " NAME " %s %s ", tag.c_str(), tn<T>().c_str(), tn<T>().c_str()); \
        prv(l); \
        putchar(' '); \
        prv(r); \
        fputs(" => ", stdout); \
        VH_RUN(inner(EXPR), print_tv) \
    }
            if (r != 0) WC("div", a / b)
            WC("add", a + b)
            WC("sub", a - b)
            WC("mul", a * b)
            if (r >= 0 && I(r) <= 70) WC("shl", a << b)
        }
    }
}

// shifts through overflow_integer with the count itself an overflow_integer (wrapper shifted by wrapper):
// counts around the widths and, for wide count types, values whose low 32 bits look negative
template<class Tag, class L, class R>
void wshift(Rng& rng)
{
    std::string tag = TagN<Tag>::name();
    using A = overflow_integer<L, Tag>;
    using B = overflow_integer<R, Tag>;
    using P = decltype(std::declval<L>() << 1);
    using NL = std::numeric_limits<L>;
    constexpr int W = int(sizeof(P) * 8);
    std::vector<L> lv;
    for (I v : {I(0), I(1), I(-1), I(5), I(-5), I(NL::max()), I(NL::lowest()), I(NL::max() / 2) + 1})
        if (v >= I(NL::lowest()) && v <= I(NL::max())) push_unique(lv, L(v));
    for (L v : vals<L>(rng, 2 * scale_from_env(), 64)) push_unique(lv, v);
    std::vector<R> rv;
    for (I c : {I(0), I(1), I(7), I(8), I(W - 1), I(W), I(W + 1), I(2 * W), I(255), I(256), I(257), I(32767), I(65535), I(65536),
                (I(1) << 31) - 1, I(1) << 31, (I(1) << 31) + 1, (I(1) << 31) + 5, (I(1) << 32) - 1, I(1) << 32, (I(1) << 32) + 1, (I(1) << 32) + 31,
                (I(3) << 31), (I(1) << 63) - 1, I(1) << 63, (I(1) << 63) + 3, I(std::numeric_limits<R>::max())})
        if (c >= 0 && c <= I(std::numeric_limits<R>::max())) push_unique(rv, R(c));
    for (L l : lv)
        for (R r : rv) {
            A a = _impl::from_rep<A>(l);
            B b = _impl::from_rep<B>(r);
            WB("shl", a << b)
#if defined(VH_WITH_SHR)
            WB("shr", a >> b)
#endif
            WB("shl", a << r)
#if defined(VH_WITH_SHR)
            WB("shr", a >> r)
#endif
        }
}

template<class Tag, class L, class R>
void pair(Rng& rng)
{
    std::vector<L> lv;
    std::vector<R> rv;
    operands<L, R>(rng, lv, rv);
    bin<Tag, _impl::add_op, L, R>("add", lv, rv);
    bin<Tag, _impl::subtract_op, L, R>("sub", lv, rv);
    bin<Tag, _impl::multiply_op, L, R>("mul", lv, rv);
    bin<Tag, _impl::divide_op, L, R>("div", lv, rv);
    if constexpr (sizeof(R) <= 8) bin<Tag, _impl::shift_left_op, L, R>("shl", lv, rv);
#if defined(VH_WITH_SHR)
    if constexpr (sizeof(R) <= 8) bin<Tag, _impl::shift_right_op, L, R>("shr", lv, rv);
#endif
    neg<Tag, L>(lv);
    cvt<Tag, L, R>(lv);
}


// conversion from floating point under an overflow tag
template<class Tag, class F, class D>
void cvtf(Rng& rng)
{
    std::string tag = TagN<Tag>::name();
    std::vector<F> fv;
    auto nb = [&](F x) {
        vhf::push_f(fv, x);
        vhf::push_f(fv, std::nextafter(x, std::numeric_limits<F>::infinity()));
        vhf::push_f(fv, std::nextafter(x, -std::numeric_limits<F>::infinity()));
    };
    using L = std::numeric_limits<D>;
    for (F o : {F(-2), F(-1), F(-0.5), F(0), F(0.5), F(1), F(2), F(64), F(128), F(256)}) {
        nb(F(F(L::max()) + o));
        nb(F(F(L::lowest()) + o));
    }
    // the repaired boundary, densely: the limits, the powers of two they round to, and +-1, +-2 ulp
    // around each (whatever the format holds of them), both signs; zero and the smallest magnitudes
    auto nb2 = [&](F x) {
        F inf = std::numeric_limits<F>::infinity();
        nb(x);
        vhf::push_f(fv, std::nextafter(std::nextafter(x, inf), inf));
        vhf::push_f(fv, std::nextafter(std::nextafter(x, -inf), -inf));
    };
    for (int k : {L::digits - 1, L::digits, L::digits + 1})
        for (F sg : {F(1), F(-1)}) {
            F p = sg * std::ldexp(F(1), k);
            nb2(p);
            for (F o : {F(0.25), F(0.5), F(0.75), F(1), F(1.5), F(2), F(3)}) {
                nb2(F(p - sg * o));
                nb2(F(p + sg * o));
            }
        }
    nb2(F(L::max()));
    nb2(F(L::lowest()));
    for (F z : {F(0), -F(0), std::numeric_limits<F>::denorm_min(), -std::numeric_limits<F>::denorm_min(), std::numeric_limits<F>::min(),
                -std::numeric_limits<F>::min(), F(-0.25), F(-0.5), F(-0.75), F(-1), F(-1.5)})
        nb2(z);
    for (D d : vals<D>(rng, 6 * scale_from_env(), sizeof(D) > 4 ? 13 : 5)) {
        nb(F(d));
        nb(F(F(d) + F(0.5)));
    }
    for (F f : vhf::fvals<F>(rng, 40 * scale_from_env(), false))
        if (std::isfinite(f)) vhf::push_f(fv, f);
    for (F x : fv) {
        printf(VH_TABLE " cvtf " VH_PATH " %s %s %s ", tag.c_str(), vhf::FN<F>::name, tn<D>().c_str());
        vhf::prf(x);
        fputs(" => ", stdout);
        VH_RUN((convert<Tag, D>{}(x)), print_tv)
    }
}


// the three operators with an intrinsic fast path, for sweeping every operand type pair cheaply
template<class Tag, class L, class R>
void pair_arith(Rng& rng)
{
    std::vector<L> lv;
    std::vector<R> rv;
    operands<L, R>(rng, lv, rv);
    bin<Tag, _impl::add_op, L, R>("add", lv, rv);
    bin<Tag, _impl::subtract_op, L, R>("sub", lv, rv);
    bin<Tag, _impl::multiply_op, L, R>("mul", lv, rv);
}


// shift counts around the width of the promoted left operand, densely (the repaired boundaries:
// 0 << n and x >> n with n >= width, -1 << digits)
template<class Tag, class L, class R>
void shift_dense(Rng& rng)
{
    using P = decltype(std::declval<L>() << 1);
    using NL = std::numeric_limits<L>;
    constexpr int W = int(sizeof(P) * 8), DG = std::numeric_limits<P>::digits;
    std::vector<L> lv;
    for (I v : {I(0), I(1), I(-1), I(2), I(-2), I(3), I(-3), I(NL::max()), I(NL::lowest()), I(NL::max()) - 1, I(NL::lowest()) + 1,
                I(NL::max() / 2), I(NL::max() / 2) + 1, I(NL::lowest() / 2), I(NL::lowest() / 2) - 1})
        if (v >= I(NL::lowest()) && v <= I(NL::max())) push_unique(lv, L(v));
    for (L v : vals<L>(rng, 3 * scale_from_env(), 64)) push_unique(lv, v);
    std::vector<R> rv;
    for (int c : {0, 1, 2, 6, 7, 8, 9, 15, 16, 17, DG - 2, DG - 1, DG, DG + 1, W - 1, W, W + 1, W + 2, 2 * W - 1, 2 * W, 2 * W + 1, 127, 128, 129, 255, 256,
                  int(sizeof(L) * 8) - 1, int(sizeof(L) * 8), int(sizeof(L) * 8) + 1})
        if (c >= 0 && I(c) <= I(std::numeric_limits<R>::max())) push_unique(rv, R(c));
    bin<Tag, _impl::shift_left_op, L, R>("shl", lv, rv);
#if defined(VH_WITH_SHR)
    bin<Tag, _impl::shift_right_op, L, R>("shr", lv, rv);
#endif
}
