"""C16 — cnl::fraction follows the rationals.

Translation units:
  pairs8_*    pairs of fraction<int8,int8>: seeded strided subsets of the 65536 fractions (+ a fixed corner set with both
              signs, zeros and -128) cross-multiplied; all six comparisons on every pair, + - * / on every third pair
  singles8_*  every one of the 65536 fraction<int8,int8>: reduce, canonical, gcd, std::hash; unary - + abs and
              conversion to float/double on a stride (all of them in the thorough tier)
  equal8_*    for a strided (thorough: every) left operand, ALL 8-bit fractions denoting the same rational:
              == and std::hash equality
  wide_*      16/32/64-bit, unsigned and mixed component types: boundary lattice x small values x equal-valued
              constructions, every operator, std::hash, conversions to float/double/long double
"""
import random

CT = {'i8': 'std::int8_t', 'u8': 'std::uint8_t', 'i16': 'std::int16_t', 'u16': 'std::uint16_t',
      'i32': 'std::int32_t', 'u32': 'std::uint32_t', 'i64': 'std::int64_t', 'u64': 'std::uint64_t'}

HDR = __file__.replace('.py', '.h')


def fr(n, d):
    return 'fraction<%s, %s>' % (CT[n], CT[d])


# (lhs numerator, lhs denominator, rhs numerator, rhs denominator)
FIXED = [
    ('i16', 'i16', 'i16', 'i16'),
    ('i32', 'i32', 'i32', 'i32'),
    ('i64', 'i64', 'i64', 'i64'),
    ('i8', 'i8', 'i16', 'i16'),
    ('i32', 'i32', 'i64', 'i64'),
    ('i8', 'i16', 'i8', 'i16'),
    ('i32', 'i64', 'i32', 'i64'),
    ('u8', 'u8', 'u8', 'u8'),
    ('u32', 'u32', 'u32', 'u32'),
    ('i32', 'u32', 'i32', 'u32'),
    ('i16', 'u8', 'i8', 'i8'),
    ('u16', 'i16', 'i32', 'i8'),
    # 64-bit unsigned components (cross products that use the top bit; order operators never see a negative
    # denominator; conversion of 64-bit unsigned values to long double), unsigned components of different widths
    ('u64', 'u64', 'u64', 'u64'),
    ('u32', 'u64', 'u64', 'u32'),
    ('i64', 'u64', 'i64', 'u64'),
    ('u16', 'u16', 'u16', 'u16'),
]


def grid(tier, seed):
    rnd = random.Random(seed * 7919 + 16)
    types = list(CT)
    signed = [t for t in types if t[0] == 'i']
    combos = list(FIXED)
    extra = 4 if tier == 'quick' else 16
    for _ in range(extra):
        if rnd.random() < 0.6:
            combos.append((rnd.choice(signed), rnd.choice(signed), rnd.choice(signed), rnd.choice(signed)))
        else:
            combos.append((rnd.choice(types), rnd.choice(types), rnd.choice(types), rnd.choice(types)))
    seen, out = set(), []
    for c in combos:
        if c not in seen:
            seen.add(c)
            out.append(c)
    return out


def tu(name, body, compiler='g++'):
    src = '#include "%s"\nint main(){ install(); Rng rng(seed_from_env());\n%s}\n' % (HDR, body)
    return dict(name=name, src=src, compiler=compiler)


def tus(tier, seed):
    res = []
    thorough = tier == 'thorough'
    # 8-bit pair space (one source, partitioned at run time by argv-free constants so that binaries are cached per part)
    nparts = 12 if thorough else 6
    for p in range(nparts):
        res.append(tu('C16_pairs8_%d' % p, '  pairs8(rng, %d, %d, 131u, 113u, 3);\n' % (p, nparts)))
    if thorough:
        for p in range(0, nparts, 4):
            res.append(tu('C16_pairs8_%d_clang' % p, '  pairs8(rng, %d, %d, 131u, 113u, 3);\n' % (p, nparts), 'clang++'))
    ns = 4
    for p in range(ns):
        res.append(tu('C16_singles8_%d' % p, '  singles8(%d, %d, 7u);\n' % (p, ns)))
    if thorough:
        res.append(tu('C16_singles8_0_clang', '  singles8(0, %d, 7u);\n' % ns, 'clang++'))
    ne = 4 if thorough else 2
    for p in range(ne):
        res.append(tu('C16_equal8_%d' % p, '  equal8(rng, %d, %d, 5u);\n' % (p, ne)))
    if thorough:
        res.append(tu('C16_equal8_0_clang', '  equal8(rng, 0, %d, 5u);\n' % ne, 'clang++'))
    combos = grid(tier, seed)
    per = 2
    for i in range(0, len(combos), per):
        body = ''
        for j, (an, ad, bn, bd) in enumerate(combos[i:i + per]):
            body += '  { Rng r2(seed_from_env() * 1000 + %d); wide<%s, %s>(r2); }\n' % (i + j, fr(an, ad), fr(bn, bd))
        res.append(tu('C16_wide_%d' % (i // per), body))
        if thorough and (i // per) % 3 == 0:
            res.append(tu('C16_wide_%d_clang' % (i // per), body, 'clang++'))
    return res


THOROUGH_SCALE = 3
EXHAUSTIVE = True
RULE = ("8-bit components: every single fraction (65536) for reduce/canonical/gcd/hash; pairs of fractions from seeded strided "
        "subsets x fixed corner set (both signs of numerators and denominators, zeros, -128) for the six comparisons and + - * /; "
        "all equal-valued partners of the selected left operands for ==/std::hash; 16/32/64-bit, unsigned and mixed "
        "instantiations on boundary lattice x small values x equal-valued constructions.  A case is non-trivial when the "
        "property's guard holds (non-zero denominators, every product/sum representable in the type C++ computes it in)")
ASSUMPTIONS = ["std::gcd is modelled after libstdc++ 12 (binary gcd taken as Nat.gcd); std::hash<Integer> enters the theorems as an "
               "arbitrary function and the driver as libstdc++'s identity hash",
               "IEEE rounding of the floating-point conversion is modelled in CnlModel.Fraction.roundDiv and tied by the "
               "correspondence check only (the proved statement is about the exact quotient)"]
TRUSTED = ["core Rat (Init.Data.Rat) as the field of rationals"]
