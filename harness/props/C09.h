// C09: narrowing conversions under a rounding tag, through cnl::convert<Tag, Dest>
#include "vh.h"
#include "vhf.h"
using namespace cnl;
using namespace vh;
static const bool vh_strict_on = (vh::strict = true);

// floats that matter for rounding to a multiple of 2^E within D's range: every tie n+1/2, its two
// neighbours, quarters, integers, the same at D's limits, plus structured floats
template<class F, class D>
std::vector<F> round_inputs(Rng& rng, int E)
{
    std::vector<F> v;
    F unit = std::ldexp(F(1), E);
    auto nb = [&](F x) {
        vhf::push_f(v, x);
        vhf::push_f(v, std::nextafter(x, std::numeric_limits<F>::infinity()));
        vhf::push_f(v, std::nextafter(x, -std::numeric_limits<F>::infinity()));
    };
    auto around = [&](F n) {
        for (F o : {F(0), F(0.25), F(0.5), F(0.75), F(1)}) {
            nb(F((n + o) * unit));
            nb(F((n - o) * unit));
        }
    };
    for (int n = -4; n <= 4; ++n) around(F(n));
    using L = std::numeric_limits<D>;
    around(F(L::max()));
    around(F(L::lowest()));
    around(F(L::max() / 2));
    around(F(L::max()) - F(1));
    for (D d : vals<D>(rng, 6 * scale_from_env(), sizeof(D) > 4 ? 13 : 5)) around(F(d));
    for (F f : vhf::fvals<F>(rng, 40 * scale_from_env(), false))
        if (std::isfinite(f)) vhf::push_f(v, f);
    return v;
}

template<class Tag, class F, class D>
void f2i(Rng& rng)
{
    std::string mode = TagN<Tag>::name();
    for (F x : round_inputs<F, D>(rng, 0)) {
        printf("C09 f2i %s %s %s ", mode.c_str(), vhf::FN<F>::name, tn<D>().c_str());
        vhf::prf(x);
        fputs(" => ", stdout);
        VH_RUN((convert<Tag, D>{}(x)), print_tv)
    }
}

template<class Tag, class S, int ES, class D, int ED>
void s2s(Rng& rng)
{
    std::string mode = TagN<Tag>::name();
    using A = scaled_integer<S, power<ES>>;
    using B = scaled_integer<D, power<ED>>;
    std::vector<S> sv;
    if constexpr (sizeof(S) <= 2)
        sv = all_vals<S>();
    else {
        sv = vals<S>(rng, 40 * scale_from_env(), sizeof(S) > 4 ? 5 : 2);
        if constexpr (ED > ES && ED - ES < 62) {
            // ties q*2^k + 2^(k-1) and neighbours
            constexpr int k = ED - ES;
            for (int i = 0; i < 40; ++i) {
                I q = I(rng.next() % 2001) - 1000;
                if (i % 4 == 0) q = (I(std::numeric_limits<S>::max()) >> k) - (i % 3);
                if (i % 4 == 1) q = (I(std::numeric_limits<S>::lowest()) >> k) + (i % 3);
                for (int d = -1; d <= 1; ++d) {
                    I t = (q << k) + (I(1) << (k - 1)) + d;
                    if (t >= I(std::numeric_limits<S>::lowest()) && t <= I(std::numeric_limits<S>::max())) push_unique(sv, S(t));
                }
            }
        }
    }
    for (S s : sv) {
        A a = _impl::from_rep<A>(s);
        printf("C09 s2s %s %s %d %s %d ", mode.c_str(), tn<S>().c_str(), ES, tn<D>().c_str(), ED);
        prv(s);
        fputs(" => ", stdout);
        VH_RUN((convert<Tag, B>{}(a)), print_num)
    }
}

// the rounding tag in the representation: scaled_integer<rounding_integer<S, Tag>, power<ES>> converted to
// scaled_integer<rounding_integer<D, Tag>, power<ED>> (scale<ES - ED> of a rounding_integer = tagged division)
template<class Tag, class S, int ES, class D, int ED>
void w2w(Rng& rng)
{
    std::string mode = TagN<Tag>::name();
    using A = scaled_integer<rounding_integer<S, Tag>, power<ES>>;
    using B = scaled_integer<rounding_integer<D, Tag>, power<ED>>;
    std::vector<S> sv;
    if constexpr (sizeof(S) <= 2)
        sv = all_vals<S>();
    else {
        sv = vals<S>(rng, 40 * scale_from_env(), sizeof(S) > 4 ? 5 : 2);
        if constexpr (ED > ES && ED - ES < 62) {
            constexpr int k = ED - ES;
            for (int i = 0; i < 60; ++i) {
                I q = I(rng.next() % 2001) - 1000;
                if (i % 4 == 0) q = (I(std::numeric_limits<S>::max()) >> k) - (i % 3);
                if (i % 4 == 1) q = (I(std::numeric_limits<S>::lowest()) >> k) + (i % 3);
                for (int d = -1; d <= 1; ++d) {
                    I t = (q << k) + (I(1) << (k - 1)) + d;
                    if (t >= I(std::numeric_limits<S>::lowest()) && t <= I(std::numeric_limits<S>::max())) push_unique(sv, S(t));
                }
            }
            // the top and bottom 2^k values of the source range
            for (int d = 0; d < (1 << (k < 5 ? k : 5)); ++d) {
                push_unique(sv, S(std::numeric_limits<S>::max() - S(d)));
                push_unique(sv, S(std::numeric_limits<S>::lowest() + S(d)));
            }
        }
    }
    for (S s : sv) {
        A a = _impl::from_rep<A>(_impl::from_rep<rounding_integer<S, Tag>>(s));
        printf("C09 w2w %s %s %d %s %d ", mode.c_str(), tn<S>().c_str(), ES, tn<D>().c_str(), ED);
        prv(s);
        fputs(" => ", stdout);
        VH_RUN((static_cast<B>(a)), print_num)
    }
}

template<class Tag, class F, class D, int ED>
void f2s(Rng& rng)
{
    std::string mode = TagN<Tag>::name();
    using B = scaled_integer<D, power<ED>>;
    std::vector<F> xs = round_inputs<F, D>(rng, ED);
    // n * 2^(ED-7) (exact in every format): all small n of both signs (every 128th of the destination unit up to
    // +-2.5 units), random n up to 2^17, and the same offsets below / above the destination limits
    {
        using L = std::numeric_limits<D>;
        for (int n = -320; n <= 320; ++n) vhf::push_f(xs, std::ldexp(F(n), ED - 7));
        for (int i = 0; i < 24 * scale_from_env(); ++i) {
            int n = int(rng.next() % 131072u);
            vhf::push_f(xs, std::ldexp(F((i & 1) ? -n : n), ED - 7));
        }
        // (float cannot hold limit +- n/128 for wide D: the sum is rounded to the format; still a lattice point)
        for (int n = -192; n <= 192; n += (sizeof(D) * 8 + 7 > unsigned(vhf::FI<F>::prec) ? 16 : 1)) {
            vhf::push_f(xs, F(std::ldexp(F(L::max()), ED) + std::ldexp(F(n), ED - 7)));
            vhf::push_f(xs, F(std::ldexp(F(L::lowest()), ED) + std::ldexp(F(n), ED - 7)));
        }
    }
    for (F x : xs) {
        printf("C09 f2s %s %s %s %d ", mode.c_str(), vhf::FN<F>::name, tn<D>().c_str(), ED);
        vhf::prf(x);
        fputs(" => ", stdout);
        VH_RUN((convert<Tag, B>{}(x)), print_num)
    }
}


// plain integer -> coarser scaled_integer, and scaled_integer -> plain integer (these forward to the
// scaled -> scaled operators through scaled_integer<Input> / scaled_integer<Result>)
template<class Tag, class S, class D, int ED>
void i2s(Rng& rng)
{
    std::string mode = TagN<Tag>::name();
    using B = scaled_integer<D, power<ED>>;
    std::vector<S> sv;
    if constexpr (sizeof(S) <= 2)
        sv = all_vals<S>();
    else
        sv = vals<S>(rng, 60 * scale_from_env(), 2);
    for (S s : sv) {
        printf("C09 s2s %s %s 0 %s %d ", mode.c_str(), tn<S>().c_str(), tn<D>().c_str(), ED);
        prv(s);
        fputs(" => ", stdout);
        VH_RUN((convert<Tag, B>{}(s)), print_num)
    }
}
template<class Tag, class S, int ES, class D>
void s2i(Rng& rng)
{
    std::string mode = TagN<Tag>::name();
    using A = scaled_integer<S, power<ES>>;
    std::vector<S> sv;
    if constexpr (sizeof(S) <= 2)
        sv = all_vals<S>();
    else
        sv = vals<S>(rng, 60 * scale_from_env(), 2);
    for (S s : sv) {
        A a = _impl::from_rep<A>(s);
        printf("C09 s2i %s %s %d %s ", mode.c_str(), tn<S>().c_str(), ES, tn<D>().c_str());
        prv(s);
        fputs(" => ", stdout);
        VH_RUN((convert<Tag, D>{}(a)), print_tv)
    }
}

// ---------------------------------------------------------------------------------------------------------
// elastic_scaled_integer<DS, power<ES>, N> -> elastic_scaled_integer<DD, power<ES + K>, N>: plain conversion
// (static_cast), convert<native / nearest / tie_to_pos_inf / neg_inf>.  The representation is an elastic_integer,
// so every step (scale<-K> = division by divisor_rep{1} << K, the bias from +- half, >> K) runs in the elastic
// layer's storage types.  Values are 128-bit; they use the top digits of the source, both signs.
template<class N, int DS>
std::vector<I> e2e_vals(Rng& rng, int K, int nrand)
{
    constexpr bool sg = std::is_signed_v<N>;
    I const lim = (I(1) << DS) - 1;
    I const lo = sg ? -lim : I(0);
    std::vector<I> v;
    auto add = [&](I x) {
        if (x >= lo && x <= lim) push_unique(v, x);
    };
    I const unit = I(1) << K, half = I(1) << (K - 1);
    I const qmax = lim >> K;
    std::vector<I> qs;
    for (int q = -3; q <= 3; ++q) qs.push_back(q);
    for (int d = 0; d < 3; ++d) {
        qs.push_back(qmax - d);
        qs.push_back(-(qmax - d));
        qs.push_back((qmax >> 1) + d);
        qs.push_back(-(qmax >> 1) - d);
    }
    for (int i = 0; i < nrand; ++i) {
        I q = I(rng.next128() % (U(qmax) + 1));
        qs.push_back((i & 1) ? -q : q);
    }
    for (I q : qs)
        for (I base : {q * unit, q * unit + half})
            for (int j = -1; j <= 1; ++j) add(base + j);
    for (int d = 0; d < 3; ++d) {
        add(lim - d);
        add(lo + d);
    }
    for (int i = 0; i < nrand; ++i) {
        I x = I(rng.next128() % (U(lim) + 1));
        add((i & 1) ? -x : x);
    }
    return v;
}

template<class N, int DS, int ES, int DD, int K>
void e2e(Rng& rng)
{
    static_assert(K >= 1 && DS <= 126);
    using A = elastic_scaled_integer<DS, power<ES>, N>;
    using B = elastic_scaled_integer<DD, power<ES + K>, N>;
    using AR = elastic_integer<DS, N>;
    using R = _impl::rep_of_t<AR>;
    std::string head = tn<N>() + " " + std::to_string(DS) + " " + std::to_string(ES) + " " + std::to_string(DD) + " " + std::to_string(ES + K) + " ";
    for (I s : e2e_vals<N, DS>(rng, K, 6 * scale_from_env())) {
        A a = _impl::from_rep<A>(_impl::from_rep<AR>(static_cast<R>(s)));
        auto line = [&](char const* how) {
            printf("C09 e2e %s %s", how, head.c_str());
            prv(s);
            fputs(" => ", stdout);
        };
        line("cast");
        VH_RUN((static_cast<B>(a)), print_num)
        line("nat");
        VH_RUN((convert<native_rounding_tag, B>{}(a)), print_num)
        // (the biased conversions need the destination unit 2^K in the source's digits to mean anything:
        //  class C09.scaled_half_unit_exceeds_source_rep; K < DS is the grid's choice, both sides are covered)
        // nearest compares `from >= 0`, which brings the int 0 to the source's exponent in int: power_value<int, -ES, 2>
        // is ill-formed (static_assert) for ES < -30
        if constexpr (ES >= -30) {
            line("nrst");
            VH_RUN((convert<nearest_rounding_tag, B>{}(a)), print_num)
        }
        line("tpi");
        VH_RUN((convert<tie_to_pos_inf_rounding_tag, B>{}(a)), print_num)
        line("ninf");
        VH_RUN((convert<neg_inf_rounding_tag, B>{}(a)), print_num)
    }
}
// all shifts K0 .. K0 + sizeof...(Ks) - 1, destination digits = source digits
template<class N, int DS, int ES, int K0, int... Ks>
void e2e_sweep_(Rng& rng, std::integer_sequence<int, Ks...>)
{
    (e2e<N, DS, ES, DS, K0 + Ks>(rng), ...);
}
template<class N, int DS, int ES, int K0, int Count>
void e2e_sweep(Rng& rng)
{
    e2e_sweep_<N, DS, ES, K0>(rng, std::make_integer_sequence<int, Count>{});
}

// ---------------------------------------------------------------------------------------------------------
// a scaled_integer whose representation carries the rounding mode, converted to a FUNDAMENTAL integer:
// static_cast<D>(x), D{x} (wrapper::operator S(): convert<native_tag, S, power<E>>{}(rep), i.e. scale<E> of the
// representation -- the tagged division by 2^-E -- then the conversion of the representation to D).
// A = scaled_integer<rounding_integer<S, Tag>, power<E>>, static_number<Digits, E, Tag, OTag, N>, nests.
template<class A>
struct sc_exp;
template<class Rep, int E, int Radix>
struct sc_exp<scaled_integer<Rep, power<E, Radix>>> {
    static constexpr int value = E;
};
template<class A, class D>
void w2i(Rng& rng)
{
    using Rep = _impl::rep_of_t<A>;
    using In = decltype(innermost(std::declval<A>()));
    constexpr int E = sc_exp<A>::value;
    constexpr int dg = digits_v<A>;   // digits of the number (a static_number uses fewer than its storage)
    I const lim = I(innermost(std::numeric_limits<A>::max()));
    I const lo = I(innermost(std::numeric_limits<A>::lowest()));
    std::vector<I> sv;
    auto add = [&](I x) {
        if (x >= lo && x <= lim) push_unique(sv, x);
    };
    if (dg <= 12) {
        for (I x = lo; x <= lim; ++x) sv.push_back(x);
    } else {
        for (int i = -40; i <= 40; ++i) add(i);
        for (int d = 0; d < 8; ++d) {
            add(lim - d);
            add(lo + d);
        }
        for (int i = 0; i < 30 * scale_from_env(); ++i) {
            I x = I(rng.next128() % (U(lim) + 1)) >> (rng.next() % dg);
            add((i & 1) ? -x : x);
        }
        if constexpr (E < 0) {
            constexpr int k = -E;
            if (k < 100) {
                I const qmax = lim >> k;
                for (int i = 0; i < 60; ++i) {
                    I q = I(rng.next128() % (U(qmax) + 1));
                    if (i % 4 == 0) q = qmax - (i % 3);
                    if (i % 4 == 1) q = I(rng.next() % 50);
                    if (i & 1) q = -q;
                    for (I base : {q << k, (q << k) + (I(1) << (k - 1))})
                        for (int d = -1; d <= 1; ++d) add(base + d);
                }
            }
        }
    }
    std::string head = "C09 w2i " + tn<A>() + " " + tn<D>() + " ";
    for (I s : sv) {
        A a = _impl::from_rep<A>(Rep{static_cast<In>(s)});
        fputs(head.c_str(), stdout);
        prv(s);
        fputs(" => ", stdout);
        VH_RUN((static_cast<D>(a)), print_tv)
    }
}
