// C09: narrowing conversions under a rounding tag, through cnl::convert<Tag, Dest>
#include "vh.h"
#include "vhf.h"
using namespace cnl;
using namespace vh;
static const bool vh_strict_on = (vh::strict = true);

// floats that matter for rounding to a multiple of 2^E within D's range: every tie n+1/2, its two
// neighbours, quarters, integers, the same at D's limits, plus structured floats
template<class F, class D>
std::vector<F> round_inputs(Rng& rng, int E)
{
    std::vector<F> v;
    F unit = std::ldexp(F(1), E);
    auto nb = [&](F x) {
        vhf::push_f(v, x);
        vhf::push_f(v, std::nextafter(x, std::numeric_limits<F>::infinity()));
        vhf::push_f(v, std::nextafter(x, -std::numeric_limits<F>::infinity()));
    };
    auto around = [&](F n) {
        for (F o : {F(0), F(0.25), F(0.5), F(0.75), F(1)}) {
            nb(F((n + o) * unit));
            nb(F((n - o) * unit));
        }
    };
    for (int n = -4; n <= 4; ++n) around(F(n));
    using L = std::numeric_limits<D>;
    around(F(L::max()));
    around(F(L::lowest()));
    around(F(L::max() / 2));
    around(F(L::max()) - F(1));
    for (D d : vals<D>(rng, 6 * scale_from_env(), sizeof(D) > 4 ? 13 : 5)) around(F(d));
    for (F f : vhf::fvals<F>(rng, 40 * scale_from_env(), false))
        if (std::isfinite(f)) vhf::push_f(v, f);
    return v;
}

template<class Tag, class F, class D>
void f2i(Rng& rng)
{
    std::string mode = TagN<Tag>::name();
    for (F x : round_inputs<F, D>(rng, 0)) {
        printf("C09 f2i %s %s %s ", mode.c_str(), vhf::FN<F>::name, tn<D>().c_str());
        vhf::prf(x);
        fputs(" => ", stdout);
        VH_RUN((convert<Tag, D>{}(x)), print_tv)
    }
}

template<class Tag, class S, int ES, class D, int ED>
void s2s(Rng& rng)
{
    std::string mode = TagN<Tag>::name();
    using A = scaled_integer<S, power<ES>>;
    using B = scaled_integer<D, power<ED>>;
    std::vector<S> sv;
    if constexpr (sizeof(S) <= 2)
        sv = all_vals<S>();
    else {
        sv = vals<S>(rng, 40 * scale_from_env(), sizeof(S) > 4 ? 5 : 2);
        if constexpr (ED > ES && ED - ES < 62) {
            // ties q*2^k + 2^(k-1) and neighbours
            constexpr int k = ED - ES;
            for (int i = 0; i < 40; ++i) {
                I q = I(rng.next() % 2001) - 1000;
                if (i % 4 == 0) q = (I(std::numeric_limits<S>::max()) >> k) - (i % 3);
                if (i % 4 == 1) q = (I(std::numeric_limits<S>::lowest()) >> k) + (i % 3);
                for (int d = -1; d <= 1; ++d) {
                    I t = (q << k) + (I(1) << (k - 1)) + d;
                    if (t >= I(std::numeric_limits<S>::lowest()) && t <= I(std::numeric_limits<S>::max())) push_unique(sv, S(t));
                }
            }
        }
    }
    for (S s : sv) {
        A a = _impl::from_rep<A>(s);
        printf("C09 s2s %s %s %d %s %d ", mode.c_str(), tn<S>().c_str(), ES, tn<D>().c_str(), ED);
        prv(s);
        fputs(" => ", stdout);
        VH_RUN((convert<Tag, B>{}(a)), print_num)
    }
}

// the rounding tag in the representation: scaled_integer<rounding_integer<S, Tag>, power<ES>> converted to
// scaled_integer<rounding_integer<D, Tag>, power<ED>> (scale<ES - ED> of a rounding_integer = tagged division)
template<class Tag, class S, int ES, class D, int ED>
void w2w(Rng& rng)
{
    std::string mode = TagN<Tag>::name();
    using A = scaled_integer<rounding_integer<S, Tag>, power<ES>>;
    using B = scaled_integer<rounding_integer<D, Tag>, power<ED>>;
    std::vector<S> sv;
    if constexpr (sizeof(S) <= 2)
        sv = all_vals<S>();
    else {
        sv = vals<S>(rng, 40 * scale_from_env(), sizeof(S) > 4 ? 5 : 2);
        if constexpr (ED > ES && ED - ES < 62) {
            constexpr int k = ED - ES;
            for (int i = 0; i < 60; ++i) {
                I q = I(rng.next() % 2001) - 1000;
                if (i % 4 == 0) q = (I(std::numeric_limits<S>::max()) >> k) - (i % 3);
                if (i % 4 == 1) q = (I(std::numeric_limits<S>::lowest()) >> k) + (i % 3);
                for (int d = -1; d <= 1; ++d) {
                    I t = (q << k) + (I(1) << (k - 1)) + d;
                    if (t >= I(std::numeric_limits<S>::lowest()) && t <= I(std::numeric_limits<S>::max())) push_unique(sv, S(t));
                }
            }
            // the top and bottom 2^k values of the source range
            for (int d = 0; d < (1 << (k < 5 ? k : 5)); ++d) {
                push_unique(sv, S(std::numeric_limits<S>::max() - S(d)));
                push_unique(sv, S(std::numeric_limits<S>::lowest() + S(d)));
            }
        }
    }
    for (S s : sv) {
        A a = _impl::from_rep<A>(_impl::from_rep<rounding_integer<S, Tag>>(s));
        printf("C09 w2w %s %s %d %s %d ", mode.c_str(), tn<S>().c_str(), ES, tn<D>().c_str(), ED);
        prv(s);
        fputs(" => ", stdout);
        VH_RUN((static_cast<B>(a)), print_num)
    }
}

template<class Tag, class F, class D, int ED>
void f2s(Rng& rng)
{
    std::string mode = TagN<Tag>::name();
    using B = scaled_integer<D, power<ED>>;
    for (F x : round_inputs<F, D>(rng, ED)) {
        printf("C09 f2s %s %s %s %d ", mode.c_str(), vhf::FN<F>::name, tn<D>().c_str(), ED);
        vhf::prf(x);
        fputs(" => ", stdout);
        VH_RUN((convert<Tag, B>{}(x)), print_num)
    }
}


// plain integer -> coarser scaled_integer, and scaled_integer -> plain integer (these forward to the
// scaled -> scaled operators through scaled_integer<Input> / scaled_integer<Result>)
template<class Tag, class S, class D, int ED>
void i2s(Rng& rng)
{
    std::string mode = TagN<Tag>::name();
    using B = scaled_integer<D, power<ED>>;
    std::vector<S> sv;
    if constexpr (sizeof(S) <= 2)
        sv = all_vals<S>();
    else
        sv = vals<S>(rng, 60 * scale_from_env(), 2);
    for (S s : sv) {
        printf("C09 s2s %s %s 0 %s %d ", mode.c_str(), tn<S>().c_str(), tn<D>().c_str(), ED);
        prv(s);
        fputs(" => ", stdout);
        VH_RUN((convert<Tag, B>{}(s)), print_num)
    }
}
template<class Tag, class S, int ES, class D>
void s2i(Rng& rng)
{
    std::string mode = TagN<Tag>::name();
    using A = scaled_integer<S, power<ES>>;
    std::vector<S> sv;
    if constexpr (sizeof(S) <= 2)
        sv = all_vals<S>();
    else
        sv = vals<S>(rng, 60 * scale_from_env(), 2);
    for (S s : sv) {
        A a = _impl::from_rep<A>(s);
        printf("C09 s2i %s %s %d %s ", mode.c_str(), tn<S>().c_str(), ES, tn<D>().c_str());
        prv(s);
        fputs(" => ", stdout);
        VH_RUN((convert<Tag, D>{}(a)), print_tv)
    }
}
