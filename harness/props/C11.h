// C11: static_integer / static_number are never silently wrong
#include "vh.h"
#include "vhf.h"
using namespace cnl;
using namespace vh;
static const bool vh_strict_on = (vh::strict = true);

template<class Z>
void print_sn(Z const& z)
{
    if constexpr (std::is_same_v<Z, bool>) {
        putchar(z ? '1' : '0');
    } else {
        int e = 0;
        if constexpr (requires { _impl::tag_of_t<Z>::exponent; }) e = _impl::tag_of_t<Z>::exponent;
        printf("sn(%d,%d):", digits_v<Z>, e);
        prv(cnl::unwrap(z));
    }
}

template<int D>
using store_t = std::conditional_t<(D > 63), I, long long>;

template<class T, int D>
T mk_sn(I v)
{
    // build from the representation value without going through any checked conversion
    using SI = _impl::rep_of_t<T>;             // static_integer (overflow_integer<...>)
    using EL = _impl::rep_of_t<SI>;            // elastic_integer
    using RD = _impl::rep_of_t<EL>;            // rounding_integer
    using WD = _impl::rep_of_t<RD>;            // wide_integer (built-in storage up to 127 digits)
    using BI = _impl::rep_of_t<WD>;
    return _impl::from_rep<T>(_impl::from_rep<SI>(_impl::from_rep<EL>(_impl::from_rep<RD>(_impl::from_rep<WD>(BI(v))))));
}

template<int D>
std::vector<I> snvals(Rng& rng, int nrand)
{
    std::vector<I> v;
    I hi = (I(1) << D) - 1;
    auto add = [&](I x) {
        if (x < -hi || x > hi) return;
        for (I y : v)
            if (y == x) return;
        v.push_back(x);
    };
    if (D <= 5) {
        for (I x = -hi; x <= hi; ++x) v.push_back(x);
        return v;
    }
    for (int d = 0; d <= 2; ++d) {
        add(hi - d);
        add(-hi + d);
        add(d);
        add(-d);
    }
    for (int k = 1; k < D; k += (D > 40 ? 9 : D > 16 ? 4 : 2)) {
        I p = I(1) << k;
        add(p);
        add(p - 1);
        add(p + 1);
        add(-p);
        add(-p + 1);
        add(-p - 1);
    }
    add(hi / 2);
    add(hi / 2 + 1);
    add(hi / 3);
    add(-hi / 3);
    add(7);
    add(-7);
    add(100);
    add(-100);
    for (int i = 0; i < nrand; ++i) {
        U x = rng.next128();
        int len = 1 + rng.below(D);
        x &= ((U(1) << len) - 1);
        I t = I(x & U(hi));
        if (rng.below(2)) t = -t;
        add(t);
    }
    return v;
}

#define NHEAD(KIND, NAME) \
    printf("C11 " KIND " %s %s " NAME " %d %d %d %d ", TagN<R>::name().c_str(), TagN<O>::name().c_str(), D1, E1, D2, E2); \
    pri(a); \
    putchar(' '); \
    pri(b); \
    fputs(" => ", stdout);

template<class R, class O, int D1, int E1, int D2, int E2, int D3, int E3>
void go(Rng& rng)
{
    using A = static_number<D1, E1, R, O>;
    using B = static_number<D2, E2, R, O>;
    using C = static_number<D3, E3, R, O>;
    auto av = snvals<D1>(rng, 3 * scale_from_env());
    auto bv = snvals<D2>(rng, 3 * scale_from_env());
    for (I a : av)
        for (I b : bv) {
            A x = mk_sn<A, D1>(a);
            B y = mk_sn<B, D2>(b);
            { NHEAD("bin", "add") VH_RUN(x + y, print_sn) }
            { NHEAD("bin", "sub") VH_RUN(x - y, print_sn) }
            if constexpr (D1 + D2 <= 120) { NHEAD("bin", "mul") VH_RUN(x * y, print_sn) }
            { NHEAD("bin", "div") VH_RUN(x / y, print_sn) }
            { NHEAD("cmp", "lt") VH_RUN(x < y, print_sn) }
            { NHEAD("cmp", "eq") VH_RUN(x == y, print_sn) }
            { NHEAD("cmp", "ge") VH_RUN(x >= y, print_sn) }
            // histories: results feed further operations and a narrowing assignment
            if constexpr (D1 + D2 + D3 <= 110) {
                printf("C11 chain %s %s mul_add %d %d %d %d %d %d ", TagN<R>::name().c_str(), TagN<O>::name().c_str(), D1, E1, D2, E2, D3, E3);
                pri(a);
                putchar(' ');
                pri(b);
                fputs(" => ", stdout);
                VH_RUN(([&] { C c = x; return x * y + c; }()), print_sn)
            }
            {
                printf("C11 chain %s %s sub_div_cvt %d %d %d %d %d %d ", TagN<R>::name().c_str(), TagN<O>::name().c_str(), D1, E1, D2, E2, D3, E3);
                pri(a);
                putchar(' ');
                pri(b);
                fputs(" => ", stdout);
                VH_RUN(([&] { C c = (x - y) / y; return c; }()), print_sn)
            }
        }
    for (I a : av) {
        A x = mk_sn<A, D1>(a);
        printf("C11 neg %s %s %d %d ", TagN<R>::name().c_str(), TagN<O>::name().c_str(), D1, E1);
        pri(a);
        fputs(" => ", stdout);
        VH_RUN(-x, print_sn)
        printf("C11 cvt %s %s %d %d %d %d ", TagN<R>::name().c_str(), TagN<O>::name().c_str(), D1, E1, D3, E3);
        pri(a);
        fputs(" => ", stdout);
        VH_RUN(([&] { C c = x; return c; }()), print_sn)
    }
}


// construction from floating point: rounding conversion below the overflow layer
template<class R, class O, int D, int E, class F>
void fromf(Rng& rng)
{
    using A = static_number<D, E, R, O>;
    std::vector<F> fv;
    F unit = std::ldexp(F(1), E);
    auto nb = [&](F x) {
        vhf::push_f(fv, x);
        vhf::push_f(fv, std::nextafter(x, std::numeric_limits<F>::infinity()));
        vhf::push_f(fv, std::nextafter(x, -std::numeric_limits<F>::infinity()));
    };
    for (I a : snvals<D>(rng, 8 * scale_from_env()))
        for (F o : {F(0), F(0.25), F(0.5), F(0.75)}) {
            nb(F((F(a) + o) * unit));
            nb(F((F(a) - o) * unit));
        }
    // the repaired boundary, densely: the declared limits +-(2^D - 1), the powers of two they round to
    // when the format holds fewer than D digits, fractions around them, and +-1, +-2 ulp of each
    {
        F inf = std::numeric_limits<F>::infinity();
        auto nb2 = [&](F x) {
            nb(x);
            vhf::push_f(fv, std::nextafter(std::nextafter(x, inf), inf));
            vhf::push_f(fv, std::nextafter(std::nextafter(x, -inf), -inf));
        };
        for (int k : {D - 1, D, D + 1})
            for (F sg : {F(1), F(-1)}) {
                F p = sg * std::ldexp(F(1), k);
                nb2(F(p * unit));
                for (F o : {F(0.25), F(0.5), F(0.75), F(1), F(1.25), F(1.5), F(1.75), F(2), F(3)}) {
                    nb2(F(F(p - sg * o) * unit));
                    nb2(F(F(p + sg * o) * unit));
                }
            }
    }
    for (F f : fv) {
        printf("C11 fcvt %s %s %d %d %s ", TagN<R>::name().c_str(), TagN<O>::name().c_str(), D, E, vhf::FN<F>::name);
        vhf::prf(f);
        fputs(" => ", stdout);
        VH_RUN(A{f}, print_sn)
    }
}


// ---------------------------------------------------------------------------------------------
// shifts: `C11 shift <shl|shr> <mode> <tag> <D> <E|i> <count kind> <x> <k>`
// E = i: a bare static_integer<D>; count kinds: int (built-in run-time count), si (a static_integer count),
// const (cnl::constant<k>), aint / aconst (compound assignment with a run-time / constant count)

template<class T>
T mk_any(I v)
{
    if constexpr (requires { _impl::tag_of_t<T>::exponent; }) {
        return mk_sn<T, 0>(v);
    } else {
        using EL = _impl::rep_of_t<T>;
        using RD = _impl::rep_of_t<EL>;
        using WD = _impl::rep_of_t<RD>;
        using BI = _impl::rep_of_t<WD>;
        return _impl::from_rep<T>(_impl::from_rep<EL>(_impl::from_rep<RD>(_impl::from_rep<WD>(BI(v)))));
    }
}

template<class R, class O, int D, int E, bool Bare>
using shift_lhs_t = std::conditional_t<Bare, static_integer<D, R, O>, static_number<D, E, R, O>>;

template<class R, class O, int D, int E, bool Bare>
void shead(char const* op, char const* ck, I x, long long k)
{
    printf("C11 shift %s %s %s %d ", op, TagN<R>::name().c_str(), TagN<O>::name().c_str(), D);
    if (Bare)
        fputs("i ", stdout);
    else
        printf("%d ", E);
    printf("%s ", ck);
    pri(x);
    printf(" %lld => ", k);
}

// operand values: the declared limits, +-2^j for every j (x = -2^(D-k) with count k is the pattern of the
// repaired defect), their neighbours, and seeded random values
template<int D>
std::vector<I> shvals(Rng& rng, int nrand)
{
    std::vector<I> v = snvals<D>(rng, nrand);
    I hi = (I(1) << D) - 1;
    auto add = [&](I x) {
        if (x < -hi || x > hi) return;
        for (I y : v)
            if (y == x) return;
        v.push_back(x);
    };
    for (int j = 0; j < D; ++j) {
        I p = I(1) << j;
        add(p);
        add(-p);
        if (j < 3 || j > D - 4 || j % 5 == 0) {
            add(p + 1);
            add(-p - 1);
            add(p - 1);
            add(-p + 1);
            add(3 * (p / 2));
            add(-3 * (p / 2));
        }
    }
    return v;
}

template<int D>
std::vector<int> shcounts(Rng& rng)
{
    constexpr int W = D <= 31 ? 32 : D <= 63 ? 64 : 128;  // width of the storage type
    std::vector<int> k = {0, 1, 2, 3, D / 2, D - 2, D - 1, D, D + 1, D + 2, W - 2, W - 1, W, W + 1, 2 * W - 1, 2 * W, 1000, 2147483647};
    for (int i = 0; i < 3; ++i) k.push_back(1 + rng.below(D + 2));
    std::vector<int> out;
    for (int c : k) {
        if (c < 0) continue;
        bool dup = false;
        for (int o : out) dup |= o == c;
        if (!dup) out.push_back(c);
    }
    return out;
}

// run-time counts; CD = digits of the static_integer count
template<class R, class O, int D, int E, bool Bare, int CD>
void shifts(Rng& rng)
{
    using T = shift_lhs_t<R, O, D, E, Bare>;
    using CT = static_integer<CD, R, O>;
    auto xv = shvals<D>(rng, 4 * scale_from_env());
    auto kv = shcounts<D>(rng);
    for (I a : xv) {
        // every count that lands |a| on the limit: a * 2^k around 2^D
        std::vector<int> ks = kv;
        {
            I m = a < 0 ? -a : a;
            int len = 0;
            while (m) { ++len; m >>= 1; }
            for (int c : {D - len - 1, D - len, D - len + 1, D - len + 2})
                if (c >= 0) ks.push_back(c);
        }
        for (int k : ks) {
            T x = mk_any<T>(a);
            { shead<R, O, D, E, Bare>("shl", "int", a, k); VH_RUN(x << k, print_sn) }
            { shead<R, O, D, E, Bare>("shr", "int", a, k); VH_RUN(x >> k, print_sn) }
            if (CD < 62 ? (long long)k <= (1LL << CD) - 1 : true) {
                CT n = mk_any<CT>(I(k));
                { shead<R, O, D, E, Bare>("shl", "si", a, k); VH_RUN(x << n, print_sn) }
                { shead<R, O, D, E, Bare>("shr", "si", a, k); VH_RUN(x >> n, print_sn) }
            }
            { shead<R, O, D, E, Bare>("shl", "aint", a, k); VH_RUN(([&] { T y = x; y <<= k; return y; }()), print_sn) }
            { shead<R, O, D, E, Bare>("shr", "aint", a, k); VH_RUN(([&] { T y = x; y >>= k; return y; }()), print_sn) }
        }
    }
}

// cnl::constant<K> counts (K < 0 only for static_number, where the exponent moves)
template<class R, class O, int D, int E, bool Bare, int K>
void cshift(Rng& rng)
{
    using T = shift_lhs_t<R, O, D, E, Bare>;
    auto xv = shvals<D>(rng, 4 * scale_from_env());
    for (I a : xv) {
        T x = mk_any<T>(a);
        if constexpr (!Bare || (K >= 0 && D + K <= 120)) {
            { shead<R, O, D, E, Bare>("shl", "const", a, K); VH_RUN(x << constant<K>{}, print_sn) }
            // the conversion back widens by |K| digits first: keep within the built-in storage the model covers
            if constexpr (D + (K < 0 ? -K : K) <= 120) { shead<R, O, D, E, Bare>("shl", "aconst", a, K); VH_RUN(([&] { T y = x; y <<= constant<K>{}; return y; }()), print_sn) }
        }
        if constexpr (!Bare || (K >= 0 && K <= D)) {
            { shead<R, O, D, E, Bare>("shr", "const", a, K); VH_RUN(x >> constant<K>{}, print_sn) }
            if constexpr (D + (K < 0 ? -K : K) <= 120) { shead<R, O, D, E, Bare>("shr", "aconst", a, K); VH_RUN(([&] { T y = x; y >>= constant<K>{}; return y; }()), print_sn) }
        }
    }
}
