// C11: static_integer / static_number are never silently wrong
#include "vh.h"
#include "vhf.h"
using namespace cnl;
using namespace vh;
static const bool vh_strict_on = (vh::strict = true);

template<class Z>
void print_sn(Z const& z)
{
    if constexpr (std::is_same_v<Z, bool>) {
        putchar(z ? '1' : '0');
    } else {
        int e = 0;
        if constexpr (requires { _impl::tag_of_t<Z>::exponent; }) e = _impl::tag_of_t<Z>::exponent;
        printf("sn(%d,%d):", digits_v<Z>, e);
        prv(cnl::unwrap(z));
    }
}

template<int D>
using store_t = std::conditional_t<(D > 63), I, long long>;

template<class T, int D>
T mk_sn(I v)
{
    // build from the representation value without going through any checked conversion
    using SI = _impl::rep_of_t<T>;             // static_integer (overflow_integer<...>)
    using EL = _impl::rep_of_t<SI>;            // elastic_integer
    using RD = _impl::rep_of_t<EL>;            // rounding_integer
    using WD = _impl::rep_of_t<RD>;            // wide_integer (built-in storage up to 127 digits)
    using BI = _impl::rep_of_t<WD>;
    return _impl::from_rep<T>(_impl::from_rep<SI>(_impl::from_rep<EL>(_impl::from_rep<RD>(_impl::from_rep<WD>(BI(v))))));
}

template<int D>
std::vector<I> snvals(Rng& rng, int nrand)
{
    std::vector<I> v;
    I hi = (I(1) << D) - 1;
    auto add = [&](I x) {
        if (x < -hi || x > hi) return;
        for (I y : v)
            if (y == x) return;
        v.push_back(x);
    };
    if (D <= 5) {
        for (I x = -hi; x <= hi; ++x) v.push_back(x);
        return v;
    }
    for (int d = 0; d <= 2; ++d) {
        add(hi - d);
        add(-hi + d);
        add(d);
        add(-d);
    }
    for (int k = 1; k < D; k += (D > 40 ? 9 : D > 16 ? 4 : 2)) {
        I p = I(1) << k;
        add(p);
        add(p - 1);
        add(p + 1);
        add(-p);
        add(-p + 1);
        add(-p - 1);
    }
    add(hi / 2);
    add(hi / 2 + 1);
    add(hi / 3);
    add(-hi / 3);
    add(7);
    add(-7);
    add(100);
    add(-100);
    for (int i = 0; i < nrand; ++i) {
        U x = rng.next128();
        int len = 1 + rng.below(D);
        x &= ((U(1) << len) - 1);
        I t = I(x & U(hi));
        if (rng.below(2)) t = -t;
        add(t);
    }
    return v;
}

#define NHEAD(KIND, NAME) \
    printf("C11 " KIND " %s %s " NAME " %d %d %d %d ", TagN<R>::name().c_str(), TagN<O>::name().c_str(), D1, E1, D2, E2); \
    pri(a); \
    putchar(' '); \
    pri(b); \
    fputs(" => ", stdout);

template<class R, class O, int D1, int E1, int D2, int E2, int D3, int E3>
void go(Rng& rng)
{
    using A = static_number<D1, E1, R, O>;
    using B = static_number<D2, E2, R, O>;
    using C = static_number<D3, E3, R, O>;
    auto av = snvals<D1>(rng, 3 * scale_from_env());
    auto bv = snvals<D2>(rng, 3 * scale_from_env());
    for (I a : av)
        for (I b : bv) {
            A x = mk_sn<A, D1>(a);
            B y = mk_sn<B, D2>(b);
            { NHEAD("bin", "add") VH_RUN(x + y, print_sn) }
            { NHEAD("bin", "sub") VH_RUN(x - y, print_sn) }
            if constexpr (D1 + D2 <= 120) { NHEAD("bin", "mul") VH_RUN(x * y, print_sn) }
            { NHEAD("bin", "div") VH_RUN(x / y, print_sn) }
            { NHEAD("bin", "mod") VH_RUN(x % y, print_sn) }
            { NHEAD("cmp", "lt") VH_RUN(x < y, print_sn) }
            { NHEAD("cmp", "eq") VH_RUN(x == y, print_sn) }
            { NHEAD("cmp", "ge") VH_RUN(x >= y, print_sn) }
            // histories: results feed further operations and a narrowing assignment
            if constexpr (D1 + D2 + D3 <= 110) {
                printf("C11 chain %s %s mul_add %d %d %d %d %d %d ", TagN<R>::name().c_str(), TagN<O>::name().c_str(), D1, E1, D2, E2, D3, E3);
                pri(a);
                putchar(' ');
                pri(b);
                fputs(" => ", stdout);
                VH_RUN(([&] { C c = x; return x * y + c; }()), print_sn)
            }
            {
                printf("C11 chain %s %s sub_div_cvt %d %d %d %d %d %d ", TagN<R>::name().c_str(), TagN<O>::name().c_str(), D1, E1, D2, E2, D3, E3);
                pri(a);
                putchar(' ');
                pri(b);
                fputs(" => ", stdout);
                VH_RUN(([&] { C c = (x - y) / y; return c; }()), print_sn)
            }
        }
    for (I a : av) {
        A x = mk_sn<A, D1>(a);
        printf("C11 neg %s %s %d %d ", TagN<R>::name().c_str(), TagN<O>::name().c_str(), D1, E1);
        pri(a);
        fputs(" => ", stdout);
        VH_RUN(-x, print_sn)
        printf("C11 cvt %s %s %d %d %d %d ", TagN<R>::name().c_str(), TagN<O>::name().c_str(), D1, E1, D3, E3);
        pri(a);
        fputs(" => ", stdout);
        VH_RUN(([&] { C c = x; return c; }()), print_sn)
    }
}


// construction from floating point: rounding conversion below the overflow layer
template<class R, class O, int D, int E, class F>
void fromf(Rng& rng)
{
    using A = static_number<D, E, R, O>;
    std::vector<F> fv;
    F unit = std::ldexp(F(1), E);
    auto nb = [&](F x) {
        vhf::push_f(fv, x);
        vhf::push_f(fv, std::nextafter(x, std::numeric_limits<F>::infinity()));
        vhf::push_f(fv, std::nextafter(x, -std::numeric_limits<F>::infinity()));
    };
    for (I a : snvals<D>(rng, 8 * scale_from_env()))
        for (F o : {F(0), F(0.25), F(0.5), F(0.75)}) {
            nb(F((F(a) + o) * unit));
            nb(F((F(a) - o) * unit));
        }
    // the repaired boundary, densely: the declared limits +-(2^D - 1), the powers of two they round to
    // when the format holds fewer than D digits, fractions around them, and +-1, +-2 ulp of each
    {
        F inf = std::numeric_limits<F>::infinity();
        auto nb2 = [&](F x) {
            nb(x);
            vhf::push_f(fv, std::nextafter(std::nextafter(x, inf), inf));
            vhf::push_f(fv, std::nextafter(std::nextafter(x, -inf), -inf));
        };
        for (int k : {D - 1, D, D + 1})
            for (F sg : {F(1), F(-1)}) {
                F p = sg * std::ldexp(F(1), k);
                nb2(F(p * unit));
                for (F o : {F(0.25), F(0.5), F(0.75), F(1), F(1.25), F(1.5), F(1.75), F(2), F(3)}) {
                    nb2(F(F(p - sg * o) * unit));
                    nb2(F(F(p + sg * o) * unit));
                }
            }
    }
    for (F f : fv) {
        printf("C11 fcvt %s %s %d %d %s ", TagN<R>::name().c_str(), TagN<O>::name().c_str(), D, E, vhf::FN<F>::name);
        vhf::prf(f);
        fputs(" => ", stdout);
        VH_RUN(A{f}, print_sn)
    }
}


// ---------------------------------------------------------------------------------------------
// shifts: `C11 shift <shl|shr> <mode> <tag> <D> <E|i> <count kind> <x> <k>`
// E = i: a bare static_integer<D>; count kinds: int (built-in run-time count), si (a static_integer count),
// const (cnl::constant<k>), aint / aconst (compound assignment with a run-time / constant count)

template<class T>
T mk_any(I v)
{
    if constexpr (requires { _impl::tag_of_t<T>::exponent; }) {
        return mk_sn<T, 0>(v);
    } else {
        using EL = _impl::rep_of_t<T>;
        using RD = _impl::rep_of_t<EL>;
        using WD = _impl::rep_of_t<RD>;
        using BI = _impl::rep_of_t<WD>;
        return _impl::from_rep<T>(_impl::from_rep<EL>(_impl::from_rep<RD>(_impl::from_rep<WD>(BI(v)))));
    }
}

template<class R, class O, int D, int E, bool Bare>
using shift_lhs_t = std::conditional_t<Bare, static_integer<D, R, O>, static_number<D, E, R, O>>;

template<class R, class O, int D, int E, bool Bare>
void shead(char const* op, char const* ck, I x, long long k)
{
    printf("C11 shift %s %s %s %d ", op, TagN<R>::name().c_str(), TagN<O>::name().c_str(), D);
    if (Bare)
        fputs("i ", stdout);
    else
        printf("%d ", E);
    printf("%s ", ck);
    pri(x);
    printf(" %lld => ", k);
}

// operand values: the declared limits, +-2^j for every j (x = -2^(D-k) with count k is the pattern of the
// repaired defect), their neighbours, and seeded random values
template<int D>
std::vector<I> shvals(Rng& rng, int nrand)
{
    std::vector<I> v = snvals<D>(rng, nrand);
    I hi = (I(1) << D) - 1;
    auto add = [&](I x) {
        if (x < -hi || x > hi) return;
        for (I y : v)
            if (y == x) return;
        v.push_back(x);
    };
    for (int j = 0; j < D; ++j) {
        I p = I(1) << j;
        add(p);
        add(-p);
        if (j < 3 || j > D - 4 || j % 5 == 0) {
            add(p + 1);
            add(-p - 1);
            add(p - 1);
            add(-p + 1);
            add(3 * (p / 2));
            add(-3 * (p / 2));
        }
    }
    return v;
}

template<int D>
std::vector<int> shcounts(Rng& rng)
{
    constexpr int W = D <= 31 ? 32 : D <= 63 ? 64 : 128;  // width of the storage type
    std::vector<int> k = {0, 1, 2, 3, D / 2, D - 2, D - 1, D, D + 1, D + 2, W - 2, W - 1, W, W + 1, 2 * W - 1, 2 * W, 1000, 2147483647};
    for (int i = 0; i < 3; ++i) k.push_back(1 + rng.below(D + 2));
    std::vector<int> out;
    for (int c : k) {
        if (c < 0) continue;
        bool dup = false;
        for (int o : out) dup |= o == c;
        if (!dup) out.push_back(c);
    }
    return out;
}

// run-time counts; CD = digits of the static_integer count
template<class R, class O, int D, int E, bool Bare, int CD>
void shifts(Rng& rng)
{
    using T = shift_lhs_t<R, O, D, E, Bare>;
    using CT = static_integer<CD, R, O>;
    auto xv = shvals<D>(rng, 4 * scale_from_env());
    auto kv = shcounts<D>(rng);
    for (I a : xv) {
        // every count that lands |a| on the limit: a * 2^k around 2^D
        std::vector<int> ks = kv;
        {
            I m = a < 0 ? -a : a;
            int len = 0;
            while (m) { ++len; m >>= 1; }
            for (int c : {D - len - 1, D - len, D - len + 1, D - len + 2})
                if (c >= 0) ks.push_back(c);
        }
        for (int k : ks) {
            T x = mk_any<T>(a);
            { shead<R, O, D, E, Bare>("shl", "int", a, k); VH_RUN(x << k, print_sn) }
            { shead<R, O, D, E, Bare>("shr", "int", a, k); VH_RUN(x >> k, print_sn) }
            if (CD < 62 ? (long long)k <= (1LL << CD) - 1 : true) {
                CT n = mk_any<CT>(I(k));
                { shead<R, O, D, E, Bare>("shl", "si", a, k); VH_RUN(x << n, print_sn) }
                { shead<R, O, D, E, Bare>("shr", "si", a, k); VH_RUN(x >> n, print_sn) }
            }
            { shead<R, O, D, E, Bare>("shl", "aint", a, k); VH_RUN(([&] { T y = x; y <<= k; return y; }()), print_sn) }
            { shead<R, O, D, E, Bare>("shr", "aint", a, k); VH_RUN(([&] { T y = x; y >>= k; return y; }()), print_sn) }
        }
    }
}

// cnl::constant<K> counts (K < 0 only for static_number, where the exponent moves)
template<class R, class O, int D, int E, bool Bare, int K>
void cshift(Rng& rng)
{
    using T = shift_lhs_t<R, O, D, E, Bare>;
    auto xv = shvals<D>(rng, 4 * scale_from_env());
    for (I a : xv) {
        T x = mk_any<T>(a);
        if constexpr (!Bare || (K >= 0 && D + K <= 120)) {
            { shead<R, O, D, E, Bare>("shl", "const", a, K); VH_RUN(x << constant<K>{}, print_sn) }
            // the conversion back widens by |K| digits first: keep within the built-in storage the model covers
            if constexpr (D + (K < 0 ? -K : K) <= 120) { shead<R, O, D, E, Bare>("shl", "aconst", a, K); VH_RUN(([&] { T y = x; y <<= constant<K>{}; return y; }()), print_sn) }
        }
        if constexpr (!Bare || (K >= 0 && K <= D)) {
            { shead<R, O, D, E, Bare>("shr", "const", a, K); VH_RUN(x >> constant<K>{}, print_sn) }
            if constexpr (D + (K < 0 ? -K : K) <= 120) { shead<R, O, D, E, Bare>("shr", "aconst", a, K); VH_RUN(([&] { T y = x; y >>= constant<K>{}; return y; }()), print_sn) }
        }
    }
}

// =============================================================================================
// general narrowest types and multi-word storage: `t…` lines.  Values are arbitrary-precision
// (sign + 32-bit magnitude words) and travel in hex (`-0x1f`); a result is printed as
// `sn(<digits>,<exponent>,<narrowest>):<hex value>`, read limb by limb from a multi-word storage.

struct Big {
    bool neg = false;
    std::vector<std::uint32_t> m;  // magnitude, little endian, no leading zero words
    void norm()
    {
        while (!m.empty() && m.back() == 0) m.pop_back();
        if (m.empty()) neg = false;
    }
    bool zero() const { return m.empty(); }
    int bitlen() const
    {
        if (m.empty()) return 0;
        int n = int(m.size() - 1) * 32;
        std::uint32_t t = m.back();
        while (t) { ++n; t >>= 1; }
        return n;
    }
    bool bit(int i) const { return std::size_t(i / 32) < m.size() && ((m[std::size_t(i / 32)] >> (i % 32)) & 1u); }
    bool operator==(Big const& o) const { return neg == o.neg && m == o.m; }
};

inline Big big_pow2(int k)
{
    Big b;
    b.m.assign(std::size_t(k / 32 + 1), 0);
    b.m[std::size_t(k / 32)] = 1u << (k % 32);
    return b;
}
inline Big big_ones(int d)  // 2^d - 1
{
    Big b;
    for (int i = 0; i < d; i += 32) b.m.push_back(d - i >= 32 ? 0xffffffffu : ((1u << (d - i)) - 1));
    b.norm();
    return b;
}
inline Big big_addmag(Big b, std::uint32_t s)  // |b| + s, sign kept
{
    std::uint64_t c = s;
    for (std::size_t i = 0; c && i < b.m.size(); ++i) {
        c += b.m[i];
        b.m[i] = std::uint32_t(c);
        c >>= 32;
    }
    if (c) b.m.push_back(std::uint32_t(c));
    return b;
}
inline Big big_submag(Big b, std::uint32_t s)  // |b| - s (|b| >= s), sign kept
{
    std::uint64_t bor = s;
    for (std::size_t i = 0; bor && i < b.m.size(); ++i) {
        std::uint64_t cur = b.m[i];
        if (cur >= bor) {
            b.m[i] = std::uint32_t(cur - bor);
            bor = 0;
        } else {
            b.m[i] = std::uint32_t((cur + (1ull << 32)) - bor);
            bor = 1;
        }
    }
    b.norm();
    return b;
}
inline Big big_shr(Big b, int k)
{
    Big r;
    r.neg = b.neg;
    int n = b.bitlen();
    for (int i = k; i < n; i += 32) {
        std::uint32_t w = 0;
        for (int j = 0; j < 32 && i + j < n; ++j)
            if (b.bit(i + j)) w |= 1u << j;
        r.m.push_back(w);
    }
    r.norm();
    return r;
}
inline Big big_small(long long v)
{
    Big b;
    b.neg = v < 0;
    unsigned long long u = v < 0 ? 0ull - (unsigned long long)v : (unsigned long long)v;
    b.m = {std::uint32_t(u), std::uint32_t(u >> 32)};
    b.norm();
    return b;
}
inline Big big_neg(Big b)
{
    if (!b.zero()) b.neg = !b.neg;
    return b;
}
inline Big big_rand(Rng& rng, int len)  // up to `len` bits
{
    Big b;
    for (int i = 0; i < len; i += 32) {
        std::uint32_t w = std::uint32_t(rng.next128());
        if (len - i < 32) w &= (1u << (len - i)) - 1;
        b.m.push_back(w);
    }
    b.norm();
    return b;
}
inline void big_print(Big const& b)
{
    if (b.neg) putchar('-');
    fputs("0x", stdout);
    if (b.m.empty()) {
        putchar('0');
        return;
    }
    printf("%x", b.m.back());
    for (std::size_t i = b.m.size() - 1; i-- > 0;) printf("%08x", b.m[i]);
}

template<class BI>
inline constexpr bool is_builtin_int = std::is_integral_v<BI> || std::is_same_v<BI, I> || std::is_same_v<BI, U>;

// the N-bit two's-complement pattern of `b` as `nl` limbs of `w` bits
inline std::vector<std::uint64_t> big_limbs(Big const& b, int w, int nl)
{
    std::vector<std::uint64_t> l(std::size_t(nl), 0);
    for (int i = 0; i < nl * w; ++i)
        if (b.bit(i)) l[std::size_t(i / w)] |= std::uint64_t(1) << (i % w);
    if (b.neg) {
        std::uint64_t mask = w == 64 ? ~std::uint64_t(0) : ((std::uint64_t(1) << w) - 1);
        bool carry = true;
        for (auto& x : l) {
            x = (~x) & mask;
            if (carry) {
                x = (x + 1) & mask;
                carry = x == 0;
            }
        }
    }
    return l;
}

// storage value from a Big, without going through any library arithmetic
template<class BI>
BI bi_of(Big const& b)
{
    if constexpr (is_builtin_int<BI>) {
        U u = 0;
        for (std::size_t i = b.m.size(); i-- > 0;) u = (u << 32) | b.m[i];
        if (b.neg) u = U(0) - u;
        return BI(u);
    } else {
        BI r;
        using limb = std::remove_cvref_t<decltype(r.representation()[0])>;
        constexpr int w = int(sizeof(limb) * 8);
        int nl = int(r.crepresentation().size());
        auto l = big_limbs(b, w, nl);
        for (int i = 0; i < nl; ++i) r.representation()[std::size_t(i)] = limb(l[std::size_t(i)]);
        return r;
    }
}

template<class BI>
Big big_of(BI const& v, bool is_signed)
{
    Big b;
    if constexpr (is_builtin_int<BI>) {
        U u = U(v);
        if (is_signed && v < 0) {
            b.neg = true;
            u = U(0) - u;
        }
        for (int i = 0; i < 4; ++i) b.m.push_back(std::uint32_t(u >> (32 * i)));
    } else {
        using limb = std::remove_cvref_t<decltype(v.crepresentation()[0])>;
        constexpr int w = int(sizeof(limb) * 8);
        int nl = int(v.crepresentation().size());
        std::vector<std::uint64_t> l;
        for (int i = 0; i < nl; ++i) l.push_back(std::uint64_t(v.crepresentation()[std::size_t(i)]));
        std::uint64_t mask = w == 64 ? ~std::uint64_t(0) : ((std::uint64_t(1) << w) - 1);
        if (is_signed && ((l.back() >> (w - 1)) & 1)) {
            b.neg = true;
            bool carry = true;
            for (auto& x : l) {
                x = (~x) & mask;
                if (carry) {
                    x = (x + 1) & mask;
                    carry = x == 0;
                }
            }
        }
        b.m.assign(std::size_t((nl * w + 31) / 32), 0);
        for (int i = 0; i < nl * w; ++i)
            if ((l[std::size_t(i / w)] >> (i % w)) & 1) b.m[std::size_t(i / 32)] |= 1u << (i % 32);
    }
    b.norm();
    return b;
}

// the narrowest type of a static number: innermost wide_tag
template<class T>
struct nw_of;
template<class Rep, class Tag>
struct nw_of<_impl::wrapper<Rep, Tag>> : nw_of<Rep> {
};
template<class Rep, int D, class N>
struct nw_of<_impl::wrapper<Rep, wide_tag<D, N>>> {
    using type = N;
};

template<class Z>
auto innermost_any(Z const& z)
{
    if constexpr (_impl::is_wrapper<Z>)
        return innermost_any(_impl::to_rep(z));
    else
        return z;
}

template<class Z>
void print_tn(Z const& z)
{
    if constexpr (std::is_same_v<Z, bool>) {
        putchar(z ? '1' : '0');
    } else {
        int e = 0;
        if constexpr (requires { _impl::tag_of_t<Z>::exponent; }) e = _impl::tag_of_t<Z>::exponent;
        using N = typename nw_of<Z>::type;
        printf("sn(%d,%d,%s):", digits_v<Z>, e, tn<N>().c_str());
        big_print(big_of(innermost_any(z), numbers::signedness_v<N>));
    }
}

template<class T>
T mk_t(Big const& b)
{
    if constexpr (requires { _impl::tag_of_t<T>::exponent; }) {
        using SI = _impl::rep_of_t<T>;
        return _impl::from_rep<T>(mk_t<SI>(b));
    } else {
        using EL = _impl::rep_of_t<T>;
        using RD = _impl::rep_of_t<EL>;
        using WD = _impl::rep_of_t<RD>;
        using BI = _impl::rep_of_t<WD>;
        return _impl::from_rep<T>(_impl::from_rep<EL>(_impl::from_rep<RD>(_impl::from_rep<WD>(bi_of<BI>(b)))));
    }
}

// boundary lattice of `D` digits (non-negative only under an unsigned narrowest type) + seeded random values
template<int D, bool S>
std::vector<Big> bigvals(Rng& rng, int nrand)
{
    std::vector<Big> v;
    auto add = [&](Big x) {
        x.norm();
        if (x.bitlen() > D) return;
        if (!S && x.neg) return;
        for (auto const& y : v)
            if (y == x) return;
        v.push_back(x);
    };
    auto both = [&](Big x) {
        add(x);
        add(big_neg(x));
    };
    Big hi = big_ones(D);
    if (D <= 4) {
        for (int x = S ? -((1 << D) - 1) : 0; x <= (1 << D) - 1; ++x) add(big_small(x));
        return v;
    }
    for (std::uint32_t d = 0; d <= 2; ++d) {
        both(big_submag(hi, d));
        both(big_small(d));
    }
    for (int k = 1 + int(rng.below(3)); k < D; k += D / 3 + 1) {
        Big p = big_pow2(k);
        both(p);
        both(big_submag(p, 1));
        if (k % 2) both(big_addmag(p, 1));
    }
    both(big_pow2(D - 1));
    both(big_addmag(big_pow2(D - 1), 1));
    both(big_shr(hi, 1));
    both(big_small(7));
    for (int i = 0; i < nrand; ++i) {
        Big t = big_rand(rng, 1 + rng.below(D));
        if (S && rng.below(2)) t = big_neg(t);
        add(t);
    }
    return v;
}

#define THEAD(KIND, NAME) \
    printf("C11 " KIND " %s %s %s " NAME " %d %d %d %d ", tn<N>().c_str(), TagN<R>::name().c_str(), TagN<O>::name().c_str(), D1, E1, D2, E2); \
    big_print(a); \
    putchar(' '); \
    big_print(b); \
    fputs(" => ", stdout);
#define TCHAIN(NAME) \
    printf("C11 tchain %s %s %s " NAME " %d %d %d %d %d %d ", tn<N>().c_str(), TagN<R>::name().c_str(), TagN<O>::name().c_str(), D1, E1, D2, E2, D3, E3); \
    big_print(a); \
    putchar(' '); \
    big_print(b); \
    fputs(" => ", stdout);

// with a 64-bit narrowest type neither `* /` nor any static_number operation instantiates: bare static_integer
// operands (exponent 0), `+ -`, unary minus, comparisons and conversions only
template<int D, int E, class R, class O, class N>
using tnum_t = std::conditional_t<(sizeof(N) == 8), static_integer<D, R, O, N>, static_number<D, E, R, O, N>>;

// MD: multiplication and division instantiate
template<class R, class O, class N, int D1, int E1, int D2, int E2, int D3, int E3, bool MD = (sizeof(N) < 8)>
void gn(Rng& rng)
{
    static_assert(sizeof(N) < 8 || (E1 == 0 && E2 == 0 && E3 == 0));
    using A = tnum_t<D1, E1, R, O, N>;
    using B = tnum_t<D2, E2, R, O, N>;
    using C = tnum_t<D3, E3, R, O, N>;
    constexpr bool S = numbers::signedness_v<N>;
    auto av = bigvals<D1, S>(rng, 3 * scale_from_env());
    auto bv = bigvals<D2, S>(rng, 3 * scale_from_env());
    for (auto const& a : av)
        for (auto const& b : bv) {
            A x = mk_t<A>(a);
            B y = mk_t<B>(b);
            { THEAD("tbin", "add") VH_RUN(x + y, print_tn) }
            { THEAD("tbin", "sub") VH_RUN(x - y, print_tn) }
            if constexpr (MD) {
                { THEAD("tbin", "mul") VH_RUN(x * y, print_tn) }
                // a multi-word quotient by zero is not a trap: outside the table
                if (!b.zero()) { THEAD("tbin", "div") VH_RUN(x / y, print_tn) }
                if (!b.zero()) { THEAD("tbin", "mod") VH_RUN(x % y, print_tn) }
            }
            { THEAD("tcmp", "lt") VH_RUN(x < y, print_tn) }
            { THEAD("tcmp", "le") VH_RUN(x <= y, print_tn) }
            { THEAD("tcmp", "gt") VH_RUN(x > y, print_tn) }
            { THEAD("tcmp", "ge") VH_RUN(x >= y, print_tn) }
            { THEAD("tcmp", "eq") VH_RUN(x == y, print_tn) }
            { THEAD("tcmp", "ne") VH_RUN(x != y, print_tn) }
            if constexpr (MD) {
                { TCHAIN("mul_add") VH_RUN(([&] { C c = x; return x * y + c; }()), print_tn) }
                if (!b.zero()) {
                    { TCHAIN("sub_div_cvt") VH_RUN(([&] { C c = (x - y) / y; return c; }()), print_tn) }
                    { TCHAIN("mul_div") VH_RUN(((x * y) / y), print_tn) }
                }
                { TCHAIN("mul_sub") VH_RUN((x * y - x), print_tn) }
                { TCHAIN("mul_gt") VH_RUN((x * y > x), print_tn) }
                { TCHAIN("mul_cvt") VH_RUN(([&] { C c = x * y; return c; }()), print_tn) }
            } else {
                { TCHAIN("add_sub_cvt") VH_RUN(([&] { C c = (x + y) - y; return c; }()), print_tn) }
            }
            { TCHAIN("sub_cvt") VH_RUN(([&] { C c = x - y; return c; }()), print_tn) }
        }
    for (auto const& a : av) {
        A x = mk_t<A>(a);
        printf("C11 tneg %s %s %s %d %d ", tn<N>().c_str(), TagN<R>::name().c_str(), TagN<O>::name().c_str(), D1, E1);
        big_print(a);
        fputs(" => ", stdout);
        VH_RUN(-x, print_tn)
        printf("C11 tcvt %s %s %s %d %d %d %d ", tn<N>().c_str(), TagN<R>::name().c_str(), TagN<O>::name().c_str(), D1, E1, D3, E3);
        big_print(a);
        fputs(" => ", stdout);
        VH_RUN(([&] { C c = x; return c; }()), print_tn)
    }
}

// operands of two different narrowest types (width and signedness): `C11 tbin2 <N1> <N2> <mode> <tag> <op> <D1> <E1> <D2> <E2> <a> <b>`,
// `tcmp2` likewise, `tasg2`: the compound assignment `x OP= y` (the operator, then the conversion to the type of `x`).
// An unsigned operand against a signed one of either sign is the point: the lattices hold the negative values.
#define THEAD2(KIND, NAME) \
    printf("C11 " KIND " %s %s %s %s " NAME " %d %d %d %d ", tn<N1>().c_str(), tn<N2>().c_str(), TagN<R>::name().c_str(), TagN<O>::name().c_str(), D1, E1, D2, E2); \
    big_print(a); \
    putchar(' '); \
    big_print(b); \
    fputs(" => ", stdout);

template<class R, class O, class N1, class N2, int D1, int E1, int D2, int E2>
void gn2(Rng& rng)
{
    // bare static_integers when both exponents are 0 (a static_integer does not combine with a static_number)
    constexpr bool Bare = E1 == 0 && E2 == 0;
    static_assert(sizeof(N1) == sizeof(N2), "narrowest types of different widths have no common elastic type");
    using A = std::conditional_t<Bare, static_integer<D1, R, O, N1>, static_number<D1, E1, R, O, N1>>;
    using B = std::conditional_t<Bare, static_integer<D2, R, O, N2>, static_number<D2, E2, R, O, N2>>;
    auto av = bigvals<D1, numbers::signedness_v<N1>>(rng, 4 * scale_from_env());
    auto bv = bigvals<D2, numbers::signedness_v<N2>>(rng, 4 * scale_from_env());
    // small divisors of either sign: |dividend| >= |divisor| on most pairs
    for (int v : {3, 5, 10}) {
        Big p = big_small(v), q = big_small(-v);
        auto has = [](std::vector<Big> const& w, Big const& t) { for (auto const& y : w) if (y == t) return true; return false; };
        if (p.bitlen() <= D1 && !has(av, p)) av.push_back(p);
        if (p.bitlen() <= D2 && !has(bv, p)) bv.push_back(p);
        if (numbers::signedness_v<N1> && q.bitlen() <= D1 && !has(av, q)) av.push_back(q);
        if (numbers::signedness_v<N2> && q.bitlen() <= D2 && !has(bv, q)) bv.push_back(q);
    }
    for (auto const& a : av)
        for (auto const& b : bv) {
            A x = mk_t<A>(a);
            B y = mk_t<B>(b);
            { THEAD2("tbin2", "add") VH_RUN(x + y, print_tn) }
            { THEAD2("tbin2", "sub") VH_RUN(x - y, print_tn) }
            { THEAD2("tbin2", "mul") VH_RUN(x * y, print_tn) }
            if (!b.zero()) {
                { THEAD2("tbin2", "div") VH_RUN(x / y, print_tn) }
                { THEAD2("tbin2", "mod") VH_RUN(x % y, print_tn) }
                { THEAD2("tasg2", "div") VH_RUN(([&] { A z = x; z /= y; return z; }()), print_tn) }
                { THEAD2("tasg2", "mod") VH_RUN(([&] { A z = x; z %= y; return z; }()), print_tn) }
            }
            { THEAD2("tasg2", "add") VH_RUN(([&] { A z = x; z += y; return z; }()), print_tn) }
            { THEAD2("tasg2", "sub") VH_RUN(([&] { A z = x; z -= y; return z; }()), print_tn) }
            { THEAD2("tasg2", "mul") VH_RUN(([&] { A z = x; z *= y; return z; }()), print_tn) }
            { THEAD2("tcmp2", "lt") VH_RUN(x < y, print_tn) }
            { THEAD2("tcmp2", "le") VH_RUN(x <= y, print_tn) }
            { THEAD2("tcmp2", "gt") VH_RUN(x > y, print_tn) }
            { THEAD2("tcmp2", "ge") VH_RUN(x >= y, print_tn) }
            { THEAD2("tcmp2", "eq") VH_RUN(x == y, print_tn) }
            { THEAD2("tcmp2", "ne") VH_RUN(x != y, print_tn) }
        }
}

// static (x) built-in, the built-in operand on either side: `C11 mixb <N> <mode> <tag> <op> <D> <E> <L|R> <T> <a> <b>`
// (`L`: the built-in operand `b` is on the left), `C11 mixc <N> <op> <D> <E> <L|R> <T> <a> <b>`
template<class N, class R, class O, int D, int E, class T>
void mhead(char const* kind, char const* op, char side, Big const& a, T b)
{
    if (kind[3] == 'b')
        printf("C11 %s %s %s %s %s %d %d %c %s ", kind, tn<N>().c_str(), TagN<R>::name().c_str(), TagN<O>::name().c_str(), op, D, E, side, tn<T>().c_str());
    else
        printf("C11 %s %s %s %d %d %c %s ", kind, tn<N>().c_str(), op, D, E, side, tn<T>().c_str());
    big_print(a);
    putchar(' ');
    prv(b);
    fputs(" => ", stdout);
}

template<class R, class O, class N, int D, int E, class T>
void mixed(Rng& rng)
{
    using A = std::conditional_t<E == 0, static_integer<D, R, O, N>, static_number<D, E, R, O, N>>;
    constexpr bool S = numbers::signedness_v<N>;
    auto av = bigvals<D, S>(rng, 3 * scale_from_env());
    auto bv = vals<T>(rng, 4 * scale_from_env(), std::numeric_limits<T>::digits / 3 + 1);
    for (auto const& a : av)
        for (T b : bv) {
            A x = mk_t<A>(a);
#define MB(OPN, OP) \
    { mhead<N, R, O, D, E>("mixb", OPN, 'R', a, b); VH_RUN(x OP b, print_tn) } \
    { mhead<N, R, O, D, E>("mixb", OPN, 'L', a, b); VH_RUN(b OP x, print_tn) }
#define MC(OPN, OP) \
    { mhead<N, R, O, D, E>("mixc", OPN, 'R', a, b); VH_RUN(x OP b, print_tn) } \
    { mhead<N, R, O, D, E>("mixc", OPN, 'L', a, b); VH_RUN(b OP x, print_tn) }
            MB("add", +)
            MB("sub", -)
            MB("mul", *)
            if (b != 0) { mhead<N, R, O, D, E>("mixb", "div", 'R', a, b); VH_RUN(x / b, print_tn) }
            if (!a.zero()) { mhead<N, R, O, D, E>("mixb", "div", 'L', a, b); VH_RUN(b / x, print_tn) }
            if (b != 0) { mhead<N, R, O, D, E>("mixb", "mod", 'R', a, b); VH_RUN(x % b, print_tn) }
            if (!a.zero()) { mhead<N, R, O, D, E>("mixb", "mod", 'L', a, b); VH_RUN(b % x, print_tn) }
            // compound assignment with a built-in right operand: `C11 mixa <N> <mode> <tag> <op> <D> <E> <T> <a> <b>`
#define MA(OPN, OP) \
    { \
        printf("C11 mixa %s %s %s %s %d %d %s ", tn<N>().c_str(), TagN<R>::name().c_str(), TagN<O>::name().c_str(), OPN, D, E, tn<T>().c_str()); \
        big_print(a); \
        putchar(' '); \
        prv(b); \
        fputs(" => ", stdout); \
        VH_RUN(([&] { A z = x; z OP b; return z; }()), print_tn) \
    }
            MA("add", +=)
            MA("sub", -=)
            MA("mul", *=)
            if (b != 0) {
                MA("div", /=)
                MA("mod", %=)
            }
#undef MA
            MC("lt", <)
            MC("le", <=)
            MC("gt", >)
            MC("ge", >=)
            MC("eq", ==)
            MC("ne", !=)
#undef MB
#undef MC
        }
}
