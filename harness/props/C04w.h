// C04 (last sentence of the property): from_rep/to_rep and wrap/unwrap are exact inverses.
//   C04w wrap <T> <V> <v> => <wrap<T>(v)>|<unwrap(wrap<T>(v))>|<wrap<T>(unwrap(wrap<T>(v)))>
//   C04w rep  <T> <V> <v> => <from_rep<T>(v)>|<to_rep(from_rep<T>(v))>|<from_rep<T>(to_rep(from_rep<T>(v)))>
// every field is `<type>:<innermost value>`.
#include "vh.h"
using namespace cnl;
using namespace vh;
static const bool vh_strict_on = (vh::strict = true);

template<class T, class V>
void gow(Rng& rng)
{
    auto vs = vals<V>(rng, 6 * scale_from_env(), sizeof(V) > 4 ? 9 : 4);
    for (V v : vs) {
        printf("C04w wrap %s %s ", tn<T>().c_str(), tn<V>().c_str());
        prv(v);
        fputs(" => ", stdout);
        VH_RUN(cnl::wrap<T>(v), ([](auto const& w) {
                   print_num(w);
                   putchar('|');
                   print_num(cnl::unwrap(w));
                   putchar('|');
                   print_num(cnl::wrap<T>(cnl::unwrap(w)));
               }))
    }
}

template<class T, class V>
void gor(Rng& rng)
{
    auto vs = vals<V>(rng, 6 * scale_from_env(), sizeof(V) > 4 ? 9 : 4);
    for (V v : vs) {
        printf("C04w rep %s %s ", tn<T>().c_str(), tn<V>().c_str());
        prv(v);
        fputs(" => ", stdout);
        VH_RUN(_impl::from_rep<T>(v), ([](auto const& x) {
                   print_num(x);
                   putchar('|');
                   print_num(_impl::to_rep(x));
                   putchar('|');
                   print_num(_impl::from_rep<T>(_impl::to_rep(x)));
               }))
    }
}
