"""C09 — narrowing conversions under a rounding tag."""
import random

CT = {'i8': 'std::int8_t', 'u8': 'std::uint8_t', 'i16': 'std::int16_t', 'u16': 'std::uint16_t',
      'i32': 'std::int32_t', 'u32': 'std::uint32_t', 'i64': 'std::int64_t', 'u64': 'std::uint64_t'}
FT = {'f32': 'float', 'f64': 'double', 'f80': 'long double'}
TAGS = {'nat': 'native_rounding_tag', 'nrst': 'nearest_rounding_tag', 'tpi': 'tie_to_pos_inf_rounding_tag', 'ninf': 'neg_inf_rounding_tag'}


def grid(tier, seed):
    rnd = random.Random(seed * 9173 + 9)
    calls = []
    # float -> integer: every tag x every float format, destinations rotate
    dests = list(CT)
    for tag in TAGS:
        for f in FT:
            d = dests[(len(calls) + seed) % len(dests)]
            calls.append('f2i<%s, %s, %s>(rng);' % (TAGS[tag], FT[f], CT[d]))
    fixed = [('nrst', 'f32', 'i32'), ('tpi', 'f32', 'i32'), ('ninf', 'f64', 'i64'), ('nrst', 'f80', 'i64'), ('tpi', 'f64', 'u8'), ('nrst', 'f64', 'u32')]
    for (t, f, d) in fixed:
        calls.append('f2i<%s, %s, %s>(rng);' % (TAGS[t], FT[f], CT[d]))
    # scaled -> scaled
    sfixed = [('nrst', 'i16', -8, 'i16', -4), ('tpi', 'i16', -8, 'i8', -1), ('ninf', 'i16', -8, 'i32', 0), ('nrst', 'i32', -16, 'i32', -1),
              ('tpi', 'i32', -20, 'i16', -10), ('ninf', 'u16', -12, 'u8', -6), ('nrst', 'u8', -4, 'u8', 0), ('tpi', 'u32', -16, 'u32', -8),
              ('nrst', 'i64', -24, 'i32', -12), ('nat', 'i16', -8, 'i16', -4), ('nrst', 'i32', 4, 'i32', 8), ('tpi', 'i32', 2, 'i16', 6), ('ninf', 'i16', 3, 'i16', 5), ('ninf', 'i16', -4, 'i16', -8), ('tpi', 'i8', -7, 'i8', 0)]
    n = 10 if tier == 'quick' else 70
    reps = list(CT)
    while len(sfixed) < 15 + n:
        t = rnd.choice(list(TAGS)); s = rnd.choice(reps); d = rnd.choice(reps)
        es = rnd.choice([-28, -20, -16, -12, -8, -4, -2]); ed = es + rnd.choice([1, 2, 3, 5, 8, 12])
        if ed - es >= int(s[1:]) - 1:
            continue
        c = (t, s, es, d, ed)
        if c not in sfixed:
            sfixed.append(c)
    for (t, s, es, d, ed) in sfixed:
        calls.append('s2s<%s, %s, %d, %s, %d>(rng);' % (TAGS[t], CT[s], es, CT[d], ed))
    # the tag in the representation (rounding_integer under scaled_integer): every tag x signed/unsigned x width
    wfixed = [('nrst', 'u8', -4, 'u8', 0), ('nrst', 'u16', -4, 'u16', 0), ('nrst', 'u32', -4, 'u32', 0), ('nrst', 'u64', -4, 'u64', 0),
              ('tpi', 'u32', -4, 'u32', 0), ('tpi', 'u32', -1, 'u32', 0), ('tpi', 'u64', -8, 'u64', -3), ('tpi', 'i32', -4, 'i32', 0), ('tpi', 'i64', -5, 'i64', 0),
              ('ninf', 'i16', -8, 'i8', -1), ('ninf', 'u32', -6, 'u16', 0), ('nrst', 'i8', -7, 'i8', -2), ('nrst', 'i32', -16, 'i16', -2), ('nrst', 'i64', -30, 'i32', 0),
              ('tpi', 'u8', -3, 'u8', 0), ('tpi', 'i16', -8, 'i16', -4), ('nat', 'i16', -8, 'i16', -4), ('nat', 'u32', -8, 'u32', 0),
              ('nrst', 'i16', -4, 'i32', -8), ('tpi', 'u8', 0, 'u16', -4), ('ninf', 'i32', 2, 'i32', 0),
              # the largest well-formed narrowing of each promoted width (k = digits is ill-formed since the repair of
              # C09.wrapped_power_is_int_min: static_assert(0 < divisor) in default_scale)
              ('nrst', 'i8', -7, 'i8', 0), ('tpi', 'u8', -8, 'u8', 0), ('ninf', 'i16', -15, 'i16', 0), ('nrst', 'i8', -20, 'i8', 0), ('tpi', 'i16', -16, 'i32', 0), ('ninf', 'u8', -12, 'u16', -2), ('nrst', 'i32', -30, 'i32', 0), ('tpi', 'i8', -30, 'i8', 0), ('ninf', 'i64', -62, 'i64', 0), ('nrst', 'i16', -30, 'i16', 0),
              ('tpi', 'u32', -31, 'u32', 0)]
    k = 4 if tier == 'quick' else 40
    while len(wfixed) < 32 + k:
        t = rnd.choice(list(TAGS)); s = rnd.choice(reps); d = rnd.choice(reps)
        es = rnd.choice([-28, -20, -16, -12, -8, -4, -2]); ed = es + rnd.choice([1, 2, 3, 5, 8, 12])
        if ed - es >= (31 if int(s[1:]) <= 32 else 63) - 1:   # 2^k must fit the promoted representation
            continue
        c = (t, s, es, d, ed)
        if c not in wfixed:
            wfixed.append(c)
    for (t, s, es, d, ed) in wfixed:
        calls.append('w2w<%s, %s, %d, %s, %d>(rng);' % (TAGS[t], CT[s], es, CT[d], ed))
    # plain integer -> coarser scaled, scaled -> plain integer
    for (t, s_, d, ed) in [('ninf', 'i32', 'i32', 2), ('nrst', 'i16', 'i16', 3), ('tpi', 'i8', 'i8', 3), ('ninf', 'i16', 'i8', 5),
                           ('nrst', 'i32', 'i16', 10), ('tpi', 'u16', 'u16', 4), ('ninf', 'i64', 'i64', 20), ('nat', 'i16', 'i16', 2)]:
        calls.append('i2s<%s, %s, %s, %d>(rng);' % (TAGS[t], CT[s_], CT[d], ed))
    # (nearest: scaled -> plain integer through convert<> with a native source tag does not compile)
    for (t, s_, es, d) in [('ninf', 'i16', -4, 'i16'), ('tpi', 'i16', -8, 'i32'), ('tpi', 'i32', -16, 'i32'), ('ninf', 'i32', -10, 'i16'),
                           ('ninf', 'u16', -6, 'u8'), ('tpi', 'i8', -3, 'i8')]:
        calls.append('s2i<%s, %s, %d, %s>(rng);' % (TAGS[t], CT[s_], es, CT[d]))
    # float -> scaled
    ffixed = [('nrst', 'f32', 'i32', -8), ('tpi', 'f32', 'i16', -1), ('ninf', 'f64', 'i32', -1), ('nrst', 'f64', 'i64', -20),
              ('tpi', 'f64', 'i32', -16), ('ninf', 'f32', 'i16', -4), ('nat', 'f64', 'i32', -8), ('nrst', 'f80', 'i32', -4)]
    m = 4 if tier == 'quick' else 40
    while len(ffixed) < 8 + m:
        c = (rnd.choice(list(TAGS)), rnd.choice(list(FT)), rnd.choice(['i8', 'i16', 'i32', 'i64', 'u8', 'u16', 'u32']), rnd.choice([-20, -12, -8, -4, -2, -1, 1, 3]))
        if c not in ffixed:
            ffixed.append(c)
    for (t, f, d, ed) in ffixed:
        calls.append('f2s<%s, %s, %s, %d>(rng);' % (TAGS[t], FT[f], CT[d], ed))
    return calls


def tus(tier, seed):
    calls = grid(tier, seed)
    per = 3
    res = []
    for i in range(0, len(calls), per):
        body = '#include "%s"\nint main(){ install(); Rng rng(seed_from_env()+%d);\n' % (__file__.replace('.py', '.h'), i)
        for c in calls[i:i + per]:
            body += '  ' + c + '\n'
        body += '}\n'
        comp = 'clang++' if (tier == 'thorough' and (i // per) % 4 == 3) else 'g++'
        res.append(dict(name='C09_%d' % (i // per), src=body, compiler=comp, one_per_tu_on_failure=True))
    return res


RULE = ("floating sources: every tie n+1/2 at the destination resolution, its two neighbours, quarters and integers around 0, around a lattice of "
        "destination values and at the destination limits, plus structured floats; scaled sources: all values of 8/16-bit reps, lattice + ties "
        "q*2^k + 2^(k-1) +- 1 otherwise; non-trivial = the rounded result is representable in the destination")
