"""C09 — narrowing conversions under a rounding tag."""
import random

CT = {'i8': 'std::int8_t', 'u8': 'std::uint8_t', 'i16': 'std::int16_t', 'u16': 'std::uint16_t',
      'i32': 'std::int32_t', 'u32': 'std::uint32_t', 'i64': 'std::int64_t', 'u64': 'std::uint64_t'}
FT = {'f32': 'float', 'f64': 'double', 'f80': 'long double'}
TAGS = {'nat': 'native_rounding_tag', 'nrst': 'nearest_rounding_tag', 'tpi': 'tie_to_pos_inf_rounding_tag', 'ninf': 'neg_inf_rounding_tag'}


def grid(tier, seed):
    rnd = random.Random(seed * 9173 + 9)
    calls = []
    # float -> integer: every tag x every float format, destinations rotate
    dests = list(CT)
    for tag in TAGS:
        for f in FT:
            d = dests[(len(calls) + seed) % len(dests)]
            calls.append('f2i<%s, %s, %s>(rng);' % (TAGS[tag], FT[f], CT[d]))
    fixed = [('nrst', 'f32', 'i32'), ('tpi', 'f32', 'i32'), ('ninf', 'f64', 'i64'), ('nrst', 'f80', 'i64'), ('tpi', 'f64', 'u8'), ('nrst', 'f64', 'u32')]
    for (t, f, d) in fixed:
        calls.append('f2i<%s, %s, %s>(rng);' % (TAGS[t], FT[f], CT[d]))
    # scaled -> scaled
    sfixed = [('nrst', 'i16', -8, 'i16', -4), ('tpi', 'i16', -8, 'i8', -1), ('ninf', 'i16', -8, 'i32', 0), ('nrst', 'i32', -16, 'i32', -1),
              ('tpi', 'i32', -20, 'i16', -10), ('ninf', 'u16', -12, 'u8', -6), ('nrst', 'u8', -4, 'u8', 0), ('tpi', 'u32', -16, 'u32', -8),
              ('nrst', 'i64', -24, 'i32', -12), ('nat', 'i16', -8, 'i16', -4), ('nrst', 'i32', 4, 'i32', 8), ('tpi', 'i32', 2, 'i16', 6), ('ninf', 'i16', 3, 'i16', 5), ('ninf', 'i16', -4, 'i16', -8), ('tpi', 'i8', -7, 'i8', 0)]
    n = 10 if tier == 'quick' else 70
    reps = list(CT)
    while len(sfixed) < 15 + n:
        t = rnd.choice(list(TAGS)); s = rnd.choice(reps); d = rnd.choice(reps)
        es = rnd.choice([-28, -20, -16, -12, -8, -4, -2]); ed = es + rnd.choice([1, 2, 3, 5, 8, 12])
        if ed - es >= int(s[1:]) - 1:
            continue
        c = (t, s, es, d, ed)
        if c not in sfixed:
            sfixed.append(c)
    for (t, s, es, d, ed) in sfixed:
        calls.append('s2s<%s, %s, %d, %s, %d>(rng);' % (TAGS[t], CT[s], es, CT[d], ed))
    # the tag in the representation (rounding_integer under scaled_integer): every tag x signed/unsigned x width
    wfixed = [('nrst', 'u8', -4, 'u8', 0), ('nrst', 'u16', -4, 'u16', 0), ('nrst', 'u32', -4, 'u32', 0), ('nrst', 'u64', -4, 'u64', 0),
              ('tpi', 'u32', -4, 'u32', 0), ('tpi', 'u32', -1, 'u32', 0), ('tpi', 'u64', -8, 'u64', -3), ('tpi', 'i32', -4, 'i32', 0), ('tpi', 'i64', -5, 'i64', 0),
              ('ninf', 'i16', -8, 'i8', -1), ('ninf', 'u32', -6, 'u16', 0), ('nrst', 'i8', -7, 'i8', -2), ('nrst', 'i32', -16, 'i16', -2), ('nrst', 'i64', -30, 'i32', 0),
              ('tpi', 'u8', -3, 'u8', 0), ('tpi', 'i16', -8, 'i16', -4), ('nat', 'i16', -8, 'i16', -4), ('nat', 'u32', -8, 'u32', 0),
              ('nrst', 'i16', -4, 'i32', -8), ('tpi', 'u8', 0, 'u16', -4), ('ninf', 'i32', 2, 'i32', 0),
              # the largest well-formed narrowing of each promoted width (k = digits is ill-formed since the repair of
              # C09.wrapped_power_is_int_min: static_assert(0 < divisor) in default_scale)
              ('nrst', 'i8', -7, 'i8', 0), ('tpi', 'u8', -8, 'u8', 0), ('ninf', 'i16', -15, 'i16', 0), ('nrst', 'i8', -20, 'i8', 0), ('tpi', 'i16', -16, 'i32', 0), ('ninf', 'u8', -12, 'u16', -2), ('nrst', 'i32', -30, 'i32', 0), ('tpi', 'i8', -30, 'i8', 0), ('ninf', 'i64', -62, 'i64', 0), ('nrst', 'i16', -30, 'i16', 0),
              ('tpi', 'u32', -31, 'u32', 0)]
    k = 4 if tier == 'quick' else 40
    while len(wfixed) < 32 + k:
        t = rnd.choice(list(TAGS)); s = rnd.choice(reps); d = rnd.choice(reps)
        es = rnd.choice([-28, -20, -16, -12, -8, -4, -2]); ed = es + rnd.choice([1, 2, 3, 5, 8, 12])
        if ed - es >= (31 if int(s[1:]) <= 32 else 63) - 1:   # 2^k must fit the promoted representation
            continue
        c = (t, s, es, d, ed)
        if c not in wfixed:
            wfixed.append(c)
    for (t, s, es, d, ed) in wfixed:
        calls.append('w2w<%s, %s, %d, %s, %d>(rng);' % (TAGS[t], CT[s], es, CT[d], ed))
    # plain integer -> coarser scaled, scaled -> plain integer
    for (t, s_, d, ed) in [('ninf', 'i32', 'i32', 2), ('nrst', 'i16', 'i16', 3), ('tpi', 'i8', 'i8', 3), ('ninf', 'i16', 'i8', 5),
                           ('nrst', 'i32', 'i16', 10), ('tpi', 'u16', 'u16', 4), ('ninf', 'i64', 'i64', 20), ('nat', 'i16', 'i16', 2)]:
        calls.append('i2s<%s, %s, %s, %d>(rng);' % (TAGS[t], CT[s_], CT[d], ed))
    # (nearest: scaled -> plain integer through convert<> with a native source tag does not compile)
    for (t, s_, es, d) in [('ninf', 'i16', -4, 'i16'), ('tpi', 'i16', -8, 'i32'), ('tpi', 'i32', -16, 'i32'), ('ninf', 'i32', -10, 'i16'),
                           ('ninf', 'u16', -6, 'u8'), ('tpi', 'i8', -3, 'i8')]:
        calls.append('s2i<%s, %s, %d, %s>(rng);' % (TAGS[t], CT[s_], es, CT[d]))
    # float -> scaled
    ffixed = [('nrst', 'f32', 'i32', -8), ('tpi', 'f32', 'i16', -1), ('ninf', 'f64', 'i32', -1), ('nrst', 'f64', 'i64', -20),
              ('tpi', 'f64', 'i32', -16), ('ninf', 'f32', 'i16', -4), ('nat', 'f64', 'i32', -8), ('nrst', 'f80', 'i32', -4)]
    m = 4 if tier == 'quick' else 40
    while len(ffixed) < 8 + m:
        c = (rnd.choice(list(TAGS)), rnd.choice(list(FT)), rnd.choice(['i8', 'i16', 'i32', 'i64', 'u8', 'u16', 'u32']), rnd.choice([-20, -12, -8, -4, -2, -1, 1, 3]))
        if c not in ffixed:
            ffixed.append(c)
    # the finest exponents of each width: 2^-ED meets the width of the representation / of int / of long long (the power
    # power_value<F, -ED> that scales the source and the half unit power_value<F, ED - 1> must have the right sign and
    # value there).  64-bit: every tag x every format at -63 and -62; the other corners: every tag, formats rotate.
    for ed in (-63, -62):
        for t in TAGS:
            for f in FT:
                ffixed.append((t, f, 'i64', ed))
    corners = [('u64', -64), ('u64', -63), ('i64', -61), ('i32', -31), ('i32', -30), ('u32', -32), ('u32', -31), ('i16', -15), ('u16', -16), ('i8', -7), ('u8', -8)]
    if tier != 'quick':
        corners += [('u64', -62), ('i64', -64), ('i64', -65), ('u64', -65), ('i32', -32), ('i32', -33), ('u32', -33), ('i32', -63), ('u32', -64), ('i16', -31), ('i8', -63), ('u8', -64)]
    fl = list(FT)
    for j, (d, ed) in enumerate(corners):
        for i, t in enumerate(TAGS):
            c = (t, fl[(i + j + seed) % 3], d, ed)
            if c not in ffixed:
                ffixed.append(c)
    for (t, f, d, ed) in ffixed:
        calls.append('f2s<%s, %s, %s, %d>(rng);' % (TAGS[t], FT[f], CT[d], ed))
    return calls


NT = {'i8': 'signed char', 'u8': 'unsigned char', 'i16': 'short', 'u16': 'unsigned short', 'i32': 'int', 'u32': 'unsigned',
      'i64': 'long long', 'u64': 'unsigned long long'}


def grid_elastic(tier, seed):
    """elastic_scaled_integer -> coarser elastic_scaled_integer: groups of calls, one TU each.
    Every shift 1..40 for a signed and an unsigned narrowest type (and a third, seed-chosen, instantiation), the shifts
    around the widths of the fundamental types (31, 32, 63, 64 and neighbours) for sources of 32..100 digits,
    destination digits equal to / smaller than the source's, negative / zero / positive source exponents."""
    rnd = random.Random(seed * 7919 + 90)
    groups = []
    sweeps = [('i32', 44, -20, 40), ('u32', 44, -20, 40)]
    pool = [('i32', 63, -30, 40), ('u32', 64, -20, 40), ('i64', 50, -10, 40), ('i32', 70, -29, 40), ('u64', 41, -7, 40), ('i16', 36, -12, 35),
            ('u8', 48, -24, 40), ('i32', 90, -15, 40)]
    sweeps.append(pool[seed % len(pool)])
    if tier != 'quick':
        sweeps += [c for c in pool if c not in sweeps]
    for (n, ds, es, cnt) in sweeps:
        for k0 in range(1, cnt + 1, 10):
            groups.append(['e2e_sweep<%s, %d, %d, %d, %d>(rng);' % (NT[n], ds, es, k0, min(10, cnt + 1 - k0))])
    # (narrowest, source digits, source exponent, destination digits, shifts)
    special = [('i32', 63, -30, 63, [30, 31, 32, 33, 62]), ('i32', 70, -28, 70, [31, 32, 63, 64, 65]), ('i32', 70, -40, 70, [31, 64]), ('u32', 64, -30, 64, [31, 32, 33, 63]),
               ('u32', 80, -12, 80, [31, 32, 63, 64]), ('i64', 50, -10, 50, [31, 32]), ('i8', 40, -8, 20, [31, 15, 16]), ('i32', 33, -3, 33, [31, 32]),
               ('i32', 32, 0, 32, [31, 30]), ('u32', 32, -8, 32, [31, 16]), ('i32', 100, -25, 100, [31, 63, 64, 95]), ('i32', 44, 3, 44, [31, 32]),
               ('i32', 44, -20, 13, [31]), ('i32', 63, -30, 32, [31, 32]), ('u32', 64, -22, 33, [31, 63]), ('u64', 70, -20, 70, [31, 63, 64]),
               ('i16', 20, -10, 20, [7, 8, 15, 16]), ('u8', 12, -6, 12, [7, 8, 11])]
    if tier != 'quick':
        for _ in range(40):
            n = rnd.choice(list(NT)); ds = rnd.choice([24, 31, 32, 33, 47, 62, 63, 64, 65, 79, 100, 120])
            if n[0] == 'i' and ds == 64:
                ds = 66
            special.append((n, ds, rnd.choice([-60, -33, -20, -5, 0, 4]), rnd.choice([ds, ds, max(1, ds - 20)]),
                            sorted(set(k for k in (rnd.choice([1, 7, 15, 16, 30, 31, 32, 33, 62, 63, 64, 65, 90]) for _ in range(4)) if k < ds))))
    cur = []
    for (n, ds, es, dd, ks) in special:
        for k in ks:
            assert k < ds
            cur.append('e2e<%s, %d, %d, %d, %d>(rng);' % (NT[n], ds, es, dd, k))
            if len(cur) == 8:
                groups.append(cur); cur = []
    if cur:
        groups.append(cur)
    return groups


def grid_to_integer(tier, seed):
    """a scaled_integer whose representation carries the rounding mode -> fundamental integer (static_cast<D>):
    scaled_integer<rounding_integer<S, Tag>, power<E>> for every tag x 8..64-bit signed and unsigned S x 8..64-bit D,
    static_number<Digits, E, Tag, OTag, N>, nests of rounding and overflow layers"""
    rnd = random.Random(seed * 4421 + 91)
    calls = []
    combos = [('i8', -4, 'i8'), ('i16', -7, 'i8'), ('i16', -7, 'i32'), ('i32', -16, 'i16'), ('i32', -2, 'i32'), ('i32', -30, 'i64'), ('i64', -32, 'i32'),
              ('i64', -40, 'i64'), ('u16', -8, 'u8'), ('u32', -16, 'u32'), ('u8', -3, 'i32'), ('u64', -20, 'u64'), ('i8', -7, 'i32'), ('i64', -62, 'i16'),
              ('i32', 2, 'i32'), ('i16', 0, 'i64'), ('i32', -1, 'i32')]
    extra = 0 if tier == 'quick' else 30
    reps = list(CT)
    while extra:
        s_ = rnd.choice(reps); lim = (31 if int(s_[1:]) <= 32 else 63) - 1
        c = (s_, -rnd.choice([1, 2, 3, 5, 8, 13, 21, 30, 47, 61]), rnd.choice(reps))
        if -c[1] <= lim and c not in combos:
            combos.append(c); extra -= 1
    for t in TAGS:
        for (s_, e, d) in combos:
            calls.append('w2i<scaled_integer<rounding_integer<%s, %s>, power<%d>>, %s>(rng);' % (CT[s_], TAGS[t], e, CT[d]))
    OT = {'und': 'undefined_overflow_tag', 'sat': 'saturated_overflow_tag', 'trp': 'trapping_overflow_tag', 'thr': '_impl::throwing_overflow_tag'}
    ots = list(OT)
    i = seed
    for t in TAGS:
        # (the destination holds the Digits - k digits of the intermediate static_integer)
        for (dg, e, d, n) in [(12, -4, 'i32', 'i32'), (20, -10, 'i16', 'i32'), (40, -20, 'i64', 'i32'), (10, -10, 'i32', 'i32'), (11, -3, 'u16', 'u32'),
                              (24, -9, 'i32', 'i16'), (9, -1, 'i16', 'i8')]:
            o = ots[i % len(ots)]; i += 1
            calls.append('w2i<static_number<%d, %d, %s, %s, %s>, %s>(rng);' % (dg, e, TAGS[t], OT[o], 'long' if n == 'i64' else NT[n], CT[d]))
        calls.append('w2i<static_number<12, -4, %s>, int>(rng);' % TAGS[t])
        # nests of rounding and (native) overflow layers over a built-in (the layered model has no checked overflow tag
        # over / under another wrapper: those are static_number's business)
        calls.append('w2i<scaled_integer<rounding_integer<overflow_integer<int, native_overflow_tag>, %s>, power<-2>>, int>(rng);' % TAGS[t])
        calls.append('w2i<scaled_integer<rounding_integer<overflow_integer<short, native_overflow_tag>, %s>, power<-9>>, long long>(rng);' % TAGS[t])
        calls.append('w2i<scaled_integer<overflow_integer<rounding_integer<int, %s>, native_overflow_tag>, power<-5>>, int>(rng);' % TAGS[t])
    return calls


def tus(tier, seed):
    calls = grid(tier, seed)
    per = 3
    res = []
    hdr = __file__.replace('.py', '.h')
    for i in range(0, len(calls), per):
        body = '#include "%s"\nint main(){ install(); Rng rng(seed_from_env()+%d);\n' % (hdr, i)
        for c in calls[i:i + per]:
            body += '  ' + c + '\n'
        body += '}\n'
        comp = 'clang++' if (tier == 'thorough' and (i // per) % 4 == 3) else 'g++'
        res.append(dict(name='C09_%d' % (i // per), src=body, compiler=comp, one_per_tu_on_failure=True))
    groups = [('e', g) for g in grid_elastic(tier, seed)]
    wc = grid_to_integer(tier, seed)
    groups += [('w', wc[i:i + 12]) for i in range(0, len(wc), 12)]
    for j, (kind, g) in enumerate(groups):
        body = '#include "%s"\nint main(){ install(); Rng rng(seed_from_env()+%d);\n' % (hdr, 1000 + j)
        for c in g:
            body += '  ' + c + '\n'
        body += '}\n'
        comp = 'clang++' if (tier == 'thorough' and j % 4 == 3) else 'g++'
        res.append(dict(name='C09_%s%d' % (kind, j), src=body, compiler=comp, one_per_tu_on_failure=True))
    return res


RULE = ("floating sources: every tie n+1/2 at the destination resolution, its two neighbours, quarters and integers around 0, around a lattice of "
        "destination values and at the destination limits, plus structured floats; float -> scaled also n*2^(E-7) for all |n| <= 320, random |n| < 2^17 and the limits +- n/128 units, "
        "at exponents that include the finest of each width (-63/-62 64-bit signed x every tag x every format, -64/-63 unsigned, -31/-30/-32 32-bit, -15/-16, -7/-8); scaled sources: all values of 8/16-bit reps, lattice + ties "
        "q*2^k + 2^(k-1) +- 1 otherwise; elastic_scaled_integer sources (128-bit values): multiples q*2^k, ties and their neighbours for q around 0, "
        "around half and at the top of the source's digits (both signs) and random q, the source limits, random values, for every shift 1..40 "
        "and the shifts 31, 32, 63, 64 of 32..100-digit sources; representations carrying the rounding mode -> fundamental integer: all values of "
        "<= 12-digit numbers, lattice + limits + ties +- 1 otherwise; non-trivial = the rounded result is representable in the destination")
