// C semantics table: every built-in operator on pairs of built-in integer types.
// Validates CnlModel/CInt.lean against the compiler (UB observed as sanitizer trap).
#include "vh.h"
using namespace vh;

#define OP(NAME, EXPR) \
    { \
        printf("CS " NAME " %s %s ", tn<L>().c_str(), tn<R>().c_str()); \
        prv(l); \
        putchar(' '); \
        prv(r); \
        fputs(" => ", stdout); \
        VH_RUN(EXPR, print_tv) \
    }

template<class L, class R>
void pair(Rng& rng)
{
    auto lv = vals<L>(rng, 4, sizeof(L) > 4 ? 11 : 5);
    auto rv = vals<R>(rng, 4, sizeof(R) > 4 ? 11 : 5);
    for (L l : lv)
        for (R r : rv) {
            OP("add", l + r)
            OP("sub", l - r)
            OP("mul", l * r)
            OP("div", l / r)
            OP("mod", l % r)
            OP("and", l & r)
            OP("or", l | r)
            OP("xor", l ^ r)
            if constexpr (sizeof(R) <= 8) {
                long long rr = (long long)r;
                if (std::is_unsigned_v<R> ? (unsigned long long)r <= 130 : (rr >= -2 && rr <= 130)) {
                    OP("shl", l << r)
                    OP("shr", l >> r)
                }
            }
            OP("lt", l < r)
            OP("le", l <= r)
            OP("gt", l > r)
            OP("ge", l >= r)
            OP("eq", l == r)
            OP("ne", l != r)
        }
    for (L l : lv) {
        R r{};
        OP("neg", -l)
        OP("not", ~l)
        OP("pos", +l)
        OP("cvt", static_cast<R>(l))
    }
}
template<class L>
void row(Rng& rng)
{
    pair<L, std::int8_t>(rng);
    pair<L, std::uint8_t>(rng);
    pair<L, std::int16_t>(rng);
    pair<L, std::uint16_t>(rng);
    pair<L, std::int32_t>(rng);
    pair<L, std::uint32_t>(rng);
    pair<L, std::int64_t>(rng);
    pair<L, std::uint64_t>(rng);
    pair<L, I>(rng);
    pair<L, U>(rng);
}
int main()
{
    install();
    Rng rng(seed_from_env());
    row<std::int8_t>(rng);
    row<std::uint8_t>(rng);
    row<std::int16_t>(rng);
    row<std::uint16_t>(rng);
    row<std::int32_t>(rng);
    row<std::uint32_t>(rng);
    row<std::int64_t>(rng);
    row<std::uint64_t>(rng);
    row<I>(rng);
    row<U>(rng);
}
