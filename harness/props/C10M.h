// C10 (continued): operand kinds next to the same-type operators of C10.h
//  * a BUILT-IN integer on either side of a multi-limb wide_integer: + - * / % & and the six comparisons, every
//    built-in type of 8..128 bits, values at the limits of the built-in type (INT_MIN, LLONG_MIN, the __int128 minimum, ...);
//    the result TYPE (digits, narrowest) is part of the observable (print_any);
//  * shifts by counts of every built-in type (8-bit count types with counts of 128 and more included);
//  * decimal text at digit counts where the length estimate digits*log10(2) is tight: cnl::to_chars into buffers that
//    fit exactly / are one short, to_chars_static, operator<<, to_chars_capacity.
#include "C10.h"

// result of a mixed operator: a multi-limb wide_integer is printed as <type>:x<hex>; should the result type have a
// built-in representation (it never has on the unchanged library) it is printed as <type>:<decimal>
template<class Z>
void print_any(Z const& z)
{
    if constexpr (std::is_same_v<Z, bool>) {
        putchar(z ? '1' : '0');
    } else if constexpr (requires { _impl::to_rep(z).crepresentation(); }) {
        print_w(z);
    } else {
        print_num(z);
    }
}

// text result of a conversion that may fail: a leading '?' marks a status word (printed as is)
inline void print_text(std::string const& s)
{
    if (!s.empty() && s[0] == '?') fputs(s.c_str() + 1, stdout);
    else print_str(s);
}

template<class T>
constexpr bool is_sgn = std::is_signed_v<T> || std::is_same_v<T, vh::I>;

// which combinations are well-formed (established by compiling every combination; the others are hard errors):
// arithmetic needs equal signedness when Narrowest is narrower than int (std::common_type of the two narrowest types
// is then `int`, and the two uintwide_t types do not convert); comparisons need a built-in operand at least as wide as
// Narrowest and not (unsigned) long long
template<class W, class T>
constexpr bool mix_arith_ok = WI<W>::w >= 32 || is_sgn<T> == WI<W>::is_signed;
template<class W, class T>
constexpr bool mix_cmp_ok = int(sizeof(T)) * 8 >= WI<W>::w && !std::is_same_v<T, long long> && !std::is_same_v<T, unsigned long long>;

#define MIX(KIND, NAME, SIDE, EXPR) \
    { \
        printf("C10 " KIND " " NAME " " SIDE " %s %s ", tn<W>().c_str(), tn<T>().c_str()); \
        prv(v); \
        putchar(' '); \
        prhex(b); \
        fputs(" => ", stdout); \
        alarm(20); \
        VH_RUN(EXPR, print_any) alarm(0); \
    }

template<class W, class T, bool ARITH, bool CMP>
void mix_pair(T v, W const& b)
{
    if constexpr (ARITH && mix_arith_ok<W, T>) {
        MIX("mix", "add", "l", v + b)
        MIX("mix", "add", "r", b + v)
        MIX("mix", "sub", "l", v - b)
        MIX("mix", "sub", "r", b - v)
        MIX("mix", "mul", "l", v * b)
        MIX("mix", "mul", "r", b * v)
        MIX("mix", "div", "l", v / b)
        MIX("mix", "div", "r", b / v)
        MIX("mix", "mod", "l", v % b)
        MIX("mix", "mod", "r", b % v)
        MIX("mix", "and", "l", v & b)
        MIX("mix", "and", "r", b & v)
    }
    if constexpr (CMP && mix_cmp_ok<W, T>) {
        MIX("mixcmp", "lt", "l", v < b)
        MIX("mixcmp", "lt", "r", b < v)
        MIX("mixcmp", "le", "l", v <= b)
        MIX("mixcmp", "le", "r", b <= v)
        MIX("mixcmp", "gt", "l", v > b)
        MIX("mixcmp", "gt", "r", b > v)
        MIX("mixcmp", "ge", "l", v >= b)
        MIX("mixcmp", "ge", "r", b >= v)
        MIX("mixcmp", "eq", "l", v == b)
        MIX("mixcmp", "eq", "r", b == v)
        MIX("mixcmp", "ne", "l", v != b)
        MIX("mixcmp", "ne", "r", b != v)
    }
}

// values of a built-in type: its limits and their neighbours, small values of both signs, a middle power of two, random
template<class T>
std::vector<T> bvals()
{
    using L = std::numeric_limits<T>;
    std::vector<T> v;
    T const lo = L::lowest(), hi = L::max();
    for (T x : {lo, T(lo + 1), hi, T(0), T(1), T(3), T(10), T(hi / 2 + 1)}) push_unique(v, x);
    if constexpr (is_sgn<T>)
        for (T x : {T(-1), T(-3), T(-10)}) push_unique(v, x);
    return v;
}

// the wide operands next to a built-in operand: the corners of the storage, the corners of a built-in operand of 32, 64
// and 128 bits seen from the wide side (so that quotients and comparisons sit at +-1 and 0), a few seeded values
template<class W>
std::vector<W> mix_wides(Rng& rng, int nrand)
{
    using I = WI<W>;
    Gen<W> g{rng};
    std::vector<LV> vs;
    {
        std::vector<LV> const c = g.corner();  // 0, 1, -1, max, lowest, 10, -2
        for (std::size_t i : {0, 1, 2, 3, 4, 8, 9}) vs.push_back(c[i]);
    }
    auto low_bits = [&](int bits, bool neg) {  // +-2^(bits-1) as an N-bit pattern
        LV l(std::size_t(I::n), neg ? Gen<W>::mask : 0);
        int const k = bits - 1;
        for (int i = 0; i < I::n; ++i) {
            int const lo = i * I::w;
            if (k >= lo + I::w) { l[std::size_t(i)] = 0; continue; }
            if (k >= lo) l[std::size_t(i)] = neg ? (Gen<W>::mask << (k - lo)) & Gen<W>::mask : 1ull << (k - lo);
        }
        return l;
    };
    for (int bits : {32, 64, 128}) {
        vs.push_back(low_bits(bits, false));  // 2^(bits-1) = -lowest of the built-in type
        vs.push_back(low_bits(bits, true));   // -2^(bits-1) = lowest
    }
    { LV l = g.zero(); l[0] = 3; vs.push_back(l); }
    { LV l(std::size_t(I::n), Gen<W>::mask); l[0] = Gen<W>::mask - 2; vs.push_back(l); }  // -3
    for (int i = 0; i < nrand; ++i) vs.push_back(g.value());
    std::vector<W> ws;
    for (auto const& l : vs) ws.push_back(mkw<W>(l));
    return ws;
}

template<class W, class T, bool ARITH = true, bool CMP = true>
void mix_type(Rng& rng, std::vector<W> const& ws)
{
    std::vector<T> tv = bvals<T>();
    for (int i = 0; i < scale_from_env(); ++i) {
        vh::U x = rng.next128();
        int const len = 1 + rng.below(int(sizeof(T)) * 8);
        if (len < 128) x &= (vh::U(1) << len) - 1;
        tv.push_back(T(x));
    }
    for (T v : tv)
        for (W const& b : ws) mix_pair<W, T, ARITH, CMP>(v, b);
}

// shift counts of every built-in type: the counts representable in C out of a fixed list around the limb width,
// 127/128/129, 255/256 (8-bit count types end there) and the width
template<class W, class C>
void shift_counts(std::vector<W> const& ws, Rng& rng)
{
    using I = WI<W>;
    using L = std::numeric_limits<C>;
    long const counts[] = {0, 1, I::w - 1, I::w, I::w + 1, 100, 126, 127, 128, 129, 130, 200, 254, 255, 256, I::N - I::w, I::N - 1, I::N, I::N + 5,
                           -1, -127, -128, long(rng.below(I::N)), long(rng.below(I::N))};
    for (long k : counts) {
        if (k < 0 && !is_sgn<C>) continue;
        if constexpr (sizeof(C) < sizeof(long)) {
            if (k > long(L::max()) || k < long(L::lowest())) continue;
        }
        for (W const& a : ws) shifts<W, C>(a, k);
    }
}

// MP: bit 0 arithmetic/comparisons with the narrow built-in types, 1 with the 64- and 128-bit ones, 2 shift counts
template<class W, int MP>
void go_mix(Rng& rng)
{
    std::vector<W> const ws = mix_wides<W>(rng, scale_from_env());
    if constexpr (MP & 1) {
        mix_type<W, signed char>(rng, ws);
        mix_type<W, unsigned char>(rng, ws);
        mix_type<W, short>(rng, ws);
        mix_type<W, unsigned short>(rng, ws);
        mix_type<W, int>(rng, ws);
        mix_type<W, unsigned>(rng, ws);
    }
    if constexpr (MP & 2) {
        // long and long long are the same 64-bit type to the operators; comparisons are ill-formed for long long
        mix_type<W, long, false, true>(rng, ws);
        mix_type<W, unsigned long, false, true>(rng, ws);
        mix_type<W, long long, true, false>(rng, ws);
        mix_type<W, unsigned long long, true, false>(rng, ws);
        mix_type<W, vh::I>(rng, ws);
        mix_type<W, vh::U>(rng, ws);
    }
    if constexpr (MP & 4) {
        Gen<W> g{rng};
        std::vector<W> sw;
        auto const c = g.corner();
        for (std::size_t i : {std::size_t(1), std::size_t(2), std::size_t(3), std::size_t(4)}) sw.push_back(mkw<W>(c[i]));
        sw.push_back(mkw<W>(g.value()));
        sw.push_back(mkw<W>(g.value()));
        shift_counts<W, signed char>(sw, rng);
        shift_counts<W, unsigned char>(sw, rng);
        shift_counts<W, short>(sw, rng);
        shift_counts<W, unsigned short>(sw, rng);
        shift_counts<W, long>(sw, rng);
        shift_counts<W, unsigned long>(sw, rng);
        shift_counts<W, long long>(sw, rng);
        shift_counts<W, unsigned long long>(sw, rng);
        shift_counts<W, vh::I>(sw, rng);
        shift_counts<W, vh::U>(sw, rng);
    }
}

////////////////////////////////////////////////////////////////////////////////
// shift count given as a cnl::constant (operator<< / >> (any_uintwide, constant<Value>) of _impl/wide-integer.h; <<= and
// >>= with a constant are routed through the binary operator).  constant<> is `template<auto>`: the value type of the
// constant is the type of the count the representation is shifted by — the N_c literals are constant<cnl::intmax_t{N}>
// (a 128-bit signed count), constant<300> an int, constant<300u> an unsigned, ...  CS = the constant types (chosen by
// C10.py: counts around the limb width, 127..129, 255..257, 300, 511..513, N-w, N-1, N, N+5, negative, seeded; every
// count as an N_c literal and with a built-in value type in rotation)
#define SHC(NAME, EXPR) \
    { \
        printf("C10 shc " NAME " %s %s ", tn<W>().c_str(), tn<C>().c_str()); \
        prhex(a); \
        putchar(' '); \
        prv(K); \
        fputs(" => ", stdout); \
        VH_RUN(EXPR, print_w) \
    }

template<class W, class CT, bool COMPOUND>
void shc(std::vector<W> const& ws)
{
    using C = std::remove_cv_t<typename CT::value_type>;
    constexpr C K = CT::value;
    for (W const& a : ws) {
        SHC("shl", a << CT{})
        SHC("shr", a >> CT{})
        if constexpr (COMPOUND) {
            SHC("shla", ([&] { W l = a; l <<= CT{}; return l; }()))
            SHC("shra", ([&] { W l = a; l >>= CT{}; return l; }()))
        }
    }
}

template<class W>
std::vector<W> shc_values(Rng& rng)
{
    Gen<W> g{rng};
    std::vector<W> sw;
    auto const c = g.corner();
    for (std::size_t i : {std::size_t(1), std::size_t(2), std::size_t(3), std::size_t(4)}) sw.push_back(mkw<W>(c[i]));  // 1, -1, max, lowest
    LV dense = g.zero();
    for (auto& x : dense) x = rng.next() & Gen<W>::mask;
    sw.push_back(mkw<W>(dense));
    for (auto& x : dense) x = ~x & Gen<W>::mask;  // the same with the other sign
    sw.push_back(mkw<W>(dense));
    for (int i = 0; i < 2 * scale_from_env(); ++i) sw.push_back(mkw<W>(g.value()));
    return sw;
}

template<class W, class... CS>
void go_shc(Rng& rng)
{
    std::vector<W> const sw = shc_values<W>(rng);
    (shc<W, CS, true>(sw), ...);
}

////////////////////////////////////////////////////////////////////////////////
// decimal text

template<class W>
void text_lines(W const& a)
{
    using L = std::numeric_limits<W>;
    {
        printf("C10 dec %s ", tn<W>().c_str());
        prhex(a);
        fputs(" => ", stdout);
        VH_RUN(([&] { std::ostringstream os; os << a; return os.str(); }()), print_str)
    }
    if constexpr (WI<W>::is_signed) {
        if (a < L::lowest() || a > L::max()) return;  // cnl::to_chars: the numeric_limits range
        printf("C10 chars %s ", tn<W>().c_str());
        prhex(a);
        fputs(" => ", stdout);
        alarm(20);
        VH_RUN(([&] { auto r = cnl::to_chars_static(a); return std::string(r.chars.data(), std::size_t(r.length)); }()), print_str)
        alarm(0);
        // cnl::to_chars into caller-supplied buffers: the exact length of the numeral (taken from operator<<), one less,
        // the static capacity, and two short ones
        std::ostringstream os;
        os << a;
        int const exact = int(os.str().size());
        constexpr int cap = _impl::to_chars_capacity<W>{}();
        for (int len : {exact, exact - 1, cap, 1, 0, exact + 1}) {
            if (len < 0) continue;
            printf("C10 tochars %s %d ", tn<W>().c_str(), len);
            prhex(a);
            fputs(" => ", stdout);
            alarm(20);
            VH_RUN(([&] {
                       std::vector<char> buf(std::size_t(len) + 2, '#');
                       auto const r = cnl::to_chars(buf.data() + 1, buf.data() + 1 + len, a);
                       if (buf[0] != '#' || buf[std::size_t(len) + 1] != '#') return std::string("?overrun");
                       if (r.ec != std::errc{}) return std::string(r.ptr == buf.data() + 1 + len ? "?E" : "?Eptr");
                       return std::string(buf.data() + 1, r.ptr);
                   }()),
                   print_text)
            alarm(0);
        }
    }
}

// values where the numeral is longest: the limits of numeric_limits<W>, the powers of ten next to them, random values
// between the largest power of ten and the limit, and a few anywhere
template<class W>
void go_text(Rng& rng)
{
    using L = std::numeric_limits<W>;
    Gen<W> g{rng};
    printf("C10 cap %s => %d\n", tn<W>().c_str(), int(_impl::to_chars_capacity<W>{}()));
    limits<W>();
    W const mx = L::max(), lw = L::lowest(), one{1}, ten{10};
    W p{1};
    while (p <= mx / ten) p = p * ten;  // the largest power of ten <= max
    std::vector<W> vs{mx, mx - one, p, p - one, p + one, mx / ten, W{0}, one, W{9}, ten};
    int const nrand = 3 * scale_from_env();
    for (int i = 0; i < nrand; ++i) {
        W const r = mkw<W>(g.value());
        W const span = mx - p + one;
        W x = r % span;
        if (x < W{0}) x = -x;
        vs.push_back(p + x);             // maximum number of digits
        W y = r % mx;
        vs.push_back(y < W{0} ? -y : y);  // anywhere
    }
    if constexpr (WI<W>::is_signed) {
        std::size_t const n = vs.size();
        for (std::size_t i = 0; i < n; ++i)
            if (vs[i] != W{0}) vs.push_back(-vs[i]);
        vs.push_back(lw);
        vs.push_back(lw + one);
    }
    for (W const& a : vs) text_lines(a);
}
