// C12: native-tag wrapper nests versus the bare built-in expression
#include "vh.h"
using namespace cnl;
using namespace vh;
static const bool vh_strict_on = (vh::strict = true);

template<class A>
using inner_t = std::remove_cvref_t<decltype(innermost(std::declval<A>()))>;

template<class A>
A mk(inner_t<A> v)
{
    if constexpr (_impl::is_wrapper<A>) {
        using R = _impl::rep_of_t<A>;
        return _impl::from_rep<A>(mk<R>(v));
    } else
        return v;
}

#define HEAD2(KIND, NAME) \
    printf("C12 " KIND " " NAME " %s %s ", tn<A>().c_str(), tn<B>().c_str()); \
    prv(l); \
    putchar(' '); \
    prv(r); \
    fputs(" => ", stdout);
#define BIN(NAME, EXPR) \
    { \
        HEAD2("bin", NAME) VH_RUN(EXPR, print_num) \
    }
#define CMP(NAME, EXPR) \
    { \
        HEAD2("cmp", NAME) VH_RUN(EXPR, print_tv) \
    }
#define ASG(NAME, STMT) \
    { \
        HEAD2("asg", NAME) VH_RUN(([&] { A c = a; STMT; return c; }()), print_num) \
    }
#define UN(NAME, EXPR) \
    { \
        printf("C12 un " NAME " %s ", tn<A>().c_str()); \
        prv(l); \
        fputs(" => ", stdout); \
        VH_RUN(EXPR, print_num) \
    }

template<class A, class B>
void go(Rng& rng)
{
    using TA = inner_t<A>;
    using TB = inner_t<B>;
    auto lv = vals<TA>(rng, 6 * scale_from_env(), sizeof(TA) > 4 ? 13 : 6);
    auto rv = vals<TB>(rng, 6 * scale_from_env(), sizeof(TB) > 4 ? 13 : 6);
    for (TA l : lv)
        for (TB r : rv) {
            A a = mk<A>(l);
            B b = mk<B>(r);
            BIN("add", a + b)
            BIN("sub", a - b)
            BIN("mul", a * b)
            BIN("div", a / b)
            BIN("mod", a % b)
            BIN("and", a & b)
            BIN("or", a | b)
            BIN("xor", a ^ b)
            CMP("lt", a < b)
            CMP("le", a <= b)
            CMP("gt", a > b)
            CMP("ge", a >= b)
            CMP("eq", a == b)
            CMP("ne", a != b)
            if constexpr (_impl::is_wrapper<A>) {
                ASG("add", c += b)
                ASG("sub", c -= b)
                ASG("mul", c *= b)
                ASG("div", c /= b)
                ASG("mod", c %= b)
                ASG("and", c &= b)
                ASG("or", c |= b)
                ASG("xor", c ^= b)
            }
            bool small = std::is_unsigned_v<TB> ? (unsigned long long)r <= 70 : ((long long)r >= -2 && (long long)r <= 70);
            if (small) {
                BIN("shl", a << b)
                BIN("shr", a >> b)
                if constexpr (_impl::is_wrapper<A>) {
                    ASG("shl", c <<= b)
                    ASG("shr", c >>= b)
                }
            }
        }
    if constexpr (_impl::is_wrapper<A>)
        for (TA l : lv) {
            A a = mk<A>(l);
            UN("neg", -a)
            UN("not", ~a)
            UN("pos", +a)
        }
}

// compound assignment on scaled nests with non-zero exponents: `a op= b` is `a = static_cast<A>(a op b)`,
// the conversion back to a's type rescales (truncating toward zero)
template<class A, class B>
void goe(Rng& rng)
{
    using TA = inner_t<A>;
    using TB = inner_t<B>;
    std::vector<TA> lv;
    std::vector<TB> rv;
    if constexpr (sizeof(TA) == 1 && sizeof(TB) == 1) {
        lv = all_vals<TA>();
        rv = all_vals<TB>();
    } else {
        lv = vals<TA>(rng, 8 * scale_from_env(), sizeof(TA) > 4 ? 13 : 6);
        rv = vals<TB>(rng, 8 * scale_from_env(), sizeof(TB) > 4 ? 13 : 6);
    }
    for (TA l : lv)
        for (TB r : rv) {
            A a = mk<A>(l);
            B b = mk<B>(r);
#define ASGE(NAME, STMT) \
    { \
        HEAD2("asge", NAME) VH_RUN(([&] { A c = a; STMT; return c; }()), print_num) \
    }
            ASGE("add", c += b)
            ASGE("sub", c -= b)
            ASGE("mul", c *= b)
            ASGE("div", c /= b)
            ASGE("mod", c %= b)
        }
}

// conversion between scaled nests / to built-in integers: static_cast<B>(a) is the hand-written code
// `B(rep * radix^(eA-eB))` resp. `B(rep / radix^(eB-eA))` (division truncating toward zero), every value of 8-bit
// representations: shifts at and beyond the digit count of the source included (Q0.7 -> integer: -128 / 128 = -1)
template<class A, class B>
void gocv(Rng& rng)
{
    using TA = inner_t<A>;
    std::vector<TA> lv;
    if constexpr (sizeof(TA) <= 2)
        lv = all_vals<TA>();
    else
        lv = vals<TA>(rng, 40 * scale_from_env(), sizeof(TA) > 4 ? 13 : 6);
    for (TA l : lv) {
        A a = mk<A>(l);
        printf("C12 cvte %s %s ", tn<A>().c_str(), tn<B>().c_str());
        prv(l);
        fputs(" => ", stdout);
        VH_RUN(static_cast<B>(a), print_num)
    }
}

// binary operators and comparisons between scaled nests with different exponents: `+ -` and the comparisons
// align the coarser operand with scale<k> of its representation (a wrapper for sc(ov)/sc(rd)/sc(ov(rd))),
// `* / %` act on the representations; the oracle is the same expression on scaled_integer over the bare integers
template<class A, class B, bool All>
void gob(Rng& rng)
{
    using TA = inner_t<A>;
    using TB = inner_t<B>;
    std::vector<TA> lv;
    std::vector<TB> rv;
    if constexpr (All && sizeof(TA) == 1 && sizeof(TB) == 1) {
        lv = all_vals<TA>();
        rv = all_vals<TB>();
    } else {
        lv = vals<TA>(rng, 8 * scale_from_env(), sizeof(TA) > 4 ? 13 : 6);
        rv = vals<TB>(rng, 8 * scale_from_env(), sizeof(TB) > 4 ? 13 : 6);
    }
    for (TA l : lv)
        for (TB r : rv) {
            A a = mk<A>(l);
            B b = mk<B>(r);
#define BINE(NAME, EXPR) \
    { \
        HEAD2("bine", NAME) VH_RUN(EXPR, print_num) \
    }
#define CMPE(NAME, EXPR) \
    { \
        HEAD2("cmpe", NAME) VH_RUN(EXPR, print_tv) \
    }
            BINE("add", a + b)
            BINE("sub", a - b)
            BINE("mul", a * b)
            BINE("div", a / b)
            BINE("mod", a % b)
            CMPE("lt", a < b)
            CMPE("le", a <= b)
            CMPE("gt", a > b)
            CMPE("ge", a >= b)
            CMPE("eq", a == b)
            CMPE("ne", a != b)
        }
}

// ++ / -- : new value of the operand and the value the expression returns
template<class A>
void incdec(Rng& rng)
{
    using TA = inner_t<A>;
    for (TA l : vals<TA>(rng, 6 * scale_from_env(), sizeof(TA) > 4 ? 13 : 6)) {
#define ID(NAME, STMT) \
    { \
        printf("C12 inc " NAME " %s ", tn<A>().c_str()); \
        prv(l); \
        fputs(" => ", stdout); \
        int vh_rc = sigsetjmp(vh::jb, 1); \
        if (vh_rc == 0) { \
            vh::armed = 1; \
            A c = mk<A>(l); \
            A ret = (STMT); \
            vh::armed = 0; \
            print_num(c); \
            putchar('|'); \
            print_num(ret); \
        } else { \
            vh::armed = 0; \
            vh::print_fail(vh_rc); \
        } \
        putchar('\n'); \
    }
        ID("pre+", ++c)
        ID("pre-", --c)
        ID("post+", c++)
        ID("post-", c--)
    }
}

// a nest combined with cnl::constant<V>: the constant behaves like the bare built-in integer of the smallest
// signed type that holds V (int, or int64 beyond) - lines of the `bin` / `cmp` tables with that type
template<class A, long long V>
void gconst(Rng& rng)
{
    using TA = inner_t<A>;
    using B = std::conditional_t<(V >= -2147483648LL && V <= 2147483647LL), std::int32_t, std::int64_t>;
    std::vector<TA> lv;
    if constexpr (sizeof(TA) == 1)
        lv = all_vals<TA>();
    else
        lv = vals<TA>(rng, 10 * scale_from_env(), sizeof(TA) > 4 ? 13 : 6);
    for (TA l : lv) {
        B r = B(V);
        A a = mk<A>(l);
        constexpr constant<V> b{};
        BIN("add", a + b)
        BIN("sub", a - b)
        BIN("mul", a * b)
        if constexpr (V != 0) {
            BIN("div", a / b)
            BIN("mod", a % b)
        }
        CMP("lt", a < b)
        CMP("ge", a >= b)
        CMP("eq", a == b)
    }
}

// ++ / -- on scaled nests with non-zero exponents and non-binary radixes
template<class A>
void incdece(Rng& rng)
{
    using TA = inner_t<A>;
    std::vector<TA> lv;
    if constexpr (sizeof(TA) == 1)
        lv = all_vals<TA>();
    else
        lv = vals<TA>(rng, 10 * scale_from_env(), sizeof(TA) > 4 ? 13 : 6);
    for (TA l : lv) {
#define IDE(NAME, STMT) \
    { \
        printf("C12 ince " NAME " %s ", tn<A>().c_str()); \
        prv(l); \
        fputs(" => ", stdout); \
        int vh_rc = sigsetjmp(vh::jb, 1); \
        if (vh_rc == 0) { \
            vh::armed = 1; \
            A c = mk<A>(l); \
            A ret = (STMT); \
            vh::armed = 0; \
            print_num(c); \
            putchar('|'); \
            print_num(ret); \
        } else { \
            vh::armed = 0; \
            vh::print_fail(vh_rc); \
        } \
        putchar('\n'); \
    }
        IDE("pre+", ++c)
        IDE("pre-", --c)
        IDE("post+", c++)
        IDE("post-", c--)
    }
}

// documentation kernels: the CNL expression next to the hand-written shift-and-operate code
template<class T, class W, int E1, int E2>
void kernels(Rng& rng)
{
    using A = scaled_integer<T, power<E1>>;
    using B = scaled_integer<T, power<E2>>;
    using WA = scaled_integer<W, power<E1>>;
    auto lv = vals<T>(rng, 8 * scale_from_env(), 3);
    auto rv = vals<T>(rng, 8 * scale_from_env(), 3);
#define KN(NAME, CNLEXPR, HANDEXPR) \
    { \
        printf("C12 kernel " NAME " %s %s %d %d ", tn<T>().c_str(), tn<W>().c_str(), E1, E2); \
        prv(l); \
        putchar(' '); \
        prv(r); \
        fputs(" => ", stdout); \
        int vh_rc = sigsetjmp(vh::jb, 1); \
        if (vh_rc == 0) { \
            vh::armed = 1; \
            auto z = (CNLEXPR); \
            vh::armed = 0; \
            print_num(z); \
            putchar('|'); \
            int vh_rc2 = sigsetjmp(vh::jb, 1); \
            if (vh_rc2 == 0) { \
                vh::armed = 1; \
                auto h = (HANDEXPR); \
                vh::armed = 0; \
                print_tv(h); \
            } else { \
                vh::armed = 0; \
                vh::print_fail(vh_rc2); \
            } \
        } else { \
            vh::armed = 0; \
            vh::print_fail(vh_rc); \
        } \
        putchar('\n'); \
    }
    for (T l : lv)
        for (T r : rv) {
            A a = _impl::from_rep<A>(l);
            A a2 = _impl::from_rep<A>(r);
            B b = _impl::from_rep<B>(r);
            KN("mulwiden", WA{a} * a2, W(l) * r)
            KN("mixadd", a + b, (E1 <= E2 ? l + r * (T(1) << (E2 - E1 >= 0 ? E2 - E1 : 0)) : l * (T(1) << (E1 - E2 >= 0 ? E1 - E2 : 0)) + r))
            KN("average", (WA{a} + a2) >> constant<1>{}, W(l) + r)
            KN("square", WA{a} * WA{a}, W(l) * W(l))
        }
}
