// C12: native-tag wrapper nests versus the bare built-in expression
#include "vh.h"
using namespace cnl;
using namespace vh;
static const bool vh_strict_on = (vh::strict = true);

template<class A>
using inner_t = std::remove_cvref_t<decltype(innermost(std::declval<A>()))>;

template<class A>
A mk(inner_t<A> v)
{
    if constexpr (_impl::is_wrapper<A>) {
        using R = _impl::rep_of_t<A>;
        return _impl::from_rep<A>(mk<R>(v));
    } else
        return v;
}

#define HEAD2(KIND, NAME) \
    printf("C12 " KIND " " NAME " %s %s ", tn<A>().c_str(), tn<B>().c_str()); \
    prv(l); \
    putchar(' '); \
    prv(r); \
    fputs(" => ", stdout);
#define BIN(NAME, EXPR) \
    { \
        HEAD2("bin", NAME) VH_RUN(EXPR, print_num) \
    }
#define CMP(NAME, EXPR) \
    { \
        HEAD2("cmp", NAME) VH_RUN(EXPR, print_tv) \
    }
#define ASG(NAME, STMT) \
    { \
        HEAD2("asg", NAME) VH_RUN(([&] { A c = a; STMT; return c; }()), print_num) \
    }
#define UN(NAME, EXPR) \
    { \
        printf("C12 un " NAME " %s ", tn<A>().c_str()); \
        prv(l); \
        fputs(" => ", stdout); \
        VH_RUN(EXPR, print_num) \
    }

template<class A, class B>
void go(Rng& rng)
{
    using TA = inner_t<A>;
    using TB = inner_t<B>;
    auto lv = vals<TA>(rng, 6 * scale_from_env(), sizeof(TA) > 4 ? 13 : 6);
    auto rv = vals<TB>(rng, 6 * scale_from_env(), sizeof(TB) > 4 ? 13 : 6);
    for (TA l : lv)
        for (TB r : rv) {
            A a = mk<A>(l);
            B b = mk<B>(r);
            BIN("add", a + b)
            BIN("sub", a - b)
            BIN("mul", a * b)
            BIN("div", a / b)
            BIN("mod", a % b)
            BIN("and", a & b)
            BIN("or", a | b)
            BIN("xor", a ^ b)
            CMP("lt", a < b)
            CMP("le", a <= b)
            CMP("gt", a > b)
            CMP("ge", a >= b)
            CMP("eq", a == b)
            CMP("ne", a != b)
            if constexpr (_impl::is_wrapper<A>) {
                ASG("add", c += b)
                ASG("sub", c -= b)
                ASG("mul", c *= b)
                ASG("div", c /= b)
                ASG("mod", c %= b)
                ASG("and", c &= b)
                ASG("or", c |= b)
                ASG("xor", c ^= b)
            }
            bool small = std::is_unsigned_v<TB> ? (unsigned long long)r <= 70 : ((long long)r >= -2 && (long long)r <= 70);
            if (small) {
                BIN("shl", a << b)
                BIN("shr", a >> b)
                if constexpr (_impl::is_wrapper<A>) {
                    ASG("shl", c <<= b)
                    ASG("shr", c >>= b)
                }
            }
        }
    if constexpr (_impl::is_wrapper<A>)
        for (TA l : lv) {
            A a = mk<A>(l);
            UN("neg", -a)
            UN("not", ~a)
            UN("pos", +a)
        }
}
