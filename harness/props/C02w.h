// C02 over wrapped representations: `/`, `%`, the identity `(a/b)*b + a%b == a` and `cnl::quotient` on
// scaled_integer whose representation is an elastic_integer (all signedness mixes of the narrowest types,
// unsigned operands filling the full width of their storage, radix 2 and 10) or an overflow_integer
// (native, saturated, throwing, trapping and undefined tags, operands at the limits of the storage)
#include "vh.h"
using namespace cnl;
using namespace vh;
static const bool vh_strict_on = (vh::strict = true);

// (a/b)*b + a%b == a with the five operator applications in a fixed order (the order of evaluation of the operands
// of + is unspecified; outside the guard the division and the remainder fail differently)
template<class A, class B>
bool ident(A const& a, B const& b)
{
    auto q = a / b;
    auto p = q * b;
    auto rm = a % b;
    return p + rm == a;
}

#if defined(SEC_C02E)
// operand values of an elastic_integer<D,N>: exhaustive for D <= 5, else a lattice within the declared range:
// both ends, every power of two (up to the top bit of the storage) and its neighbours, halves, thirds, random
template<int D, class N>
std::vector<I> evals(Rng& rng)
{
    std::vector<I> v;
    constexpr bool sg = std::is_signed_v<N>;
    I hi = (D >= 127) ? I(~U(0) >> 1) : ((I(1) << D) - 1);
    I lo = sg ? -hi : 0;
    if (D <= 5) {
        for (I x = lo; x <= hi; ++x) v.push_back(x);
        return v;
    }
    auto add = [&](I x) {
        if (x < lo || x > hi) return;
        for (I y : v)
            if (y == x) return;
        v.push_back(x);
    };
    for (int d = 0; d <= 3; ++d) {
        add(hi - d);
        add(lo + d);
        add(d);
        add(-d);
    }
    for (int k = D - 1; k >= 1; k -= (D > 40 ? 9 : D > 16 ? 5 : 2)) {
        I p = I(1) << k;
        add(p);
        add(p - 1);
        add(p + 1);
        add(p + 3);
        add(-p);
        add(-p + 1);
        add(-p - 1);
    }
    add(7);
    add(-7);
    add(10);
    add(-10);
    add(hi / 2);
    add(hi / 2 + 1);
    add(hi / 3);
    add(hi / 5);
    add(lo / 2);
    add(lo / 3);
    for (int i = 0; i < 4 * scale_from_env(); ++i) {
        U x = rng.next128();
        int len = 1 + rng.below(D);
        if (len < 128) x &= ((U(1) << len) - 1);
        I t = I(x & U(hi));
        if (sg && rng.below(2)) t = -t;
        add(t);
    }
    return v;
}

// type string, storage type of the elastic representation, value
template<class Z>
void print_es(Z const& z)
{
    fputs(tn<Z>().c_str(), stdout);
    putchar('/');
    using R = _impl::rep_of_t<_impl::rep_of_t<Z>>;
    fputs(tn<R>().c_str(), stdout);
    putchar(':');
    prv(_impl::to_rep(_impl::to_rep(z)));
}
#define EHEAD(KIND) \
    printf("C02w " KIND " %d %d %s %d %d %s %d ", RX, LD, tn<LN>().c_str(), LE, RD, tn<RN>().c_str(), RE); \
    pri(l); \
    putchar(' '); \
    pri(r); \
    fputs(" => ", stdout);

template<int LD, class LN, int LE, int RD, class RN, int RE, int RX>
void ego(Rng& rng)
{
    using EA = elastic_integer<LD, LN>;
    using EB = elastic_integer<RD, RN>;
    using A = scaled_integer<EA, power<LE, RX>>;
    using B = scaled_integer<EB, power<RE, RX>>;
    using AR = _impl::rep_of_t<EA>;
    using BR = _impl::rep_of_t<EB>;
    auto lv = evals<LD, LN>(rng);
    auto rv = evals<RD, RN>(rng);
    for (I l : lv)
        for (I r : rv) {
            A a = _impl::from_rep<A>(_impl::from_rep<EA>(AR(l)));
            B b = _impl::from_rep<B>(_impl::from_rep<EB>(BR(r)));
            { EHEAD("ebin div") VH_RUN(a / b, print_es) }
            { EHEAD("ebin mod") VH_RUN(a % b, print_es) }
            if constexpr (LD + RD + 1 <= 120) {
                { EHEAD("eident") VH_RUN(ident(a, b), print_tv) }
                if constexpr (RX == 2) {
                    EHEAD("equot") VH_RUN(cnl::quotient(a, b), print_es)
                }
            }
        }
}

// an elastic_integer representation against an operand with a BUILT-IN representation, either operand order:
// kind s = scaled_integer<T, power<RE, RX>>, kind p = a plain T (lifted to exponent 0).  The representation-level
// operator lifts the built-in operand with from_value<elastic_integer<_, N>, T> (signedness of T, width of N).
//   C02w ebs|ebident|ebquot r|l s|p [div|mod] <radix> <LD> <LN> <LE> <T> <RE> <l> <b>
//        (r: elastic OP built-in, l: built-in OP elastic; <l> is always the elastic operand's representation)
template<int LD, int RX, bool Quot, class A, class B>
void ebpair(A const& a, B const& b, auto&& head)
{
    head("ebs", "div"); VH_RUN(a / b, print_es)
    head("ebs", "mod"); VH_RUN(a % b, print_es)
    head("ebident", ""); VH_RUN(ident(a, b), print_tv)
    if constexpr (Quot && RX == 2) {
        head("ebquot", ""); VH_RUN(cnl::quotient(a, b), print_es)
    }
}

template<int LD, class LN, int LE, class T, int RE, int RX>
void ebgo(Rng& rng)
{
    using EA = elastic_integer<LD, LN>;
    using A = scaled_integer<EA, power<LE, RX>>;
    using B = scaled_integer<T, power<RE, RX>>;
    using AR = _impl::rep_of_t<EA>;
    auto lv = evals<LD, LN>(rng);
    auto rv = vals<T>(rng, 3 * scale_from_env(), sizeof(T) > 4 ? 13 : sizeof(T) > 2 ? 7 : sizeof(T) > 1 ? 3 : 1);
    for (T s : {T(1), T(2), T(3), T(7), T(10), T(100)}) {
        push_unique(rv, s);
        if constexpr (std::is_signed_v<T>) push_unique(rv, T(-s));
    }
    for (I l : lv)
        for (T t : rv) {
            A a = _impl::from_rep<A>(_impl::from_rep<EA>(AR(l)));
            B b = _impl::from_rep<B>(t);
#define BH(SIDE, PS, RE_) [&](char const* kind, char const* op) { \
        printf("C02w %s " SIDE " " PS " %s%s%d %d %s %d %s %d ", kind, op, *op ? " " : "", RX, LD, tn<LN>().c_str(), LE, tn<T>().c_str(), RE_); \
        pri(l); putchar(' '); prv(t); fputs(" => ", stdout); }
            ebpair<LD, RX, true>(a, b, BH("r", "s", RE));
            ebpair<LD, RX, true>(b, a, BH("l", "s", RE));
            ebpair<LD, RX, false>(a, t, BH("r", "p", 0));
            ebpair<LD, RX, false>(t, a, BH("l", "p", 0));
#undef BH
        }
}
#endif

#if defined(SEC_C02O)
#define OHEAD(KIND) \
    printf("C02w " KIND " %s %d %s %d %s %d ", TagN<Tag>::name().c_str(), RX, tn<R1>().c_str(), E1, tn<R2>().c_str(), E2); \
    prv(a); \
    putchar(' '); \
    prv(b); \
    fputs(" => ", stdout);

template<class Tag, class R1, int E1, class R2, int E2, int RX>
void ogo(Rng& rng)
{
    using OA = overflow_integer<R1, Tag>;
    using OB = overflow_integer<R2, Tag>;
    using A = scaled_integer<OA, power<E1, RX>>;
    using B = scaled_integer<OB, power<E2, RX>>;
    auto lv = vals<R1>(rng, 4 * scale_from_env(), sizeof(R1) > 4 ? 11 : 5);
    auto rv = vals<R2>(rng, 4 * scale_from_env(), sizeof(R2) > 4 ? 11 : 5);
    for (R1 a : lv)
        for (R2 b : rv) {
            A x = _impl::from_rep<A>(_impl::from_rep<OA>(a));
            B y = _impl::from_rep<B>(_impl::from_rep<OB>(b));
            { OHEAD("obin div") VH_RUN(x / y, print_num) }
            { OHEAD("obin mod") VH_RUN(x % y, print_num) }
            { OHEAD("oident") VH_RUN(ident(x, y), print_tv) }
#if defined(SEC_C02OQ)
            if constexpr (RX == 2 && sizeof(R1) <= 8 && sizeof(R2) <= 8) {
                OHEAD("oquot") VH_RUN(cnl::quotient(x, y), print_num)
            }
#endif
        }
}
#endif
