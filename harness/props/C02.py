"""C02 — uses the shared scaled_integer harness (C01.h) with its own section for built-in representations, and
C02w.h for scaled_integer over wrapped representations (elastic_integer, overflow_integer)."""
import os, random, sys
sys.path.insert(0, os.path.dirname(os.path.abspath(__file__)))
import C01

ECT = C01.ECT
TAGS = {'nat': 'cnl::native_overflow_tag', 'sat': 'cnl::saturated_overflow_tag', 'thr': 'cnl::_impl::throwing_overflow_tag',
        'trp': 'cnl::trapping_overflow_tag', 'und': 'cnl::undefined_overflow_tag'}
WHDR = os.path.join(os.path.dirname(os.path.abspath(__file__)), 'C02w.h')


def elastic_grid(tier, seed):
    """(digits, narrowest, exponent) of dividend and divisor, radix"""
    fixed = [
        # the four signedness mixes of the narrowest types, different digit counts and exponents
        (12, 'i32', -4, 10, 'i32', -2, 2), (12, 'u32', -4, 10, 'u32', -2, 2), (12, 'i32', -4, 10, 'u32', -2, 2), (12, 'u32', -4, 10, 'i32', -2, 2),
        # unsigned operands filling the whole width (8/16/32/64) of their storage, either side, against signed ones
        (32, 'u32', -16, 8, 'i32', -2, 2), (8, 'i32', -2, 32, 'u32', -16, 2), (64, 'u64', 0, 10, 'i16', 3, 2), (10, 'i16', 0, 64, 'u64', -3, 2),
        (8, 'u8', 0, 5, 'i8', 0, 2), (7, 'i8', 0, 8, 'u8', -3, 2), (16, 'u16', -8, 7, 'i8', -2, 2), (9, 'i16', 2, 16, 'u16', 0, 2),
        (32, 'u32', 0, 31, 'i32', 0, 2), (31, 'i32', 5, 32, 'u32', -30, 2), (64, 'u64', -40, 63, 'i64', 1, 2), (33, 'u32', -16, 8, 'i8', -2, 2),
        # decimal exponents; small formats exhaustively
        (32, 'u32', -3, 20, 'i32', 0, 10), (8, 'i8', -1, 32, 'u32', -4, 10), (12, 'u16', -2, 10, 'i16', 0, 10), (5, 'u8', 0, 5, 'i8', 1, 2),
        (4, 'i8', -2, 5, 'u8', 0, 10), (40, 'i32', -20, 10, 'i32', -2, 2),
    ]
    rnd = random.Random(seed * 5701 + 29)
    out = list(fixed)
    n = len(fixed) + (5 if tier == 'quick' else 40)
    while len(out) < n:
        nl, nr = rnd.choice(list(ECT)), rnd.choice(list(ECT))
        full = lambda t: int(t[1:])
        dl = rnd.choice([full(nl) if nl[0] == 'u' else full(nl) - 1, 3, 6, 11, 17, 24, 31, 32, 33, 40, 63, 64])
        dr = rnd.choice([full(nr) if nr[0] == 'u' else full(nr) - 1, 3, 6, 11, 17, 24, 31, 32, 33, 40, 63, 64])
        rx = rnd.choice([2, 2, 2, 10])
        el, er = (rnd.randint(-30, 30), rnd.randint(-30, 30)) if rx == 2 else (rnd.randint(-4, 3), rnd.randint(-4, 3))
        c = (dl, nl, el, dr, nr, er, rx)
        if c not in out:
            out.append(c)
    return out


def overflow_grid(tier, seed):
    """(tag, rep, exponent, rep, exponent, radix); a checked tag gets operands of the same signedness"""
    out = []
    for tg in ('trp', 'thr', 'sat', 'und', 'nat'):
        out += [(tg, 'i32', -8, 'i32', -4, 2), (tg, 'i64', -20, 'i64', 3, 2)]
    rnd = random.Random(seed * 3319 + 5)
    tags = ['trp', 'thr', 'sat', 'und']
    rnd.shuffle(tags)
    rest = [('i16', -8, 'i8', -4, 2), ('i8', 0, 'i8', 0, 2), ('u32', 0, 'u32', -3, 2), ('u8', 2, 'u16', -1, 2), ('i32', -2, 'i32', -2, 10),
            ('i64', -1, 'i32', 2, 10), ('i32', 0, 'i64', -40, 2), ('u64', -5, 'u64', -5, 2), ('i8', -3, 'i32', 0, 2)]
    for i, c in enumerate(rest):
        out.append((tags[i % 4],) + c)
    out += [('nat', 'u32', -8, 'i32', -4, 2), ('nat', 'i64', 0, 'u16', 3, 2), ('nat', 'i8', -1, 'u8', -1, 10)]
    n = len(out) + (4 if tier == 'quick' else 40)
    signed = [t for t in ECT if t[0] == 'i']
    unsigned = [t for t in ECT if t[0] == 'u']
    while len(out) < n:
        tg = rnd.choice(['trp', 'thr', 'sat', 'und', 'nat'])
        pool = list(ECT) if tg == 'nat' else rnd.choice([signed, signed, unsigned])
        a = rnd.choice(pool)
        b = rnd.choice(list(ECT) if tg == 'nat' else pool)
        rx = rnd.choice([2, 2, 2, 10])
        e1, e2 = (rnd.randint(-40, 20), rnd.randint(-40, 20)) if rx == 2 else (rnd.randint(-4, 3), rnd.randint(-4, 3))
        c = (tg, a, e1, b, e2, rx)
        if c not in out:
            out.append(c)
    return out


def builtin_grid(tier, seed):
    """(digits, narrowest, exponent) of the elastic operand, (built-in type, exponent) of the other one, radix"""
    fixed = [
        # unsigned narrowest against a signed built-in (negative values): digits below / above the built-in's, all widths
        (8, 'u32', -4, 'i32', -2, 2), (8, 'u8', -4, 'i32', -2, 2), (12, 'u16', -3, 'i16', 1, 2), (32, 'u32', -16, 'i32', -8, 2),
        (40, 'u32', -8, 'i8', 0, 2), (20, 'u32', -4, 'i64', -10, 2), (5, 'u8', 0, 'i8', 0, 2), (33, 'u64', 2, 'i16', -5, 2),
        (10, 'u16', -2, 'i32', -1, 10),
        # the other three signedness mixes
        (8, 'i32', -4, 'i32', -2, 2), (16, 'u16', -2, 'u32', 0, 2), (12, 'i16', -2, 'u16', -1, 2), (31, 'i32', 0, 'u64', 3, 2),
        (7, 'i8', 1, 'u8', 0, 10),
    ]
    rnd = random.Random(seed * 4409 + 83)
    out = list(fixed)
    n = len(fixed) + (2 if tier == 'quick' else 30)
    dig = lambda t: int(t[1:]) - (1 if t[0] == 'i' else 0)
    while len(out) < n:
        nl = rnd.choice([t for t in ECT if t[0] == 'u']) if rnd.random() < 0.7 else rnd.choice(list(ECT))
        t = rnd.choice([t for t in ECT if t[0] == 'i']) if rnd.random() < 0.7 else rnd.choice(list(ECT))
        d = rnd.choice([3, 6, 9, 12, 17, 24, 31, 32, 33, 40, 48])
        rx = rnd.choice([2, 2, 2, 10])
        el, er = (rnd.randint(-30, 30), rnd.randint(-30, 30)) if rx == 2 else (rnd.randint(-4, 3), rnd.randint(-4, 3))
        c = (d, nl, el, t, er, rx)
        if c not in out and d + dig(t) <= 100:
            out.append(c)
    return out


def tus(tier, seed):
    res = C01.tus(tier, seed, section='C02')
    eg = elastic_grid(tier, seed)
    for i in range(0, len(eg), 3):
        body = '#define SEC_C02E 1\n#include "%s"\nint main(){ install(); Rng rng(seed_from_env()+7000+%d);\n' % (WHDR, i)
        for (dl, nl, el, dr, nr, er, rx) in eg[i:i + 3]:
            body += '  ego<%d, %s, %d, %d, %s, %d, %d>(rng);\n' % (dl, ECT[nl], el, dr, ECT[nr], er, rx)
        body += '}\n'
        comp = 'clang++' if (tier == 'thorough' and (i // 3) % 4 == 3) else 'g++'
        res.append(dict(name='C02_elastic_%d' % (i // 3), src=body, compiler=comp))
    bg = builtin_grid(tier, seed)
    for i in range(0, len(bg), 2):
        body = '#define SEC_C02E 1\n#include "%s"\nint main(){ install(); Rng rng(seed_from_env()+7500+%d);\n' % (WHDR, i)
        for (dl, nl, el, t, er, rx) in bg[i:i + 2]:
            body += '  ebgo<%d, %s, %d, %s, %d, %d>(rng);\n' % (dl, ECT[nl], el, ECT[t], er, rx)
        body += '}\n'
        comp = 'clang++' if (tier == 'thorough' and (i // 2) % 4 == 3) else 'g++'
        res.append(dict(name='C02_elbuiltin_%d' % (i // 2), src=body, compiler=comp))
    og = overflow_grid(tier, seed)
    for i in range(0, len(og), 3):
        body = '#define SEC_C02O 1\n#define SEC_C02OQ 1\n#include "%s"\nint main(){ install(); Rng rng(seed_from_env()+8000+%d);\n' % (WHDR, i)
        for (tg, a, e1, b, e2, rx) in og[i:i + 3]:
            body += '  ogo<%s, %s, %d, %s, %d, %d>(rng);\n' % (TAGS[tg], ECT[a], e1, ECT[b], e2, rx)
        body += '}\n'
        comp = 'clang++' if (tier == 'thorough' and (i // 3) % 4 == 3) else 'g++'
        res.append(dict(name='C02_overflow_%d' % (i // 3), src=body, compiler=comp))
    return res


RULE = C01.RULE + ("; wrapped representations (C02w): per compiled (digits, narrowest, exponent) pair of elastic_integer representations and per "
                   "(overflow tag, representation, exponent) pair of overflow_integer representations, the value lattices of both operands "
                   "cross-multiplied (declared range ends, powers of two up to the top bit of the storage with neighbours, halves, thirds, "
                   "seeded random); per compiled (digits, narrowest, exponent; built-in type, exponent) an elastic_integer representation against a "
                   "scaled_integer over a built-in integer and against a plain integer, either operand order (the lattice of the built-in type with "
                   "small values of both signs); non-trivial = non-zero divisor, operands within the declared range / kept by the usual arithmetic "
                   "conversions, not lowest / -1")
