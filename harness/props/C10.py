"""C10 — cnl::wide_integer behaves as an N-bit two's-complement integer for any N.

Instantiation grid: Digits x Narrowest (limb = unsigned Narrowest of 8/16/32/64 bits, signed and unsigned),
one translation unit per instantiation (uintwide_t instantiates slowly under sanitizers).  Fixed corner
instantiations are always present (4-limb unrolled multiply, single-bit-over-limb-boundary widths, 128-digit
signed = first multi-limb width); the rest of the grid is drawn from the seed.  Instantiations with >= 129 limbs
(Karatsuba multiplication; 8-bit limbs only inside the 65..2048-digit range) have their own TUs (`go_kara`, dense
operands): always 2048 bits unsigned and 1568 bits (odd level 49: schoolbook since 38967ec), plus one drawn from the seed.
C10M.h: built-in operands on either side of a multi-limb wide_integer, shift counts of every built-in type (`go_mix`),
decimal text at tight digit counts (`go_text`), shift counts given as cnl::constant / N_c literals of every value type
(`go_shc`, binary and compound operators, widths up to 1024 bits with counts of 256 and more) — `tus_mix`.
"""
import random

CT = {'i8': 'std::int8_t', 'u8': 'std::uint8_t', 'i16': 'std::int16_t', 'u16': 'std::uint16_t',
      'i32': 'std::int32_t', 'u32': 'std::uint32_t', 'i64': 'std::int64_t', 'u64': 'std::uint64_t'}
BITS = {k: int(k[1:]) for k in CT}


def storage(d, t):
    """(limb bits, limbs) of wide_integer<d, t>, or None when the rep is a built-in integer."""
    signed = t[0] == 'i'
    if d <= (127 if signed else 128):
        return None
    w = BITS[t]
    minw = d + (1 if signed else 0)
    n = (minw + w - 1) // w
    return w, n


def instantiable(d, t):
    s = storage(d, t)
    if s is None:
        return False
    width = s[0] * s[1]
    while width % 2 == 0:
        width //= 2
    return width <= 63      # uintwide_t: Width2 must be 2^n times 1..63


CUTOFF, THRESHOLD = 48, 129   # eval_multiply_kara_n_by_n_to_2n: schoolbook below/at 48 limbs; Karatsuba from 129 limbs


def kara_odd_split(n):
    """Halving the limb count reaches an odd count above the cutoff: that level was split wrongly before /repo 38967ec
    (finding C10.karatsuba_odd_split, fixed); it now multiplies schoolbook."""
    while n > CUTOFF:
        if n % 2:
            return True
        n //= 2
    return False


# every 8-bit-limb instantiation that takes the Karatsuba overload inside the property's range: (digits, type, limbs)
KARA_ALL = [(8 * n - (1 if t == 'i8' else 0), t) for n in range(THRESHOLD, 257) for t in ('u8', 'i8')
            if (lambda m: m <= 63)(n // (n & -n))]
KARA_FIXED_QUICK = [(2048, 'u8'),   # 256 limbs: three Karatsuba levels (256 -> 128 -> 64 -> 32), no odd split
                    (1568, 'u8')]   # 196 -> 98 -> 49: odd level (schoolbook since 38967ec; formerly C10.karatsuba_odd_split)


def kara_grid(tier, seed):
    rnd = random.Random(seed * 104729 + 1010)
    combos = list(KARA_FIXED_QUICK)
    rest = [c for c in KARA_ALL if c not in combos]
    sound = [c for c in rest if not kara_odd_split(storage(*c)[1])]
    # the seed-chosen one is drawn from the instantiations without an odd level twice out of three times
    extra = 1 if tier == 'quick' else 10
    for _ in range(extra):
        pool = sound if rnd.random() < 0.67 else rest
        c = rnd.choice(pool)
        if c not in combos:
            combos.append(c)
    if tier == 'thorough':
        combos += [(1056, 'u8'), (1055, 'i8'), (1536, 'u8'), (2016, 'u8'), (2015, 'i8')]
    out = []
    for c in combos:
        if c not in out:
            assert instantiable(*c) and storage(*c)[1] >= THRESHOLD
            out.append(c)
    return out


FIXED_QUICK = [(200, 'i32'), (200, 'u32'), (128, 'i8'), (129, 'u8'), (200, 'u64'), (255, 'i64'), (128, 'i16'),
               (512, 'u16'), (1024, 'i32'), (1000, 'u64'), (129, 'i64'), (256, 'u32')]
WIDTHS = [128, 129, 130, 159, 160, 191, 192, 193, 200, 224, 255, 256, 257, 300, 384, 500, 512, 513, 640, 768, 1000, 1023, 1024]
WIDTHS_THOROUGH = WIDTHS + [1536, 2000, 2047, 2048]


def grid(tier, seed):
    rnd = random.Random(seed * 7919 + 10)
    combos = list(FIXED_QUICK)
    types = list(CT)
    # stratified: every limb type x signedness gets random widths
    per_type = 2 if tier == 'quick' else 7
    widths = WIDTHS if tier == 'quick' else WIDTHS_THOROUGH
    for t in types:
        k = 0
        tries = 0
        while k < per_type and tries < 200:
            tries += 1
            d = rnd.choice(widths) if rnd.random() < 0.7 else rnd.randrange(128, widths[-1] + 1)
            if instantiable(d, t) and (d, t) not in combos:
                combos.append((d, t))
                k += 1
    if tier == 'thorough':
        combos += [(2048, 'u32'), (2048, 'i64'), (2040, 'i16'), (2048, 'u8'), (1500, 'u8'), (2047, 'i8')]  # last three: >= 129 limbs (Karatsuba)
    out, seen = [], set()
    for c in combos:
        if c not in seen and instantiable(*c):
            seen.add(c)
            out.append(c)
    return out


BUILTIN = [(65, 'i8'), (96, 'u16'), (127, 'i8'), (128, 'u8'), (127, 'i64'), (128, 'u64'), (65, 'i32'), (64, 'u32'), (31, 'i32'),
           (32, 'i32'), (20, 'i8'), (8, 'u8'), (7, 'i8'), (63, 'i16'), (64, 'i16'), (100, 'i32'), (100, 'u32')]


# built-in operand on either side of a multi-limb wide_integer (go_mix) and shift counts of every built-in type:
# every limb width, both signednesses, a width where the signed result type needs one limb more than the unsigned
# operand (224/u32, 256/u64), 8-bit limbs with more than 128 and more than 256 bits; one more drawn from the seed
MIX_FIXED = [(200, 'i32'), (224, 'u32'), (130, 'i64'), (191, 'i8'), (192, 'u16'), (300, 'u64')]
MIX_THOROUGH = [(200, 'u32'), (320, 'u8'), (128, 'i8'), (129, 'u8'), (255, 'i16'), (256, 'u64'), (1000, 'i32'), (1024, 'u32'), (129, 'i64'), (512, 'i16'), (2047, 'i64')]

# decimal text where the length estimate Digits*log10(2) is within 0.02 of an integer (2^Digits just above / just below
# a power of ten): the widths at which an estimate of the number of characters is first off by one
TIGHT = [176, 186, 196, 206, 279, 289, 299, 309, 372, 382, 392, 402, 475, 485, 495, 568, 578, 588, 598, 661, 671, 681, 691,
         764, 774, 784, 794, 857, 867, 877, 887, 960, 970, 980, 990, 1053, 1063, 1073, 1083, 1146, 1156, 1166, 1176, 1249,
         1259, 1269, 1279, 1342, 1352, 1362, 1372, 1445, 1455, 1465, 1475, 1538, 1548, 1558, 1568, 1641, 1651, 1661, 1734,
         1744, 1754, 1764, 1827, 1837, 1847, 1857, 1930, 1940, 1950, 1960, 2023, 2033, 2043]
TEXT_FIXED = [(196, 'i32'), (196, 'u64'), (299, 'i64'), (392, 'i16'), (186, 'i8'), (289, 'i32'), (588, 'i64'), (206, 'u16')]
TEXT_THOROUGH = [(495, 'i32'), (598, 'i32'), (681, 'i64'), (200, 'i32'), (176, 'i64'), (279, 'i16'), (309, 'i8')]


# shift counts given as cnl::constant (shc lines): every limb type; widths below, at and above 256 bits (an 8-bit count
# type holds 0..255), odd limb counts, one limb over a power of two; two more drawn from the seed
SHC_FIXED = [(511, 'i32'), (1024, 'u32'), (319, 'i8'), (255, 'i16'), (300, 'u64'), (512, 'u16'), (1000, 'i64'), (320, 'u8'), (200, 'i32')]
SHC_THOROUGH = [(2048, 'u64'), (2047, 'i16'), (257, 'u8'), (513, 'i32'), (768, 'u16'), (129, 'i64'), (600, 'i8')]
# value types of the constant: (C++ spelling of a value, lowest, max)
SHC_TYPES = [('%d', -2**31, 2**31 - 1), ('%dU', 0, 2**32 - 1), ('%dL', -2**63, 2**63 - 1), ('%dUL', 0, 2**64 - 1), ('short(%d)', -2**15, 2**15 - 1),
             ('(unsigned short)%d', 0, 2**16 - 1), ('%dLL', -2**63, 2**63 - 1), ('%dULL', 0, 2**64 - 1), ('(unsigned char)%d', 0, 255),
             ('(signed char)%d', -128, 127), ('cnl::intmax_t{%d}', -2**127, 2**127 - 1), ('cnl::uintmax_t{%d}', 0, 2**128 - 1)]


def shc_constants(d, t, rnd):
    """the cnl::constant types a wide_integer<d, t> is shifted by: every count as an N_c literal (constant<cnl::intmax_t{N}>)
    and as a constant of a built-in value type in rotation"""
    w, n = storage(d, t)
    N = w * n
    counts = [0, 1, w - 1, w, w + 1, 127, 128, 129, 255, 256, 257, 260, 300, 511, 512, 513, 767, 1000, 1023, N - w, N - 1, N, N + 5]
    counts += [rnd.randrange(N) for _ in range(2)] + [rnd.randrange(256, N) for _ in range(2 if N > 256 else 0)]
    counts = [k for k in dict.fromkeys(counts) if 0 <= k <= N + 5]
    out = []
    rot = rnd.randrange(len(SHC_TYPES))
    for k in counts + [-1, -w - 2, -257]:
        if k >= 0:
            out.append('decltype(%d_c)' % k)
        for _ in range(len(SHC_TYPES)):
            spell, lo, hi = SHC_TYPES[rot % len(SHC_TYPES)]
            rot += 1
            if lo <= k <= hi and not (k >= 0 and 'intmax_t' in spell and 'uint' not in spell):   # = the literal
                out.append('constant<%s>' % (spell % k))
                break
    return out


def tus_mix(tier, seed, hdr):
    rnd = random.Random(seed * 15485863 + 1012)
    res = []
    rs = random.Random(seed * 32452843 + 1013)
    shc = list(SHC_FIXED) + (SHC_THOROUGH if tier == 'thorough' else [])
    spool = [(d, t) for t in CT for d in WIDTHS if instantiable(d, t) and (d, t) not in shc and storage(d, t)[1] < THRESHOLD]
    shc += rs.sample(spool, 2 if tier == 'quick' else 8)
    per = 1
    for i in range(0, len(shc), per):
        body = hdr + 'using namespace cnl::literals;\nint main(){ install();\n'
        for d, t in shc[i:i + per]:
            assert instantiable(d, t), (d, t)
            body += '  { Rng rng(seed_from_env()*1000003ull+%d);\n' % (d * 149 + BITS[t] + (7 if t[0] == 'i' else 0))
            body += '  go_shc<wide_integer<%d, %s>,\n    %s>(rng); }\n' % (d, CT[t], ',\n    '.join(shc_constants(d, t, rs)))
        body += '}\n'
        res.append(dict(name='C10_shc_%d' % (i // per), src=body, compiler='g++', run_timeout=1500))
        if tier == 'thorough' and (i // per) % 3 == 0:
            res.append(dict(res[-1], name='C10_shc_%d_clang' % (i // per), compiler='clang++'))
    combos = list(MIX_FIXED) + (MIX_THOROUGH if tier == 'thorough' else [])
    pool = [(d, t) for t in CT for d in WIDTHS if instantiable(d, t) and (d, t) not in combos]
    combos += rnd.sample(pool, 1 if tier == 'quick' else 6)
    for d, t in combos:
        assert instantiable(d, t), (d, t)
        body = hdr + 'int main(){ install(); Rng rng(seed_from_env()*1000003ull+%d);\n' % (d * 139 + BITS[t] + (7 if t[0] == 'i' else 0))
        body += '  go_mix<wide_integer<%d, %s>, 7>(rng);\n}\n' % (d, CT[t])
        res.append(dict(name='C10_mix_%d_%s' % (d, t), src=body, compiler='g++', run_timeout=1500))
    if tier == 'thorough':
        for d, t in combos[::4]:
            res.append(dict(res[combos.index((d, t))], name='C10_mix_%d_%s_clang' % (d, t), compiler='clang++'))
    text = list(TEXT_FIXED) + (TEXT_THOROUGH if tier == 'thorough' else [])
    tpool = [(d, t) for d in TIGHT for t in CT if instantiable(d, t) and (d, t) not in text and storage(d, t)[1] < THRESHOLD]
    text += rnd.sample(tpool, 2 if tier == 'quick' else 40)
    per = 5
    for i in range(0, len(text), per):
        body = hdr + 'int main(){ install(); Rng rng(seed_from_env()*1000003ull+%d);\n' % (1900 + i)
        for d, t in text[i:i + per]:
            assert instantiable(d, t), (d, t)
            body += '  go_text<wide_integer<%d, %s>>(rng);\n' % (d, CT[t])
        body += '}\n'
        res.append(dict(name='C10_text_%d' % (i // per), src=body, compiler='g++', run_timeout=1500))
    return res


import os as _os, importlib.util as _ilu
_s = _ilu.spec_from_file_location('C10F', _os.path.join(_os.path.dirname(__file__), 'C10F.py'))
C10F = _ilu.module_from_spec(_s); _s.loader.exec_module(C10F)


def tus(tier, seed):
    hdr = '#include "%s"\n' % __file__.replace('.py', '.h')
    res = []
    for i, (d, t) in enumerate(grid(tier, seed)):
        w, n = storage(d, t)
        body = hdr + 'int main(){ install(); Rng rng(seed_from_env()*1000003ull+%d);\n' % (d * 131 + BITS[t] + (7 if t[0] == 'i' else 0))
        body += '  go<wide_integer<%d, %s>, 63>(rng);\n}\n' % (d, CT[t])
        name = 'C10_%d_%s' % (d, t)
        res.append(dict(name=name, src=body, compiler='g++', run_timeout=1500))
        if tier == 'thorough' and i % 5 == 0:
            res.append(dict(name=name + '_clang', src=body, compiler='clang++', run_timeout=1500))
    for i, (d, t) in enumerate(kara_grid(tier, seed)):
        body = hdr + 'int main(){ install(); Rng rng(seed_from_env()*1000003ull+%d);\n' % (d * 137 + (7 if t[0] == 'i' else 0))
        body += '  go_kara<wide_integer<%d, %s>>(rng);\n}\n' % (d, CT[t])
        name = 'C10_kara_%d_%s' % (d, t)
        res.append(dict(name=name, src=body, compiler='g++', run_timeout=1500))
        if tier == 'thorough' and i % 4 == 0:
            res.append(dict(name=name + '_clang', src=body, compiler='clang++', run_timeout=1500))
    body = hdr + 'int main(){ install();\n'
    for d, t in BUILTIN:
        assert storage(d, t) is None
        body += '  storage_builtin<wide_integer<%d, %s>>();\n' % (d, CT[t])
    body += '}\n'
    res.append(dict(name='C10_storage', src=body, compiler='g++'))
    res += C10F.tus_float(tier, seed)
    res += tus_mix(tier, seed, hdr.replace('C10.h', 'C10M.h'))
    # comparisons between wide_integers of different widths (lines of the C03 table `wcmpt`, by-value oracle):
    # the wider operand on either side, every limb width
    whdr = _os.path.join(_os.path.dirname(_os.path.abspath(__file__)), 'C03w.h')
    wp = [(200, 'i32', 300, 'i32'), (300, 'i32', 200, 'i32'), (200, 'u32', 300, 'u32'), (200, 'i64', 300, 'i64'), (300, 'i16', 200, 'i16'), (200, 'u8', 300, 'u8')]
    for i in range(0, len(wp), 3):
        body = '#include "%s"\nint main(){ install(); Rng rng(seed_from_env() + %d);\n' % (whdr, 1700 + i)
        for (dl, nl, dr, nr) in wp[i:i + 3]:
            body += '  wcmpt<%d, %s, %d, %s>(rng);\n' % (dl, CT[nl], dr, CT[nr])
        body += '}\n'
        res.append(dict(name='C10_wcmp_%d' % (i // 3), src=body, compiler='g++'))
    return res


THOROUGH_SCALE = 3
RULE = ("per compiled wide_integer<Digits, Narrowest>: corner values (0, 1, -1, max, lowest, limb boundaries) and seeded values built "
        "from limb patterns {0, ~0, 1, 1<<k, 0111.., 1000.., random} cross-multiplied for + - * & | ^ and comparisons; divisors of "
        "1..n limbs with top limb ~0 / 1 / 1000.. / 0111.. against numerators q*b, q*b-1, q*b+r and add-back shapes; shift counts "
        "{0,1,w-1,w,w+1,N-1,...,>=N,<0}; >= 129-limb instantiations (8-bit limbs, 1056..2048 bits: Karatsuba) get dense "
        "operands (random limbs, all-ones, 0xFE../0xF0../0xCC.. runs over the width, half, three quarters, equal halves) "
        "cross-multiplied, in the quick tier too (2048 bits, 1568 bits = odd level, one width by seed); "
        "a built-in operand of every type (8..128 bits, signed and unsigned; lowest, lowest+1, max, 0, +-1, +-3, +-10, max/2+1, random) on "
        "either side of + - * / % & and the six comparisons against wide operands 0, +-1, max, lowest, 10, -2, +-3, +-2^31, +-2^63, +-2^127, random "
        "(result type observed) for every limb width and signedness incl. a width where the signed result type needs one more limb (224/u32); "
        "shift counts of every built-in type (8-bit count types up to 127 / 255, counts 126..130, 254..256, N-1, N, negative); "
        "shift counts given as cnl::constant<K> (<< >> <<= >>=), every count both as a K_c literal (128-bit count) and as a constant of a built-in value type "
        "in rotation (8..128 bits, signed and unsigned), K in {0, 1, w-1, w, w+1, 127..129, 255, 256, 257, 260, 300, 511..513, 767, 1000, 1023, N-w, N-1, N, N+5, "
        "negative, 2-4 by seed (two of them >= 256)} for 511/i32, 1024/u32, 319/i8, 255/i16, 300/u64, 512/u16, 1000/i64, 320/u8, 200/i32 + 2 by seed, on 1, -1, max, lowest, "
        "a dense random value and its complement, seeded values; "
        "decimal text at digit counts where Digits*log10(2) is within 0.02 of an integer (196, 299, 392, 186, 289, 588, 206 + 2 by seed): "
        "max, max-1, +-10^k, 10^k-1, max/10, lowest, lowest+1, random values with the maximum number of digits, through operator<<, "
        "to_chars_static, cnl::to_chars into buffers of the exact length / one short / the static capacity / 0 / 1, and to_chars_capacity; non-trivial = the property constrains the result (divisor non-zero, 0 <= shift < N); " + C10F.RULE_FLOAT)
TRUSTED = ["harness reads limbs through uintwide_t::crepresentation() and writes them through representation()",
           "Karatsuba multiplication (>= 129 limbs) is transcribed with its in-place memory (Cnl.Wide.kara), compared limb for "
           "limb and proved exact for all widths/limb counts/initial array contents (karatsuba_correct); the model follows "
           "/repo 38967ec (schoolbook for odd limb counts)"]
ASSUMPTIONS = ["N is the storage width (limb width x limb count), e.g. wide_integer<200,int> is a 224-bit integer",
               "multi-limb wide_integer has no operator~ and no mixed-signedness or mixed-width multi-limb operators (do not compile): outside the quantifier",
               "built-in operand next to a multi-limb wide_integer: | ^ and a wide shift count do not compile; + - * / % & do not compile when Narrowest is an 8/16-bit type of the other signedness; comparisons compile only for built-in types at least as wide as Narrowest other than (unsigned) long long: outside the quantifier",
               "open findings (findings/C10.json), modelled exactly and judged by the oracle: C10.signed_builtin_unsigned_wide (a signed built-in operand next to an UNSIGNED multi-limb wide_integer is computed in the unsigned format and reinterpreted / zero-extended in the signed result type) and C10.mod_small_unsigned_builtin_negative_dividend (negative wide % unsigned built-in no wider than a limb returns 2^w - |rem|); the same overload divides by zero (UB) for a zero divisor, which the property does not constrain",
               "numeric_limits<wide_integer>::min() returns 1 (library-wide convention, also elastic_integer): modelled, not constrained",
               "cnl::to_chars on an unsigned multi-limb wide_integer does not compile (no mixed-signedness operator-): only signed instances are observed through to_chars, both through operator<<; to_chars / to_chars_static are observed on [lowest(), max()] of numeric_limits (the capacity is sized for Digits, not for the storage width)",
               "division by zero returns numeric_limits::max() (quotient) / 0 (remainder) without trapping, shifts by counts outside [0, N) fill with zeros or the sign: modelled, not constrained by the property",
               ] + (C10F.ASSUMPTIONS_FLOAT if isinstance(C10F.ASSUMPTIONS_FLOAT, list) else [C10F.ASSUMPTIONS_FLOAT])
