"""C15 — literals, run-time parse and constant-driven deduction yield exactly the written value.

Run time : tokens generated here (Python big integers) are written to a file and fed to
           `_impl::scan_string` and `_impl::parse<T>` for several result types T.
Compile time: generated TUs with literal expressions (`_c`, `_wide`, `_cnl`, `_cnl2`) and `make_*` calls on
           constants.  A literal the compiler may reject is first compiled on its own (-fsyntax-only, cached);
           a rejection becomes the observable `REJECTED` (printed by a generated TU), an acceptance puts the
           literal into a regular batch.  Which literals are compiled singly is decided by the fixed corner list
           plus the model's own prediction (asked from the driver) — a literal the model accepts but the compiler
           rejects breaks its batch and is reported by check.py as a broken tie.
"""
import concurrent.futures as cf
import hashlib
import os
import random
import subprocess
import sys

HERE = os.path.dirname(os.path.abspath(__file__))
ROOT = os.path.dirname(os.path.dirname(HERE))
HDR = os.path.join(HERE, 'C15.h')


def _check():
    m = sys.modules.get('__main__')
    if m is not None and hasattr(m, 'compile_tu') and hasattr(m, 'include_hash'):
        return m
    import importlib.util
    spec = importlib.util.spec_from_file_location('verif_check', os.path.join(ROOT, 'check.py'))
    mod = importlib.util.module_from_spec(spec)
    spec.loader.exec_module(mod)
    return mod


DIGITS = '0123456789abcdef'
PREFIX = {10: '', 16: '0x', 8: '0', 2: '0b'}
STRIDE = {10: 18, 16: 15, 8: 21, 2: 63}


def to_base(v, base):
    if v == 0:
        return '0'
    s = ''
    while v:
        s = DIGITS[v % base] + s
        v //= base
    return s


def tok_of(v, base, rnd=None):
    d = to_base(v, base)
    if base == 16 and rnd is not None and rnd.random() < 0.3:
        d = d.upper()
    p = PREFIX[base]
    if rnd is not None and base in (16, 2) and rnd.random() < 0.2:
        p = p.upper()
    if base == 8 and v == 0:
        return '00'
    return p + d


def with_sep(tok, base, pos):
    """insert a separator before digit index `pos` (1 <= pos < number of digits)"""
    n = len(PREFIX[base])
    return tok[:n + pos] + "'" + tok[n + pos:]


def runtime_tokens(tier, seed):
    rnd = random.Random(seed * 1000003 + 15)
    out = []  # (kind, token)
    seen = set()

    def add(kind, t):
        if (kind, t) not in seen:
            seen.add((kind, t))
            out.append((kind, t))

    maxlen = 80 if tier == 'quick' else 130
    nrand = 2 if tier == 'quick' else 6
    for base in (10, 16, 8, 2):
        leads = sorted({1, base // 2 - 1, base // 2, base - 1} - {0})
        for n in range(1, maxlen + 1):
            for lead in leads:
                fills = [[0] * (n - 1), [base - 1] * (n - 1)]
                for _ in range(nrand):
                    fills.append([rnd.randrange(base) for _ in range(n - 1)])
                for f in fills:
                    body = DIGITS[lead] + ''.join(DIGITS[x] for x in f)
                    if base == 16 and rnd.random() < 0.3:
                        body = body.upper()
                    t = PREFIX[base] + body
                    sign = rnd.choice(['', '-', '', '-', '+'])
                    add('p', t)
                    add('p', '-' + t)
                    if sign == '+':
                        add('p', '+' + t)
        # separators at every position, at chunk-relevant lengths
        for n in sorted({2, 3, STRIDE[base] - 1, STRIDE[base], STRIDE[base] + 1, 2 * STRIDE[base], 2 * STRIDE[base] + 1,
                         rnd.randrange(4, maxlen)}):
            body = ''.join(DIGITS[rnd.randrange(1 if i == 0 else 0, base)] for i in range(n))
            t = PREFIX[base] + body
            for pos in range(1, n):
                add('p', with_sep(t, base, pos))
            if n > 4:  # several separators
                t2 = t
                for pos in sorted(rnd.sample(range(1, n), min(4, n - 1)), reverse=True):
                    t2 = with_sep(t2, base, pos)
                add('p', t2)
                add('p', '-' + t2)
        # boundary values 2^k, 2^k +- 1
        kmax = 270 if tier == 'quick' else 440
        for k in range(0, kmax):
            for d in (-1, 0, 1):
                v = (1 << k) + d
                if v < 0:
                    continue
                t = tok_of(v, base, rnd)
                add('p', t)
                add('p', '-' + t)
        # leading zeros (octal/hex/binary tokens may have them; they count towards the width)
        if base != 10:
            for z in (1, 2, STRIDE[base], STRIDE[base] + 3):
                add('p', PREFIX[base] + '0' * z + DIGITS[base - 1] * 3)
                add('p', PREFIX[base] + '0' * z)
    add('p', '0')
    add('p', '-0')
    add('p', '+0')
    # fractional tokens: the scanner's fractional-digit count (parse<T> reads the significand)
    for _ in range(60 if tier == 'quick' else 400):
        a = rnd.randrange(0, 10 ** rnd.randrange(1, 25))
        b = ''.join(rnd.choice('0123456789') for _ in range(rnd.randrange(1, 25)))
        add('p', '%d.%s' % (a, b))
    for t in ('.5', '5.', '0.5', '1.50', "1'0.2'5", '10.0', '00.5', '-1.5', '+.5', '-10.25', '-5.', '+5.', '-0.', '-12.'):
        add('p', t)
    # tokens ending in the radix point, unsigned and with either sign (repaired class signed_trailing_radix_point): every
    # chunk-relevant length, with separators, with a leading zero; and the same written with the prefix of the other three
    # bases (a radix point makes the token decimal: `0x1f.` is malformed, `017.` is the decimal 17 — both sides must agree)
    for n in sorted({1, 2, 3, 17, 18, 19, 35, 36, 37, rnd.randrange(4, 60), rnd.randrange(4, 60)}):
        body = ''.join(DIGITS[rnd.randrange(1 if i == 0 else 0, 10)] for i in range(n))
        forms = [body, '0' + body]
        if n > 1:
            forms.append(with_sep(body, 10, rnd.randrange(1, n)))
        for f in forms:
            for sign in ('', '-', '+'):
                add('p', sign + f + '.')
    for base in (16, 8, 2):
        for n in (1, 2, STRIDE[base], STRIDE[base] + 1, rnd.randrange(3, 40)):
            body = ''.join(DIGITS[rnd.randrange(1 if i == 0 else 0, base)] for i in range(n))
            for sign in ('', '-', '+'):
                add('p', sign + PREFIX[base] + body + '.')
                add('p', sign + PREFIX[base] + body + '.5')
    # signed fractions: the scanner's fractional-digit count is right for them too now
    for _ in range(20 if tier == 'quick' else 100):
        a = rnd.randrange(0, 10 ** rnd.randrange(1, 20))
        b = ''.join(rnd.choice('0123456789') for _ in range(rnd.randrange(1, 20)))
        add('p', '%s%d.%s' % (rnd.choice('+-'), a, b))
    # octal tokens with a separator directly after the leading 0 (repaired class octal_separator_after_prefix)
    for t in ("0'7", "0'17", "0'0", "0'1'7", "0'00", "0'777'777", "0'" + '7' * 20, "0'" + '7' * 21, "0'" + '7' * 22, "0'3" + '7' * 41,
              "0'1" + '0' * 42, "0'" + "7'" * 30 + '7'):
        for sign in ('', '-', '+'):
            add('p', sign + t)
    for _ in range(12 if tier == 'quick' else 60):
        n = rnd.choice([1, 2, 3, 20, 21, 22, 42, 43, rnd.randrange(1, 80)])
        body = ''.join(DIGITS[rnd.randrange(8)] for _ in range(n))
        t = "0'" + body
        if n > 2 and rnd.random() < 0.5:
            q = rnd.randrange(1, n)
            t = "0'" + body[:q] + "'" + body[q:]
        for sign in ('', '-', '+'):
            add('p', sign + t)
    # width estimate for every decimal length (scan only)
    nmax = 1200 if tier == 'quick' else 3000
    for n in range(1, nmax + 1):
        add('s', '9' * n)
        add('s', '1' + '0' * (n - 1))
        add('s', '4' + '9' * (n - 1))
        add('s', '5' + '0' * (n - 1))
    for base in (16, 8, 2):
        for n in range(81, 400, 7):
            for lead in (1, base // 2 - 1, base // 2, base - 1):
                if lead:
                    add('s', PREFIX[base] + DIGITS[lead] + DIGITS[base - 1] * (n - 1))
    # malformed stream: only digits invalid for the base (both sides must reject the same things)
    for t in ('0b102', '0b2', '089', '08', '0xg', '0xz1', '12a', '0x1G', '1e5', '0b', '0x', '', '-', '1.2.3', "1''2", "12'",
              '0x1.8', '0B1', '0X1f', "0'7", "0'17", '-07', '-017', '+0x10', '-0b1', '007', '00', '0.', '.0', '1e', 'abc', '-.', '.'):
        if ' ' not in t and t:
            add('p', t)
    return out


# ----------------------------------------------------------------------------------------
# compile-time cases

def lit_expr(kind, tok):
    return tok + '_' + kind


FIXED_DECIMAL_LENGTHS = [1, 2, 3, 4, 7, 9, 10, 18, 19, 20, 28, 36, 37, 38, 39, 40, 57, 125, 202, 308]


def literal_cases(tier, seed):
    """list of (kind, token), fixed corners first"""
    rnd = random.Random(seed * 7919 + 1515)
    cases = []
    seen = set()

    def add(kind, tok):
        if (kind, tok) not in seen:
            seen.add((kind, tok))
            cases.append((kind, tok))

    # fixed corners: decimal lengths at which the width estimate matters, all four kinds where meaningful
    for n in FIXED_DECIMAL_LENGTHS:
        for body in ('9' * n, '1' + '0' * (n - 1), '4' + '9' * (n - 1), '5' + '0' * (n - 1)):
            add('wide', body)
            if n <= 40:
                add('c', body)
                add('cnl', body)
    for t in ('0', '1', '7', '8', '9', '10', '123', "1'000'000", '0x0', '0x7f', '0XFF', "0xFFFF'FFFF", '0x7fffffffffffffff',
              '0xffffffffffffffff', '0x10000000000000000', '0x7fffffffffffffffffffffffffffffff', '017', '0777', '00', "0'7",
              '0b0', '0b1', '0b101', '0B1111111', '0b' + '1' * 63, '0b' + '1' * 64, '0b1' + '0' * 126,
              '170141183460469231731687303715884105727', '170141183460469231731687303715884105728',
              '0xffffffffffffffffffffffffffffffff', '0x0000000000000001', '0' + '7' * 42, '0' + '7' * 43):
        add('c', t)
        add('wide', t)
        add('cnl', t)
        add('cnl2', t)
    # tokens with trailing integer zeros before a fraction, and ordinary fractions
    for t in ('10.0', '20.0', '100.0', '100.00', '10.5', '10.25', '1.0', '2.0', '3.0', '6.0', '12.0', '1230.0', '0.5', '.5', '5.',
              '0.25', '0.125', '2.5', '1.50', '20.50', '3.141', '0.1', '0.3', '12.375', '00.5', "1'0.2'5", '0.0', '0.10',
              '99999999999999999999.5', '0.00000000000000000000000000000000000001', '1234567890123456789.0123456789',
              '17014118346046923173168730371588410572.7', '0.5000000000000000000000000000000000000'):
        add('cnl', t)
        add('cnl2', t)
    add('c', '1.5')
    add('wide', '1.5')
    # octal literals with a separator directly after the leading 0 (repaired class octal_separator_after_prefix)
    octs = ["0'17", "0'0", "0'1'7", "0'777'777", "0'" + '7' * 21, "0'3" + '7' * 41, "0'" + '7' * 42]
    for _ in range(4 if tier == 'quick' else 20):
        n = rnd.choice([1, 2, 20, 21, 22, 42, rnd.randrange(1, 43)])
        octs.append("0'" + ''.join(DIGITS[rnd.randrange(8)] for _ in range(n)))
    for t in octs:
        for kind in ('c', 'wide', 'cnl', 'cnl2'):
            add(kind, t)
    add('wide', "0'" + '7' * 60)
    # a fractional part on a value that is a multiple of the output radix (repaired class udl_round_integer_with_fraction)
    for _ in range(10 if tier == 'quick' else 60):
        a = rnd.randrange(1, 10 ** rnd.randrange(1, 12)) * 10 ** rnd.randrange(1, 6)
        z = '0' * rnd.randrange(1, 6)
        add('cnl', '%d.%s' % (a, z))
        add('cnl2', '%d.%s' % (a, z))
        add('cnl', '%d.%s' % (a, rnd.choice('123456789') + z))
        add('cnl2', '%d.%s' % (2 * rnd.randrange(1, 1000), rnd.choice(['5', '50', '25', '250', '500', '0', '00'])))
    # seeded: every kind, random lengths/bases/leading digits
    n_seeded = 60 if tier == 'quick' else 400
    for _ in range(n_seeded):
        base = rnd.choice([10, 10, 16, 8, 2])
        kind = rnd.choice(['c', 'wide', 'wide', 'cnl', 'cnl2'])
        maxd = {10: 330, 16: 90, 8: 120, 2: 300}[base] if kind == 'wide' else {10: 39, 16: 32, 8: 43, 2: 127}[base]
        n = rnd.randrange(1, maxd + 1) if rnd.random() < 0.7 else rnd.choice([STRIDE[base] - 1, STRIDE[base], STRIDE[base] + 1, 2 * STRIDE[base]])
        n = max(1, min(n, maxd))
        lead = rnd.choice(sorted({1, base // 2 - 1, base // 2, base - 1} - {0}))
        style = rnd.randrange(3)
        rest = [0] * (n - 1) if style == 0 else [base - 1] * (n - 1) if style == 1 else [rnd.randrange(base) for _ in range(n - 1)]
        body = DIGITS[lead] + ''.join(DIGITS[x] for x in rest)
        tok = PREFIX[base] + body
        if n > 3 and rnd.random() < 0.3:
            tok = with_sep(tok, base, rnd.randrange(1, n))
        if base == 10 and kind in ('cnl', 'cnl2') and rnd.random() < 0.6 and n > 1:
            p = rnd.randrange(1, n)
            tok = body[:p] + '.' + body[p:]
        add(kind, tok)
    return cases


def constant_values(tier, seed):
    rnd = random.Random(seed * 31337 + 15)
    vs = [0, 1, -1, 2, -2, 3, -3, 7, -7, 8, -8, 24, 444, 500, 1024, -1024, 0x7fffffff00000000, (1 << 126), -(1 << 126), (1 << 127) - 1,
          -((1 << 127) - 1), (1 << 31) - 1, 1 << 31, -(1 << 31), (1 << 63) - 1, 1 << 63, -(1 << 63), 0x5555, 0xAAAA, -0xAAAA0000]
    ks = sorted(set(rnd.sample(range(2, 126), 10 if tier == 'quick' else 40)))
    for k in ks:
        for d in (-1, 0, 1):
            vs.append((1 << k) + d)
            vs.append(-((1 << k) + d))
    # negative powers of two (repaired class static_negative_power_of_two): through every make_* helper, see MK
    for k in sorted({0, 1, 2, 4, 5, 29, 30, 32, 33, 61, 62, 64, 65, 95, 125} | set(rnd.sample(range(0, 127), 8 if tier == 'quick' else 40))):
        vs.append(-(1 << k))
    for _ in range(10 if tier == 'quick' else 60):
        w = rnd.randrange(2, 120)
        pat = rnd.choice([int('5' * 32, 16), int('a' * 32, 16), rnd.getrandbits(128)]) & ((1 << w) - 1)
        sh = rnd.randrange(0, 126 - w + 1)
        v = pat << sh
        if v:
            vs.append(v)
            vs.append(-v)
    out, seen = [], set()
    for v in vs:
        if v not in seen and abs(v) < (1 << 127):
            seen.add(v)
            out.append(v)
    return out


def const_expr(v):
    return ('-%d_c' % -v) if v < 0 else ('%d_c' % v)


MK = [('elastic_integer', 'make_elastic_integer'), ('elastic_scaled_integer', 'make_elastic_scaled_integer'),
      ('scaled_integer', 'make_scaled_integer'), ('static_integer', '_impl::make_static_integer'),
      ('static_number', 'make_static_number')]

HEAD = '#include "%s"\n' % HDR


def lit_line(kind, tok):
    if kind == 'c':
        return '  C15_LIT_C("%s", %s)\n' % (tok, lit_expr(kind, tok))
    return '  C15_LIT("%s", "%s", %s)\n' % (kind, tok, lit_expr(kind, tok))


def single_src(kind, tok):
    return HEAD + 'void f(){ auto v = %s; (void)v; }\n' % lit_expr(kind, tok)


def model_predictions(cases):
    """ask the driver (the Lean model) what it expects for every literal"""
    chk = _check()
    text = ''.join('C15 lit %s %s => ?\n' % c for c in cases)
    try:
        r = subprocess.run([chk.DRIVER, '--echo'], input=text.encode(), stdout=subprocess.PIPE, stderr=subprocess.PIPE, timeout=600)
    except OSError:
        return {}
    pred = {}
    for line in r.stdout.decode().split('\n'):
        if line.startswith('ECHO C15 lit '):
            lhs, rest = line[5:].split(' => ', 1)
            _, _, kind, tok = lhs.split(' ')
            pred[(kind, tok)] = rest.split('|| model=')[1].split(' spec=')[0]
    return pred


def may_reject(kind, tok):
    """fixed corner list: literals compiled singly whatever the model thinks"""
    body = tok.replace("'", '')
    if body[:1] == '0' and body[1:2] in ('x', 'X', 'b', 'B'):
        return False
    if '.' in body:
        ip = body.split('.')[0]
        return kind in ('c', 'wide') or ip.endswith('0') or len(body) > 36
    if body.startswith('0') and len(body) > 1:
        return False
    n = len(body)
    # decimal lengths where (n*3322+678)/1000 is short of the bit length of 10^n - 1, near the widest built-in, and limb boundaries
    return body[0] >= '5' and ((n * 3322 + 678) // 1000 < len(bin(10 ** n - 1)) - 2) and (n <= 40 or n in (125, 202, 308)) or n >= 38 and kind != 'wide'


def classify(cases, tier):
    """returns (accepted cases, rejected cases, info)"""
    chk = _check()
    inc_hash = chk.include_hash()
    pred = model_predictions(cases)
    singles = [c for c in cases if may_reject(*c) or pred.get(c, 'REJECTED') == 'REJECTED']
    res = {}

    def one(c):
        tu = dict(name='C15_single', src=single_src(*c), compiler='g++', syntax_only=True, compile_timeout=600)
        binp, diag = chk.compile_tu(tu, inc_hash)
        return c, binp is not None

    with cf.ThreadPoolExecutor(max_workers=int(os.environ.get('VERIF_JOBS', '16'))) as ex:
        for c, ok in ex.map(one, singles):
            res[c] = ok
    accepted = [c for c in cases if res.get(c, True)]
    rejected = [c for c in cases if not res.get(c, True)]
    return accepted, rejected, dict(singles=len(singles), rejected=len(rejected))


# ----------------------------------------------------------------------------------------
# from_value and class template argument deduction

FV_ARCHETYPES = [
    # built-in
    'signed char', 'unsigned short', 'int', 'unsigned long', 'vh::I',
    # scaled_integer, radix 2
    'cnl::scaled_integer<>', 'cnl::scaled_integer<int, cnl::power<-8>>', 'cnl::scaled_integer<long, cnl::power<12>>',
    'cnl::scaled_integer<cnl::elastic_integer<10>, cnl::power<-4>>', 'decltype(0.625_cnl2)', 'cnl::static_number<10, -2>',
    # scaled_integer, other radixes
    'cnl::scaled_integer<int, cnl::power<0, 8>>', 'cnl::scaled_integer<int, cnl::power<-2, 10>>',
    'cnl::scaled_integer<long, cnl::power<3, 10>>', 'cnl::scaled_integer<int, cnl::power<-1, 16>>',
    'cnl::scaled_integer<unsigned char, cnl::power<1, 16>>', 'cnl::scaled_integer<int, cnl::power<2, 3>>',
    'cnl::scaled_integer<vh::I, cnl::power<-5, 10>>', 'decltype(3.141_cnl)', 'decltype(0x7f0_cnl)', 'decltype(017.4_cnl)',
    'cnl::scaled_integer<cnl::overflow_integer<int, cnl::saturated_overflow_tag>, cnl::power<-3, 10>>',
    # elastic_integer, wide_integer
    'cnl::elastic_integer<10>', 'cnl::elastic_integer<40, unsigned char>', 'cnl::elastic_integer<63, long>',
    'cnl::wide_integer<40>', 'cnl::wide_integer<16, unsigned>',
    # overflow / rounding wrappers and nests
    'cnl::overflow_integer<int, cnl::saturated_overflow_tag>', 'cnl::overflow_integer<unsigned char, cnl::native_overflow_tag>',
    'cnl::overflow_integer<long, cnl::trapping_overflow_tag>', 'cnl::rounding_integer<long, cnl::neg_inf_rounding_tag>',
    'cnl::rounding_integer<int, cnl::nearest_rounding_tag>',
    'cnl::overflow_integer<cnl::elastic_integer<10>, cnl::saturated_overflow_tag>',
    'cnl::rounding_integer<cnl::overflow_integer<int, cnl::_impl::throwing_overflow_tag>, cnl::tie_to_pos_inf_rounding_tag>',
    'cnl::static_integer<10>',
]


def cxx_const(v):
    """a C++ constant expression of value v: int, long or __int128 by magnitude"""
    if -(1 << 31) < v < (1 << 31):
        return str(v)
    if -(1 << 63) < v < (1 << 63):
        return 'INT64_C(%d)' % v
    if v == -(1 << 63):  # as __int128: negating the long is not a constant expression (digits_v<constant<>>)
        return '(-(vh::I(1) << 63))'
    a = abs(v)
    e = '((vh::I(UINT64_C(%d)) << 64) | vh::I(UINT64_C(%d)))' % (a >> 64, a & ((1 << 64) - 1))
    return '(-%s)' % e if v < 0 else e


def fv_constants(tier, seed):
    """(few trailing zero bits, many trailing zero bits): boundary-rich, fixed corners plus seeded patterns"""
    rnd = random.Random(seed * 2654435761 + 1512)
    few = [0, 1, -1, 2, -2, 3, 6, 7, 8, -8, 10, 12, 48, 100, 255, 1000, 65535, 0x7FFFFFFF, -0x100000001, 0x5555555555555555,
           0x2AAAAAAAAAAAAAAA, (5 << 100) + 4, -((1 << 126) + 2)]
    many = [128, 1024, 65536, 0x55550000, 1 << 32, 0x7FFFFFFF00000000, -(1 << 62), -(1 << 63), 5 << 100, 1 << 126]
    for _ in range(4 if tier == 'quick' else 16):
        w = rnd.randrange(1, 120)
        pat = (rnd.choice([int('5' * 32, 16), int('a' * 32, 16), rnd.getrandbits(128), (1 << w) - 1]) & ((1 << w) - 1)) | 1
        tz = rnd.randrange(0, 4)
        v = (pat << tz) * rnd.choice([1, -1])
        if abs(v) < (1 << 127):
            few.append(v)
    for _ in range(2 if tier == 'quick' else 8):
        w = rnd.randrange(1, 60)
        pat = (rnd.getrandbits(64) & ((1 << w) - 1)) | 1
        v = (pat << rnd.randrange(4, 126 - w)) * rnd.choice([1, -1])
        many.append(v)

    def uniq(l):
        out = []
        for v in l:
            if v not in out:
                out.append(v)
        return out
    return uniq(few), uniq(many)


def deduction_tus(tier, seed):
    chk = _check()
    res = []
    wide = any(f.get('id') == 'C15.ctad_default_arguments' and f.get('status') == 'open' for f in chk.known_findings())
    env = {'C15_CTAD_WIDE': '1'} if wide else {}
    using = 'using namespace cnl::literals;\n'
    # class template argument deduction: the guides of fraction
    body = HEAD + using + 'int main(){ install(); Rng rng(seed_from_env());\n'
    for t in ('signed char', 'unsigned char', 'short', 'unsigned short', 'int', 'unsigned', 'long', 'unsigned long', 'vh::I', 'vh::U'):
        body += '  c15::ctad_fraction_int<%s>(rng);\n' % t
    for n, d in (('signed char', 'long'), ('unsigned', 'short'), ('long', 'unsigned char'), ('int', 'int'), ('vh::I', 'unsigned short')):
        body += '  c15::ctad_fraction2<%s, %s>(rng);\n' % (n, d)
    for t in ('float', 'double', 'long double'):
        body += '  c15::ctad_fraction_float<%s>(rng);\n' % t
    body += '}\n'
    res.append(dict(name='C15_ctad_fraction', src=body, compiler='g++', compile_timeout=1200))
    # the alias templates (no guide: default arguments)
    rnd = random.Random(seed * 97 + 1513)
    cs = [0, 1, -1, 8, -6, 1000, 65535, (1 << 31) - 1, -(1 << 31) + 1, -(1 << 31), rnd.randrange(-(1 << 31), 1 << 31), rnd.randrange(-(1 << 20), 1 << 20)]
    if wide:
        cs += [1 << 31, -(1 << 31) - 1, 1 << 40, -(5 << 70), (1 << 63) - 1]
    body = HEAD + using + 'int main(){ install(); Rng rng(seed_from_env());\n'
    for t in ('signed char', 'unsigned char', 'short', 'unsigned short', 'int', 'unsigned', 'long', 'unsigned long'):
        body += '  c15::ctad_alias<%s>(rng);\n' % t
    for v in cs:
        # typed long (or wider), as a _c literal is: the initializer always has more digits than int
        body += '  c15::ctad_alias_c<%s>();\n' % ('INT64_C(%d)' % v if abs(v) < (1 << 63) else cxx_const(v))
    body += '}\n'
    res.append(dict(name='C15_ctad_alias', src=body, compiler='g++', env=env, compile_timeout=1200))
    # from_value: every archetype with constants (few / many trailing zero bits in separate programs) and run-time values
    few, many = fv_constants(tier, seed)
    arch = list(FV_ARCHETYPES)
    rnd.shuffle(arch)
    nfew, nmany = (4, 2) if tier == 'quick' else (6, 3)
    for i in range(nfew):
        body = HEAD + using + 'int main(){ install(); Rng rng(seed_from_env() + %d);\n' % i
        for a in arch[i::nfew]:
            body += '  c15::fv_cs<%s, %s>();\n' % (a, ', '.join(cxx_const(v) for v in few))
            body += '  c15::fv_vs<%s>(rng);\n' % a
        body += '}\n'
        res.append(dict(name='C15_fv_%d' % i, src=body, compiler='g++', compile_timeout=1200))
    for i in range(nmany):
        body = HEAD + using + 'int main(){ install();\n'
        for a in arch[i::nmany]:
            body += '  c15::fv_cs<%s, %s>();\n' % (a, ', '.join(cxx_const(v) for v in many))
        body += '}\n'
        res.append(dict(name='C15_fvz_%d' % i, src=body, compiler='g++', compile_timeout=1200))
    if tier == 'thorough':
        res.append(dict(res[0], name='C15_ctad_fraction_clang', compiler='clang++'))
        res.append(dict(res[2], name='C15_fv_0_clang', compiler='clang++'))
    return res


def tus(tier, seed):
    chk = _check()
    cdir = os.path.join(chk.CACHE, 'c15')
    os.makedirs(cdir, exist_ok=True)
    res = []

    # run-time token sweep, sliced over several processes
    toks = runtime_tokens(tier, seed)
    nslice = 8 if tier == 'quick' else 16
    types = 'long, unsigned long, __int128, unsigned __int128, wide_integer<128>, wide_integer<300>, wide_integer<1100>'
    for i in range(nslice):
        part = toks[i::nslice]
        text = ''.join('%s %s\n' % kt for kt in part)
        path = os.path.join(cdir, 'tokens_%s_%d_%d_%s.txt' % (tier, seed, i, hashlib.sha256(text.encode()).hexdigest()[:12]))
        if not os.path.exists(path):
            tmp = path + '.tmp%d' % os.getpid()
            with open(tmp, 'w') as fh:
                fh.write(text)
            os.replace(tmp, path)
        # one binary serves every slice: the source differs only where it must (compiled once per compiler)
        src = HEAD + 'int main(){ install(); c15::run_tokens<%s>(); }\n' % types
        res.append(dict(name='C15_rt_%d' % i, src=src + '// slice %d\n' % i, compiler='g++', env={'C15_TOKENS': path}, run_timeout=900))
        if tier == 'thorough' and i % 4 == 0:
            res.append(dict(name='C15_rt_%d_clang' % i, src=src + '// slice c%d\n' % i, compiler='clang++', env={'C15_TOKENS': path},
                            run_timeout=900))

    # compile-time literals
    cases = literal_cases(tier, seed)
    accepted, rejected, _ = classify(cases, tier)
    per = 14
    for i in range(0, len(accepted), per):
        body = HEAD + 'int main(){ install();\n' + ''.join(lit_line(*c) for c in accepted[i:i + per]) + '}\n'
        res.append(dict(name='C15_lit_%d' % (i // per), src=body, compiler='g++', compile_timeout=1200))
    if rejected:
        body = '#include <cstdio>\nint main(){\n' + ''.join('  puts("C15 lit %s %s => REJECTED");\n' % c for c in rejected) + '}\n'
        res.append(dict(name='C15_lit_rejected', src=body, compiler='g++'))

    # deduction from constants and values
    vs = constant_values(tier, seed)
    per = 6
    for i in range(0, len(vs), per):
        body = HEAD + 'int main(){ install();\n'
        for v in vs[i:i + per]:
            for (fn, cxx) in MK:
                body += '  C15_MK("%s", "c", "%d", %s(%s))\n' % (fn, v, cxx, const_expr(v))
        body += '}\n'
        res.append(dict(name='C15_mk_%d' % (i // per), src=body, compiler='g++', compile_timeout=1200))
    # explicit Narrowest: digit counts at the widths of the built-in types (7/8, 15/16, 31/32, 63/64 used digits)
    nvals = [127, 128, 255, 256, 32767, 32768, 65535, 65536, 0x8001, 0xFFFF00, 0x7FFF00, 2147483647, 2147483648, 4294967295, 4294967296, -128, -32768, -65535, 0xFFFFFFFF00, (1 << 63) - 1]
    nts = [('signed char', 'i8'), ('unsigned char', 'u8'), ('short', 'i16'), ('unsigned short', 'u16'), ('int', 'i32'), ('unsigned', 'u32')]
    for i, (ct, nt) in enumerate(nts):
        body = HEAD + 'int main(){ install();\n'
        for v in nvals:
            if v < 0 and nt[0] == 'u':
                continue
            body += '  C15_MK("elastic_scaled_integer", "%s c", "%d", cnl::make_elastic_scaled_integer<%s>(%s))\n' % (nt, v, ct, const_expr(v))
        body += '}\n'
        res.append(dict(name='C15_mkn_%d' % i, src=body, compiler='g++', compile_timeout=1200))
    body = HEAD + 'int main(){ install(); Rng rng(seed_from_env());\n'
    for t in ('signed char', 'unsigned char', 'short', 'unsigned short', 'int', 'unsigned', 'long', 'unsigned long'):
        body += '  c15_mk_values<%s>(rng);\n' % t
    body += '}\n'
    res.append(dict(name='C15_mkv', src=body, compiler='g++', compile_timeout=1200))
    res += deduction_tus(tier, seed)
    return res


RULE = ("run time: tokens of every length 1..80 (thorough 130) per base x leading digit {1, base/2-1, base/2, base-1} x fill {zeros, max digit, random}, "
        "both signs, a separator at every position of chunk-boundary lengths, 2^k and 2^k+-1 for k < 270 in every base, fed to scan_string and "
        "parse<T> for seven result types; the width estimate for every decimal length 1..1200; compile time: generated literals of all four kinds "
        "(fixed corner lengths 19, 38/39, 125, 202, 308, X0.Y tokens and 0'… octal tokens always present) and make_* on boundary constants "
        "(every run: 25+ negative powers of two through all five helpers); run-time tokens ending in the radix point with either sign and "
        "0'… octal tokens of every chunk-relevant length in every run; from_value<Archetype> (helper function and public trait) for 35 "
        "archetypes (built-in, scaled_integer of radix 2/3/8/10/16 over built-in, elastic and wrapped reps, elastic/wide/overflow/rounding "
        "wrappers, nests, the types of _cnl literals) x constants with few and with many trailing zero bits (int, long and __int128 typed) "
        "and x the boundary lattice of the eight built-in types; class template argument deduction: every guide of fraction (ten integer "
        "types, two-argument form, float/double/long double values whose numerator or denominator needs up to the full promised width, "
        "e.g. 2^63, 2^64-1, 1e19L, 1e-19L, 2^-63) and the six alias templates without a guide (values and constants that fit int; wider "
        "ones only while C15.ctad_default_arguments is listed as open); non-trivial = well-formed "
        "token whose value the result type can hold (distinct lines)")
TRUSTED = ["g++ -fsyntax-only outcome of one-literal TUs as the observable REJECTED (classified by harness/props/C15.py)"]
ASSUMPTIONS = ["fraction{floating}: inputs in one of property C17's defect classes of make_fraction are not judged by the C15 oracle (correspondence only)",
               "literal tokens carry no sign (the language never passes one to a literal operator)",
               "_cnl/_cnl2 are constrained only when the significand times the output radix fits intmax_t (one guard digit)",
               "used_digits / countr_zero themselves are property C18; here they are the functions `Nat.log2 + 1` and the 2-adic valuation"]
