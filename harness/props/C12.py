"""C12 — wrapping is transparent.  Instantiation grid: operator x nest x built-in rep pairs."""
import random

CT = {'i8': 'std::int8_t', 'u8': 'std::uint8_t', 'i16': 'std::int16_t', 'u16': 'std::uint16_t',
      'i32': 'std::int32_t', 'u32': 'std::uint32_t', 'i64': 'std::int64_t', 'u64': 'std::uint64_t'}
NESTS = {
    'sc': 'scaled_integer<{T}, power<0>>',
    'ov': 'overflow_integer<{T}, native_overflow_tag>',
    'rd': 'rounding_integer<{T}, native_rounding_tag>',
    'sc(ov)': 'scaled_integer<overflow_integer<{T}, native_overflow_tag>, power<0>>',
    'sc(rd)': 'scaled_integer<rounding_integer<{T}, native_rounding_tag>, power<0>>',
    'ov(rd)': 'overflow_integer<rounding_integer<{T}, native_rounding_tag>, native_overflow_tag>',
    'sc(ov(rd))': 'scaled_integer<overflow_integer<rounding_integer<{T}, native_rounding_tag>, native_overflow_tag>, power<0>>',
    'int': '{T}',
}
# which right-hand nests a left-hand nest can meet (same family chain, or a bare integer)
PARTNERS = {
    'sc': ['sc', 'int'], 'ov': ['ov', 'int'], 'rd': ['rd', 'int'],
    'sc(ov)': ['sc(ov)', 'int'], 'sc(rd)': ['sc(rd)', 'int'], 'ov(rd)': ['ov(rd)', 'int'],
    'sc(ov(rd))': ['sc(ov(rd))', 'int'], 'int': ['sc', 'ov', 'rd', 'sc(ov)'],
}


def grid(tier, seed):
    rnd = random.Random(seed * 7919 + 12)
    types = list(CT)
    combos = []
    # stratified: every nest with every left type once, partner/rhs type random; plus fixed corner cases
    for nest in NESTS:
        for tl in types:
            pn = rnd.choice(PARTNERS[nest])
            tr = rnd.choice(types)
            combos.append((nest, tl, pn, tr))
    fixed = [('sc', 'i8', 'sc', 'u32'), ('ov', 'i32', 'ov', 'u32'), ('rd', 'i64', 'rd', 'u64'), ('sc(ov)', 'u8', 'sc(ov)', 'i8'),
             ('sc', 'u32', 'int', 'i32'), ('int', 'i32', 'sc', 'u32'), ('ov(rd)', 'i16', 'ov(rd)', 'u16'), ('sc(ov(rd))', 'i32', 'int', 'i64')]
    combos = fixed + combos
    if tier == 'thorough':
        for nest in NESTS:
            for _ in range(12):
                combos.append((nest, rnd.choice(types), rnd.choice(PARTNERS[nest]), rnd.choice(types)))
    seen, out = set(), []
    for c in combos:
        if c not in seen:
            seen.add(c)
            out.append(c)
    return out


def tus(tier, seed):
    types4 = list(CT)
    combos = grid(tier, seed)
    per = 3
    res = []
    for i in range(0, len(combos), per):
        chunk = combos[i:i + per]
        body = '#include "%s"\nint main(){ install(); Rng rng(seed_from_env()+%d);\n' % (__file__.replace('.py', '.h'), i)
        for (nl, tl, nr, tr) in chunk:
            body += '  go<%s, %s>(rng);\n' % (NESTS[nl].format(T=CT[tl]), NESTS[nr].format(T=CT[tr]))
        body += '}\n'
        if (i // per) % 3 == 0:
            # ++/-- on the left nests of this chunk (not every nest supports them: rounding over overflow does not compile)
            for (nl, tl, nr, tr) in chunk:
                if nl in ('sc', 'ov', 'sc(ov)'):
                    body = body.replace('}\n', '  incdec<%s>(rng);\n}\n' % NESTS[nl].format(T=CT[tl]), 1) if False else body[:-2] + '  incdec<%s>(rng);\n}\n' % NESTS[nl].format(T=CT[tl])
        res.append(dict(name='C12_%d' % (i // per), src=body, compiler='g++'))
        if tier == 'thorough' and (i // per) % 4 == 0:
            res.append(dict(name='C12_%d_clang' % (i // per), src=body, compiler='clang++'))
    # documentation kernels (multiply-widen, mixed-exponent add, average, square)
    kern = [('std::int32_t', 'std::int64_t', -16, -12), ('std::int16_t', 'std::int32_t', -8, -4), ('std::int32_t', 'std::int64_t', -8, -20),
            ('std::uint16_t', 'std::uint32_t', -4, -4), ('std::int8_t', 'std::int16_t', -3, 0)]
    body = '#include "%s"\nint main(){ install(); Rng rng(seed_from_env()+999);\n' % (__file__.replace('.py', '.h'))
    for (t, w, e1, e2) in kern:
        body += '  kernels<%s, %s, %d, %d>(rng);\n' % (t, w, e1, e2)
    body += '}\n'
    res.append(dict(name='C12_kernels', src=body, compiler='g++'))
    if tier == 'thorough':
        res.append(dict(name='C12_kernels_clang', src=body, compiler='clang++'))
    # compound assignment (asge), binary operators and comparisons (bine / cmpe) on scaled nests with non-zero,
    # different exponents: the conversion back to the left operand's type rescales, `+ -` and the comparisons align
    # the coarser operand.  Wrapper representations included: there the alignment is `scale<k>` of an
    # overflow_integer / rounding_integer (power_value of a class type, default_scale through the wrapper's operators)
    ENEST = {'sc': 'scaled_integer<{T}, power<{E}>>', 'sc(ov)': 'scaled_integer<overflow_integer<{T}, native_overflow_tag>, power<{E}>>',
             'sc(rd)': 'scaled_integer<rounding_integer<{T}, native_rounding_tag>, power<{E}>>',
             'sc(ov(rd))': 'scaled_integer<overflow_integer<rounding_integer<{T}, native_rounding_tag>, native_overflow_tag>, power<{E}>>',
             'sc(rd(ov))': 'scaled_integer<rounding_integer<overflow_integer<{T}, native_overflow_tag>, native_rounding_tag>, power<{E}>>',
             # other radixes (overflow_integer only: rounding_integer declares no scale<negative, radix != 2>)
             'sc10(ov)': 'scaled_integer<overflow_integer<{T}, native_overflow_tag>, power<{E}, 10>>',
             'sc3(ov)': 'scaled_integer<overflow_integer<{T}, native_overflow_tag>, power<{E}, 3>>',
             'int': '{T}'}
    epairs = [('sc', 'u8', -4, 'sc', 'i8', -4), ('sc', 'u8', 0, 'sc', 'i8', -8), ('sc', 'i8', 0, 'sc', 'i8', -4), ('sc', 'i16', -8, 'sc', 'u8', -3),
              ('sc', 'u16', -4, 'int', 'i8', 0), ('sc', 'u8', -2, 'sc', 'i8', -5), ('sc', 'i8', -3, 'sc', 'i8', -6), ('sc', 'i32', -16, 'sc', 'i32', -12),
              ('sc', 'u32', -8, 'sc', 'i16', -10), ('sc', 'i8', 2, 'sc', 'i8', -1), ('sc', 'i64', -20, 'sc', 'u8', -4),
              # wrapper representations, both directions of the exponent difference
              ('sc(ov)', 'i8', -4, 'sc(ov)', 'u8', -1), ('sc(ov)', 'u8', -1, 'sc(ov)', 'i8', -6), ('sc(rd)', 'i8', -3, 'sc(rd)', 'i8', -6),
              ('sc(rd)', 'i16', -1, 'sc(rd)', 'u8', -8), ('sc(ov(rd))', 'i32', -16, 'sc(ov(rd))', 'i32', -12),
              ('sc(ov(rd))', 'u8', 2, 'sc(ov(rd))', 'i16', -3), ('sc(ov)', 'i32', -12, 'sc(ov)', 'u32', -16), ('sc(rd)', 'u32', 0, 'sc(rd)', 'i64', -30),
              ('sc(ov)', 'i64', -30, 'sc(ov)', 'i16', -2), ('sc(rd)', 'u16', -4, 'int', 'i32', 0), ('sc(ov(rd))', 'i8', -7, 'int', 'u8', 0),
              ('sc(ov)', 'u16', 3, 'sc(ov)', 'u16', -12), ('sc(rd(ov))', 'i16', -1, 'sc(rd(ov))', 'i8', -6),
              ('sc10(ov)', 'i16', -2, 'sc10(ov)', 'i8', -1), ('sc10(ov)', 'u8', 0, 'sc10(ov)', 'i32', -3), ('sc3(ov)', 'i32', -5, 'sc3(ov)', 'u16', 2)]
    rnd4 = random.Random(seed * 77 + 5)
    exps = [-12, -8, -4, -2, 0, 1, 3]
    for _ in range(3 if tier == 'quick' else 24):
        epairs.append((rnd4.choice(['sc']), rnd4.choice(types4), rnd4.choice(exps),
                       rnd4.choice(['sc', 'sc', 'int']), rnd4.choice(types4), rnd4.choice(exps)))
    for _ in range(4 if tier == 'quick' else 24):
        el = rnd4.choice(exps)
        epairs.append((rnd4.choice(['sc(ov)', 'sc(rd)', 'sc(ov(rd))', 'sc(rd(ov))']), rnd4.choice(types4), el,
                       rnd4.choice(['sc', 'sc', 'sc', 'int']), rnd4.choice(types4), rnd4.choice([e for e in exps if e != el])))
    for i in range(0, len(epairs), 3):
        body = '#include "%s"\nint main(){ install(); Rng rng(seed_from_env()+2000+%d);\n' % (__file__.replace('.py', '.h'), i)
        for j, (nl, tl, el, nr, tr, er) in enumerate(epairs[i:i + 3]):
            if nr != 'int' and nr != nl:
                nr = nl
            A, B = ENEST[nl].format(T=CT[tl], E=el), ENEST[nr].format(T=CT[tr], E=er)
            body += '  goe<%s, %s>(rng);\n' % (A, B)
            # operators and comparisons: exhaustive for one 8-bit pair per translation unit at most
            body += '  gob<%s, %s, %s>(rng);\n' % (A, B, 'true' if j == 0 and nl != 'sc' else 'false')
        body += '}\n'
        res.append(dict(name='C12_asge_%d' % (i // 3), src=body, compiler='g++'))
        if tier == 'thorough' and (i // 3) % 4 == 1:
            res.append(dict(name='C12_asge_%d_clang' % (i // 3), src=body, compiler='clang++'))
    # nests combined with cnl::constant<V>
    cpairs = [('ov', 'u8', 5), ('ov', 'u16', -3), ('rd', 'u8', 200), ('rd', 'i8', -1), ('ov(rd)', 'u16', 7), ('ov', 'i32', 70000), ('rd', 'u32', -2),
              ('ov', 'i64', 5000000000), ('ov', 'u64', -7), ('rd', 'i16', 3)]
    for i in range(0, len(cpairs), 2):
        # (small translation units: a change that makes one instantiation ill-formed must not hide the others)
        body = '#include "%s"\nint main(){ install(); Rng rng(seed_from_env()+3200+%d);\n' % (__file__.replace('.py', '.h'), i)
        for (nest, t, v) in cpairs[i:i + 2]:
            body += '  gconst<%s, %dLL>(rng);\n' % (NESTS[nest].format(T=CT[t]), v)
        body += '}\n'
        res.append(dict(name='C12_const_%d' % (i // 2), src=body, compiler='g++'))
    # ++ / -- with non-zero exponents, radix 2, 10 and 3
    body = '#include "%s"\nint main(){ install(); Rng rng(seed_from_env()+3100);\n' % (__file__.replace('.py', '.h'))
    for (t, e, rx) in [('i32', -2, 10), ('i8', -3, 2), ('u8', -1, 10), ('i16', -4, 2), ('u16', -2, 3), ('i64', -3, 10), ('i32', -16, 2), ('u32', -1, 3), ('i16', 0, 10)]:
        body += '  incdece<scaled_integer<%s, power<%d, %d>>>(rng);\n' % (CT[t], e, rx)
    body += '}\n'
    res.append(dict(name='C12_ince', src=body, compiler='g++'))
    # conversions (cvte): every value of 8/16-bit sources, shifts below, at and beyond the source's digit count
    cv = [('sc', 'i8', -7, 'sc', 'i8', 0), ('sc', 'i8', -7, 'int', 'i32', 0), ('sc', 'i16', -15, 'sc', 'i16', 0), ('sc', 'i16', -15, 'int', 'i64', 0),
          ('sc', 'i8', -8, 'sc', 'i16', 0), ('sc', 'u8', -8, 'int', 'u8', 0), ('sc', 'i8', -6, 'sc', 'i8', 1), ('sc', 'i16', -20, 'sc', 'i32', -4),
          ('sc', 'u16', -16, 'sc', 'u16', 0), ('sc', 'i8', -3, 'sc', 'i32', -10), ('sc', 'i32', -16, 'sc', 'i16', -8), ('sc', 'i64', -40, 'int', 'i32', 0),
          ('sc(ov)', 'i8', -7, 'sc(ov)', 'i8', 0), ('sc(rd)', 'i16', -15, 'sc(rd)', 'i32', 0), ('sc(ov(rd))', 'i8', -7, 'sc(ov(rd))', 'i16', 1)]
    rnd5 = random.Random(seed * 91 + 6)
    for _ in range(3 if tier == 'quick' else 20):
        t = rnd5.choice(['i8', 'u8', 'i16', 'u16'])
        e = -rnd5.randint(1, 20)
        cv.append(('sc', t, e, rnd5.choice(['sc', 'int']), rnd5.choice(['i8', 'i16', 'i32', 'i64', 'u8', 'u32']), rnd5.randint(e + 1, e + 18)))
    for i in range(0, len(cv), 6):
        body = '#include "%s"\nint main(){ install(); Rng rng(seed_from_env()+5000+%d);\n' % (__file__.replace('.py', '.h'), i)
        for (nl, tl, el, nr, tr, er) in cv[i:i + 6]:
            if nr != 'int' and nr != nl:
                nr = nl
            body += '  gocv<%s, %s>(rng);\n' % (ENEST[nl].format(T=CT[tl], E=el), ENEST[nr].format(T=CT[tr], E=(0 if nr == 'int' else er)))
        body += '}\n'
        res.append(dict(name='C12_cvte_%d' % (i // 6), src=body, compiler='g++'))
    # shift-and-compare equivalence: mixed-exponent comparisons over narrow reps, both operand orders
    # (lines of the C03 table; the driver's oracle is the built-in comparison of the aligned representations)
    import os
    chdr = os.path.join(os.path.dirname(os.path.abspath(__file__)), 'C01.h')
    body = '#define SEC_C03 1\n#include "%s"\nint main(){ install(); Rng rng(seed_from_env()+555);\n' % chdr
    for (a, e1, b, e2) in [('std::int16_t', -7, 'std::uint8_t', -4), ('std::uint8_t', -4, 'std::int16_t', -7), ('std::int8_t', -6, 'std::int16_t', -2),
                           ('std::int16_t', -2, 'std::int8_t', -6), ('std::uint16_t', -10, 'std::uint8_t', -3), ('std::int32_t', -20, 'std::int8_t', -1)]:
        body += '  go<%s, %d, %s, %d, 2>(rng);\n' % (a, e1, b, e2)
    body += '}\n'
    res.append(dict(name='C12_shiftcmp', src=body, compiler='g++'))
    return res


RULE = ("per compiled (nest, rep) pair: boundary lattice of both innermost types cross-multiplied plus seeded structured random values; "
        "non-trivial = the bare built-in expression is defined (not UB) on that operand pair")
