// C13 / C14: cnl::to_chars, to_chars_static, to_string, operator<< on integers and scaled_integer.
// Every call gets a buffer inside an arena of guard bytes; the whole buffer (and the nearest guard
// bytes) is printed afterwards, so the model has to predict every byte, and a write outside
// [first,last) is visible (near guards), flagged (`!far`), or caught by ASan (beyond the arena).
#include "vh.h"

#include <sstream>
#include <string>
#include <string_view>
#include <sys/time.h>
using namespace cnl;
using namespace vh;

namespace tc {
    constexpr int FAR = 64, NEAR = 4, MAXLEN = 400;
    inline char arena[FAR + MAXLEN + FAR];
    inline char const* table = "C13";
    inline int timeouts = 0;

    inline void arm(int ms)
    {
        struct itimerval t;
        memset(&t, 0, sizeof t);
        t.it_value.tv_sec = ms / 1000;
        t.it_value.tv_usec = (ms % 1000) * 1000;
        // CPU time of this process, not wall-clock time: a loaded machine must not produce TIMEOUTs
        setitimer(ITIMER_VIRTUAL, &t, nullptr);
    }

    inline void enc(unsigned char c)
    {
        if (c > 0x20 && c < 0x7f && c != '\\' && c != '|')
            putchar(c);
        else
            printf("\\%02x", c);
    }
    inline void enc(char const* p, std::size_t n)
    {
        for (std::size_t i = 0; i < n; ++i) enc((unsigned char)p[i]);
    }

    inline char* prepare(int len)
    {
        memset(arena, '@', sizeof arena);
        memset(arena + FAR, '#', std::size_t(len));
        return arena + FAR;
    }

    // <ec>:<ptr>:<near guards + buffer + near guards>[!far]
    inline void dump(std::to_chars_result r, char* first, int len)
    {
        fputs(r.ec == std::errc{} ? "ok" : r.ec == std::errc::value_too_large ? "big" : "ec?", stdout);
        if (r.ptr)
            printf(":%ld:", long(r.ptr - first));
        else
            fputs(":null:", stdout);
        enc(first - NEAR, std::size_t(len + 2 * NEAR));
        bool far = false;
        for (char* p = arena; p < first - NEAR; ++p) far |= *p != '@';
        for (char* p = first + len + NEAR; p < arena + sizeof arena; ++p) far |= *p != '@';
        if (far) fputs("!far", stdout);
    }

    inline void failed(int rc)
    {
        vh::armed = 0;
        arm(0);
        print_fail(rc);
        putchar('\n');
        if (rc == SIGALRM) ++timeouts;
        if (rc == SIGABRT || rc == SIGSEGV || rc == SIGBUS || timeouts >= 20) {
            // the sanitizer run-time (or the heap) is no longer trustworthy, or everything hangs:
            // the line just printed is the failing input; stop this process cleanly
            fflush(stdout);
            _exit(0);
        }
    }

    // one to_chars call into a buffer of `len` cells
    template<class F>
    void call(int len, F&& f)
    {
        char* first = prepare(len);
        int rc = sigsetjmp(jb, 1);
        if (rc == 0) {
            arm(1500);
            vh::armed = 1;
            std::to_chars_result r = f(first, first + len);
            vh::armed = 0;
            arm(0);
            dump(r, first, len);
            putchar('\n');
        } else
            failed(rc);
    }

    template<class T>
    constexpr bool is_scaled = false;
    template<class Rep, int E, int R>
    constexpr bool is_scaled<scaled_integer<Rep, power<E, R>>> = true;

    template<class T, class V>
    T make(V v)
    {
        if constexpr (is_scaled<T>)
            return _impl::from_rep<T>(_impl::rep_of_t<T>(v));
        else
            return T(v);
    }

    ////////////////////////////////////////////////////////////////////////////////
    // integer to_chars: every length 0..needed+2 (needed: digits in that base, sign)

    template<class T>
    void int_case(T v, int base, int maxlen)
    {
        for (int len = 0; len <= maxlen; ++len) {
            printf("%s int %s %d %d ", table, tn<T>().c_str(), base, len);
            prv(v);
            fputs(" => ", stdout);
            call(len, [&](char* f, char* l) { return cnl::to_chars(f, l, v, base); });
        }
    }

    inline int chars_needed(int bits, int base)
    {
        int per = 0;  // floor(log2(base))
        while ((2 << per) <= base) ++per;
        return bits / per + 2;
    }

    template<class T>
    void int_sweep(std::vector<T> const& values, std::vector<int> const& bases)
    {
        constexpr int cap = _impl::to_chars_capacity<T>{}();
        printf("%s cap %s => %d\n", table, tn<T>().c_str(), cap);
        for (int base : bases)
            for (T v : values)
                int_case<T>(v, base, base == 10 ? cap + 2 : chars_needed(int(sizeof(T) * 8), base) + 2);
    }

    ////////////////////////////////////////////////////////////////////////////////
    // scaled_integer to_chars: every length 0..capacity+2

    template<class Rep, int E, int R>
    void sc_sweep(std::vector<Rep> const& values, int lenstep = 1)
    {
        using T = scaled_integer<Rep, power<E, R>>;
        constexpr int cap = _impl::to_chars_capacity<T>{}();
        printf("%s cap %s => %d\n", table, tn<T>().c_str(), cap);
        int const top = std::min(std::max(cap, 0) + 2, MAXLEN);
        std::string const name = tn<T>();
        for (Rep v : values) {
            T x = _impl::from_rep<T>(v);
            for (int len = 0; len <= top; ++len) {
                // lenstep > 1 thins the middle of the length range for the big formats
                if (lenstep > 1 && len > 6 && len < top - 6 && (len + int(v & 7)) % lenstep) continue;
                printf("%s sc %s %d ", table, name.c_str(), len);
                prv(v);
                fputs(" => ", stdout);
                call(len, [&](char* f, char* l) { return cnl::to_chars(f, l, x); });
            }
        }
    }

    // scaled_integer over a single-word CNL integer representation W that behaves like the built-in V
    // (wide_integer<128, unsigned> / wide_integer<127, int>: arithmetic with an int goes through multi-word types and back)
    template<class W, class V, int E, int R>
    void scw_sweep(std::vector<V> const& values, int lenstep = 1)
    {
        using T = scaled_integer<W, power<E, R>>;
        using TV = scaled_integer<V, power<E, R>>;
        constexpr int cap = _impl::to_chars_capacity<T>{}();
        std::string const name = tn<TV>();
        printf("%s cap %s => %d\n", table, name.c_str(), cap);
        int const top = std::min(std::max(cap, 0) + 2, MAXLEN);
        for (V v : values) {
            T x = _impl::from_rep<T>(W(v));
            for (int len = 0; len <= top; ++len) {
                if (lenstep > 1 && len > 6 && len < top - 6 && (len + int(v & 7)) % lenstep) continue;
                printf("%s sc %s %d ", table, name.c_str(), len);
                prv(v);
                fputs(" => ", stdout);
                call(len, [&](char* f, char* l) { return cnl::to_chars(f, l, x); });
            }
        }
    }

    // a single (value, length) case
    template<class Rep, int E, int R>
    void sc_one(Rep v, int len)
    {
        using T = scaled_integer<Rep, power<E, R>>;
        T x = _impl::from_rep<T>(v);
        printf("%s sc %s %d ", table, tn<T>().c_str(), len);
        prv(v);
        fputs(" => ", stdout);
        call(len, [&](char* f, char* l) { return cnl::to_chars(f, l, x); });
    }

    ////////////////////////////////////////////////////////////////////////////////
    // fixed-capacity variants: to_chars_static | to_string / string_view | operator<< | to_chars at capacity

    template<class T, class V>
    void fix_case(V v)
    {
        constexpr int cap = _impl::to_chars_capacity<T>{}();
        printf("%s fix %s ", table, tn<T>().c_str());
        prv(v);
        fputs(" => ", stdout);
        T x = make<T>(v);
        char* first = prepare(std::max(cap, 0));
        int rc = sigsetjmp(jb, 1);
        if (rc == 0) {
            arm(1500);
            vh::armed = 1;
            auto st = cnl::to_chars_static(x);
            std::string s;
            if constexpr (is_scaled<T>)
                s = cnl::to_string(x);
            else
                s = std::string(std::string_view(st));
            std::ostringstream os;
            {
                using cnl::operator<<;
                if constexpr (sizeof(V) == 1 && !is_scaled<T>)
                    os << int(x);  // a char would be streamed as a character by the standard library
                else
                    os << x;
            }
            std::to_chars_result r = cnl::to_chars(first, first + std::max(cap, 0), x);
            vh::armed = 0;
            arm(0);
            printf("%d:", st.length);
            enc(st.chars.data(), st.chars.size());
            putchar('|');
            enc(s.data(), s.size());
            putchar('|');
            std::string o = os.str();
            enc(o.data(), o.size());
            putchar('|');
            dump(r, first, std::max(cap, 0));
            putchar('\n');
        } else
            failed(rc);
    }

    // to_chars_static<Base>(integer): prints `<length>:<array>` (the array has capacity(Base) + 1 cells)
    template<int Base, class T>
    void fixb_run(T const& v)
    {
        int rc = sigsetjmp(jb, 1);
        if (rc == 0) {
            arm(1500);
            vh::armed = 1;
            auto st = cnl::to_chars_static<Base>(v);
            vh::armed = 0;
            arm(0);
            printf("%d:", st.length);
            enc(st.chars.data(), st.chars.size());
            putchar('\n');
        } else
            failed(rc);
    }

    template<class T, int Base>
    void fixb_sweep(std::vector<T> const& values)
    {
        for (T v : values) {
            printf("%s fixb %s %d ", table, tn<T>().c_str(), Base);
            prv(v);
            fputs(" => ", stdout);
            fixb_run<Base>(v);
        }
    }

    // every base 2..36 at the limits of the type (and the values next to them), plus the capacity in every base
    template<class T, int... Is>
    void fixb_bases(std::vector<T> const& values, std::integer_sequence<int, Is...>)
    {
        (fixb_sweep<T, 2 + Is>(values), ...);
    }
    template<class T>
    void fixb_all(Rng& rng)
    {
        using L = std::numeric_limits<T>;
        std::vector<T> values{L::lowest(), T(L::lowest() + 1), T(L::max() - 1), L::max(), T(0), T(1), T(L::max() / 2), T(L::max() / 2 + 1)};
        if constexpr (L::is_signed) {
            values.push_back(T(-1));
            values.push_back(T(L::lowest() / 2));
        }
        std::vector<T> const some = vals<T>(rng, 2);
        values.push_back(some[rng.below(int(some.size()))]);
        fixb_bases<T>(values, std::make_integer_sequence<int, 35>{});
        for (int base = 2; base <= 36; ++base)
            printf("%s capb %s %d => %d\n", table, tn<T>().c_str(), base, int(_impl::to_chars_capacity<T>{}(base)));
    }

    // the same for wide_integer<D, int> (cnl::to_chars does not compile for multi-limb unsigned wide integers):
    // values are named, not printed: max, -max, lowest (the most negative value, -2^D), 1, -1, half
    template<int D, int Base>
    void fixbw_one()
    {
        using W = cnl::wide_integer<D, int>;
        W const mx = std::numeric_limits<W>::max();
        W const half = W(mx >> 1) + W(1);
        W const vs[] = {mx, W(-mx), W(1), W(-1), half, W(-half), std::numeric_limits<W>::lowest()};
        char const* names[] = {"max", "-max", "1", "-1", "half", "-half", "lowest"};
        for (int k = 0; k < 7; ++k) {
            printf("%s fixbw %d %d %s => ", table, D, Base, names[k]);
            fixb_run<Base>(vs[k]);
        }
    }
    template<int D, int... Is>
    void fixbw_bases(std::integer_sequence<int, Is...>)
    {
        (fixbw_one<D, 2 + Is>(), ...);
    }
    template<int D>
    void fixbw_all()
    {
        fixbw_bases<D>(std::make_integer_sequence<int, 35>{});
    }

    // operator<< of multi-word wide_integer<D, int> (the vendored inserter with its own decimal buffer estimate): the
    // values with the most characters of every digit count in a range
    template<int D>
    void oss_one()
    {
        using W = cnl::wide_integer<D, int>;
        W const mx = std::numeric_limits<W>::max();
        W const vs[] = {mx, W(-mx), std::numeric_limits<W>::lowest()};
        char const* names[] = {"max", "-max", "lowest"};
        for (int k = 0; k < 3; ++k) {
            printf("%s oss %d %s => ", table, D, names[k]);
            int rc = sigsetjmp(jb, 1);
            if (rc == 0) {
                arm(1500);
                vh::armed = 1;
                std::ostringstream os;
                os << vs[k];
                std::string const o = os.str();
                vh::armed = 0;
                arm(0);
                enc(o.data(), o.size());
                putchar('\n');
            } else
                failed(rc);
        }
    }
    template<int Lo, int... Is>
    void oss_seq(std::integer_sequence<int, Is...>)
    {
        (oss_one<Lo + Is>(), ...);
    }
    template<int Lo, int N>
    void oss_range()
    {
        oss_seq<Lo>(std::make_integer_sequence<int, N>{});
    }

    template<class T, class V>
    void fix_sweep(std::vector<V> const& values)
    {
        for (V v : values) fix_case<T, V>(v);
    }

    ////////////////////////////////////////////////////////////////////////////////
    // CNL wrapper integers (overflow_integer, rounding_integer, elastic_integer, static_integer, single-word wide_integer,
    // nests of them): cnl::to_chars, to_chars_static, operator<< and to_chars_capacity on the wrapper itself.  The lines are
    // the `int` / `fix` / `fixb` / `cap` / `capb` lines of a built-in integer with numeric_limits<W>::digits value digits
    // and the signedness of W, so the model demands exactly the numeral of the value and the capacity formula over the
    // digits the wrapper declares.

    template<class W>
    std::string wtn()
    {
        using L = std::numeric_limits<W>;
        return std::string(L::is_signed ? "i" : "u") + std::to_string(int(L::digits) + int(L::is_signed));
    }

    template<class W, class V>
    bool in_range_of(V v)
    {
        using L = std::numeric_limits<W>;
        // compare by value in the widest built-in types
        if constexpr (std::is_signed_v<V> || std::is_same_v<V, I>) {
            if (v < 0) {
                if (!L::is_signed) return false;
                return I(v) >= I(L::lowest());
            }
        }
        return U(v) <= U(L::max());
    }

    template<class W, class V, int... Bases>
    void wrap_sweep(std::vector<V> const& values)
    {
        constexpr int cap = _impl::to_chars_capacity<W>{}();
        std::string const name = wtn<W>();
        printf("%s cap %s => %d\n", table, name.c_str(), cap);
        for (int base = 2; base <= 36; ++base)
            printf("%s capb %s %d => %d\n", table, name.c_str(), base, int(_impl::to_chars_capacity<W>{}(base)));
        int const bits = std::numeric_limits<W>::digits + 1;
        for (V v : values) {
            if (!in_range_of<W>(v)) continue;
            W const x = W(v);
            for (int base : {10, Bases...}) {
                int const maxlen = base == 10 ? cap + 2 : chars_needed(bits, base) + 2;
                for (int len = 0; len <= maxlen; ++len) {
                    printf("%s int %s %d %d ", table, name.c_str(), base, len);
                    prv(v);
                    fputs(" => ", stdout);
                    call(len, [&](char* f, char* l) { return cnl::to_chars(f, l, x, base); });
                }
            }
            // fixed-capacity variants
            printf("%s fix %s ", table, name.c_str());
            prv(v);
            fputs(" => ", stdout);
            char* first = prepare(std::max(cap, 0));
            int rc = sigsetjmp(jb, 1);
            if (rc == 0) {
                arm(1500);
                vh::armed = 1;
                auto st = cnl::to_chars_static(x);
                std::string s = std::string(std::string_view(st));
                std::ostringstream os;
                {
                    using cnl::operator<<;
                    os << x;
                }
                std::to_chars_result r = cnl::to_chars(first, first + std::max(cap, 0), x);
                vh::armed = 0;
                arm(0);
                printf("%d:", st.length);
                enc(st.chars.data(), st.chars.size());
                putchar('|');
                enc(s.data(), s.size());
                putchar('|');
                std::string o = os.str();
                enc(o.data(), o.size());
                putchar('|');
                dump(r, first, std::max(cap, 0));
                putchar('\n');
            } else
                failed(rc);
            (..., (printf("%s fixb %s %d ", table, name.c_str(), Bases), prv(v), fputs(" => ", stdout), fixb_run<Bases>(x)));
        }
    }

    ////////////////////////////////////////////////////////////////////////////////
    // value sets

    // all values of an 8-bit type; a seeded subsample (plus the boundary lattice) of a 16-bit type unless `full`
    template<class T>
    std::vector<T> small_vals(Rng& rng, bool full, int keep_one_in)
    {
        if constexpr (sizeof(T) == 1)
            return all_vals<T>();
        else {
            if (full) return all_vals<T>();
            std::vector<T> v = vals<T>(rng, 0, 1);
            for (T x : all_vals<T>())
                if (rng.below(keep_one_in) == 0) v.push_back(x);
            return v;
        }
    }

    // powers of five and ten and their neighbours: significands that are out of headroom yet "short"
    template<class T>
    void add_decimal_corners(std::vector<T>& v)
    {
        using W = std::conditional_t<std::is_signed_v<T> || std::is_same_v<T, I>, I, U>;
        W const hi = W(std::numeric_limits<T>::max());
        for (W b : {W(5), W(10)}) {
            W p = 1;
            while (p <= hi / b) {
                p *= b;
                for (int d = -1; d <= 1; ++d) {
                    push_unique(v, T(p + d));
                    if constexpr (std::is_signed_v<T> || std::is_same_v<T, I>) push_unique(v, T(-(p + d)));
                }
            }
        }
    }

    inline void on_vtalrm(int)
    {
        if (!vh::armed) return;  // the timer fired after the call had returned
        siglongjmp(jb, SIGALRM);
    }

    inline void init()
    {
        install();
        struct sigaction sa;
        memset(&sa, 0, sizeof sa);
        sa.sa_handler = on_vtalrm;
        sa.sa_flags = SA_NODEFER;
        sigaction(SIGVTALRM, &sa, nullptr);
        if (char const* t = getenv("VH_TABLE")) table = t;
    }
}


// capacities of wide integer types over a sweep of digit counts (compile-time constants of the headers)
template<int D>
void wide_cap_one(char const* table)
{
    printf("%s capw %d s => %d\n", table, D, int(cnl::_impl::to_chars_capacity<cnl::wide_integer<D, int>>{}()));
    printf("%s capw %d u => %d\n", table, D, int(cnl::_impl::to_chars_capacity<cnl::wide_integer<D, unsigned>>{}()));
    // ... and in every other base
    for (int base = 2; base <= 36; ++base) {
        printf("%s capwb %d s %d => %d\n", table, D, base, int(cnl::_impl::to_chars_capacity<cnl::wide_integer<D, int>>{}(base)));
        printf("%s capwb %d u %d => %d\n", table, D, base, int(cnl::_impl::to_chars_capacity<cnl::wide_integer<D, unsigned>>{}(base)));
    }
}
template<int Lo, int... Is>
void wide_caps_seq(char const* table, std::integer_sequence<int, Is...>)
{
    (wide_cap_one<Lo + Is>(table), ...);
}
template<int Lo, int N>
void wide_caps(char const* table)
{
    wide_caps_seq<Lo>(table, std::make_integer_sequence<int, N>{});
}
