"""C20 — exp2 and the <numbers> constants of scaled_integer.

generate(ctx): prints, with the real compiler from the real headers, (a) the exp2 polynomial coefficients after
`rounding_conversion` for every rep width, (b) the `std::numbers` constants stored in scaled_integer<Rep, power<E>> over a
fixed (Rep, E) grid and the long double constants they are converted from; writes them as Lean literals to
lean/CnlModel/Generated/{Exp2Coeffs,Numbers}.lean (only when the content changes).  Lean then re-checks, by kernel
evaluation, that the tables equal what it derives itself from the header's decimal literals / from the conversion rule.

tus(tier, seed): every input of the listed 8/16-bit formats, dense seeded sweeps of 32-bit formats (all exponents that
leave an integer bit, stratified by seed), the constants grid (8..64-bit reps, every admissible exponent).
"""
import os
import random
import subprocess
import sys

HERE = os.path.dirname(os.path.abspath(__file__))
CT = {'i8': 'std::int8_t', 'u8': 'std::uint8_t', 'i16': 'std::int16_t', 'u16': 'std::uint16_t',
      'i32': 'std::int32_t', 'u32': 'std::uint32_t', 'i64': 'std::int64_t', 'u64': 'std::uint64_t'}
BITS = {'i8': 8, 'u8': 8, 'i16': 16, 'u16': 16, 'i32': 32, 'u32': 32, 'i64': 64, 'u64': 64}


def digits(t):
    return BITS[t] - (1 if t[0] == 'i' else 0)


# constant -> number of integer digits it needs
CONSTS = {'e': 2, 'log2e': 1, 'log10e': 0, 'pi': 2, 'inv_pi': 0, 'inv_sqrtpi': 0, 'ln2': 0, 'ln10': 2,
          'sqrt2': 1, 'sqrt3': 1, 'inv_sqrt3': 0, 'egamma': 0, 'phi': 1}
CONST_ORDER = ['e', 'log2e', 'log10e', 'pi', 'inv_pi', 'inv_sqrtpi', 'ln2', 'ln10', 'sqrt2', 'sqrt3', 'inv_sqrt3', 'egamma', 'phi']


def const_grid():
    """(constant, type, exponent): every exponent from 'all integer' (0) down to the last one that still holds the
    constant, thinned for the wide types (every 3rd / 5th exponent plus the extremes)."""
    out = []
    for c in CONST_ORDER:
        for t in CT:
            lo = -(digits(t) - CONSTS[c])           # most fractional bits that still hold the constant
            es = list(range(lo, 1))
            if BITS[t] == 32:
                es = [e for e in es if e in (lo, lo + 1, -1, 0) or e % 3 == 0]
            if BITS[t] == 64:
                es = [e for e in es if e in (lo, lo + 1, lo + 2, -1, 0) or e % 5 == 0]
            for e in es:
                out.append((c, t, e))
    return out


def write_if_changed(path, text):
    os.makedirs(os.path.dirname(path), exist_ok=True)
    old = open(path).read() if os.path.exists(path) else None
    if old != text:
        with open(path + '.tmp', 'w') as fh:
            fh.write(text)
        os.replace(path + '.tmp', path)
        return True
    return False


def gen_tu():
    src = '#include "%s"\n#include <cmath>\n' % os.path.join(HERE, 'C20.h')
    src += '''
template<class U> void coeffs(int w) {
    using fp = scaled_integer<U, power<-std::numeric_limits<U>::digits>>;
    using c = cnl::_impl::fp::poly_coeffs<fp>;
    printf("COEFF %d", w);
    for (auto v : {c::a1, c::a2, c::a3, c::a4, c::a5, c::a6, c::a7}) { putchar(' '); prv(_impl::to_rep(v)); }
    putchar('\\n');
}
void ld(char const* name, long double v) {
    int e; long double m = frexpl(v, &e);            // v = m * 2^e, 0.5 <= m < 1
    unsigned long long mant = (unsigned long long)ldexpl(m, 64);
    printf("LD %s %llu %d\\n", name, mant, e - 64);
}
int main() {
    static_assert(std::numeric_limits<long double>::digits == 64);
    coeffs<std::uint8_t>(8); coeffs<std::uint16_t>(16); coeffs<std::uint32_t>(32); coeffs<std::uint64_t>(64);
'''
    for c in CONST_ORDER:
        src += '    ld("%s", std::numbers::%s_v<long double>);\n' % (c, c)
    for (c, t, e) in const_grid():
        src += '    NUM(%s, %s, %d)\n' % (c, CT[t], e)
    src += '}\n'
    return dict(name='C20_generate', src=src, compiler='g++', compile_timeout=1800)


def generate(ctx):
    tu = gen_tu()
    binp, diag = ctx['compile_tu'](tu, ctx['inc_hash'])
    gdir = os.path.join(ctx['lean'], 'CnlModel', 'Generated')
    if binp is None:
        # the extractor no longer compiles against the tree: leave the committed tables in place (the correspondence
        # sweep then shows any divergence) and say so
        sys.stderr.write('[C20] generator TU does not compile against the working tree:\n' + diag[-1500:] + '\n')
        return {'equations': 0, 'generator': 'does-not-compile'}
    rc, out, err = ctx['run_tu'](binp, tu, 0, 1)
    if rc != 0:
        sys.stderr.write('[C20] generator TU failed to run\n' + err[-1500:] + '\n')
        return {'equations': 0, 'generator': 'failed'}
    coeffs, lds, nums = [], [], []
    for line in out.split('\n'):
        p = line.split()
        if not p:
            continue
        if p[0] == 'COEFF':
            coeffs.append((int(p[1]), [int(x) for x in p[2:]]))
        elif p[0] == 'LD':
            lds.append((p[1], int(p[2]), int(p[3])))
        elif p[0] == 'C20' and p[1] == 'num':
            nums.append((p[2], p[3], int(p[4]), int(p[6])))
    head = ('/-!\n# GENERATED by harness/props/C20.py (`generate`) from /repo/include on every run — do not edit.\n%s\n-/\n'
            'namespace Cnl.Generated\n\n')
    t1 = head % '`poly_coeffs<scaled_integer<uW, power<-W>>>::a1..a7` as printed by the real compiler, per width W.'
    t1 += 'def exp2Coeffs : List (Nat × List Nat) :=\n  [' + ',\n   '.join('(%d, [%s])' % (w, ', '.join(map(str, cs))) for w, cs in coeffs) + ']\n'
    t1 += '\nend Cnl.Generated\n'
    t2 = head % ('`std::numbers::X_v<long double>` as mantissa · 2^exponent, and the representation stored in\n'
                 '`std::numbers::X_v<scaled_integer<Rep, power<E>>>` as (signed 0/1, bits, −E, rep) per constant, printed by the real compiler.')
    t2 += 'def ldConsts : List (String × Nat × Int) :=\n  [' + ',\n   '.join('("%s", %d, %d)' % x for x in lds) + ']\n\n'
    # one definition per constant (a single 1400-entry literal is too heavy for the elaborator);
    # entry = (signed as 0/1, bits, number of fractional bits −E, stored representation)
    for cname in CONST_ORDER:
        ents = [(t, e, r) for (c, t, e, r) in nums if c == cname]
        t2 += 'def numbers_%s : List (Nat × Nat × Nat × Nat) :=\n  [' % cname + ',\n   '.join(
            '(%d, %d, %d, %d)' % (1 if t[0] == 'i' else 0, BITS[t], -e, r) for (t, e, r) in ents) + ']\n\n'
    t2 += 'def numbers : List (String × List (Nat × Nat × Nat × Nat)) :=\n  [' + ', '.join('("%s", numbers_%s)' % (c, c) for c in CONST_ORDER) + ']\n'
    t2 += '\nend Cnl.Generated\n'
    ch1 = write_if_changed(os.path.join(gdir, 'Exp2Coeffs.lean'), t1)
    ch2 = write_if_changed(os.path.join(gdir, 'Numbers.lean'), t2)
    # thorough tier: also build the thorough-only kernel tables (check.py builds CnlProperties.C20 only)
    info = {'equations': len(coeffs) + len(lds) + 2, 'coefficient_tables': len(coeffs), 'constants': len(nums),
            'rewritten': [n for n, c in (('Exp2Coeffs', ch1), ('Numbers', ch2)) if c]}
    return info


def exp_formats(tier, seed):
    """exhaustive 8/16-bit formats and sampled 32-bit formats"""
    rnd = random.Random(seed * 104729 + 20)
    small = []
    for t in ('u8', 'i8'):
        for e in range(-(digits(t) - 1), 3):
            small.append((t, e))
    fixed16 = [('u16', -15), ('i16', -8), ('u16', -8), ('i16', -14), ('u16', -12), ('i16', -1), ('u16', 0), ('i16', 2)]
    rest16 = [(t, e) for t in ('u16', 'i16') for e in range(-(digits(t) - 1), 3) if (t, e) not in fixed16]
    rnd.shuffle(rest16)
    n16 = 4 if tier == 'quick' else len(rest16)
    f16 = fixed16 + rest16[:n16]
    # always present: unsigned 32-bit reps with negative exponents (the sign-compare class, repaired) and signed reps with positive
    # exponents (negative inputs lie below the range of Rep: the floor-wraps class, repaired)
    fixed32 = [('i32', -16), ('u32', -16), ('i32', -30), ('u32', -31), ('i32', -1), ('i32', 0), ('u32', 0), ('i32', 3), ('u32', 2),
               ('i32', -24), ('i32', -8), ('u32', -24), ('u32', -8), ('u32', -1), ('i32', 1)]
    rest32 = [(t, e) for t in ('u32', 'i32') for e in range(-(digits(t) - 1), 4) if (t, e) not in fixed32]
    rnd.shuffle(rest32)
    n32 = 10 if tier == 'quick' else len(rest32)
    f32 = fixed32 + rest32[:n32]
    f64 = [('i64', -32), ('u64', -40), ('i64', 1)]
    return small, f16, f32, f64


def tus(tier, seed):
    small, f16, f32, f64 = exp_formats(tier, seed)
    hdr = '#include "%s"\n' % os.path.join(HERE, 'C20.h')
    res = []

    def tu(name, body, compiler='g++'):
        res.append(dict(name=name, src=hdr + 'int main(){ install(); Rng rng(seed_from_env()*1000003ull + %d);\n%s}\n' % (len(res), body),
                        compiler=compiler, run_timeout=1200))

    tu('C20_small8', ''.join('  sweep_all<%s, %d>();\n' % (CT[t], e) for t, e in small))
    for i in range(0, len(f16), 2):
        tu('C20_all16_%d' % (i // 2), ''.join('  sweep_all<%s, %d>();\n' % (CT[t], e) for t, e in f16[i:i + 2]))
    n = 12000 if tier == 'quick' else 60000
    per = 3
    for i in range(0, len(f32), per):
        tu('C20_rand32_%d' % (i // per), ''.join('  sweep_rand<%s, %d>(rng, %d);\n' % (CT[t], e, n) for t, e in f32[i:i + per]))
    tu('C20_rand64', ''.join('  sweep_rand<%s, %d>(rng, %d);\n' % (CT[t], e, 2000) for t, e in f64))
    grid = const_grid()
    chunk = 400
    for i in range(0, len(grid), chunk):
        tu('C20_num_%d' % (i // chunk), ''.join('  NUM(%s, %s, %d)\n' % (c, CT[t], e) for c, t, e in grid[i:i + chunk]))
    if tier == 'thorough':
        tu('C20_small8_clang', ''.join('  sweep_all<%s, %d>();\n' % (CT[t], e) for t, e in small), 'clang++')
        tu('C20_all16_clang', ''.join('  sweep_all<%s, %d>();\n' % (CT[t], e) for t, e in f16[:2]), 'clang++')
        tu('C20_rand32_clang', ''.join('  sweep_rand<%s, %d>(rng, %d);\n' % (CT[t], e, n) for t, e in f32[:4]), 'clang++')
        tu('C20_num_clang', ''.join('  NUM(%s, %s, %d)\n' % (c, CT[t], e) for c, t, e in grid[:300]), 'clang++')
    return res


EXHAUSTIVE = True
THOROUGH_SCALE = 4
RULE = ("exp2: EVERY representation value of every listed 8-bit format (all exponents from 'one integer bit' to +2) and of the "
        "listed 16-bit formats; 32-bit formats: boundary lattice, every integral input and its neighbours, dense seeded random "
        "(uniform / short / per-integer-part / near-integral).  constants: every (constant, Rep, E) of the grid (8..64-bit reps, "
        "every exponent that holds the constant for 8/16-bit, thinned for 32/64-bit).  non-trivial = the true result is "
        "representable in the format (the property's own guard); duplicates counted once")
TRUSTED = ["rational enclosures of 2^(2^-i) certified by a chain of integer squarings (kernel-checked)",
           "60-digit decimal references for the transcendental constants (cross-checked with mpmath when the tooling venv is present)"]
ASSUMPTIONS = ["long double is the x87 80-bit format (static_assert in the generator)",
               "the series fall-backs of numbers.h (pi(), e()) are unreachable for reps of at most 64 bits that can hold the constant (theorem); they are not modelled"]
