"""C05 — elastic_integer never overflows.  Grid: (LhsDigits, LhsNarrowest, RhsDigits, RhsNarrowest)."""
import random

CT = {'i8': 'std::int8_t', 'u8': 'std::uint8_t', 'i16': 'std::int16_t', 'u16': 'std::uint16_t',
      'i32': 'std::int32_t', 'u32': 'std::uint32_t', 'i64': 'std::int64_t', 'u64': 'std::uint64_t'}
DIGITS = [1, 2, 3, 5, 6, 7, 8, 9, 15, 16, 17, 24, 30, 31, 32, 33, 40, 47, 62, 63]


def ok(dl, nl, dr, nr):
    # results must fit the widest integer: add needs max+1 <= 127; mul needs sum <= 127
    return dl + dr <= 126


def grid(tier, seed):
    rnd = random.Random(seed * 104729 + 5)
    fixed = [(40, 'i32', 10, 'i32'), (10, 'i32', 40, 'i32'), (5, 'u8', 5, 'u8'), (62, 'u32', 30, 'u64'), (3, 'i8', 4, 'u8'),
             (1, 'i32', 1, 'u32'), (31, 'i32', 31, 'i32'), (63, 'i64', 63, 'u64'), (6, 'u8', 6, 'i8'), (16, 'u16', 7, 'i8')]
    n = 38 if tier == 'quick' else 200
    out = list(fixed)
    while len(out) < n:
        dl, dr = rnd.choice(DIGITS), rnd.choice(DIGITS)
        if rnd.random() < 0.3:
            dl, dr = rnd.randint(1, 6), rnd.randint(1, 6)
        nl, nr = rnd.choice(list(CT)), rnd.choice(list(CT))
        c = (dl, nl, dr, nr)
        if ok(*c) and c not in out:
            out.append(c)
    return out


def tus(tier, seed):
    combos = grid(tier, seed)
    rnd = random.Random(seed + 99)
    per = 2
    res = []
    for i in range(0, len(combos), per):
        body = '#include "%s"\nint main(){ install(); Rng rng(seed_from_env()+%d);\n' % (__file__.replace('.py', '.h'), i)
        for (dl, nl, dr, nr) in combos[i:i + per]:
            body += '  bin<%d, %s, %d, %s>(rng);\n' % (dl, CT[nl], dr, CT[nr])
            k = rnd.choice([1, 2, 3, 5, 8])
            if dl + k <= 120:
                body += '  un<%d, %s, %d>(rng);\n' % (dl, CT[nl], k)
        body += '}\n'
        res.append(dict(name='C05_%d' % (i // per), src=body, compiler='g++'))
        if tier == 'thorough' and (i // per) % 5 == 0:
            res.append(dict(name='C05_%d_clang' % (i // per), src=body, compiler='clang++'))
    # unary minus / shifts by a constant at digit counts that exactly fill the storage type (always)
    body = '#include "%s"\nint main(){ install(); Rng rng(seed_from_env()+4242);\n' % (__file__.replace('.py', '.h'))
    for (d, n, k) in [(8, 'u8', 1), (16, 'u16', 2), (32, 'u32', 3), (64, 'u64', 5), (32, 'u8', 1), (16, 'u8', 8), (64, 'u32', 8),
                      (7, 'i8', 1), (15, 'i16', 2), (31, 'i32', 3), (63, 'i64', 5), (31, 'i8', 4), (63, 'i32', 1), (33, 'u32', 2)]:
        body += '  un<%d, %s, %d>(rng);\n' % (d, CT[n], k)
    body += '}\n'
    res.append(dict(name='C05_unary_full', src=body, compiler='g++'))
    return res


RULE = ("per compiled (LhsDigits, LhsNarrowest, RhsDigits, RhsNarrowest): all operand values when digits <= 6, otherwise the boundary "
        "lattice of the declared range plus seeded random values; non-trivial = operands inside their declared ranges and divisor non-zero")
