"""C05 — elastic_integer never overflows.  Grid: (LhsDigits, LhsNarrowest, RhsDigits, RhsNarrowest)."""
import random

CT = {'i8': 'std::int8_t', 'u8': 'std::uint8_t', 'i16': 'std::int16_t', 'u16': 'std::uint16_t',
      'i32': 'std::int32_t', 'u32': 'std::uint32_t', 'i64': 'std::int64_t', 'u64': 'std::uint64_t'}
DIGITS = [1, 2, 3, 5, 6, 7, 8, 9, 15, 16, 17, 24, 30, 31, 32, 33, 40, 47, 62, 63]


def ok(dl, nl, dr, nr):
    # results must fit the widest integer: add needs max+1 <= 127; mul needs sum <= 127
    return dl + dr <= 126


def grid(tier, seed):
    rnd = random.Random(seed * 104729 + 5)
    fixed = [(40, 'i32', 10, 'i32'), (10, 'i32', 40, 'i32'), (5, 'u8', 5, 'u8'), (62, 'u32', 30, 'u64'), (3, 'i8', 4, 'u8'),
             (1, 'i32', 1, 'u32'), (31, 'i32', 31, 'i32'), (63, 'i64', 63, 'u64'), (6, 'u8', 6, 'i8'), (16, 'u16', 7, 'i8')]
    n = 38 if tier == 'quick' else 200
    out = list(fixed)
    while len(out) < n:
        dl, dr = rnd.choice(DIGITS), rnd.choice(DIGITS)
        if rnd.random() < 0.3:
            dl, dr = rnd.randint(1, 6), rnd.randint(1, 6)
        nl, nr = rnd.choice(list(CT)), rnd.choice(list(CT))
        c = (dl, nl, dr, nr)
        if ok(*c) and c not in out:
            out.append(c)
    return out


def tus(tier, seed):
    combos = grid(tier, seed)
    rnd = random.Random(seed + 99)
    per = 2
    res = []
    for i in range(0, len(combos), per):
        body = '#include "%s"\nint main(){ install(); Rng rng(seed_from_env()+%d);\n' % (__file__.replace('.py', '.h'), i)
        for (dl, nl, dr, nr) in combos[i:i + per]:
            body += '  bin<%d, %s, %d, %s>(rng);\n' % (dl, CT[nl], dr, CT[nr])
            k = rnd.choice([1, 2, 3, 5, 8])
            if dl + k <= 120:
                body += '  un<%d, %s, %d>(rng);\n' % (dl, CT[nl], k)
        body += '}\n'
        res.append(dict(name='C05_%d' % (i // per), src=body, compiler='g++'))
        if tier == 'thorough' and (i // per) % 5 == 0:
            res.append(dict(name='C05_%d_clang' % (i // per), src=body, compiler='clang++'))
    # unary minus / shifts by a constant at digit counts that exactly fill the storage type (always)
    body = '#include "%s"\nint main(){ install(); Rng rng(seed_from_env()+4242);\n' % (__file__.replace('.py', '.h'))
    for (d, n, k) in [(8, 'u8', 1), (16, 'u16', 2), (32, 'u32', 3), (64, 'u64', 5), (32, 'u8', 1), (16, 'u8', 8), (64, 'u32', 8),
                      (7, 'i8', 1), (15, 'i16', 2), (31, 'i32', 3), (63, 'i64', 5), (31, 'i8', 4), (63, 'i32', 1), (33, 'u32', 2),
                      (40, 'i32', 31), (40, 'i32', 32), (64, 'i32', 63), (64, 'i64', 63), (64, 'u32', 63), (63, 'i32', 31), (33, 'u32', 32), (20, 'i8', 7), (20, 'i16', 15), (20, 'u8', 8)]:
        body += '  un<%d, %s, %d>(rng);\n' % (d, CT[n], k)
    body += '}\n'
    res.append(dict(name='C05_unary_full', src=body, compiler='g++'))
    # elastic_scaled_integer pairs with different exponents; scale<-K> of the elastic representation
    es = [(20, 'i32', -20, 20, 'i32', 0), (20, 'i32', 0, 20, 'i32', -20), (12, 'u8', -12, 4, 'u8', 0), (7, 'i8', -3, 9, 'i16', 5),
          (31, 'i32', -31, 31, 'i32', 0), (10, 'u32', 4, 40, 'i64', -30), (5, 'i8', 0, 5, 'u8', 0), (40, 'i32', -31, 9, 'i32', 0)]
    rnd3 = random.Random(seed * 17 + 3)
    for _ in range(4 if tier == 'quick' else 40):
        dl, dr = rnd3.choice([3, 7, 8, 15, 16, 20, 31, 32, 40]), rnd3.choice([3, 7, 8, 15, 16, 20, 31, 32, 40])
        el, er = rnd3.randint(-33, 33), rnd3.randint(-33, 33)
        if dl + dr + abs(el - er) <= 120:
            es.append((dl, rnd3.choice(list(CT)), el, dr, rnd3.choice(list(CT)), er))
    dn = [(40, 'i32', 31), (40, 'i32', 32), (70, 'i32', 63), (70, 'i64', 63), (70, 'i64', 64), (33, 'u32', 31), (33, 'u32', 32), (20, 'i8', 7),
          (20, 'i16', 15), (20, 'i8', 8), (20, 'u8', 8), (10, 'i32', 10), (10, 'i32', 3), (100, 'u64', 63), (100, 'i8', 64), (127, 'i32', 100)]
    for i in range(0, len(es), 3):
        body = '#include "%s"\nint main(){ install(); Rng rng(seed_from_env()+8000+%d);\n' % (__file__.replace('.py', '.h'), i)
        for (dl, nl, el, dr, nr, er) in es[i:i + 3]:
            body += '  sbin<%d, %s, %d, %d, %s, %d>(rng);\n' % (dl, CT[nl], el, dr, CT[nr], er)
        if i == 0:
            for (d, n, k) in dn:
                body += '  scaledn<%d, %s, %d>(rng);\n' % (d, CT[n], k)
        body += '}\n'
        res.append(dict(name='C05_scaled_%d' % (i // 3), src=body, compiler='g++'))
    # results that need multi-word (wide_integer) storage, digit counts at exact multiples of the limb width included
    xhdr = __file__.replace('C05.py', 'C05x.h')
    xs = [(80, 'i32', 80, 'i32'), (96, 'i32', 96, 'i32'), (64, 'i32', 64, 'u32'), (159, 'i32', 159, 'i32'), (160, 'u32', 160, 'u32'), (127, 'i32', 1, 'i32'),
          (100, 'u32', 100, 'i32'), (128, 'i64', 64, 'i64')]
    for i in range(0, len(xs), 2):
        body = '#include "%s"\nint main(){ install(); Rng rng(seed_from_env()+9000+%d);\n' % (xhdr, i)
        for (dl, nl, dr, nr) in xs[i:i + 2]:
            body += '  xbin<%d, %s, %d, %s>(rng);\n' % (dl, CT[nl], dr, CT[nr])
        body += '}\n'
        res.append(dict(name='C05_wide_%d' % (i // 2), src=body, compiler='g++'))
    # `/` and `%` carried out in multi-word storage (operand type of 128+ digits): divisors of 1, 2, 3, ... limbs of
    # 8/16/32/64 bits, every sign combination, dividend smaller than / equal to / a multiple of the divisor, Knuth
    # add-back operands at several divisor lengths and quotient positions, and the identity (n/d)*d + n%d == n
    xd = [(150, 'i32', 150, 'i32'), (200, 'i32', 100, 'i32'), (100, 'i32', 200, 'i32'), (160, 'u32', 160, 'u32'), (256, 'i64', 192, 'i64'),
          (136, 'i8', 136, 'u8'), (140, 'i16', 130, 'i16'), (320, 'i32', 320, 'u32'), (128, 'i32', 128, 'i32'), (127, 'i32', 128, 'u32'),
          (300, 'u64', 260, 'i64'), (200, 'u16', 144, 'u16')]
    rnd4 = random.Random(seed * 7919 + 11)
    for _ in range(2 if tier == 'quick' else 16):
        w = rnd4.choice([8, 16, 32, 32, 64])
        dl, dr = rnd4.choice([128, 129, 150, 159, 160, 191, 192, 200, 224, 255, 256, 257, 300]), rnd4.choice([40, 64, 96, 127, 128, 130, 160, 191, 192, 200, 256, 288])
        if w == 8:
            dl, dr = min(dl, 200), min(dr, 160)
        xd.append((dl, rnd4.choice('iu') + str(w), dr, rnd4.choice('iu') + str(w)))
    for i, (dl, nl, dr, nr) in enumerate(xd):
        body = '#include "%s"\nint main(){ install(); Rng rng(seed_from_env()+9500+%d);\n' % (xhdr, i)
        body += '  xdiv<%d, %s, %d, %s>(rng);\n}\n' % (dl, CT[nl], dr, CT[nr])
        res.append(dict(name='C05_widediv_%d' % i, src=body, compiler='g++'))
    # elastic_integer combined directly with built-in integers (from_value of a built-in operand)
    mixed = [(8, 'u32', 'i32'), (8, 'u8', 'i8'), (20, 'i32', 'u32'), (40, 'u64', 'i64'), (10, 'i16', 'u8'), (31, 'i32', 'i64'), (5, 'u16', 'i32')]
    rnd2 = random.Random(seed * 31 + 7)
    for _ in range(3 if tier == 'quick' else 20):
        mixed.append((rnd2.choice([3, 8, 16, 24, 33, 50]), rnd2.choice(list(CT)), rnd2.choice(list(CT))))
    for i in range(0, len(mixed), 4):
        body = '#include "%s"\nint main(){ install(); Rng rng(seed_from_env()+7000+%d);\n' % (__file__.replace('.py', '.h'), i)
        for (d, n, t) in mixed[i:i + 4]:
            body += '  binm<%d, %s, %s>(rng);\n' % (d, CT[n], CT[t])
        body += '}\n'
        res.append(dict(name='C05_mixed_%d' % (i // 4), src=body, compiler='g++'))
    # elastic_scaled_integer meeting a cnl::constant operand (either side, * / + -): significands (trailing zero bits removed) of
    # exactly 1..31, 32, 33, 62, 63 bits, either sign, with and without trailing zeros
    res += sconst_tus(tier, seed)
    return res


def sconst_ops(d, n, e, v):
    """which operators can be instantiated for elastic_scaled_integer<d, n, e> and constant<v> (bit 1 `*`, 2 `+ -`, 4 `/`)"""
    a = abs(v)
    tz = (a & -a).bit_length() - 1 if a else 0
    used = (v if v >= 0 else -1 - v).bit_length()
    need = max(31, used - tz)
    td = 31 if need <= 31 else 63 if need <= 63 else 127
    sig = (a >> tz).bit_length()
    ops = 0
    if d + td <= 127:
        ops |= 1 | 4
    elif max(d, td) <= 127:
        ops |= 0
    if tz > e:
        k = tz - e
        if sig + k <= td and max(d, td) + 1 <= 127:
            ops |= 2
    else:
        if max(d + (e - tz), td) + 1 <= 127:
            ops |= 2
    return ops


def sconst_tus(tier, seed):
    rnd = random.Random(seed * 613 + 29)
    consts = [3, -5, 1024, 4294967295, 0x80000001, -4294967295, 0xFFFFFFFF00, 0x100000001, -0x100000003, 0x7fffffff00000000,
              0x7fffffff, -0x7fffffff, 0x80000000, -0x80000000, -(1 << 32), 0xFFFFFFFF << 31, 0x1FFFFFFFF, 3000000001, 0x7fffffffffffffff,
              -0x7fffffffffffffff, 0x4000000000000001, 0x3fffffffffffffff, 0x600000002, (1 << 62) + (1 << 31), 0xFFFFFFFE00000000 >> 1]
    for bits in [31, 32, 32, 33, 62, 63, 63] * (1 if tier == 'quick' else 6):
        sgn = rnd.choice([1, -1])
        sig = (1 << (bits - 1)) | rnd.getrandbits(bits - 1) | 1
        consts.append(sgn * (sig << rnd.choice([0, 0, 1, 7, 63 - bits])))
    lhs = [(8, 'i32', -4), (8, 'u8', -4), (40, 'i32', -4), (50, 'i64', -4), (15, 'i16', 0), (31, 'i32', -31), (7, 'i8', 8), (20, 'u32', 3), (63, 'i64', -10)]
    items = []
    for i, v in enumerate(consts):
        picks = [lhs[i % len(lhs)], rnd.choice(lhs)]
        if tier != 'quick':
            picks.append((rnd.choice([3, 8, 16, 24, 33, 60]), rnd.choice(list(CT)), rnd.randint(-20, 20)))
        for (d, n, e) in picks:
            ops = sconst_ops(d, n, e, v)
            if ops and (d, n, e, v, ops) not in items:
                items.append((d, n, e, v, ops))
    res = []
    per = 6
    for i in range(0, len(items), per):
        body = '#include "%s"\nint main(){ install(); Rng rng(seed_from_env()+6000+%d);\n' % (__file__.replace('.py', '.h'), i)
        for (d, n, e, v, ops) in items[i:i + per]:
            vs = ('I(%d)' % v) if abs(v) < (1 << 63) else ('(I(%d) * I(%d) + I(%d))' % (v >> 32 if v >= 0 else -((-v) >> 32), 1 << 32, (v & 0xFFFFFFFF) if v >= 0 else -((-v) & 0xFFFFFFFF)))
            body += '  sconst<%d, %s, %d, %s, %d>(rng);\n' % (d, CT[n], e, vs, ops)
        body += '}\n'
        res.append(dict(name='C05_const_%d' % (i // per), src=body, compiler='g++'))
    return res


RULE = ("per compiled (LhsDigits, LhsNarrowest, RhsDigits, RhsNarrowest): all operand values when digits <= 6, otherwise the boundary "
        "lattice of the declared range plus seeded random values; / and % in multi-word storage (8/16/32/64-bit limbs): divisors of 1, 2, 3, ... limbs "
        "(top limb 1 / ~0 / 100.. / 011.. / random), dividends q*d, q*d-1, q*d+(d-1), d-1, d, d+1, 2d-1, shorter than the divisor, Knuth add-back "
        "operands at every divisor length and quotient position that fits, all four sign combinations, plus (n/d)*d + n%d == n; "
        "non-trivial = operands inside their declared ranges and divisor non-zero")
