"""C14 — text output denotes the value.  Runs the translation units of C13 (same calls, same binaries)
with VH_TABLE=C14, so that the driver applies the value oracle (CnlSpec.Decimal) instead of the buffer contract."""
import C13 as _c13


def tus(tier, seed):
    return _c13.tus_for('C14', tier, seed)


THOROUGH_SCALE = _c13.THOROUGH_SCALE
EXHAUSTIVE = True
RULE = _c13.RULE
ASSUMPTIONS = _c13.ASSUMPTIONS
TRUSTED = _c13.TRUSTED
