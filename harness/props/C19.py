"""C19 — cnl::sqrt returns the floor of the square root.

Instantiation grid: built-in integers of every width; elastic_integer<D, N>; wide_integer<D, N> (single- and
multi-word storage); scaled_integer<Rep, power<e, radix>> for every even e in [-60, 60] over built-in, elastic and wide
representations; overflow_integer<Rep, Tag> for every checked tag (trapping, throwing, saturated, undefined) over built-in,
wide_integer (unsigned / signed, single- / multi-word) and rounding_integer representations, plain rounding_integer<Rep>,
scaled_integer over overflow_integer.  Fixed corner cases are always present; the rest of the grid varies with the seed.
"""
import random

HDR = __file__.replace('.py', '.h')
CT = {'i8': 'std::int8_t', 'u8': 'std::uint8_t', 'i16': 'std::int16_t', 'u16': 'std::uint16_t',
      'i32': 'std::int32_t', 'u32': 'std::uint32_t', 'i64': 'std::int64_t', 'u64': 'std::uint64_t',
      'i128': '__int128', 'u128': 'unsigned __int128'}
BITS = {k: int(k[1:]) for k in CT}
NARROW = ['i8', 'u8', 'i16', 'u16', 'i32', 'u32', 'i64', 'u64']


def maxdig(n):
    return 127 if n[0] == 'i' else 128


def el(d, n):
    return 'elastic_integer<%d, %s>' % (d, CT[n])


def wd(d, n):
    return 'wide_integer<%d, %s>' % (d, CT[n])


def sc(rep, e, radix=2):
    return 'scaled_integer<%s, power<%d, %d>>' % (rep, e, radix)


OVTAG = {'trp': 'trapping_overflow_tag', 'thr': 'cnl::_impl::throwing_overflow_tag', 'sat': 'saturated_overflow_tag',
         'und': 'undefined_overflow_tag', 'nat': 'native_overflow_tag'}
RDMODE = {'nrst': 'nearest_rounding_tag', 'tpi': 'tie_to_pos_inf_rounding_tag', 'ninf': 'neg_inf_rounding_tag',
          'nat': 'native_rounding_tag'}


def ov(rep, tag):
    return 'overflow_integer<%s, %s>' % (rep, OVTAG[tag])


def rd(rep, mode='nrst'):
    return 'rounding_integer<%s, %s>' % (rep, RDMODE[mode])


def ov_grid(tier, seed, rnd):
    """overflow_integer<Rep, Tag> (and a few plain rounding_integer<Rep>): every checked tag over
    built-in reps of every width, wide_integer reps (unsigned and signed; single-word 32/64/128-bit and
    multi-word storage), rounding_integer reps over built-ins and wide_integer.  overflow_integer over a wide_integer
    whose Narrowest is 64 bits wide does not compile in the library (its overflow tests compare with a
    wide_integer<31, long> constant for which no comparison exists), so the wide reps use 8/16/32-bit Narrowest."""
    thorough = tier == 'thorough'
    checked = ['trp', 'thr', 'sat', 'und']
    reps = []
    # (a) unsigned representations that are not fundamental and do not widen on subtraction
    for d, n in [(32, 'u32'), (64, 'u32'), (128, 'u32'), (129, 'u32'), (200, 'u32'), (64, 'u16'), (256, 'u32'), (100, 'u8')]:
        reps.append(wd(d, n))
    reps += [rd(CT['u32']), rd(CT['u64'], 'tpi'), rd(wd(64, 'u32'), 'ninf'), rd(wd(200, 'u32'))]
    # (b) signed analogues
    for d, n in [(31, 'i32'), (63, 'i32'), (127, 'i32'), (128, 'i32'), (200, 'i32'), (40, 'i8')]:
        reps.append(wd(d, n))
    reps += [rd(CT['i32']), rd(CT['i64'], 'ninf'), rd(wd(63, 'i32'), 'tpi')]
    # fundamental representations of every width (narrow ones compute in overflow_integer<int>)
    reps += [CT[t] for t in ['u32', 'u64', 'i32', 'i64', 'u8', 'i8', 'u16', 'i16', 'u128', 'i128']]
    reps += [rd(CT['u16']), rd(CT['i8'], 'tpi')]
    for _ in range(3 if not thorough else 12):
        n = rnd.choice(['i32', 'u32'])
        d = rnd.choice([rnd.randint(20, maxdig(n)), rnd.randint(maxdig(n) + 1, 330)])
        reps.append(rnd.choice([wd(d, n), rd(wd(d, n), rnd.choice(['nrst', 'tpi', 'ninf']))]))
    reps = list(dict.fromkeys(reps))
    res = []
    for i, r in enumerate(reps):
        # every checked tag on the fixed corner representations of kinds (a); elsewhere two tags rotating with the seed
        tags = checked if (i < 12 or thorough) else [checked[(i + seed) % 4], checked[(i + seed + 1 + i // 4 % 2) % 4]]
        for t in tags:
            res.append((ov(r, t), 12, True))
    res.append((ov(wd(200, 'u32'), 'nat'), 12, True))
    res.append((ov(CT['u32'], 'nat'), 12, True))
    for r in [rd(CT['u32']), rd(wd(64, 'u32'), 'tpi'), rd(wd(200, 'u32'), 'ninf'), rd(CT['i16']), rd(wd(127, 'i32'))]:
        res.append((r, 12, True))
    # scaled_integer over a checked representation
    res.append((sc(ov(wd(64, 'u32'), 'trp'), -20), 12, True))
    res.append((sc(ov(wd(200, 'u32'), 'sat'), 8), 12, True))
    res.append((sc(ov(rd(CT['u32']), 'thr'), -30), 12, True))
    return res


def grid(tier, seed):
    """returns dict kind -> list of (C++ type, nrand, exhaustive16)"""
    rnd = random.Random(seed * 7919 + 19)
    thorough = tier == 'thorough'
    g = {'int_small': [], 'int_large': [], 'el': [], 'wd': [], 'sc': [], 'sc_el': [], 'sc_wd': []}
    for t in ['i8', 'u8', 'i16', 'u16']:
        g['int_small'].append((CT[t], 0, True))
    for t in ['i32', 'u32', 'i64', 'u64', 'i128', 'u128']:
        g['int_large'].append((CT[t], 500, True))

    # elastic_integer: odd and even digit counts, at and across the storage boundaries, every narrowest
    els = [(7, 'i8'), (8, 'u8'), (1, 'i8'), (2, 'u8'), (15, 'i16'), (16, 'u16'), (9, 'i8'), (12, 'u8'), (16, 'i8'), (31, 'i32'),
           (32, 'u32'), (17, 'i8'), (33, 'i32'), (32, 'i32'), (63, 'i32'), (64, 'u32'), (62, 'i64'), (64, 'i16'), (127, 'i32'),
           (128, 'u32'), (65, 'u16'), (100, 'u64')]
    for _ in range(10 if not thorough else 40):
        n = rnd.choice(NARROW)
        els.append((rnd.randint(1, maxdig(n)), n))
    seen = set()
    for d, n in els:
        if (d, n) not in seen:
            seen.add((d, n))
            g['el'].append((el(d, n), 120, True))

    # wide_integer: multi-word storage (32- and 64-bit limbs), and single-word storage of at least int width
    wds = [(200, 'i32'), (129, 'u32'), (128, 'i32'), (256, 'u32'), (255, 'i32'), (40, 'i32'), (100, 'u32'), (300, 'i64'), (64, 'u64'),
           (31, 'i32')]
    for _ in range(3 if not thorough else 10):
        n = rnd.choice(['i32', 'u32', 'i64', 'u64'])
        wds.append((rnd.randint(maxdig(n) + 1, 400), n))
    for d, n in dict.fromkeys(wds):
        g['wd'].append((wd(d, n), 60, True))

    # scaled_integer over built-in reps: every even exponent in [-60, 60]; rep and radix rotate with the seed
    reps = list(CT)
    exps = list(range(-60, 61, 2))
    for i, e in enumerate(exps):
        t = reps[(i + seed) % len(reps)]
        radix = 10 if (i + seed) % 7 == 3 else 3 if (i + seed) % 11 == 5 else 2
        g['sc'].append((sc(CT[t], e, radix), 40, False))
        if thorough:
            t2 = reps[(i + seed + 5) % len(reps)]
            g['sc'].append((sc(CT[t2], e, 2), 40, False))
    for t, e, radix in [('i16', -8, 2), ('u16', 8, 2), ('i32', -60, 2), ('u32', 60, 2), ('i64', -2, 10), ('u128', 0, 2), ('i8', -4, 2),
                        ('u8', 60, 2), ('i128', -60, 2), ('u64', 30, 2)]:
        g['sc'].append((sc(CT[t], e, radix), 200, True))
    # over elastic_integer and wide_integer representations
    scel = [(7, 'i8', -6), (16, 'u16', 4), (31, 'i32', -30), (40, 'i32', -20), (63, 'i64', 60), (100, 'u32', -60), (24, 'u8', 12), (127, 'i32', 2)]
    for _ in range(4 if not thorough else 16):
        n = rnd.choice(NARROW)
        scel.append((rnd.randint(1, maxdig(n)), n, 2 * rnd.randint(-30, 30)))
    for d, n, e in dict.fromkeys(scel):
        g['sc_el'].append((sc(el(d, n), e), 80, True))
    for d, n, e in [(200, 'i32', -40), (129, 'u32', 60)] + ([(300, 'i64', -60), (140, 'i32', 2)] if thorough else []):
        g['sc_wd'].append((sc(wd(d, n), e), 40, True))
    g['ov'] = ov_grid(tier, seed, rnd)
    return g


def tu_src(insts, base):
    body = '#include "%s"\nint main(){ install(); Rng rng(seed_from_env() * 1000003u + %du);\n' % (HDR, base)
    for ty, nrand, exh in insts:
        body += '  go<%s>(rng, %d, %s);\n' % (ty, nrand, 'true' if exh else 'false')
    body += '  alarm(0);\n}\n'
    return body


def chunks(xs, n):
    return [xs[i:i + n] for i in range(0, len(xs), n)]


def tus(tier, seed):
    g = grid(tier, seed)
    res = []
    per = {'int_small': 4, 'int_large': 3, 'el': 8, 'wd': 2, 'sc': 10, 'sc_el': 6, 'sc_wd': 1, 'ov': 8}
    base = 0
    for kind in ['int_small', 'int_large', 'el', 'wd', 'sc', 'sc_el', 'sc_wd', 'ov']:
        for i, ch in enumerate(chunks(g[kind], per[kind])):
            base += 1
            src = tu_src(ch, base)
            res.append(dict(name='C19_%s_%d' % (kind, i), src=src, compiler='g++', run_timeout=900))
            if tier == 'thorough' and (i % 3 == 0 or kind.startswith('int')):
                res.append(dict(name='C19_%s_%d_clang' % (kind, i), src=src, compiler='clang++', run_timeout=900))
    if tier == 'thorough':
        # exhaustive in-harness search over all non-negative int32 values and all uint32 values
        step = 1 << 28
        for ty, hi in (('std::int32_t', 1 << 31), ('std::uint32_t', 1 << 32)):
            for lo in range(0, hi, step):
                src = '#include "%s"\nint main(){ install(); sweep32<%s>(SWEEP_LO, SWEEP_HI); }\n' % (HDR, ty)
                res.append(dict(name='C19_sweep_%s_%d' % (ty[5:], lo // step), src=src, compiler='g++', opt='-O2',
                                defines=['SWEEP_LO=%dull' % lo, 'SWEEP_HI=%dull' % (lo + step)], run_timeout=2400))
    return res


THOROUGH_SCALE = 6
EXHAUSTIVE = True
RULE = ("per compiled instantiation: every value of types with at most 16 value digits (8/16-bit built-ins, elastic_integer up to 16 "
        "digits, scaled_integer over them in the fixed corner cases); otherwise small values, the top of the range, powers of two and "
        "neighbours, perfect squares k*k with k*k-1, k*k+1, k*k+k, (k+1)^2-1 for lattice roots, the largest root of the type and seeded "
        "random roots, and seeded random values of random bit length; a case is non-trivial when the input is a value the property "
        "quantifies over (non-negative, within the type's digits) and is at least 2; negative inputs (CNL_ASSERT) and representation "
        "values beyond an elastic/wide type's digits form a separate stream the oracle does not constrain; thorough tier adds an "
        "in-harness exhaustive search over all 2^31 non-negative int32 and all 2^32 uint32 values (supplementary, 64-bit check of "
        "r*r <= x < (r+1)*(r+1))")
TRUSTED = ["wide_integer arithmetic is taken as two's-complement arithmetic on its storage width (property C10); the multi-word "
           "instantiations are tied to the model by the same correspondence lines"]
ASSUMPTIONS = ["x >= 0 (documented precondition of cnl::sqrt; negative inputs reach CNL_ASSERT and are outside the property)",
               "elastic_integer / wide_integer inputs lie within the Digits of their type",
               "scaled_integer exponent is even (static_assert in the code)"]
