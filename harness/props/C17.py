"""C17 — fraction from floating point; plus the CF table that validates CnlModel/CFloat.lean.

CF translation units (floating-point core against the hardware, per format):
  arithmetic + comparisons, int<->float conversions for i8..u64 and the 128-bit types, float<->float.
make_fraction translation units: one per (component type, floating type) pair, CNL_DEBUG by default
(failed internal assertions are then visible as UNREACHABLE through the abort hook) and CNL_RELEASE
builds of the main pairs (where `unreachable()` reports through the hook).
make_fraction with CNL component types (`C17 mfw`): wide_integer (multi-word / single-word), overflow_integer (all reporting
tags, built-in and wide representations), elastic_integer, rounding_integer; five (component, floating) instantiations per TU.
"""
import random

H = __file__.replace('.py', '.h')
FT = {'f32': 'float', 'f64': 'double', 'f80': 'long double'}
IT = {'i16': 'short', 'i32': 'int', 'i64': 'long', 'i128': 'vh::I'}
# smallest binary exponent swept: below about -(digits+prec) every input fails the same internal
# assertion, so the lattice is coarser there (but still reaches the smallest subnormal)
PAIRS_QUICK = [('i32', 'f32'), ('i64', 'f64'), ('i16', 'f32'), ('i32', 'f64'), ('i64', 'f80'), ('i16', 'f64'), ('i64', 'f32')]
PAIRS_MORE = [('i32', 'f80'), ('i16', 'f80'), ('i128', 'f80')]


def main_src(body, seed_off):
    return '#include "%s"\nint main(){ install(); Rng rng(seed_from_env()*1000003u+%d);\n%s}\n' % (H, seed_off, body)


OVT = {'sat': 'saturated_overflow_tag', 'trp': 'trapping_overflow_tag', 'thr': 'cnl::_impl::throwing_overflow_tag'}


def mfw_tus(thorough, rnd):
    """component types that are CNL numbers x floating types; (C++ type, floating types, full lattice?)"""
    W = lambda n: 'wide_integer<%d>' % n
    OV = lambda r, t: 'overflow_integer<%s, %s>' % (r, OVT[t])
    allf, f2 = ['f32', 'f64', 'f80'], ['f32', 'f64']
    grid = []
    # multi-word wide_integer: a whole number of 32-bit limbs (128, 160, 256 + one more) and not (200, 255 + one more)
    for n in [128, 160, 256, rnd.choice([192, 224, 288, 320, 512])]:
        grid.append((W(n), allf))
    for n in [200, 255, rnd.choice([129, 130, 159, 161, 182, 300, 500])]:
        grid.append((W(n), allf))
    # single-word wide_integer
    grid.append((W(40), allf))
    grid.append((W(rnd.choice([31, 33, 50, 62, 63, 64, 100, 127])), f2 + (['f80'] if thorough else [])))
    # overflow_integer over built-in representations, every reporting tag
    for rep in ['int', 'long long']:
        for t in ['sat', 'trp', 'thr']:
            grid.append((OV(rep, t), allf if (t != 'thr' or thorough) else f2))
    grid.append((OV('vh::I', rnd.choice(['sat', 'trp'])), ['f64', 'f80']))
    # overflow_integer over wide representations (portable overflow tests, no intrinsics)
    grid.append((OV(W(40), 'trp'), allf))
    grid.append((OV(W(40), 'sat'), f2))
    grid.append((OV(W(40), 'thr'), ['f64']))
    grid.append((OV(W(rnd.choice([33, 50, 62])), 'trp'), f2))
    grid.append((OV(W(rnd.choice([20, 31])), rnd.choice(['trp', 'sat'])), f2))
    # elastic_integer, rounding_integer
    grid.append(('elastic_integer<31>', allf))
    grid.append(('elastic_integer<63>', ['f64', 'f80']))
    grid.append(('elastic_integer<%d>' % rnd.choice([15, 20, 30, 40, 62]), f2))
    grid.append(('rounding_integer<int>', f2))
    grid.append(('rounding_integer<long long>', ['f64'] + (['f80'] if thorough else [])))
    steps, nrand = (5, 60) if not thorough else (17, 400)
    calls = []
    for (ct, fs) in grid:
        for fn in fs:
            calls.append('  mfw_sweep<%s, %s>(rng, %d, %d);\n' % (ct, FT[fn], steps, nrand))
    res = []
    per = 5
    for i in range(0, len(calls), per):
        body = '  g_hang_budget = %d;\n' % (60 if not thorough else 600) + ''.join(calls[i:i + per])
        res.append(dict(name='C17_mfw_%d' % (i // per), src=main_src(body, 200 + i), compiler='g++', run_timeout=900))
        if thorough and (i // per) % 3 == 0:
            res.append(dict(name='C17_mfw_%d_clang' % (i // per), src=main_src(body, 200 + i), compiler='clang++', run_timeout=900))
    # release builds (a failed internal assertion is `unreachable()` there) of the corner types
    rel = ['  mfw_sweep<%s, %s>(rng, %d, %d);\n' % (ct, ft, steps, nrand) for (ct, ft) in
           [(W(128), 'double'), (W(200), 'float'), (OV('int', 'sat'), 'float'), (OV('long long', 'trp'), 'double'),
            (OV(W(40), 'trp'), 'double'), ('elastic_integer<31>', 'float')]]
    res.append(dict(name='C17_mfw_rel', src=main_src('  g_hang_budget = 60;\n' + ''.join(rel), 299), compiler='g++', defines=['CNL_RELEASE'], run_timeout=900))
    return res


def tus(tier, seed):
    rnd = random.Random(seed * 7919 + 17)
    thorough = tier == 'thorough'
    res = []
    # ---- CF: the floating-point core
    nr = 64 if not thorough else 160
    for i, (fn, ft) in enumerate(FT.items()):
        res.append(dict(name='C17_cf_arith_' + fn, src=main_src('  cf_arith<%s>(rng, %d);\n' % (ft, nr), 11 + i), compiler='g++'))
        res.append(dict(name='C17_cf_conv_' + fn, src=main_src('  cf_convert<%s>(rng, %d);\n' % (ft, nr // 2), 21 + i), compiler='g++'))
    body = ''
    for s in FT.values():
        for d in FT.values():
            body += '  cf_f2f<%s, %s>(rng, %d);\n' % (s, d, nr * 2)
    res.append(dict(name='C17_cf_f2f', src=main_src(body, 31), compiler='g++'))
    if thorough:
        for i, (fn, ft) in enumerate(FT.items()):
            res.append(dict(name='C17_cf_arith_%s_clang' % fn, src=main_src('  cf_arith<%s>(rng, %d);\n' % (ft, nr), 41 + i), compiler='clang++'))
            res.append(dict(name='C17_cf_conv_%s_clang' % fn, src=main_src('  cf_convert<%s>(rng, %d);\n' % (ft, nr // 2), 51 + i), compiler='clang++'))
        res.append(dict(name='C17_cf_f2f_clang', src=main_src(body, 61), compiler='clang++'))

    # ---- make_fraction
    pairs = list(PAIRS_QUICK)
    if thorough:
        pairs += PAIRS_MORE
    else:
        pairs.append(rnd.choice(PAIRS_MORE))
    prec = {'f32': 24, 'f64': 53, 'f80': 64}
    digits = {'i16': 15, 'i32': 31, 'i64': 63, 'i128': 127}
    emin_fmt = {'f32': -149, 'f64': -1074, 'f80': -16445}
    k = 0
    for (it, fn) in pairs:
        # the float pair with the deduced component type gets the design's full lattice: every exponent x mantissa lattice
        if (it, fn) == ('i32', 'f32'):
            steps, nrand = (65 if not thorough else 257), (400 if not thorough else 3000)
        else:
            steps, nrand = (17 if not thorough else 65), (300 if not thorough else 2000)
        # exponents: everything from a little below where the search can succeed up to the numerator limit ...
        lo = max(emin_fmt[fn], -(digits[it] + 12))
        body = '  g_hang_budget = %d;\n' % (150 if not thorough else 1500)
        body += '  mf_sweep<%s, %s>(rng, %d, %d, %d);\n' % (IT[it], FT[fn], steps, nrand, lo)
        # ... and a coarse lattice over the rest of the format's exponent range (tiny inputs)
        body += '  mf_tiny<%s, %s>(rng, %d, %d, %d);\n' % (IT[it], FT[fn], emin_fmt[fn], lo - 1, 3 if not thorough else 9)
        for defs in ([[]] + ([['CNL_RELEASE']] if (thorough or k < 3) else [])):
            tag = 'rel' if defs else 'dbg'
            res.append(dict(name='C17_mf_%s_%s_%s' % (it, fn, tag), src=main_src(body, 100 + k), compiler='g++', defines=defs, run_timeout=900))
            if thorough and k < 4:
                res.append(dict(name='C17_mf_%s_%s_%s_clang' % (it, fn, tag), src=main_src(body, 100 + k), compiler='clang++', defines=defs, run_timeout=900))
        k += 1
    # ---- make_fraction with component types that are CNL numbers (table `C17 mfw`)
    res += mfw_tus(thorough, rnd)
    # deduction guides (definition.h): fraction(float) -> fraction<int32>, fraction(double) -> fraction<int64>, fraction(long double) -> fraction<int128>
    res.append(dict(name='C17_guides', src=main_src('  mf_guides(rng, %d);\n' % (60 if not thorough else 400), 99), compiler='g++'))
    return res


THOROUGH_SCALE = 1
RULE_W = (" Components that are CNL numbers (mfw): multi-word wide_integer of a whole number of limbs (128, 160, 256, +1 seeded) and not (200, 255, "
          "+1 seeded), 64-bit limbs, single-word wide_integer, overflow_integer<int | long long | int128 | wide_integer<N>, saturated | trapping | "
          "throwing>, elastic_integer, rounding_integer, each x float/double/long double: everyday values, integers at and next to the component "
          "limits (2^D - 0..4, halves, float neighbours), powers of two down to 2^-(D+2) with neighbours, the exponent lattice x mantissa steps, "
          "random mantissas / ratios / integers of random bit length.")
RULE = ("make_fraction: per (component type, floating type) pair — every binary exponent from below the point where the search can "
        "succeed up to the numerator limit x a mantissa lattice (seed-jittered) x both signs, a coarse lattice over the remaining (tiny) "
        "exponents down to the smallest subnormal, random full mantissas, integers, integers + dyadic fractions, small ratios p/q, decimal "
        "fractions, values next to the numerator limit; per-case interval timer (hang -> TIMEOUT). A case is non-trivial when the input "
        "is in the property's domain (finite, |x| <= max). CF: structured operand lists (specials, subnormals, powers of two +- ulp, "
        "half/quarter-ulp companions, limits of every integer type +- 0.5/1/2, random significand patterns) cross-multiplied." + RULE_W)
TRUSTED = ["CnlModel.CFloat reading of IEEE 754 binary arithmetic (round-to-nearest-even, x86-64 SSE / x87 extended), validated by the CF table",
           "harness interval timer: TIMEOUT = no result within C17_TIMEOUT_US (default 60 ms) of CPU-bound search"]
ASSUMPTIONS = ["baseline x86-64 ISA: no fused multiply-add contraction; FLT_EVAL_METHOD = 0; default rounding mode",
               "lefts/rights counters (C++ int) do not overflow within the model's fuel"]
