"""C11 — static_integer / static_number.  Grid: tags x (digits, exponent) triples; shifts: see shift_grid."""
import random

RT = {'nat': 'native_rounding_tag', 'nrst': 'nearest_rounding_tag', 'tpi': 'tie_to_pos_inf_rounding_tag', 'ninf': 'neg_inf_rounding_tag'}
OT = {'sat': 'saturated_overflow_tag', 'thr': '_impl::throwing_overflow_tag', 'trp': 'trapping_overflow_tag'}
DIGITS = [1, 2, 3, 5, 7, 8, 15, 16, 20, 30, 31, 32, 40, 47, 62, 63]
EXPS = [-20, -12, -8, -4, -2, -1, 0, 1, 3, 8]


def grid(tier, seed):
    rnd = random.Random(seed * 1543 + 11)
    fixed = [('nrst', 'sat', 31, 0, 31, 0, 31, 0), ('nrst', 'sat', 10, -4, 8, -2, 6, -1), ('tpi', 'thr', 16, -8, 16, -8, 8, -4),
             ('ninf', 'trp', 5, -2, 4, 0, 3, 1), ('nat', 'sat', 20, -10, 12, 0, 15, -5), ('nrst', 'sat', 40, -20, 10, -4, 30, -10),
             ('nrst', 'thr', 3, 0, 3, -1, 2, 0), ('tpi', 'sat', 62, -31, 30, -16, 31, -8), ('nrst', 'sat', 5, -2, 4, 0, 6, 1),
             ('ninf', 'sat', 7, -3, 5, -1, 8, 0), ('nrst', 'thr', 31, -31, 8, 0, 20, 0),
             ('tpi', 'sat', 16, -20, 5, 1, 7, -4)]
    n = 24 if tier == 'quick' else 120
    out = list(fixed)
    while len(out) < n:
        c = (rnd.choice(list(RT)), rnd.choice(list(OT)), rnd.choice(DIGITS), rnd.choice(EXPS), rnd.choice(DIGITS), rnd.choice(EXPS),
             rnd.choice(DIGITS), rnd.choice(EXPS))
        d1, e1, d2, e2, d3, e3 = c[2:]
        # alignment adds |e1-e2| digits; sums and products must fit 127 digits
        if max(d1 + max(0, e1 - e2), d2 + max(0, e2 - e1)) + 1 > 120:
            continue
        if d1 + abs(e1 - e3) > 120 or abs(e1 - e2 - e3) > 60:
            continue
        if c not in out:
            out.append(c)
    return out


def tus(tier, seed):
    combos = grid(tier, seed)
    per = 2
    res = []
    for i in range(0, len(combos), per):
        body = '#include "%s"\nint main(){ install(); Rng rng(seed_from_env()+%d);\n' % (__file__.replace('.py', '.h'), i)
        for (r, o, d1, e1, d2, e2, d3, e3) in combos[i:i + per]:
            body += '  go<%s, %s, %d, %d, %d, %d, %d, %d>(rng);\n' % (RT[r], OT[o], d1, e1, d2, e2, d3, e3)
        body += '}\n'
        comp = 'clang++' if (tier == 'thorough' and (i // per) % 4 == 3) else 'g++'
        res.append(dict(name='C11_%d' % (i // per), src=body, compiler=comp))
    # construction from floating point (rounding conversion + overflow check)
    FT = {'f32': 'float', 'f64': 'double', 'f80': 'long double'}
    fc = [('nrst', 'sat', 5, 0, 'f64'), ('nrst', 'sat', 31, 0, 'f32'), ('nrst', 'thr', 60, 0, 'f64'), ('tpi', 'sat', 10, -4, 'f32'),
          ('ninf', 'trp', 16, -8, 'f64'), ('nat', 'sat', 20, 3, 'f32'), ('nrst', 'sat', 24, -12, 'f80'), ('nrst', 'trp', 8, 0, 'f32')]
    # digit counts at, just below and just above what each floating format holds (24 / 53 / 64 digits): above it the
    # declared limit 2^D - 1 rounds to 2^D in the source format (the repaired boundary); tags rotate with the seed
    rts, ots = list(RT), list(OT)
    k = seed
    for f, ds in (('f32', [23, 24, 25, 31, 40, 63]), ('f64', [31, 52, 53, 54, 63]), ('f80', [31, 62, 63])):
        for d in ds:
            for e in ([0] if d in (40, 52, 62) else [0, -3]):
                c = (rts[k % 4], ots[(k // 2) % 3], d, e, f)
                k += 1
                if c not in fc:
                    fc.append(c)
    per = 8
    for i in range(0, len(fc), per):
        body = '#include "%s"\nint main(){ install(); Rng rng(seed_from_env()+%d);\n' % (__file__.replace('.py', '.h'), 777 + i)
        for (r, o, d, e, f) in fc[i:i + per]:
            body += '  fromf<%s, %s, %d, %d, %s>(rng);\n' % (RT[r], OT[o], d, e, FT[f])
        body += '}\n'
        res.append(dict(name='C11_fromf' + ('' if i == 0 else '_%d' % (i // per)), src=body,
                        compiler='clang++' if (tier == 'thorough' and (i // per) % 2 == 1) else 'g++'))
    res += shift_tus(tier, seed)
    res += typed_tus(tier, seed)
    return res


# ---------------------------------------------------------------------------------------------------------------
# shifts: run-time counts (built-in int and static_integer counts, << >> <<= >>=) and cnl::constant counts
OT4 = dict(OT, und='undefined_overflow_tag')
SHIFT_DIGITS = [7, 8, 15, 16, 31, 32, 63, 64, 100]


def shift_grid(tier, seed):
    """(mode, tag, D, E, bare, CD) for run-time counts; (mode, tag, D, E, bare, K) for constant counts"""
    rts, ots = list(RT), list(OT4)
    # fixed corners: the repaired defect's instantiation, and one instantiation per checked tag at exact-fit digits
    rt = [('nrst', 'sat', 31, 0, True, 8), ('nrst', 'thr', 31, -5, False, 31), ('ninf', 'trp', 63, 0, True, 40),
          ('tpi', 'und', 7, -3, False, 8), ('nat', 'sat', 1, 0, True, 8), ('nrst', 'trp', 3, 2, False, 31)]
    k = seed
    digits = SHIFT_DIGITS if tier == 'quick' else SHIFT_DIGITS + [2, 5, 9, 17, 24, 30, 33, 47, 62, 65, 90, 120]
    for d in digits:
        for rep in range(1 if tier == 'quick' else 4):
            c = (rts[(k // 2) % 4], ots[(k + rep) % 4], d, [0, -4, 3, -17][(k // 2) % 4], (k // 4 + rep) % 2 == 0, [8, 31, 40][k % 3])
            k += 1
            if c[4]:
                c = c[:3] + (0,) + c[4:]
            if c not in rt:
                rt.append(c)
    ct = []
    for d in digits:
        # bare static_integer: counts 0, 1, half, D - 1, D and the counts that land D + K on 31 / 32 / 63 / 64 digits
        ks = {0, 1, d // 2, d - 1, d}
        for t in (31, 32, 63, 64):
            if 0 < t - d <= 64:
                ks.add(t - d)
        ks = sorted(x for x in ks if x >= 0)
        if tier == 'quick':
            # rotate: three of the counts per seed, always D - 1 (the count of the open class's witness)
            rot = [x for x in ks if x != d - 1]
            ks = sorted(set([d - 1] + [rot[(seed + i * 2) % len(rot)] for i in range(2)]))
        for kk in ks:
            ct.append((rts[k % 4], ots[k % 4], d, 0, True, kk))
            k += 1
        for kk in ([-3, 5] if tier == 'quick' else [-40, -3, 0, 1, 5, 33]):
            ct.append((rts[k % 4], ots[k % 4], d, [0, -4, 3][k % 3], False, kk))
            k += 1
    return rt, ct


def shift_tus(tier, seed):
    rt, ct = shift_grid(tier, seed)
    res = []

    def tu(name, lines, idx, comp):
        body = '#include "%s"\nint main(){ install(); Rng rng(seed_from_env()+%d);\n' % (__file__.replace('.py', '.h'), 4000 + idx)
        body += ''.join(lines) + '}\n'
        res.append(dict(name=name, src=body, compiler=comp))

    per = 3
    for i in range(0, len(rt), per):
        lines = ['  shifts<%s, %s, %d, %d, %s, %d>(rng);\n' % (RT[r], OT4[o], d, e, 'true' if b else 'false', cd)
                 for (r, o, d, e, b, cd) in rt[i:i + per]]
        tu('C11_shift_%d' % (i // per), lines, i, 'clang++' if (tier == 'thorough' and (i // per) % 3 == 2) else 'g++')
    per = 8
    for i in range(0, len(ct), per):
        lines = ['  cshift<%s, %s, %d, %d, %s, %d>(rng);\n' % (RT[r], OT4[o], d, e, 'true' if b else 'false', kk)
                 for (r, o, d, e, b, kk) in ct[i:i + per]]
        tu('C11_cshift_%d' % (i // per), lines, 500 + i, 'clang++' if (tier == 'thorough' and (i // per) % 3 == 1) else 'g++')
    return res


# ---------------------------------------------------------------------------------------------------------------
# typed lines: narrowest types other than int, multi-word storage, static (x) built-in operands
NW = {'i8': 'signed char', 'u8': 'unsigned char', 'i16': 'short', 'u16': 'unsigned short', 'i32': 'int', 'u32': 'unsigned',
      'i64': 'long', 'u64': 'unsigned long'}
BT = {'i8': 'signed char', 'u8': 'unsigned char', 'i16': 'short', 'u16': 'unsigned short', 'i32': 'int', 'u32': 'unsigned',
      'i64': 'long long', 'u64': 'unsigned long long'}

# (narrowest, mode, tag, d1, e1, d2, e2, d3, e3): in every run.  Multi-word digit counts 128, 129, 160, 192, 200, 255, 256
# (exact multiples of the limb width included) as operands, as destinations and as the digits of products / sums of
# narrower operands (64 x 64 -> 128, 96 x 96 -> 192, 80 x 80 -> 160, ...)
GN_FIXED = [
    ('i32', 'nrst', 'thr', 64, 0, 64, 0, 128, 0), ('i32', 'tpi', 'sat', 96, -3, 96, 2, 160, 0), ('i32', 'nrst', 'sat', 128, 0, 129, 0, 200, 0),
    ('i32', 'ninf', 'trp', 160, 0, 32, 0, 192, 0), ('i32', 'nat', 'sat', 200, -4, 55, 0, 255, 0), ('i32', 'nrst', 'thr', 256, 0, 1, 0, 256, 0),
    ('i32', 'tpi', 'thr', 192, 0, 64, -8, 100, 4),
    ('u32', 'nrst', 'thr', 8, -2, 8, 1, 6, 0), ('u32', 'tpi', 'sat', 32, 0, 32, 0, 64, 0), ('u32', 'nrst', 'sat', 64, 0, 64, 0, 128, 0),
    ('u32', 'ninf', 'trp', 100, 0, 60, 0, 160, 0), ('u32', 'nrst', 'thr', 129, 0, 31, -3, 192, 0),
    ('u8', 'nrst', 'sat', 4, 0, 6, 0, 8, 0), ('u8', 'tpi', 'thr', 8, -1, 8, 0, 16, 0), ('u8', 'nrst', 'sat', 60, 0, 60, 0, 120, 0),
    ('i8', 'nrst', 'thr', 7, 0, 7, -2, 7, 0), ('i8', 'ninf', 'sat', 64, 0, 64, 0, 128, 0), ('i8', 'nrst', 'trp', 3, 0, 5, 1, 4, 0),
    ('i16', 'tpi', 'trp', 15, 0, 10, -3, 12, 0), ('i16', 'nrst', 'sat', 80, 0, 80, 0, 160, 0),
    ('u16', 'nrst', 'thr', 16, 0, 9, -2, 16, 0),
    ('i64', 'nrst', 'sat', 40, 0, 63, 0, 63, 0), ('i64', 'tpi', 'thr', 100, 0, 127, 0, 128, 0), ('i64', 'nrst', 'thr', 128, 0, 192, 0, 129, 0),
    ('u64', 'nrst', 'thr', 40, 0, 64, 0, 64, 0), ('u64', 'nrst', 'sat', 128, 0, 100, 0, 129, 0),
]
# (narrowest, mode, tag, d, e, built-in type): in every run; negative built-in values against unsigned narrowest types
MIX_FIXED = [
    ('u32', 'nrst', 'thr', 8, 0, 'i32'), ('u32', 'nrst', 'thr', 8, -2, 'i32'), ('u32', 'tpi', 'sat', 32, 0, 'i64'), ('u32', 'nrst', 'trp', 20, 3, 'i16'),
    ('u32', 'ninf', 'sat', 12, 0, 'u32'), ('u8', 'nrst', 'thr', 8, 0, 'i32'), ('u8', 'tpi', 'sat', 5, -1, 'i8'), ('u16', 'nrst', 'thr', 16, 0, 'i64'),
    ('i32', 'nrst', 'thr', 8, 0, 'i32'), ('i32', 'tpi', 'sat', 31, -3, 'u32'), ('i32', 'nrst', 'sat', 64, 0, 'i64'), ('i32', 'ninf', 'trp', 100, 0, 'u64'),
    ('i8', 'nrst', 'sat', 7, 0, 'i32'), ('i16', 'nrst', 'thr', 15, 2, 'u8'),
]
GN_DIGITS = [1, 2, 5, 8, 16, 31, 32, 33, 63, 64, 65, 100, 127, 128, 129, 160, 192, 200, 255, 256]
# (narrowest 1, narrowest 2, mode, tag, d1, e1, d2, e2): operands of two narrowest types, in every run: (unsigned, signed) and
# (signed, unsigned) pairs of every width, every overflow tag, equal and different exponents
GN2_FIXED = [
    ('u32', 'i32', 'nrst', 'thr', 8, 0, 4, 0), ('u32', 'i32', 'tpi', 'sat', 8, -2, 4, -2), ('i32', 'u32', 'nrst', 'thr', 8, 0, 4, 0),
    ('u32', 'i32', 'ninf', 'trp', 32, 0, 16, -3), ('i32', 'u32', 'nat', 'sat', 20, -4, 32, 0), ('u8', 'i8', 'nrst', 'sat', 8, 0, 7, 0),
    ('i8', 'u8', 'tpi', 'thr', 5, 1, 8, 0), ('u16', 'i16', 'nrst', 'trp', 16, 0, 12, 0), ('i16', 'u16', 'ninf', 'sat', 12, -2, 6, 0),
    ('u32', 'i32', 'nrst', 'thr', 64, 0, 40, 0), ('i32', 'u32', 'nrst', 'sat', 3, 0, 40, 2), ('u8', 'i8', 'nat', 'thr', 4, 0, 31, 0),
]


def typed_grid(tier, seed):
    rnd = random.Random(seed * 7919 + 5)
    gn = list(GN_FIXED)
    n = len(gn) + (6 if tier == 'quick' else 40)
    rts, ots = list(RT), list(OT)
    while len(gn) < n:
        nw = rnd.choice(['i32', 'u32', 'i8', 'u8', 'i16', 'i64', 'u64'])
        wide = nw in ('i64', 'u64')
        d1, d2, d3 = rnd.choice(GN_DIGITS), rnd.choice(GN_DIGITS), rnd.choice(GN_DIGITS)
        e1, e2, e3 = rnd.choice([0, 0, -3, 2, -8]), rnd.choice([0, 0, -2, 1, 5]), rnd.choice([0, 0, -4, 3])
        if wide:
            e1 = e2 = e3 = 0
        # multi-word storage over narrow unsigned limbs does not instantiate everywhere (differences, conversions)
        if nw in ('u8', 'u16') and (max(d1, d2, d3) > 120 or d1 + d2 > 120):
            continue
        # products of two multi-word operands are slow to compile; alignment adds |e1 - e2| digits
        if not wide and d1 + d2 > 330:
            continue
        if abs(e1 - e3) > 12 or abs(e1 + e2 - e3) > 20 or abs(e1 - e2 - e3) > 20:
            continue
        c = (nw, rnd.choice(rts), rnd.choice(ots), d1, e1, d2, e2, d3, e3)
        if c not in gn:
            gn.append(c)
    mix = list(MIX_FIXED)
    n = len(mix) + (4 if tier == 'quick' else 30)
    while len(mix) < n:
        nw = rnd.choice(['i32', 'u32', 'i8', 'u8', 'i16', 'u16'])
        c = (nw, rnd.choice(rts), rnd.choice(ots), rnd.choice([1, 4, 8, 16, 31, 32, 40, 64, 100, 128, 160]), rnd.choice([0, 0, 0, -1, -3, 2, 6]),
             rnd.choice(list(BT)))
        if c not in mix:
            mix.append(c)
    gn2 = list(GN2_FIXED)
    n = len(gn2) + (4 if tier == 'quick' else 30)
    while len(gn2) < n:
        # one operand unsigned, the other signed (either order), of one width: narrowest types of different widths have no
        # common elastic type (differences and comparisons do not instantiate)
        w = rnd.choice(['8', '16', '32', '32'])
        n1, n2 = ('u' + w, 'i' + w) if rnd.randrange(2) else ('i' + w, 'u' + w)
        d1, d2 = rnd.choice([1, 3, 4, 7, 8, 12, 16, 24, 31, 32, 40, 63, 64]), rnd.choice([1, 2, 4, 5, 8, 15, 16, 20, 31, 32, 48, 64])
        e1, e2 = rnd.choice([0, 0, -3, 2, -8]), rnd.choice([0, 0, -2, 1, 5])
        if rnd.randrange(3) == 0:
            e2 = e1
        if abs(e1 - e2) > 12 or d1 + d2 + abs(e1 - e2) > 120:
            continue
        c = (n1, n2, rnd.choice(rts), rnd.choice(ots), d1, e1, d2, e2)
        if c not in gn2:
            gn2.append(c)
    return gn, mix, gn2


def typed_tus(tier, seed):
    gn, mix, gn2 = typed_grid(tier, seed)
    res = []

    def tu(name, lines, idx, comp):
        body = '#include "%s"\nint main(){ install(); Rng rng(seed_from_env()+%d);\n' % (__file__.replace('.py', '.h'), 9000 + idx)
        body += ''.join(lines) + '}\n'
        res.append(dict(name=name, src=body, compiler=comp))

    per = 2
    for i in range(0, len(gn), per):
        lines = ['  gn<%s, %s, %s, %d, %d, %d, %d, %d, %d>(rng);\n' % (RT[r], OT[o], NW[nw], d1, e1, d2, e2, d3, e3)
                 for (nw, r, o, d1, e1, d2, e2, d3, e3) in gn[i:i + per]]
        tu('C11_typed_%d' % (i // per), lines, i, 'clang++' if (tier == 'thorough' and (i // per) % 4 == 1) else 'g++')
    per = 3
    for i in range(0, len(mix), per):
        lines = ['  mixed<%s, %s, %s, %d, %d, %s>(rng);\n' % (RT[r], OT[o], NW[nw], d, e, BT[bt]) for (nw, r, o, d, e, bt) in mix[i:i + per]]
        tu('C11_mixed_%d' % (i // per), lines, 300 + i, 'clang++' if (tier == 'thorough' and (i // per) % 3 == 1) else 'g++')
    per = 2
    for i in range(0, len(gn2), per):
        lines = ['  gn2<%s, %s, %s, %s, %d, %d, %d, %d>(rng);\n' % (RT[r], OT[o], NW[n1], NW[n2], d1, e1, d2, e2)
                 for (n1, n2, r, o, d1, e1, d2, e2) in gn2[i:i + per]]
        tu('C11_typed2_%d' % (i // per), lines, 600 + i, 'clang++' if (tier == 'thorough' and (i // per) % 3 == 1) else 'g++')
    return res


RULE = ("per compiled (rounding tag, overflow tag, three (digits, exponent) formats): all values when digits <= 5, otherwise the boundary lattice of "
        "the declared range plus seeded random values, cross-multiplied for binary operators and two-step histories; construction from floating point: "
        "digit counts at, below and above the 24 / 53 / 64 digits the formats hold, the declared limits and the powers of two they round to with "
        "+-1, +-2 ulp and fractional neighbours; non-trivial = divisor non-zero; shifts: digit counts 1, 3, 7, 8, 15, 16, 31, 32, 63, 64, 100 x "
        "the four checked tags (saturated, throwing, trapping, undefined) x bare static_integer / static_number: operands +-(2^D - 1), "
        "+-2^j for every j (x = -2^(D-k) with count k included), neighbours and seeded random values; run-time counts 0, 1, 2, 3, D/2, "
        "D-2 .. D+2, storage width -2 .. +1, twice the width, 1000, INT_MAX and the counts that land |x| 2^k on 2^D, as built-in int, as "
        "a static_integer count and in <<= / >>=; cnl::constant counts 0, 1, D/2, D-1, D and those landing D + K on 31 / 32 / 63 / 64 digits "
        "(static_integer), of either sign (static_number), also as <<= / >>=; non-trivial = x and count non-zero; typed lines (values in hex, "
        "results read limb by limb): narrowest types i8 u8 i16 u16 i32 u32 i64 u64 x digit counts 1 .. 256 incl. the multi-word counts 128, 129, "
        "160, 192, 200, 255, 256 as operands, destinations and as products / sums of narrower operands (64 x 64, 96 x 96, 80 x 80, ...): "
        "+ - * /, six comparisons, unary minus, conversion, histories (mul_add, sub_div_cvt, mul_div, mul_sub, mul_gt, mul_cvt, sub_cvt) on the "
        "boundary lattice of the declared range (non-negative under an unsigned narrowest type) + seeded random values; static (x) built-in "
        "operands (i8 .. u64, lattice of the built-in type incl. negative values and the limits) on either side of + - * / and the six "
        "comparisons, bare static_integer and static_number with exponents of either sign, against the by-value oracle; the remainder "
        "`%` on every kind of line (int narrowest, typed, multi-word, static (x) built-in on either side): exact remainder of the truncating "
        "division at the dividend's exponent; operands of two narrowest types (tbin2 / tcmp2 / tasg2): (unsigned, signed) and (signed, "
        "unsigned) pairs of 8, 16 and 32 bits in every run, + - * / %, the six comparisons and the compound assignments "
        "+= -= *= /= %= (also with a built-in right operand: mixa), negative signed values against unsigned operands, small divisors "
        "of either sign")
