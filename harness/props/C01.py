"""C01-C04 share one harness template; SECTION selects the operators a check exercises."""
import os, random

CT = {'i8': 'std::int8_t', 'u8': 'std::uint8_t', 'i16': 'std::int16_t', 'u16': 'std::uint16_t',
      'i32': 'std::int32_t', 'u32': 'std::uint32_t', 'i64': 'std::int64_t', 'u64': 'std::uint64_t',
      'i128': 'vh::I', 'u128': 'vh::U'}
EXPS = [-70, -40, -31, -16, -8, -4, -1, 0, 1, 3, 10, 40, 70]
SECTION = 'C01'


def instantiable(a, e1, b, e2, rx, section):
    # alignment multiplies by radix^|e1-e2| in the promoted type: power_value must fit (static_assert otherwise)
    d = abs(e1 - e2)
    def digits(t):
        bits = int(t[1:]); bits = max(bits, 32)
        return bits - 1 if (t[0] == 'i' or int(t[1:]) < 32) else bits
    hi = a if e1 > e2 else b
    if rx == 2:
        ok = d < digits(hi) or d == 0
    else:
        ok = (rx ** d) < 2 ** digits(hi)
    if section == 'C04':
        # conversion scales the source by e1-e2 (source type's power)
        ok = (abs(e1 - e2) < digits(a)) if rx == 2 else (rx ** abs(e1 - e2) < 2 ** digits(a))
    return ok


ECT = {k: v for k, v in CT.items() if k not in ('i128', 'u128')}


def grid(tier, seed, section):
    rnd = random.Random(seed * 7907 + sum(map(ord, section)) % 1000)  # stable across processes (str hash is randomised)
    types = [t for t in CT if section != 'C02' or t not in ('i128', 'u128')] if False else list(CT)
    fixed = [('i32', -16, 'i32', -16, 2), ('i32', -4, 'u16', 3, 2), ('i8', 0, 'u32', 0, 2), ('i16', -8, 'i64', -20, 2),
             ('u8', -7, 'u8', -1, 2), ('i64', -40, 'i32', -31, 2), ('i32', -2, 'i32', 1, 10), ('i64', -6, 'i16', -3, 10),
             ('u32', 0, 'i32', -1, 2), ('i32', 10, 'i8', 40, 2), ('i32', -1, 'u64', -1, 3), ('i128', -70, 'i64', -40, 2)]
    out = [c for c in fixed if instantiable(*c, section)]
    if section == 'C04':
        # the largest powers of ten an unsigned representation holds (one more is ill-formed since the repair of
        # C04.unsigned_power_value_wraps: power_value asserts that every product fits; it used to wrap silently)
        out.append(('u32', -9, 'u32', 0, 10))
        out.append(('u64', -19, 'u64', 0, 10))
    if section == 'C02':
        # / % and quotient() do not align exponents: divisor exponents far below minus the width of its representation
        out += [('u32', 0, 'u32', -40, 2), ('i32', 0, 'i32', -40, 2), ('i16', -3, 'u8', -20, 2), ('u8', 0, 'u8', -12, 2), ('i64', -10, 'i32', -50, 2), ('i32', -40, 'u16', 3, 2)]
    n = (35 if section == 'C04' else 40 if section == 'C02' else 34) if tier == 'quick' else 166
    tries = 0
    while len(out) < n and tries < 5000:
        tries += 1
        a, b = rnd.choice(types), rnd.choice(types)
        rx = rnd.choice([2, 2, 2, 2, 10, 3, 8] if tier == 'thorough' else [2, 2, 2, 10, 10, 3])
        if rx == 2:
            e1 = rnd.choice(EXPS)
            e2 = e1 + rnd.choice([0, 0, 1, -1, 3, -5, 7, -12, 20, -28]) if rnd.random() < 0.8 else rnd.choice(EXPS)
            e2 = max(-70, min(70, e2))
        else:
            e1, e2 = rnd.choice([-6, -3, -2, -1, 0, 1, 2, 4]), rnd.choice([-6, -3, -2, -1, 0, 1, 2, 4])
        c = (a, e1, b, e2, rx)
        if c not in out and instantiable(*c, section):
            out.append(c)
    return out


def tus(tier, seed, section=None):
    section = section or SECTION
    combos = grid(tier, seed, section)
    per = 3
    res = []
    hdr = __file__
    for s in ('C02', 'C03', 'C04'):
        hdr = hdr.replace(s + '.py', 'C01.py')
    hdr = hdr.replace('.py', '.h')
    for i in range(0, len(combos), per):
        body = '#define SEC_%s 1\n%s#include "%s"\nint main(){ install(); Rng rng(seed_from_env()+%d);\n' % (section, '#define SEC_C02Q 1\n' if section == 'C02' else '', hdr, i)
        for (a, e1, b, e2, rx) in combos[i:i + per]:
            body += '  go<%s, %d, %s, %d, %d>(rng);\n' % (CT[a], e1, CT[b], e2, rx)
        body += '}\n'
        comp = 'clang++' if (tier == 'thorough' and (i // per) % 4 == 3) else 'g++'
        res.append(dict(name='%s_%d' % (section, i // per), src=body, compiler=comp))
    if section in ('C01', 'C03'):
        # representation = CNL integer wrapper: scaled_integer over elastic_integer (lines of the C05 table,
        # exact-value oracle), including unsigned narrowest types filled to their full width
        ehdr = os.path.join(os.path.dirname(os.path.abspath(hdr)), 'C05.h')
        rnd = random.Random(seed * 41 + 11)
        es = [(8, 'u8', -3, 8, 'u8', 2), (16, 'u16', 0, 7, 'i8', -5), (32, 'u32', -8, 32, 'u32', -8), (63, 'i64', -10, 20, 'i32', 3), (64, 'u64', 4, 10, 'u8', 0),
              # aligned digit counts (operand digits + exponent difference) of exactly 32 and 64, signed representations
              (16, 'i32', 0, 16, 'i32', -16), (32, 'i32', 0, 32, 'i32', -32), (24, 'i16', 3, 10, 'i32', -5), (40, 'i64', 0, 20, 'i32', -24), (8, 'i8', 0, 8, 'i8', -8)]
        for _ in range(2 if tier == 'quick' else 14):
            dl, dr = rnd.choice([4, 8, 16, 24, 31, 32, 40]), rnd.choice([4, 8, 16, 24, 31, 32, 40])
            el, er = rnd.randint(-30, 30), rnd.randint(-30, 30)
            if dl + dr + abs(el - er) <= 120:
                es.append((dl, rnd.choice(list(ECT)), el, dr, rnd.choice(list(ECT)), er))
        for i in range(0, len(es), 3):
            body = '%s#include "%s"\nint main(){ install(); Rng rng(seed_from_env()+6000+%d);\n' % ('#define VH_SCMP_ONLY 1\n' if section == 'C03' else '', ehdr, i)
            for (dl, nl, el, dr, nr, er) in es[i:i + 3]:
                body += '  sbin<%d, %s, %d, %d, %s, %d>(rng);\n' % (dl, ECT[nl], el, dr, ECT[nr], er)
            body += '}\n'
            res.append(dict(name='%s_elastic_%d' % (section, i // 3), src=body, compiler='g++'))
    return res


RULE = ("per compiled (Rep1, Exponent1, Rep2, Exponent2, Radix): boundary lattices of both representation types cross-multiplied plus seeded "
        "random values; non-trivial = the property's own restriction holds (aligned operands and exact result fit the promoted representation)")
