"""C01-C04 share one harness template; SECTION selects the operators a check exercises."""
import os, random

CT = {'i8': 'std::int8_t', 'u8': 'std::uint8_t', 'i16': 'std::int16_t', 'u16': 'std::uint16_t',
      'i32': 'std::int32_t', 'u32': 'std::uint32_t', 'i64': 'std::int64_t', 'u64': 'std::uint64_t',
      'i128': 'vh::I', 'u128': 'vh::U'}
EXPS = [-70, -40, -31, -16, -8, -4, -1, 0, 1, 3, 10, 40, 70]
SECTION = 'C01'


def instantiable(a, e1, b, e2, rx, section):
    # alignment multiplies by radix^|e1-e2| in the promoted type: power_value must fit (static_assert otherwise)
    d = abs(e1 - e2)
    def digits(t):
        bits = int(t[1:]); bits = max(bits, 32)
        return bits - 1 if (t[0] == 'i' or int(t[1:]) < 32) else bits
    hi = a if e1 > e2 else b
    if rx == 2:
        ok = d < digits(hi) or d == 0
    else:
        ok = (rx ** d) < 2 ** digits(hi)
    if section == 'C04':
        # conversion scales the source by e1-e2 (source type's power)
        ok = (abs(e1 - e2) < digits(a)) if rx == 2 else (rx ** abs(e1 - e2) < 2 ** digits(a))
    return ok


ECT = {k: v for k, v in CT.items() if k not in ('i128', 'u128')}


def grid(tier, seed, section):
    rnd = random.Random(seed * 7907 + sum(map(ord, section)) % 1000)  # stable across processes (str hash is randomised)
    types = [t for t in CT if section != 'C02' or t not in ('i128', 'u128')] if False else list(CT)
    fixed = [('i32', -16, 'i32', -16, 2), ('i32', -4, 'u16', 3, 2), ('i8', 0, 'u32', 0, 2), ('i16', -8, 'i64', -20, 2),
             ('u8', -7, 'u8', -1, 2), ('i64', -40, 'i32', -31, 2), ('i32', -2, 'i32', 1, 10), ('i64', -6, 'i16', -3, 10),
             ('u32', 0, 'i32', -1, 2), ('i32', 10, 'i8', 40, 2), ('i32', -1, 'u64', -1, 3), ('i128', -70, 'i64', -40, 2)]
    out = [c for c in fixed if instantiable(*c, section)]
    if section == 'C04':
        # the largest powers of ten an unsigned representation holds (one more is ill-formed since the repair of
        # C04.unsigned_power_value_wraps: power_value asserts that every product fits; it used to wrap silently)
        out.append(('u32', -9, 'u32', 0, 10))
        out.append(('u64', -19, 'u64', 0, 10))
    if section == 'C02':
        # / % and quotient() do not align exponents: divisor exponents far below minus the width of its representation
        out += [('u32', 0, 'u32', -40, 2), ('i32', 0, 'i32', -40, 2), ('i16', -3, 'u8', -20, 2), ('u8', 0, 'u8', -12, 2), ('i64', -10, 'i32', -50, 2), ('i32', -40, 'u16', 3, 2)]
    n = (35 if section == 'C04' else 40 if section == 'C02' else 34) if tier == 'quick' else 166
    tries = 0
    while len(out) < n and tries < 5000:
        tries += 1
        a, b = rnd.choice(types), rnd.choice(types)
        rx = rnd.choice([2, 2, 2, 2, 10, 3, 8] if tier == 'thorough' else [2, 2, 2, 10, 10, 3])
        if rx == 2:
            e1 = rnd.choice(EXPS)
            e2 = e1 + rnd.choice([0, 0, 1, -1, 3, -5, 7, -12, 20, -28]) if rnd.random() < 0.8 else rnd.choice(EXPS)
            e2 = max(-70, min(70, e2))
        else:
            e1, e2 = rnd.choice([-6, -3, -2, -1, 0, 1, 2, 4]), rnd.choice([-6, -3, -2, -1, 0, 1, 2, 4])
        c = (a, e1, b, e2, rx)
        if c not in out and instantiable(*c, section):
            out.append(c)
    return out


def tus(tier, seed, section=None):
    section = section or SECTION
    combos = grid(tier, seed, section)
    per = 3
    res = []
    hdr = __file__
    for s in ('C02', 'C03', 'C04'):
        hdr = hdr.replace(s + '.py', 'C01.py')
    hdr = hdr.replace('.py', '.h')
    for i in range(0, len(combos), per):
        body = '#define SEC_%s 1\n%s#include "%s"\nint main(){ install(); Rng rng(seed_from_env()+%d);\n' % (section, '#define SEC_C02Q 1\n' if section == 'C02' else '', hdr, i)
        for (a, e1, b, e2, rx) in combos[i:i + per]:
            body += '  go<%s, %d, %s, %d, %d>(rng);\n' % (CT[a], e1, CT[b], e2, rx)
        body += '}\n'
        comp = 'clang++' if (tier == 'thorough' and (i // per) % 4 == 3) else 'g++'
        res.append(dict(name='%s_%d' % (section, i // per), src=body, compiler=comp))
    if section in ('C01', 'C03'):
        # representation = CNL integer wrapper: scaled_integer over elastic_integer (lines of the C05 table,
        # exact-value oracle), including unsigned narrowest types filled to their full width
        ehdr = os.path.join(os.path.dirname(os.path.abspath(hdr)), 'C05.h')
        rnd = random.Random(seed * 41 + 11)
        es = [(8, 'u8', -3, 8, 'u8', 2), (16, 'u16', 0, 7, 'i8', -5), (32, 'u32', -8, 32, 'u32', -8), (63, 'i64', -10, 20, 'i32', 3), (64, 'u64', 4, 10, 'u8', 0),
              # aligned digit counts (operand digits + exponent difference) of exactly 32 and 64, signed representations
              (16, 'i32', 0, 16, 'i32', -16), (32, 'i32', 0, 32, 'i32', -32), (24, 'i16', 3, 10, 'i32', -5), (40, 'i64', 0, 20, 'i32', -24), (8, 'i8', 0, 8, 'i8', -8)]
        for _ in range(2 if tier == 'quick' else 14):
            dl, dr = rnd.choice([4, 8, 16, 24, 31, 32, 40]), rnd.choice([4, 8, 16, 24, 31, 32, 40])
            el, er = rnd.randint(-30, 30), rnd.randint(-30, 30)
            if dl + dr + abs(el - er) <= 120:
                es.append((dl, rnd.choice(list(ECT)), el, dr, rnd.choice(list(ECT)), er))
        for i in range(0, len(es), 3):
            body = '%s#include "%s"\nint main(){ install(); Rng rng(seed_from_env()+6000+%d);\n' % ('#define VH_SCMP_ONLY 1\n' if section == 'C03' else '', ehdr, i)
            for (dl, nl, el, dr, nr, er) in es[i:i + 3]:
                body += '  sbin<%d, %s, %d, %d, %s, %d>(rng);\n' % (dl, ECT[nl], el, dr, ECT[nr], er)
            body += '}\n'
            res.append(dict(name='%s_elastic_%d' % (section, i // 3), src=body, compiler='g++'))
    if section == 'C01':
        # ---- C01w (harness/props/C01w.h, driver table C01w): wrapped representations --------------------------------
        res += c01w_tus(tier, seed)
    return res


# ======================================================================================================================
# C01w: + - * and unary minus of scaled_integer over overflow_integer<built-in> (every tag), over
# overflow_integer<elastic_integer>, over elastic_integer combined with built-in integers, over multi-word wide_integer
# (radix 10 / 3 / 5 / 2, different exponents), and with a cnl::constant<V> operand on either side (C01 only)
# ======================================================================================================================
W_TAGS = {'nat': 'cnl::native_overflow_tag', 'sat': 'cnl::saturated_overflow_tag', 'thr': 'cnl::_impl::throwing_overflow_tag',
          'trp': 'cnl::trapping_overflow_tag', 'und': 'cnl::undefined_overflow_tag'}
W_TAGL = ['sat', 'thr', 'trp', 'und', 'nat']


def _w_digits(t):
    bits = max(int(t[1:]), 32)      # digits of the promoted type
    return bits - 1 if (t[0] == 'i' or int(t[1:]) < 32) else bits


def _w_ok(a, e1, b, e2, rx):
    # the operand with the larger exponent is multiplied by radix^d, a constant of its promoted type
    d = abs(e1 - e2)
    hi = a if e1 > e2 else b
    return d == 0 or (d < _w_digits(hi) if rx == 2 else rx ** d < 2 ** _w_digits(hi) // rx)


def c01w_overflow_grid(tier, seed):
    """(tag, rep, exponent, rep, exponent, radix): every tag with a signed pair, an unsigned pair and a pair of mixed signedness;
    the widths rotate with the seed"""
    sp = [('i8', 'i8'), ('i16', 'i32'), ('i32', 'i32'), ('i64', 'i32'), ('i8', 'i64'), ('i16', 'i16'), ('i32', 'i64'), ('i64', 'i64')]
    up = [('u8', 'u8'), ('u16', 'u8'), ('u32', 'u32'), ('u64', 'u32'), ('u8', 'u32'), ('u16', 'u16'), ('u32', 'u64'), ('u64', 'u64')]
    mp = [('u8', 'i16'), ('i32', 'u16'), ('u32', 'i32'), ('i64', 'u32'), ('u16', 'i8'), ('i8', 'u8'), ('u64', 'i64'), ('i16', 'u32')]
    ex = [(-4, -4, 2), (-8, -3, 2), (0, 5, 2), (-2, 1, 10), (3, -2, 2), (-20, -16, 2), (-1, -1, 10), (-1, 0, 2)]
    out = []
    for i, tg in enumerate(W_TAGL):
        for j, pool in enumerate((sp, up, mp)):
            a, b = pool[(i + seed + 3 * j) % 8]
            e1, e2, rx = ex[(i + 2 * j + seed) % 8]
            if not _w_ok(a, e1, b, e2, rx):
                e1, e2, rx = -4, -3, 2
            out.append((tg, a, e1, b, e2, rx))
    # fixed corners: 8/16-bit unsigned representations under a checking tag (the operators promote to int)
    out += [('sat', 'u8', -4, 'u8', -4, 2), ('thr', 'u16', -1, 'u8', -3, 2), ('trp', 'u8', 0, 'u16', 0, 2)]
    rnd = random.Random(seed * 6133 + 17)
    n = len(out) + (3 if tier == 'quick' else 60)
    while len(out) < n:
        tg = rnd.choice(W_TAGL)
        a, b = rnd.choice(list(ECT)), rnd.choice(list(ECT))
        rx = rnd.choice([2, 2, 2, 10])
        e1, e2 = (rnd.randint(-40, 20), 0) if rx == 2 else (rnd.randint(-4, 3), rnd.randint(-4, 3))
        if rx == 2:
            e2 = e1 + rnd.choice([0, 1, -1, 3, -5, 7, -12])
        c = (tg, a, e1, b, e2, rx)
        if c not in out and _w_ok(a, e1, b, e2, rx):
            out.append(c)
    return out


def c01w_neg_grid(tier, seed):
    """(tag, rep, exponent, radix): every tag x every 8..64-bit representation"""
    out = []
    for i, tg in enumerate(W_TAGL):
        for j, t in enumerate(ECT):
            e = [-4, 0, 3, -16, 1, -1, 40, -70][(i + j + seed) % 8]
            out.append((tg, t, e, 10 if (i + j + seed) % 5 == 0 else 2))
    return out


def c01w_safe_grid(tier, seed):
    """(tag, digits, narrowest, exponent, digits, narrowest, exponent): overflow_integer<elastic_integer<D, N>, tag>"""
    out = [  # unsigned narrowest types on both sides, every tag (differences are signed and may be negative)
        ('sat', 10, 'u32', -4, 10, 'u32', -4), ('thr', 10, 'u8', -4, 12, 'u32', -1), ('trp', 16, 'u16', 0, 16, 'u16', 3),
        ('und', 24, 'u32', -8, 7, 'u8', -8), ('nat', 10, 'u32', -4, 10, 'u32', -1), ('sat', 40, 'u64', -20, 33, 'u32', -10),
        ('trp', 32, 'u32', 0, 32, 'u32', 0), ('thr', 8, 'u8', 0, 8, 'u8', 0),
        # signed and mixed narrowest types
        ('sat', 15, 'i32', -4, 10, 'u32', -2), ('thr', 7, 'i8', 0, 20, 'i32', -5), ('trp', 31, 'i32', -10, 31, 'i32', -10),
        ('und', 12, 'u16', 2, 12, 'i16', 2), ('nat', 8, 'i8', -3, 8, 'u8', 0), ('sat', 1, 'u8', 0, 5, 'u8', 1), ('trp', 1, 'i32', 0, 1, 'i32', 0)]
    rnd = random.Random(seed * 2749 + 3)
    n = len(out) + (3 if tier == 'quick' else 40)
    while len(out) < n:
        tg = rnd.choice(W_TAGL)
        nl = rnd.choice(list(ECT))
        nr = rnd.choice([t for t in ECT if t[0] == 'u']) if rnd.random() < 0.6 else rnd.choice(list(ECT))
        dl, dr = rnd.choice([3, 8, 10, 16, 24, 31, 32, 40]), rnd.choice([3, 8, 10, 16, 24, 31, 32, 40])
        el = rnd.randint(-20, 10)
        er = el + rnd.choice([0, 0, 1, -3, 5, -8, 13])
        c = (tg, dl, nl, el, dr, nr, er)
        if c not in out and dl + dr + abs(el - er) <= 100:
            out.append(c)
    return out


def c01w_mixed_grid(tier, seed):
    """(digits, narrowest, exponent, built-in type): elastic_integer representation combined with a built-in integer"""
    out = [  # unsigned narrowest, signed built-in, digits ABOVE max(width narrowest, digits built-in)
        (40, 'u32', -8, 'i32'), (12, 'u8', 0, 'i8'), (24, 'u16', -2, 'i32'), (33, 'u32', 0, 'i16'), (40, 'u32', 5, 'i8'), (64, 'u64', -3, 'i32'),
        (20, 'u16', 0, 'i16'), (48, 'u32', -20, 'i64'),
        # ... and at or below it
        (20, 'u32', -4, 'i32'), (6, 'u8', -1, 'i8'), (10, 'u16', 3, 'i16'), (32, 'u32', 0, 'i32'), (16, 'u16', 0, 'i32'),
        # signed narrowest / unsigned built-in
        (40, 'i32', -8, 'i32'), (12, 'i8', 0, 'u8'), (40, 'u32', -8, 'u32'), (16, 'u16', 0, 'u8'), (31, 'i32', 2, 'u64')]
    rnd = random.Random(seed * 977 + 1)
    n = len(out) + (3 if tier == 'quick' else 40)
    while len(out) < n:
        nl = rnd.choice([t for t in ECT if t[0] == 'u']) if rnd.random() < 0.7 else rnd.choice(list(ECT))
        t = rnd.choice([t for t in ECT if t[0] == 'i']) if rnd.random() < 0.7 else rnd.choice(list(ECT))
        d = rnd.choice([5, 9, 12, 17, 24, 31, 32, 33, 40, 48, 63, 64])
        e = rnd.choice([0, 0, -1, -3, -8, -15, 2, 6, -25])
        c = (d, nl, e, t)
        # the built-in operand is multiplied by 2^-e in its promoted type (a constant that must fit)
        if c not in out and -e < _w_digits(t) and d + abs(e) + 64 <= 126:
            out.append(c)
    return out


def _w_limbs(d, n):
    return (d + (1 if n[0] == 'i' else 0) + int(n[1:]) - 1) // int(n[1:])


def c01w_wide_grid(tier, seed):
    """(digits, narrowest, exponent, digits, narrowest, exponent, radix): scaled_integer over MULTI-WORD wide_integer (more than
    127 / 128 digits); both operands have the same narrowest type and limb count (the digits may differ); radix 10, 3, 5 and 2
    (signed), radix 2 (unsigned)"""
    out = [(200, 'i32', -2, 200, 'i32', -4, 10), (300, 'i64', -1, 260, 'i64', -3, 10), (200, 'u32', 3, 200, 'u32', -4, 2),
           (200, 'i32', -4, 200, 'i32', -4, 10), (150, 'i64', 0, 180, 'i64', -5, 3), (130, 'i16', 2, 140, 'i16', -1, 10),
           (128, 'i32', -6, 128, 'i32', -3, 2), (129, 'u64', 1, 140, 'u64', -2, 2)]
    rnd = random.Random(seed * 3571 + 29)
    n = len(out) + (4 if tier == 'quick' else 40)
    while len(out) < n:
        nw = rnd.choice(['i32', 'u32', 'i64', 'u64', 'i32', 'i64', 'u16', 'i8'])
        lo = 128 if nw[0] == 'i' else 129
        dl = rnd.choice([lo, lo + 1, 160, 191, 192, 200, 255, 256, 300, 400])
        cand = [d for d in range(lo, 420) if _w_limbs(d, nw) == _w_limbs(dl, nw)]
        dr = rnd.choice([dl, rnd.choice(cand)])
        # (an unsigned multi-word representation has no power_value for a radix other than 2: its product with the int radix
        # is a signed wide_integer, and the conversion back does not compile)
        rx = rnd.choice([10, 10, 3, 2, 5]) if nw[0] == 'i' else 2
        el = rnd.randint(-6, 4)
        er = el + rnd.choice([0, 1, -1, 2, -3, 5, -7] if rx != 2 else [0, 1, -3, 17, -40, 64, -100])
        c = (dl, nw, el, dr, nw, er, rx)
        if c not in out and rx ** abs(el - er) < 2 ** (min(dl, dr) - 3):
            out.append(c)
    return out


def c01w_const_grid(tier, seed):
    """(rep, exponent) and (digits, narrowest, exponent): the scaled_integer next to a cnl::constant<V> operand (the constants are
    the fixed list C01W_CONSTS of the header: both signs, trailing zero bits, beyond 31 digits); every built-in representation"""
    b = [('u8', -4), ('u16', -8), ('u32', -4), ('u64', 0), ('i16', 2), ('i8', -3), ('i32', -16), ('i64', -10), ('u8', 0), ('u16', 3)]
    e = [(10, 'u32', -4), (8, 'u8', 0), (16, 'u16', -8), (24, 'u32', 3), (40, 'u64', -2), (12, 'i16', -4), (31, 'i32', 0)]
    rnd = random.Random(seed * 4219 + 5)
    for _ in range(2 if tier == 'quick' else 24):
        c = (rnd.choice(list(ECT)), rnd.randint(-20, 8))
        if c not in b:
            b.append(c)
        c = (rnd.choice([3, 7, 8, 15, 16, 20, 31, 32, 33, 48]), rnd.choice([t for t in ECT if t[0] == 'u'] + ['i32']), rnd.randint(-12, 6))
        if c not in e:
            e.append(c)
    return b, e


def c01w_tus(tier, seed):
    whdr = os.path.join(os.path.dirname(os.path.abspath(__file__)), 'C01w.h')
    res = []

    def emit(name, define, base, calls, per):
        for i in range(0, len(calls), per):
            body = '#define %s 1\n#include "%s"\nint main(){ install(); Rng rng(seed_from_env()+%d);\n' % (define, whdr, base + i)
            body += ''.join('  %s(rng);\n' % c for c in calls[i:i + per]) + '}\n'
            comp = 'clang++' if (tier == 'thorough' and (i // per) % 4 == 3) else 'g++'
            # the model follows the intrinsic detection path (the default of GCC builds); Clang builds default to the portable
            # predicates, whose treatment of operands of different signedness is the open class C06.portable_mixed_signedness
            res.append(dict(name='C01w_%s_%d' % (name, i // per), src=body, compiler=comp, defines=['CNL_VERIF_OVERFLOW_PATH=1']))

    emit('overflow', 'SEC_C01WO', 9000,
         ['ogo<%s, %s, %d, %s, %d, %d>' % (W_TAGS[tg], ECT[a], e1, ECT[b], e2, rx) for (tg, a, e1, b, e2, rx) in c01w_overflow_grid(tier, seed)], 4)
    emit('neg', 'SEC_C01WO', 9200,
         ['oneg<%s, %s, %d, %d>' % (W_TAGS[tg], ECT[t], e, rx) for (tg, t, e, rx) in c01w_neg_grid(tier, seed)], 10)
    emit('safe', 'SEC_C01WOE', 9400,
         ['oego<%s, %d, %s, %d, %d, %s, %d>' % (W_TAGS[tg], dl, ECT[nl], el, dr, ECT[nr], er) for (tg, dl, nl, el, dr, nr, er) in c01w_safe_grid(tier, seed)], 3)
    emit('mixed', 'SEC_C01WEB', 9600,
         ['ebgo<%d, %s, %d, %s>' % (d, ECT[nl], e, ECT[t]) for (d, nl, e, t) in c01w_mixed_grid(tier, seed)], 4)
    emit('wide', 'SEC_C01WW', 9800,
         ['wwgo<%d, %s, %d, %d, %s, %d, %d>' % (dl, ECT[nl], el, dr, ECT[nr], er, rx) for (dl, nl, el, dr, nr, er, rx) in c01w_wide_grid(tier, seed)], 3)
    cb, ce = c01w_const_grid(tier, seed)
    emit('const', 'SEC_C01WC', 10000, ['cgo<%s, %d>' % (ECT[t], e) for (t, e) in cb], 3)
    emit('conste', 'SEC_C01WC', 10200, ['cego<%d, %s, %d>' % (d, ECT[n], e) for (d, n, e) in ce], 3)
    return res


RULE = ("per compiled (Rep1, Exponent1, Rep2, Exponent2, Radix): boundary lattices of both representation types cross-multiplied plus seeded "
        "random values; non-trivial = the property's own restriction holds (aligned operands and exact result fit the promoted representation)")
