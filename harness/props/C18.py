"""C18 — bit and digit-counting utilities.

Instantiation grid: every built-in integer width (8/16/32/64/128; both 64-bit spellings) x three code
configurations: g++ (all intrinsic specialisations), clang++ (clz/popcount intrinsics, generic ctz/clrsb) and
CNL_USE_GCC_INTRINSICS=0 (the generic recursive definitions at every width).  g++ AND clang++ run in the quick
tier too, because the code under test differs by compiler.  The seed varies the random values, the random
rotation counts and which extra compiler runs the generic configuration."""
import os

H = __file__.replace('.py', '.h')

GROUPS = {
    # name: list of (kind, C++ type, all rotation counts on every value?)
    'w8_128': [('u', 'unsigned char', True), ('s', 'signed char', False), ('u', 'vh::U', False), ('s', 'vh::I', False)],
    'u16': [('u', 'unsigned short', False)],
    'i16': [('s', 'short', False)],
    'w32': [('u', 'unsigned', False), ('s', 'int', False)],
    'w64': [('u', 'unsigned long', False), ('s', 'long', False), ('u', 'unsigned long long', False), ('s', 'long long', False)],
}

CONFIGS = {
    'gcc': dict(compiler='g++', defines=[]),
    'clang': dict(compiler='clang++', defines=[]),
    'gen': dict(compiler='g++', defines=['CNL_USE_GCC_INTRINSICS=0']),
    'gen_clang': dict(compiler='clang++', defines=['CNL_USE_GCC_INTRINSICS=0']),
}


def body(group, salt, thorough):
    s = '#include "%s"\nint main(){ install(); Rng rng(seed_from_env()*131+%d);\n' % (H, salt)
    for kind, t, allrot in GROUPS[group]:
        if kind == 'u':
            s += '  go_unsigned<%s>(rng, %s);\n' % (t, 'true' if (allrot or (thorough and '16' in group)) else 'false')
        else:
            s += '  go_signed<%s>(rng);\n' % t
    return s + '}\n'


SWEEP_SRC = '''#define C18_SWEEP 1
#include "%s"
int main(){ install();
  unsigned long long lo = C18_LO, hi = C18_HI;
  Rng rng(seed_from_env()*977+lo);
  unsigned s1 = unsigned(rng.next()), s2 = 1 + unsigned(rng.below(31));
  sweep(lo, hi, s1, s2);
}
''' % H


def tus(tier, seed):
    thorough = tier == 'thorough'
    cfgs = ['gcc', 'clang', 'gen']
    if thorough:
        cfgs.append('gen_clang')
    res = []
    salt = 0
    for c in cfgs:
        for g in GROUPS:
            salt += 1
            res.append(dict(name='C18_%s_%s' % (c, g), src=body(g, salt, thorough), run_timeout=1200, **CONFIGS[c]))
    if thorough:
        # supplementary search, NOT part of the model tie: all 2^32 values of the 32-bit functions against <bit>,
        # run inside the harness; prints one summary line per chunk and any mismatching input
        chunks = 16
        step = (1 << 32) // chunks
        for c in ['gcc', 'clang', 'gen']:
            for i in range(chunks):
                lo, hi = i * step, (i + 1) * step - 1
                # the chunk bounds are part of the source text: every chunk is its own cached binary
                src = '#define C18_LO %dull\n#define C18_HI %dull\n' % (lo, hi) + SWEEP_SRC
                res.append(dict(name='C18_sweep32_%s_%d' % (c, i), src=src, opt='-O2', run_timeout=3000, **CONFIGS[c]))
    return res


THOROUGH_SCALE = 6
EXHAUSTIVE = True
RULE = ("every value of the 8- and 16-bit types (exhaustive) for every function and every code configuration; boundary lattice "
        "(0, all-ones, every power of two and its neighbours, lowest/max) + seeded structured random values for 32/64/128-bit; "
        "rotation counts 0..2w on all 8-bit values and on the lattice, corner counts {0,1,w-1,w,w+1,2w,random} and huge counts elsewhere; "
        "non-trivial = the property constrains the case (all but ceil2 above 2^(w-1)) and the line is distinct")
TRUSTED = ["GCC documentation of __builtin_clz/ctz/clrsb/popcount (undefined at 0 for clz/ctz) as transcribed in CnlModel.Bits",
           "thorough tier only: libstdc++ <bit> as the comparison oracle of the supplementary 2^32 sweep (not part of the model tie)"]
ASSUMPTIONS = ["counts are C++ int; every count is within [-1, w+1] (proved), so int arithmetic cannot overflow for any width below 2^31 - 1",
               "ceil2(x) for x > 2^(w-1) is outside the property (std::bit_ceil has the same precondition); model and code are only compared there"]
