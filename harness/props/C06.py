"""C06 — overflow detected exactly and handled per tag.  Grid: tag x path x operand type pairs."""
import random

CT = {'i8': 'std::int8_t', 'u8': 'std::uint8_t', 'i16': 'std::int16_t', 'u16': 'std::uint16_t',
      'i32': 'std::int32_t', 'u32': 'std::uint32_t', 'i64': 'std::int64_t', 'u64': 'std::uint64_t',
      'i128': 'vh::I', 'u128': 'vh::U'}
TAGS = {'sat': 'saturated_overflow_tag', 'thr': '_impl::throwing_overflow_tag', 'trp': 'trapping_overflow_tag'}
TABLE = 'C06'


def grid(tier, seed):
    rnd = random.Random(seed * 65537 + 6)
    types = list(CT)
    pairs = [(a, b) for a in types for b in types]
    rnd.shuffle(pairs)
    fixed = [('i32', 'i32'), ('i32', 'u32'), ('u32', 'i32'), ('i8', 'i8'), ('u8', 'u8'), ('i64', 'i32'), ('i64', 'u32'),
             ('u64', 'i64'), ('i8', 'u32'), ('i16', 'u16'), ('i128', 'i64'), ('u32', 'i8')]
    n = 20 if tier == 'quick' else 100
    chosen = fixed + [p for p in pairs if p not in fixed][:n]
    out = []
    for k, (a, b) in enumerate(chosen):
        # every pair under the saturated tag on both paths; the other tags rotate
        out.append(('sat', 1, a, b))
        out.append(('sat', 2, a, b))
        t = ['thr', 'trp'][(k + seed) % 2]
        out.append((t, 1 + (k % 2), a, b))
        if tier == 'thorough':
            out.append((t, 2 - (k % 2), a, b))
    return out


def tus(tier, seed, table=None):
    table = table or TABLE
    combos = grid(tier, seed)
    res = []
    per = 2
    by_path = {1: [c for c in combos if c[1] == 1], 2: [c for c in combos if c[1] == 2]}
    idx = 0
    for path, cs in by_path.items():
        for i in range(0, len(cs), per):
            body = '#define VH_TABLE "%s"\n#include "%s"\nint main(){ install(); Rng rng(seed_from_env()+%d);\n' % (
                table, __file__.replace('C07.py', 'C06.py').replace('.py', '.h'), idx)
            for (tag, _, a, b) in cs[i:i + per]:
                body += '  pair<%s, %s, %s>(rng);\n' % (TAGS[tag], CT[a], CT[b])
                if a not in ('i128', 'u128') and b not in ('i128', 'u128'):
                    body += '  { std::vector<%s> lv; std::vector<%s> rv; operands<%s,%s>(rng, lv, rv); wrapped<%s, %s, %s>(lv, rv); }\n' % (
                        CT[a], CT[b], CT[a], CT[b], TAGS[tag], CT[a], CT[b])
            body += '}\n'
            # GCC and Clang take different branches of the headers: both compilers in every tier
            comp = 'clang++' if (idx % 3 == 2) else 'g++'
            res.append(dict(name='%s_p%d_%d_%s' % (table, path, idx, comp), src=body, compiler=comp,
                            defines=['CNL_VERIF_OVERFLOW_PATH=%d' % path]))
            idx += 1
    # every one of the 100 operand type pairs, + - * under the saturated tag on the intrinsic path
    # (the intrinsic branch has type-dependent fast paths); the portable path gets the same sweep in the thorough tier
    allp = [(a, b) for a in CT for b in CT]
    for path in ([1] if tier == 'quick' else [1, 2]):
        for i in range(0, len(allp), 10):
            body = '#define VH_TABLE "%s"\n#include "%s"\nint main(){ install(); Rng rng(seed_from_env()+%d);\n' % (
                table, __file__.replace('C07.py', 'C06.py').replace('.py', '.h'), 800 + i)
            for (a, b) in allp[i:i + 10]:
                body += '  pair_arith<%s, %s, %s>(rng);\n' % (TAGS['sat'], CT[a], CT[b])
            body += '}\n'
            res.append(dict(name='%s_all_p%d_%d' % (table, path, i // 10), src=body, compiler='g++', defines=['CNL_VERIF_OVERFLOW_PATH=%d' % path]))
    # floating-point sources
    FT = {'f32': 'float', 'f64': 'double', 'f80': 'long double'}
    fc = [('sat', 'f32', 'i32'), ('sat', 'f64', 'i64'), ('thr', 'f32', 'u8'), ('trp', 'f64', 'u32'), ('sat', 'f80', 'i64'), ('sat', 'f32', 'i8'),
          ('thr', 'f64', 'i16'), ('sat', 'f64', 'u64'), ('trp', 'f32', 'i64')]
    for i in range(0, len(fc), 3):
        body = '#define VH_TABLE "%s"\n#include "%s"\nint main(){ install(); Rng rng(seed_from_env()+%d);\n' % (
            table, __file__.replace('C07.py', 'C06.py').replace('.py', '.h'), 700 + i)
        for (tag, f, d) in fc[i:i + 3]:
            body += '  cvtf<%s, %s, %s>(rng);\n' % (TAGS[tag], FT[f], CT[d])
        body += '}\n'
        res.append(dict(name='%s_float_%d' % (table, i // 3), src=body, compiler='g++' if i % 2 == 0 else 'clang++', defines=['CNL_VERIF_OVERFLOW_PATH=1']))
    return res


RULE = ("per compiled (tag, path, Lhs, Rhs): boundary lattices of both operand types cross-multiplied, plus the operands solving the "
        "predicates' branch conditions (max / r, lowest / r and neighbours) and seeded random values; non-trivial = divisor non-zero and shift count non-negative")
