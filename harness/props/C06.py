"""C06 — overflow detected exactly and handled per tag.  Grid: tag x path x operand type pairs."""
import random

CT = {'i8': 'std::int8_t', 'u8': 'std::uint8_t', 'i16': 'std::int16_t', 'u16': 'std::uint16_t',
      'i32': 'std::int32_t', 'u32': 'std::uint32_t', 'i64': 'std::int64_t', 'u64': 'std::uint64_t',
      'i128': 'vh::I', 'u128': 'vh::U'}
TAGS = {'sat': 'saturated_overflow_tag', 'thr': '_impl::throwing_overflow_tag', 'trp': 'trapping_overflow_tag'}
TABLE = 'C06'


def grid(tier, seed):
    rnd = random.Random(seed * 65537 + 6)
    types = list(CT)
    pairs = [(a, b) for a in types for b in types]
    rnd.shuffle(pairs)
    fixed = [('i32', 'i32'), ('i32', 'u32'), ('u32', 'i32'), ('i8', 'i8'), ('u8', 'u8'), ('i64', 'i32'), ('i64', 'u32'),
             ('u64', 'i64'), ('i8', 'u32'), ('i16', 'u16'), ('i128', 'i64'), ('u32', 'i8')]
    n = 20 if tier == 'quick' else 100
    chosen = fixed + [p for p in pairs if p not in fixed][:n]
    out = []
    for k, (a, b) in enumerate(chosen):
        # every pair under the saturated tag on both paths; the other tags rotate
        out.append(('sat', 1, a, b))
        out.append(('sat', 2, a, b))
        t = ['thr', 'trp'][(k + seed) % 2]
        out.append((t, 1 + (k % 2), a, b))
        if tier == 'thorough':
            out.append((t, 2 - (k % 2), a, b))
    return out


def tus(tier, seed, table=None):
    table = table or TABLE
    combos = grid(tier, seed)
    res = []
    per = 2
    by_path = {1: [c for c in combos if c[1] == 1], 2: [c for c in combos if c[1] == 2]}
    idx = 0
    for path, cs in by_path.items():
        for i in range(0, len(cs), per):
            body = '#define VH_TABLE "%s"\n#include "%s"\nint main(){ install(); Rng rng(seed_from_env()+%d);\n' % (
                table, __file__.replace('C07.py', 'C06.py').replace('.py', '.h'), idx)
            for (tag, _, a, b) in cs[i:i + per]:
                body += '  pair<%s, %s, %s>(rng);\n' % (TAGS[tag], CT[a], CT[b])
                if a not in ('i128', 'u128') and b not in ('i128', 'u128'):
                    body += '  { std::vector<%s> lv; std::vector<%s> rv; operands<%s,%s>(rng, lv, rv); wrapped<%s, %s, %s>(lv, rv); }\n' % (
                        CT[a], CT[b], CT[a], CT[b], TAGS[tag], CT[a], CT[b])
            body += '}\n'
            # GCC and Clang take different branches of the headers: both compilers in every tier
            comp = 'clang++' if (idx % 3 == 2) else 'g++'
            res.append(dict(name='%s_p%d_%d_%s' % (table, path, idx, comp), src=body, compiler=comp,
                            defines=['CNL_VERIF_OVERFLOW_PATH=%d' % path]))
            idx += 1
    # every one of the 100 operand type pairs, + - * under the saturated tag on the intrinsic path
    # (the intrinsic branch has type-dependent fast paths); the portable path gets the same sweep in the thorough tier
    allp = [(a, b) for a in CT for b in CT]
    for path in ([1] if tier == 'quick' else [1, 2]):
        for i in range(0, len(allp), 10):
            body = '#define VH_TABLE "%s"\n#include "%s"\nint main(){ install(); Rng rng(seed_from_env()+%d);\n' % (
                table, __file__.replace('C07.py', 'C06.py').replace('.py', '.h'), 800 + i)
            for (a, b) in allp[i:i + 10]:
                body += '  pair_arith<%s, %s, %s>(rng);\n' % (TAGS['sat'], CT[a], CT[b])
            body += '}\n'
            res.append(dict(name='%s_all_p%d_%d' % (table, path, i // 10), src=body, compiler='g++', defines=['CNL_VERIF_OVERFLOW_PATH=%d' % path]))
    # wrapper shifted by wrapper (count types of every width, counts far beyond the widths)
    wp = [('i32', 'u32'), ('i32', 'i64'), ('u32', 'u64'), ('i64', 'u32'), ('i8', 'u16'), ('u64', 'i64'), ('i16', 'i32'), ('u8', 'u8')]
    for i in range(0, len(wp), 4):
        tg = ['sat', 'thr', 'trp'][(seed + i // 4) % 3]
        body = '#define VH_TABLE "%s"\n#include "%s"\nint main(){ install(); Rng rng(seed_from_env()+%d);\n' % (
            table, __file__.replace('C07.py', 'C06.py').replace('.py', '.h'), 900 + i)
        for (a, b) in wp[i:i + 4]:
            body += '  wshift<%s, %s, %s>(rng);\n' % (TAGS[tg], CT[a], CT[b])
        body += '}\n'
        res.append(dict(name='%s_wshift_%d' % (table, i // 4), src=body, compiler='clang++' if i else 'g++', defines=['CNL_VERIF_OVERFLOW_PATH=%d' % (1 if i else 2)]))
    # ++ / -- on overflow_integer; overflow_integer over class-type representations with a most negative number
    for k, (tg, pth, comp) in enumerate([('sat', 1, 'g++'), ('thr', 2, 'clang++'), ('trp', 1, 'g++')]):
        if k != seed % 3 and tier == 'quick' and k != (seed + 1) % 3:
            continue
        body = '#define VH_TABLE "%s"\n#include "%s"\n#include <cnl/rounding_integer.h>\n#include <cnl/wide_integer.h>\nint main(){ install(); Rng rng(seed_from_env()+%d);\n' % (
            table, __file__.replace('C07.py', 'C06.py').replace('.py', '.h'), 950 + k)
        for t in ['i8', 'u8', 'i16', 'i32', 'u32', 'i64', 'u64']:
            body += '  wincdec<%s, %s>(rng);\n' % (TAGS[tg], CT[t])
        body += '  wclass<%s, rounding_integer<std::int32_t, native_rounding_tag>, std::int32_t>(rng);\n' % TAGS[tg]
        body += '  wclass<%s, wide_integer<31, int>, std::int32_t>(rng);\n' % TAGS[tg]
        body += '  wclass<%s, rounding_integer<std::int64_t, native_rounding_tag>, std::int64_t>(rng);\n' % TAGS[tg]
        body += '}\n'
        res.append(dict(name='%s_winc_%s' % (table, tg), src=body, compiler=comp, defines=['CNL_VERIF_OVERFLOW_PATH=%d' % pth]))
    # floating-point sources
    FT = {'f32': 'float', 'f64': 'double', 'f80': 'long double'}
    # every floating format x every destination type (the limit of a destination with more digits than the
    # format holds rounds to a power of two: the repaired boundary); the tag rotates with the seed
    tags3 = ['sat', 'thr', 'trp']
    fc = []
    for fi, f in enumerate(FT):
        for di, d in enumerate(CT):
            fc.append((tags3[(fi + di + seed) % 3], f, d))
    per_f = 5
    for i in range(0, len(fc), per_f):
        body = '#define VH_TABLE "%s"\n#include "%s"\nint main(){ install(); Rng rng(seed_from_env()+%d);\n' % (
            table, __file__.replace('C07.py', 'C06.py').replace('.py', '.h'), 700 + i)
        for (tag, f, d) in fc[i:i + per_f]:
            body += '  cvtf<%s, %s, %s>(rng);\n' % (TAGS[tag], FT[f], CT[d])
        body += '}\n'
        k = i // per_f
        res.append(dict(name='%s_float_%d' % (table, k), src=body, compiler='g++' if k % 2 == 0 else 'clang++',
                        defines=['CNL_VERIF_OVERFLOW_PATH=%d' % (1 + (k % 3 == 2))]))
    # shift counts around the width of the promoted left operand: every left operand type, both paths
    rts = ['i32', 'u8', 'u64', 'i8', 'u16', 'i64']
    sh = []
    for li, a in enumerate(CT):
        for j in range(2 if tier == 'quick' else 4):
            b = rts[(li + j * 3 + seed) % len(rts)]
            sh.append((tags3[(li + j + seed) % 3], a, b))
    per_s = 7
    for i in range(0, len(sh), per_s):
        k = i // per_s
        for path in ([1 + (k % 2)] if tier == 'quick' else [1, 2]):
            body = '#define VH_TABLE "%s"\n#include "%s"\nint main(){ install(); Rng rng(seed_from_env()+%d);\n' % (
                table, __file__.replace('C07.py', 'C06.py').replace('.py', '.h'), 900 + i)
            for (tag, a, b) in sh[i:i + per_s]:
                body += '  shift_dense<%s, %s, %s>(rng);\n' % (TAGS[tag], CT[a], CT[b])
            body += '}\n'
            res.append(dict(name='%s_shift_p%d_%d' % (table, path, k), src=body, compiler='clang++' if k % 3 == 1 else 'g++',
                            defines=['CNL_VERIF_OVERFLOW_PATH=%d' % path]))
    res += extra_tus(tier, seed, table)
    return res


def _tu(table, idx, lines, extra_inc=''):
    hdr = __file__.replace('C07.py', 'C06.py').replace('.py', '.h')
    return '#define VH_TABLE "%s"\n#include "%s"\n%sint main(){ install(); Rng rng(seed_from_env()+%d);\n%s}\n' % (
        table, hdr, extra_inc, idx, ''.join('  ' + l + '\n' for l in lines))


W8 = ['i8', 'u8', 'i16', 'u16', 'i32', 'u32', 'i64', 'u64']
# scaled_integer<S, power<eS, rS>> -> scaled_integer<overflow_integer<D, Tag>, power<eD, rD>>, rS != rD
# (the powers fit the promoted source type: the library asserts it)
SXR = [('i32', 0, 2, 'i32', -3, 10), ('i32', 4, 2, 'i32', -3, 10), ('i32', 0, 2, 'i32', -1, 10), ('i64', 0, 2, 'i32', -3, 10),
       ('i64', 0, 2, 'i64', -6, 10), ('i16', 0, 2, 'i16', -2, 10), ('i8', 3, 2, 'i32', -2, 10), ('u32', 0, 2, 'u32', -3, 10),
       ('u32', 2, 2, 'i32', -1, 10), ('i32', -4, 2, 'i32', -2, 10), ('i32', 0, 2, 'i32', 2, 10), ('i32', 0, 2, 'u32', -2, 10),
       ('i32', -3, 10, 'i32', -8, 2), ('i32', 0, 10, 'i32', -10, 2), ('i32', 2, 10, 'i16', 0, 2), ('i64', -2, 10, 'i64', -20, 2),
       ('u8', 1, 10, 'u8', -1, 2), ('i32', 3, 10, 'i64', -4, 2), ('u16', 0, 2, 'i8', -1, 10), ('i64', 10, 2, 'i64', -9, 10),
       ('i32', 0, 2, 'i32', -2, 3), ('u64', 0, 3, 'u64', -5, 2), ('i16', 1, 10, 'i32', 1, 2), ('i32', -2, 10, 'i32', 3, 2)]


def extra_tus(tier, seed, table):
    """operand kinds beyond tagged operators on built-in operands: overflow_integer converted as a number,
    radix-changing scaled_integer conversions into an overflow_integer representation"""
    res = []
    tags3 = ['sat', 'thr', 'trp']
    # -- conversions between overflow_integers / to built-ins / from built-ins and other wrappers: all 64 pairs of the
    #    8..64-bit types, the tag rotating with the seed; the signed -> unsigned pairs of the same or a greater width
    #    (where `digits` suggests "fits" and the sign says otherwise) under every tag
    inst = []
    for i, (a, b) in enumerate((a, b) for a in W8 for b in W8):
        s2u = a[0] == 'i' and b[0] == 'u' and int(b[1:]) >= int(a[1:])
        for k, tg in enumerate(tags3):
            if s2u or k == (i + seed) % 3 or tier == 'thorough':
                inst.append('wcvt<%s, %s, %s>(rng);' % (TAGS[tg], CT[a], CT[b]))
    per = 14
    for i in range(0, len(inst), per):
        k = i // per
        res.append(dict(name='%s_wcvt_%d' % (table, k), src=_tu(table, 1100 + i, inst[i:i + per]), compiler='clang++' if k % 3 == 1 else 'g++',
                        defines=['CNL_VERIF_OVERFLOW_PATH=%d' % (1 + k % 2)]))
    el = []
    for j, (ed, n, ds) in enumerate([(20, 'int', ['u8', 'i16', 'u32', 'u64', 'i8']), (12, 'unsigned', ['i8', 'u8', 'i16']),
                                     (40, 'int', ['u32', 'i32', 'u64', 'i16']), (31, 'int', ['u32', 'u64', 'i16']),
                                     (7, 'std::int8_t', ['u8', 'u16', 'u64'])]):
        for m, d in enumerate(ds):
            el.append('wcvt_elastic<%s, %d, %s, %s>(rng);' % (TAGS[tags3[(j + m + seed) % 3]], ed, n, CT[d]))
    res.append(dict(name='%s_wcvt_elastic' % table, src=_tu(table, 1190, el), compiler='g++', defines=['CNL_VERIF_OVERFLOW_PATH=1']))
    # -- cnl::constant<V> sources (tagged convert functor and overflow_integer constructor): constants of every built-in
    #    integer type of 32..128 bits (the types literals and `_c` have), every destination type, every tag; the limits of the
    #    destination and their neighbours, -1, the limits of the constant's own type
    CS = {'i32': ('int', -2**31, 2**31 - 1), 'u32': ('unsigned', 0, 2**32 - 1), 'i64': ('long long', -2**63, 2**63 - 1),
          'u64': ('unsigned long long', 0, 2**64 - 1), 'i128': ('vh::I', -2**127, 2**127 - 1), 'u128': ('vh::U', 0, 2**128 - 1)}

    def lit(st, v):
        ct = CS[st][0]
        if -2**63 < v < 2**63:
            return '(%s)(%dLL)' % (ct, v)
        if v == -2**63:
            return '(%s)(-%dLL - 1)' % (ct, 2**63 - 1)
        if 0 <= v < 2**64:
            return '(%s)(%dULL)' % (ct, v)
        a = abs(v)
        e = '((vh::U(%dULL) << 64) | vh::U(%dULL))' % (a >> 64, a & (2**64 - 1))
        return '(%s)(%s)' % (ct, e) if v > 0 else '(%s)(-vh::I(%s - 1) - 1)' % (ct, e)
    rndc = random.Random(seed * 911 + 3)
    cc = []
    for j, d in enumerate(CT):
        db = int(d[1:])
        dlo, dhi = (-2**(db - 1), 2**(db - 1) - 1) if d[0] == 'i' else (0, 2**db - 1)
        for m, st in enumerate(CS):
            slo, shi = CS[st][1], CS[st][2]
            cand = [dhi, dhi + 1, dlo, dlo - 1, -1, 0, slo, shi, dhi // 2, 100, -2000000000, 4000000000, rndc.randint(slo, shi)]
            vs = []
            for v in cand:
                if slo <= v <= shi and v not in vs:
                    vs.append(v)
            for n, v in enumerate(vs):
                for k, tg in enumerate(tags3):
                    mixed_out = (st[0] != d[0]) and not (dlo <= v <= dhi)
                    if mixed_out or k == (j + m + n + seed) % 3 or tier == 'thorough':
                        cc.append('ccvt<%s, %s, %s>();' % (TAGS[tg], CT[d], lit(st, v)))
    per = 150
    for i in range(0, len(cc), per):
        k = i // per
        res.append(dict(name='%s_ccvt_%d' % (table, k), src=_tu(table, 1300 + i, cc[i:i + per]), compiler='clang++' if k % 3 == 1 else 'g++',
                        defines=['CNL_VERIF_OVERFLOW_PATH=%d' % (1 + k % 2)]))
    # -- radix-changing scaled conversions, every combination under two of the three tags per seed, both paths
    sx = []
    for i, c in enumerate(SXR):
        for k, tg in enumerate(tags3):
            if k != (i + seed) % 3 or tier == 'thorough':
                sx.append('sxr<%s, %s, %d, %d, %s, %d, %d>(rng);' % ((TAGS[tg], CT[c[0]]) + c[1:3] + (CT[c[3]],) + c[4:]))
    per = 12
    for i in range(0, len(sx), per):
        k = i // per
        res.append(dict(name='%s_sxr_%d' % (table, k), src=_tu(table, 1200 + i, sx[i:i + per]), compiler='clang++' if k % 3 == 2 else 'g++',
                        defines=['CNL_VERIF_OVERFLOW_PATH=%d' % (1 + k % 2)]))
    return res


RULE = ("per compiled (tag, path, Lhs, Rhs): boundary lattices of both operand types cross-multiplied, plus the operands solving the "
        "predicates' branch conditions (max / r, lowest / r and neighbours) and seeded random values; shifts additionally for every left operand type with "
        "counts 0..2, digits-2..digits+1, width-1..width+2, 2*width-1..2*width+1, 127..129, 255, 256 of the promoted left operand; floating-point sources: "
        "every format (float, double, long double) x every destination type, the limits and the powers of two they round to with +-1, +-2 ulp and "
        "fractional neighbours, zero and the smallest magnitudes; overflow_integer converted as a number (constructor from a related wrapper, assignment, "
        "function argument, conversion operator to a built-in, constructor from a built-in / rounding_integer / elastic_integer) for all 64 pairs of 8..64-bit "
        "types, signed -> unsigned of the same or a greater width under every tag, the limits of the destination and their neighbours; scaled_integer "
        "conversions between radixes 2, 3 and 10 into an overflow_integer representation with the values that solve max / factor for every stage; "
        "non-trivial = divisor non-zero and shift count non-negative")
