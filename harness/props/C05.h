// C05: elastic_integer arithmetic never overflows and stays within its declared digits
#include "vh.h"
using namespace cnl;
using namespace vh;
static const bool vh_strict_on = (vh::strict = true);

template<class Z>
void print_el(Z const& z)
{
    // type string, storage type, value
    fputs(tn<Z>().c_str(), stdout);
    putchar('/');
    using R = _impl::rep_of_t<Z>;
    fputs(tn<R>().c_str(), stdout);
    putchar(':');
    prv(_impl::to_rep(z));
}

// operand values of an elastic_integer<D,N>: exhaustive for D <= 6, else lattice within the declared range
template<int D, class N>
std::vector<I> evals(Rng& rng)
{
    std::vector<I> v;
    constexpr bool sg = std::is_signed_v<N>;
    I hi = (D >= 127) ? I(~U(0) >> 1) : ((I(1) << D) - 1);
    I lo = sg ? -hi : 0;
    if (D <= 6) {
        for (I x = lo; x <= hi; ++x) v.push_back(x);
        return v;
    }
    auto add = [&](I x) {
        if (x < lo || x > hi) return;
        for (I y : v)
            if (y == x) return;
        v.push_back(x);
    };
    for (int d = 0; d <= 2; ++d) {
        add(hi - d);
        add(lo + d);
        add(d);
        add(-d);
    }
    for (int k = 1; k < D; k += (D > 40 ? 11 : D > 16 ? 5 : 2)) {
        I p = I(1) << k;
        add(p);
        add(p - 1);
        add(p + 1);
        add(-p);
        add(-p + 1);
        add(-p - 1);
    }
    add(hi / 2);
    add(hi / 2 + 1);
    add(hi / 3);
    add(lo / 2);
    add(lo / 3);
    for (int i = 0; i < 4 * scale_from_env(); ++i) {
        U x = rng.next128();
        int len = 1 + rng.below(D);
        if (len < 128) x &= ((U(1) << len) - 1);
        I t = I(x & U(hi));
        if (sg && rng.below(2)) t = -t;
        add(t);
    }
    return v;
}

#if !defined(VH_ETABLE)
#define VH_ETABLE "C05"
#endif
#define EHEAD(KIND, NAME) \
    printf(VH_ETABLE " " KIND " " NAME " %d %s %d %s ", LD, tn<LN>().c_str(), RD, tn<RN>().c_str()); \
    pri(l); \
    putchar(' '); \
    pri(r); \
    fputs(" => ", stdout);

template<int LD, class LN, int RD, class RN>
void bin(Rng& rng)
{
    using A = elastic_integer<LD, LN>;
    using B = elastic_integer<RD, RN>;
    using AR = _impl::rep_of_t<A>;
    using BR = _impl::rep_of_t<B>;
    auto lv = evals<LD, LN>(rng);
    auto rv = evals<RD, RN>(rng);
    for (I l : lv)
        for (I r : rv) {
            A a = _impl::from_rep<A>(AR(l));
            B b = _impl::from_rep<B>(BR(r));
#if !defined(VH_CMP_ONLY)
            { EHEAD("bin", "add") VH_RUN(a + b, print_el) }
            { EHEAD("bin", "sub") VH_RUN(a - b, print_el) }
            { EHEAD("bin", "mul") VH_RUN(a * b, print_el) }
            { EHEAD("bin", "div") VH_RUN(a / b, print_el) }
            { EHEAD("bin", "mod") VH_RUN(a % b, print_el) }
#endif
            { EHEAD("cmp", "lt") VH_RUN(a < b, print_tv) }
            { EHEAD("cmp", "le") VH_RUN(a <= b, print_tv) }
            { EHEAD("cmp", "gt") VH_RUN(a > b, print_tv) }
            { EHEAD("cmp", "ge") VH_RUN(a >= b, print_tv) }
            { EHEAD("cmp", "eq") VH_RUN(a == b, print_tv) }
            { EHEAD("cmp", "ne") VH_RUN(a != b, print_tv) }
        }
}

template<int LD, class LN, int K>
void un(Rng& rng)
{
    using A = elastic_integer<LD, LN>;
    using AR = _impl::rep_of_t<A>;
    for (I l : evals<LD, LN>(rng)) {
        A a = _impl::from_rep<A>(AR(l));
        printf("C05 neg %d %s ", LD, tn<LN>().c_str());
        pri(l);
        fputs(" => ", stdout);
        VH_RUN(-a, print_el)
        printf("C05 shlc %d %s %d ", LD, tn<LN>().c_str(), K);
        pri(l);
        fputs(" => ", stdout);
        VH_RUN(a << constant<K>{}, print_el)
        if constexpr (K < LD) {
            printf("C05 shrc %d %s %d ", LD, tn<LN>().c_str(), K);
            pri(l);
            fputs(" => ", stdout);
            VH_RUN(a >> constant<K>{}, print_el)
        }
    }
}


#if !defined(VH_CMP_ONLY)
// elastic_integer combined directly with a built-in integer (either side): the built-in operand becomes
// elastic_integer<digits<T>, set_width_t<T, width<LN>>> (from_value.h); lines use the same protocol as bin/cmp
template<int LD, class LN, class T>
void binm(Rng& rng)
{
    using A = elastic_integer<LD, LN>;
    using AR = _impl::rep_of_t<A>;
    constexpr int RD = std::numeric_limits<T>::digits;
    using RN = _impl::set_width_t<T, _impl::width<LN>>;
    auto lv = evals<LD, LN>(rng);
    auto rv = vals<T>(rng, 3 * scale_from_env(), sizeof(T) > 4 ? 13 : 7);
    for (I l : lv)
        for (T b : rv) {
            I r = I(b);
            if (!std::is_signed_v<T> && sizeof(T) == 16) continue;
            A a = _impl::from_rep<A>(AR(l));
            { EHEAD("bin", "add") VH_RUN(a + b, print_el) }
            { EHEAD("bin", "sub") VH_RUN(a - b, print_el) }
            { EHEAD("bin", "mul") VH_RUN(a * b, print_el) }
            { EHEAD("bin", "div") VH_RUN(a / b, print_el) }
            { EHEAD("bin", "mod") VH_RUN(a % b, print_el) }
            { EHEAD("cmp", "lt") VH_RUN(a < b, print_tv) }
            { EHEAD("cmp", "ge") VH_RUN(a >= b, print_tv) }
            { EHEAD("cmp", "eq") VH_RUN(a == b, print_tv) }
        }
    // built-in operand on the left
    for (T b : rv)
        for (I r : lv) {
            I l = I(b);
            A a = _impl::from_rep<A>(AR(r));
            printf(VH_ETABLE " bin sub %d %s %d %s ", RD, tn<RN>().c_str(), LD, tn<LN>().c_str()); pri(l); putchar(' '); pri(r); fputs(" => ", stdout);
            VH_RUN(b - a, print_el)
            printf(VH_ETABLE " bin mul %d %s %d %s ", RD, tn<RN>().c_str(), LD, tn<LN>().c_str()); pri(l); putchar(' '); pri(r); fputs(" => ", stdout);
            VH_RUN(b * a, print_el)
            printf(VH_ETABLE " bin div %d %s %d %s ", RD, tn<RN>().c_str(), LD, tn<LN>().c_str()); pri(l); putchar(' '); pri(r); fputs(" => ", stdout);
            VH_RUN(b / a, print_el)
            printf(VH_ETABLE " cmp gt %d %s %d %s ", RD, tn<RN>().c_str(), LD, tn<LN>().c_str()); pri(l); putchar(' '); pri(r); fputs(" => ", stdout);
            VH_RUN(b > a, print_tv)
        }
}
#endif

#if !defined(VH_CMP_ONLY)
// elastic_scaled_integer = scaled_integer<elastic_integer<D, N>, power<E>>: arithmetic and comparisons with
// different exponents; `_impl::scale<-K>` of the elastic representation (elastic_integer/scale.h)
template<class Z>
void print_es(Z const& z)
{
    fputs(tn<Z>().c_str(), stdout);
    putchar('/');
    using R = _impl::rep_of_t<_impl::rep_of_t<Z>>;
    fputs(tn<R>().c_str(), stdout);
    putchar(':');
    prv(_impl::to_rep(_impl::to_rep(z)));
}
#define SHEAD(KIND, NAME) \
    printf("C05 " KIND " " NAME " %d %s %d %d %s %d ", LD, tn<LN>().c_str(), LE, RD, tn<RN>().c_str(), RE); \
    pri(l); \
    putchar(' '); \
    pri(r); \
    fputs(" => ", stdout);

template<int LD, class LN, int LE, int RD, class RN, int RE>
void sbin(Rng& rng)
{
    using A = scaled_integer<elastic_integer<LD, LN>, power<LE>>;
    using B = scaled_integer<elastic_integer<RD, RN>, power<RE>>;
    using AR = _impl::rep_of_t<elastic_integer<LD, LN>>;
    using BR = _impl::rep_of_t<elastic_integer<RD, RN>>;
    auto lv = evals<LD, LN>(rng);
    auto rv = evals<RD, RN>(rng);
    for (I l : lv)
        for (I r : rv) {
            A a = _impl::from_rep<A>(_impl::from_rep<elastic_integer<LD, LN>>(AR(l)));
            B b = _impl::from_rep<B>(_impl::from_rep<elastic_integer<RD, RN>>(BR(r)));
#if !defined(VH_SCMP_ONLY)
            { SHEAD("sbin", "add") VH_RUN(a + b, print_es) }
            { SHEAD("sbin", "sub") VH_RUN(a - b, print_es) }
            { SHEAD("sbin", "mul") VH_RUN(a * b, print_es) }
            { SHEAD("sbin", "div") VH_RUN(a / b, print_es) }
#endif
            { SHEAD("scmp", "lt") VH_RUN(a < b, print_tv) }
            { SHEAD("scmp", "le") VH_RUN(a <= b, print_tv) }
            { SHEAD("scmp", "gt") VH_RUN(a > b, print_tv) }
            { SHEAD("scmp", "ge") VH_RUN(a >= b, print_tv) }
            { SHEAD("scmp", "eq") VH_RUN(a == b, print_tv) }
            { SHEAD("scmp", "ne") VH_RUN(a != b, print_tv) }
        }
    for (I l : lv) {
        A a = _impl::from_rep<A>(_impl::from_rep<elastic_integer<LD, LN>>(AR(l)));
        printf("C05 sneg %d %s %d ", LD, tn<LN>().c_str(), LE);
        pri(l);
        fputs(" => ", stdout);
        VH_RUN(-a, print_es)
    }
}

// elastic_scaled_integer meeting a cnl::constant<V> operand on either side (from_value<scaled_integer<...>, constant<V>>,
// scaled_integer/num_traits.h).  OPS: 1 = `*`, 2 = `+ -`, 4 = `/` (the generator leaves out what cannot be instantiated)
template<int LD, class LN, int LE, I V, int OPS>
void sconst(Rng& rng)
{
    using E = elastic_integer<LD, LN>;
    using A = scaled_integer<E, power<LE>>;
    using AR = _impl::rep_of_t<E>;
    constexpr constant<V> c{};
#define CHEAD(NAME, SIDE) \
    printf("C05 sconst " NAME " " SIDE " %d %s %d ", LD, tn<LN>().c_str(), LE); \
    pri(V); \
    putchar(' '); \
    pri(l); \
    fputs(" => ", stdout);
    for (I l : evals<LD, LN>(rng)) {
        A a = _impl::from_rep<A>(_impl::from_rep<E>(AR(l)));
        if constexpr ((OPS & 1) != 0) {
            { CHEAD("mul", "r") VH_RUN(a * c, print_es) }
            { CHEAD("mul", "l") VH_RUN(c * a, print_es) }
        }
        if constexpr ((OPS & 2) != 0) {
            { CHEAD("add", "r") VH_RUN(a + c, print_es) }
            { CHEAD("add", "l") VH_RUN(c + a, print_es) }
            { CHEAD("sub", "r") VH_RUN(a - c, print_es) }
            { CHEAD("sub", "l") VH_RUN(c - a, print_es) }
        }
        if constexpr ((OPS & 4) != 0) {
            { CHEAD("div", "r") VH_RUN(a / c, print_es) }
            { CHEAD("div", "l") VH_RUN(c / a, print_es) }
        }
    }
}

template<int LD, class LN, int K>
void scaledn(Rng& rng)
{
    using A = elastic_integer<LD, LN>;
    using AR = _impl::rep_of_t<A>;
    for (I l : evals<LD, LN>(rng)) {
        A a = _impl::from_rep<A>(AR(l));
        printf("C05 scaledn %d %s %d ", LD, tn<LN>().c_str(), K);
        pri(l);
        fputs(" => ", stdout);
        VH_RUN((_impl::scale<-K, 2>(a)), print_el)
    }
}
#endif

#if defined(VH_CMP_ONLY)
// comparisons between a built-in integer and an elastic_integer, integer on either side
template<int LD, class LN, class B>
void cmpi(Rng& rng)
{
    using A = elastic_integer<LD, LN>;
    using AR = _impl::rep_of_t<A>;
    auto lv = evals<LD, LN>(rng);
    auto rv = vals<B>(rng, 4 * scale_from_env(), sizeof(B) > 4 ? 11 : 5);
    for (I l : lv)
        for (B b : rv) {
            A a = _impl::from_rep<A>(AR(l));
#define EIC(SIDE, NAME, EXPR) \
    { \
        printf(VH_ETABLE " eicmp " SIDE " " NAME " %d %s %s ", LD, tn<LN>().c_str(), tn<B>().c_str()); \
        pri(l); \
        putchar(' '); \
        prv(b); \
        fputs(" => ", stdout); \
        VH_RUN(EXPR, print_tv) \
    }
            EIC("r", "lt", a < b) EIC("r", "le", a <= b) EIC("r", "gt", a > b) EIC("r", "ge", a >= b) EIC("r", "eq", a == b) EIC("r", "ne", a != b)
            EIC("l", "lt", b < a) EIC("l", "le", b <= a) EIC("l", "gt", b > a) EIC("l", "ge", b >= a) EIC("l", "eq", b == a) EIC("l", "ne", b != a)
        }
}
#endif
