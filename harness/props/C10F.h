// C10 (floating-point part): cnl::wide_integer<Digits, Narrowest> over multi-limb uintwide_t
//   C10 w2f <ty> <f32|f64|f80> x<hex of the N-bit pattern> => <hex float>      static_cast<F>(wide)
//   C10 f2w <ty> <f32|f64|f80> <hex float>                 => <ty>:x<hex>      wide{F}
// Wide operands are written limb by limb through representation() and read back through crepresentation()
// (never through the code under test); floats are printed as hex floats (%a / %La).
#include "vhf.h"

#include <string>
#include <vector>
using namespace cnl;
using namespace vh;

namespace c10f {

template<class W>
struct WI {
    using R = _impl::rep_of_t<W>;
    using limb = typename R::limb_type;
    static constexpr int n = int(R::number_of_limbs);
    static constexpr int w = std::numeric_limits<limb>::digits;
    static constexpr int N = int(R::my_width2);
    static constexpr bool is_signed = numbers::signedness_v<R>;
};

// an N-bit pattern as 64-bit words, least significant first
struct Big {
    std::vector<std::uint64_t> d;
    int N;
    explicit Big(int bits) : d(std::size_t((bits + 63) / 64), 0), N(bits) {}
    void set(int k, bool b = true)
    {
        if (k < 0 || k >= N) return;
        if (b) d[std::size_t(k / 64)] |= std::uint64_t(1) << (k % 64);
        else d[std::size_t(k / 64)] &= ~(std::uint64_t(1) << (k % 64));
    }
    bool get(int k) const { return k >= 0 && k < N && ((d[std::size_t(k / 64)] >> (k % 64)) & 1); }
    void ones(int lo, int hi)  // bits [lo, hi)
    {
        for (int k = lo; k < hi; ++k) set(k);
    }
    void mask()  // drop bits >= N
    {
        for (int i = N; i < int(d.size()) * 64; ++i) d[std::size_t(i / 64)] &= ~(std::uint64_t(1) << (i % 64));
    }
    Big negated() const  // two's complement within N bits
    {
        Big r(N);
        unsigned carry = 1;
        for (std::size_t i = 0; i < d.size(); ++i) {
            std::uint64_t x = ~d[i];
            std::uint64_t y = x + carry;
            carry = (carry && y == 0) ? 1 : 0;
            r.d[i] = y;
        }
        r.mask();
        return r;
    }
    // v += delta * 2^pos (delta = +1 / -1), wrapping in N bits
    void add_bit(int pos, int delta)
    {
        if (pos < 0 || pos >= N) return;
        if (delta > 0) {
            int k = pos;
            while (k < N && get(k)) { set(k, false); ++k; }
            if (k < N) set(k);
        } else if (delta < 0) {
            int k = pos;
            while (k < N && !get(k)) { set(k); ++k; }
            if (k < N) set(k, false);
        }
    }
};

template<class W>
W mkw(Big const& b)
{
    using I = WI<W>;
    typename I::R r;
    for (int i = 0; i < I::n; ++i) {
        unsigned long long x = 0;
        for (int j = 0; j < I::w; ++j)
            if (b.get(i * I::w + j)) x |= 1ull << j;
        r.representation()[std::size_t(i)] = typename I::limb(x);
    }
    return _impl::from_rep<W>(r);
}

template<class W>
void prhex(W const& x)
{
    auto const& r = _impl::to_rep(x);
    putchar('x');
    for (int i = WI<W>::n - 1; i >= 0; --i)
        printf("%0*llx", WI<W>::w / 4, (unsigned long long)r.crepresentation()[std::size_t(i)]);
}
template<class Z>
void print_w(Z const& z)
{
    fputs(tn<Z>().c_str(), stdout);
    putchar(':');
    prhex(z);
}

template<class W, class F>
void w2f(W const& a)
{
    printf("C10 w2f %s %s ", tn<W>().c_str(), vhf::FN<F>::name);
    prhex(a);
    fputs(" => ", stdout);
    alarm(20);
    VH_RUN(static_cast<F>(a), vhf::prf<F>)
    alarm(0);
}

template<class W, class F>
void f2w(F x)
{
    printf("C10 f2w %s %s ", tn<W>().c_str(), vhf::FN<F>::name);
    vhf::prf<F>(x);
    fputs(" => ", stdout);
    alarm(20);
    VH_RUN(W{x}, print_w)
    alarm(0);
}

////////////////////////////////////////////////////////////////////////////////
// wide -> float: magnitudes with 1..N significant bits

// magnitude patterns for target precision P
template<class W>
std::vector<Big> magnitudes(Rng& rng, int P, int sc)
{
    using I = WI<W>;
    constexpr int N = I::N, w = I::w;
    std::vector<Big> v;
    auto single = [&](int k) { Big b(N); b.set(k); v.push_back(b); };
    // top bit at a, then P-1 further significand bits `sig` (0 = zeros, 1 = ones, 2 = odd lsb only, 3 = random),
    // then the half bit, then the tail below it
    auto shaped = [&](int a, int sig, bool half, int tail) {
        if (a < 0 || a >= N) return;
        Big b(N);
        b.set(a);
        int lsb = a - (P - 1);  // position of the last significand bit
        for (int k = a - 1; k >= lsb && k >= 0; --k) {
            bool bit = sig == 1 ? true : sig == 3 ? bool(rng.below(2)) : false;
            if (sig == 2 && k == lsb) bit = true;
            if (bit) b.set(k);
        }
        int h = lsb - 1;
        if (h >= 0 && half) b.set(h);
        switch (tail) {
        case 0: break;                                            // exact tie (or exact value)
        case 1: b.ones(0, h); break;                              // all ones below the half bit
        case 2: if (h > 0) b.set(0); break;                       // +1
        case 3: for (int k = 0; k < h; ++k) if (rng.below(2)) b.set(k); break;
        case 4: b.ones(1, h); break;                              // all ones but the lowest
        case 5: if (h > 0) b.set(h - 1); break;                   // a quarter
        case 6: if (h > 0) b.set(rng.below(h)); break;            // one bit somewhere
        case 7: { int c = h > 0 ? rng.below(h) : 0; b.ones(c, h); break; }   // run of ones reaching the half bit
        default: { int c = h > 0 ? rng.below(h) : 0; b.ones(0, c); break; }  // run of ones from the bottom
        }
        v.push_back(b);
    };
    v.push_back(Big(N));  // 0
    { Big b(N); b.ones(0, N); v.push_back(b); }      // all ones: -1 / unsigned max
    { Big b(N); b.ones(0, N - 1); v.push_back(b); }  // signed max
    single(N - 1);                                   // signed lowest / 2^(N-1)
    { Big b(N); b.set(N - 1); b.set(0); v.push_back(b); }
    // single bits: all for small widths, a lattice otherwise
    std::vector<int> pos;
    if (N <= 256) for (int k = 0; k < N; ++k) pos.push_back(k);
    else {
        for (int k : {0, 1, 2, P - 2, P - 1, P, P + 1, 62, 63, 64, 65, 126, 127, 128, 129, N - 2, N - 1}) pos.push_back(k);
        for (int k = w; k < N; k += w * (1 + rng.below(3))) { pos.push_back(k - 1); pos.push_back(k); pos.push_back(k + 1); }
        for (int i = 0; i < 8 * sc; ++i) pos.push_back(rng.below(N));
    }
    for (int k : pos) if (k >= 0 && k < N) single(k);
    // runs of ones
    for (int len : {2, 3, P - 1, P, P + 1, P + 2, w - 1, w, w + 1, 2 * w, 64, 65, N})
        for (int p : {0, 1, w - 1, w, w + 1, rng.below(N), rng.below(N)}) {
            if (len <= 0 || p >= N) continue;
            Big b(N);
            b.ones(p, std::min(N, p + len));
            v.push_back(b);
        }
    // values next to the rounding midpoints of the target format, at every kind of position relative to limb boundaries
    std::vector<int> tops;
    for (int a = P - 2; a <= P + 2; ++a) tops.push_back(a);
    for (int k = w; k <= N; k += w)
        for (int o : {-2, -1, 0, 1}) { tops.push_back(k + o); tops.push_back(k + o + P - 1); tops.push_back(k + o + P); tops.push_back(k + o + P + 1); }
    std::vector<int> sel;
    for (int a : tops) if (a >= 1 && a < N) sel.push_back(a);
    std::size_t keep = N <= 256 ? sel.size() : std::size_t(40 + 10 * sc);
    for (std::size_t i = 0; i < sel.size(); ++i) {
        if (sel.size() > keep && rng.below(int(sel.size())) >= int(keep)) continue;
        int a = sel[i];
        for (int sig : {0, 1, 2})
            for (int tail : {0, 1, 2, 4}) shaped(a, sig, true, tail);
        shaped(a, 3, true, 7);
        shaped(a, 1, false, 1);
        shaped(a, 2, false, 1);
    }
    for (int i = 0; i < 60 * sc; ++i) shaped(P - 3 + rng.below(N - P + 3), rng.below(4), rng.below(4) != 0, rng.below(9));
    // limb patterns
    for (int i = 0; i < 20 * sc; ++i) {
        Big b(N);
        int used = 1 + rng.below(I::n);
        for (int l = 0; l < used; ++l) {
            unsigned long long x;
            unsigned long long const m = w == 64 ? ~0ull : (1ull << w) - 1;
            switch (rng.below(8)) {
            case 0: x = 0; break;
            case 1: x = m; break;
            case 2: x = 1; break;
            case 3: x = 1ull << rng.below(w); break;
            case 4: x = m >> 1; break;
            case 5: x = (m >> 1) + 1; break;
            default: x = rng.next() & m; break;
            }
            for (int j = 0; j < w; ++j)
                if ((x >> j) & 1) b.set(l * w + j);
        }
        v.push_back(b);
    }
    return v;
}

template<class W, class F>
void go_w2f(Rng& rng)
{
    int const sc = scale_from_env();
    for (Big const& b : magnitudes<W>(rng, vhf::FI<F>::prec, sc)) {
        w2f<W, F>(mkw<W>(b));
        w2f<W, F>(mkw<W>(b.negated()));  // the negative value (signed) / the complement pattern (unsigned)
    }
}

////////////////////////////////////////////////////////////////////////////////
// float -> wide

template<class W, class F>
void go_f2w(Rng& rng)
{
    using I = WI<W>;
    using L = std::numeric_limits<F>;
    constexpr int N = I::N, P = vhf::FI<F>::prec, EMAX = vhf::FI<F>::emax;
    int const sc = scale_from_env();
    std::vector<F> v = vhf::fvals<F>(rng, 40 * sc, false);  // NaN, infinities, limits, subnormals, powers of two +- ulp, random
    auto nb = [&](F x) { vhf::push_nb(v, x); };
    auto pm = [&](F x) { vhf::push_pm(v, x); };
    for (int i = 0; i <= 20; ++i) pm(F(i));
    for (F x : {F(0.25), F(0.5), F(0.75), F(1.25), F(1.5), F(1.75), F(2.5), F(3.5), F(7.999), F(255.5), F(256.5), F(65535.75), F(1e9), F(1e10)}) pm(x);
    // powers of two up to beyond the width, with neighbours and +-1 where representable
    for (int k = 0; k <= N + 70 && k <= EMAX; k += (N <= 256 || k < 70 || k > N - 70 || k % I::w < 2 || k % I::w == I::w - 1) ? 1 : 1 + rng.below(5)) {
        nb(vhf::mk<F>(1, k));
        pm(F(vhf::mk<F>(1, k) + F(1)));
        pm(F(vhf::mk<F>(1, k) - F(1)));
        pm(F(vhf::mk<F>(1, k) + F(0.5)));
        pm(F(vhf::mk<F>(1, k) - F(0.5)));
    }
    // a full significand (all ones), an alternating one and an odd one at every binary point position
    std::uint64_t const full = P == 64 ? ~std::uint64_t(0) : (std::uint64_t(1) << P) - 1;
    for (int e = -P - 2; e <= N + 6 && e + P - 1 <= EMAX; e += (N <= 256 || e < 8 || e > N - P - 8) ? 1 : 1 + rng.below(4)) {
        pm(vhf::mk<F>(full, e));
        pm(vhf::mk<F>(full & 0xaaaaaaaaaaaaaaabull, e));
        pm(vhf::mk<F>((std::uint64_t(1) << (P - 1)) | 1, e));
    }
    // the limits of the N-bit range: 2^(N-1), 2^N and 2^digits with their neighbours
    for (int k : {N - 2, N - 1, N, N + 1, int(std::numeric_limits<W>::digits)})
        if (k <= EMAX) nb(vhf::mk<F>(1, k));
    // random significands, integer-ish magnitudes (fractions, in range, beyond the width)
    for (int i = 0; i < 150 * sc; ++i) v.push_back(vhf::rnd_f<F>(rng, -2, std::min(N + 66, EMAX)));
    for (int i = 0; i < 30 * sc; ++i) v.push_back(vhf::rnd_f<F>(rng, 0, P + 2));
    (void)L::max();
    for (F x : v) f2w<W, F>(x);
}

template<class W>
void go(Rng& rng)
{
    go_w2f<W, float>(rng);
    go_w2f<W, double>(rng);
    go_w2f<W, long double>(rng);
    go_f2w<W, float>(rng);
    go_f2w<W, double>(rng);
    go_f2w<W, long double>(rng);
}

}  // namespace c10f
