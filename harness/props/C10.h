// C10: cnl::wide_integer<Digits, Narrowest> over multi-limb uintwide_t, against N-bit two's complement.
// Values are printed as x<hex of the N-bit pattern>, read limb by limb through crepresentation()
// (never through the code under test, except for `dec`, where the decimal text is the observable).
#include "vh.h"

#include <sstream>
#include <string>
#include <vector>
using namespace cnl;
using namespace vh;

template<class W>
struct WI {
    using R = _impl::rep_of_t<W>;
    using limb = typename R::limb_type;
    static constexpr int n = int(R::number_of_limbs);
    static constexpr int w = std::numeric_limits<limb>::digits;
    static constexpr int N = int(R::my_width2);
    static constexpr bool is_signed = numbers::signedness_v<R>;
};

using LV = std::vector<unsigned long long>;

template<class W>
W mkw(LV const& l)
{
    typename WI<W>::R r;
    for (int i = 0; i < WI<W>::n; ++i) r.representation()[std::size_t(i)] = typename WI<W>::limb(l[std::size_t(i)]);
    return _impl::from_rep<W>(r);
}

template<class W>
void prhex(W const& x)
{
    auto const& r = _impl::to_rep(x);
    putchar('x');
    for (int i = WI<W>::n - 1; i >= 0; --i)
        printf("%0*llx", WI<W>::w / 4, (unsigned long long)r.crepresentation()[std::size_t(i)]);
}
template<class Z>
void print_w(Z const& z)
{
    fputs(tn<Z>().c_str(), stdout);
    putchar(':');
    prhex(z);
}
template<class Z>
void print_bool(Z z)
{
    static_assert(std::is_same_v<Z, bool>);
    putchar(z ? '1' : '0');
}
// text results: anything but a digit or '-' (possible when the digit arithmetic itself is wrong) is escaped as ?hh
inline void print_str(std::string const& s)
{
    for (char ch : s) {
        if ((ch >= '0' && ch <= '9') || ch == '-') putchar(ch);
        else printf("?%02x", unsigned(static_cast<unsigned char>(ch)));
    }
}

////////////////////////////////////////////////////////////////////////////////
// operand generation: limb patterns {0, ~0, 1, 1<<k, random}

template<class W>
struct Gen {
    using I = WI<W>;
    Rng& rng;
    static constexpr unsigned long long mask = I::w == 64 ? ~0ull : ((1ull << (I::w % 64)) - 1);

    unsigned long long limb_pat(int kind)
    {
        switch (kind) {
        case 0: return 0;
        case 1: return mask;
        case 2: return 1;
        case 3: return 1ull << rng.below(I::w);
        case 4: return mask >> 1;          // 0111..
        case 5: return (mask >> 1) + 1;    // 1000..
        case 6: return mask - 1;
        default: return rng.next() & mask;
        }
    }
    LV zero() { return LV(std::size_t(I::n), 0); }
    // structured random value
    LV value()
    {
        LV l = zero();
        int style = rng.below(8);
        int used = 1 + rng.below(I::n);  // number of low limbs that may be non-zero
        switch (style) {
        case 0:
            for (auto& x : l) x = rng.next() & mask;
            break;
        case 1:
            for (auto& x : l) x = limb_pat(rng.below(9));
            break;
        case 2:
            for (int i = 0; i < used; ++i) l[std::size_t(i)] = limb_pat(rng.below(9));
            break;
        case 3:  // small negative: sign-extended
            for (auto& x : l) x = mask;
            for (int i = 0; i < used && i < I::n - 1; ++i) l[std::size_t(i)] = limb_pat(rng.below(9));
            break;
        case 4:
            l[std::size_t(rng.below(I::n))] = 1ull << rng.below(I::w);
            break;
        case 5:
            for (int i = 0; i < used; ++i) l[std::size_t(i)] = mask;
            break;
        case 6:
            l[std::size_t(I::n - 1)] = limb_pat(rng.below(9));
            l[0] = limb_pat(rng.below(9));
            break;
        default:
            for (int i = 0; i < used; ++i) l[std::size_t(i)] = rng.next() & mask;
            if (used > 1) l[std::size_t(used - 1)] = limb_pat(1 + rng.below(6));
            break;
        }
        return l;
    }
    std::vector<LV> corner()
    {
        std::vector<LV> v;
        LV z = zero();
        v.push_back(z);                      // 0
        { LV l = z; l[0] = 1; v.push_back(l); }   // 1
        { LV l(std::size_t(I::n), mask); v.push_back(l); }  // -1 / max unsigned
        { LV l(std::size_t(I::n), mask); l[std::size_t(I::n - 1)] = mask >> 1; v.push_back(l); }  // max signed
        { LV l = z; l[std::size_t(I::n - 1)] = (mask >> 1) + 1; v.push_back(l); }  // lowest signed
        { LV l = z; l[std::size_t(I::n - 1)] = (mask >> 1) + 1; l[0] = 1; v.push_back(l); }  // lowest + 1
        { LV l = z; l[0] = mask; v.push_back(l); }  // one full limb
        { LV l = z; if (I::n > 1) l[1] = 1; v.push_back(l); }  // 2^w
        { LV l = z; l[0] = 10; v.push_back(l); }
        { LV l(std::size_t(I::n), mask); l[0] = mask - 1; v.push_back(l); }  // -2
        return v;
    }
    // a divisor with exactly `k` significant limbs whose top limb is `top`
    LV divisor(int k, unsigned long long top, int lowkind)
    {
        LV l = zero();
        for (int i = 0; i + 1 < k; ++i) l[std::size_t(i)] = limb_pat(lowkind < 0 ? rng.below(9) : lowkind);
        l[std::size_t(k - 1)] = top ? top : 1;
        return l;
    }
};

#define HEAD(KIND, NAME) \
    printf("C10 " KIND " " NAME " %s ", tn<W>().c_str());
#define OPS2 \
    prhex(a); \
    putchar(' '); \
    prhex(b); \
    fputs(" => ", stdout);
#define BIN(NAME, EXPR) \
    { \
        HEAD("bin", NAME) OPS2 alarm(20); \
        VH_RUN(EXPR, print_w) alarm(0); \
    }
#define CMP(NAME, EXPR) \
    { \
        HEAD("cmp", NAME) OPS2 VH_RUN(EXPR, print_bool) \
    }

template<class W>
void bin_cheap(W const& a, W const& b)
{
    BIN("add", a + b)
    BIN("sub", a - b)
    BIN("and", a & b)
    BIN("or", a | b)
    BIN("xor", a ^ b)
    CMP("lt", a < b)
    CMP("le", a <= b)
    CMP("gt", a > b)
    CMP("ge", a >= b)
    CMP("eq", a == b)
    CMP("ne", a != b)
}
template<class W>
void bin_mul(W const& a, W const& b)
{
    BIN("mul", a * b)
}
template<class W>
void bin_div(W const& a, W const& b)
{
    BIN("div", a / b)
    BIN("mod", a % b)
}

template<class W, class C>
void shifts(W const& a, long k)
{
    C c = C(k);
    {
        printf("C10 sh shl %s %s ", tn<W>().c_str(), tn<C>().c_str());
        prhex(a);
        printf(" %ld => ", k);
        VH_RUN(a << c, print_w)
    }
    {
        printf("C10 sh shr %s %s ", tn<W>().c_str(), tn<C>().c_str());
        prhex(a);
        printf(" %ld => ", k);
        VH_RUN(a >> c, print_w)
    }
}

template<class W, class T>
void to_int(W const& a)
{
    printf("C10 toint %s %s ", tn<W>().c_str(), tn<T>().c_str());
    prhex(a);
    fputs(" => ", stdout);
    VH_RUN(static_cast<T>(a), print_tv)
}
template<class W, class T>
void from_int(Rng& rng)
{
    for (T v : vals<T>(rng, 3 * scale_from_env(), sizeof(T) > 8 ? 29 : sizeof(T) > 4 ? 17 : sizeof(T) > 2 ? 9 : 4)) {
        printf("C10 fromint %s %s ", tn<W>().c_str(), tn<T>().c_str());
        prv(v);
        fputs(" => ", stdout);
        VH_RUN(W{v}, print_w)
    }
}

#define UN(NAME, EXPR) \
    { \
        printf("C10 un " NAME " %s ", tn<W>().c_str()); \
        prhex(a); \
        fputs(" => ", stdout); \
        VH_RUN(EXPR, print_w) \
    }
template<class P>
void print_pair(P const& p)
{
    print_w(p.first);
    putchar('/');
    prhex(p.second);
}
#define UNPOST(NAME, OP) \
    { \
        printf("C10 un " NAME " %s ", tn<W>().c_str()); \
        prhex(a); \
        fputs(" => ", stdout); \
        VH_RUN(([&] { W c = a; W old = c OP; return std::make_pair(old, c); }()), print_pair) \
    }

template<class W>
void unary(W const& a)
{
    UN("neg", -a)
    UN("preinc", ([&] { W c = a; ++c; return c; }()))
    UN("predec", ([&] { W c = a; --c; return c; }()))
    UNPOST("postinc", ++)
    UNPOST("postdec", --)
    {
        printf("C10 dec %s ", tn<W>().c_str());
        prhex(a);
        fputs(" => ", stdout);
        VH_RUN(([&] { std::ostringstream os; os << a; return os.str(); }()), print_str)
    }
    using L = std::numeric_limits<W>;
    // cnl::to_chars on an *unsigned* multi-limb wide_integer does not compile (value / int base has no
    // mixed-signedness operator in uintwide_t): not instantiable, left out
    if constexpr (WI<W>::is_signed)
    if (!(a < L::lowest()) && !(a > L::max())) {  // cnl::to_chars: the numeric_limits range, lowest() = -2^Digits included
        printf("C10 chars %s ", tn<W>().c_str());
        prhex(a);
        fputs(" => ", stdout);
        alarm(20);
        VH_RUN(([&] { auto r = cnl::to_chars_static(a); return std::string(r.chars.data(), std::size_t(r.length)); }()), print_str)
        alarm(0);
    }
}

template<class W>
void limits()
{
    using L = std::numeric_limits<W>;
    printf("C10 lim max %s => ", tn<W>().c_str());
    VH_RUN(L::max(), print_w)
    printf("C10 lim lowest %s => ", tn<W>().c_str());
    VH_RUN(L::lowest(), print_w)
    printf("C10 lim min %s => ", tn<W>().c_str());
    VH_RUN(L::min(), print_w)
    printf("C10 lim digits %s => %d\n", tn<W>().c_str(), int(L::digits));
    printf("C10 storage %s => multi:%d:%d:%c\n", tn<W>().c_str(), WI<W>::w, WI<W>::n, WI<W>::is_signed ? 's' : 'u');
    static_assert(L::is_specialized && L::is_integer);
    static_assert(L::is_signed == WI<W>::is_signed);
}

// storage rule for instances whose rep is a built-in integer (not multi-limb)
template<class W>
void storage_builtin()
{
    using R = _impl::rep_of_t<W>;
    static_assert(std::is_integral_v<R> || std::is_same_v<R, vh::I> || std::is_same_v<R, vh::U>);
    printf("C10 storage %s => builtin:%s\n", tn<W>().c_str(), tn<R>().c_str());
}

// PARTS: bit 0 cheap binary + compare, 1 mul, 2 div/mod, 3 shifts, 4 unary/text/limits, 5 conversions
template<class W, int PARTS>
void go(Rng& rng)
{
    using I = WI<W>;
    Gen<W> g{rng};
    int const sc = scale_from_env();
    std::vector<LV> vs = g.corner();
    int const nrand = 10 * sc;
    for (int i = 0; i < nrand; ++i) vs.push_back(g.value());
    std::vector<W> ws;
    for (auto const& l : vs) ws.push_back(mkw<W>(l));

    if constexpr (PARTS & 1)
        for (W const& a : ws)
            for (W const& b : ws) bin_cheap(a, b);
    if constexpr (PARTS & 2)
        for (W const& a : ws)
            for (W const& b : ws) bin_mul(a, b);
    if constexpr (PARTS & 4) {
        for (W const& a : ws)
            for (W const& b : ws) bin_div(a, b);
        // divisors of 1..n limbs; top limb ~0, 1, 100.., 0111..; numerators built as q*b + r so that remainders
        // sit at 0 and b-1 and quotient digits at their extremes
        unsigned long long const m = Gen<W>::mask;
        unsigned long long tops[] = {m, 1, (m >> 1) + 1, m >> 1, m - 1, 2, 0 /* random */};
        int const reps = 2 * sc;
        for (int k = 1; k <= I::n; k = (k < 4 || k + 1 >= I::n - 1) ? k + 1 : k + 1 + rng.below(I::n / 3 + 1))
            for (unsigned long long top : tops)
                for (int rep = 0; rep < reps; ++rep) {
                    W b = mkw<W>(g.divisor(k, top ? top : (rng.next() & m), rep == 0 ? 1 : rep == 1 ? 0 : -1));
                    W r0 = mkw<W>(g.value());
                    W q = mkw<W>(g.value());
                    W one = mkw<W>(vs[1]);
                    W a1 = mkw<W>(g.value());
                    bin_div(a1, b);
                    W a2 = q * b;        // exact multiple (mod 2^N)
                    bin_div(a2, b);
                    W a3 = a2 - one;     // remainder b-1 (when no wrap)
                    bin_div(a3, b);
                    W a4 = a2 + (r0 & b);
                    bin_div(a4, b);
                    // classic add-back shapes (Hacker's Delight): u = [.., 0, top/.. ] patterns
                    LV ul = g.zero();
                    int hi = k + rng.below(I::n - k + 1);
                    if (hi >= 1) {
                        for (int i = 0; i < hi; ++i) ul[std::size_t(i)] = g.limb_pat(rng.below(3) == 0 ? 7 : rng.below(7));
                        ul[std::size_t(hi - 1)] = rng.below(2) ? ((top ? top : 1) - (rng.below(2) && top > 1 ? 1 : 0)) : g.limb_pat(rng.below(9));
                    }
                    bin_div(mkw<W>(ul), b);
                }
    }
    if constexpr (PARTS & 8) {
        long const counts[] = {0, 1, I::w - 1, I::w, I::w + 1, I::N - 1, I::N - I::w, 2 * I::w + 3, I::N, I::N + 5, -1, -I::w - 2};
        for (W const& a : ws) {
            for (long k : counts) {
                shifts<W, int>(a, k);
                if (k >= 0) shifts<W, unsigned>(a, k);
            }
            for (int i = 0; i < 4 * sc; ++i) shifts<W, int>(a, rng.below(I::N));
        }
    }
    if constexpr (PARTS & 16) {
        for (W const& a : ws) unary(a);
        limits<W>();
    }
    if constexpr (PARTS & 32) {
        for (W const& a : ws) {
            to_int<W, signed char>(a);
            to_int<W, unsigned char>(a);
            to_int<W, short>(a);
            to_int<W, unsigned short>(a);
            to_int<W, int>(a);
            to_int<W, unsigned>(a);
            to_int<W, long long>(a);
            to_int<W, unsigned long long>(a);
            to_int<W, vh::I>(a);
            to_int<W, vh::U>(a);
        }
        from_int<W, signed char>(rng);
        from_int<W, unsigned char>(rng);
        from_int<W, short>(rng);
        from_int<W, unsigned short>(rng);
        from_int<W, int>(rng);
        from_int<W, unsigned>(rng);
        from_int<W, long long>(rng);
        from_int<W, unsigned long long>(rng);
        from_int<W, vh::I>(rng);
        from_int<W, vh::U>(rng);
    }
}

// Instantiations with >= 129 limbs: operator* runs eval_multiply_kara_n_by_n_to_2n.  Carries and borrows of the
// Karatsuba recombination only fire on dense operands, so the operands are full-width random limbs, all-ones,
// 0xFE.., 0xF0.., 0xCC.. runs over the whole width, the low half, the low three quarters, and a few sparse ones.
template<class W>
void go_kara(Rng& rng)
{
    using I = WI<W>;
    Gen<W> g{rng};
    int const sc = scale_from_env();
    unsigned long long const m = Gen<W>::mask;
    std::vector<LV> vs;
    auto run = [&](unsigned long long pat, int limbs) {
        LV l = g.zero();
        for (int i = 0; i < limbs && i < I::n; ++i) l[std::size_t(i)] = pat & m;
        vs.push_back(l);
    };
    unsigned long long const fe = 0xfefefefefefefefeull, f0 = 0xf0f0f0f0f0f0f0f0ull, cc = 0xccccccccccccccccull;
    run(m, I::n);
    run(fe, I::n);
    run(fe, I::n / 2);
    run(f0, I::n / 2);
    run(cc, I::n / 2);
    run(cc, 3 * I::n / 4);
    run(fe, I::n / 4);
    run(m, I::n / 2 + 1);
    run(1, 1);
    { LV l = g.zero(); l[std::size_t(I::n / 4)] = 1; vs.push_back(l); }          // one limb inside the lowest quarter
    { LV l = g.zero(); l[std::size_t(I::n / 4 - 1)] = m; vs.push_back(l); }      // top limb of the lowest quarter
    { LV l(std::size_t(I::n), m); l[0] = 1; l[std::size_t(I::n - 1)] = m >> 1; vs.push_back(l); }
    for (int i = 0; i < 10 * sc; ++i) {
        LV l = g.zero();
        for (auto& x : l) x = rng.next() & m;
        vs.push_back(l);
    }
    for (int i = 0; i < 2 * sc; ++i) {  // equal halves / equal quarters: the |a1-a0| = 0 and sign branches
        LV l = g.zero();
        int h = I::n / 2;
        for (int k = 0; k < h; ++k) l[std::size_t(k)] = l[std::size_t(k + h)] = rng.next() & m;
        if (i & 1) l[std::size_t(rng.below(I::n))] ^= 1;
        vs.push_back(l);
    }
    for (int i = 0; i < 2 * sc; ++i) vs.push_back(g.value());
    std::vector<W> ws;
    for (auto const& l : vs) ws.push_back(mkw<W>(l));
    for (W const& a : ws)
        for (W const& b : ws) bin_mul(a, b);
    limits<W>();
    // cnl::to_chars multiplies (value - quotient * 10): goes through the same routine
    using L = std::numeric_limits<W>;
    // (one full-width value costs the driver ~600 Karatsuba products: a dense random one, a quarter-width one, -1, 1)
    if constexpr (I::is_signed)
        for (std::size_t i : {std::size_t(12), std::size_t(6), std::size_t(0), std::size_t(8)}) {
            W const& a = ws[i];
            if (!(a < -L::max()) && !(a > L::max())) {
                printf("C10 chars %s ", tn<W>().c_str());
                prhex(a);
                fputs(" => ", stdout);
                alarm(60);
                VH_RUN(([&] { auto r = cnl::to_chars_static(a); return std::string(r.chars.data(), std::size_t(r.length)); }()), print_str)
                alarm(0);
            }
        }
}
