// C17: cnl::fraction<T>(floating) — and the CF table validating the floating-point core (CFloat.lean)
#include "vh.h"

#include <cfloat>
#include <cmath>
#include <sys/time.h>
using namespace cnl;
using namespace vh;

////////////////////////////////////////////////////////////////////////////////
// printing: hex floats (never decimal); NaN sign-stripped

template<class F>
void prf(F x)
{
    if (std::isnan(x))
        fputs("nan", stdout);
    else if constexpr (std::is_same_v<F, long double>)
        printf("%La", x);
    else
        printf("%a", double(x));
}

template<class F>
struct FI;
template<>
struct FI<float> {
    using bits = std::uint32_t;
    static constexpr int prec = 24, emin = -126, emax = 127;
};
template<>
struct FI<double> {
    using bits = std::uint64_t;
    static constexpr int prec = 53, emin = -1022, emax = 1023;
};
template<>
struct FI<long double> {
    using bits = std::uint64_t;
    static constexpr int prec = 64, emin = -16382, emax = 16383;
};

// m * 2^e (exact scaling; m has at most 64 bits)
template<class F>
F mk(std::uint64_t m, int e)
{
    return std::ldexp(F(m), e);
}

template<class F>
void push_f(std::vector<F>& v, F x)
{
    for (F y : v)
        if ((std::isnan(x) && std::isnan(y)) || (x == y && std::signbit(x) == std::signbit(y))) return;
    v.push_back(x);
}
template<class F>
void push_pm(std::vector<F>& v, F x)
{
    push_f(v, x);
    push_f(v, F(-x));
}
template<class F>
void push_nb(std::vector<F>& v, F x)  // x and its two neighbours, both signs
{
    push_pm(v, x);
    push_pm(v, std::nextafter(x, std::numeric_limits<F>::infinity()));
    push_pm(v, std::nextafter(x, -std::numeric_limits<F>::infinity()));
}

// random value: random significand pattern, exponent in [elo, ehi]
template<class F>
F rnd_f(Rng& rng, int elo, int ehi)
{
    constexpr int P = FI<F>::prec;
    std::uint64_t m = rng.next();
    switch (rng.below(6)) {
    case 0: m &= ~((std::uint64_t(1) << rng.below(P)) - 1); break;            // trailing zeros
    case 1: m |= (std::uint64_t(1) << rng.below(P)) - 1; break;               // trailing ones
    case 2: m = std::uint64_t(1) << rng.below(P); break;                      // single bit
    case 3: m = (std::uint64_t(1) << (1 + rng.below(P - 1))) + (rng.below(3) - 1); break;  // 2^k, 2^k ± 1
    default: break;
    }
    if (P < 64) m &= (std::uint64_t(1) << P) - 1;
    if (rng.below(4)) m |= std::uint64_t(1) << (P - 1);  // mostly normalised
    int e = elo + rng.below(ehi - elo + 1);
    F x = mk<F>(m, e - (P - 1));
    return rng.below(2) ? x : F(-x);
}

// structured values of a floating type: specials, limits, powers of two ± ulp, ties, integer-type
// limits ± 0.5/1 with neighbours, random
template<class F>
std::vector<F> fvals(Rng& rng, int nrand, bool small)
{
    using L = std::numeric_limits<F>;
    constexpr int P = FI<F>::prec;
    std::vector<F> v;
    push_pm(v, F(0));
    push_pm(v, L::infinity());
    push_f(v, L::quiet_NaN());
    push_nb(v, L::denorm_min());
    push_pm(v, F(L::denorm_min() * 3));
    push_nb(v, L::min());
    push_nb(v, L::max());
    push_nb(v, F(1));
    push_pm(v, F(0.5));
    push_pm(v, F(1.5));
    push_pm(v, F(3));
    push_pm(v, F(0.1L));
    push_pm(v, F(1) / F(3));
    // half-ulp and quarter-ulp companions of 1 (ties in additions)
    push_pm(v, mk<F>(1, -P));
    push_pm(v, mk<F>(1, -P + 1));
    push_pm(v, mk<F>(3, -P - 1));
    push_pm(v, mk<F>(1, -P - 1));
    if (!small) {
        for (int k : {-FI<F>::emin, -FI<F>::emin + 1, 7, 8, 15, 16, 23, 24, 31, 32, 52, 53, 62, 63, 64, 65, 127, 128, FI<F>::emax}) {
            if (k > FI<F>::emax) continue;
            push_nb(v, mk<F>(1, k));
            push_nb(v, mk<F>(1, -k));
        }
        // limits of every integer type, ± 0.5 / 1
        for (int k : {7, 8, 15, 16, 31, 32, 63, 64, 127, 128}) {
            if (k > FI<F>::emax) continue;
            F p = mk<F>(1, k);
            for (F o : {F(0), F(0.5), F(1), F(1.5), F(2)}) {
                push_pm(v, F(p - o));
                push_pm(v, F(p + o));
            }
        }
        push_pm(v, mk<F>(1, FI<F>::emin - 1));
        push_pm(v, mk<F>(3, FI<F>::emin - 2));
        push_pm(v, mk<F>(1, FI<F>::emax / 2));
        push_pm(v, mk<F>(1, -FI<F>::emax / 2));
    }
    for (int i = 0; i < nrand; ++i) {
        switch (i % 4) {
        case 0: v.push_back(rnd_f<F>(rng, FI<F>::emin - P, FI<F>::emax)); break;  // whole range incl. subnormal
        case 1: v.push_back(rnd_f<F>(rng, -3, 3)); break;                          // close exponents
        case 2: v.push_back(rnd_f<F>(rng, -P - 2, P + 2)); break;
        default: v.push_back(rnd_f<F>(rng, 0, 130 < FI<F>::emax ? 130 : FI<F>::emax)); break;  // integer-ish magnitudes
        }
    }
    return v;
}

#define CF_BIN(NAME, EXPR) \
    { \
        printf("C17 cf bin " NAME " %s ", fn); \
        prf(x); \
        putchar(' '); \
        prf(y); \
        fputs(" => ", stdout); \
        prf(F(EXPR)); \
        putchar('\n'); \
    }
#define CF_CMP(NAME, EXPR) \
    { \
        printf("C17 cf cmp " NAME " %s ", fn); \
        prf(x); \
        putchar(' '); \
        prf(y); \
        printf(" => %d\n", int(EXPR)); \
    }

// + - * / and comparisons
template<class F>
void cf_arith(Rng& rng, int nrand)
{
    std::string fns = tn<F>();
    char const* fn = fns.c_str();
    auto a = fvals<F>(rng, nrand, false);
    auto b = fvals<F>(rng, nrand / 2, true);
    auto run = [&](std::vector<F> const& xs, std::vector<F> const& ys) {
        for (F xv : xs)
            for (F yv : ys) {
                volatile F x = xv, y = yv;
                CF_BIN("add", x + y)
                CF_BIN("sub", x - y)
                CF_BIN("mul", x * y)
                CF_BIN("div", x / y)
                CF_CMP("lt", x < y)
                CF_CMP("le", x <= y)
                CF_CMP("gt", x > y)
                CF_CMP("ge", x >= y)
                CF_CMP("eq", x == y)
                CF_CMP("ne", x != y)
            }
    };
    run(a, b);
    run(b, a);
    for (F xv : a) {
        volatile F x = xv;
        printf("C17 cf neg %s ", fn);
        prf(F(x));
        fputs(" => ", stdout);
        prf(F(-x));
        putchar('\n');
    }
}

template<class F, class T>
void cf_int(Rng& rng, std::vector<F> const& fv, int nrand)
{
    std::string fns = tn<F>(), tns = tn<T>();
    // int -> float
    for (T t : vals<T>(rng, nrand)) {
        volatile T tv = t;
        printf("C17 cf i2f %s %s ", tns.c_str(), fns.c_str());
        prv(t);
        fputs(" => ", stdout);
        prf(static_cast<F>(tv));
        putchar('\n');
    }
    // float -> int: the shared list plus the neighbourhood of this type's limits
    std::vector<F> xs = fv;
    using L = std::numeric_limits<T>;
    for (F base : {static_cast<F>(L::max()), static_cast<F>(L::lowest())})
        for (F o : {F(0), F(0.25), F(0.5), F(0.75), F(1), F(1.5), F(2)}) {
            push_nb(xs, F(base - o));
            push_nb(xs, F(base + o));
        }
    for (int i = 0; i < nrand; ++i) xs.push_back(rnd_f<F>(rng, -2, L::digits + 1));
    for (F xv : xs) {
        volatile F x = xv;
        printf("C17 cf f2i %s %s ", fns.c_str(), tns.c_str());
        prf(xv);
        fputs(" => ", stdout);
        VH_RUN(static_cast<T>(x), print_tv)
    }
}

template<class F>
void cf_convert(Rng& rng, int nrand)
{
    auto fv = fvals<F>(rng, nrand, false);
    cf_int<F, signed char>(rng, fv, nrand);
    cf_int<F, unsigned char>(rng, fv, nrand);
    cf_int<F, short>(rng, fv, nrand);
    cf_int<F, unsigned short>(rng, fv, nrand);
    cf_int<F, int>(rng, fv, nrand);
    cf_int<F, unsigned>(rng, fv, nrand);
    cf_int<F, long>(rng, fv, nrand);
    cf_int<F, unsigned long>(rng, fv, nrand);
    cf_int<F, I>(rng, fv, nrand);
    cf_int<F, U>(rng, fv, nrand);
}

template<class S, class D>
void cf_f2f(Rng& rng, int nrand)
{
    std::string sn = tn<S>(), dn = tn<D>();
    auto fv = fvals<S>(rng, nrand, false);
    // values straddling the destination's rounding points
    for (int i = 0; i < nrand; ++i) {
        D d = rnd_f<D>(rng, FI<D>::emin - FI<D>::prec, FI<D>::emax);
        S s = static_cast<S>(d);
        fv.push_back(s);
        fv.push_back(std::nextafter(s, std::numeric_limits<S>::infinity()));
        fv.push_back(std::nextafter(s, -std::numeric_limits<S>::infinity()));
        S up = static_cast<S>(std::nextafter(d, std::numeric_limits<D>::infinity()));
        S tie = (s + up) / 2;  // exact midpoint when S is wider
        fv.push_back(tie);
        fv.push_back(std::nextafter(tie, std::numeric_limits<S>::infinity()));
        fv.push_back(std::nextafter(tie, -std::numeric_limits<S>::infinity()));
    }
    for (S xv : fv) {
        volatile S x = xv;
        printf("C17 cf f2f %s %s ", sn.c_str(), dn.c_str());
        prf(xv);
        fputs(" => ", stdout);
        prf(static_cast<D>(x));
        putchar('\n');
    }
}

////////////////////////////////////////////////////////////////////////////////
// make_fraction

// The per-case timer counts *user CPU time* of this process (ITIMER_VIRTUAL -> SIGVTALRM), not wall-clock
// time: a search that hangs burns user time, whereas a process that is merely descheduled on a loaded
// machine (or whose sanitizer trap is slow to be delivered) does not, so TIMEOUT cannot be spurious.
inline void on_vtalrm(int)
{
    if (!vh::armed) {
        char const msg[] = "\nHARNESS-FAULT: timer outside the escape context\n";
        (void)!write(2, msg, sizeof msg - 1);
        _exit(70);
    }
    siglongjmp(vh::jb, SIGALRM);  // reported as TIMEOUT by vh::print_fail
}
inline void arm(long usec)
{
    static bool installed = false;
    if (!installed) {
        struct sigaction sa;
        memset(&sa, 0, sizeof sa);
        sa.sa_handler = on_vtalrm;
        sa.sa_flags = SA_NODEFER;
        sigaction(SIGVTALRM, &sa, nullptr);
        installed = true;
    }
    struct itimerval it;
    memset(&it, 0, sizeof it);
    it.it_value.tv_sec = usec / 1000000;
    it.it_value.tv_usec = usec % 1000000;
    setitimer(ITIMER_VIRTUAL, &it, nullptr);
}
inline long timeout_usec()
{
    char const* s = getenv("C17_TIMEOUT_US");
    return s ? atol(s) : 60000;
}
inline long g_hangs = 0, g_hang_budget = 1L << 40;

// one construction; a hang becomes TIMEOUT through SIGALRM -> siglongjmp (vh::on_signal)
template<class T, class F>
void mf_one(F xv)
{
    static std::string head = "C17 mf " + tn<F>() + " " + tn<T>() + " ";
    fputs(head.c_str(), stdout);
    prf(xv);
    fputs(" => ", stdout);
    volatile F x = xv;
    long const us = timeout_usec();
    int rc = sigsetjmp(vh::jb, 1);
    if (rc == 0) {
        vh::armed = 1;
        arm(us);
        F const xin = x;
        fraction<T> fr(xin);
        arm(0);  // disarm the timer before leaving the escape context
        vh::armed = 0;
        prv(fr.numerator);
        putchar('/');
        prv(fr.denominator);
    } else {
        arm(0);
        vh::armed = 0;
        if (rc == SIGALRM) ++g_hangs;
        print_fail(rc);
    }
    putchar('\n');
}

// the input classes of the property's quantifier for one (component type, floating type) pair
template<class T, class F>
void mf_sweep(Rng& rng, int mant_steps, int nrand, int emin_swept)
{
    using L = std::numeric_limits<T>;
    constexpr int P = FI<F>::prec;
    constexpr int D = L::digits;
    std::vector<F> xs;
    auto add = [&](F x) {
        if (std::isfinite(x) && std::fabs(x) <= static_cast<F>(L::max()) * 2) xs.push_back(x);
    };
    // fixed corner cases
    for (F x : {F(0), F(1), F(0.5), F(0.75), F(0.1L), F(1) / F(3), F(3.14159265358979323846L), F(2) / F(7), F(7) / F(3), F(123456.789L), F(1) / F(1024),
                F(1e-9L), F(0x1p-31L), F(0x1.fd03fcp-27L), static_cast<F>(L::max()), static_cast<F>(L::max() / 2), static_cast<F>(L::max() - 1)})
        add(x), add(-x);
    add(F(-0.0));
    // every exponent x mantissa lattice x both signs
    for (int e = emin_swept; e <= D; ++e)
        for (int k = 0; k < mant_steps; ++k) {
            std::uint64_t frac = mant_steps <= 1 ? 0 : (std::uint64_t(k) * ((std::uint64_t(1) << (P - 1)) - 1)) / std::uint64_t(mant_steps - 1);
            if (k && rng.below(3) == 0) frac ^= rng.next() & 0xff;  // seed-dependent jitter of the low bits
            frac &= (std::uint64_t(1) << (P - 1)) - 1;
            F x = mk<F>((std::uint64_t(1) << (P - 1)) | frac, e - (P - 1));
            add(x), add(-x);
        }
    for (int i = 0; i < nrand; ++i) {
        // random full mantissas over the useful exponent range
        add(rnd_f<F>(rng, emin_swept, D));
        add(rnd_f<F>(rng, -4, 4));
        // integers and integers + dyadic fractions
        {
            T t = vals<T>(rng, 1).back();
            add(static_cast<F>(t));
            add(static_cast<F>(t) + mk<F>(1 + 2 * rng.below(8), -4));
        }
        // ratios p/q of small integers (decimal and other non-dyadic fractions), dyadic fractions
        {
            int q = 1 + rng.below(rng.below(2) ? 12 : 1000);
            int p = rng.below(q * 4 + 1);
            add(F(p) / F(q));
            add(-F(p) / F(q));
            add(F(rng.below(100000)) / F(rng.below(2) ? 100 : 1000));
            add(mk<F>(rng.next() & 0xffff, -(1 + rng.below(20))));
        }
        // next to the numerator limit
        {
            F m = static_cast<F>(L::max());
            F x = m;
            int steps = rng.below(6);
            for (int s = 0; s < steps; ++s) x = std::nextafter(x, F(0));
            add(x), add(-x);
            add(F(m - F(rng.below(1000))) - mk<F>(rng.below(16), -4));
            add(static_cast<F>(T(L::max() - T(rng.below(100)))));
        }
    }
    for (F x : xs) {
        if (g_hangs >= g_hang_budget) break;
        mf_one<T, F>(x);
    }
}

// coarse lattice over the tiny exponents [elo, ehi] (every exponent when the range is short, else ~160 of them)
template<class T, class F>
void mf_tiny(Rng& rng, int elo, int ehi, int mant_steps)
{
    constexpr int P = FI<F>::prec;
    if (ehi < elo) return;
    int span = ehi - elo + 1;
    int stride = span <= 200 ? 1 : span / 160;
    for (int e = ehi; e >= elo; e -= (stride > 1 ? 1 + rng.below(2 * stride - 1) : 1))
        for (int k = 0; k < mant_steps; ++k) {
            if (g_hangs >= g_hang_budget) return;
            // P-bit significand pattern; in the subnormal range the value is made by exact scaling
            std::uint64_t frac = k == 0 ? 0 : (rng.next() & ((std::uint64_t(1) << (P - 1)) - 1));
            F x = mk<F>((std::uint64_t(1) << (P - 1)) | frac, e - (P - 1));
            if (x == 0) continue;
            mf_one<T, F>(x);
            mf_one<T, F>(F(-x));
        }
    mf_one<T, F>(std::numeric_limits<F>::denorm_min());
    mf_one<T, F>(std::numeric_limits<F>::min());
}

// class template argument deduction: the component width follows the floating type
template<class F>
void mf_guide_one(F xv)
{
    volatile F x = xv;
    F const xin = x;
    using Fr = decltype(fraction(xin));
    using T = typename Fr::numerator_type;
    static_assert(std::is_same_v<T, typename Fr::denominator_type>);
    static_assert(sizeof(T) == sizeof(F) && std::is_signed_v<T> || std::is_same_v<T, I>);
    mf_one<T, F>(xv);
}
inline void mf_guides(Rng& rng, int n)
{
    static_assert(std::is_same_v<decltype(fraction(1.0f)), fraction<int>>);
    static_assert(std::is_same_v<decltype(fraction(1.0)), fraction<std::int64_t>>);
    static_assert(std::is_same_v<decltype(fraction(1.0L)), fraction<I>>);
    g_hang_budget = 40;
    for (int i = 0; i < n; ++i) {
        int q = 1 + rng.below(1000), p = rng.below(4 * q);
        mf_guide_one(float(p) / float(q));
        mf_guide_one(double(p) / double(q));
        mf_guide_one((long double)(p) / (long double)(q));
        mf_guide_one(rnd_f<float>(rng, -20, 30));
        mf_guide_one(rnd_f<double>(rng, -40, 62));
        mf_guide_one(rnd_f<long double>(rng, -60, 126));
    }
}

////////////////////////////////////////////////////////////////////////////////
// make_fraction with component types that are CNL numbers (table `C17 mfw`):
// wide_integer (single- and multi-word), overflow_integer (saturated / trapping / throwing, over built-in
// and wide representations), elastic_integer, rounding_integer.

// a component as an exact integer in decimal: the innermost representation is unwrapped without going through any
// arithmetic of the library; a multi-word value is read limb by limb (two's complement) and converted here
template<class Z>
void pr_comp(Z const& z)
{
    if constexpr (cnl::_impl::is_wrapper<Z>)
        pr_comp(cnl::_impl::to_rep(z));
    else if constexpr (std::is_integral_v<Z> || std::is_same_v<Z, I> || std::is_same_v<Z, U>)
        prv(z);
    else {
        constexpr int n = int(Z::number_of_limbs);
        using limb = typename Z::limb_type;
        constexpr int w = std::numeric_limits<limb>::digits;
        static_assert(w == 32 || w == 64 || w == 16 || w == 8);
        // to 32-bit little-endian words
        std::vector<std::uint32_t> ws;
        for (int i = 0; i < n; ++i) {
            std::uint64_t l = std::uint64_t(z.crepresentation()[std::size_t(i)]);
            if constexpr (w == 64) {
                ws.push_back(std::uint32_t(l));
                ws.push_back(std::uint32_t(l >> 32));
            } else if constexpr (w == 32)
                ws.push_back(std::uint32_t(l));
            else {
                // narrow limbs: pack
                int bit = i * w;
                if (bit % 32 == 0) ws.push_back(0);
                ws.back() |= std::uint32_t(l) << (bit % 32);
            }
        }
        bool neg = cnl::numbers::signedness_v<Z> && (ws.back() >> 31);
        if (neg) {  // two's complement negate
            std::uint64_t c = 1;
            for (auto& x : ws) {
                c += std::uint32_t(~x);
                x = std::uint32_t(c);
                c >>= 32;
            }
        }
        std::vector<std::uint32_t> chunks;  // base 10^9, little endian
        for (;;) {
            std::uint64_t rem = 0;
            bool nz = false;
            for (int i = int(ws.size()) - 1; i >= 0; --i) {
                std::uint64_t cur = (rem << 32) | ws[std::size_t(i)];
                ws[std::size_t(i)] = std::uint32_t(cur / 1000000000u);
                rem = cur % 1000000000u;
                nz = nz || ws[std::size_t(i)];
            }
            chunks.push_back(std::uint32_t(rem));
            if (!nz) break;
        }
        if (neg) putchar('-');
        printf("%u", chunks.back());
        for (int i = int(chunks.size()) - 2; i >= 0; --i) printf("%09u", chunks[std::size_t(i)]);
    }
}

template<class T, class F>
void mfw_one(F xv)
{
    static std::string head = "C17 mfw " + tn<F>() + " " + tn<T>() + " ";
    fputs(head.c_str(), stdout);
    prf(xv);
    fputs(" => ", stdout);
    volatile F x = xv;
    long const us = timeout_usec() * 4;  // multi-word arithmetic is slower per iteration
    int rc = sigsetjmp(vh::jb, 1);
    if (rc == 0) {
        vh::armed = 1;
        arm(us);
        try {
            F const xin = x;
            fraction<T> fr(xin);
            arm(0);
            vh::armed = 0;
            pr_comp(fr.numerator);
            putchar('/');
            pr_comp(fr.denominator);
        } catch (std::overflow_error const& e) {
            arm(0);
            vh::armed = 0;
            print_throw(e);
        }
    } else {
        arm(0);
        vh::armed = 0;
        if (rc == SIGALRM) ++g_hangs;
        print_fail(rc);
    }
    putchar('\n');
}

// Input lattice for a component type of D digits (D may exceed every built-in type, so the limits are built from
// powers of two, not from numeric_limits of a built-in).  `floor_only`: keep the inputs whose fractional part is below
// one half (see C17.py: rounding_integer components)
template<class T, class F>
void mfw_sweep(Rng& rng, int mant_steps, int nrand, bool floor_only = false)
{
    using L = std::numeric_limits<T>;
    constexpr int P = FI<F>::prec;
    constexpr int D = L::digits;
    static_assert(L::is_signed);
    std::vector<F> xs;
    auto add = [&](F x) {
        if (!std::isfinite(x)) return;
        if (D < FI<F>::emax && std::fabs(x) > mk<F>(1, D + 1)) return;
        if (floor_only) {
            F a = std::fabs(x);
            if (a - std::floor(a) >= F(0.5)) return;
        }
        xs.push_back(x);
    };
    auto pm = [&](F x) { add(x), add(F(-x)); };
    auto nb = [&](F x) {
        pm(x);
        pm(std::nextafter(x, std::numeric_limits<F>::infinity()));
        pm(std::nextafter(x, F(0)));
    };
    // everyday values
    for (F x : {F(0), F(1), F(0.5), F(0.75), F(0.375), F(0.1L), F(1) / F(3), F(2) / F(7), F(7) / F(3), F(2.5), F(10.25), F(237), F(1234.5625L),
                F(3.14159265358979323846L), F(123456.789L), F(1) / F(1024), F(1e-9L), F(1e15L), F(16777216), F(4294967296.0L), F(1048576.25L)})
        pm(x);
    add(F(-0.0));
    // integers at and next to the component limits: max, max-1, max-2, max-3, max+1, halves, with float neighbours
    if (D <= FI<F>::emax) {
        F const top = mk<F>(1, D);  // max + 1
        for (int o = 0; o <= 4; ++o) nb(F(top - F(o)));
        for (F o : {F(0.5), F(1.5), F(2.5), F(0.25), F(1.25)}) pm(F(top - o));
        nb(mk<F>(1, D - 1));
        pm(F(mk<F>(1, D - 1) + F(0.5)));
        pm(F(mk<F>(1, D - 1) - F(0.5)));
        pm(F(top / 2 - F(0.5)));  // max/2
        pm(F(top - mk<F>(1, D - P > 0 ? D - P : 0)));  // the float just below 2^D
        for (int i = 0; i < 6; ++i) pm(F(top - F(1 + rng.below(1000))));
    }
    // powers of two down to 2^-(D+2) with neighbours, 3*2^-k, and the whole exponent lattice
    int const elo = (-(D + 2) < FI<F>::emin - P + 1) ? FI<F>::emin - P + 1 : -(D + 2);
    for (int k : {D + 2, D + 1, D, D - 1, D - 2, D / 2, P, P + 1, 31, 32, 63, 64}) {
        if (-k < elo) continue;
        nb(mk<F>(1, -k));
        pm(mk<F>(3, -k));
        pm(mk<F>(5, -k - 1));
    }
    int const span = D + 2 - elo;
    int const estep = span <= 80 ? 1 : span / 60;
    for (int e = elo; e <= D && e <= FI<F>::emax; e += (estep > 1 ? 1 + rng.below(2 * estep - 1) : 1))
        for (int k = 0; k < mant_steps; ++k) {
            std::uint64_t frac = mant_steps <= 1 ? 0 : (std::uint64_t(k) * ((std::uint64_t(1) << (P - 1)) - 1)) / std::uint64_t(mant_steps - 1);
            if (k && rng.below(3) == 0) frac ^= rng.next() & 0xff;
            frac &= (std::uint64_t(1) << (P - 1)) - 1;
            pm(mk<F>((std::uint64_t(1) << (P - 1)) | frac, e - (P - 1)));
        }
    for (int i = 0; i < nrand; ++i) {
        add(rnd_f<F>(rng, elo, D < FI<F>::emax ? D : FI<F>::emax));
        add(rnd_f<F>(rng, -4, 4));
        add(rnd_f<F>(rng, -P, P));
        int q = 1 + rng.below(rng.below(2) ? 12 : 1000);
        int p = rng.below(q * 4 + 1);
        pm(F(p) / F(q));
        add(F(rng.below(100000)) / F(rng.below(2) ? 100 : 1000));
        add(mk<F>(rng.next() & 0xffff, -(1 + rng.below(20))));
        // integers and integers + dyadic fractions of random bit length
        int len = 1 + rng.below(D < FI<F>::emax ? D : FI<F>::emax);
        F t = std::floor(mk<F>(rng.next() >> 1 | (std::uint64_t(1) << 63), len - 64));
        pm(t);
        add(t + mk<F>(1 + 2 * rng.below(8), -4));
    }
    for (F x : xs) {
        if (g_hangs >= g_hang_budget) break;
        mfw_one<T, F>(x);
    }
}
