"""C03 — comparisons: scaled_integer (shared scaled harness) and elastic_integer (elastic harness, comparisons only).
wide_integer: same-type comparisons are exercised and proved under C10 (theorem `comparisons`); comparisons of two different
wide_integer types (C03w.h, table `wcmpt`) are modelled in CnlModel/WideCmp.lean and proved in CnlProperties/C03.lean."""
import os, sys
sys.path.insert(0, os.path.dirname(os.path.abspath(__file__)))
import C01
import C05


def tus(tier, seed):
    res = C01.tus(tier, seed, section='C03')
    hdr = os.path.join(os.path.dirname(os.path.abspath(__file__)), 'C05.h')
    combos = C05.grid(tier, seed + 77)
    per = 4
    for i in range(0, len(combos), per):
        body = '#define VH_CMP_ONLY 1\n#define VH_ETABLE "C03"\n#include "%s"\nint main(){ install(); Rng rng(seed_from_env()+%d);\n' % (hdr, 300 + i)
        for (dl, nl, dr, nr) in combos[i:i + per]:
            body += '  bin<%d, %s, %d, %s>(rng);\n' % (dl, C05.CT[nl], dr, C05.CT[nr])
        body += '}\n'
        res.append(dict(name='C03_el_%d' % (i // per), src=body, compiler='g++'))
    # a built-in integer on either side of a scaled_integer / elastic_integer
    chdr = os.path.join(os.path.dirname(os.path.abspath(__file__)), 'C01.h')
    ic = [('i8', -2, 'i32', 2), ('i16', -13, 'i32', 2), ('i32', -16, 'i64', 2), ('u8', -4, 'i32', 2), ('i32', 0, 'u32', 2), ('i16', 3, 'i8', 2),
          ('i32', -2, 'i32', 10), ('u16', -8, 'u64', 2)]
    for i in range(0, len(ic), 4):
        body = '#define SEC_C03I 1\n#include "%s"\nint main(){ install(); Rng rng(seed_from_env()+%d);\n' % (chdr, 900 + i)
        for (r, e, b, rx) in ic[i:i + 4]:
            body += '  goi<%s, %d, %s, %d>(rng);\n' % (C01.CT[r], e, C01.CT[b], rx)
        body += '}\n'
        res.append(dict(name='C03_int_%d' % (i // 4), src=body, compiler='g++'))
    ehdr = os.path.join(os.path.dirname(os.path.abspath(__file__)), 'C05.h')
    ec = [(4, 'i8', 'i32'), (10, 'i32', 'i64'), (8, 'u32', 'i32'), (31, 'i32', 'u32'), (5, 'u8', 'i8'), (40, 'i32', 'i16'), (16, 'u16', 'i64'), (63, 'i64', 'u64')]
    for i in range(0, len(ec), 4):
        body = '#define VH_CMP_ONLY 1\n#define VH_ETABLE "C03"\n#include "%s"\nint main(){ install(); Rng rng(seed_from_env()+%d);\n' % (ehdr, 950 + i)
        for (d, n, b) in ec[i:i + 4]:
            body += '  cmpi<%d, %s, %s>(rng);\n' % (d, C05.CT[n], C05.CT[b])
        body += '}\n'
        res.append(dict(name='C03_eint_%d' % (i // 4), src=body, compiler='g++'))
    # wide_integer comparisons across different types: single-word vs multi-word, multi vs multi of different
    # widths with the wider operand on either side, signed and unsigned narrowest types, 8/32/64-bit limbs,
    # different signedness (compiles for different widths only); fixed corner pairs + seeded random widths
    hdr = os.path.join(os.path.dirname(os.path.abspath(__file__)), 'C03w.h')
    pairs = [(200, 'i32', 300, 'i32'), (300, 'i32', 200, 'i32'), (129, 'i32', 200, 'i32'), (200, 'i32', 200, 'i32'),
             (150, 'i32', 1024, 'i32'), (100, 'i32', 200, 'i32'), (200, 'i32', 100, 'i32'), (200, 'i32', 210, 'i32'),
             (100, 'i32', 50, 'i32'),
             (200, 'u32', 300, 'u32'), (300, 'u32', 200, 'u32'), (128, 'u32', 200, 'u32'), (129, 'u32', 128, 'u32'),
             (200, 'i8', 300, 'i8'), (300, 'u8', 200, 'u8'), (200, 'i64', 300, 'i64'), (320, 'u64', 200, 'u64'),
             (200, 'i32', 300, 'u32'), (300, 'u32', 200, 'i32'), (200, 'u32', 300, 'i32'), (300, 'i32', 200, 'u32'),
             (100, 'i32', 300, 'u32'), (300, 'i32', 100, 'u32'),
             # different signedness with a multi-word representation (by value since the repair of
             # C03.wide_mixed_signedness_converts_to_unsigned): a negative operand against a wider unsigned type in
             # both operand orders, 8/16/64-bit limbs, single-word (built-in) against multi-word in both orders and
             # both signedness assignments, built-in representations wider/narrower than a limb
             (300, 'u32', 100, 'i32'), (100, 'u32', 300, 'i32'), (20, 'i32', 200, 'u32'), (200, 'u32', 20, 'i32'),
             (200, 'i8', 300, 'u8'), (300, 'u8', 200, 'i8'), (200, 'i64', 320, 'u64'), (320, 'u64', 200, 'i64'),
             (40, 'i16', 200, 'u16'), (200, 'u16', 40, 'i16'), (100, 'i8', 200, 'u8'), (200, 'u8', 100, 'i8'),
             (200, 'u64', 300, 'i64'), (7, 'u8', 150, 'i8'),
             # single-word representations of different signedness (the built-in rule applies to the representations)
             (32, 'u32', 32, 'i32'), (32, 'i32', 32, 'u32'), (16, 'u8', 16, 'i8'), (31, 'i64', 32, 'u32'),
             (64, 'u32', 64, 'i32'), (64, 'i32', 64, 'u32'), (40, 'i16', 100, 'u16')]
    import random
    rnd = random.Random(seed * 7919 + 3)
    for _ in range(3 if tier == 'quick' else 9):
        n = rnd.choice(['i32', 'u32', 'i8', 'u8', 'i64', 'u64', 'i16'])
        a, b = rnd.randint(129, 700), rnd.randint(129, 700)
        pairs.append((a, n, b, n))
    # seeded pairs of different signedness: multi-word vs multi-word of different storage widths, and
    # single-word vs multi-word, the signed type on a random side
    def swidth(d, t):
        bits = int(t[1:])
        return -(-(d + (1 if t[0] == 'i' else 0)) // bits) * bits
    for _ in range(2 if tier == 'quick' else 6):
        bits = rnd.choice(['8', '16', '32', '64'])
        sg, un = 'i' + bits, 'u' + bits
        while True:
            a, b = rnd.randint(129, 600), rnd.randint(129, 600)
            if swidth(a, sg) != swidth(b, un):
                break
        pairs.append((a, sg, b, un) if rnd.random() < 0.5 else (b, un, a, sg))
        c, d = rnd.randint(1, 127), rnd.randint(129, 600)
        nsg, nun = rnd.choice([('i' + bits, 'u' + bits), ('u' + bits, 'i' + bits)])
        pairs.append((c, nsg, d, nun) if rnd.random() < 0.5 else (d, nun, c, nsg))
    per = 3
    for i in range(0, len(pairs), per):
        body = '#include "%s"\nint main(){ install(); Rng rng(seed_from_env() + %d);\n' % (hdr, 1300 + i)
        for (dl, nl, dr, nr) in pairs[i:i + per]:
            body += '  wcmpt<%d, %s, %d, %s>(rng);\n' % (dl, C01.CT[nl], dr, C01.CT[nr])
        body += '}\n'
        res.append(dict(name='C03_wide_%d' % (i // per), src=body, compiler='g++' if tier == 'quick' or (i // per) % 2 == 0 else 'clang++'))
    return res


RULE = C01.RULE + "; wide pairs: boundary lattice 2^k+5, 2^k-1, -2^k+5 for k next to the digit counts and storage widths of BOTH operand types (values that differ only above the narrower width), the all-ones value of an unsigned storage and -(2^(W-1)-1) of a signed one (the patterns a negative operand would turn into), small and negative values, random magnitudes; pairs of different signedness (negative vs wider unsigned in both operand orders, built-in vs multi-word storage in both orders) in every run; elastic pairs: all values for digits <= 6, boundary lattice of both declared ranges otherwise (so -1 versus 2^D-1 is always present)"
