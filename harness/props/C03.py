"""C03 — comparisons: scaled_integer (shared scaled harness) and elastic_integer (elastic harness, comparisons only).
wide_integer comparisons are exercised and proved under C10 (theorem `comparisons`)."""
import os, sys
sys.path.insert(0, os.path.dirname(os.path.abspath(__file__)))
import C01
import C05


def tus(tier, seed):
    res = C01.tus(tier, seed, section='C03')
    hdr = os.path.join(os.path.dirname(os.path.abspath(__file__)), 'C05.h')
    combos = C05.grid(tier, seed + 77)
    per = 4
    for i in range(0, len(combos), per):
        body = '#define VH_CMP_ONLY 1\n#define VH_ETABLE "C03"\n#include "%s"\nint main(){ install(); Rng rng(seed_from_env()+%d);\n' % (hdr, 300 + i)
        for (dl, nl, dr, nr) in combos[i:i + per]:
            body += '  bin<%d, %s, %d, %s>(rng);\n' % (dl, C05.CT[nl], dr, C05.CT[nr])
        body += '}\n'
        res.append(dict(name='C03_el_%d' % (i // per), src=body, compiler='g++'))
    # a built-in integer on either side of a scaled_integer / elastic_integer
    chdr = os.path.join(os.path.dirname(os.path.abspath(__file__)), 'C01.h')
    ic = [('i8', -2, 'i32', 2), ('i16', -13, 'i32', 2), ('i32', -16, 'i64', 2), ('u8', -4, 'i32', 2), ('i32', 0, 'u32', 2), ('i16', 3, 'i8', 2),
          ('i32', -2, 'i32', 10), ('u16', -8, 'u64', 2)]
    for i in range(0, len(ic), 4):
        body = '#define SEC_C03I 1\n#include "%s"\nint main(){ install(); Rng rng(seed_from_env()+%d);\n' % (chdr, 900 + i)
        for (r, e, b, rx) in ic[i:i + 4]:
            body += '  goi<%s, %d, %s, %d>(rng);\n' % (C01.CT[r], e, C01.CT[b], rx)
        body += '}\n'
        res.append(dict(name='C03_int_%d' % (i // 4), src=body, compiler='g++'))
    ehdr = os.path.join(os.path.dirname(os.path.abspath(__file__)), 'C05.h')
    ec = [(4, 'i8', 'i32'), (10, 'i32', 'i64'), (8, 'u32', 'i32'), (31, 'i32', 'u32'), (5, 'u8', 'i8'), (40, 'i32', 'i16'), (16, 'u16', 'i64'), (63, 'i64', 'u64')]
    for i in range(0, len(ec), 4):
        body = '#define VH_CMP_ONLY 1\n#define VH_ETABLE "C03"\n#include "%s"\nint main(){ install(); Rng rng(seed_from_env()+%d);\n' % (ehdr, 950 + i)
        for (d, n, b) in ec[i:i + 4]:
            body += '  cmpi<%d, %s, %s>(rng);\n' % (d, C05.CT[n], C05.CT[b])
        body += '}\n'
        res.append(dict(name='C03_eint_%d' % (i // 4), src=body, compiler='g++'))
    # wide_integer comparisons across different widths (single-word vs multi-word, multi vs multi)
    hdr = os.path.join(os.path.dirname(os.path.abspath(__file__)), 'C03w.h')
    pairs = [(200, 300), (300, 200), (129, 200), (200, 200), (150, 1024), (100, 200), (200, 100)]
    for i in range(0, len(pairs), 3):
        body = '#include "%s"\nint main(){ install(); Rng rng(seed_from_env());\n' % hdr
        for (dl, dr) in pairs[i:i + 3]:
            body += '  wcmp<%d, %d>(rng);\n' % (dl, dr)
        body += '}\n'
        res.append(dict(name='C03_wide_%d' % (i // 3), src=body, compiler='g++'))
    return res


RULE = C01.RULE + "; elastic pairs: all values for digits <= 6, boundary lattice of both declared ranges otherwise (so -1 versus 2^D-1 is always present)"
