// C16: cnl::fraction over built-in integer components versus the rationals.
// Values are read through the public members `numerator` / `denominator`.
#include "vh.h"

#include <algorithm>
#include <cmath>
#include <functional>
using namespace cnl;
using namespace vh;

template<class F>
void print_frac(F const& f)
{
    fputs(tn<F>().c_str(), stdout);
    putchar(':');
    prv(f.numerator);
    putchar('/');
    prv(f.denominator);
}

// floating-point value as [-]m*2^e with m odd (exact, no decimal conversion)
template<class S>
void print_flt(S x)
{
    fputs(tn<S>().c_str(), stdout);
    putchar(':');
    if (x != x) {
        fputs("nan", stdout);
        return;
    }
    if (std::signbit(x)) putchar('-');
    x = std::fabs(x);
    if (x == 0) {
        putchar('0');
        return;
    }
    if (std::isinf(x)) {
        fputs("inf", stdout);
        return;
    }
    constexpr int P = std::numeric_limits<S>::digits;
    int e;
    S m = std::frexp(x, &e);  // m in [0.5, 1)
    unsigned long long mi = (unsigned long long)std::ldexp(m, P);
    e -= P;
    while (!(mi & 1)) {
        mi >>= 1;
        ++e;
    }
    printf("%llu*2^%d", mi, e);
}

template<class Fn>
__attribute__((noinline)) char run_bool(Fn&& fn)
{
    int rc = sigsetjmp(vh::jb, 1);
    if (rc == 0) return fn() ? '1' : '0';
    return 'U';
}
template<class Fn>
__attribute__((noinline)) bool run_size(Fn&& fn, std::size_t& out)
{
    int rc = sigsetjmp(vh::jb, 1);
    if (rc == 0) {
        out = fn();
        return true;
    }
    return false;
}

template<class FA, class FB>
void head2(char const* kind, FA const& a, FB const& b)
{
    printf("C16 %s %s %s ", kind, tn<FA>().c_str(), tn<FB>().c_str());
    prv(a.numerator);
    putchar(' ');
    prv(a.denominator);
    putchar(' ');
    prv(b.numerator);
    putchar(' ');
    prv(b.denominator);
    fputs(" => ", stdout);
}
template<class FA>
void head1(char const* kind, FA const& a)
{
    printf("C16 %s %s ", kind, tn<FA>().c_str());
    prv(a.numerator);
    putchar(' ');
    prv(a.denominator);
    fputs(" => ", stdout);
}

template<class FA, class FB>
void cmp6(FA const& a, FB const& b)
{
    head2("cmp6", a, b);
    putchar(run_bool([&] { return a == b; }));
    putchar(run_bool([&] { return a != b; }));
    putchar(run_bool([&] { return a < b; }));
    putchar(run_bool([&] { return a > b; }));
    putchar(run_bool([&] { return a <= b; }));
    putchar(run_bool([&] { return a >= b; }));
    putchar('\n');
}

template<class FA, class FB>
void arith(FA const& a, FB const& b)
{
    head2("bin add", a, b);
    VH_RUN(a + b, print_frac)
    head2("bin sub", a, b);
    VH_RUN(a - b, print_frac)
    head2("bin mul", a, b);
    VH_RUN(a * b, print_frac)
    head2("bin div", a, b);
    VH_RUN(a / b, print_frac)
}

template<class FA, class FB>
void hasheq(FA const& a, FB const& b)
{
    head2("hasheq", a, b);
    putchar(run_bool([&] { return a == b; }));
    std::size_t ha = 0, hb = 0;
    bool oa = run_size([&] { return std::hash<FA>{}(a); }, ha);
    bool ob = run_size([&] { return std::hash<FB>{}(b); }, hb);
    putchar(!(oa && ob) ? 'U' : ha == hb ? '1' : '0');
    putchar('\n');
}

template<class FA>
void reduction(FA const& a)
{
    head1("un reduce", a);
    VH_RUN(cnl::reduce(a), print_frac)
    head1("un canonical", a);
    VH_RUN(cnl::canonical(a), print_frac)
    head1("gcd", a);
    VH_RUN(cnl::_impl::gcd(a), print_tv)
    head1("hash", a);
    VH_RUN(std::hash<FA>{}(a), print_tv)
}

template<class FA>
void unary(FA const& a)
{
    head1("un neg", a);
    VH_RUN(-a, print_frac)
    head1("un pos", a);
    VH_RUN(+a, print_frac)
    head1("un abs", a);
    VH_RUN(cnl::_impl::abs(a), print_frac)
}

template<class S, class FA>
void to_float(FA const& a)
{
    printf("C16 flt %s %s ", tn<S>().c_str(), tn<FA>().c_str());
    prv(a.numerator);
    putchar(' ');
    prv(a.denominator);
    fputs(" => ", stdout);
    VH_RUN(static_cast<S>(a), print_flt)
}

////////////////////////////////////////////////////////////////////////////////
// 8-bit components: the pair space of fractions

using F8 = fraction<std::int8_t, std::int8_t>;

inline F8 f8_of_index(unsigned idx) { return F8(std::int8_t(int(idx >> 8) - 128), std::int8_t(int(idx & 255) - 128)); }

inline std::vector<F8> corners8()
{
    std::vector<F8> v;
    for (int n : {-128, -127, -64, -2, -1, 0, 1, 2, 3, 64, 126, 127})
        for (int d : {-128, -127, -64, -2, -1, 0, 1, 2, 3, 64, 126, 127}) v.push_back(F8(std::int8_t(n), std::int8_t(d)));
    return v;
}

// every `stride`-th fraction of the 65536 (stride odd: all denominators and numerators are visited)
inline std::vector<F8> strided8(unsigned offset, unsigned stride)
{
    std::vector<F8> v = corners8();
    for (unsigned i = offset % stride; i < 65536; i += stride) v.push_back(f8_of_index(i));
    return v;
}

// pairs of 8-bit fractions: all six comparisons on every pair, arithmetic on every `arith_every`-th
inline void pairs8(Rng& rng, int part, int nparts, unsigned strideA, unsigned strideB, int arith_every)
{
    int sc = scale_from_env();
    if (sc > 1) {  // thorough: about 3x denser in each dimension
        strideA = (strideA / 3) | 1;
        strideB = (strideB / 3) | 1;
    }
    auto A = strided8(unsigned(rng.next() % strideA), strideA);
    auto B = strided8(unsigned(rng.next() % strideB), strideB);
    unsigned long k = 0;
    for (std::size_t i = part; i < A.size(); i += nparts)
        for (auto const& b : B) {
            cmp6(A[i], b);
            if (k++ % arith_every == 0) arith(A[i], b);
        }
}

// single 8-bit fractions: reduce / canonical / gcd / hash on all 65536 (part of nparts), the rest strided
inline void singles8(int part, int nparts, unsigned stride)
{
    if (scale_from_env() > 1) stride = 1;
    for (unsigned i = part; i < 65536; i += nparts) {
        F8 a = f8_of_index(i);
        reduction(a);
        if ((i / nparts) % stride == 0) {
            unary(a);
            to_float<double>(a);
            to_float<float>(a);
        }
    }
}

// pairs of 8-bit fractions that denote the same rational (all of them for the selected left operands)
inline void equal8(Rng& rng, int part, int nparts, unsigned stride)
{
    if (scale_from_env() > 1) stride = 1;
    unsigned off = unsigned(rng.next() % stride);
    unsigned cnt = 0;
    for (unsigned i = off; i < 65536; i += stride) {
        if (cnt++ % nparts != unsigned(part)) continue;
        F8 a = f8_of_index(i);
        int n1 = a.numerator, d1 = a.denominator;
        if (d1 == 0) continue;
        for (int d2 = -128; d2 <= 127; ++d2) {
            if (d2 == 0) continue;
            int p = n1 * d2;
            if (p % d1 != 0) continue;
            int n2 = p / d1;
            if (n2 < -128 || n2 > 127) continue;
            F8 b{std::int8_t(n2), std::int8_t(d2)};
            hasheq(a, b);
            cmp6(a, b);
        }
    }
}

////////////////////////////////////////////////////////////////////////////////
// wider and mixed component types: boundary lattice, small values, equal-valued constructions

template<class F>
std::vector<F> lattice_fracs(Rng& rng, int nlattice, int nsmall, int ntight)
{
    using N = typename F::numerator_type;
    using D = typename F::denominator_type;
    using LN = std::numeric_limits<N>;
    using LD = std::numeric_limits<D>;
    std::vector<F> v;
    auto nv = vals<N>(rng, 8, sizeof(N) > 4 ? 9 : sizeof(N) > 2 ? 5 : 3);
    auto dv = vals<D>(rng, 8, sizeof(D) > 4 ? 9 : sizeof(D) > 2 ? 5 : 3);
    // corners: both signs of both components, most negative values, zero numerators and denominators
    std::vector<N> cn{LN::lowest(), N(LN::lowest() + 1), N(0), N(1), N(2), LN::max()};
    std::vector<D> cd{LD::lowest(), D(LD::lowest() + 1), D(0), D(1), D(3), LD::max()};
    if constexpr (std::is_signed_v<N>) cn.push_back(N(-1));
    if constexpr (std::is_signed_v<D>) {
        cd.push_back(D(-1));
        cd.push_back(D(-2));
    }
    for (N n : cn)
        for (D d : cd) v.push_back(F(n, d));
    for (int i = 0; i < nlattice; ++i) v.push_back(F(nv[rng.below(int(nv.size()))], dv[rng.below(int(dv.size()))]));
    // small magnitudes: cross products fit, results are constrained by the property
    for (int i = 0; i < nsmall; ++i) {
        int bits = 1 + rng.below(sizeof(N) > 4 ? 30 : sizeof(N) > 2 ? 14 : 6);
        long long n = (long long)(rng.next() & ((1ull << bits) - 1));
        int bitsd = 1 + rng.below(sizeof(D) > 4 ? 30 : sizeof(D) > 2 ? 14 : 6);
        long long d = 1 + (long long)(rng.next() & ((1ull << bitsd) - 1));
        if constexpr (std::is_signed_v<N>)
            if (rng.below(2)) n = -n;
        if constexpr (std::is_signed_v<D>)
            if (rng.below(2)) d = -d;
        v.push_back(F(N(n), D(d)));
        // an equal-valued partner k*n / k*d (k of either sign) next to it
        long long k = 1 + rng.below(9);
        if constexpr (std::is_signed_v<N> && std::is_signed_v<D>)
            if (rng.below(2)) k = -k;
        if (i % 2 == 0) v.push_back(F(N(n * k), D(d * k)));
    }
    // "tight" magnitudes: components of about half the width of the type the cross products are computed in
    // (int for 8/16-bit components), so that products land next to the top of that type on either side of the
    // "cross products fit" guard: 2^(W-4) .. 2^W, the sign bit of signed and the top bit of unsigned types included
    constexpr int W = std::max({32, int(8 * sizeof(N)), int(8 * sizeof(D))});
    for (int i = 0; i < ntight; ++i) {
        auto pick = [&](int digits) {
            int bits = std::min(digits, W / 2 - 2 + rng.below(3));
            unsigned long long m = (rng.next() & ((1ull << (bits - 1)) - 1)) | (1ull << (bits - 1));
            if (rng.below(4) == 0) m = (1ull << (bits - 1)) | ((1ull << (bits - 1)) - 1);  // all ones
            if (rng.below(6) == 0) m = 1ull << (bits - 1);                                   // single bit
            return m;
        };
        unsigned long long n = pick(LN::digits), d = pick(LD::digits);
        N nn = N(n);
        D dd = D(d);
        if constexpr (std::is_signed_v<N>)
            if (rng.below(2)) nn = N(-nn);
        if constexpr (std::is_signed_v<D>)
            if (rng.below(2)) dd = D(-dd);
        v.push_back(F(nn, dd));
    }
    return v;
}

template<class FA, class FB>
void wide(Rng& rng)
{
    int sc = scale_from_env();
    auto A = lattice_fracs<FA>(rng, 16 * sc, 24 * sc, 14 * sc);
    auto B = lattice_fracs<FB>(rng, 16 * sc, 24 * sc, 14 * sc);
    // make sure some pairs across A and B are equal-valued
    if constexpr (std::is_same_v<FA, FB>)
        for (std::size_t i = 0; i < A.size(); i += 5) B.push_back(A[i]);
    for (auto const& a : A)
        for (auto const& b : B) {
            cmp6(a, b);
            arith(a, b);
            // the hash/equality contract is that of one std::hash<T> specialisation
            if constexpr (std::is_same_v<FA, FB>) hasheq(a, b);
        }
    for (auto const& a : A) {
        reduction(a);
        unary(a);
        to_float<float>(a);
        to_float<double>(a);
        to_float<long double>(a);
    }
}
