// C04: conversions of a scaled_integer whose representation is an elastic_integer, or a nest of native-rounding
// wrappers over an elastic_integer (overflow_integer<elastic_integer<N>>, static_number<N, E, native_rounding_tag>),
// to a coarser (or finer) exponent of the same archetype and to built-in integers -- including conversions that drop
// at least as many digits as the word holding the source representation is wide (k >= 31, 32, 63, 64, 70 ...):
// the exact result is 0 there, never a division by zero / an over-wide shift.
//   C04w ecvt <Src> <Dst> <v> => <Dst>:<innermost value of Dst(Src holding representation v)>
// <v> runs over a lattice of the declared digits of the source (|v| <= 2^N - 1).
#include "vh.h"
using namespace cnl;
using namespace vh;
static const bool vh_strict_on = (vh::strict = true);

// declared digits and signedness of the elastic layer of a nest
template<class T>
struct el_info;
template<class R, int D, class N>
struct el_info<_impl::wrapper<R, elastic_tag<D, N>>> {
    static constexpr int digits = D;
    static constexpr bool is_signed = std::numeric_limits<N>::is_signed;
};
template<class R, class Tag>
struct el_info<_impl::wrapper<R, Tag>> : el_info<R> {
};

template<class Z>
void pre(Z const& z)
{
    if constexpr (_impl::is_wrapper<Z>)
        print_num(z);
    else
        print_tv(z);
}

// lattice of the values of `digits` digits: 0, +-1, +-2, powers of two and neighbours, max, halves, thirds, random
inline std::vector<I> evals(Rng& rng, int digits, bool sg, int nrand)
{
    std::vector<I> v;
    I const max = (I(1) << digits) - 1;
    auto add = [&](I x) {
        if (x > max || x < -max || (x < 0 && !sg)) return;
        push_unique(v, x);
    };
    for (I s : {I(1), I(-1)}) {
        for (int d = 0; d <= 3; ++d) {
            add(s * d);
            add(s * (max - d));
        }
        int const step = digits > 40 ? 7 : digits > 16 ? 4 : 2;
        for (int k = 1; k < digits; k += step) {
            I p = I(1) << k;
            add(s * p);
            add(s * (p - 1));
            add(s * (p + 1));
        }
        for (int k = digits - 2; k < digits; ++k)
            if (k > 0) {
                I p = I(1) << k;
                add(s * p);
                add(s * (p - 1));
                add(s * (p + 1));
            }
        add(s * (max / 2));
        add(s * (max / 2 + 1));
        add(s * (max / 3));
        add(s * 12345);
    }
    for (int i = 0; i < nrand; ++i) {
        int len = 1 + rng.below(digits);
        I x = I(rng.next128() & U(max)) & ((I(1) << len) - 1);
        if (sg && rng.below(2)) x = -x;
        v.push_back(x);
    }
    return v;
}

template<class Src, class Dst>
void goe(Rng& rng)
{
    using inner = decltype(vh::innermost(Src{}));
    constexpr int digits = el_info<Src>::digits;
    auto vs = evals(rng, digits, el_info<Src>::is_signed, 6 * scale_from_env());
    for (I x : vs) {
        inner const v = static_cast<inner>(x);
        printf("C04w ecvt %s %s ", tn<Src>().c_str(), tn<Dst>().c_str());
        prv(v);
        fputs(" => ", stdout);
        Src const src = cnl::wrap<Src>(v);
        if (!(vh::innermost(src) == v)) {
            fputs("WRAPFAIL\n", stdout);
            continue;
        }
        VH_RUN(static_cast<Dst>(src), ([](auto const& w) { pre(w); }))
    }
}
