// Floating-point helpers shared by harnesses: hex-float printing, structured value generators.
// (same generators as the CF table of C17, which validates CnlModel/CFloat.lean)
#pragma once
#include "vh.h"

#include <cfloat>
#include <cmath>

namespace vhf {
using namespace vh;

////////////////////////////////////////////////////////////////////////////////
// printing: hex floats (never decimal); NaN sign-stripped

template<class F>
void prf(F x)
{
    if (std::isnan(x))
        fputs("nan", stdout);
    else if constexpr (std::is_same_v<F, long double>)
        printf("%La", x);
    else
        printf("%a", double(x));
}

template<class F>
struct FI;
template<>
struct FI<float> {
    using bits = std::uint32_t;
    static constexpr int prec = 24, emin = -126, emax = 127;
};
template<>
struct FI<double> {
    using bits = std::uint64_t;
    static constexpr int prec = 53, emin = -1022, emax = 1023;
};
template<>
struct FI<long double> {
    using bits = std::uint64_t;
    static constexpr int prec = 64, emin = -16382, emax = 16383;
};

// m * 2^e (exact scaling; m has at most 64 bits)
template<class F>
F mk(std::uint64_t m, int e)
{
    return std::ldexp(F(m), e);
}

template<class F>
void push_f(std::vector<F>& v, F x)
{
    for (F y : v)
        if ((std::isnan(x) && std::isnan(y)) || (x == y && std::signbit(x) == std::signbit(y))) return;
    v.push_back(x);
}
template<class F>
void push_pm(std::vector<F>& v, F x)
{
    push_f(v, x);
    push_f(v, F(-x));
}
template<class F>
void push_nb(std::vector<F>& v, F x)  // x and its two neighbours, both signs
{
    push_pm(v, x);
    push_pm(v, std::nextafter(x, std::numeric_limits<F>::infinity()));
    push_pm(v, std::nextafter(x, -std::numeric_limits<F>::infinity()));
}

// random value: random significand pattern, exponent in [elo, ehi]
template<class F>
F rnd_f(Rng& rng, int elo, int ehi)
{
    constexpr int P = FI<F>::prec;
    std::uint64_t m = rng.next();
    switch (rng.below(6)) {
    case 0: m &= ~((std::uint64_t(1) << rng.below(P)) - 1); break;            // trailing zeros
    case 1: m |= (std::uint64_t(1) << rng.below(P)) - 1; break;               // trailing ones
    case 2: m = std::uint64_t(1) << rng.below(P); break;                      // single bit
    case 3: m = (std::uint64_t(1) << (1 + rng.below(P - 1))) + (rng.below(3) - 1); break;  // 2^k, 2^k ± 1
    default: break;
    }
    if (P < 64) m &= (std::uint64_t(1) << P) - 1;
    if (rng.below(4)) m |= std::uint64_t(1) << (P - 1);  // mostly normalised
    int e = elo + rng.below(ehi - elo + 1);
    F x = mk<F>(m, e - (P - 1));
    return rng.below(2) ? x : F(-x);
}

// structured values of a floating type: specials, limits, powers of two ± ulp, ties, integer-type
// limits ± 0.5/1 with neighbours, random
template<class F>
std::vector<F> fvals(Rng& rng, int nrand, bool small)
{
    using L = std::numeric_limits<F>;
    constexpr int P = FI<F>::prec;
    std::vector<F> v;
    push_pm(v, F(0));
    push_pm(v, L::infinity());
    push_f(v, L::quiet_NaN());
    push_nb(v, L::denorm_min());
    push_pm(v, F(L::denorm_min() * 3));
    push_nb(v, L::min());
    push_nb(v, L::max());
    push_nb(v, F(1));
    push_pm(v, F(0.5));
    push_pm(v, F(1.5));
    push_pm(v, F(3));
    push_pm(v, F(0.1L));
    push_pm(v, F(1) / F(3));
    // half-ulp and quarter-ulp companions of 1 (ties in additions)
    push_pm(v, mk<F>(1, -P));
    push_pm(v, mk<F>(1, -P + 1));
    push_pm(v, mk<F>(3, -P - 1));
    push_pm(v, mk<F>(1, -P - 1));
    if (!small) {
        for (int k : {-FI<F>::emin, -FI<F>::emin + 1, 7, 8, 15, 16, 23, 24, 31, 32, 52, 53, 62, 63, 64, 65, 127, 128, FI<F>::emax}) {
            if (k > FI<F>::emax) continue;
            push_nb(v, mk<F>(1, k));
            push_nb(v, mk<F>(1, -k));
        }
        // limits of every integer type, ± 0.5 / 1
        for (int k : {7, 8, 15, 16, 31, 32, 63, 64, 127, 128}) {
            if (k > FI<F>::emax) continue;
            F p = mk<F>(1, k);
            for (F o : {F(0), F(0.5), F(1), F(1.5), F(2)}) {
                push_pm(v, F(p - o));
                push_pm(v, F(p + o));
            }
        }
        push_pm(v, mk<F>(1, FI<F>::emin - 1));
        push_pm(v, mk<F>(3, FI<F>::emin - 2));
        push_pm(v, mk<F>(1, FI<F>::emax / 2));
        push_pm(v, mk<F>(1, -FI<F>::emax / 2));
    }
    for (int i = 0; i < nrand; ++i) {
        switch (i % 4) {
        case 0: v.push_back(rnd_f<F>(rng, FI<F>::emin - P, FI<F>::emax)); break;  // whole range incl. subnormal
        case 1: v.push_back(rnd_f<F>(rng, -3, 3)); break;                          // close exponents
        case 2: v.push_back(rnd_f<F>(rng, -P - 2, P + 2)); break;
        default: v.push_back(rnd_f<F>(rng, 0, 130 < FI<F>::emax ? 130 : FI<F>::emax)); break;  // integer-ish magnitudes
        }
    }
    return v;
}

template<class F> struct FN;
template<> struct FN<float> { static constexpr char const* name = "f32"; };
template<> struct FN<double> { static constexpr char const* name = "f64"; };
template<> struct FN<long double> { static constexpr char const* name = "f80"; };
}  // namespace vhf
