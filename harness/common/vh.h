// Common runner for the correspondence harness: real CNL headers, in-process, sanitizer traps,
// abort/unreachable hook, canonical printing.  See DESIGN.md section 4.1.
#pragma once
#include <cnl/all.h>

#include <csetjmp>
#include <csignal>
#include <cstdint>
#include <cstdio>
#include <cstdlib>
#include <cstring>
#include <limits>
#include <stdexcept>
#include <string>
#include <type_traits>
#include <unistd.h>
#include <vector>

namespace vh {
    using I = __int128;
    using U = unsigned __int128;

    ////////////////////////////////////////////////////////////////////////////////
    // printing

    inline void pru(U u)
    {
        char b[50];
        int n = 0;
        do {
            b[n++] = char('0' + int(u % 10));
            u /= 10;
        } while (u);
        while (n) putchar(b[--n]);
    }
    inline void pri(I v)
    {
        if (v < 0) {
            putchar('-');
            pru(-(U)v);
        } else
            pru((U)v);
    }
    template<class T>
    void prv(T v)
    {
        if constexpr (std::is_same_v<T, bool>)
            putchar(v ? '1' : '0');
        else if constexpr (std::is_signed_v<T> || std::is_same_v<T, I>)
            pri((I)v);
        else
            pru((U)v);
    }

    // type names in the instantiation grammar
    template<class T, class = void>
    struct TN;
    template<class T>
    std::string tn() { return TN<T>::name(); }

#define VH_TN(T, S) \
    template<> \
    struct TN<T> { \
        static std::string name() { return S; } \
    };
    VH_TN(signed char, "i8")
    VH_TN(unsigned char, "u8")
    VH_TN(short, "i16")
    VH_TN(unsigned short, "u16")
    VH_TN(int, "i32")
    VH_TN(unsigned, "u32")
    VH_TN(long, "i64")
    VH_TN(unsigned long, "u64")
    VH_TN(long long, "i64")
    VH_TN(unsigned long long, "u64")
    VH_TN(I, "i128")
    VH_TN(U, "u128")
    VH_TN(float, "f32")
    VH_TN(double, "f64")
    VH_TN(long double, "f80")
    VH_TN(bool, "bool")
    VH_TN(char, "i8")

    template<class Tag>
    struct TagN;
    template<>
    struct TagN<cnl::native_overflow_tag> { static std::string name() { return "nat"; } };
    template<>
    struct TagN<cnl::saturated_overflow_tag> { static std::string name() { return "sat"; } };
    template<>
    struct TagN<cnl::_impl::throwing_overflow_tag> { static std::string name() { return "thr"; } };
    template<>
    struct TagN<cnl::trapping_overflow_tag> { static std::string name() { return "trp"; } };
    template<>
    struct TagN<cnl::undefined_overflow_tag> { static std::string name() { return "und"; } };
    template<>
    struct TagN<cnl::native_rounding_tag> { static std::string name() { return "nat"; } };
    template<>
    struct TagN<cnl::nearest_rounding_tag> { static std::string name() { return "nrst"; } };
    template<>
    struct TagN<cnl::tie_to_pos_inf_rounding_tag> { static std::string name() { return "tpi"; } };
    template<>
    struct TagN<cnl::neg_inf_rounding_tag> { static std::string name() { return "ninf"; } };

    template<class Rep, class Tag>
    struct WN;  // wrapper name by tag
    template<class Rep, int D, class N>
    struct WN<Rep, cnl::elastic_tag<D, N>> {
        static std::string name() { return "el(" + std::to_string(D) + "," + tn<N>() + ")"; }
    };
    template<class Rep, int D, class N>
    struct WN<Rep, cnl::wide_tag<D, N>> {
        static std::string name() { return "wd(" + std::to_string(D) + "," + tn<N>() + ")"; }
    };
    template<class Rep, int E, int R>
    struct WN<Rep, cnl::power<E, R>> {
        static std::string name() { return "sc(" + tn<Rep>() + "," + std::to_string(E) + "," + std::to_string(R) + ")"; }
    };
    template<class Rep, class Tag>
    struct WN {
        static std::string name()
        {
            if constexpr (cnl::_impl::is_overflow_tag<Tag>::value)
                return "ov(" + tn<Rep>() + "," + TagN<Tag>::name() + ")";
            else
                return "rd(" + tn<Rep>() + "," + TagN<Tag>::name() + ")";
        }
    };
    template<class Rep, class Tag>
    struct TN<cnl::_impl::wrapper<Rep, Tag>> {
        static std::string name() { return WN<Rep, Tag>::name(); }
    };
    template<class N, class D>
    struct TN<cnl::fraction<N, D>> {
        static std::string name() { return "fr(" + tn<N>() + "," + tn<D>() + ")"; }
    };

    ////////////////////////////////////////////////////////////////////////////////
    // escaping from traps, signals and the abort/unreachable hook

    inline sigjmp_buf jb;
    inline volatile sig_atomic_t armed = 0;  // inside VH_RUN?
    inline bool strict = false;              // opt-in: a fault outside VH_RUN stops the harness (set by harnesses that only use VH_RUN)
    inline char hook_msg[256];
    enum { RC_HOOK_ABORT = 1000, RC_HOOK_UNREACHABLE = 1001 };

    inline void hook(int kind, char const* m)
    {
        if (strict && !armed) {
            fprintf(stderr, "\nHARNESS-FAULT: abort/unreachable outside VH_RUN: %s\n", m ? m : "");
            _exit(70);
        }
        snprintf(hook_msg, sizeof hook_msg, "%s", m ? m : "");
        siglongjmp(jb, kind == 0 ? RC_HOOK_ABORT : RC_HOOK_UNREACHABLE);
    }
    inline void on_signal(int s)
    {
        if (strict && !armed) {
            // a fault in the harness itself, not in the code under test: fail loudly
            char const msg[] = "\nHARNESS-FAULT: signal outside VH_RUN\n";
            (void)!write(2, msg, sizeof msg - 1);
            _exit(70);
        }
        siglongjmp(jb, s);
    }

    inline void install()
    {
        cnl::_impl::verif_hook = hook;
        for (int s : {SIGILL, SIGFPE, SIGSEGV, SIGBUS, SIGALRM, SIGABRT, SIGTRAP}) {
            struct sigaction sa;
            memset(&sa, 0, sizeof sa);
            sa.sa_handler = on_signal;
            sa.sa_flags = SA_NODEFER;
            sigaction(s, &sa, nullptr);
        }
        static char buf[1 << 16];
        setvbuf(stdout, buf, _IOFBF, sizeof buf);
        static_assert(sizeof(int) == 4 && sizeof(long) == 8 && sizeof(long long) == 8 && sizeof(short) == 2);
        static_assert(sizeof(std::size_t) == 8);
    }

    // canonical failure outcome
    inline void print_fail(int rc)
    {
        if (rc == RC_HOOK_ABORT) {
            if (!strcmp(hook_msg, "positive overflow"))
                fputs("TRAP+", stdout);
            else if (!strcmp(hook_msg, "negative overflow"))
                fputs("TRAP-", stdout);
            else
                fputs("UNREACHABLE", stdout);
        } else if (rc == RC_HOOK_UNREACHABLE)
            fputs("UNREACHABLE", stdout);
        else if (rc == SIGILL || rc == SIGFPE || rc == SIGTRAP)
            fputs("UB", stdout);
        else if (rc == SIGALRM)
            fputs("TIMEOUT", stdout);
        else if (rc == SIGSEGV || rc == SIGBUS)
            fputs("SEGV", stdout);
        else if (rc == SIGABRT)
            fputs("ABORT", stdout);
        else
            printf("SIGNAL%d", rc);
    }

    inline void print_throw(std::overflow_error const& e)
    {
        if (!strcmp(e.what(), "positive overflow"))
            fputs("THROW+", stdout);
        else if (!strcmp(e.what(), "negative overflow"))
            fputs("THROW-", stdout);
        else
            printf("THROW(%s)", e.what());
    }

    // print a built-in integer result with its type
    template<class Z>
    void print_tv(Z z)
    {
        if constexpr (std::is_same_v<Z, bool>) {
            putchar(z ? '1' : '0');
            return;
        }
        fputs(tn<Z>().c_str(), stdout);
        putchar(':');
        prv(z);
    }

    // innermost built-in rep of a (possibly nested) CNL number
    template<class Z>
    auto innermost(Z const& z)
    {
        if constexpr (cnl::_impl::is_wrapper<Z>)
            return innermost(cnl::_impl::to_rep(z));
        else
            return z;
    }
    // print a CNL number: type string and innermost rep value
    template<class Z>
    void print_num(Z const& z)
    {
        fputs(tn<Z>().c_str(), stdout);
        putchar(':');
        prv(innermost(z));
    }

    ////////////////////////////////////////////////////////////////////////////////
    // inputs

    struct Rng {
        std::uint64_t s;
        explicit Rng(std::uint64_t seed) : s(seed * 0x9E3779B97F4A7C15ull + 0x1234567ull) {}
        std::uint64_t next()
        {
            std::uint64_t z = (s += 0x9E3779B97F4A7C15ull);
            z = (z ^ (z >> 30)) * 0xBF58476D1CE4E5B9ull;
            z = (z ^ (z >> 27)) * 0x94D049BB133111EBull;
            return z ^ (z >> 31);
        }
        U next128() { return (U(next()) << 64) | next(); }
        int below(int n) { return int(next() % std::uint64_t(n)); }
    };

    inline std::uint64_t seed_from_env()
    {
        char const* s = getenv("VERIF_SEED");
        return s ? strtoull(s, nullptr, 10) : 0;
    }
    inline int scale_from_env()  // multiplies the number of random values (thorough tier)
    {
        char const* s = getenv("VH_SCALE");
        return s ? atoi(s) : 1;
    }

    template<class T>
    void push_unique(std::vector<T>& v, T x)
    {
        for (T y : v)
            if (y == x) return;
        v.push_back(x);
    }

    // boundary lattice of a built-in integer type: near lowest/max/0, powers of two and neighbours,
    // halves, thirds, sqrt(max); plus `nrand` structured random values (random bit length)
    template<class T>
    std::vector<T> vals(Rng& rng, int nrand, int kstep = 0)
    {
        using L = std::numeric_limits<T>;
        constexpr int D = L::digits;
        std::vector<T> v;
        T lo = L::lowest(), hi = L::max();
        for (int d = 0; d <= 2; ++d) {
            push_unique(v, T(lo + T(d)));
            push_unique(v, T(hi - T(d)));
            push_unique(v, T(d));
            if constexpr (std::is_signed_v<T> || std::is_same_v<T, I>) push_unique(v, T(-d));
        }
        if (!kstep) kstep = D > 64 ? 13 : D > 32 ? 9 : D > 16 ? 5 : D > 8 ? 3 : 1;
        for (int k = 1; k < D; k += kstep) {
            T p = T(T(1) << k);
            push_unique(v, p);
            push_unique(v, T(p - 1));
            push_unique(v, T(p + 1));
            if constexpr (std::is_signed_v<T> || std::is_same_v<T, I>) {
                push_unique(v, T(-p));
                push_unique(v, T(-p + 1));
                push_unique(v, T(-p - 1));
            }
        }
        push_unique(v, T(hi / 2));
        push_unique(v, T(hi / 2 + 1));
        push_unique(v, T(hi / 3));
        push_unique(v, T(lo / 2));
        push_unique(v, T(lo / 3));
        {
            // floor(sqrt(max)) and neighbour
            T r = 0;
            for (int k = (D - 1) / 2; k >= 0; --k) {
                T c = T(r | (T(1) << k));
                if (c <= hi / c) r = c;
            }
            push_unique(v, r);
            push_unique(v, T(r + 1));
            if constexpr (std::is_signed_v<T> || std::is_same_v<T, I>) push_unique(v, T(-r));
        }
        for (int i = 0; i < nrand; ++i) {
            U x = rng.next128();
            int len = 1 + rng.below(D);
            if (len < 128) x &= ((U(1) << len) - 1);
            T t = T(x);
            if constexpr (std::is_signed_v<T> || std::is_same_v<T, I>) {
                if (len >= D) t = T(t & hi);
                if (rng.below(2)) t = T(-t - T(rng.below(2)));
            }
            v.push_back(t);
        }
        return v;
    }

    // all values of a small type
    template<class T>
    std::vector<T> all_vals()
    {
        static_assert(sizeof(T) <= 2);
        std::vector<T> v;
        long lo = std::numeric_limits<T>::lowest(), hi = std::numeric_limits<T>::max();
        for (long x = lo; x <= hi; ++x) v.push_back(T(x));
        return v;
    }
}

// Evaluate EXPR inside the escape context; on normal completion PRINT(result).
// NOLINTNEXTLINE
#define VH_RUN(EXPR, PRINT) \
    { \
        int vh_rc = sigsetjmp(vh::jb, 1); \
        if (vh_rc == 0) { \
            vh::armed = 1; \
            try { \
                auto vh_z = (EXPR); \
                vh::armed = 0; \
                PRINT(vh_z); \
            } catch (std::overflow_error const& vh_e) { \
                vh::armed = 0; \
                vh::print_throw(vh_e); \
            } \
        } else { \
            vh::armed = 0; \
            vh::print_fail(vh_rc); \
        } \
        putchar('\n'); \
    }
