#!/usr/bin/env python3
"""Entry point of the cnl verification machinery (see DESIGN.md).

  check.py <ID> [--tier quick|thorough]     decide one property on /repo's working tree
  check.py replay <replay.json>             re-run the single case recorded in a replay file
  check.py build                            build the Lean project and the driver (setup)

Exit status: 0 property held on everything explored (KNOWN-FINDING lines allowed),
             1 with a line `VIOLATION property=<id> replay=<path>`,
             2 the machinery itself failed (never reported as a violation).
"""
import argparse
import concurrent.futures as cf
import fcntl
import hashlib
import importlib.util
import json
import os
import re
import shutil
import subprocess
import sys
import time

ROOT = os.path.dirname(os.path.abspath(__file__))
REPO = os.environ.get("VERIF_REPO", "/repo")
LEAN = os.path.join(ROOT, "lean")
CACHE = os.path.join(ROOT, ".cache")
HARNESS = os.path.join(ROOT, "harness")
DRIVER = os.path.join(LEAN, ".lake", "build", "bin", "cnl_driver")
GUARD = "JOHNMCFARLANE_CNL_VERIF"
ALLOWED_AXIOMS = {"propext", "Classical.choice", "Quot.sound"}
FORBIDDEN = re.compile(r"\b(sorry|admit|native_decide|bv_decide|implemented_by|unsafe)\b|^\s*axiom\s|maxHeartbeats\s+0\b")

COMPILERS = {
    "g++": ["g++", "-std=gnu++20", "-fsanitize-undefined-trap-on-error"],
    "clang++": ["clang++-14", "-std=gnu++20", "-fsanitize-trap=undefined", "-Wno-everything"],
}


class MachineryError(Exception):
    pass


def log(*a):
    print(*a, file=sys.stderr, flush=True)


def sh(cmd, timeout=None, cwd=None, env=None, inp=None):
    return subprocess.run(cmd, cwd=cwd, env=env, input=inp, stdout=subprocess.PIPE, stderr=subprocess.PIPE,
                          timeout=timeout, text=True)


class Lock:
    def __init__(self, name):
        os.makedirs(CACHE, exist_ok=True)
        self.path = os.path.join(CACHE, name + ".lock")

    def __enter__(self):
        self.f = open(self.path, "w")
        fcntl.flock(self.f, fcntl.LOCK_EX)
        return self

    def __exit__(self, *a):
        fcntl.flock(self.f, fcntl.LOCK_UN)
        self.f.close()


# ----------------------------------------------------------------------------------------
# Lean side

def lean_sources():
    out = []
    for d, _, fs in os.walk(LEAN):
        if ".lake" in d:
            continue
        for f in fs:
            if f.endswith(".lean"):
                out.append(os.path.join(d, f))
    return sorted(out)


def strip_comments(text):
    # remove /- ... -/ (nested) and -- comments
    out, i, depth = [], 0, 0
    while i < len(text):
        if text.startswith("/-", i):
            depth += 1
            i += 2
        elif depth and text.startswith("-/", i):
            depth -= 1
            i += 2
        elif depth:
            if text[i] == "\n":
                out.append("\n")
            i += 1
        elif text.startswith("--", i):
            while i < len(text) and text[i] != "\n":
                i += 1
        else:
            out.append(text[i])
            i += 1
    return "".join(out)


def import_closure(roots):
    seen, todo = set(), list(roots)
    while todo:
        m = todo.pop()
        if m in seen:
            continue
        p = os.path.join(LEAN, *m.split(".")) + ".lean"
        if not os.path.exists(p):
            continue
        seen.add(m)
        for line in open(p):
            mm = re.match(r"\s*import\s+(\S+)", line)
            if mm:
                todo.append(mm.group(1))
    return sorted(os.path.join(LEAN, *m.split(".")) + ".lean" for m in seen)


def grep_forbidden(roots=None):
    hits = []
    for p in (import_closure(roots) if roots else lean_sources()):
        code = strip_comments(open(p).read())
        # string literals may legitimately contain the words (messages); drop them
        code = re.sub(r'"(?:[^"\\]|\\.)*"', '""', code)
        for n, line in enumerate(code.split("\n"), 1):
            if FORBIDDEN.search(line):
                hits.append(f"{os.path.relpath(p, LEAN)}:{n}: {line.strip()}")
    return hits


def lake_build(targets, timeout=3000):
    """Build targets; returns (ok, output)."""
    with Lock("lake"):
        t0 = time.time()
        r = sh(["lake", "build"] + targets, cwd=LEAN, timeout=timeout)
        log(f"[lean] lake build {' '.join(targets)}: rc={r.returncode} {time.time()-t0:.1f}s")
        return r.returncode == 0, r.stdout + r.stderr


def property_theorems(pid):
    p = os.path.join(LEAN, "CnlProperties", pid + ".lean")
    if not os.path.exists(p):
        return []
    code = strip_comments(open(p).read())
    names = []
    ns = []
    for line in code.split("\n"):
        m = re.match(r"\s*namespace\s+(\S+)", line)
        if m:
            ns.append(m.group(1))
            continue
        m = re.match(r"\s*end\s+(\S+)", line)
        if m and ns and ns[-1] == m.group(1):
            ns.pop()
            continue
        m = re.match(r"\s*(?:private\s+|protected\s+)?theorem\s+(\S+)", line)
        if m:
            names.append(".".join(ns + [m.group(1)]))
    return names


def audit_axioms(pid, names):
    """#print axioms for every property theorem; returns dict name -> [axioms]."""
    if not names:
        return {}
    os.makedirs(os.path.join(CACHE, "audit"), exist_ok=True)
    f = os.path.join(CACHE, "audit", f"Audit_{pid}_{os.getpid()}.lean")
    with open(f, "w") as fh:
        fh.write(f"import CnlProperties.{pid}\n")
        for n in names:
            fh.write(f"#print axioms {n}\n")
    try:
        r = sh(["lake", "env", "lean", f], cwd=LEAN, timeout=900)
    finally:
        os.unlink(f)
    if r.returncode != 0:
        raise MachineryError("axiom audit failed to run:\n" + r.stdout + r.stderr)
    res = {}
    text = r.stdout.replace("\n  ", " ")
    for m in re.finditer(r"'([^']+)' depends on axioms: \[([^\]]*)\]", text):
        res[m.group(1)] = [a.strip() for a in m.group(2).split(",") if a.strip()]
    for m in re.finditer(r"'([^']+)' does not depend on any axioms", text):
        res[m.group(1)] = []
    return res


# ----------------------------------------------------------------------------------------
# harness side

def include_hash():
    h = hashlib.sha256()
    inc = os.path.join(REPO, "include")
    for d, ds, fs in os.walk(inc):
        ds.sort()
        for f in sorted(fs):
            p = os.path.join(d, f)
            h.update(os.path.relpath(p, inc).encode())
            with open(p, "rb") as fh:
                h.update(fh.read())
    for d, ds, fs in os.walk(HARNESS):
        ds.sort()
        for f in sorted(fs):
            if f.endswith((".h", ".cpp")):
                with open(os.path.join(d, f), "rb") as fh:
                    h.update(fh.read())
    return h.hexdigest()


def prune_cache(limit_bytes=3 << 30):
    bdir = os.path.join(CACHE, "bin")
    if not os.path.isdir(bdir):
        return
    ents = []
    for f in os.listdir(bdir):
        p = os.path.join(bdir, f)
        try:
            st = os.stat(p)
            ents.append((st.st_atime, st.st_size, p))
        except OSError:
            pass
    total = sum(e[1] for e in ents)
    for _, sz, p in sorted(ents):
        if total <= limit_bytes:
            break
        try:
            os.unlink(p)
            total -= sz
        except OSError:
            pass


def compile_tu(tu, inc_hash):
    """tu: dict(name, src, compiler, defines, asan, opt).  Returns (binary path | None, diagnostics)."""
    comp = tu.get("compiler", "g++")
    base = COMPILERS[comp]
    san = "address,undefined" if tu.get("asan") else "undefined"
    flags = base + [tu.get("opt", "-O1"), "-g0", f"-fsanitize={san},float-cast-overflow", "-fno-sanitize-recover=all",
                    "-fno-omit-frame-pointer",
                    f"-I{REPO}/include", f"-I{HARNESS}/common", f"-D{GUARD}"] + [f"-D{d}" for d in tu.get("defines", [])]
    if tu.get("nosan"):   # opt-in: a unit built without the sanitizers (plain release-style code generation)
        flags = [f for f in flags if "sanitize" not in f]
    if tu.get("syntax_only"):
        flags = flags + ["-fsyntax-only"]
    key = hashlib.sha256((inc_hash + "\0" + " ".join(flags) + "\0" + tu["src"]).encode()).hexdigest()[:32]
    bdir = os.path.join(CACHE, "bin")
    os.makedirs(bdir, exist_ok=True)
    binp = os.path.join(bdir, key)
    if os.path.exists(binp):
        os.utime(binp)
        return binp, ""
    if os.path.exists(binp + ".err"):
        return None, open(binp + ".err").read()
    import threading as _th
    srcp = os.path.join(bdir, key + f"_{os.getpid()}_{_th.get_ident()}.cpp")
    with open(srcp, "w") as fh:
        fh.write(tu["src"])
    import threading
    tmp = binp + f".tmp{os.getpid()}_{threading.get_ident()}"
    try:
        r = sh(flags + [srcp] + ([] if tu.get("syntax_only") else ["-o", tmp]), timeout=tu.get("compile_timeout", 900))
    except subprocess.TimeoutExpired:
        return None, f"error: compiling {tu['name']} against the working tree did not finish within {tu.get('compile_timeout', 900)} s"
    finally:
        if os.path.exists(srcp):
            os.unlink(srcp)
    if r.returncode != 0:
        with open(binp + ".err", "w") as fh:
            fh.write(r.stderr[-20000:])
        return None, r.stderr
    if tu.get("syntax_only"):
        open(binp, "w").close()
    else:
        os.replace(tmp, binp)
    return binp, ""


def run_tu(binp, tu, seed, scale):
    env = dict(os.environ)
    env["VERIF_SEED"] = str(seed)
    env["VH_SCALE"] = str(scale)
    env["ASAN_OPTIONS"] = "detect_leaks=0:handle_segv=0:handle_sigill=0:handle_sigfpe=0:handle_abort=0:handle_sigbus=0:allocator_may_return_null=1"
    env["UBSAN_OPTIONS"] = "handle_segv=0:handle_sigill=0:handle_sigfpe=0:handle_abort=0"
    env.update(tu.get("env", {}))
    try:
        r = subprocess.run([binp] + tu.get("args", []), env=env, stdout=subprocess.PIPE, stderr=subprocess.PIPE,
                           timeout=tu.get("run_timeout", 600))
    except subprocess.TimeoutExpired:
        # a harness that hangs against the working tree is an observation about the tree (reported as a broken tie),
        # not a failure of the machinery
        return 124, "", f"harness {tu['name']} did not finish within {tu.get('run_timeout', 600)} s"
    return r.returncode, r.stdout.decode("utf-8", "replace"), r.stderr.decode("utf-8", "replace")


def run_driver(text, extra_args=()):
    # another check's `lake build` may be relinking the shared driver binary at this moment: wait for it to reappear
    for attempt in range(120):
        try:
            r = subprocess.run([DRIVER] + list(extra_args), input=text.encode(), stdout=subprocess.PIPE, stderr=subprocess.PIPE,
                               timeout=3000)
            break
        except (FileNotFoundError, PermissionError, OSError) as e:
            if attempt == 119:
                raise MachineryError(f"driver binary unavailable: {e}")
            time.sleep(1)
    if r.returncode != 0:
        raise MachineryError("driver failed: " + r.stderr.decode()[-2000:])
    return r.stdout.decode("utf-8", "replace")


def parse_driver(out):
    res = {"mismatch": [], "specfail": [], "badline": [], "stat": {}, "total": {}, "samples": []}
    for line in out.split("\n"):
        if line.startswith("SAMPLE "):
            res["samples"].append(line[7:])
        elif line.startswith("MISMATCH "):
            res["mismatch"].append(line[9:])
        elif line.startswith("SPECFAIL "):
            cls, rest = line[9:].split(" ", 1)
            res["specfail"].append((cls, rest))
        elif line.startswith("BADLINE "):
            res["badline"].append(line[8:])
        elif line.startswith("STAT "):
            _, k, n = line.split(" ")
            res["stat"][k] = int(n)
        elif line.startswith("TOTAL "):
            for kv in line[6:].split():
                k, v = kv.split("=")
                res["total"][k] = int(v)
    return res


def merge_results(rs):
    out = {"mismatch": [], "specfail": [], "badline": [], "stat": {}, "total": {}, "samples": []}
    for r in rs:
        out["samples"] += r["samples"][:2]
        out["mismatch"] += r["mismatch"]
        out["specfail"] += r["specfail"]
        out["badline"] += r["badline"]
        for k, v in r["stat"].items():
            out["stat"][k] = out["stat"].get(k, 0) + v
        for k, v in r["total"].items():
            out["total"][k] = out["total"].get(k, 0) + v
    return out


# ----------------------------------------------------------------------------------------
# property registry

def load_prop(pid):
    p = os.path.join(HARNESS, "props", pid + ".py")
    if not os.path.exists(p):
        raise MachineryError(f"unknown property {pid}")
    spec = importlib.util.spec_from_file_location("prop_" + pid, p)
    mod = importlib.util.module_from_spec(spec)
    sys.path.insert(0, os.path.join(HARNESS, "props"))
    spec.loader.exec_module(mod)
    return mod


def known_findings():
    out = []
    p = os.path.join(ROOT, "known_findings.json")
    if os.path.exists(p):
        out += json.load(open(p))["findings"]
    fd = os.path.join(ROOT, "findings")
    if os.path.isdir(fd):
        for f in sorted(os.listdir(fd)):
            if f.endswith(".json"):
                j = json.load(open(os.path.join(fd, f)))
                out += j["findings"] if isinstance(j, dict) else j
    return out


def write_replay(pid, n, payload):
    d = os.path.join(ROOT, "replays", pid) if os.path.realpath(REPO) == "/repo" else os.path.join(CACHE, "alt-replays", pid)
    os.makedirs(d, exist_ok=True)
    p = os.path.join(d, f"{n}.json")
    with open(p, "w") as fh:
        json.dump(payload, fh, indent=1)
    return p


def exec_tus(tus, seed, scale, inc_hash, jobs=int(os.environ.get('VERIF_JOBS', '16'))):
    """compile + run + drive every TU; returns (merged driver result, per-tu info, broken list)."""
    results, info, broken = [], [], []
    t0 = time.time()
    with cf.ThreadPoolExecutor(max_workers=jobs) as ex:
        futs = {ex.submit(compile_tu, tu, inc_hash): tu for tu in tus}
        bins = {}
        for f in cf.as_completed(futs):
            tu = futs[f]
            binp, diag = f.result()
            bins[tu["name"]] = (binp, diag)
    log(f"[harness] compiled {len(tus)} TUs in {time.time()-t0:.1f}s")
    t0 = time.time()

    def one(tu):
        binp, diag = bins[tu["name"]]
        if binp is None:
            return tu, None, diag
        if tu.get("syntax_only"):
            return tu, "", ""
        rc, out, err = run_tu(binp, tu, seed, scale)
        if rc != 0:
            return tu, None, f"harness exited with status {rc}\n{err[-3000:]}\n{out[-500:]}"
        dout = run_driver(out)
        return tu, parse_driver(dout), ""

    with cf.ThreadPoolExecutor(max_workers=jobs) as ex:
        for tu, res, diag in ex.map(one, tus):
            if res is None:
                broken.append((tu, diag))
            elif res == "":
                info.append({"name": tu["name"], "syntax_only": True})
            else:
                res["tu"] = tu["name"]
                for m in res["mismatch"]:
                    pass
                results.append(res)
                info.append({"name": tu["name"], "compiler": tu.get("compiler", "g++"), "defines": tu.get("defines", []),
                             "lines": res["total"].get("lines", 0)})
    log(f"[harness] ran {len(tus)} TUs in {time.time()-t0:.1f}s")
    merged = merge_results(results)
    merged["per_tu"] = results
    return merged, info, broken


def tu_of_line(per_tu, kind, text):
    for r in per_tu:
        if kind == "mismatch" and text in r["mismatch"]:
            return r["tu"]
        if kind == "specfail" and any(text == t for _, t in r["specfail"]):
            return r["tu"]
    return None


def check(pid, tier, seed):
    t_start = time.time()
    mod = load_prop(pid)
    # runs against a scratch copy of the repository (mutation experiments) keep their own evidence
    ev_dir = os.path.join(ROOT, "evidence") if os.path.realpath(REPO) == "/repo" else os.path.join(CACHE, "alt-evidence")
    os.makedirs(ev_dir, exist_ok=True)
    evidence_path = os.path.join(ev_dir, pid + ".json")
    violations = []   # (summary, payload)
    known_lines = []

    # 1. Lean: build model, proofs, property file, driver
    targets = [f"CnlProperties.{pid}", "cnl_driver"]
    gen = getattr(mod, "generate", None)
    inc_hash = include_hash()
    gen_info = {}
    if gen:
        if os.path.realpath(REPO) != "/repo":
            # a run against a scratch copy of the repository must not rewrite the generated model files of the
            # shared Lean project (other checks build from them): it gets a private copy of the project
            global LEAN, DRIVER
            alt = os.path.join(CACHE, "alt-lean-" + pid)
            sh(["rsync", "-a", "--delete", os.path.join(ROOT, "lean") + "/", alt + "/"], timeout=1200)
            LEAN = alt
            DRIVER = os.path.join(LEAN, ".lake", "build", "bin", "cnl_driver")
        gen_info = gen(dict(repo=REPO, lean=LEAN, cache=CACHE, inc_hash=inc_hash, compile_tu=compile_tu, run_tu=run_tu)) or {}
    ok, out = lake_build(targets)
    proof_broken = None
    if not ok:
        drv_ok, _ = lake_build(["cnl_driver"])
        if not drv_ok:
            raise MachineryError("the model/driver does not build:\n" + out[-4000:])
        errs = re.findall(r"error: (\S+\.lean:\d+:\d+: .*)", out)
        proof_broken = errs[:10] or [out[-2000:]]
    forb = grep_forbidden([f"CnlProperties.{pid}", "Main"])
    if forb:
        raise MachineryError("forbidden constructs in Lean sources:\n" + "\n".join(forb))
    theorems = property_theorems(pid)
    axioms = {}
    bad_axioms = {}
    if not proof_broken:
        axioms = audit_axioms(pid, theorems)
        missing = [t for t in theorems if t not in axioms]
        if missing:
            raise MachineryError(f"axiom audit did not report on: {missing}")
        bad_axioms = {t: a for t, a in axioms.items() if set(a) - ALLOWED_AXIOMS}
        if bad_axioms:
            raise MachineryError(f"theorems depend on unexpected axioms: {bad_axioms}")
    checker_cmds = [f"cd {LEAN} && lake build CnlProperties.{pid}", "#print axioms on every theorem of the property file"]
    if tier == "thorough" and not proof_broken:
        r = sh(["lake", "env", "leanchecker", f"CnlProperties.{pid}"], cwd=LEAN, timeout=3000)
        if r.returncode != 0:
            raise MachineryError("leanchecker rejected the compiled property module:\n" + (r.stdout + r.stderr)[-3000:])
        checker_cmds.append(f"lake env leanchecker CnlProperties.{pid}")

    # 2. correspondence
    scale = 1 if tier == "quick" else getattr(mod, "THOROUGH_SCALE", 8)
    tus = mod.tus(tier, seed)
    merged, info, broken = exec_tus(tus, seed, scale, inc_hash)
    tot = merged["total"]

    findings = {f["id"]: f for f in known_findings() if f["property"] == pid}
    open_classes = {k for k, f in findings.items() if f["status"] == "open"}

    nrep = [0]
    # replays of earlier runs of this property are stale once a new run starts
    _rd = os.path.join(ROOT, "replays", pid) if os.path.realpath(REPO) == "/repo" else os.path.join(CACHE, "alt-replays", pid)
    if os.path.isdir(_rd):
        for _f in os.listdir(_rd):
            if _f.endswith('.json'):
                os.remove(os.path.join(_rd, _f))

    def report(summary, payload, found_input):
        nrep[0] += 1
        payload.update(dict(property=pid, tier=tier, seed=seed, summary=summary,
                            replay_cmd=f"python3 {ROOT}/check.py replay {ROOT}/replays/{pid}/{nrep[0]}.json"))
        path = write_replay(pid, nrep[0], payload)
        violations.append(f"VIOLATION property={pid} replay={path}" + ("" if found_input else " no-failing-input-found"))

    # 2a. harness that no longer builds/runs against the tree = broken tie
    for tu, diag in broken[:3]:
        first = next((l for l in diag.split("\n") if "error" in l), diag[:300])
        report(f"harness translation unit {tu['name']} does not build or run against the working tree",
               dict(kind="broken-tie", tu=tu["name"], diagnostic=first, broken="correspondence harness"), False)

    for text in merged["badline"][:2]:
        report("the driver cannot interpret a harness line (result or type outside the model): correspondence broken",
               dict(kind="correspondence", line=text, broken="correspondence " + text.split(" ")[0]), False)

    # 2b. spec failures on the implementation's own results
    seen_cls = {}
    unlisted = []
    for cls, text in merged["specfail"]:
        if cls in open_classes:
            seen_cls.setdefault(cls, text)
        else:
            unlisted.append((cls, text))
    for cls, text in sorted(seen_cls.items()):
        known_lines.append(f"KNOWN-FINDING: property={pid} {cls}: {findings[cls]['condition']} e.g. {text.split(' || ')[0]}")
    for cls, text in unlisted[:5]:
        line = text.split(" || ")[0]
        report(f"implementation result violates the property ({cls})",
               dict(kind="spec-violation", cls=cls, line=line, detail=text, tu=tu_of_line(merged["per_tu"], "specfail", text)), True)

    # 2c. model/implementation disagreements
    mism = merged["mismatch"]
    if mism and not unlisted:
        # a disagreement whose implementation result the oracle accepts is a broken tie without a failing input
        for text in mism[:3]:
            line = text.split(" || ")[0]
            report("model and implementation disagree (correspondence broken); the property's oracle accepts or does not constrain the implementation's result on this input",
                   dict(kind="correspondence", line=line, detail=text, broken="correspondence " + line.split(" ")[0],
                        tu=tu_of_line(merged["per_tu"], "mismatch", text)), False)
    # 2d. broken theorem: search for a failing input with a boosted sample
    if proof_broken:
        found = bool(unlisted)
        if not found and tier == "quick":
            m2, _, _ = exec_tus(mod.tus("thorough", seed + 1), seed + 1, 4, inc_hash)
            ul = [(c, t) for c, t in m2["specfail"] if c not in open_classes]
            for cls, text in ul[:3]:
                found = True
                report(f"theorem of {pid} no longer checks; boosted search found an input violating the property",
                       dict(kind="spec-violation", cls=cls, line=text.split(" || ")[0], detail=text, lean_errors=proof_broken), True)
        if not found:
            report(f"a proof obligation of {pid} no longer checks", dict(kind="broken-proof", broken=proof_broken, lean_errors=proof_broken), False)

    # 3. evidence
    obligations = len(theorems) + int(gen_info.get("equations", 0))
    samples = []
    for r in merged["per_tu"][:3]:
        pass
    samples = merged["samples"][:12] or [f"{k}={v}" for k, v in list(merged["stat"].items())[:8]]
    ev = {
        "property_id": pid, "tier": tier, "seed": seed, "level": "proof",
        "coverage": {
            "obligations": max(obligations, 1) if theorems else 0,
            "discharged": 0 if proof_broken else obligations,
            "checker_cmd": " ; ".join(checker_cmds),
            "trusted_base": ["Lean 4.33 kernel", "axioms: " + ", ".join(sorted({a for v in axioms.values() for a in v}) or ["none"]),
                             "hand-written model tied to /repo by the correspondence harness (g++/clang++, UBSan trap mode)",
                             "CnlModel.CInt reading of C++20 integer semantics"] + getattr(mod, "TRUSTED", []),
            "theorems": {t: axioms.get(t, []) for t in theorems},
            "evaluations": tot.get("lines", 0),
            "distinct_nontrivial": tot.get("nontrivial", 0),
            "rule": getattr(mod, "RULE", "boundary lattice x structured random operands per compiled instantiation; a case is non-trivial when its guard holds and it is not a duplicate line (harness de-duplicates operand values per type)"),
            "traces_validated_against_impl": tot.get("agree", 0),
            "disagreements_checked": tot.get("mismatch", 0),
            "programs": len([i for i in info if not i.get("syntax_only")]),
            "branch_histogram": merged["stat"],
            "spec_oracle": {"ok": tot.get("spec_ok", 0), "violated": tot.get("spec_fail", 0), "not_constrained": tot.get("spec_na", 0)},
            "known_finding_classes_seen": sorted(seen_cls),
            "translation_units": info,
            "samples": samples,
            "exhaustive": bool(getattr(mod, "EXHAUSTIVE", False)),
            "generated": gen_info,
        },
        "assumptions": getattr(mod, "ASSUMPTIONS", []),
        "wall_s": round(time.time() - t_start, 1),
        "violations": len(violations),
    }
    with open(evidence_path, "w") as fh:
        json.dump(ev, fh, indent=1)
    prune_cache()
    for l in known_lines:
        print(l)
    for v in violations:
        print(v)
    print(f"{pid}: theorems={len(theorems)} lines={tot.get('lines',0)} agree={tot.get('agree',0)} mismatch={tot.get('mismatch',0)} "
          f"spec_fail={tot.get('spec_fail',0)} known_classes={len(seen_cls)} wall={time.time()-t_start:.0f}s")
    return 1 if violations else 0


def replay(path):
    rp = json.load(open(path))
    pid = rp["property"]
    print(json.dumps({k: rp[k] for k in rp if k not in ("replay_cmd",)}, indent=1))
    if "line" not in rp or not rp.get("tu"):
        print("no single input recorded (broken proof obligation or tie): re-run the check")
        return 0
    mod = load_prop(pid)
    inc_hash = include_hash()
    ok, out = lake_build(["cnl_driver"])
    if not ok:
        raise MachineryError(out[-3000:])
    lhs = rp["line"].split(" => ")[0]
    for tier in (rp["tier"], "thorough"):
        for tu in mod.tus(tier, rp["seed"]):
            if tu["name"] != rp["tu"]:
                continue
            binp, diag = compile_tu(tu, inc_hash)
            if binp is None:
                print("harness does not build:", diag[:2000])
                return 1
            _, out, _ = run_tu(binp, tu, rp["seed"], 1 if tier == "quick" else getattr(mod, "THOROUGH_SCALE", 8))
            lines = [l for l in out.split("\n") if l.startswith(lhs + " => ")]
            if lines:
                print("implementation now:", lines[0])
                print(run_driver(lines[0] + "\n", ["--echo"]))
                return 0
    print("input not regenerated by the harness at this seed")
    return 1


def main():
    ap = argparse.ArgumentParser()
    ap.add_argument("what")
    ap.add_argument("arg", nargs="?")
    ap.add_argument("--tier", default=os.environ.get("VERIF_TIER", "quick"))
    a = ap.parse_args()
    seed = int(os.environ.get("VERIF_SEED", "0") or 0)
    try:
        if a.what == "build":
            ok, out = lake_build([])
            if not ok:
                print(out[-5000:])
                return 2
            return 0
        if a.what == "replay":
            return replay(a.arg)
        tier = a.tier if a.tier in ("quick", "thorough") else "quick"
        return check(a.what, tier, seed)
    except MachineryError as e:
        print("MACHINERY-ERROR:", e)
        return 2


if __name__ == "__main__":
    sys.exit(main())
