#!/usr/bin/env python3
"""Which lines of /repo/include/cnl do the correspondence harnesses execute?

  tools/coverage.py [--tier quick] [--seed 0] [--jobs 12] [C01 C02 ...]

For every translation unit of the given checks (all twenty by default) the harness source is compiled
with `g++ --coverage -O0` (no sanitizers) in a scratch directory outside /verif, run, and `gcov --json-format`
is aggregated per header line: a line is *instantiated* when at least one translation unit has object code
for it and *executed* when its count is non-zero somewhere.  The report (`.cache/coverage/report.json` and a
text summary on stdout) lists, per header, the instantiated-but-never-executed lines and the lines that look
like code (a `return`) but were never instantiated by any harness: those are gaps of the instantiation grids
and value lattices - places where a change of the library could not be observed by any correspondence line.

This is a gap finder for the tie (section 4 of DESIGN.md), not a check: it decides nothing.
"""
import argparse, concurrent.futures as cf, gzip, importlib.util, json, os, re, shutil, subprocess, sys, tempfile

ROOT = os.path.dirname(os.path.dirname(os.path.abspath(__file__)))
REPO = os.environ.get("VERIF_REPO", "/repo")
HARNESS = os.path.join(ROOT, "harness")
INC = os.path.realpath(os.path.join(REPO, "include"))


def load_prop(pid):
    p = os.path.join(HARNESS, "props", pid + ".py")
    spec = importlib.util.spec_from_file_location("prop_" + pid, p)
    mod = importlib.util.module_from_spec(spec)
    sys.path.insert(0, os.path.join(HARNESS, "props"))
    spec.loader.exec_module(mod)
    return mod


def one(args):
    pid, tu, seed, work = args
    if tu.get("syntax_only"):
        return pid, tu["name"], {}, "syntax-only"
    d = tempfile.mkdtemp(prefix=f"{pid}_", dir=work)
    try:
        src = os.path.join(d, "t.cpp")
        open(src, "w").write(tu["src"])
        cmd = ["g++", "-std=gnu++20", "-O0", "-g0", "--coverage", "-fno-inline", f"-I{REPO}/include", f"-I{HARNESS}/common",
               "-DJOHNMCFARLANE_CNL_VERIF"] + [f"-D{x}" for x in tu.get("defines", [])] + ["t.cpp", "-o", "t"]
        r = subprocess.run(cmd, cwd=d, stdout=subprocess.PIPE, stderr=subprocess.PIPE, text=True, timeout=1800)
        if r.returncode:
            return pid, tu["name"], {}, "compile failed: " + r.stderr[-300:]
        env = dict(os.environ, VERIF_SEED=str(seed), VH_SCALE="1")
        env.update(tu.get("env", {}))
        try:
            subprocess.run(["./t"] + tu.get("args", []), cwd=d, env=env, stdout=subprocess.DEVNULL, stderr=subprocess.DEVNULL, timeout=1800)
        except subprocess.TimeoutExpired:
            return pid, tu["name"], {}, "run timed out"
        subprocess.run(["gcov", "--json-format", "t.gcda"], cwd=d, stdout=subprocess.DEVNULL, stderr=subprocess.DEVNULL, timeout=1800)
        res = {}
        for f in os.listdir(d):
            if f.endswith(".gcov.json.gz"):
                j = json.load(gzip.open(os.path.join(d, f)))
                for fe in j["files"]:
                    p = os.path.realpath(os.path.join(d, fe["file"]))
                    if not p.startswith(INC):
                        continue
                    rel = os.path.relpath(p, INC)
                    m = res.setdefault(rel, {})
                    for ln in fe["lines"]:
                        n = ln["line_number"]
                        m[n] = m.get(n, 0) + ln["count"]
        return pid, tu["name"], res, ""
    finally:
        shutil.rmtree(d, ignore_errors=True)


def main():
    ap = argparse.ArgumentParser()
    ap.add_argument("ids", nargs="*")
    ap.add_argument("--tier", default="quick")
    ap.add_argument("--seed", type=int, default=0)
    ap.add_argument("--jobs", type=int, default=12)
    a = ap.parse_args()
    ids = a.ids or ["C%02d" % i for i in range(1, 21)]
    work = tempfile.mkdtemp(prefix="cnlcov_", dir=os.environ.get("TMPDIR", "/tmp"))
    jobs = []
    for pid in ids:
        mod = load_prop(pid)
        for tu in mod.tus(a.tier, a.seed):
            jobs.append((pid, tu, a.seed, work))
    print(f"{len(jobs)} translation units", file=sys.stderr)
    agg, by_prop, notes = {}, {}, []
    done = 0
    with cf.ThreadPoolExecutor(max_workers=a.jobs) as ex:
        for pid, name, res, note in ex.map(one, jobs):
            done += 1
            if note:
                notes.append(f"{pid} {name}: {note}")
            for f, m in res.items():
                g = agg.setdefault(f, {})
                for n, c in m.items():
                    g[n] = g.get(n, 0) + c
                    if c:
                        by_prop.setdefault(f, {}).setdefault(n, set()).add(pid)
            if done % 20 == 0:
                print(f"  {done}/{len(jobs)}", file=sys.stderr)
    shutil.rmtree(work, ignore_errors=True)
    report = {"tier": a.tier, "seed": a.seed, "checks": ids, "notes": notes, "files": {}}
    tot_inst = tot_exec = 0
    for d, _, fs in os.walk(INC):
        for fn in sorted(fs):
            p = os.path.join(d, fn)
            rel = os.path.relpath(p, INC)
            lines = open(p, errors="replace").read().split("\n")
            g = agg.get(rel, {})
            never_exec = sorted(n for n, c in g.items() if c == 0)
            code_like = [i + 1 for i, l in enumerate(lines) if re.search(r"\breturn\b", l) and not l.strip().startswith("//")]
            never_inst = [n for n in code_like if n not in g]
            tot_inst += len(g)
            tot_exec += len(g) - len(never_exec)
            report["files"][rel] = {"instantiated": len(g), "executed": len(g) - len(never_exec),
                                    "never_executed": never_exec, "return_lines_never_instantiated": never_inst}
    os.makedirs(os.path.join(ROOT, ".cache", "coverage"), exist_ok=True)
    out = os.path.join(ROOT, ".cache", "coverage", "report.json")
    json.dump(report, open(out, "w"), indent=1)
    print(f"instantiated lines {tot_inst}, executed {tot_exec}; report {out}")
    for rel, r in sorted(report["files"].items()):
        if r["never_executed"] or r["return_lines_never_instantiated"]:
            print(f"{rel}: inst={r['instantiated']} exec={r['executed']} never_exec={r['never_executed'][:40]} never_inst_returns={r['return_lines_never_instantiated'][:40]}")
    for n in notes[:30]:
        print("NOTE", n)


if __name__ == "__main__":
    main()
