#!/bin/sh
# usage: seeded_one.sh <seeded-id> <property> [more properties]: runs the given checks against the seeded change in scratch /tmp/seedone
sid=$1; shift
S=/tmp/seedone-$sid
git -C /repo worktree remove --force $S 2>/dev/null; rm -rf $S
git -C /repo worktree add -q --detach $S HEAD
git -C $S apply /verif/seeded/$sid/patch.diff || { echo "patch does not apply"; exit 2; }
for p in "$@"; do VERIF_REPO=$S python3 /verif/check.py $p 2>&1 | grep -v "^KNOWN-FINDING" | tail -4; done
git -C /repo worktree remove --force $S
