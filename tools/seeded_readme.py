#!/usr/bin/env python3
"""Writes seeded/README.md: which check catches which seeded change (from seeded/*/meta.json and result.json)."""
import json, os
ROOT = os.path.dirname(os.path.dirname(os.path.abspath(__file__)))
rows = []
for sid in sorted(os.listdir(os.path.join(ROOT, "seeded"))):
    d = os.path.join(ROOT, "seeded", sid)
    if not os.path.isdir(d) or not os.path.exists(d + "/meta.json"):
        continue
    meta = json.load(open(d + "/meta.json"))
    res = json.load(open(d + "/result.json")) if os.path.exists(d + "/result.json") else {}
    patch = open(d + "/patch.diff").read()
    files = sorted({l.split(" b/")[1] for l in patch.split("\n") if l.startswith("diff --git")})
    caught = [p for p, r in res.items() if r["exit"] == 1]
    missed = [p for p, r in res.items() if r["exit"] == 0]
    how = []
    for p, r in res.items():
        if r["exit"] == 1:
            how.append(p + (" (no-failing-input-found)" if r["violations"] and "no-failing-input-found" in r["violations"][0] else " (failing input)"))
    suite = meta.get("confirmed", {}).get("unit_suite")
    suite_s = suite["summary"] if isinstance(suite, dict) else str(suite)
    rows.append((sid, meta["breaks"], ", ".join(f.replace("include/cnl/", "") for f in files), ", ".join(how) or "-", ", ".join(missed) or "-", suite_s,
                 meta.get("strengthened", "")))
with open(os.path.join(ROOT, "seeded", "README.md"), "w") as f:
    f.write("# Seeded breaking changes\n\nEach directory holds `patch.diff` (against /repo HEAD at the time), `demo.cpp` (passes without the change, fails with it), "
            "`NOTES.md` by the independent worker that wrote it (it saw only the property text and a scratch worktree), `meta.json` (what it breaks, what it needs to manifest, "
            "what was confirmed) and `result.json` (outcome of `tools/seeded.py`: the registered quick check run against a scratch worktree with the patch applied).\n\n"
            "| id | breaks | files touched | caught by | missed by | unit suite with the change | note |\n|---|---|---|---|---|---|---|\n")
    for r in rows:
        f.write("| " + " | ".join(r) + " |\n")
    n = len(rows); c = sum(1 for r in rows if r[3] != "-")
    f.write(f"\n{c} of {n} seeded changes are caught by the quick check of the property they break (after the strengthening recorded in the note column).\n")
print(open(os.path.join(ROOT, "seeded", "README.md")).read()[-600:])
