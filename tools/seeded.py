#!/usr/bin/env python3
"""Runs the registered checks against every seeded change under /verif/seeded/<id>/.

For each seeded/<id>/patch.diff: a scratch worktree of /repo (outside /repo and /verif) gets the
patch, `check.py <property>` runs against it via VERIF_REPO, and the outcome (exit status,
VIOLATION lines) is written to seeded/<id>/result.json.  /repo itself is never modified.
usage: seeded.py [<id> ...]   (default: all)    env SEEDED_ALL=1: run every claimed check, not only the broken property
"""
import json, os, subprocess, sys, shutil, time
ROOT = os.path.dirname(os.path.dirname(os.path.abspath(__file__)))
SCR = "/tmp/seedrun"

def sh(cmd, **kw):
    return subprocess.run(cmd, stdout=subprocess.PIPE, stderr=subprocess.STDOUT, text=True, errors="replace", **kw)

def main():
    ids = sys.argv[1:] or sorted(d for d in os.listdir(os.path.join(ROOT, "seeded")) if os.path.isdir(os.path.join(ROOT, "seeded", d)))
    if os.path.exists(SCR):
        sh(["git", "-C", "/repo", "worktree", "remove", "--force", SCR])
        shutil.rmtree(SCR, ignore_errors=True)
    r = sh(["git", "-C", "/repo", "worktree", "add", "--detach", SCR, "HEAD"])
    if r.returncode:
        print(r.stdout); return 2
    try:
        for sid in ids:
            d = os.path.join(ROOT, "seeded", sid)
            meta = json.load(open(os.path.join(d, "meta.json")))
            sh(["git", "-C", SCR, "checkout", "--", "."])
            a = sh(["git", "-C", SCR, "apply", os.path.join(d, "patch.diff")])
            if a.returncode:
                print(sid, "patch does not apply:", a.stdout[:300]); continue
            props = meta["breaks"] if isinstance(meta["breaks"], list) else [meta["breaks"]]
            if os.environ.get("SEEDED_ALL"):
                props = [c["property_id"] for c in json.load(open(os.path.join(ROOT, "MANIFEST.json")))["checks"]]
            res = {}
            for p in props:
                t = time.time()
                env = dict(os.environ, VERIF_REPO=SCR)
                c = sh([sys.executable, os.path.join(ROOT, "check.py"), p], env=env, cwd=ROOT)
                viol = [l for l in c.stdout.split("\n") if l.startswith("VIOLATION")]
                res[p] = dict(exit=c.returncode, violations=viol[:3], summary=c.stdout.strip().split("\n")[-1][:300], wall_s=round(time.time() - t))
                print(sid, p, "exit", c.returncode, viol[:1])
            json.dump(res, open(os.path.join(d, "result.json"), "w"), indent=1)
    finally:
        sh(["git", "-C", "/repo", "worktree", "remove", "--force", SCR])
    return 0

if __name__ == "__main__":
    sys.exit(main())
