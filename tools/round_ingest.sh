#!/bin/sh
# usage: r4_ingest.sh Cxx : copies /tmp/mut/r4-Cxx-work/change<i> to /tmp/mut/Cxx/out/<n> (n continues the numbering of seeded/), confirms and ingests them
R=${2:-r4}; P=$1
max=$(ls /verif/seeded | grep "^$P-" | sed "s/$P-//" | sort -n | tail -1); max=${max:-0}
rm -rf /tmp/mut/$P/out; mkdir -p /tmp/mut/$P/out
ns=""
for i in 1 2 3 4; do
  d=/tmp/mut/$R-$P-work/change$i
  [ -f $d/patch.diff ] || continue
  n=$((max+i)); cp -r $d /tmp/mut/$P/out/$n; ns="$ns $n"
done
python3 /verif/tools/ingest_seeded.py $P $ns
