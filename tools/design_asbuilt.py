#!/usr/bin/env python3
"""Regenerates section 12 ("As built") of DESIGN.md from the repository state: theorem counts per property,
open findings (known_findings.json + findings/*.json), fix commits in /repo, seeded changes and their notes.
The hand-written parts are the PROVED table and the prose blocks below."""
import json, glob, subprocess, re, os
ROOT = os.path.dirname(os.path.dirname(os.path.abspath(__file__)))
PROVED = {
'C01': 'full: all widths, exponents, radixes; guard characterised (ok iff fits); Rat-valued "denotes" corollaries; wrapper reps by correspondence; over overflow_integer / overflow_integer<elastic_integer> representations and with built-in operands next to elastic representations (`ov_*_exact`, `safe_bin_is_elastic`, `builtin_operand_*`)',
'C02': 'full: `/ %` values and exponents, identity for all type pairs, remainder; `quotient()` exact, wide enough, error < 1 unit; over elastic_integer and overflow_integer representations (`elastic_div_mod_values`, `checked_div_mod_values`, `checked_minus_max_by_minus_one`)',
'C03': 'full for scaled (by value / built-in rule for mixed signedness, trichotomy); elastic via C05; wide same-type via C10; wide comparisons of different types by value for all limb counts and signednesses (after two repairs); integer-vs-wrapper by correspondence',
'C04': 'integer conversions full (exact or truncated toward zero); radix-2 floating point: correctly rounded (nearest, ties to even, stated on exact dyadics), exact when it fits, round trip identity, float→scaled exact or truncated; `wrap`/`unwrap` and `from_rep`/`to_rep` exact inverses for every nest and argument type (`WrapInverse.*`)',
'C05': 'full for `+ − * / %`, unary −, `<< k`, comparisons; `>> k` refuted + proved under the complementary hypothesis; elastic_scaled_integer: `scale<±k>`, `+ − * / %`, negation, comparisons exact and in range; multi-word `/ %` identity (`wide_divmod_identity`, `wide_divmod_roundtrip`)',
'C06': 'builtin path: `+ − *` for ANY signedness/width mix; portable path: value-preserving pairs; `/`, `<<` (every count), `−x`, integer convert, float→integer convert (flag iff real value outside the range); refutations of the two open classes; conversions between overflow_integer types, negative to unsigned, radix conversions into checked representations (`wrapper_convert_*`, `radix_scale_correct`)',
'C07': 'totality for all operand pairs incl. mixed signedness, both paths, `<<`/`>>` for every non-negative count, float sources; wrapper and radix conversions (`wrapper_convert_total`, `radix_scale_total`)',
'C08': 'full: all widths, mixed types, four modes; spec characterised and unique',
'C09': 'scaled paths under the complements of the classes; float→int: native, neg_inf, nearest (every input) and ties-up (exact bias); float→scaled: power exactness, native, complements of three classes; the rounding_integer-rep route correctly rounded whenever the instantiation compiles; conversion operators to fundamental integers (`wrapped_to_integer_*`), elastic plain conversion for every shift (`elastic_plain_truncates`)',
'C10': 'full incl. Knuth completeness and Karatsuba (transcribed with scratch memory, proved exact after the repair); float conversions: from-float exact for every finite input, to-float exact when representable and faithful (two-neighbour bracket) below the overflow neighbourhood; built-in operands on either side of a multi-word operand (`builtin_operand_spec`), two defects refuted in the kernel',
'C11': 'full: per node and by induction over expression trees (`never_silently_wrong`, now with shift nodes: `<<` exact or signalled, `>>` the floor, run-time / static_integer / constant counts) outside the refuted classes; per-node theorems for every narrowest type, multi-word storage (rests on C10) and static ⊗ built-in operands; construction from floating point flags iff the real value is out of range',
'C12': 'full for nests of any depth and order incl. exponent-changing operations (`scale_transparent`), ++/−−, documentation kernels',
'C13': 'integers full incl. per-base capacity; every value incl. the most negative; scaled contract for signed and unsigned significands and every radix; scaled capacity for non-negative exponents (partial)',
'C14': 'integers full; fractional clauses (never above, < 1 unit of the last digit + proven precision allowance, exact when it fits) for every significand type',
'C15': 'Horner for any length, chunk bounds, width estimate, scanner/grammar link proved symbolically for every well-formed token (one harmless exclusion), run-time parse for ≥ 64-bit results, deduction incl. static_* for every constant, Precise descale value invariant; `from_value` for every archetype and constant, radix-free (`from_value_constant_exact`, `_radix_free`, `from_value_value_exact`), fraction guides (`fraction_guide_holds_significand`), alias CTAD within `int` (`ctad_alias_int_exact`)',
'C16': 'full under explicit fit guards; hash equality for every hash function',
'C17': 'full statement REFUTED; invariants, exits, fuel independence proved (partial); generic component model: saturating / checked components stay in range (`C17_comp_*`), generic = built-in on the sweep and the witnesses (`C17_generic_*`)',
'C18': 'full: all widths, three configurations',
'C19': 'full incl. termination and no overflow of root+bit',
'C20': '8-bit tables, oracle soundness, integral exactness for every 8/16/32-bit format, below-range inputs; constants proved against the true reals for 1342 of 1386 entries (partial: 16/32-bit exp2 by sweep, 44 γ entries numerical)',
}
TRUSTED = '''
### 12.6 Trusted base as built (amends section 5)

* Kernel and axioms as in section 5; every check re-audits `#print axioms` for each property theorem and
  greps the import closure for forbidden constructs; the thorough tier runs `leanchecker`.
* Mathlib is used by exactly one proof file, `CnlProofs/NumbersReal.lean` (four single modules: bounds of
  pi and exp, the log series, harmonic-number enclosures of the Euler-Mascheroni constant); everything
  else, including the floating-point theory (`FloatFaithful`, `ScaledFloat`, `WideFloat*`, `RoundCvt`),
  is core Lean.
* Now modelled and proved rather than excluded: Karatsuba multiplication of `uintwide_t` (transcribed with
  its scratch memory), wide_integer <-> floating point, mixed-width wide comparisons, the scanner of
  `parse.h`, `to_chars_capacity` per base, `descale` for unsigned significands.
* Still modelled by correspondence only (no theorem): 16/32-bit `exp2` accuracy (dense/exhaustive sweeps
  against a proved-sound oracle), the scaled `to_chars` capacity for negative exponents, float ->
  unsigned __int128 overflow tests, the to-float two-neighbour bracket of wide_integer within a factor 2
  of the overflow threshold, `make_fraction` outside its refuted classes.
* Added in rounds 4 and 5 and tied by correspondence only (model + independent oracle, no theorem): the
  division identity and `quotient()` over wrapped representations (C02), aligned `+ -` of different
  exponents under a reacting overflow tag and built-in operands at non-zero exponents (C01), the general
  shapes of radix conversion into checked representations and release-build behaviour (C06/C07), the
  non-plain rounding routes of elastic_scaled_integer, static_number and nests to integers (C09), the
  result-type rule of built-in (x) multi-word wide operators and multi-word `to_chars` / capacity (C10),
  the value search behind `fraction{floating}` and alias-template initializers wider than `int` (C15),
  "generic make_fraction = built-in make_fraction for every input" (C17; lines the generic model cannot
  predict are judged by the property's oracle alone and labelled `unpredicted`).
* Not modelled: `std::gcd`, `std::hash<int>` (arbitrary function), `<cmath>` calls, iostream state beyond
  `operator<<` delegating to `to_chars_static`, allocator-backed `uintwide_t`, MSVC branches,
  Boost.Multiprecision glue, the dead `_impl/duplex_integer` headers.
'''
FALSE_ALARMS = open(os.path.join(ROOT, 'tools', 'false_alarms.md')).read()

def findings():
    F = json.load(open(os.path.join(ROOT, 'known_findings.json')))['findings']
    for f in sorted(glob.glob(os.path.join(ROOT, 'findings', 'C*.json'))):
        j = json.load(open(f)); F += j['findings'] if isinstance(j, dict) else j
    seen, out = set(), []
    for f in F:
        if f['id'] not in seen:
            seen.add(f['id']); out.append(f)
    return out

def count(pid):
    f = os.path.join(ROOT, 'lean', 'CnlProperties', pid + '.lean')
    return len(re.findall(r'^\s*theorem\s', open(f).read(), re.M))

def main():
    p = os.path.join(ROOT, 'DESIGN.md'); s = open(p).read()
    head = s[:s.index("## 12. As built")]
    openf = {}
    for f in findings():
        if f['status'] == 'open':
            openf.setdefault(f['property'], []).append(f['id'].split('.', 1)[1])
    fixes = subprocess.check_output(['git', '-C', '/repo', 'log', '--reverse', '--format=%h %s', '--grep', '^fix:'], text=True).strip().split('\n')
    rows = [f"| C{n:02d} | {count(f'C{n:02d}')} | {PROVED[f'C{n:02d}']} | {', '.join(openf.get(f'C{n:02d}', [])) or '—'} |" for n in range(1, 21)]
    seeded = sorted(glob.glob(os.path.join(ROOT, 'seeded', 'C*-*')))
    metas = {os.path.basename(d): json.load(open(d + '/meta.json')) for d in seeded}
    results = {os.path.basename(d): (json.load(open(d + '/result.json')) if os.path.exists(d + '/result.json') else {}) for d in seeded}
    strengthened = [k for k, m in metas.items() if 'strengthened' in m]
    def own_exit(k):
        r = results.get(k) or {}
        b = metas[k]['breaks']; b = b[0] if isinstance(b, list) else b
        return (r.get(b) or {}).get('exit')
    caught = [k for k in metas if own_exit(k) == 1]
    missed = [k for k in metas if own_exit(k) != 1]
    def only_nofail(k):
        b = metas[k]['breaks']; b = b[0] if isinstance(b, list) else b
        v = (results[k].get(b) or {}).get('violations') or []
        return bool(v) and all('no-failing-input-found' in x for x in v)
    nofail = [k for k in caught if only_nofail(k)]
    new = f'''## 12. As built (what the construction rounds changed, found and decided)

Sections 1–11 were written before any framework code; this section records where the
machinery that now exists differs, what it found, and what was done about each alarm.
All twenty properties are claimed (MANIFEST.json is generated by `tools/mkmanifest.py`;
this section by `tools/design_asbuilt.py`).

### 12.1 Machinery

* **One Lean project** `lean/` (`lake build` of everything ≈ 4 min cold): `CnlModel`
  (executable models, Lean core only), `CnlSpec` (exact mathematics = oracles), `CnlProofs`
  (lemmas; core Lean, except `CnlProofs/NumbersReal.lean`, which imports four single Mathlib
  modules for the real-number bounds of π, e, ln 2, γ used by C20), `CnlProperties/Cxx.lean`
  (theorems only), `CnlDriver` + `Main.lean` (line-protocol driver, compiled `lean_exe`;
  imports no Mathlib).
* **Driver protocol.** The harness prints `Cxx <tokens> => <implementation result>`; the
  driver evaluates the model *and* the property's oracle on the implementation's result
  and prints only `MISMATCH`, `SPECFAIL <class>`, `SAMPLE`, `STAT`, `TOTAL` lines (one
  process per translation unit, 16-way parallel).  `check.py` turns them into the exit
  status, `KNOWN-FINDING` / `VIOLATION` lines, replay files and the evidence file.
* **Layered model.** `CnlModel/Rep.lean` defines `RepOps`, the operator set a layer needs
  from its representation; `Scaled`, `Overflow`, `Rounding`, `Elastic` are written against
  it and `Layered.ops n` ties the knot for nests of depth `n`.  `Static.lean` composes
  elastic + rounding + overflow for static_number, `ElasticScaled.lean` scaled over elastic,
  `RoundWrap.lean` scaled over rounding_integer; `StaticExpr.lean` is the expression language
  of C11's induction.  `CFloat.lean` is the floating-point core (validated bit for bit against
  the hardware on ≈ 1.9 M lines per run by the `C17 cf` table); `ScaledFloat`, `WideFloat`,
  `OverflowFloat`, `RoundCvt`, `MakeFraction` are written on it.
* **Regenerated constants** where the code is data: exp2 coefficients and the `numbers`
  constants (`harness/props/C20.py: generate`), with kernel-checked equations against a
  derivation from the header's literals.
* **As-found definitions.** Every repaired defect keeps its as-found definition in the model
  under an `…Orig` name with a kernel-checked refutation from the witness, next to the theorem
  about the repaired code.
* **Harness safety net.** `vh::strict`: a signal or abort outside a `VH_RUN` is a harness
  fault (exit 70 → reported as a broken tie), never a silent wrong observation.
* **Evidence.** Every check writes `evidence/<id>.json` from the run itself: theorem list
  with the axioms each depends on (`#print axioms`, allowed ⊆ {{propext, Classical.choice,
  Quot.sound}}), lines evaluated, distinct non-trivial cases (hash set in the driver),
  agreement counts, branch histogram, translation units, samples of actual lines.
* **Header coverage of the tie.** `tools/coverage.py` rebuilds every harness translation unit with
  `g++ --coverage`, runs it and aggregates `gcov` per header line of `/repo/include/cnl`: lines that no
  correspondence line ever executes (and `return` lines no harness ever instantiates) are gaps of the
  instantiation grids where a change of the library could not be observed.  Its first run (2148
  instantiated lines, 2023 executed) showed that `num_traits/wrap.h`, `wrapper/ostream.h`,
  `elastic_integer/operators.h` and the `set_rounding` conversion inside integer `to_chars` were never
  reached; the C04 `C04w` table and the wrapper sweep of C13/C14 came from it, and caught three of the
  round-4 seeded changes (C04-9, C13-10, C13-11) before they were run.
* **Harness faults that are observations.** A harness that hangs or does not compile against the
  working tree is reported as a broken tie (`VIOLATION … no-failing-input-found`), not as an error of
  the machinery.
* **Scratch repositories.** `VERIF_REPO=<dir> python3 check.py Cxx` runs a check against
  another copy of the repository (evidence and replays then go to `.cache/alt-*`);
  `tools/seeded.py` / `tools/seeded_one.sh` use it to run the checks against every seeded
  change without touching /repo, `tools/verify_suite.py` confirms that the unit suite passes
  with each change.

### 12.2 Status per property

| id | theorems | what is proved | open known findings (class ids) |
|---|---|---|---|
''' + "\n".join(rows) + f'''

### 12.3 Genuine defects repaired in /repo ({len(fixes)} `fix:` commits, one per defect; unit suite green: 113 of 113 buildable test executables pass)

''' + "\n".join("* `" + f.split(' ', 1)[0] + "` " + f.split(' ', 1)[1] for f in fixes) + '''

Each is recorded as `fixed:` in `known_findings.json` / `findings/*.json` with the commit
and the witness; a fixed entry suppresses nothing.  Notable: the candidate repair of the
nearest division from the design round itself had a bug (`-(rhs + remainder)` overflows for
`0 / INT_MIN`), which the new check caught before it was committed; the Karatsuba defect was
found by a mutation worker and confirmed, transcribed, refuted in the kernel and repaired
(the repaired routine is proved exact for every limb count); the signed-token-ending-in-the-
radix-point defect of the scanner and the radix-above-ten hang of `descale` were found by
proof attempts (an exclusion the proof forced), the 128-bit-rep cast overflow of C04 by the
hypothesis `CastFinite` of `to_float_correctly_rounded`.

### 12.4 Alarms that were the machinery's fault (false alarms) and what was done

''' + FALSE_ALARMS + f'''

### 12.5 Which check catches which seeded change

{len(seeded)} seeded changes were written in five rounds by independent workers that saw only the
property text and a scratch worktree (from round 2 on they were told which files earlier rounds had
used and asked for shared helpers, narrow instantiations, single boundary values, cooperating sites,
rarely used overloads and operand kinds; rounds 4 and 5, written against the machinery of round 3,
were the hardest: 31 of the 61 round-4 changes and 14 of the 33 round-5 changes were missed at first); each was confirmed here
(patch applies, the demonstration passes without it and fails with it; the unit suite was re-run
here with the change for as many as the time allowed - see `unit_suite` in each `meta.json` - and by
the writer of the change for all of them) and is kept under `seeded/<id>/`; `seeded/README.md` is the full table
(change, the check that catches it, how).  {len(seeded) - len(strengthened)} were caught by the
quick check of the property they break at the first attempt.  The {len(strengthened)} misses were
gaps of the *instantiation grid or of the operand kinds a harness exercised*, not of the
models' arithmetic, and each led to a permanent extension:

''' + "\n".join(f"* `{k}`: " + metas[k]['strengthened'] for k in sorted(strengthened)) + f'''

At the last sweep {len(caught)} of {len(seeded)} are caught by the quick check of their own property
({len(caught) - len(nofail)} with a concrete failing input; {len(nofail)} as a broken correspondence
reported `no-failing-input-found`: {', '.join(sorted(nofail)) or 'none'}); not caught by their own
property's check: {', '.join(sorted(missed)) or 'none'}.
'''
    new += TRUSTED
    open(p, 'w').write(head + new)

if __name__ == '__main__':
    main()
