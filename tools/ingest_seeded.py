#!/usr/bin/env python3
"""Copies a mutation worker's deliverable /tmp/mut/<P>/out/<n>/ into /verif/seeded/<P>-<n>/ after confirming,
in a scratch worktree, that the patch applies to /repo HEAD and that the demonstration passes without the
change and fails with it.  usage: ingest_seeded.py <P> [n ...]"""
import json, os, subprocess, sys, shutil
ROOT = os.path.dirname(os.path.dirname(os.path.abspath(__file__)))
SCR = "/tmp/seedchk"

def sh(cmd, **kw):
    return subprocess.run(cmd, stdout=subprocess.PIPE, stderr=subprocess.STDOUT, text=True, errors="replace", **kw)

def build_demo(demo, inc, out, compiler):
    flags = ["-std=gnu++20", "-I" + inc, demo, "-o", out]
    txt = open(demo).read()
    if "fsanitize=address" in txt or "ASAN" in txt:
        flags.insert(0, "-fsanitize=address")
    if "fsanitize=undefined" in txt or "UBSAN" in txt:
        flags.insert(0, "-fsanitize=undefined"); flags.insert(0, "-fno-sanitize-recover=all")
    return sh([compiler] + flags, timeout=600)

def run(exe):
    try:
        r = sh([exe], timeout=60)
        return r.returncode, r.stdout[-300:]
    except subprocess.TimeoutExpired:
        return 124, "TIMEOUT"

def main():
    P = sys.argv[1]
    ns = sys.argv[2:] or [d for d in sorted(os.listdir(f"/tmp/mut/{P}/out")) if d.isdigit()]
    if os.path.exists(SCR):
        sh(["git", "-C", "/repo", "worktree", "remove", "--force", SCR]); shutil.rmtree(SCR, ignore_errors=True)
    sh(["git", "-C", "/repo", "worktree", "add", "--detach", SCR, "HEAD"])
    try:
        for n in ns:
            src = f"/tmp/mut/{P}/out/{n}"
            if not os.path.exists(src + "/patch.diff") or not os.path.exists(src + "/demo.cpp"):
                print(P, n, "incomplete"); continue
            notes = open(src + "/NOTES.md").read() if os.path.exists(src + "/NOTES.md") else ""
            results = {}
            ok = False
            for comp in ("g++", "clang++-14"):
                sh(["git", "-C", SCR, "checkout", "--", "."])
                b0 = build_demo(src + "/demo.cpp", SCR + "/include", "/tmp/seedchk_demo0", comp)
                if b0.returncode: results[comp] = "demo does not build unpatched: " + b0.stdout[-200:]; continue
                r0 = run("/tmp/seedchk_demo0")
                a = sh(["git", "-C", SCR, "apply", src + "/patch.diff"])
                if a.returncode: results[comp] = "patch does not apply: " + a.stdout[-200:]; break
                b1 = build_demo(src + "/demo.cpp", SCR + "/include", "/tmp/seedchk_demo1", comp)
                if b1.returncode: results[comp] = "demo does not build patched: " + b1.stdout[-200:]; continue
                r1 = run("/tmp/seedchk_demo1")
                results[comp] = dict(unpatched=r0, patched=r1)
                if r0[0] == 0 and r1[0] != 0:
                    ok = True
            dst = os.path.join(ROOT, "seeded", f"{P}-{n}")
            print(P, n, "CONFIRMED" if ok else "NOT CONFIRMED", json.dumps(results)[:400])
            if not ok:
                continue
            os.makedirs(dst, exist_ok=True)
            shutil.copy(src + "/patch.diff", dst + "/patch.diff")
            shutil.copy(src + "/demo.cpp", dst + "/demo.cpp")
            if notes:
                open(dst + "/NOTES.md", "w").write(notes)
            meta = dict(breaks=P, source="independent sub-agent given only the property text and a scratch worktree",
                        needs_to_manifest=(notes.split("\n\n")[1][:600] if "\n\n" in notes else notes[:600]),
                        confirmed=dict(patch_applies_to=sh(["git", "-C", "/repo", "rev-parse", "--short", "HEAD"]).stdout.strip(),
                                       demo=results, unit_suite="pending"))
            json.dump(meta, open(dst + "/meta.json", "w"), indent=1)
    finally:
        sh(["git", "-C", "/repo", "worktree", "remove", "--force", SCR])

if __name__ == "__main__":
    main()
