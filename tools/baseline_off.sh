#!/bin/sh
# Runs the repository's own test suite with the verification guard OFF (nothing defines it):
# rebuild the baseline build tree from /repo's working tree, then ctest.
set -e
REPO=${VERIF_REPO:-/repo}
if [ ! -f "$REPO/_build/build.ninja" ]; then
  cmake -G Ninja -S "$REPO" -B "$REPO/_build" -DCMAKE_BUILD_TYPE=RelWithDebInfo -DCMAKE_CXX_FLAGS=-Wno-error
fi
cmake --build "$REPO/_build" -j"$(nproc)" -- -k 0 || true
ctest --test-dir "$REPO/_build" -j8 --timeout 900
