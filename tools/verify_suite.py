#!/usr/bin/env python3
"""For every seeded/<id> whose meta.json says unit_suite pending: apply the patch in the scratch worktree
/tmp/wt (synchronised to /repo HEAD), build the repository's test suite there and run ctest; record the
result in meta.json.  Serial, low priority; meant to run in the background."""
import json, os, re, subprocess, sys, time
ROOT = os.path.dirname(os.path.dirname(os.path.abspath(__file__)))
WT = "/tmp/wt"

def sh(cmd, **kw):
    return subprocess.run(cmd, stdout=subprocess.PIPE, stderr=subprocess.STDOUT, text=True, errors="replace", **kw)

def main():
    jobs = os.environ.get("SUITE_JOBS", "6")
    head = sh(["git", "-C", "/repo", "rev-parse", "HEAD"]).stdout.strip()
    if not os.path.isdir(WT):
        sh(["git", "-C", "/repo", "worktree", "add", "--detach", WT, head])
        sh(["cmake", "-G", "Ninja", "-S", WT, "-B", WT + "/_build", "-DCMAKE_BUILD_TYPE=RelWithDebInfo", "-DCMAKE_CXX_FLAGS=-Wno-error"])
    ids = sys.argv[1:] or sorted(os.listdir(os.path.join(ROOT, "seeded")))
    for sid in ids:
        d = os.path.join(ROOT, "seeded", sid)
        mp = os.path.join(d, "meta.json")
        if not os.path.exists(mp):
            continue
        meta = json.load(open(mp))
        if meta.get("confirmed", {}).get("unit_suite") not in (None, "pending"):
            continue
        sh(["git", "-C", WT, "checkout", "-q", "--", "."])
        sh(["git", "-C", WT, "checkout", "-q", "--detach", head])
        a = sh(["git", "-C", WT, "apply", os.path.join(d, "patch.diff")])
        if a.returncode:
            meta["confirmed"]["unit_suite"] = "patch does not apply"; json.dump(meta, open(mp, "w"), indent=1); continue
        t = time.time()
        b = sh(["nice", "-n", "10", "cmake", "--build", WT + "/_build", "-j" + jobs, "--", "-k", "0"])
        failed = sorted(set(re.findall(r"FAILED: (\S+)", b.stdout)))
        c = sh(["ctest", "--test-dir", WT + "/_build", "-j" + jobs, "--timeout", "900"])
        m = re.search(r"(\d+)% tests passed, (\d+) tests failed out of (\d+)", c.stdout)
        notrun = re.findall(r"\d+ - (\S+) \((Not Run|Failed|.*?)\)", c.stdout)
        bad = [n for n, _ in notrun if n not in ("test-unit-index", "test-unit-boost.multiprecision")]
        meta["confirmed"]["unit_suite"] = dict(summary=m.group(0) if m else c.stdout[-200:], failing_besides_the_two_known=bad,
                                               build_failures=[f for f in failed if "index" not in f and "boost.multiprecision" not in f],
                                               wall_s=round(time.time() - t))
        json.dump(meta, open(mp, "w"), indent=1)
        print(sid, meta["confirmed"]["unit_suite"], flush=True)
    sh(["git", "-C", WT, "checkout", "-q", "--", "."])

if __name__ == "__main__":
    main()
