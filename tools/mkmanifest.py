#!/usr/bin/env python3
"""Regenerates MANIFEST.json from the table below (one entry per claimed property)."""
import json, os
ROOT = os.path.dirname(os.path.dirname(os.path.abspath(__file__)))
props = [json.loads(l) for l in open(os.path.join(ROOT, 'properties.jsonl'))]
TECH = "Lean 4 machine-checked proof over an executable model + differential correspondence with the real headers"
CLAIMED = {
 'C12': dict(
   text="Kernel-checked theorems (CnlProperties/C12.lean): for native-tag nests of any depth over built-in integers of any width, every binary, shift, comparison and unary operator and compound assignment of the layered model equals the built-in operator of the C semantics core, including the promoted result type and the undefined cases. The model is tied to /repo by a differential harness that runs the real operators on boundary-dense operand pairs for a seed-varied grid of (nest, rep) instantiations and compares value and result type with the model and with the bare built-in expression.",
   note="Trusted: Lean kernel; hand-written model (correspondence sampled over instantiations and operand values); CnlModel.CInt reading of C++20 integer semantics; equivalence of compiled IR (the zero-cost claim proper) is not claimed."),
 'C05': dict(
   text="Kernel-checked theorems (CnlProperties/C05.lean) for all digit counts, signedness mixes and narrowest widths: + - * / % on elastic_integer return the exact result within the policy's digits and never execute UB whenever the result type exists; unary minus, shifts by a constant and all six comparisons likewise (comparisons are by value across signedness). The >> clause of the property is refuted from a concrete witness (open known finding) and proved under the complementary hypothesis. Model tied to /repo by exhaustive small-digit and boundary-lattice correspondence over a seed-varied instantiation grid incl. 128-bit storage.",
   note="Trusted: Lean kernel; hand-written model of policy.h / set_digits / operand casts / result-type rule validated by correspondence; narrowest types are built-in integers (wide_integer storage is covered by C10/C11)."),
 'C08': dict(
   text="Kernel-checked theorems (CnlProperties/C08.lean) for every width, signed and unsigned, mixed operand types and all four rounding tags: whenever the usual arithmetic conversions preserve the operand values, b != 0 and the correctly rounded quotient is representable, the modelled division returns exactly roundDiv(mode, a, b) and no intermediate is undefined; roundDiv is characterised without division (IsRounded) and shown unique; every other operator under a rounding tag is the representation's operator. The model follows the repaired nearest / tie_to_pos_inf formulas (fix commits) and is tied to /repo by all 8-bit operand pairs plus boundary/tie lattices for 16/32/64-bit reps.",
   note="Trusted: Lean kernel; hand-written model of the four divide_op specialisations validated by correspondence (2.2M cases per run); CnlModel.CInt. Mixed-signedness operands whose value changes under the usual arithmetic conversions are constrained only for the native tag (built-in behaviour)."),
 'C16': dict(
   text="Kernel-checked theorems (CnlProperties/C16.lean) for any component width and signedness under explicit fit guards (non-zero denominators; every operand, product and sum representable in the type C++ computes it in): + - * / and unary -/+ denote the exact rational results with the deduced result types; all six comparisons return the order of the rational values for denominators of either sign (the unrepaired order operators are refuted from a witness; the code was repaired by a fix commit); reduce/canonical preserve the value, give coprime parts (canonical: positive denominator), canonical forms of equal values are identical, hence equal hashes for every hash function. Tied to /repo by exhaustive int8 single-fraction sweeps, strided int8 pairs, equal-valued pairs and lattices for wider and mixed component types.",
   note="Trusted: Lean kernel; hand-written model incl. a libstdc++ std::gcd transcription; IEEE rounding of the conversion to floating point and most-negative components (outside the guards) are tied by the harness only."),
 'C19': dict(
   text="Kernel-checked theorems (CnlProperties/C19.lean): for built-in integers of any width, elastic_integer of any digit count, wide_integer storage and scaled_integer of any even exponent and radix over these, cnl::sqrt evaluates without undefined behaviour (no overflow of root+bit in decltype(root+bit)), terminates (fuel-based model, running out of fuel is a distinct result proved unreachable), and returns the unique r with r*r <= x < (r+1)*(r+1); elastic results fit (D+1)/2 digits; scaled results satisfy the inequality between the denoted rationals. Tied to /repo by exhaustive 8/16-bit and lattice/random correspondence; thorough adds an in-harness sweep of all 32-bit inputs (supplementary search).",
   note="Trusted: Lean kernel; hand-written model; CnlModel.CInt; wide_integer arithmetic taken as two's complement on its storage (C10)."),
}
man = {
 "version": 1,
 "setup_cmd": "python3 check.py build",
 "hooks": {"guard": "JOHNMCFARLANE_CNL_VERIF",
           "enable": "harness translation units are compiled with -DJOHNMCFARLANE_CNL_VERIF (and -DCNL_VERIF_OVERFLOW_PATH=1|2 to force the overflow-detection path); header-only library, nothing else to build",
           "baseline_off_cmd": "sh /verif/tools/baseline_off.sh",
           "source_commits": ["0127b86"],
           "add_only": True},
 "engines": [{"name": "lean4-proof+correspondence", "path": "/verif/check.py", "serves_properties": sorted(CLAIMED),
              "kind_free_text": "Lean 4 theorems over a hand-written executable model (lean/CnlModel, CnlProperties) + differential correspondence harness on the real headers (harness/), driver = compiled Lean model"}],
 "checks": [], "notes": "See DESIGN.md. known_findings.json lists genuine defects (open or fixed).", "not_applicable": []}
for p in props:
    pid = p['id']
    if pid in CLAIMED:
        c = CLAIMED[pid]
        man['checks'].append({
            "property_id": pid, "quick_cmd": f"python3 check.py {pid} --tier quick", "thorough_cmd": f"python3 check.py {pid} --tier thorough",
            "evidence_file": f"/verif/evidence/{pid}.json", "replay_cmd_template": "python3 check.py replay {path}",
            "engine": "lean4-proof+correspondence",
            "level_claimed": {"category": "proof", "text": c['text'], "design_ref": f"DESIGN.md section 6 {pid}"},
            "level_note": c['note'], "technique": c.get('technique', TECH)})
    else:
        man['not_applicable'].append({"property_id": pid, "reason": "check under construction in this round; not yet claimed (to be decided by Lean proof + correspondence, see DESIGN.md section 6)"})
json.dump(man, open(os.path.join(ROOT, 'MANIFEST.json'), 'w'), indent=1)
print("claimed:", sorted(CLAIMED))
