import CnlSpec.Fraction
import CnlSpec.Arith
import CnlSpec.Sqrt
import CnlSpec.Bits
