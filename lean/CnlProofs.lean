import CnlProofs.Wide
import CnlProofs.Fraction
