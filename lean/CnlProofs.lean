import CnlProofs.Wide
import CnlProofs.Fraction
import CnlProofs.Bits
import CnlProofs.Charconv
import CnlProofs.Sqrt
import CnlProofs.Rounding
import CnlProofs.Parse
import CnlProofs.MakeFraction
