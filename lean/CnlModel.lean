import CnlModel.Basic
import CnlModel.CInt
import CnlModel.Ty
import CnlModel.Rep
import CnlModel.Scaled
import CnlModel.Overflow
import CnlModel.Rounding
import CnlModel.Layered
