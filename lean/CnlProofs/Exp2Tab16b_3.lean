import CnlProofs.Exp2
/-! Kernel-checked table, part 4 of 4: `i16_m8` representations 49152 … 65535 (offset from `lowest`): result representable ⇒ model `ok` and within 2 units of the true floor. -/
open Cnl Cnl.Exp2 Cnl.Exp2Proofs
namespace Cnl.Exp2Tab16b
set_option maxRecDepth 1000000
theorem part3 : sweep ⟨16, true, -8⟩ (boundOK ⟨16, true, -8⟩ 2) 49152 16384 = true := by decide +kernel
end Cnl.Exp2Tab16b
