import CnlModel.Parse
import CnlSpec.Token
import CnlProofs.CIntLemmas
/-!
Helper lemmas for C15: the width estimate, positional values, Horner accumulation in chunks,
the int64 chunk arithmetic, used digits and trailing bits, and the scanner/grammar link
(`token_scanned`: `scan_string` returns what the grammar of `CnlSpec.Token` says, by induction over
the character list).  Lean core only.
-/
namespace Cnl.ParseProofs
open Cnl Cnl.Parse Cnl.Token

/-! ## the width estimate -/

set_option exponentiation.threshold 4000 in
/-- the single numeric fact behind the decimal estimate: `log2 10 < 3.322` -/
theorem ten_pow_1000 : 10 ^ 1000 < 2 ^ 3322 := by decide +kernel

set_option exponentiation.threshold 4000 in
/-- `10^n ≤ 2^⌈3.322 n⌉` for every `n` -/
theorem ten_pow_le (n : Nat) : 10 ^ n ≤ 2 ^ ((n * 3322 + 999) / 1000) := by
  have hk : n * 3322 ≤ ((n * 3322 + 999) / 1000) * 1000 := by omega
  have h1 : (10 ^ n) ^ 1000 ≤ (2 ^ ((n * 3322 + 999) / 1000)) ^ 1000 := by
    calc (10 ^ n) ^ 1000 = (10 ^ 1000) ^ n := by rw [← Nat.pow_mul, ← Nat.pow_mul, Nat.mul_comm]
      _ ≤ (2 ^ 3322) ^ n := Nat.pow_le_pow_left (Nat.le_of_lt ten_pow_1000) n
      _ = 2 ^ (n * 3322) := by rw [← Nat.pow_mul, Nat.mul_comm]
      _ ≤ 2 ^ (((n * 3322 + 999) / 1000) * 1000) := Nat.pow_le_pow_right (by decide) hk
      _ = (2 ^ ((n * 3322 + 999) / 1000)) ^ 1000 := by rw [← Nat.pow_mul]
  exact (Nat.pow_le_pow_iff_left (by decide)).mp h1

theorem decimalBits_eq (n : Nat) : decimalBits n = (n * 3322 + 999) / 1000 := rfl

/-! ## positional values -/

def foldFrom (base : Nat) (a : Nat) (ds : List Nat) : Nat := ds.foldl (fun acc d => acc * base + d) a

theorem positional_eq (base : Nat) (ds : List Nat) : positional base ds = foldFrom base 0 ds := rfl

theorem foldFrom_nil (base a : Nat) : foldFrom base a [] = a := rfl
theorem foldFrom_cons (base a d : Nat) (ds : List Nat) :
    foldFrom base a (d :: ds) = foldFrom base (a * base + d) ds := rfl

theorem foldFrom_append (base a : Nat) (xs ys : List Nat) :
    foldFrom base a (xs ++ ys) = foldFrom base (foldFrom base a xs) ys := by
  simp [foldFrom, List.foldl_append]

/-- Horner: the fold from `a` is `a·base^len + ` the fold from 0 -/
theorem foldFrom_eq (base : Nat) (ds : List Nat) : ∀ a, foldFrom base a ds = a * base ^ ds.length + foldFrom base 0 ds := by
  induction ds with
  | nil => intro a; simp [foldFrom]
  | cons d ds ih =>
    intro a
    rw [foldFrom_cons, ih, foldFrom_cons, ih (0 * base + d)]
    simp only [List.length_cons, Nat.pow_succ, Nat.zero_mul, Nat.zero_add]
    rw [Nat.add_mul, Nat.add_assoc, Nat.mul_assoc, Nat.mul_comm base]

/-- digits below the base: the value stays below `(a+1)·base^len` -/
theorem foldFrom_lt (base : Nat) (ds : List Nat) (hd : ∀ d ∈ ds, d < base) :
    ∀ a, foldFrom base a ds + 1 ≤ (a + 1) * base ^ ds.length := by
  induction ds with
  | nil => intro a; simp [foldFrom]
  | cons d ds ih =>
    intro a
    have hdb : d < base := hd d (List.mem_cons_self ..)
    have h := ih (fun x hx => hd x (List.mem_cons_of_mem _ hx)) (a * base + d)
    rw [foldFrom_cons]
    refine Nat.le_trans h ?_
    simp only [List.length_cons, Nat.pow_succ]
    have : a * base + d + 1 ≤ (a + 1) * base := by rw [Nat.add_mul]; omega
    calc (a * base + d + 1) * base ^ ds.length ≤ ((a + 1) * base) * base ^ ds.length := Nat.mul_le_mul_right _ this
      _ = (a + 1) * (base ^ ds.length * base) := by rw [Nat.mul_assoc, Nat.mul_comm base]

theorem positional_lt (base : Nat) (ds : List Nat) (hd : ∀ d ∈ ds, d < base) :
    positional base ds < base ^ ds.length := by
  have := foldFrom_lt base ds hd 0
  rw [positional_eq]; omega

/-- with leading digit `d0`: below `(d0+1)·base^(len-1)` -/
theorem positional_cons_lt (base d0 : Nat) (ds : List Nat) (hd : ∀ d ∈ ds, d < base) :
    positional base (d0 :: ds) < (d0 + 1) * base ^ ds.length := by
  have := foldFrom_lt base ds hd (0 * base + d0)
  rw [positional_eq, foldFrom_cons]; simp only [Nat.zero_mul, Nat.zero_add] at *; omega

theorem foldFrom_mono (base : Nat) (ds : List Nat) (hb : 1 ≤ base) : ∀ a, a ≤ foldFrom base a ds := by
  induction ds with
  | nil => intro a; exact Nat.le_refl _
  | cons d ds ih =>
    intro a
    rw [foldFrom_cons]
    refine Nat.le_trans ?_ (ih _)
    have : a * 1 ≤ a * base := Nat.mul_le_mul_left a hb
    omega

/-! ## the scanner's estimate covers the value -/

/-- `max_num_bits` handed to `scan_msb` for a token of `n` digits -/
def maxBits (base n : Nat) : Nat :=
  if base = 10 then decimalBits n else if base = 16 then n * 4 else if base = 8 then n * 3 else n

/-- what `scan_msb` stores in `num_bits` -/
def estimate (base n d0 : Nat) : Nat := maxBits base n - (if d0 * 2 < base then 1 else 0)

theorem pow2_base (k n : Nat) : (2 ^ k) ^ n = 2 ^ (n * k) := by rw [← Nat.pow_mul, Nat.mul_comm]

/-- binary, octal, hexadecimal (`base = 2^k`): the estimate is exact enough -/
theorem estimate_pow2 (k : Nat) (hk : 1 ≤ k) (d0 : Nat) (ds : List Nat) (hd0 : d0 < 2 ^ k) (hd : ∀ d ∈ ds, d < 2 ^ k) :
    positional (2 ^ k) (d0 :: ds) < 2 ^ ((ds.length + 1) * k - (if d0 * 2 < 2 ^ k then 1 else 0)) := by
  have hlt := positional_cons_lt (2 ^ k) d0 ds hd
  rw [pow2_base] at hlt
  have hk2 : 2 ^ k = 2 * 2 ^ (k - 1) := by
    have : k = (k - 1) + 1 := by omega
    conv => lhs; rw [this, Nat.pow_succ]
    omega
  by_cases h : d0 * 2 < 2 ^ k
  · simp only [h, ite_true]
    have h1 : d0 + 1 ≤ 2 ^ (k - 1) := by omega
    have h2 : (d0 + 1) * 2 ^ (ds.length * k) ≤ 2 ^ (k - 1) * 2 ^ (ds.length * k) := Nat.mul_le_mul_right _ h1
    have h3 : 2 ^ (k - 1) * 2 ^ (ds.length * k) = 2 ^ ((ds.length + 1) * k - 1) := by
      rw [← Nat.pow_add]; congr 1; rw [Nat.add_mul]; omega
    omega
  · simp only [h, ite_false, Nat.sub_zero]
    have h2 : (d0 + 1) * 2 ^ (ds.length * k) ≤ 2 ^ k * 2 ^ (ds.length * k) := Nat.mul_le_mul_right _ hd0
    have h3 : 2 ^ k * 2 ^ (ds.length * k) = 2 ^ ((ds.length + 1) * k) := by
      rw [← Nat.pow_add]; congr 1; rw [Nat.add_mul]; omega
    omega

/-- decimal, with the repaired estimate `⌈3.322 n⌉` -/
theorem estimate_decimal (d0 : Nat) (ds : List Nat) (hd0 : d0 < 10) (hd : ∀ d ∈ ds, d < 10) :
    positional 10 (d0 :: ds) < 2 ^ (decimalBits (ds.length + 1) - (if d0 * 2 < 10 then 1 else 0)) := by
  have hlt := positional_cons_lt 10 d0 ds hd
  have hp := ten_pow_le (ds.length + 1)
  rw [← decimalBits_eq] at hp
  rw [Nat.pow_succ] at hp
  by_cases h : d0 * 2 < 10
  · simp only [h, ite_true]
    have hpos : 1 ≤ decimalBits (ds.length + 1) := by unfold decimalBits estimateBias; omega
    have h2 : 2 ^ decimalBits (ds.length + 1) = 2 * 2 ^ (decimalBits (ds.length + 1) - 1) := by
      have : decimalBits (ds.length + 1) = (decimalBits (ds.length + 1) - 1) + 1 := by omega
      conv => lhs; rw [this, Nat.pow_succ]
      omega
    have h1 : (d0 + 1) * 10 ^ ds.length ≤ 5 * 10 ^ ds.length := Nat.mul_le_mul_right _ (by omega)
    omega
  · simp only [h, ite_false, Nat.sub_zero]
    have h1 : (d0 + 1) * 10 ^ ds.length ≤ 10 * 10 ^ ds.length := Nat.mul_le_mul_right _ (by omega)
    omega

/-- the estimate for all four bases -/
theorem estimate_sufficient (base : Nat) (hb : base = 2 ∨ base = 8 ∨ base = 10 ∨ base = 16)
    (d0 : Nat) (ds : List Nat) (hd0 : d0 < base) (hd : ∀ d ∈ ds, d < base) :
    positional base (d0 :: ds) < 2 ^ estimate base (ds.length + 1) d0 := by
  rcases hb with rfl | rfl | rfl | rfl
  · have := estimate_pow2 1 (by decide) d0 ds hd0 hd
    simpa [estimate, maxBits] using this
  · have := estimate_pow2 3 (by decide) d0 ds hd0 hd
    simpa [estimate, maxBits] using this
  · have := estimate_decimal d0 ds hd0 hd
    simpa [estimate, maxBits] using this
  · have := estimate_pow2 4 (by decide) d0 ds hd0 hd
    simpa [estimate, maxBits] using this

/-- `scan_msb` stores exactly `estimate` -/
theorem scanMsb_numBits (cs : List Char) (neg : Bool) (base stride off n f : Nat) (p : Params)
    (h : scanMsb cs neg base stride off (maxBits base n) n f = .ok p) :
    ∃ d0, digitPos base (cs.getD (off + (if cs.getD off '\x00' == radixChar || cs.getD off '\x00' == separator then 1 else 0)) '\x00') = some d0 ∧
      p.numBits = estimate base n d0 ∧ p.numDigits = n ∧ p.base = base := by
  dsimp only [scanMsb] at h
  split at h
  · cases h
  · rename_i d0 hd
    injection h with h
    subst h
    exact ⟨d0, hd, rfl, rfl, rfl⟩

/-! ## each chunk fits `int64` -/

theorem chunk_fits : 10 ^ 18 ≤ 2 ^ 63 ∧ 16 ^ 15 ≤ 2 ^ 63 ∧ 8 ^ 21 ≤ 2 ^ 63 ∧ 2 ^ 63 ≤ 2 ^ 63 := by decide

/-! ## used digits and trailing bits -/

theorem usedDigitsNat_lt (n : Nat) : n < 2 ^ usedDigitsNat n := by
  unfold usedDigitsNat
  by_cases h : n = 0
  · simp [h]
  · simp only [h, ite_false]
    exact (Nat.log2_lt h).mp (Nat.lt_succ_self _)

theorem usedDigitsNat_le (n : Nat) (h : n ≠ 0) : 2 ^ (usedDigitsNat n - 1) ≤ n := by
  unfold usedDigitsNat
  simp only [h, ite_false, Nat.add_sub_cancel]
  exact (Nat.le_log2 h).mp (Nat.le_refl _)

/-- the number of used digits is characterised by its two bounds -/
theorem usedDigitsNat_unique (n k : Nat) (h1 : 2 ^ k ≤ n) (h2 : n < 2 ^ (k + 1)) : usedDigitsNat n = k + 1 := by
  have hn : n ≠ 0 := by
    have : 0 < 2 ^ k := Nat.two_pow_pos _
    omega
  unfold usedDigitsNat
  simp only [hn, ite_false]
  have a : k ≤ n.log2 := (Nat.le_log2 hn).mpr h1
  have b : n.log2 < k + 1 := (Nat.log2_lt hn).mpr h2
  omega

theorem tzFuel_dvd : ∀ (f n : Nat), 2 ^ tzFuel f n ∣ n := by
  intro f
  induction f with
  | zero => intro n; simp [tzFuel]
  | succ f ih =>
    intro n
    unfold tzFuel
    by_cases h : n % 2 = 0 ∧ n ≠ 0
    · simp only [h, and_self, ite_true, ne_eq, not_false_eq_true]
      obtain ⟨c, hc⟩ := ih (n / 2)
      refine ⟨c, ?_⟩
      rw [Nat.pow_succ, Nat.mul_assoc, Nat.mul_comm 2, ← Nat.mul_assoc, ← hc]
      omega
    · simp [h]

theorem trailingBits_dvd (v : Int) : (2 ^ trailingBits v : Int) ∣ v := by
  have h := tzFuel_dvd v.natAbs v.natAbs
  unfold trailingBits
  have : ((2 ^ tzFuel v.natAbs v.natAbs : Nat) : Int) ∣ (v.natAbs : Int) := Int.ofNat_dvd.mpr h
  rw [Int.natCast_pow] at this
  exact (Int.dvd_natAbs).mp this

/-- moving the trailing zero bits into the exponent loses nothing: `v = (v >> tz) << tz` -/
theorem shiftOut_exact (v : Int) : shiftOut v (trailingBits v) * 2 ^ trailingBits v = v := by
  unfold shiftOut
  exact Int.ediv_mul_cancel (trailingBits_dvd v)

/-- dropping `k` trailing zero bits drops `k` used digits -/
theorem usedDigitsNat_div (n k : Nat) (hn : n ≠ 0) (hd : 2 ^ k ∣ n) :
    usedDigitsNat (n / 2 ^ k) = usedDigitsNat n - k := by
  obtain ⟨c, hc⟩ := hd
  have hpos : 0 < 2 ^ k := Nat.two_pow_pos _
  have hdiv : n / 2 ^ k = c := by rw [hc, Nat.mul_div_cancel_left _ hpos]
  have hc0 : c ≠ 0 := by intro h; rw [h] at hc; simp at hc; exact hn hc
  rw [hdiv]
  -- bounds of c from the bounds of n
  have hlo := usedDigitsNat_le c hc0
  have hhi := usedDigitsNat_lt c
  have hU : 1 ≤ usedDigitsNat c := by
    unfold usedDigitsNat; simp [hc0]
  have h1 : 2 ^ (usedDigitsNat c - 1 + k) ≤ n := by
    rw [hc, Nat.pow_add, Nat.mul_comm]; exact Nat.mul_le_mul_left _ hlo
  have h2 : n < 2 ^ (usedDigitsNat c - 1 + k + 1) := by
    have : usedDigitsNat c - 1 + k + 1 = k + usedDigitsNat c := by omega
    rw [this, hc, Nat.pow_add]; exact Nat.mul_lt_mul_of_pos_left hhi hpos
  have := usedDigitsNat_unique n _ h1 h2
  omega

/-! ## `int64` chunk arithmetic through `CnlModel.CInt` -/

/-- the sign convention of a token: digits of a negative token are accumulated negated -/
def sg (neg : Bool) (x : Nat) : Int := if neg then -(x : Int) else (x : Int)

theorem i64_inRange_iff (v : Int) : i64.InRange v ↔ (-(2:Int)^63 ≤ v ∧ v ≤ 2^63 - 1) := by
  unfold IntTy.InRange
  rw [IntTy.max_eq, IntTy.lowest_eq]
  have hd : i64.digits = 63 := by decide
  have hs : i64.signed = true := rfl
  simp only [hd, hs, ite_true]

theorem i32_inRange_iff (v : Int) : i32.InRange v ↔ (-(2:Int)^31 ≤ v ∧ v ≤ 2^31 - 1) := by
  unfold IntTy.InRange
  rw [IntTy.max_eq, IntTy.lowest_eq]
  have hd : i32.digits = 31 := by decide
  have hs : i32.signed = true := rfl
  simp only [hd, hs, ite_true]

theorem inRange_sg (neg : Bool) (X : Nat) (h : X < 2 ^ 63) : i64.InRange (sg neg X) := by
  rw [i64_inRange_iff]
  cases neg <;> simp only [sg] <;> omega

theorem cBin_mul_i64 (x c : Int) (hx : i64.InRange x) (hc : i64.InRange c) (h : i64.InRange (x * c)) :
    cBin .mul (i64, x) (i32, c) = .ok (i64, x * c) := by
  have hT : usualArith i64 i32 = i64 := by decide
  simp only [cBin, hT]
  rw [IntTy.wrap_id (by decide) hx, IntTy.wrap_id (by decide) hc]
  exact arith_ok (by decide) h

theorem cBin_add_i64 (x c : Int) (hx : i64.InRange x) (hc : i64.InRange c) (h : i64.InRange (x + c)) :
    cBin .add (i64, x) (i32, c) = .ok (i64, x + c) := by
  have hT : usualArith i64 i32 = i64 := by decide
  simp only [cBin, hT]
  rw [IntTy.wrap_id (by decide) hx, IntTy.wrap_id (by decide) hc]
  exact arith_ok (by decide) h

theorem cBin_shl_i64 (x : Int) (k : Nat) (hk : k < 64) (h : i64.InRange (x * 2 ^ k)) :
    cBin .shl (i64, x) (i32, (k : Int)) = .ok (i64, x * 2 ^ k) := by
  have hP : promote i64 = i64 := by decide
  have hb : ((i64.bits : Nat) : Int) = 64 := rfl
  simp only [cBin, hP, hb]
  have : ¬ ((k : Int) < 0 ∨ (k : Int) ≥ 64) := by omega
  simp only [this, ite_false, Int.toNat_natCast]
  rw [IntTy.wrap_id (by decide) h]

theorem scaleOp_ok (base : Nat) (hb : base = 2 ∨ base = 8 ∨ base = 10 ∨ base = 16) (neg : Bool) (A : Nat)
    (h : A * base < 2 ^ 63) : scaleOp base (sg neg A) = .ok (sg neg (A * base)) := by
  have hA : A < 2 ^ 63 := by
    rcases hb with rfl | rfl | rfl | rfl <;> omega
  have hr := inRange_sg neg (A * base) h
  have hmul : ∀ c : Nat, sg neg A * (c : Int) = sg neg (A * c) := by
    intro c; cases neg <;> simp [sg, Int.natCast_mul, Int.neg_mul]
  rcases hb with rfl | rfl | rfl | rfl
  · have e : sg neg A * 2 ^ 1 = sg neg (A * 2) := by rw [← hmul]; rfl
    have := cBin_shl_i64 (sg neg A) 1 (by decide) (by rw [e]; exact hr)
    simp only [scaleOp, show (2:Nat) ≠ 10 by decide, ite_false, ite_true]
    show (cBin .shl (i64, sg neg A) (i32, ((1:Nat):Int)) >>= _) = _
    rw [this, e]; simp only [Res.bind_ok]; rw [IntTy.wrap_id (by decide) hr]
  · have e : sg neg A * 2 ^ 3 = sg neg (A * 8) := by rw [← hmul]; rfl
    have := cBin_shl_i64 (sg neg A) 3 (by decide) (by rw [e]; exact hr)
    simp only [scaleOp, show (8:Nat) ≠ 10 by decide, show (8:Nat) ≠ 2 by decide, ite_false, ite_true]
    show (cBin .shl (i64, sg neg A) (i32, ((3:Nat):Int)) >>= _) = _
    rw [this, e]; simp only [Res.bind_ok]; rw [IntTy.wrap_id (by decide) hr]
  · have e : sg neg A * 10 = sg neg (A * 10) := by rw [← hmul]; rfl
    have h10 : i64.InRange 10 := by rw [i64_inRange_iff]; omega
    have := cBin_mul_i64 (sg neg A) 10 (inRange_sg neg A hA) h10 (by rw [e]; exact hr)
    simp only [scaleOp, ite_true]
    rw [this, e]; simp only [Res.bind_ok]; rw [IntTy.wrap_id (by decide) hr]
  · have e : sg neg A * 2 ^ 4 = sg neg (A * 16) := by rw [← hmul]; rfl
    have := cBin_shl_i64 (sg neg A) 4 (by decide) (by rw [e]; exact hr)
    simp only [scaleOp, show (16:Nat) ≠ 10 by decide, show (16:Nat) ≠ 2 by decide, show (16:Nat) ≠ 8 by decide, ite_false, ite_true]
    show (cBin .shl (i64, sg neg A) (i32, ((4:Nat):Int)) >>= _) = _
    rw [this, e]; simp only [Res.bind_ok]; rw [IntTy.wrap_id (by decide) hr]

theorem sg_add (neg : Bool) (a b : Nat) : sg neg a + sg neg b = sg neg (a + b) := by
  cases neg <;> simp [sg, Int.natCast_add, Int.neg_add]

theorem sg_zero (neg : Bool) : sg neg 0 = 0 := by cases neg <;> simp [sg]

/-- one chunk: the digits are folded exactly as long as `(A+1)·base^len ≤ 2^63` -/
theorem accumulate_ok (base : Nat) (hb : base = 2 ∨ base = 8 ∨ base = 10 ∨ base = 16) (neg : Bool)
    (ds : List Nat) (hd : ∀ d ∈ ds, d < base) :
    ∀ A : Nat, (A + 1) * base ^ ds.length ≤ 2 ^ 63 →
      accumulate neg base (sg neg A) ds = .ok (sg neg (foldFrom base A ds)) := by
  induction ds with
  | nil => intro A _; rfl
  | cons d ds ih =>
    intro A hA
    have hdb : d < base := hd d (List.mem_cons_self ..)
    have hP : 1 ≤ base ^ ds.length := Nat.pow_pos (by rcases hb with rfl | rfl | rfl | rfl <;> decide)
    simp only [List.length_cons, Nat.pow_succ] at hA
    have h1 : (A + 1) * base ≤ 2 ^ 63 := by
      have : (A + 1) * base * 1 ≤ (A + 1) * base * base ^ ds.length := Nat.mul_le_mul_left _ hP
      have e : (A + 1) * (base ^ ds.length * base) = (A + 1) * base * base ^ ds.length := by
        rw [Nat.mul_comm (base ^ ds.length), Nat.mul_assoc]
      omega
    have h2 : A * base + d < 2 ^ 63 := by rw [Nat.add_mul] at h1; omega
    have h3 : (A * base + d + 1) * base ^ ds.length ≤ 2 ^ 63 := by
      have : A * base + d + 1 ≤ (A + 1) * base := by rw [Nat.add_mul]; omega
      have := Nat.mul_le_mul_right (base ^ ds.length) this
      have e : (A + 1) * (base ^ ds.length * base) = (A + 1) * base * base ^ ds.length := by
        rw [Nat.mul_comm (base ^ ds.length), Nat.mul_assoc]
      omega
    have hs := scaleOp_ok base hb neg A (by omega)
    have hdig : (if neg = true then -(d : Int) else (d : Int)) = sg neg d := rfl
    have hadd := cBin_add_i64 (sg neg (A * base)) (sg neg d) (inRange_sg neg _ (by omega)) (inRange_sg neg _ (by omega))
      (by rw [sg_add]; exact inRange_sg neg _ h2)
    unfold accumulate
    rw [hs]; simp only [Res.bind_ok]
    rw [hdig, hadd]; simp only [Res.bind_ok]
    rw [sg_add, foldFrom_cons]
    exact ih (fun x hx => hd x (List.mem_cons_of_mem _ hx)) _ h3

/-- the stride of each base and the factor its chunk step applies -/
def StrideOK (base stride : Nat) : Prop :=
  (base = 10 ∧ stride = 18) ∨ (base = 16 ∧ stride = 15) ∨ (base = 8 ∧ stride = 21) ∨ (base = 2 ∧ stride = 63)

theorem strideOK_base {base stride : Nat} (h : StrideOK base stride) : base = 2 ∨ base = 8 ∨ base = 10 ∨ base = 16 := by
  rcases h with ⟨h, _⟩ | ⟨h, _⟩ | ⟨h, _⟩ | ⟨h, _⟩ <;> simp [h]

theorem strideOK_fits {base stride : Nat} (h : StrideOK base stride) : base ^ stride ≤ 2 ^ 63 := by
  rcases h with ⟨rfl, rfl⟩ | ⟨rfl, rfl⟩ | ⟨rfl, rfl⟩ | ⟨rfl, rfl⟩ <;> decide

/-- a whole chunk read from `init = 0` is the positional value of its digits (negated for a negative token) -/
theorem chunk_ok {base stride : Nat} (h : StrideOK base stride) (neg : Bool) (ds : List Nat)
    (hd : ∀ d ∈ ds, d < base) (hl : ds.length ≤ stride) :
    accumulate neg base 0 ds = .ok (sg neg (foldFrom base 0 ds)) := by
  have hb := strideOK_base h
  have h1 : base ^ ds.length ≤ base ^ stride :=
    Nat.pow_le_pow_right (by rcases hb with rfl | rfl | rfl | rfl <;> decide) hl
  have := accumulate_ok base hb neg ds hd 0 (by have := strideOK_fits h; omega)
  rwa [sg_zero] at this

/-! ## reading digits chunk by chunk -/

theorem readDigits_zero (base : Nat) (cs : List Char) : readDigits base cs 0 = .ok ([], cs) := by
  cases cs <;> rfl

theorem bind_eq_ok {α β : Type} {x : Res α} {f : α → Res β} {b : β} (h : (x >>= f) = .ok b) :
    ∃ a, x = .ok a ∧ f a = .ok b := by
  cases x with
  | ok a => exact ⟨a, rfl, h⟩
  | _ => cases h

/-- reading `a + b` digits is reading `a` and then `b` -/
theorem readDigits_split (base : Nat) : ∀ (cs : List Char) (a b : Nat) (ds : List Nat) (rest : List Char),
    readDigits base cs (a + b) = .ok (ds, rest) →
    ∃ ds1 ds2 mid, readDigits base cs a = .ok (ds1, mid) ∧ readDigits base mid b = .ok (ds2, rest) ∧
      ds = ds1 ++ ds2 ∧ ds1.length = a := by
  intro cs
  induction cs with
  | nil =>
    intro a b ds rest h
    cases a with
    | zero => exact ⟨[], ds, [], readDigits_zero _ _, by simpa using h, rfl, rfl⟩
    | succ a => rw [Nat.succ_add] at h; cases h
  | cons c cs ih =>
    intro a b ds rest h
    cases a with
    | zero => exact ⟨[], ds, c :: cs, readDigits_zero _ _, by simpa using h, rfl, rfl⟩
    | succ a =>
      rw [Nat.succ_add] at h
      simp only [readDigits] at h ⊢
      by_cases hc : (c == separator || c == radixChar) = true
      · simp only [hc, ite_true] at h ⊢
        have e : a + b + 1 = (a + 1) + b := by omega
        rw [e] at h
        exact ih (a + 1) b ds rest h
      · simp only [hc] at h ⊢
        cases hd : digitPos base c with
        | none => simp only [hd] at h; cases h
        | some d =>
          simp only [hd] at h ⊢
          obtain ⟨r, hr, hok⟩ := bind_eq_ok h
          injection hok with hok
          have hds : ds = d :: r.1 := by injection hok with e1 _; exact e1.symm
          have hrest : rest = r.2 := by injection hok with _ e2; exact e2.symm
          obtain ⟨ds1, ds2, mid, h1, h2, h3, h4⟩ := ih a b r.1 r.2 (by rw [hr])
          refine ⟨d :: ds1, ds2, mid, ?_, by rw [hrest]; exact h2, ?_, by simp [h4]⟩
          · rw [h1]; rfl
          · rw [hds, h3]; rfl

/-! ## multi-limb results: everything is arithmetic modulo `2^bits` -/

theorem wrap_rel (t : IntTy) (a : Int) : ∃ k : Int, t.wrap a = a + k * 2 ^ t.bits := by
  unfold IntTy.wrap
  by_cases hs : t.signed = true
  · simp only [hs, ite_true]
    refine ⟨-((a + 2 ^ (t.bits - 1)) / 2 ^ t.bits), ?_⟩
    have := Int.ediv_mul_add_emod (a + 2 ^ (t.bits - 1)) (2 ^ t.bits)
    rw [Int.neg_mul]
    omega
  · simp only [hs]
    refine ⟨-(a / 2 ^ t.bits), ?_⟩
    have := Int.ediv_mul_add_emod a (2 ^ t.bits)
    rw [Int.neg_mul]
    simp only [Bool.false_eq_true, ite_false]
    omega

theorem wrap_congr (t : IntTy) (a b k : Int) (h : a = b + k * 2 ^ t.bits) : t.wrap a = t.wrap b := by
  subst h
  unfold IntTy.wrap
  by_cases hs : t.signed = true
  · simp only [hs, ite_true]
    have : b + k * 2 ^ t.bits + 2 ^ (t.bits - 1) = (b + 2 ^ (t.bits - 1)) + k * 2 ^ t.bits := by omega
    rw [this, Int.add_mul_emod_self_right]
  · simp only [hs, Bool.false_eq_true, ite_false]
    rw [Int.add_mul_emod_self_right]

/-- `wrap (wrap (wrap x · F) + c) = wrap (x·F + c)` -/
theorem wrap_step (t : IntTy) (x F c : Int) : t.wrap (t.wrap (t.wrap x * F) + c) = t.wrap (x * F + c) := by
  obtain ⟨k1, h1⟩ := wrap_rel t x
  obtain ⟨k2, h2⟩ := wrap_rel t (t.wrap x * F)
  apply wrap_congr t _ _ (k2 + k1 * F)
  rw [h2, h1]
  rw [Int.add_mul, Int.add_mul, Int.mul_assoc k1, Int.mul_comm (2 ^ t.bits) F, ← Int.mul_assoc k1]
  omega

/-- conversion into a `bits`-bit two's-complement integer -/
def W (bits : Nat) (v : Int) : Int := (IntTy.mk bits true).wrap v

theorem sg_mul (neg : Bool) (a c : Nat) : sg neg a * (c : Int) = sg neg (a * c) := by
  cases neg <;> simp [sg, Int.natCast_mul, Int.neg_mul]

theorem strideOK_pos {base stride : Nat} (h : StrideOK base stride) : 0 < stride := by
  rcases h with ⟨_, rfl⟩ | ⟨_, rfl⟩ | ⟨_, rfl⟩ | ⟨_, rfl⟩ <;> decide

/-- the chunk step of a multi-limb result multiplies by `base^stride` and adds, modulo `2^bits` -/
theorem chunkStep_wide {base stride : Nat} (h : StrideOK base stride) (bits : Nat) (init c : Int) :
    chunkStep (.wide bits) base init c = .ok (W bits (W bits (init * ((base ^ stride : Nat) : Int)) + c)) := by
  rcases h with ⟨rfl, rfl⟩ | ⟨rfl, rfl⟩ | ⟨rfl, rfl⟩ | ⟨rfl, rfl⟩
  · have e : ((10 ^ 18 : Nat) : Int) = 1000000000000000000 := by decide +kernel
    simp only [chunkStep, ite_true, e]; rfl
  · have e : ((16 ^ 15 : Nat) : Int) = 2 ^ 60 := by decide +kernel
    simp only [chunkStep, chunkShift, show (16:Nat) ≠ 10 by decide, ite_false, ite_true, or_true, e]; rfl
  · have e : ((8 ^ 21 : Nat) : Int) = 2 ^ 63 := by decide +kernel
    simp only [chunkStep, chunkShift, show (8:Nat) ≠ 10 by decide, show (8:Nat) ≠ 16 by decide, show (8:Nat) ≠ 2 by decide,
      ite_false, ite_true, or_true, true_or, e]; rfl
  · have e : ((2 ^ 63 : Nat) : Int) = 2 ^ 63 := by decide +kernel
    simp only [chunkStep, chunkShift, show (2:Nat) ≠ 10 by decide, show (2:Nat) ≠ 16 by decide, ite_false, ite_true, true_or, e]; rfl

theorem parseInt64_chunk {base stride : Nat} (hs : StrideOK base stride) (neg : Bool) (cs : List Char) (n : Nat)
    (ds : List Nat) (mid : List Char) (h : readDigits base cs n = .ok (ds, mid)) (hd : ∀ d ∈ ds, d < base)
    (hl : ds.length ≤ stride) :
    parseInt64 neg base cs n 0 = .ok (sg neg (foldFrom base 0 ds), mid) := by
  unfold parseInt64
  rw [h]; simp only [Res.bind_ok]
  rw [chunk_ok hs neg ds hd hl]; rfl

/-- Horner over the chunk list, multi-limb result: any number of chunks -/
theorem parseChunks_wide {base stride : Nat} (hs : StrideOK base stride) (bits : Nat) (neg : Bool) :
    ∀ (k : Nat) (cs : List Char) (A : Nat) (ds : List Nat) (rest : List Char),
      readDigits base cs (k * stride) = .ok (ds, rest) → (∀ d ∈ ds, d < base) →
      parseChunks (.wide bits) neg base stride k cs (W bits (sg neg A))
        = .ok (W bits (sg neg (foldFrom base A ds))) := by
  intro k
  induction k with
  | zero =>
    intro cs A ds rest h _
    rw [Nat.zero_mul, readDigits_zero] at h
    injection h with h; injection h with h1 _
    subst h1; rfl
  | succ k ih =>
    intro cs A ds rest h hd
    have e : (k + 1) * stride = stride + k * stride := by rw [Nat.succ_mul, Nat.add_comm]
    rw [e] at h
    obtain ⟨ds1, ds2, mid, h1, h2, h3, h4⟩ := readDigits_split base cs stride (k * stride) ds rest h
    subst h3
    have hd1 : ∀ d ∈ ds1, d < base := fun d hx => hd d (List.mem_append_left _ hx)
    have hd2 : ∀ d ∈ ds2, d < base := fun d hx => hd d (List.mem_append_right _ hx)
    unfold parseChunks
    rw [parseInt64_chunk hs neg cs stride ds1 mid h1 hd1 (by omega)]
    simp only [Res.bind_ok]
    rw [chunkStep_wide hs]
    simp only [Res.bind_ok]
    have hw : W bits (W bits (W bits (sg neg A) * ((base ^ stride : Nat) : Int)) + sg neg (foldFrom base 0 ds1))
        = W bits (sg neg (foldFrom base A ds1)) := by
      unfold W
      rw [wrap_step, sg_mul, sg_add, foldFrom_eq base ds1 A, h4]
    rw [hw, foldFrom_append]
    exact ih mid (foldFrom base A ds1) ds2 rest h2 hd2

/-- `parse_string` into a multi-limb result returns the token's value modulo `2^bits`, for a
token of any length -/
theorem parseString_wide {base stride : Nat} (hs : StrideOK base stride) (bits : Nat) (neg : Bool)
    (cs : List Char) (n : Nat) (ds : List Nat) (rest : List Char)
    (h : readDigits base cs n = .ok (ds, rest)) (hd : ∀ d ∈ ds, d < base) :
    parseString (.wide bits) cs n neg base stride = .ok (W bits (sg neg (positional base ds))) := by
  have hpos := strideOK_pos hs
  have e : n = n % stride + (n / stride) * stride := by
    have := Nat.mod_add_div n stride; rw [Nat.mul_comm] at this; omega
  rw [e] at h
  obtain ⟨ds1, ds2, mid, h1, h2, h3, h4⟩ := readDigits_split base cs _ _ ds rest h
  subst h3
  have hd1 : ∀ d ∈ ds1, d < base := fun d hx => hd d (List.mem_append_left _ hx)
  have hd2 : ∀ d ∈ ds2, d < base := fun d hx => hd d (List.mem_append_right _ hx)
  have hlt : n % stride < stride := Nat.mod_lt _ hpos
  unfold parseString
  rw [Nat.add_mod_right, parseInt64_chunk hs neg cs _ ds1 mid h1 hd1 (by omega)]
  simp only [Res.bind_ok, Storage.ofInt64]
  have := parseChunks_wide hs bits neg (n / stride) mid (foldFrom base 0 ds1) ds2 rest h2 hd2
  unfold W at this
  rw [this, positional_eq, foldFrom_append]; rfl

/-! ## signed built-in results (`__int128` for `_c`, `_cnl`, `CNL_INTMAX_C`; `int64`) -/

/-- a signed built-in type at least as wide as the `int64` chunks -/
def SignedWide (t : IntTy) : Prop := t.signed = true ∧ 64 ≤ t.bits

theorem signedWide_range {t : IntTy} (h : SignedWide t) (v : Int) :
    t.InRange v ↔ (-(2:Int) ^ (t.bits - 1) ≤ v ∧ v ≤ 2 ^ (t.bits - 1) - 1) := by
  obtain ⟨hs, _⟩ := h
  unfold IntTy.InRange IntTy.max IntTy.lowest
  simp only [hs, ite_true]

theorem inRange_of_i64 {t : IntTy} (h : SignedWide t) {v : Int} (hv : i64.InRange v) : t.InRange v := by
  rw [signedWide_range h]
  rw [i64_inRange_iff] at hv
  have : (2:Int) ^ 63 ≤ 2 ^ (t.bits - 1) := two_pow_le (by have := h.2; omega)
  omega

theorem inRange_sg_le {t : IntTy} (h : SignedWide t) (neg : Bool) {X Y : Nat} (hY : t.InRange (sg neg Y)) (hXY : X ≤ Y) :
    t.InRange (sg neg X) := by
  rw [signedWide_range h] at hY ⊢
  have hp := two_pow_pos (t.bits - 1)
  cases neg <;> simp [sg] at hY ⊢ <;> omega

theorem usualArith_wide {t : IntTy} (h : SignedWide t) : usualArith t i64 = t := by
  obtain ⟨hs, hb⟩ := h
  have h1 : ¬ t.bits < 32 := by omega
  have h2 : t.bits ≥ 64 := hb
  simp [usualArith, promote, h1, hs, i64, h2]

theorem promote_wide {t : IntTy} (h : SignedWide t) : promote t = t := by
  have h1 : ¬ t.bits < 32 := by have := h.2; omega
  simp [promote, h1]

theorem cBin_mul_wide {t : IntTy} (h : SignedWide t) (x c : Int) (hx : t.InRange x) (hc : i64.InRange c)
    (hr : t.InRange (x * c)) : cBin .mul (t, x) (i64, c) = .ok (t, x * c) := by
  have hb : 1 ≤ t.bits := by have := h.2; omega
  simp only [cBin, usualArith_wide h]
  rw [IntTy.wrap_id hb hx, IntTy.wrap_id hb (inRange_of_i64 h hc)]
  exact arith_ok hb hr

theorem cBin_add_wide {t : IntTy} (h : SignedWide t) (x c : Int) (hx : t.InRange x) (hc : i64.InRange c)
    (hr : t.InRange (x + c)) : cBin .add (t, x) (i64, c) = .ok (t, x + c) := by
  have hb : 1 ≤ t.bits := by have := h.2; omega
  simp only [cBin, usualArith_wide h]
  rw [IntTy.wrap_id hb hx, IntTy.wrap_id hb (inRange_of_i64 h hc)]
  exact arith_ok hb hr

theorem cBin_shl_wide {t : IntTy} (h : SignedWide t) (x : Int) (k : Nat) (hk : k < 64) (hr : t.InRange (x * 2 ^ k)) :
    cBin .shl (t, x) (i32, (k : Int)) = .ok (t, x * 2 ^ k) := by
  have hb : 1 ≤ t.bits := by have := h.2; omega
  simp only [cBin, promote_wide h]
  have : ¬ ((k : Int) < 0 ∨ (k : Int) ≥ (t.bits : Int)) := by have := h.2; omega
  simp only [this, ite_false, Int.toNat_natCast]
  rw [IntTy.wrap_id hb hr]

/-- the chunk step in a signed built-in type is exact while the running value stays in range -/
theorem chunkStep_builtin {base stride : Nat} (hs : StrideOK base stride) {t : IntTy} (h : SignedWide t) (X c : Int)
    (hX : t.InRange X) (hc : i64.InRange c) (h1 : t.InRange (X * ((base ^ stride : Nat) : Int)))
    (h2 : t.InRange (X * ((base ^ stride : Nat) : Int) + c)) :
    chunkStep (.builtin t) base X c = .ok (X * ((base ^ stride : Nat) : Int) + c) := by
  have hb : 1 ≤ t.bits := by have := h.2; omega
  rcases hs with ⟨rfl, rfl⟩ | ⟨rfl, rfl⟩ | ⟨rfl, rfl⟩ | ⟨rfl, rfl⟩
  · have e : ((10 ^ 18 : Nat) : Int) = 1000000000000000000 := by decide +kernel
    rw [e] at h1 h2 ⊢
    have hF : i64.InRange 1000000000000000000 := by rw [i64_inRange_iff]; omega
    simp only [chunkStep, ite_true]
    rw [cBin_mul_wide h X _ hX hF h1]; simp only [Res.bind_ok]
    rw [IntTy.wrap_id hb h1, cBin_add_wide h _ c h1 hc h2]; simp only [Res.bind_ok]
    rw [IntTy.wrap_id hb h2]
  · have e : ((16 ^ 15 : Nat) : Int) = 2 ^ 60 := by decide +kernel
    rw [e] at h1 h2 ⊢
    simp only [chunkStep, chunkShift, show (16:Nat) ≠ 10 by decide, ite_false, ite_true, or_true]
    rw [cBin_shl_wide h X 60 (by decide) h1]; simp only [Res.bind_ok]
    rw [IntTy.wrap_id hb h1, cBin_add_wide h _ c h1 hc h2]; simp only [Res.bind_ok]
    rw [IntTy.wrap_id hb h2]
  · have e : ((8 ^ 21 : Nat) : Int) = 2 ^ 63 := by decide +kernel
    rw [e] at h1 h2 ⊢
    simp only [chunkStep, chunkShift, show (8:Nat) ≠ 10 by decide, show (8:Nat) ≠ 16 by decide, show (8:Nat) ≠ 2 by decide,
      ite_false, ite_true, or_true, true_or]
    rw [cBin_shl_wide h X 63 (by decide) h1]; simp only [Res.bind_ok]
    rw [IntTy.wrap_id hb h1, cBin_add_wide h _ c h1 hc h2]; simp only [Res.bind_ok]
    rw [IntTy.wrap_id hb h2]
  · have e : ((2 ^ 63 : Nat) : Int) = 2 ^ 63 := by decide +kernel
    rw [e] at h1 h2 ⊢
    simp only [chunkStep, chunkShift, show (2:Nat) ≠ 10 by decide, show (2:Nat) ≠ 16 by decide, ite_false, ite_true, true_or]
    rw [cBin_shl_wide h X 63 (by decide) h1]; simp only [Res.bind_ok]
    rw [IntTy.wrap_id hb h1, cBin_add_wide h _ c h1 hc h2]; simp only [Res.bind_ok]
    rw [IntTy.wrap_id hb h2]

theorem foldFrom_lt_pow {base stride : Nat} (hs : StrideOK base stride) (ds : List Nat) (hd : ∀ d ∈ ds, d < base)
    (hl : ds.length ≤ stride) : foldFrom base 0 ds < 2 ^ 63 := by
  have h1 := foldFrom_lt base ds hd 0
  have hb := strideOK_base hs
  have h2 : base ^ ds.length ≤ base ^ stride :=
    Nat.pow_le_pow_right (by rcases hb with rfl | rfl | rfl | rfl <;> decide) hl
  have := strideOK_fits hs
  omega

/-- Horner over the chunk list, signed built-in result: exact whenever the final value is in range -/
theorem parseChunks_builtin {base stride : Nat} (hs : StrideOK base stride) {t : IntTy} (ht : SignedWide t) (neg : Bool) :
    ∀ (k : Nat) (cs : List Char) (A : Nat) (ds : List Nat) (rest : List Char),
      readDigits base cs (k * stride) = .ok (ds, rest) → (∀ d ∈ ds, d < base) →
      t.InRange (sg neg (foldFrom base A ds)) →
      parseChunks (.builtin t) neg base stride k cs (sg neg A) = .ok (sg neg (foldFrom base A ds)) := by
  have hb1 : 1 ≤ base := by rcases strideOK_base hs with rfl | rfl | rfl | rfl <;> decide
  intro k
  induction k with
  | zero =>
    intro cs A ds rest h _ _
    rw [Nat.zero_mul, readDigits_zero] at h
    injection h with h; injection h with h1 _
    subst h1; rfl
  | succ k ih =>
    intro cs A ds rest h hd hfin
    have e : (k + 1) * stride = stride + k * stride := by rw [Nat.succ_mul, Nat.add_comm]
    rw [e] at h
    obtain ⟨ds1, ds2, mid, h1, h2, h3, h4⟩ := readDigits_split base cs stride (k * stride) ds rest h
    subst h3
    have hd1 : ∀ d ∈ ds1, d < base := fun d hx => hd d (List.mem_append_left _ hx)
    have hd2 : ∀ d ∈ ds2, d < base := fun d hx => hd d (List.mem_append_right _ hx)
    rw [foldFrom_append] at hfin
    have hmono := foldFrom_mono base ds2 hb1 (foldFrom base A ds1)
    have hstep : foldFrom base A ds1 = A * base ^ stride + foldFrom base 0 ds1 := by
      rw [foldFrom_eq base ds1 A, h4]
    have hA : A ≤ foldFrom base A ds1 := foldFrom_mono base ds1 hb1 A
    unfold parseChunks
    rw [parseInt64_chunk hs neg cs stride ds1 mid h1 hd1 (by omega)]
    simp only [Res.bind_ok]
    have hc : i64.InRange (sg neg (foldFrom base 0 ds1)) :=
      inRange_sg neg _ (foldFrom_lt_pow hs ds1 hd1 (by omega))
    have e1 : sg neg A * ((base ^ stride : Nat) : Int) = sg neg (A * base ^ stride) := sg_mul neg A _
    have e2 : sg neg A * ((base ^ stride : Nat) : Int) + sg neg (foldFrom base 0 ds1) = sg neg (foldFrom base A ds1) := by
      rw [e1, sg_add, hstep]
    rw [chunkStep_builtin hs ht (sg neg A) _ (inRange_sg_le ht neg hfin (by omega)) hc
      (by rw [e1]; exact inRange_sg_le ht neg hfin (by omega))
      (by rw [e2]; exact inRange_sg_le ht neg hfin hmono)]
    simp only [Res.bind_ok]
    rw [e2, foldFrom_append]
    exact ih mid (foldFrom base A ds1) ds2 rest h2 hd2 hfin

/-- `parse_string` into a signed built-in result: the token's value, whenever the type holds it -/
theorem parseString_builtin {base stride : Nat} (hs : StrideOK base stride) {t : IntTy} (ht : SignedWide t) (neg : Bool)
    (cs : List Char) (n : Nat) (ds : List Nat) (rest : List Char)
    (h : readDigits base cs n = .ok (ds, rest)) (hd : ∀ d ∈ ds, d < base)
    (hfit : t.InRange (sg neg (positional base ds))) :
    parseString (.builtin t) cs n neg base stride = .ok (sg neg (positional base ds)) := by
  have hpos := strideOK_pos hs
  have hb : 1 ≤ t.bits := by have := ht.2; omega
  have hb1 : 1 ≤ base := by rcases strideOK_base hs with rfl | rfl | rfl | rfl <;> decide
  have e : n = n % stride + (n / stride) * stride := by
    have := Nat.mod_add_div n stride; rw [Nat.mul_comm] at this; omega
  rw [e] at h
  obtain ⟨ds1, ds2, mid, h1, h2, h3, h4⟩ := readDigits_split base cs _ _ ds rest h
  subst h3
  have hd1 : ∀ d ∈ ds1, d < base := fun d hx => hd d (List.mem_append_left _ hx)
  have hd2 : ∀ d ∈ ds2, d < base := fun d hx => hd d (List.mem_append_right _ hx)
  have hlt : n % stride < stride := Nat.mod_lt _ hpos
  rw [positional_eq, foldFrom_append] at hfit ⊢
  unfold parseString
  rw [Nat.add_mod_right, parseInt64_chunk hs neg cs _ ds1 mid h1 hd1 (by omega)]
  simp only [Res.bind_ok, Storage.ofInt64]
  have hc : i64.InRange (sg neg (foldFrom base 0 ds1)) := inRange_sg neg _ (foldFrom_lt_pow hs ds1 hd1 (by omega))
  rw [IntTy.wrap_id hb (inRange_of_i64 ht hc)]
  exact parseChunks_builtin hs ht neg (n / stride) mid (foldFrom base 0 ds1) ds2 rest h2 hd2 hfit


theorem digitValue_range {base : Nat} {c : Char} {d : Nat} (h : digitValue base c = some d) :
    d < base ∧ ((48 ≤ c.toNat ∧ c.toNat ≤ 57 ∧ d = c.toNat - 48) ∨ (97 ≤ c.toNat ∧ c.toNat ≤ 102 ∧ d = c.toNat - 87) ∨
      (65 ≤ c.toNat ∧ c.toNat ≤ 70 ∧ d = c.toNat - 55)) := by
  unfold digitValue at h
  generalize c.toNat = n at h ⊢
  by_cases h1 : 48 ≤ n ∧ n ≤ 57
  · simp only [h1, and_self, ite_true] at h
    by_cases hb : n - 48 < base
    · simp only [hb, ite_true, Option.some.injEq] at h; subst h; exact ⟨hb, Or.inl ⟨h1.1, h1.2, rfl⟩⟩
    · simp [hb] at h
  · simp only [h1, ite_false] at h
    by_cases h2 : 97 ≤ n ∧ n ≤ 102
    · simp only [h2, and_self, ite_true] at h
      by_cases hb : n - 87 < base
      · simp only [hb, ite_true, Option.some.injEq] at h; subst h; exact ⟨hb, Or.inr (Or.inl ⟨h2.1, h2.2, rfl⟩)⟩
      · simp [hb] at h
    · simp only [h2, ite_false] at h
      by_cases h3 : 65 ≤ n ∧ n ≤ 70
      · simp only [h3, and_self, ite_true] at h
        by_cases hb : n - 55 < base
        · simp only [hb, ite_true, Option.some.injEq] at h; subst h; exact ⟨hb, Or.inr (Or.inr ⟨h3.1, h3.2, rfl⟩)⟩
        · simp [hb] at h
      · simp [h3] at h

theorem inRangeC_iff (c lo hi : Char) : inRangeC c lo hi = true ↔ lo.toNat ≤ c.toNat ∧ c.toNat ≤ hi.toNat := by
  simp [inRangeC]

/-- a digit of the grammar is a digit of the code's table with the same value, and is neither a
separator nor the radix point -/
theorem digitValue_digitPos {base : Nat} (hb : base = 2 ∨ base = 8 ∨ base = 10 ∨ base = 16) {c : Char} {d : Nat}
    (h : digitValue base c = some d) : digitPos base c = some d := by
  obtain ⟨hlt, hr⟩ := digitValue_range h
  have e0 : '0'.toNat = 48 := rfl
  have e1 : '1'.toNat = 49 := rfl
  have e7 : '7'.toNat = 55 := rfl
  have e9 : '9'.toNat = 57 := rfl
  have ea : 'a'.toNat = 97 := rfl
  have ez : 'z'.toNat = 122 := rfl
  have eA : 'A'.toNat = 65 := rfl
  have eZ : 'Z'.toNat = 90 := rfl
  rcases hb with rfl | rfl | rfl | rfl
  · have : inRangeC c '0' '1' = true := by rw [inRangeC_iff, e0, e1]; omega
    simp only [digitPos, this, ite_true]; congr 1; omega
  · have : inRangeC c '0' '7' = true := by rw [inRangeC_iff, e0, e7]; omega
    simp only [digitPos, this, ite_true, show (8:Nat) ≠ 2 by decide, ite_false]; congr 1; omega
  · have : inRangeC c '0' '9' = true := by rw [inRangeC_iff, e0, e9]; omega
    simp only [digitPos, this, ite_true, show (10:Nat) ≠ 2 by decide, show (10:Nat) ≠ 8 by decide, ite_false]; congr 1; omega
  · simp only [digitPos, show (16:Nat) ≠ 2 by decide, show (16:Nat) ≠ 8 by decide, show (16:Nat) ≠ 10 by decide, ite_false, ite_true]
    rcases hr with ⟨a, b, rfl⟩ | ⟨a, b, rfl⟩ | ⟨a, b, rfl⟩
    · have : inRangeC c '0' '9' = true := by rw [inRangeC_iff, e0, e9]; omega
      simp only [this, ite_true]
    · have h1 : ¬ inRangeC c '0' '9' = true := by rw [inRangeC_iff, e0, e9]; omega
      have h2 : inRangeC c 'a' 'z' = true := by rw [inRangeC_iff, ea, ez]; omega
      simp [h1, h2]
    · have h1 : ¬ inRangeC c '0' '9' = true := by rw [inRangeC_iff, e0, e9]; omega
      have h2 : ¬ inRangeC c 'a' 'z' = true := by rw [inRangeC_iff, ea, ez]; omega
      have h3 : inRangeC c 'A' 'Z' = true := by rw [inRangeC_iff, eA, eZ]; omega
      simp [h1, h2, h3]

theorem digitValue_toNat_ge {base : Nat} {c : Char} {d : Nat} (h : digitValue base c = some d) : 48 ≤ c.toNat := by
  obtain ⟨_, hr⟩ := digitValue_range h
  omega

theorem digitValue_ne {base : Nat} {c : Char} {d : Nat} (h : digitValue base c = some d) (x : Char) (hx : x.toNat < 48) : c ≠ x := by
  intro e; subst e; have := digitValue_toNat_ge h; omega

theorem digitValue_not_skip {base : Nat} {c : Char} {d : Nat} (h : digitValue base c = some d) :
    (c == separator || c == radixChar) = false := by
  have h1 := digitValue_ne h separator (by decide)
  have h2 := digitValue_ne h radixChar (by decide)
  simp [h1, h2]


/-! ## the digit-sequence grammar as an inductive relation -/

/-- `digit ('? digit)*`: characters and the digit values they denote -/
inductive DS (base : Nat) : List Char → List Nat → Prop
  | one {c d} : digitValue base c = some d → DS base [c] [d]
  | sep {c d rest ds} : digitValue base c = some d → DS base rest ds → DS base (c :: '\'' :: rest) (d :: ds)
  | cons {c d rest ds} : digitValue base c = some d → DS base rest ds → DS base (c :: rest) (d :: ds)

theorem digitSeq_DS (base : Nat) (r : List Char) : ∀ ds, digitSeq base r = some ds → DS base r ds := by
  refine digitSeq.induct_unfolding base (fun r o => ∀ ds, o = some ds → DS base r ds) ?_ ?_ ?_ ?_ ?_ ?_ r
  · intro ds h; cases h
  · intro c ds h
    cases hd : digitValue base c with
    | none => simp [hd] at h
    | some d => simp [hd] at h; subst h; exact DS.one hd
  · intro c rest d ds hr hc ih ds' h
    injection h with h; subst h
    exact DS.sep hc (ih ds hr)
  · intro c rest _ _ ds h; cases h
  · intro c rest _ _ d ds hr hc ih ds' h
    injection h with h; subst h
    exact DS.cons hc (ih ds hr)
  · intro c rest _ _ _ _ ds h; cases h

theorem DS_head {base : Nat} {r : List Char} {ds : List Nat} (h : DS base r ds) :
    ∃ c r' d0 ds', r = c :: r' ∧ ds = d0 :: ds' ∧ digitValue base c = some d0 := by
  cases h with
  | one hc => exact ⟨_, _, _, _, rfl, rfl, hc⟩
  | sep hc _ => exact ⟨_, _, _, _, rfl, rfl, hc⟩
  | cons hc _ => exact ⟨_, _, _, _, rfl, rfl, hc⟩

theorem DS_last {base : Nat} {r : List Char} {ds : List Nat} (h : DS base r ds) :
    ∃ r' x d, r = r' ++ [x] ∧ digitValue base x = some d := by
  induction h with
  | one hc => exact ⟨[], _, _, rfl, hc⟩
  | sep hc _ ih => obtain ⟨r', x, d, e, hx⟩ := ih; exact ⟨_ :: '\'' :: r', x, d, by rw [e]; rfl, hx⟩
  | cons hc _ ih => obtain ⟨r', x, d, e, hx⟩ := ih; exact ⟨_ :: r', x, d, by rw [e]; rfl, hx⟩

theorem DS_noRadix {base : Nat} {r : List Char} {ds : List Nat} (h : DS base r ds) : radixChar ∉ r := by
  induction h with
  | one hc => have := digitValue_ne hc radixChar (by decide); simp [this.symm]
  | sep hc _ ih =>
    have := digitValue_ne hc radixChar (by decide)
    simp only [List.mem_cons, not_or]
    exact ⟨this.symm, by decide, ih⟩
  | cons hc _ ih =>
    have := digitValue_ne hc radixChar (by decide)
    simp only [List.mem_cons, not_or]
    exact ⟨this.symm, ih⟩

theorem DS_length {base : Nat} {r : List Char} {ds : List Nat} (h : DS base r ds) :
    r.length = ds.length + r.count separator := by
  induction h with
  | one hc => have := digitValue_ne hc '\'' (by decide); simp [this, separator]
  | sep hc _ ih =>
    have := digitValue_ne hc '\'' (by decide)
    simp [this, separator] at ih ⊢; omega
  | cons hc _ ih =>
    have := digitValue_ne hc '\'' (by decide)
    simp [this, separator] at ih ⊢; omega

theorem DS_lt {base : Nat} {r : List Char} {ds : List Nat} (h : DS base r ds) : ∀ d ∈ ds, d < base := by
  induction h with
  | one hc => intro d hd; simp at hd; subst hd; exact (digitValue_range hc).1
  | sep hc _ ih =>
    intro d hd; simp only [List.mem_cons] at hd
    rcases hd with rfl | hd
    · exact (digitValue_range hc).1
    · exact ih d hd
  | cons hc _ ih =>
    intro d hd; simp only [List.mem_cons] at hd
    rcases hd with rfl | hd
    · exact (digitValue_range hc).1
    · exact ih d hd

theorem readDigits_digit {base : Nat} (hb : base = 2 ∨ base = 8 ∨ base = 10 ∨ base = 16) {c : Char} {d : Nat}
    (hc : digitValue base c = some d) (cs : List Char) (n : Nat) :
    readDigits base (c :: cs) (n + 1) = readDigits base cs n >>= fun r => .ok (d :: r.1, r.2) := by
  simp only [readDigits, digitValue_not_skip hc, digitValue_digitPos hb hc]
  rfl

theorem readDigits_sep (base : Nat) (cs : List Char) (n : Nat) :
    readDigits base ('\'' :: cs) (n + 1) = readDigits base cs (n + 1) := by
  simp [readDigits, separator]

theorem readDigits_radix (base : Nat) (cs : List Char) (n : Nat) :
    readDigits base ('.' :: cs) (n + 1) = readDigits base cs (n + 1) := by
  simp [readDigits, separator, radixChar]

/-- reading as many digits as the sequence has consumes exactly the sequence -/
theorem DS_read {base : Nat} (hb : base = 2 ∨ base = 8 ∨ base = 10 ∨ base = 16) {r : List Char} {ds : List Nat}
    (h : DS base r ds) : ∀ tail, readDigits base (r ++ tail) ds.length = .ok (ds, tail) := by
  induction h with
  | one hc =>
    intro tail
    show readDigits base (_ :: tail) (0 + 1) = _
    rw [readDigits_digit hb hc, readDigits_zero]; rfl
  | @sep c d rest ds hc hr ih =>
    intro tail
    obtain ⟨_, _, d0, ds', _, e, _⟩ := DS_head hr
    show readDigits base (c :: '\'' :: (rest ++ tail)) (ds.length + 1) = _
    rw [readDigits_digit hb hc]
    have := ih tail
    rw [e] at this ⊢
    rw [List.length_cons, readDigits_sep]
    rw [List.length_cons] at this
    rw [this]; rfl
  | @cons c d rest ds hc hr ih =>
    intro tail
    show readDigits base (c :: (rest ++ tail)) (ds.length + 1) = _
    rw [readDigits_digit hb hc, ih tail]; rfl

/-! ## `scan_base`: the three quantities it derives from `[str, str+length)` -/

/-- `scan_base` after `has_radix`, `num_non_separators` and `num_fractional_digits` were computed -/
def scanCore (cs : List Char) (neg : Bool) (offset : Nat) (hasRadix : Bool) (numNonSep numFrac : Nat) : Res Params :=
  if (cs.getD offset '\x00' != '0' || hasRadix) || offset + 1 ≥ numNonSep then
    scanMsb cs neg 10 18 offset (decimalBits numNonSep) numNonSep numFrac
  else
    let c1 := cs.getD (offset + 1) '\x00'
    if c1 == 'B' || c1 == 'b' then
      scanMsb cs neg 2 63 (offset + 2) (numNonSep - 2) (numNonSep - 2) numFrac
    else if c1 == 'X' || c1 == 'x' then
      scanMsb cs neg 16 15 (offset + 2) ((numNonSep - 2) * 4) (numNonSep - 2) numFrac
    else
      scanMsb cs neg 8 21 (offset + 1) ((numNonSep - 1) * 3) (numNonSep - 1) numFrac

/-- `has_radix`, `num_non_separators`, `num_fractional_digits` of the searched range `body` -/
def scanBody (body : List Char) (length : Nat) : Bool × Nat × Nat :=
  let found := body.idxOf radixChar
  let hasRadix : Bool := found < body.length
  let post := body.drop (found + 1)
  let preSeps := (body.take found).count separator
  let postSeps := post.count separator
  (hasRadix, length - (preSeps + postSeps + (if hasRadix then 1 else 0)), post.length - postSeps)

theorem scanBase_eq (cs : List Char) (neg : Bool) (offset length : Nat) :
    scanBase cs neg offset length = scanCore cs neg offset (scanBody (cs.take (offset + length)) length).1
      (scanBody (cs.take (offset + length)) length).2.1 (scanBody (cs.take (offset + length)) length).2.2 := rfl

/-- a sign in front of the searched range changes none of the three quantities -/
theorem scanBody_sign (s : Char) (body : List Char) (length : Nat) (h1 : s ≠ radixChar) (h2 : s ≠ separator) :
    scanBody (s :: body) length = scanBody body length := by
  have hf : (s :: body).idxOf radixChar = body.idxOf radixChar + 1 := by
    rw [List.idxOf_cons]
    have : (s == radixChar) = false := by simp [h1]
    rw [this]; rfl
  unfold scanBody
  simp only [hf, List.length_cons, Nat.add_lt_add_iff_right, List.drop_succ_cons, List.take_succ_cons,
    List.count_cons_of_ne h2]

/-- no radix point in the searched range -/
theorem scanBody_noRadix (body : List Char) (length : Nat) (h : radixChar ∉ body) :
    scanBody body length = (false, length - body.count separator, 0) := by
  have hf : body.idxOf radixChar = body.length := List.idxOf_eq_length h
  have hd : body.drop (body.length + 1) = [] := List.drop_eq_nil_of_le (by omega)
  unfold scanBody
  simp [hf, hd]

/-- the searched range is `a . b` with no radix point in `a` -/
theorem scanBody_radix (length : Nat) (a b : List Char) (ha : radixChar ∉ a) :
    scanBody (a ++ radixChar :: b) length
      = (true, length - (a.count separator + b.count separator + 1), b.length - b.count separator) := by
  have hf : (a ++ radixChar :: b).idxOf radixChar = a.length := by
    rw [List.idxOf_append, if_neg ha, List.idxOf_cons_self]; omega
  unfold scanBody
  simp [hf]

/-! ## the token grammar, case by case -/

theorem splitAtPoint_some (cs : List Char) : ∀ ip fp, splitAtPoint cs = (ip, some fp) →
    cs = ip ++ radixChar :: fp ∧ radixChar ∉ ip := by
  refine splitAtPoint.induct_unfolding (fun cs o => ∀ ip fp, o = (ip, some fp) → cs = ip ++ radixChar :: fp ∧ radixChar ∉ ip) ?_ ?_ ?_ cs
  · intro ip fp h; cases h
  · intro rest ip fp h
    injection h with h1 h2; injection h2 with h2
    subst h1; subst h2; exact ⟨rfl, by simp⟩
  · intro c rest hne a b hab ih ip fp h
    injection h with h1 h2
    subst h1; subst h2
    obtain ⟨e, hn⟩ := ih a fp hab
    refine ⟨by rw [e]; rfl, ?_⟩
    simp only [List.mem_cons, not_or]
    exact ⟨fun h => hne h.symm, hn⟩

/-- an optional decimal digit sequence (either side of the radix point may be empty) -/
def OptDS (l : List Char) (a : List Nat) : Prop := (l = [] ∧ a = []) ∨ DS 10 l a

inductive Shape : List Char → Body → Prop
  | point {ip fp a b} : radixChar ∉ ip → OptDS ip a → OptDS fp b → (ip ≠ [] ∨ fp ≠ []) →
      Shape (ip ++ '.' :: fp) ⟨10, a ++ b, b.length, true⟩
  | hex {x rest ds} : (x = 'x' ∨ x = 'X') → DS 16 rest ds → Shape ('0' :: x :: rest) ⟨16, ds, 0, false⟩
  | bin {x rest ds} : (x = 'b' ∨ x = 'B') → DS 2 rest ds → Shape ('0' :: x :: rest) ⟨2, ds, 0, false⟩
  | zero : Shape ['0'] ⟨10, [0], 0, false⟩
  | octSep {rest ds} : DS 8 rest ds → Shape ('0' :: '\'' :: rest) ⟨8, ds, 0, false⟩
  | oct {rest ds} : DS 8 rest ds → Shape ('0' :: rest) ⟨8, ds, 0, false⟩
  | dec {c r ds} : c ≠ '0' → DS 10 (c :: r) ds → Shape (c :: r) ⟨10, ds, 0, false⟩

theorem optDS_of (l : List Char) (a : List Nat) (h : (if l.isEmpty then some [] else digitSeq 10 l) = some a) : OptDS l a := by
  cases l with
  | nil => simp at h; exact Or.inl ⟨rfl, h⟩
  | cons c l => simp at h; exact Or.inr (digitSeq_DS 10 _ _ h)

theorem map_some_inv {α β : Type} {f : α → β} {o : Option α} {b : β} (h : o.map f = some b) : ∃ a, o = some a ∧ b = f a := by
  cases o with
  | none => cases h
  | some a => exact ⟨a, rfl, by injection h with h; exact h.symm⟩

theorem body_shape (r : List Char) (b : Body) (h : body r = some b) : Shape r b := by
  unfold body at h
  split at h
  · rename_i ip fp hsp
    obtain ⟨e, hn⟩ := splitAtPoint_some r ip fp hsp
    by_cases hemp : ip.isEmpty = true ∧ fp.isEmpty = true
    · simp only [hemp, and_self, ite_true] at h; cases h
    · simp only [hemp, ite_false] at h
      split at h
      · rename_i a bb ha hb
        injection h with h; subst h; subst e
        refine Shape.point hn (optDS_of _ _ ha) (optDS_of _ _ hb) ?_
        simp only [List.isEmpty_iff] at hemp
        by_cases h1 : ip = []
        · right; intro h2; exact hemp ⟨h1, h2⟩
        · left; exact h1
      · cases h
  · split at h
    · obtain ⟨ds, h1, rfl⟩ := map_some_inv h; exact Shape.hex (Or.inl rfl) (digitSeq_DS _ _ _ h1)
    · obtain ⟨ds, h1, rfl⟩ := map_some_inv h; exact Shape.hex (Or.inr rfl) (digitSeq_DS _ _ _ h1)
    · obtain ⟨ds, h1, rfl⟩ := map_some_inv h; exact Shape.bin (Or.inl rfl) (digitSeq_DS _ _ _ h1)
    · obtain ⟨ds, h1, rfl⟩ := map_some_inv h; exact Shape.bin (Or.inr rfl) (digitSeq_DS _ _ _ h1)
    · injection h with h; subst h; exact Shape.zero
    · obtain ⟨ds, h1, rfl⟩ := map_some_inv h; exact Shape.octSep (digitSeq_DS _ _ _ h1)
    · obtain ⟨ds, h1, rfl⟩ := map_some_inv h; exact Shape.oct (digitSeq_DS _ _ _ h1)
    · obtain ⟨ds, h1, rfl⟩ := map_some_inv h
      have hds := digitSeq_DS _ _ _ h1
      obtain ⟨c, r', d0, ds', e, _, _⟩ := DS_head hds
      subst e
      refine Shape.dec ?_ hds
      intro hc; subst hc
      have hx : ∀ (rest : List Char), '0' :: r' = '0' :: rest → False := by assumption
      exact hx r' rfl

/-! ## evaluating `scan_base` on each shape of token -/

theorem getD_of_drop {cs r : List Char} {offset : Nat} (h : cs.drop offset = r) (i : Nat) (d : Char) :
    cs.getD (offset + i) d = r.getD i d := by
  subst h
  simp [List.getD_eq_getElem?_getD, List.getElem?_drop]

theorem digitValue_not_skip' {base : Nat} {c : Char} {d : Nat} (h : digitValue base c = some d) :
    (c == radixChar || c == separator) = false := by
  have h1 := digitValue_ne h radixChar (by decide)
  have h2 := digitValue_ne h separator (by decide)
  simp [h1, h2]

theorem scanMsb_ok (cs : List Char) (neg : Bool) (base stride off mb nd F d0 : Nat)
    (h : digitPos base (cs.getD (off + (if cs.getD off '\x00' == radixChar || cs.getD off '\x00' == separator then 1 else 0)) '\x00') = some d0) :
    scanMsb cs neg base stride off mb nd F = .ok ⟨neg, base, stride, off, mb - (if d0 * 2 < base then 1 else 0), nd, F⟩ := by
  simp only [scanMsb, h]

/-- number of characters between the sign and the first numeral -/
def prefixLen (base : Nat) : Nat := if base = 16 ∨ base = 2 then 2 else if base = 8 then 1 else 0

def strideOf (base : Nat) : Nat := if base = 10 then 18 else if base = 16 then 15 else if base = 8 then 21 else 63

/-- what the scanner must report for a token body `b` found at `offset`, `F` being the reported
number of fractional digits -/
def expected (neg : Bool) (offset : Nat) (b : Body) (F : Nat) : Params :=
  ⟨neg, b.base, strideOf b.base, offset + prefixLen b.base,
   estimate b.base b.digits.length (b.digits.headD 0), b.digits.length, F⟩

theorem scanMsb_digit {base : Nat} (hb : base = 2 ∨ base = 8 ∨ base = 10 ∨ base = 16) (cs : List Char) (neg : Bool)
    (stride off mb nd F : Nat) {c : Char} {d0 : Nat} (hc : digitValue base c = some d0) (hget : cs.getD off '\x00' = c) :
    scanMsb cs neg base stride off mb nd F = .ok ⟨neg, base, stride, off, mb - (if d0 * 2 < base then 1 else 0), nd, F⟩ := by
  apply scanMsb_ok
  rw [hget, digitValue_not_skip' hc]
  simp only [Bool.false_eq_true, ite_false, Nat.add_zero, hget]
  exact digitValue_digitPos hb hc

/-- the first numeral is preceded by a digit separator (`0'17`): `scan_msb` looks one further -/
theorem scanMsb_sep {base : Nat} (hb : base = 2 ∨ base = 8 ∨ base = 10 ∨ base = 16) (cs : List Char) (neg : Bool)
    (stride off mb nd F : Nat) {c : Char} {d0 : Nat} (hc : digitValue base c = some d0)
    (hget0 : cs.getD off '\x00' = separator) (hget1 : cs.getD (off + 1) '\x00' = c) :
    scanMsb cs neg base stride off mb nd F = .ok ⟨neg, base, stride, off, mb - (if d0 * 2 < base then 1 else 0), nd, F⟩ := by
  apply scanMsb_ok
  rw [hget0]
  simp only [beq_self_eq_true, Bool.or_true, ite_true, hget1]
  exact digitValue_digitPos hb hc

theorem scanCore_hex {x : Char} (hx : x = 'x' ∨ x = 'X') {rest : List Char} {ds : List Nat} (hds : DS 16 rest ds)
    (cs : List Char) (neg : Bool) (offset F : Nat) (hcs : cs.drop offset = '0' :: x :: rest) (ho : offset ≤ 1) :
    scanCore cs neg offset false (ds.length + 2) F = .ok (expected neg offset ⟨16, ds, 0, false⟩ F) := by
  obtain ⟨c, r', d0, ds', e, eds, hc⟩ := DS_head hds
  have g0 : cs.getD offset '\x00' = '0' := by have := getD_of_drop hcs 0 '\x00'; simpa using this
  have g1 : cs.getD (offset + 1) '\x00' = x := by have := getD_of_drop hcs 1 '\x00'; simpa using this
  have g2 : cs.getD (offset + 2) '\x00' = c := by have := getD_of_drop hcs 2 '\x00'; rw [e] at this; simpa using this
  have hlen : 1 ≤ ds.length := by rw [eds]; simp
  have hcond : ¬ (offset + 1 ≥ ds.length + 2) := by omega
  have hB : (x == 'B' || x == 'b') = false := by rcases hx with rfl | rfl <;> decide
  have hX : (x == 'X' || x == 'x') = true := by rcases hx with rfl | rfl <;> decide
  unfold scanCore
  simp only [g0, g1, hcond, hB, hX, bne_self_eq_false, Bool.or_false, Bool.false_eq_true, decide_false, ite_false, ite_true,
    Nat.add_sub_cancel]
  rw [scanMsb_digit (Or.inr (Or.inr (Or.inr rfl))) cs neg 15 (offset + 2) _ _ F hc g2]
  simp [expected, strideOf, prefixLen, estimate, maxBits, eds]

theorem scanCore_bin {x : Char} (hx : x = 'b' ∨ x = 'B') {rest : List Char} {ds : List Nat} (hds : DS 2 rest ds)
    (cs : List Char) (neg : Bool) (offset F : Nat) (hcs : cs.drop offset = '0' :: x :: rest) (ho : offset ≤ 1) :
    scanCore cs neg offset false (ds.length + 2) F = .ok (expected neg offset ⟨2, ds, 0, false⟩ F) := by
  obtain ⟨c, r', d0, ds', e, eds, hc⟩ := DS_head hds
  have g0 : cs.getD offset '\x00' = '0' := by have := getD_of_drop hcs 0 '\x00'; simpa using this
  have g1 : cs.getD (offset + 1) '\x00' = x := by have := getD_of_drop hcs 1 '\x00'; simpa using this
  have g2 : cs.getD (offset + 2) '\x00' = c := by have := getD_of_drop hcs 2 '\x00'; rw [e] at this; simpa using this
  have hlen : 1 ≤ ds.length := by rw [eds]; simp
  have hcond : ¬ (offset + 1 ≥ ds.length + 2) := by omega
  have hB : (x == 'B' || x == 'b') = true := by rcases hx with rfl | rfl <;> decide
  unfold scanCore
  simp only [g0, g1, hcond, hB, bne_self_eq_false, Bool.or_false, Bool.false_eq_true, decide_false, ite_false, ite_true,
    Nat.add_sub_cancel]
  rw [scanMsb_digit (Or.inl rfl) cs neg 63 (offset + 2) _ _ F hc g2]
  simp [expected, strideOf, prefixLen, estimate, maxBits, eds]

theorem digitValue_oct_le {c : Char} {d : Nat} (h : digitValue 8 c = some d) : c.toNat ≤ 57 := by
  obtain ⟨h1, h2⟩ := digitValue_range h
  omega

theorem scanCore_oct {rest : List Char} {ds : List Nat} (hds : DS 8 rest ds)
    (cs : List Char) (neg : Bool) (offset F : Nat) (hcs : cs.drop offset = '0' :: rest) (ho : offset < ds.length) :
    scanCore cs neg offset false (ds.length + 1) F = .ok (expected neg offset ⟨8, ds, 0, false⟩ F) := by
  obtain ⟨c, r', d0, ds', e, eds, hc⟩ := DS_head hds
  have g0 : cs.getD offset '\x00' = '0' := by have := getD_of_drop hcs 0 '\x00'; simpa using this
  have g1 : cs.getD (offset + 1) '\x00' = c := by have := getD_of_drop hcs 1 '\x00'; rw [e] at this; simpa using this
  have hcond : ¬ (offset + 1 ≥ ds.length + 1) := by omega
  have hle := digitValue_oct_le hc
  have hne : ∀ y : Char, 57 < y.toNat → (c == y) = false := by
    intro y hy; simp only [beq_eq_false_iff_ne, ne_eq]; intro e; subst e; omega
  have hB : (c == 'B' || c == 'b') = false := by rw [hne 'B' (by decide), hne 'b' (by decide)]; rfl
  have hX : (c == 'X' || c == 'x') = false := by rw [hne 'X' (by decide), hne 'x' (by decide)]; rfl
  unfold scanCore
  simp only [g0, g1, hcond, hB, hX, bne_self_eq_false, Bool.or_false, Bool.false_eq_true, decide_false, ite_false,
    Nat.add_sub_cancel]
  rw [scanMsb_digit (Or.inr (Or.inl rfl)) cs neg 21 (offset + 1) _ _ F hc g1]
  simp [expected, strideOf, prefixLen, estimate, maxBits, eds]

/-- `0'17`: a separator directly after the octal prefix -/
theorem scanCore_octSep {rest : List Char} {ds : List Nat} (hds : DS 8 rest ds)
    (cs : List Char) (neg : Bool) (offset F : Nat) (hcs : cs.drop offset = '0' :: '\'' :: rest) (ho : offset < ds.length) :
    scanCore cs neg offset false (ds.length + 1) F = .ok (expected neg offset ⟨8, ds, 0, false⟩ F) := by
  obtain ⟨c, r', d0, ds', e, eds, hc⟩ := DS_head hds
  have g0 : cs.getD offset '\x00' = '0' := by have := getD_of_drop hcs 0 '\x00'; simpa using this
  have g1 : cs.getD (offset + 1) '\x00' = '\'' := by have := getD_of_drop hcs 1 '\x00'; simpa using this
  have g2 : cs.getD (offset + 1 + 1) '\x00' = c := by have := getD_of_drop hcs 2 '\x00'; rw [e] at this; simpa using this
  have hcond : ¬ (offset + 1 ≥ ds.length + 1) := by omega
  have hB : ('\'' == 'B' || '\'' == 'b') = false := by decide
  have hX : ('\'' == 'X' || '\'' == 'x') = false := by decide
  unfold scanCore
  simp only [g0, g1, hcond, hB, hX, bne_self_eq_false, Bool.or_false, Bool.false_eq_true, decide_false, ite_false,
    Nat.add_sub_cancel]
  rw [scanMsb_sep (Or.inr (Or.inl rfl)) cs neg 21 (offset + 1) _ _ F hc g1 g2]
  simp [expected, strideOf, prefixLen, estimate, maxBits, eds]

/-- the decimal branch of `scan_base` -/
theorem scanCore_decimal (cs : List Char) (neg : Bool) (offset : Nat) (H : Bool) (N F d0 : Nat)
    (hcond : ((cs.getD offset '\x00' != '0' || H) || decide (offset + 1 ≥ N)) = true)
    (hd : digitPos 10 (cs.getD (offset + (if cs.getD offset '\x00' == radixChar || cs.getD offset '\x00' == separator then 1 else 0)) '\x00') = some d0) :
    scanCore cs neg offset H N F
      = .ok ⟨neg, 10, 18, offset, decimalBits N - (if d0 * 2 < 10 then 1 else 0), N, F⟩ := by
  unfold scanCore
  rw [if_pos hcond]
  exact scanMsb_ok cs neg 10 18 offset _ N F d0 hd

theorem scanCore_dec {c : Char} {r : List Char} {ds : List Nat} (hc0 : c ≠ '0') (hds : DS 10 (c :: r) ds)
    (cs : List Char) (neg : Bool) (offset F : Nat) (hcs : cs.drop offset = c :: r) :
    scanCore cs neg offset false ds.length F = .ok (expected neg offset ⟨10, ds, 0, false⟩ F) := by
  obtain ⟨c', r', d0, ds', e, eds, hc⟩ := DS_head hds
  injection e with e1 e2; subst e1; subst e2
  have g0 : cs.getD offset '\x00' = c := by have := getD_of_drop hcs 0 '\x00'; simpa using this
  rw [scanCore_decimal cs neg offset false ds.length F d0 (by rw [g0]; simp [hc0])
    (by rw [g0, digitValue_not_skip' hc]; simp only [Bool.false_eq_true, ite_false, Nat.add_zero, g0]; exact digitValue_digitPos (Or.inr (Or.inr (Or.inl rfl))) hc)]
  simp [expected, strideOf, prefixLen, estimate, maxBits, eds]

theorem scanCore_zero (cs : List Char) (neg : Bool) (offset F : Nat) (hcs : cs.drop offset = ['0']) :
    scanCore cs neg offset false 1 F = .ok (expected neg offset ⟨10, [0], 0, false⟩ F) := by
  have g0 : cs.getD offset '\x00' = '0' := by have := getD_of_drop hcs 0 '\x00'; simpa using this
  rw [scanCore_decimal cs neg offset false 1 F 0 (by simp)
    (by have h0 : ('0' == radixChar || '0' == separator) = false := by decide
        rw [g0, h0]; simp only [Bool.false_eq_true, ite_false, Nat.add_zero, g0]; decide)]
  simp [expected, strideOf, prefixLen, estimate, maxBits]

theorem scanCore_point {ip fp : List Char} {a b : List Nat} (ha : OptDS ip a) (hb : OptDS fp b) (hne : ip ≠ [] ∨ fp ≠ [])
    (cs : List Char) (neg : Bool) (offset F : Nat) (hcs : cs.drop offset = ip ++ '.' :: fp) :
    scanCore cs neg offset true (a.length + b.length) F = .ok (expected neg offset ⟨10, a ++ b, b.length, true⟩ F) := by
  rcases ha with ⟨rfl, rfl⟩ | ha
  · -- `.digits`
    rcases hb with ⟨rfl, rfl⟩ | hb
    · simp at hne
    · obtain ⟨c, r', d0, ds', e, eds, hc⟩ := DS_head hb
      subst e
      have g0 : cs.getD offset '\x00' = '.' := by have := getD_of_drop hcs 0 '\x00'; simpa using this
      have g1 : cs.getD (offset + 1) '\x00' = c := by have := getD_of_drop hcs 1 '\x00'; simpa using this
      rw [scanCore_decimal cs neg offset true _ F d0 (by simp)
        (by rw [g0]; simp only [radixChar, beq_self_eq_true, Bool.true_or, ite_true, g1]; exact digitValue_digitPos (Or.inr (Or.inr (Or.inl rfl))) hc)]
      simp [expected, strideOf, prefixLen, estimate, maxBits, eds]
  · obtain ⟨c, r', d0, ds', e, eds, hc⟩ := DS_head ha
    subst e
    have g0 : cs.getD offset '\x00' = c := by have := getD_of_drop hcs 0 '\x00'; simpa using this
    rw [scanCore_decimal cs neg offset true _ F d0 (by simp)
      (by rw [g0, digitValue_not_skip' hc]; simp only [Bool.false_eq_true, ite_false, Nat.add_zero, g0]; exact digitValue_digitPos (Or.inr (Or.inr (Or.inl rfl))) hc)]
    have e3 : ds'.length + 1 + b.length = ds'.length + b.length + 1 := by omega
    simp [expected, strideOf, prefixLen, estimate, maxBits, eds, e3]

/-! ## counting: `num_non_separators` is the number of digits plus the base prefix -/

/-- a run of `n` non-separator characters and some separators, no radix point, not ending in a separator -/
structure Plain (r : List Char) (n : Nat) : Prop where
  noRadix : radixChar ∉ r
  len : r.length = n + r.count separator
  last : ∃ r' x, r = r' ++ [x] ∧ x ≠ separator

theorem DS_plain {base : Nat} {r : List Char} {ds : List Nat} (h : DS base r ds) : Plain r ds.length := by
  obtain ⟨r', x, d, e, hx⟩ := DS_last h
  exact ⟨DS_noRadix h, DS_length h, r', x, e, digitValue_ne hx separator (by decide)⟩

theorem Plain.cons {r : List Char} {n : Nat} (h : Plain r n) (c : Char) (h1 : c ≠ radixChar) (h2 : c ≠ separator) :
    Plain (c :: r) (n + 1) := by
  obtain ⟨hn, hl, r', x, e, hx⟩ := h
  refine ⟨?_, ?_, c :: r', x, by rw [e]; rfl, hx⟩
  · simp only [List.mem_cons, not_or]; exact ⟨h1.symm, hn⟩
  · rw [List.length_cons, List.count_cons_of_ne h2, hl]; omega

theorem Plain.consSep {r : List Char} {n : Nat} (h : Plain r n) : Plain ('\'' :: r) n := by
  obtain ⟨hn, hl, r', x, e, hx⟩ := h
  refine ⟨?_, ?_, '\'' :: r', x, by rw [e]; rfl, hx⟩
  · simp only [List.mem_cons, not_or]; exact ⟨by decide, hn⟩
  · show ('\'' :: r).length = n + (separator :: r).count separator
    rw [List.length_cons, List.count_cons_self, hl]; omega

theorem plain_zero : Plain ['0'] 1 := ⟨by decide, by decide, [], '0', rfl, by decide⟩

theorem take_signed (s : Char) (r : List Char) : (s :: r).take (1 + r.length) = s :: r := by
  rw [Nat.add_comm, List.take_succ_cons, List.take_length]

theorem Plain.unsigned {r : List Char} {n : Nat} (h : Plain r n) : scanBody (r.take r.length) r.length = (false, n, 0) := by
  rw [List.take_length, scanBody_noRadix _ _ h.noRadix, h.len]
  simp

theorem Plain.signed {r : List Char} {n : Nat} (h : Plain r n) (s : Char) (h1 : s ≠ radixChar) (h2 : s ≠ separator) :
    scanBody ((s :: r).take (1 + r.length)) r.length = (false, n, 0) := by
  rw [take_signed, scanBody_sign s r _ h1 h2]
  have := h.unsigned
  rwa [List.take_length] at this

theorem OptDS.length_eq {l : List Char} {a : List Nat} (h : OptDS l a) : l.length = a.length + l.count separator := by
  rcases h with ⟨rfl, rfl⟩ | h
  · rfl
  · exact DS_length h

theorem OptDS.noRadix {l : List Char} {a : List Nat} (h : OptDS l a) : radixChar ∉ l := by
  rcases h with ⟨rfl, rfl⟩ | h
  · simp
  · exact DS_noRadix h

theorem point_unsigned {ip fp : List Char} {a b : List Nat} (ha : OptDS ip a) (hb : OptDS fp b) :
    scanBody ((ip ++ '.' :: fp).take (ip ++ '.' :: fp).length) (ip ++ '.' :: fp).length
      = (true, a.length + b.length, b.length) := by
  rw [List.take_length]
  show scanBody (ip ++ radixChar :: fp) _ = _
  rw [scanBody_radix _ ip fp ha.noRadix, List.length_append, List.length_cons, ha.length_eq, hb.length_eq]
  congr 2 <;> omega

theorem point_signed {ip fp : List Char} {a b : List Nat} (ha : OptDS ip a) (hb : OptDS fp b) (s : Char)
    (h1 : s ≠ radixChar) (h2 : s ≠ separator) :
    scanBody ((s :: (ip ++ '.' :: fp)).take (1 + (ip ++ '.' :: fp).length)) (ip ++ '.' :: fp).length
      = (true, a.length + b.length, b.length) := by
  rw [take_signed, scanBody_sign s _ _ h1 h2]
  have := point_unsigned ha hb
  rwa [List.take_length] at this

/-! ## `scan_base` on a well-formed token body -/

theorem scanBase_of_body (cs : List Char) (neg : Bool) (offset length : Nat) (H : Bool) (N F : Nat)
    (h : scanBody (cs.take (offset + length)) length = (H, N, F)) : scanBase cs neg offset length = scanCore cs neg offset H N F := by
  rw [scanBase_eq, h]

theorem DS_pos {base : Nat} {r : List Char} {ds : List Nat} (h : DS base r ds) : 1 ≤ ds.length := by
  obtain ⟨_, _, _, _, _, e, _⟩ := DS_head h
  rw [e]; simp

theorem hexch_ne {x : Char} (hx : x = 'x' ∨ x = 'X') : x ≠ radixChar ∧ x ≠ separator := by
  rcases hx with rfl | rfl <;> decide

theorem binch_ne {x : Char} (hx : x = 'b' ∨ x = 'B') : x ≠ radixChar ∧ x ≠ separator := by
  rcases hx with rfl | rfl <;> decide

/-- an unsigned token body: `scan_base(str, neg, 0, length)` -/
theorem scanBase_unsigned {r : List Char} {b : Body} (hs : Shape r b) (neg : Bool) :
    scanBase r neg 0 r.length = .ok (expected neg 0 b b.frac) := by
  have unsigned' : ∀ {r : List Char} {n : Nat}, Plain r n → scanBody (r.take (0 + r.length)) r.length = (false, n, 0) := by
    intro r n h; rw [Nat.zero_add]; exact h.unsigned
  have point' : ∀ {ip fp : List Char} {a b : List Nat}, OptDS ip a → OptDS fp b →
      scanBody ((ip ++ '.' :: fp).take (0 + (ip ++ '.' :: fp).length)) (ip ++ '.' :: fp).length = (true, a.length + b.length, b.length) := by
    intro ip fp a b ha hb; rw [Nat.zero_add]; exact point_unsigned ha hb
  cases hs with
  | point hn ha hb hne =>
    rw [scanBase_of_body _ _ _ _ _ _ _ (point' ha hb)]
    exact scanCore_point ha hb hne _ neg 0 _ rfl
  | hex hx hds =>
    have hp := ((DS_plain hds).cons _ (hexch_ne hx).1 (hexch_ne hx).2).cons '0' (by decide) (by decide)
    rw [scanBase_of_body _ _ _ _ _ _ _ (unsigned' hp)]
    exact scanCore_hex hx hds _ neg 0 _ rfl (by omega)
  | bin hx hds =>
    have hp := ((DS_plain hds).cons _ (binch_ne hx).1 (binch_ne hx).2).cons '0' (by decide) (by decide)
    rw [scanBase_of_body _ _ _ _ _ _ _ (unsigned' hp)]
    exact scanCore_bin hx hds _ neg 0 _ rfl (by omega)
  | zero =>
    rw [scanBase_of_body _ _ _ _ _ _ _ (unsigned' plain_zero)]
    exact scanCore_zero _ neg 0 _ rfl
  | octSep hds =>
    have hp := ((DS_plain hds).consSep).cons '0' (by decide) (by decide)
    rw [scanBase_of_body _ _ _ _ _ _ _ (unsigned' hp)]
    exact scanCore_octSep hds _ neg 0 _ rfl (DS_pos hds)
  | oct hds =>
    have hp := (DS_plain hds).cons '0' (by decide) (by decide)
    rw [scanBase_of_body _ _ _ _ _ _ _ (unsigned' hp)]
    exact scanCore_oct hds _ neg 0 _ rfl (DS_pos hds)
  | dec hc0 hds =>
    rw [scanBase_of_body _ _ _ _ _ _ _ (unsigned' (DS_plain hds))]
    exact scanCore_dec hc0 hds _ neg 0 _ rfl

/-- a signed token body: `scan_base(str, neg, 1, length - 1)`, the searched range being the whole token -/
theorem scanBase_signed {r : List Char} {b : Body} (hs : Shape r b)
    (hoct : ¬ (b.base = 8 ∧ b.digits.length = 1))
    (s : Char) (h1 : s ≠ radixChar) (h2 : s ≠ separator) (neg : Bool) :
    scanBase (s :: r) neg 1 r.length = .ok (expected neg 1 b b.frac) := by
  cases hs with
  | point hn ha hb hne =>
    rw [scanBase_of_body _ _ _ _ _ _ _ (point_signed ha hb s h1 h2)]
    exact scanCore_point ha hb hne _ neg 1 _ rfl
  | hex hx hds =>
    have hp := ((DS_plain hds).cons _ (hexch_ne hx).1 (hexch_ne hx).2).cons '0' (by decide) (by decide)
    rw [scanBase_of_body _ _ _ _ _ _ _ (hp.signed s h1 h2)]
    exact scanCore_hex hx hds _ neg 1 _ rfl (by omega)
  | bin hx hds =>
    have hp := ((DS_plain hds).cons _ (binch_ne hx).1 (binch_ne hx).2).cons '0' (by decide) (by decide)
    rw [scanBase_of_body _ _ _ _ _ _ _ (hp.signed s h1 h2)]
    exact scanCore_bin hx hds _ neg 1 _ rfl (by omega)
  | zero =>
    rw [scanBase_of_body _ _ _ _ _ _ _ (plain_zero.signed s h1 h2)]
    exact scanCore_zero _ neg 1 _ rfl
  | octSep hds =>
    have hp := ((DS_plain hds).consSep).cons '0' (by decide) (by decide)
    rw [scanBase_of_body _ _ _ _ _ _ _ (hp.signed s h1 h2)]
    have := DS_pos hds
    exact scanCore_octSep hds _ neg 1 _ rfl (by simp at hoct; omega)
  | oct hds =>
    have hp := (DS_plain hds).cons '0' (by decide) (by decide)
    rw [scanBase_of_body _ _ _ _ _ _ _ (hp.signed s h1 h2)]
    have := DS_pos hds
    exact scanCore_oct hds _ neg 1 _ rfl (by simp at hoct; omega)
  | dec hc0 hds =>
    rw [scanBase_of_body _ _ _ _ _ _ _ ((DS_plain hds).signed s h1 h2)]
    exact scanCore_dec hc0 hds _ neg 1 _ rfl

/-! ## `scan_string` and the digits `parse_string` will read -/

theorem scanString_plus (r : List Char) : scanString ('+' :: r) = scanBase ('+' :: r) false 1 r.length := rfl
theorem scanString_minus (r : List Char) : scanString ('-' :: r) = scanBase ('-' :: r) true 1 r.length := rfl

theorem scanString_other (cs : List Char) (h1 : ∀ r, cs ≠ '+' :: r) (h2 : ∀ r, cs ≠ '-' :: r) :
    scanString cs = scanBase cs false 0 cs.length := by
  unfold scanString
  split
  · exact absurd rfl (h1 _)
  · exact absurd rfl (h2 _)
  · rfl

/-- the three ways a token is built from a body -/
theorem token_cases (cs : List Char) (t : Token) (h : token cs = some t) :
    (∃ r b, cs = '+' :: r ∧ body r = some b ∧ t = ⟨false, true, b⟩) ∨
    (∃ r b, cs = '-' :: r ∧ body r = some b ∧ t = ⟨true, true, b⟩) ∨
    ((∀ r, cs ≠ '+' :: r) ∧ (∀ r, cs ≠ '-' :: r) ∧ ∃ b, body cs = some b ∧ t = ⟨false, false, b⟩) := by
  unfold token at h
  split at h
  · obtain ⟨b, hb, rfl⟩ := map_some_inv h; exact Or.inl ⟨_, b, rfl, hb, rfl⟩
  · obtain ⟨b, hb, rfl⟩ := map_some_inv h; exact Or.inr (Or.inl ⟨_, b, rfl, hb, rfl⟩)
  · obtain ⟨b, hb, rfl⟩ := map_some_inv h
    refine Or.inr (Or.inr ⟨?_, ?_, b, hb, rfl⟩)
    · intro r e; subst e; rename_i h1 _; exact h1 r rfl
    · intro r e; subst e; rename_i _ h2; exact h2 r rfl

theorem DS_read_more {base : Nat} (hb : base = 2 ∨ base = 8 ∨ base = 10 ∨ base = 16) {r : List Char} {ds : List Nat}
    (h : DS base r ds) : ∀ (tail : List Char) (m : Nat),
      readDigits base (r ++ tail) (ds.length + m) = readDigits base tail m >>= fun q => .ok (ds ++ q.1, q.2) := by
  induction h with
  | @one c d hc =>
    intro tail m
    have e : [d].length + m = m + 1 := by simp [Nat.add_comm]
    rw [e]
    show readDigits base (c :: tail) (m + 1) = _
    rw [readDigits_digit hb hc]; rfl
  | @sep c d rest ds hc hr ih =>
    intro tail m
    obtain ⟨_, _, d0, ds', _, e, _⟩ := DS_head hr
    have e1 : (d :: ds).length + m = (ds'.length + m + 1) + 1 := by rw [e]; simp; omega
    have e2 : ds.length + m = ds'.length + m + 1 := by rw [e]; simp; omega
    rw [e1]
    show readDigits base (c :: '\'' :: (rest ++ tail)) (ds'.length + m + 1 + 1) = _
    rw [readDigits_digit hb hc, readDigits_sep, ← e2, ih tail m]
    cases readDigits base tail m <;> rfl
  | @cons c d rest ds hc hr ih =>
    intro tail m
    have e1 : (d :: ds).length + m = (ds.length + m) + 1 := by simp; omega
    rw [e1]
    show readDigits base (c :: (rest ++ tail)) (ds.length + m + 1) = _
    rw [readDigits_digit hb hc, ih tail m]
    cases readDigits base tail m <;> rfl

theorem DS_read_self {base : Nat} (hb : base = 2 ∨ base = 8 ∨ base = 10 ∨ base = 16) {r : List Char} {ds : List Nat}
    (h : DS base r ds) : readDigits base r ds.length = .ok (ds, []) := by
  have := DS_read hb h []
  rwa [List.append_nil] at this

theorem shape_base {r : List Char} {b : Body} (hs : Shape r b) : StrideOK b.base (strideOf b.base) := by
  cases hs <;> simp [StrideOK, strideOf]

theorem OptDS.lt {l : List Char} {a : List Nat} (h : OptDS l a) : ∀ d ∈ a, d < 10 := by
  rcases h with ⟨_, rfl⟩ | h
  · intro d hd; cases hd
  · exact DS_lt h

theorem shape_lt {r : List Char} {b : Body} (hs : Shape r b) : ∀ d ∈ b.digits, d < b.base := by
  cases hs with
  | point hn ha hb hne =>
    intro d hd
    rcases List.mem_append.mp hd with h | h
    · exact ha.lt d h
    · exact hb.lt d h
  | hex _ hds => exact DS_lt hds
  | bin _ hds => exact DS_lt hds
  | zero => intro d hd; simp at hd; subst hd; decide
  | octSep hds => exact DS_lt hds
  | oct hds => exact DS_lt hds
  | dec _ hds => exact DS_lt hds

/-- behind the first numeral stand exactly the digits of the grammar -/
theorem read_body {r : List Char} {b : Body} (hs : Shape r b) :
    ∃ rest, readDigits b.base (r.drop (prefixLen b.base)) b.digits.length = .ok (b.digits, rest) := by
  cases hs with
  | @point ip fp a bb hn ha hb hne =>
    show ∃ rest, readDigits 10 (ip ++ '.' :: fp) (a ++ bb).length = .ok (a ++ bb, rest)
    rw [List.length_append]
    have h10 : (10:Nat) = 2 ∨ (10:Nat) = 8 ∨ (10:Nat) = 10 ∨ (10:Nat) = 16 := Or.inr (Or.inr (Or.inl rfl))
    rcases hb with ⟨rfl, rfl⟩ | hb
    · rcases ha with ⟨rfl, _⟩ | ha
      · simp at hne
      · exact ⟨['.'], by simpa using DS_read h10 ha ['.']⟩
    · have hfp : readDigits 10 ('.' :: fp) bb.length = .ok (bb, []) := by
        obtain ⟨k, hk⟩ : ∃ k, bb.length = k + 1 := ⟨bb.length - 1, by have := DS_pos hb; omega⟩
        rw [hk, readDigits_radix, ← hk]; exact DS_read_self h10 hb
      rcases ha with ⟨rfl, rfl⟩ | ha
      · exact ⟨[], by simpa using hfp⟩
      · exact ⟨[], by rw [DS_read_more h10 ha, hfp]; rfl⟩
  | hex _ hds => exact ⟨[], DS_read_self (Or.inr (Or.inr (Or.inr rfl))) hds⟩
  | bin _ hds => exact ⟨[], DS_read_self (Or.inl rfl) hds⟩
  | zero => exact ⟨[], by decide⟩
  | @octSep rest ds hds =>
    obtain ⟨k, hk⟩ : ∃ k, ds.length = k + 1 := ⟨ds.length - 1, by have := DS_pos hds; omega⟩
    refine ⟨[], ?_⟩
    show readDigits 8 ('\'' :: rest) ds.length = _
    rw [hk, readDigits_sep, ← hk]; exact DS_read_self (Or.inr (Or.inl rfl)) hds
  | oct hds => exact ⟨[], DS_read_self (Or.inr (Or.inl rfl)) hds⟩
  | dec _ hds => exact ⟨[], DS_read_self (Or.inr (Or.inr (Or.inl rfl))) hds⟩

/-! ## the scanner/grammar link -/

/-- a signed one-digit octal token (`-07`, `-0'7`): `scan_base` reads it as the two-digit decimal `07`
(its test `offset + 1 >= num_non_separators` compares an index that includes the sign with a count
that does not) -/
def SignedOctalDigit (t : Token) : Prop := t.signed = true ∧ t.body.base = 8 ∧ t.body.digits.length = 1
instance (t : Token) : Decidable (SignedOctalDigit t) := by unfold SignedOctalDigit; exact inferInstance

/-- what `scan_string` must return for the token `t` -/
def expectedParams (t : Token) : Params :=
  expected t.negative (if t.signed then 1 else 0) t.body t.body.frac

/-- **the scanner finds what the grammar says**: for every well-formed token of any length other
than a signed one-digit octal one, `scan_string` returns sign, base, stride, first numeral, width
estimate, digit count and number of fractional digits of the grammar, and behind the first numeral
`parse_string` reads exactly the grammar's digits -/
theorem token_scanned (cs : List Char) (t : Token) (h : token cs = some t) (h2 : ¬ SignedOctalDigit t) :
    scanString cs = .ok (expectedParams t) ∧
    ∃ rest, readDigits t.body.base (cs.drop (expectedParams t).firstNumeral) t.body.digits.length
      = .ok (t.body.digits, rest) := by
  rcases token_cases cs t h with ⟨r, b, rfl, hb, rfl⟩ | ⟨r, b, rfl, hb, rfl⟩ | ⟨hp, hm, b, hb, rfl⟩
  · have hs := body_shape r b hb
    refine ⟨?_, ?_⟩
    · rw [scanString_plus]
      exact scanBase_signed hs (fun hh => h2 ⟨rfl, hh.1, hh.2⟩) '+' (by decide) (by decide) false
    · obtain ⟨rest, hr⟩ := read_body hs
      refine ⟨rest, ?_⟩
      show readDigits b.base (('+' :: r).drop (1 + prefixLen b.base)) _ = _
      rw [Nat.add_comm, List.drop_succ_cons]; exact hr
  · have hs := body_shape r b hb
    refine ⟨?_, ?_⟩
    · rw [scanString_minus]
      exact scanBase_signed hs (fun hh => h2 ⟨rfl, hh.1, hh.2⟩) '-' (by decide) (by decide) true
    · obtain ⟨rest, hr⟩ := read_body hs
      refine ⟨rest, ?_⟩
      show readDigits b.base (('-' :: r).drop (1 + prefixLen b.base)) _ = _
      rw [Nat.add_comm, List.drop_succ_cons]; exact hr
  · have hs := body_shape cs b hb
    refine ⟨?_, ?_⟩
    · rw [scanString_other cs hp hm]
      exact scanBase_unsigned hs false
    · obtain ⟨rest, hr⟩ := read_body hs
      refine ⟨rest, ?_⟩
      show readDigits b.base (cs.drop (0 + prefixLen b.base)) _ = _
      rw [Nat.zero_add]; exact hr

theorem token_stride (cs : List Char) (t : Token) (h : token cs = some t) :
    StrideOK t.body.base (strideOf t.body.base) ∧ ∀ d ∈ t.body.digits, d < t.body.base := by
  rcases token_cases cs t h with ⟨r, b, rfl, hb, rfl⟩ | ⟨r, b, rfl, hb, rfl⟩ | ⟨hp, hm, b, hb, rfl⟩
  · exact ⟨shape_base (body_shape r b hb), shape_lt (body_shape r b hb)⟩
  · exact ⟨shape_base (body_shape r b hb), shape_lt (body_shape r b hb)⟩
  · exact ⟨shape_base (body_shape cs b hb), shape_lt (body_shape cs b hb)⟩


/-! ## unsigned built-in results (`uint64`, `unsigned __int128`): arithmetic modulo `2^bits` -/

/-- an unsigned built-in type at least as wide as the `int64` chunks -/
def UnsignedWide (t : IntTy) : Prop := t.signed = false ∧ 64 ≤ t.bits

theorem wrap_eq_of_rel (t : IntTy) {a b : Int} (h : ∃ k : Int, a = b + k * 2 ^ t.bits) : t.wrap a = t.wrap b := by
  obtain ⟨k, h⟩ := h; exact wrap_congr t a b k h

theorem wrap_wrap (t : IntTy) (a : Int) : t.wrap (t.wrap a) = t.wrap a := by
  obtain ⟨k, h⟩ := wrap_rel t a
  exact wrap_congr t _ _ k h

theorem wrap_add_wrap (t : IntTy) (a b : Int) : t.wrap (t.wrap a + t.wrap b) = t.wrap (a + b) := by
  obtain ⟨k1, h1⟩ := wrap_rel t a
  obtain ⟨k2, h2⟩ := wrap_rel t b
  apply wrap_congr t _ _ (k1 + k2)
  rw [h1, h2, Int.add_mul]; omega

theorem wrap_mul_wrap (t : IntTy) (a b : Int) : t.wrap (t.wrap a * t.wrap b) = t.wrap (a * b) := by
  obtain ⟨k1, h1⟩ := wrap_rel t a
  obtain ⟨k2, h2⟩ := wrap_rel t b
  apply wrap_congr t _ _ (a * k2 + k1 * b + k1 * k2 * 2 ^ t.bits)
  rw [h1, h2]
  generalize (2:Int) ^ t.bits = M
  simp only [Int.add_mul, Int.mul_add, Int.mul_assoc]
  have e1 : k1 * (M * b) = k1 * (b * M) := by rw [Int.mul_comm M b]
  have e2 : k1 * (M * (k2 * M)) = k1 * (k2 * (M * M)) := by
    rw [← Int.mul_assoc M k2 M, Int.mul_comm M k2, Int.mul_assoc k2 M M]
  rw [e1, e2]; omega

theorem wrap_mul_left (t : IntTy) (a F c : Int) : t.wrap (t.wrap a * F + c) = t.wrap (a * F + c) := by
  obtain ⟨k1, h1⟩ := wrap_rel t a
  apply wrap_congr t _ _ (k1 * F)
  rw [h1, Int.add_mul, Int.mul_assoc k1, Int.mul_comm (2 ^ t.bits) F, ← Int.mul_assoc k1]
  omega

theorem usualArith_unsigned {t : IntTy} (h : UnsignedWide t) : usualArith t i64 = t := by
  obtain ⟨hs, hb⟩ := h
  have h1 : ¬ t.bits < 32 := by omega
  simp [usualArith, promote, h1, hs, i64, hb]

theorem promote_unsignedWide {t : IntTy} (h : UnsignedWide t) : promote t = t := by
  have h1 : ¬ t.bits < 32 := by have := h.2; omega
  simp [promote, h1]

theorem cBin_mul_unsigned {t : IntTy} (h : UnsignedWide t) (x c : Int) :
    cBin .mul (t, x) (i64, c) = .ok (t, t.wrap (x * c)) := by
  simp only [cBin, usualArith_unsigned h, arith, h.1, Bool.false_eq_true, ite_false]
  rw [wrap_mul_wrap]

theorem cBin_add_unsigned {t : IntTy} (h : UnsignedWide t) (x c : Int) :
    cBin .add (t, x) (i64, c) = .ok (t, t.wrap (x + c)) := by
  simp only [cBin, usualArith_unsigned h, arith, h.1, Bool.false_eq_true, ite_false]
  rw [wrap_add_wrap]

theorem cBin_shl_unsigned {t : IntTy} (h : UnsignedWide t) (x : Int) (k : Nat) (hk : k < 64) :
    cBin .shl (t, x) (i32, (k : Int)) = .ok (t, t.wrap (x * 2 ^ k)) := by
  simp only [cBin, promote_unsignedWide h]
  have : ¬ ((k : Int) < 0 ∨ (k : Int) ≥ (t.bits : Int)) := by have := h.2; omega
  simp only [this, ite_false, Int.toNat_natCast]

theorem wrap_add_left (t : IntTy) (a c : Int) : t.wrap (t.wrap a + c) = t.wrap (a + c) := by
  obtain ⟨k1, h1⟩ := wrap_rel t a
  apply wrap_congr t _ _ k1
  rw [h1]; omega

/-- the chunk step in an unsigned built-in type multiplies by `base^stride` and adds, modulo `2^bits` -/
theorem chunkStep_unsigned {base stride : Nat} (hs : StrideOK base stride) {t : IntTy} (h : UnsignedWide t) (X c : Int) :
    chunkStep (.builtin t) base X c = .ok (t.wrap (X * ((base ^ stride : Nat) : Int) + c)) := by
  have fin : ∀ F : Int, t.wrap (t.wrap (t.wrap (t.wrap (X * F)) + c)) = t.wrap (X * F + c) := by
    intro F
    rw [wrap_wrap, wrap_wrap, wrap_add_left]
  rcases hs with ⟨rfl, rfl⟩ | ⟨rfl, rfl⟩ | ⟨rfl, rfl⟩ | ⟨rfl, rfl⟩
  · have e : ((10 ^ 18 : Nat) : Int) = 1000000000000000000 := by decide +kernel
    rw [e]
    simp only [chunkStep, ite_true]
    rw [cBin_mul_unsigned h]; simp only [Res.bind_ok]
    rw [cBin_add_unsigned h]; simp only [Res.bind_ok]
    rw [fin]
  · have e : ((16 ^ 15 : Nat) : Int) = 2 ^ 60 := by decide +kernel
    rw [e]
    simp only [chunkStep, chunkShift, show (16:Nat) ≠ 10 by decide, ite_false, ite_true, or_true]
    rw [cBin_shl_unsigned h X 60 (by decide)]; simp only [Res.bind_ok]
    rw [cBin_add_unsigned h]; simp only [Res.bind_ok]
    rw [fin]
  · have e : ((8 ^ 21 : Nat) : Int) = 2 ^ 63 := by decide +kernel
    rw [e]
    simp only [chunkStep, chunkShift, show (8:Nat) ≠ 10 by decide, show (8:Nat) ≠ 16 by decide, show (8:Nat) ≠ 2 by decide,
      ite_false, ite_true, or_true, true_or]
    rw [cBin_shl_unsigned h X 63 (by decide)]; simp only [Res.bind_ok]
    rw [cBin_add_unsigned h]; simp only [Res.bind_ok]
    rw [fin]
  · have e : ((2 ^ 63 : Nat) : Int) = 2 ^ 63 := by decide +kernel
    rw [e]
    simp only [chunkStep, chunkShift, show (2:Nat) ≠ 10 by decide, show (2:Nat) ≠ 16 by decide, ite_false, ite_true, true_or]
    rw [cBin_shl_unsigned h X 63 (by decide)]; simp only [Res.bind_ok]
    rw [cBin_add_unsigned h]; simp only [Res.bind_ok]
    rw [fin]

/-- Horner over the chunk list, unsigned built-in result: any number of chunks, modulo `2^bits` -/
theorem parseChunks_unsigned {base stride : Nat} (hs : StrideOK base stride) {t : IntTy} (ht : UnsignedWide t) (neg : Bool) :
    ∀ (k : Nat) (cs : List Char) (A : Nat) (ds : List Nat) (rest : List Char),
      readDigits base cs (k * stride) = .ok (ds, rest) → (∀ d ∈ ds, d < base) →
      parseChunks (.builtin t) neg base stride k cs (t.wrap (sg neg A))
        = .ok (t.wrap (sg neg (foldFrom base A ds))) := by
  intro k
  induction k with
  | zero =>
    intro cs A ds rest h _
    rw [Nat.zero_mul, readDigits_zero] at h
    injection h with h; injection h with h1 _
    subst h1; rfl
  | succ k ih =>
    intro cs A ds rest h hd
    have e : (k + 1) * stride = stride + k * stride := by rw [Nat.succ_mul, Nat.add_comm]
    rw [e] at h
    obtain ⟨ds1, ds2, mid, h1, h2, h3, h4⟩ := readDigits_split base cs stride (k * stride) ds rest h
    subst h3
    have hd1 : ∀ d ∈ ds1, d < base := fun d hx => hd d (List.mem_append_left _ hx)
    have hd2 : ∀ d ∈ ds2, d < base := fun d hx => hd d (List.mem_append_right _ hx)
    unfold parseChunks
    rw [parseInt64_chunk hs neg cs stride ds1 mid h1 hd1 (by omega)]
    simp only [Res.bind_ok]
    rw [chunkStep_unsigned hs ht]
    simp only [Res.bind_ok]
    have hw : t.wrap (t.wrap (sg neg A) * ((base ^ stride : Nat) : Int) + sg neg (foldFrom base 0 ds1))
        = t.wrap (sg neg (foldFrom base A ds1)) := by
      rw [wrap_mul_left, sg_mul, sg_add, foldFrom_eq base ds1 A, h4]
    rw [hw, foldFrom_append]
    exact ih mid (foldFrom base A ds1) ds2 rest h2 hd2

/-- `parse_string` into an unsigned built-in result (`uint64`, `unsigned __int128`) returns the
token's value modulo `2^bits`, for a token of any length; no step is undefined -/
theorem parseString_unsigned {base stride : Nat} (hs : StrideOK base stride) {t : IntTy} (ht : UnsignedWide t) (neg : Bool)
    (cs : List Char) (n : Nat) (ds : List Nat) (rest : List Char)
    (h : readDigits base cs n = .ok (ds, rest)) (hd : ∀ d ∈ ds, d < base) :
    parseString (.builtin t) cs n neg base stride = .ok (t.wrap (sg neg (positional base ds))) := by
  have hpos := strideOK_pos hs
  have e : n = n % stride + (n / stride) * stride := by
    have := Nat.mod_add_div n stride; rw [Nat.mul_comm] at this; omega
  rw [e] at h
  obtain ⟨ds1, ds2, mid, h1, h2, h3, h4⟩ := readDigits_split base cs _ _ ds rest h
  subst h3
  have hd1 : ∀ d ∈ ds1, d < base := fun d hx => hd d (List.mem_append_left _ hx)
  have hd2 : ∀ d ∈ ds2, d < base := fun d hx => hd d (List.mem_append_right _ hx)
  have hlt : n % stride < stride := Nat.mod_lt _ hpos
  unfold parseString
  rw [Nat.add_mod_right, parseInt64_chunk hs neg cs _ ds1 mid h1 hd1 (by omega)]
  simp only [Res.bind_ok, Storage.ofInt64]
  rw [parseChunks_unsigned hs ht neg (n / stride) mid (foldFrom base 0 ds1) ds2 rest h2 hd2, positional_eq, foldFrom_append]

theorem unsignedWide_wrap_id {t : IntTy} (ht : UnsignedWide t) {v : Nat} (h : v < 2 ^ t.bits) : t.wrap (v : Int) = v := by
  apply IntTy.wrap_id (by have := ht.2; omega)
  unfold IntTy.InRange IntTy.max IntTy.lowest
  simp only [ht.1, Bool.false_eq_true, ite_false]
  have : ((v : Int)) < ((2 ^ t.bits : Nat) : Int) := Int.ofNat_lt.mpr h
  rw [Int.natCast_pow] at this
  have e2 : ((2 : Nat) : Int) = 2 := rfl
  rw [e2] at this
  constructor <;> omega

/-! ## the width estimate covers every scanned token -/

theorem shape_digits {r : List Char} {b : Body} (hs : Shape r b) : ∃ d0 ds', b.digits = d0 :: ds' := by
  cases hs with
  | point hn ha hb hne =>
    rcases ha with ⟨rfl, rfl⟩ | ha
    · rcases hb with ⟨rfl, rfl⟩ | hb
      · simp at hne
      · obtain ⟨_, _, d0, ds', _, e, _⟩ := DS_head hb; exact ⟨d0, ds', by simp [e]⟩
    · obtain ⟨_, _, d0, ds', _, e, _⟩ := DS_head ha; exact ⟨d0, ds' ++ _, by rw [e]; rfl⟩
  | hex _ hds => obtain ⟨_, _, d0, ds', _, e, _⟩ := DS_head hds; exact ⟨d0, ds', e⟩
  | bin _ hds => obtain ⟨_, _, d0, ds', _, e, _⟩ := DS_head hds; exact ⟨d0, ds', e⟩
  | zero => exact ⟨0, [], rfl⟩
  | octSep hds => obtain ⟨_, _, d0, ds', _, e, _⟩ := DS_head hds; exact ⟨d0, ds', e⟩
  | oct hds => obtain ⟨_, _, d0, ds', _, e, _⟩ := DS_head hds; exact ⟨d0, ds', e⟩
  | dec _ hds => obtain ⟨_, _, d0, ds', _, e, _⟩ := DS_head hds; exact ⟨d0, ds', e⟩

/-- the `num_bits` reported for a token bounds its magnitude: `|significand| < 2^num_bits` -/
theorem token_numBits (cs : List Char) (t : Token) (h : token cs = some t) :
    positional t.body.base t.body.digits < 2 ^ (expectedParams t).numBits := by
  obtain ⟨hst, hlt⟩ := token_stride cs t h
  have hsh : ∃ d0 ds', t.body.digits = d0 :: ds' := by
    rcases token_cases cs t h with ⟨r, b, rfl, hb, rfl⟩ | ⟨r, b, rfl, hb, rfl⟩ | ⟨hp, hm, b, hb, rfl⟩
    · exact shape_digits (body_shape r b hb)
    · exact shape_digits (body_shape r b hb)
    · exact shape_digits (body_shape cs b hb)
  obtain ⟨d0, ds', e⟩ := hsh
  have hb := strideOK_base hst
  have hnb : (expectedParams t).numBits = estimate t.body.base (ds'.length + 1) d0 := by
    simp [expectedParams, expected, e]
  rw [hnb, e]
  rw [e] at hlt
  exact estimate_sufficient t.body.base hb d0 ds' (hlt d0 (List.mem_cons_self ..)) (fun d hd => hlt d (List.mem_cons_of_mem _ hd))

/-! ## a signed one-digit octal token is read as a two-digit decimal one: same value -/

theorem DS_single {base : Nat} {r : List Char} {d : Nat} (h : DS base r [d]) : ∃ c, r = [c] ∧ digitValue base c = some d := by
  cases h with
  | one hc => exact ⟨_, rfl, hc⟩
  | sep hc hr => have := DS_pos hr; simp at this
  | cons hc hr => have := DS_pos hr; simp at this

theorem digitValue_oct_dec {c : Char} {d : Nat} (h : digitValue 8 c = some d) : digitValue 10 c = some d := by
  obtain ⟨hlt, hr⟩ := digitValue_range h
  rcases hr with ⟨a, b, e⟩ | ⟨a, b, e⟩ | ⟨a, b, e⟩
  · unfold digitValue
    simp only [a, b, and_self, ite_true]
    rw [if_pos (by omega), e]
  · omega
  · omega

/-- the characters of a signed one-digit octal token after the sign: `0c` or `0'c` -/
theorem signed_octal_digit_scanned (s : Char) (r' : List Char) (d : Nat) (neg : Bool)
    (hs : (s = '+' ∧ neg = false) ∨ (s = '-' ∧ neg = true)) (hds : DS 10 ('0' :: r') [0, d]) :
    scanString (s :: '0' :: r') = .ok ⟨neg, 10, 18, 1, 6, 2, 0⟩ ∧ readDigits 10 ('0' :: r') 2 = .ok ([0, d], []) := by
  have hp := DS_plain hds
  have hsc : ∀ s : Char, s ≠ radixChar → s ≠ separator → ∀ neg,
      scanBase (s :: '0' :: r') neg 1 ('0' :: r').length = .ok ⟨neg, 10, 18, 1, 6, 2, 0⟩ := by
    intro s h1 h2 neg
    rw [scanBase_of_body _ _ _ _ _ _ _ (hp.signed s h1 h2)]
    exact scanCore_decimal _ neg 1 false 2 0 0 (by simp) (by show digitPos 10 '0' = some 0; decide)
  refine ⟨?_, DS_read_self (Or.inr (Or.inr (Or.inl rfl))) hds⟩
  rcases hs with ⟨rfl, rfl⟩ | ⟨rfl, rfl⟩
  · exact hsc '+' (by decide) (by decide) false
  · exact hsc '-' (by decide) (by decide) true

theorem shape_octal_digit {r : List Char} {b : Body} (hs : Shape r b)
    (h8 : b.base = 8) (h1 : b.digits.length = 1) :
    ∃ r' d, r = '0' :: r' ∧ DS 10 ('0' :: r') [0, d] ∧ b.digits = [d] := by
  cases hs with
  | point => simp at h8
  | hex => simp at h8
  | bin => simp at h8
  | zero => simp at h8
  | dec => simp at h8
  | @octSep rest ds hds =>
    obtain ⟨d, rfl⟩ : ∃ d, ds = [d] := by
      match ds, h1 with
      | [d], _ => exact ⟨d, rfl⟩
    obtain ⟨c, rfl, hc⟩ := DS_single hds
    exact ⟨_, d, rfl, DS.sep (by decide) (DS.one (digitValue_oct_dec hc)), rfl⟩
  | @oct rest ds hds =>
    obtain ⟨d, rfl⟩ : ∃ d, ds = [d] := by
      match ds, h1 with
      | [d], _ => exact ⟨d, rfl⟩
    obtain ⟨c, rfl, hc⟩ := DS_single hds
    exact ⟨_, d, rfl, DS.cons (by decide) (DS.one (digitValue_oct_dec hc)), rfl⟩

/-- the signed one-digit octal tokens are `+0c`, `-0c`, `+0'c`, `-0'c` with `c` an octal digit -/
theorem signed_octal_digit_cases (cs : List Char) (t : Token) (h : token cs = some t) (h2 : SignedOctalDigit t) :
    ∃ s r' d, cs = s :: '0' :: r' ∧ ((s = '+' ∧ t.negative = false) ∨ (s = '-' ∧ t.negative = true)) ∧
      DS 10 ('0' :: r') [0, d] ∧ t.body.base = 8 ∧ t.body.digits = [d] := by
  obtain ⟨hsg, h8, hl⟩ := h2
  rcases token_cases cs t h with ⟨r, b, rfl, hb, rfl⟩ | ⟨r, b, rfl, hb, rfl⟩ | ⟨hp, hm, b, hb, rfl⟩
  · obtain ⟨r', d, rfl, hds, hd⟩ := shape_octal_digit (body_shape r b hb) h8 hl
    exact ⟨'+', r', d, rfl, Or.inl ⟨rfl, rfl⟩, hds, h8, hd⟩
  · obtain ⟨r', d, rfl, hds, hd⟩ := shape_octal_digit (body_shape r b hb) h8 hl
    exact ⟨'-', r', d, rfl, Or.inr ⟨rfl, rfl⟩, hds, h8, hd⟩
  · cases hsg


/-! ## the `static_*` helpers hold every constant; the normalising phase of the `Precise` loop -/

theorem constantDigits_eq (v : Int) : constantDigits v = usedDigitsNat v.natAbs := by
  unfold constantDigits usedDigits
  by_cases h : v < 0
  · have h' : ¬ (-v < 0) := by omega
    simp only [h, ite_true, h', ite_false]
    congr 1; omega
  · simp only [h, ite_false]
    congr 1; omega

theorem staticInit_ok (d : Nat) (x : Int) (h : x.natAbs < 2 ^ d) : staticInit d x = .ok x := by
  have h' : ((x.natAbs : Nat) : Int) < ((2 ^ d : Nat) : Int) := by exact_mod_cast h
  rw [Int.natCast_pow] at h'
  unfold staticInit
  generalize (2 : Int) ^ d = P at *
  have h1 : ¬ (x > P - 1) := by omega
  have h2 : ¬ (x < -(P - 1)) := by omega
  simp only [h1, h2, ite_false]

theorem staticInit_constantDigits (v : Int) : staticInit (constantDigits v) v = .ok v := by
  apply staticInit_ok
  rw [constantDigits_eq]
  exact usedDigitsNat_lt _

theorem staticInit_shiftOut (v : Int) :
    staticInit (constantDigits v - trailingBits v) (shiftOut v (trailingBits v)) = .ok (shiftOut v (trailingBits v)) := by
  apply staticInit_ok
  rw [constantDigits_eq]
  have he := shiftOut_exact v
  have hn : (shiftOut v (trailingBits v)).natAbs * 2 ^ trailingBits v = v.natAbs := by
    have := congrArg Int.natAbs he
    rw [Int.natAbs_mul, Int.natAbs_pow] at this
    exact this
  have hlt := usedDigitsNat_lt v.natAbs
  have hpos : 0 < 2 ^ trailingBits v := Nat.pow_pos (by decide)
  by_cases hz : v.natAbs = 0
  · have h0 : (shiftOut v (trailingBits v)).natAbs = 0 := by
      rcases Nat.mul_eq_zero.mp (hn.trans hz) with h | h
      · exact h
      · omega
    rw [h0]; exact Nat.pow_pos (by decide)
  · have hle : 2 ^ trailingBits v ≤ v.natAbs := Nat.le_of_dvd (by omega) ⟨_, by rw [← hn, Nat.mul_comm]⟩
    have htz : trailingBits v < usedDigitsNat v.natAbs :=
      (Nat.pow_lt_pow_iff_right (by decide : 1 < 2)).mp (Nat.lt_of_le_of_lt hle hlt)
    have hsplit : 2 ^ usedDigitsNat v.natAbs = 2 ^ (usedDigitsNat v.natAbs - trailingBits v) * 2 ^ trailingBits v := by
      rw [← Nat.pow_add]; congr 1; omega
    rw [hsplit] at hlt
    have hlt' : (shiftOut v (trailingBits v)).natAbs * 2 ^ trailingBits v
        < 2 ^ (usedDigitsNat v.natAbs - trailingBits v) * 2 ^ trailingBits v := by rw [hn]; exact hlt
    exact Nat.lt_of_mul_lt_mul_right hlt'

/-- with `in_exponent = 0` the repaired `Precise` loop strips the factors of `OutRadix` and stops -/
theorem descaleNeg_normalise (sigT : IntTy) (R inRadix : Nat) (hR : 2 ≤ R) (m : Int) (hm : m % (R : Int) ≠ 0) :
    ∀ (k fuel : Nat), k < fuel → ∀ exp : Int,
      descaleNeg sigT R inRadix fuel (m * (R : Int) ^ k) exp 0 = .ok (m, exp + k) := by
  intro k
  induction k with
  | zero =>
    intro fuel hf exp
    obtain ⟨f, rfl⟩ : ∃ f, fuel = f + 1 := ⟨fuel - 1, by omega⟩
    simp [descaleNeg, hm]
  | succ k ih =>
    intro fuel hf exp
    obtain ⟨f, rfl⟩ : ∃ f, fuel = f + 1 := ⟨fuel - 1, by omega⟩
    have hRz : (R : Int) ≠ 0 := by omega
    have h0 : (m * (R : Int) ^ (k + 1)) % (R : Int) = 0 := by
      rw [Int.pow_succ, ← Int.mul_assoc]; exact Int.mul_emod_left _ _
    have hdiv : (m * (R : Int) ^ (k + 1)) / (R : Int) = m * (R : Int) ^ k := by
      rw [Int.pow_succ, ← Int.mul_assoc]; exact Int.mul_ediv_cancel _ hRz
    rw [descaleNeg]
    simp only [h0, ne_eq, not_true_eq_false, or_true, ite_true, hdiv]
    rw [ih f (by omega) (exp + 1)]
    congr 2
    push_cast
    omega

/-- value invariant of the repaired `Precise` loop (`InExponent < 0`, `in_exponent = -j`): whatever it
returns denotes the input.  A result `(s', e')` comes with `a` multiplications by `R = OutRadix` and
`k` exact divisions by it: `e' = exp + k − a` and `s'·R^k·I^j = sig·R^a`, i.e.
`s'·R^e' = sig·R^exp·I^(−j)` (`I = InRadix`). -/
theorem descaleNeg_value (sigT : IntTy) (R I : Nat) :
    ∀ (fuel : Nat) (sig exp : Int) (j : Nat) (s' e' : Int),
      descaleNeg sigT R I fuel sig exp (-(j : Int)) = .ok (s', e') →
      ∃ a k : Nat, e' = exp + (k : Int) - (a : Int) ∧ s' * (R : Int) ^ k * (I : Int) ^ j = sig * (R : Int) ^ a := by
  intro fuel
  induction fuel with
  | zero => intro sig exp j s' e' h; simp [descaleNeg] at h
  | succ f ih =>
    intro sig exp j s' e' h
    rw [descaleNeg] at h
    by_cases hc : (-(j : Int)) ≠ 0 ∨ sig % (R : Int) = 0
    · rw [if_pos hc] at h
      by_cases hj : (-(j : Int)) = 0
      · rw [if_pos hj] at h
        have hj0 : j = 0 := by omega
        subst hj0
        have hdvd : sig % (R : Int) = 0 := by
          rcases hc with h1 | h1
          · exact absurd hj h1
          · exact h1
        obtain ⟨a, k, he, hv⟩ := ih _ _ 0 _ _ h
        refine ⟨a, k + 1, by rw [he]; push_cast; omega, ?_⟩
        have hsig : sig / (R : Int) * (R : Int) = sig := Int.ediv_mul_cancel (Int.dvd_of_emod_eq_zero hdvd)
        simp only [Int.pow_zero, Int.mul_one] at hv ⊢
        rw [Int.pow_succ, ← Int.mul_assoc, hv, Int.mul_right_comm, hsig]
      · rw [if_neg hj] at h
        have hj1 : 1 ≤ j := by omega
        by_cases hm : sig % (I : Int) ≠ 0
        · rw [if_pos hm] at h
          by_cases ho : oob sigT R sig = true
          · rw [if_pos ho] at h; cases h
          · rw [if_neg ho] at h
            obtain ⟨a, k, he, hv⟩ := ih _ _ j _ _ h
            refine ⟨a + 1, k, by rw [he]; push_cast; omega, ?_⟩
            rw [hv, Int.pow_succ, Int.mul_assoc, Int.mul_comm (R : Int)]
        · rw [if_neg hm] at h
          have hdvd : sig % (I : Int) = 0 := by
            by_cases h0 : sig % (I : Int) = 0
            · exact h0
            · exact absurd h0 hm
          have hje : (-(j : Int)) + 1 = -(((j - 1 : Nat)) : Int) := by omega
          rw [hje] at h
          obtain ⟨a, k, he, hv⟩ := ih _ _ (j - 1) _ _ h
          refine ⟨a, k, he, ?_⟩
          have hsig : sig / (I : Int) * (I : Int) = sig := Int.ediv_mul_cancel (Int.dvd_of_emod_eq_zero hdvd)
          have hjs : j = (j - 1) + 1 := by omega
          rw [hjs, Int.pow_succ, ← Int.mul_assoc, hv, Int.mul_right_comm, hsig]
    · rw [if_neg hc] at h
      injection h with h; injection h with h1 h2
      subst h1; subst h2
      have hj0 : j = 0 := by
        have : ¬ (-(j : Int)) ≠ 0 := fun hh => hc (Or.inl hh)
        omega
      subst hj0
      exact ⟨0, 0, by simp, by simp⟩
end Cnl.ParseProofs
