import CnlModel.Parse
import CnlSpec.Token
import CnlProofs.CIntLemmas
/-!
Helper lemmas for C15: the width estimate, positional values, Horner accumulation in chunks,
the int64 chunk arithmetic, used digits and trailing bits.  Lean core only.
-/
namespace Cnl.ParseProofs
open Cnl Cnl.Parse Cnl.Token

/-! ## the width estimate -/

set_option exponentiation.threshold 4000 in
/-- the single numeric fact behind the decimal estimate: `log2 10 < 3.322` -/
theorem ten_pow_1000 : 10 ^ 1000 < 2 ^ 3322 := by decide +kernel

set_option exponentiation.threshold 4000 in
/-- `10^n ≤ 2^⌈3.322 n⌉` for every `n` -/
theorem ten_pow_le (n : Nat) : 10 ^ n ≤ 2 ^ ((n * 3322 + 999) / 1000) := by
  have hk : n * 3322 ≤ ((n * 3322 + 999) / 1000) * 1000 := by omega
  have h1 : (10 ^ n) ^ 1000 ≤ (2 ^ ((n * 3322 + 999) / 1000)) ^ 1000 := by
    calc (10 ^ n) ^ 1000 = (10 ^ 1000) ^ n := by rw [← Nat.pow_mul, ← Nat.pow_mul, Nat.mul_comm]
      _ ≤ (2 ^ 3322) ^ n := Nat.pow_le_pow_left (Nat.le_of_lt ten_pow_1000) n
      _ = 2 ^ (n * 3322) := by rw [← Nat.pow_mul, Nat.mul_comm]
      _ ≤ 2 ^ (((n * 3322 + 999) / 1000) * 1000) := Nat.pow_le_pow_right (by decide) hk
      _ = (2 ^ ((n * 3322 + 999) / 1000)) ^ 1000 := by rw [← Nat.pow_mul]
  exact (Nat.pow_le_pow_iff_left (by decide)).mp h1

theorem decimalBits_eq (n : Nat) : decimalBits n = (n * 3322 + 999) / 1000 := rfl

/-! ## positional values -/

def foldFrom (base : Nat) (a : Nat) (ds : List Nat) : Nat := ds.foldl (fun acc d => acc * base + d) a

theorem positional_eq (base : Nat) (ds : List Nat) : positional base ds = foldFrom base 0 ds := rfl

theorem foldFrom_nil (base a : Nat) : foldFrom base a [] = a := rfl
theorem foldFrom_cons (base a d : Nat) (ds : List Nat) :
    foldFrom base a (d :: ds) = foldFrom base (a * base + d) ds := rfl

theorem foldFrom_append (base a : Nat) (xs ys : List Nat) :
    foldFrom base a (xs ++ ys) = foldFrom base (foldFrom base a xs) ys := by
  simp [foldFrom, List.foldl_append]

/-- Horner: the fold from `a` is `a·base^len + ` the fold from 0 -/
theorem foldFrom_eq (base : Nat) (ds : List Nat) : ∀ a, foldFrom base a ds = a * base ^ ds.length + foldFrom base 0 ds := by
  induction ds with
  | nil => intro a; simp [foldFrom]
  | cons d ds ih =>
    intro a
    rw [foldFrom_cons, ih, foldFrom_cons, ih (0 * base + d)]
    simp only [List.length_cons, Nat.pow_succ, Nat.zero_mul, Nat.zero_add]
    rw [Nat.add_mul, Nat.add_assoc, Nat.mul_assoc, Nat.mul_comm base]

/-- digits below the base: the value stays below `(a+1)·base^len` -/
theorem foldFrom_lt (base : Nat) (ds : List Nat) (hd : ∀ d ∈ ds, d < base) :
    ∀ a, foldFrom base a ds + 1 ≤ (a + 1) * base ^ ds.length := by
  induction ds with
  | nil => intro a; simp [foldFrom]
  | cons d ds ih =>
    intro a
    have hdb : d < base := hd d (List.mem_cons_self ..)
    have h := ih (fun x hx => hd x (List.mem_cons_of_mem _ hx)) (a * base + d)
    rw [foldFrom_cons]
    refine Nat.le_trans h ?_
    simp only [List.length_cons, Nat.pow_succ]
    have : a * base + d + 1 ≤ (a + 1) * base := by rw [Nat.add_mul]; omega
    calc (a * base + d + 1) * base ^ ds.length ≤ ((a + 1) * base) * base ^ ds.length := Nat.mul_le_mul_right _ this
      _ = (a + 1) * (base ^ ds.length * base) := by rw [Nat.mul_assoc, Nat.mul_comm base]

theorem positional_lt (base : Nat) (ds : List Nat) (hd : ∀ d ∈ ds, d < base) :
    positional base ds < base ^ ds.length := by
  have := foldFrom_lt base ds hd 0
  rw [positional_eq]; omega

/-- with leading digit `d0`: below `(d0+1)·base^(len-1)` -/
theorem positional_cons_lt (base d0 : Nat) (ds : List Nat) (hd : ∀ d ∈ ds, d < base) :
    positional base (d0 :: ds) < (d0 + 1) * base ^ ds.length := by
  have := foldFrom_lt base ds hd (0 * base + d0)
  rw [positional_eq, foldFrom_cons]; simp only [Nat.zero_mul, Nat.zero_add] at *; omega

theorem foldFrom_mono (base : Nat) (ds : List Nat) (hb : 1 ≤ base) : ∀ a, a ≤ foldFrom base a ds := by
  induction ds with
  | nil => intro a; exact Nat.le_refl _
  | cons d ds ih =>
    intro a
    rw [foldFrom_cons]
    refine Nat.le_trans ?_ (ih _)
    have : a * 1 ≤ a * base := Nat.mul_le_mul_left a hb
    omega

/-! ## the scanner's estimate covers the value -/

/-- `max_num_bits` handed to `scan_msb` for a token of `n` digits -/
def maxBits (base n : Nat) : Nat :=
  if base = 10 then decimalBits n else if base = 16 then n * 4 else if base = 8 then n * 3 else n

/-- what `scan_msb` stores in `num_bits` -/
def estimate (base n d0 : Nat) : Nat := maxBits base n - (if d0 * 2 < base then 1 else 0)

theorem pow2_base (k n : Nat) : (2 ^ k) ^ n = 2 ^ (n * k) := by rw [← Nat.pow_mul, Nat.mul_comm]

/-- binary, octal, hexadecimal (`base = 2^k`): the estimate is exact enough -/
theorem estimate_pow2 (k : Nat) (hk : 1 ≤ k) (d0 : Nat) (ds : List Nat) (hd0 : d0 < 2 ^ k) (hd : ∀ d ∈ ds, d < 2 ^ k) :
    positional (2 ^ k) (d0 :: ds) < 2 ^ ((ds.length + 1) * k - (if d0 * 2 < 2 ^ k then 1 else 0)) := by
  have hlt := positional_cons_lt (2 ^ k) d0 ds hd
  rw [pow2_base] at hlt
  have hk2 : 2 ^ k = 2 * 2 ^ (k - 1) := by
    have : k = (k - 1) + 1 := by omega
    conv => lhs; rw [this, Nat.pow_succ]
    omega
  by_cases h : d0 * 2 < 2 ^ k
  · simp only [h, ite_true]
    have h1 : d0 + 1 ≤ 2 ^ (k - 1) := by omega
    have h2 : (d0 + 1) * 2 ^ (ds.length * k) ≤ 2 ^ (k - 1) * 2 ^ (ds.length * k) := Nat.mul_le_mul_right _ h1
    have h3 : 2 ^ (k - 1) * 2 ^ (ds.length * k) = 2 ^ ((ds.length + 1) * k - 1) := by
      rw [← Nat.pow_add]; congr 1; rw [Nat.add_mul]; omega
    omega
  · simp only [h, ite_false, Nat.sub_zero]
    have h2 : (d0 + 1) * 2 ^ (ds.length * k) ≤ 2 ^ k * 2 ^ (ds.length * k) := Nat.mul_le_mul_right _ hd0
    have h3 : 2 ^ k * 2 ^ (ds.length * k) = 2 ^ ((ds.length + 1) * k) := by
      rw [← Nat.pow_add]; congr 1; rw [Nat.add_mul]; omega
    omega

/-- decimal, with the repaired estimate `⌈3.322 n⌉` -/
theorem estimate_decimal (d0 : Nat) (ds : List Nat) (hd0 : d0 < 10) (hd : ∀ d ∈ ds, d < 10) :
    positional 10 (d0 :: ds) < 2 ^ (decimalBits (ds.length + 1) - (if d0 * 2 < 10 then 1 else 0)) := by
  have hlt := positional_cons_lt 10 d0 ds hd
  have hp := ten_pow_le (ds.length + 1)
  rw [← decimalBits_eq] at hp
  rw [Nat.pow_succ] at hp
  by_cases h : d0 * 2 < 10
  · simp only [h, ite_true]
    have hpos : 1 ≤ decimalBits (ds.length + 1) := by unfold decimalBits estimateBias; omega
    have h2 : 2 ^ decimalBits (ds.length + 1) = 2 * 2 ^ (decimalBits (ds.length + 1) - 1) := by
      have : decimalBits (ds.length + 1) = (decimalBits (ds.length + 1) - 1) + 1 := by omega
      conv => lhs; rw [this, Nat.pow_succ]
      omega
    have h1 : (d0 + 1) * 10 ^ ds.length ≤ 5 * 10 ^ ds.length := Nat.mul_le_mul_right _ (by omega)
    omega
  · simp only [h, ite_false, Nat.sub_zero]
    have h1 : (d0 + 1) * 10 ^ ds.length ≤ 10 * 10 ^ ds.length := Nat.mul_le_mul_right _ (by omega)
    omega

/-- the estimate for all four bases -/
theorem estimate_sufficient (base : Nat) (hb : base = 2 ∨ base = 8 ∨ base = 10 ∨ base = 16)
    (d0 : Nat) (ds : List Nat) (hd0 : d0 < base) (hd : ∀ d ∈ ds, d < base) :
    positional base (d0 :: ds) < 2 ^ estimate base (ds.length + 1) d0 := by
  rcases hb with rfl | rfl | rfl | rfl
  · have := estimate_pow2 1 (by decide) d0 ds hd0 hd
    simpa [estimate, maxBits] using this
  · have := estimate_pow2 3 (by decide) d0 ds hd0 hd
    simpa [estimate, maxBits] using this
  · have := estimate_decimal d0 ds hd0 hd
    simpa [estimate, maxBits] using this
  · have := estimate_pow2 4 (by decide) d0 ds hd0 hd
    simpa [estimate, maxBits] using this

/-- `scan_msb` stores exactly `estimate` -/
theorem scanMsb_numBits (cs : List Char) (neg : Bool) (base stride off n f : Nat) (p : Params)
    (h : scanMsb cs neg base stride off (maxBits base n) n f = .ok p) :
    ∃ d0, digitPos base (cs.getD (off + (if cs.getD off '\x00' == radixChar then 1 else 0)) '\x00') = some d0 ∧
      p.numBits = estimate base n d0 ∧ p.numDigits = n ∧ p.base = base := by
  dsimp only [scanMsb] at h
  split at h
  · cases h
  · rename_i d0 hd
    injection h with h
    subst h
    exact ⟨d0, hd, rfl, rfl, rfl⟩

/-! ## each chunk fits `int64` -/

theorem chunk_fits : 10 ^ 18 ≤ 2 ^ 63 ∧ 16 ^ 15 ≤ 2 ^ 63 ∧ 8 ^ 21 ≤ 2 ^ 63 ∧ 2 ^ 63 ≤ 2 ^ 63 := by decide

/-! ## used digits and trailing bits -/

theorem usedDigitsNat_lt (n : Nat) : n < 2 ^ usedDigitsNat n := by
  unfold usedDigitsNat
  by_cases h : n = 0
  · simp [h]
  · simp only [h, ite_false]
    exact (Nat.log2_lt h).mp (Nat.lt_succ_self _)

theorem usedDigitsNat_le (n : Nat) (h : n ≠ 0) : 2 ^ (usedDigitsNat n - 1) ≤ n := by
  unfold usedDigitsNat
  simp only [h, ite_false, Nat.add_sub_cancel]
  exact (Nat.le_log2 h).mp (Nat.le_refl _)

/-- the number of used digits is characterised by its two bounds -/
theorem usedDigitsNat_unique (n k : Nat) (h1 : 2 ^ k ≤ n) (h2 : n < 2 ^ (k + 1)) : usedDigitsNat n = k + 1 := by
  have hn : n ≠ 0 := by
    have : 0 < 2 ^ k := Nat.two_pow_pos _
    omega
  unfold usedDigitsNat
  simp only [hn, ite_false]
  have a : k ≤ n.log2 := (Nat.le_log2 hn).mpr h1
  have b : n.log2 < k + 1 := (Nat.log2_lt hn).mpr h2
  omega

theorem tzFuel_dvd : ∀ (f n : Nat), 2 ^ tzFuel f n ∣ n := by
  intro f
  induction f with
  | zero => intro n; simp [tzFuel]
  | succ f ih =>
    intro n
    unfold tzFuel
    by_cases h : n % 2 = 0 ∧ n ≠ 0
    · simp only [h, and_self, ite_true, ne_eq, not_false_eq_true]
      obtain ⟨c, hc⟩ := ih (n / 2)
      refine ⟨c, ?_⟩
      rw [Nat.pow_succ, Nat.mul_assoc, Nat.mul_comm 2, ← Nat.mul_assoc, ← hc]
      omega
    · simp [h]

theorem trailingBits_dvd (v : Int) : (2 ^ trailingBits v : Int) ∣ v := by
  have h := tzFuel_dvd v.natAbs v.natAbs
  unfold trailingBits
  have : ((2 ^ tzFuel v.natAbs v.natAbs : Nat) : Int) ∣ (v.natAbs : Int) := Int.ofNat_dvd.mpr h
  rw [Int.natCast_pow] at this
  exact (Int.dvd_natAbs).mp this

/-- moving the trailing zero bits into the exponent loses nothing: `v = (v >> tz) << tz` -/
theorem shiftOut_exact (v : Int) : shiftOut v (trailingBits v) * 2 ^ trailingBits v = v := by
  unfold shiftOut
  exact Int.ediv_mul_cancel (trailingBits_dvd v)

/-- dropping `k` trailing zero bits drops `k` used digits -/
theorem usedDigitsNat_div (n k : Nat) (hn : n ≠ 0) (hd : 2 ^ k ∣ n) :
    usedDigitsNat (n / 2 ^ k) = usedDigitsNat n - k := by
  obtain ⟨c, hc⟩ := hd
  have hpos : 0 < 2 ^ k := Nat.two_pow_pos _
  have hdiv : n / 2 ^ k = c := by rw [hc, Nat.mul_div_cancel_left _ hpos]
  have hc0 : c ≠ 0 := by intro h; rw [h] at hc; simp at hc; exact hn hc
  rw [hdiv]
  -- bounds of c from the bounds of n
  have hlo := usedDigitsNat_le c hc0
  have hhi := usedDigitsNat_lt c
  have hU : 1 ≤ usedDigitsNat c := by
    unfold usedDigitsNat; simp [hc0]
  have h1 : 2 ^ (usedDigitsNat c - 1 + k) ≤ n := by
    rw [hc, Nat.pow_add, Nat.mul_comm]; exact Nat.mul_le_mul_left _ hlo
  have h2 : n < 2 ^ (usedDigitsNat c - 1 + k + 1) := by
    have : usedDigitsNat c - 1 + k + 1 = k + usedDigitsNat c := by omega
    rw [this, hc, Nat.pow_add]; exact Nat.mul_lt_mul_of_pos_left hhi hpos
  have := usedDigitsNat_unique n _ h1 h2
  omega

/-! ## `int64` chunk arithmetic through `CnlModel.CInt` -/

/-- the sign convention of a token: digits of a negative token are accumulated negated -/
def sg (neg : Bool) (x : Nat) : Int := if neg then -(x : Int) else (x : Int)

theorem i64_inRange_iff (v : Int) : i64.InRange v ↔ (-(2:Int)^63 ≤ v ∧ v ≤ 2^63 - 1) := by
  unfold IntTy.InRange
  rw [IntTy.max_eq, IntTy.lowest_eq]
  have hd : i64.digits = 63 := by decide
  have hs : i64.signed = true := rfl
  simp only [hd, hs, ite_true]

theorem i32_inRange_iff (v : Int) : i32.InRange v ↔ (-(2:Int)^31 ≤ v ∧ v ≤ 2^31 - 1) := by
  unfold IntTy.InRange
  rw [IntTy.max_eq, IntTy.lowest_eq]
  have hd : i32.digits = 31 := by decide
  have hs : i32.signed = true := rfl
  simp only [hd, hs, ite_true]

theorem inRange_sg (neg : Bool) (X : Nat) (h : X < 2 ^ 63) : i64.InRange (sg neg X) := by
  rw [i64_inRange_iff]
  cases neg <;> simp only [sg] <;> omega

theorem cBin_mul_i64 (x c : Int) (hx : i64.InRange x) (hc : i64.InRange c) (h : i64.InRange (x * c)) :
    cBin .mul (i64, x) (i32, c) = .ok (i64, x * c) := by
  have hT : usualArith i64 i32 = i64 := by decide
  simp only [cBin, hT]
  rw [IntTy.wrap_id (by decide) hx, IntTy.wrap_id (by decide) hc]
  exact arith_ok (by decide) h

theorem cBin_add_i64 (x c : Int) (hx : i64.InRange x) (hc : i64.InRange c) (h : i64.InRange (x + c)) :
    cBin .add (i64, x) (i32, c) = .ok (i64, x + c) := by
  have hT : usualArith i64 i32 = i64 := by decide
  simp only [cBin, hT]
  rw [IntTy.wrap_id (by decide) hx, IntTy.wrap_id (by decide) hc]
  exact arith_ok (by decide) h

theorem cBin_shl_i64 (x : Int) (k : Nat) (hk : k < 64) (h : i64.InRange (x * 2 ^ k)) :
    cBin .shl (i64, x) (i32, (k : Int)) = .ok (i64, x * 2 ^ k) := by
  have hP : promote i64 = i64 := by decide
  have hb : ((i64.bits : Nat) : Int) = 64 := rfl
  simp only [cBin, hP, hb]
  have : ¬ ((k : Int) < 0 ∨ (k : Int) ≥ 64) := by omega
  simp only [this, ite_false, Int.toNat_natCast]
  rw [IntTy.wrap_id (by decide) h]

theorem scaleOp_ok (base : Nat) (hb : base = 2 ∨ base = 8 ∨ base = 10 ∨ base = 16) (neg : Bool) (A : Nat)
    (h : A * base < 2 ^ 63) : scaleOp base (sg neg A) = .ok (sg neg (A * base)) := by
  have hA : A < 2 ^ 63 := by
    rcases hb with rfl | rfl | rfl | rfl <;> omega
  have hr := inRange_sg neg (A * base) h
  have hmul : ∀ c : Nat, sg neg A * (c : Int) = sg neg (A * c) := by
    intro c; cases neg <;> simp [sg, Int.natCast_mul, Int.neg_mul]
  rcases hb with rfl | rfl | rfl | rfl
  · have e : sg neg A * 2 ^ 1 = sg neg (A * 2) := by rw [← hmul]; rfl
    have := cBin_shl_i64 (sg neg A) 1 (by decide) (by rw [e]; exact hr)
    simp only [scaleOp, show (2:Nat) ≠ 10 by decide, ite_false, ite_true]
    show (cBin .shl (i64, sg neg A) (i32, ((1:Nat):Int)) >>= _) = _
    rw [this, e]; simp only [Res.bind_ok]; rw [IntTy.wrap_id (by decide) hr]
  · have e : sg neg A * 2 ^ 3 = sg neg (A * 8) := by rw [← hmul]; rfl
    have := cBin_shl_i64 (sg neg A) 3 (by decide) (by rw [e]; exact hr)
    simp only [scaleOp, show (8:Nat) ≠ 10 by decide, show (8:Nat) ≠ 2 by decide, ite_false, ite_true]
    show (cBin .shl (i64, sg neg A) (i32, ((3:Nat):Int)) >>= _) = _
    rw [this, e]; simp only [Res.bind_ok]; rw [IntTy.wrap_id (by decide) hr]
  · have e : sg neg A * 10 = sg neg (A * 10) := by rw [← hmul]; rfl
    have h10 : i64.InRange 10 := by rw [i64_inRange_iff]; omega
    have := cBin_mul_i64 (sg neg A) 10 (inRange_sg neg A hA) h10 (by rw [e]; exact hr)
    simp only [scaleOp, ite_true]
    rw [this, e]; simp only [Res.bind_ok]; rw [IntTy.wrap_id (by decide) hr]
  · have e : sg neg A * 2 ^ 4 = sg neg (A * 16) := by rw [← hmul]; rfl
    have := cBin_shl_i64 (sg neg A) 4 (by decide) (by rw [e]; exact hr)
    simp only [scaleOp, show (16:Nat) ≠ 10 by decide, show (16:Nat) ≠ 2 by decide, show (16:Nat) ≠ 8 by decide, ite_false, ite_true]
    show (cBin .shl (i64, sg neg A) (i32, ((4:Nat):Int)) >>= _) = _
    rw [this, e]; simp only [Res.bind_ok]; rw [IntTy.wrap_id (by decide) hr]

theorem sg_add (neg : Bool) (a b : Nat) : sg neg a + sg neg b = sg neg (a + b) := by
  cases neg <;> simp [sg, Int.natCast_add, Int.neg_add]

theorem sg_zero (neg : Bool) : sg neg 0 = 0 := by cases neg <;> simp [sg]

/-- one chunk: the digits are folded exactly as long as `(A+1)·base^len ≤ 2^63` -/
theorem accumulate_ok (base : Nat) (hb : base = 2 ∨ base = 8 ∨ base = 10 ∨ base = 16) (neg : Bool)
    (ds : List Nat) (hd : ∀ d ∈ ds, d < base) :
    ∀ A : Nat, (A + 1) * base ^ ds.length ≤ 2 ^ 63 →
      accumulate neg base (sg neg A) ds = .ok (sg neg (foldFrom base A ds)) := by
  induction ds with
  | nil => intro A _; rfl
  | cons d ds ih =>
    intro A hA
    have hdb : d < base := hd d (List.mem_cons_self ..)
    have hP : 1 ≤ base ^ ds.length := Nat.pow_pos (by rcases hb with rfl | rfl | rfl | rfl <;> decide)
    simp only [List.length_cons, Nat.pow_succ] at hA
    have h1 : (A + 1) * base ≤ 2 ^ 63 := by
      have : (A + 1) * base * 1 ≤ (A + 1) * base * base ^ ds.length := Nat.mul_le_mul_left _ hP
      have e : (A + 1) * (base ^ ds.length * base) = (A + 1) * base * base ^ ds.length := by
        rw [Nat.mul_comm (base ^ ds.length), Nat.mul_assoc]
      omega
    have h2 : A * base + d < 2 ^ 63 := by rw [Nat.add_mul] at h1; omega
    have h3 : (A * base + d + 1) * base ^ ds.length ≤ 2 ^ 63 := by
      have : A * base + d + 1 ≤ (A + 1) * base := by rw [Nat.add_mul]; omega
      have := Nat.mul_le_mul_right (base ^ ds.length) this
      have e : (A + 1) * (base ^ ds.length * base) = (A + 1) * base * base ^ ds.length := by
        rw [Nat.mul_comm (base ^ ds.length), Nat.mul_assoc]
      omega
    have hs := scaleOp_ok base hb neg A (by omega)
    have hdig : (if neg = true then -(d : Int) else (d : Int)) = sg neg d := rfl
    have hadd := cBin_add_i64 (sg neg (A * base)) (sg neg d) (inRange_sg neg _ (by omega)) (inRange_sg neg _ (by omega))
      (by rw [sg_add]; exact inRange_sg neg _ h2)
    unfold accumulate
    rw [hs]; simp only [Res.bind_ok]
    rw [hdig, hadd]; simp only [Res.bind_ok]
    rw [sg_add, foldFrom_cons]
    exact ih (fun x hx => hd x (List.mem_cons_of_mem _ hx)) _ h3

/-- the stride of each base and the factor its chunk step applies -/
def StrideOK (base stride : Nat) : Prop :=
  (base = 10 ∧ stride = 18) ∨ (base = 16 ∧ stride = 15) ∨ (base = 8 ∧ stride = 21) ∨ (base = 2 ∧ stride = 63)

theorem strideOK_base {base stride : Nat} (h : StrideOK base stride) : base = 2 ∨ base = 8 ∨ base = 10 ∨ base = 16 := by
  rcases h with ⟨h, _⟩ | ⟨h, _⟩ | ⟨h, _⟩ | ⟨h, _⟩ <;> simp [h]

theorem strideOK_fits {base stride : Nat} (h : StrideOK base stride) : base ^ stride ≤ 2 ^ 63 := by
  rcases h with ⟨rfl, rfl⟩ | ⟨rfl, rfl⟩ | ⟨rfl, rfl⟩ | ⟨rfl, rfl⟩ <;> decide

/-- a whole chunk read from `init = 0` is the positional value of its digits (negated for a negative token) -/
theorem chunk_ok {base stride : Nat} (h : StrideOK base stride) (neg : Bool) (ds : List Nat)
    (hd : ∀ d ∈ ds, d < base) (hl : ds.length ≤ stride) :
    accumulate neg base 0 ds = .ok (sg neg (foldFrom base 0 ds)) := by
  have hb := strideOK_base h
  have h1 : base ^ ds.length ≤ base ^ stride :=
    Nat.pow_le_pow_right (by rcases hb with rfl | rfl | rfl | rfl <;> decide) hl
  have := accumulate_ok base hb neg ds hd 0 (by have := strideOK_fits h; omega)
  rwa [sg_zero] at this

/-! ## reading digits chunk by chunk -/

theorem readDigits_zero (base : Nat) (cs : List Char) : readDigits base cs 0 = .ok ([], cs) := by
  cases cs <;> rfl

theorem bind_eq_ok {α β : Type} {x : Res α} {f : α → Res β} {b : β} (h : (x >>= f) = .ok b) :
    ∃ a, x = .ok a ∧ f a = .ok b := by
  cases x with
  | ok a => exact ⟨a, rfl, h⟩
  | _ => cases h

/-- reading `a + b` digits is reading `a` and then `b` -/
theorem readDigits_split (base : Nat) : ∀ (cs : List Char) (a b : Nat) (ds : List Nat) (rest : List Char),
    readDigits base cs (a + b) = .ok (ds, rest) →
    ∃ ds1 ds2 mid, readDigits base cs a = .ok (ds1, mid) ∧ readDigits base mid b = .ok (ds2, rest) ∧
      ds = ds1 ++ ds2 ∧ ds1.length = a := by
  intro cs
  induction cs with
  | nil =>
    intro a b ds rest h
    cases a with
    | zero => exact ⟨[], ds, [], readDigits_zero _ _, by simpa using h, rfl, rfl⟩
    | succ a => rw [Nat.succ_add] at h; cases h
  | cons c cs ih =>
    intro a b ds rest h
    cases a with
    | zero => exact ⟨[], ds, c :: cs, readDigits_zero _ _, by simpa using h, rfl, rfl⟩
    | succ a =>
      rw [Nat.succ_add] at h
      simp only [readDigits] at h ⊢
      by_cases hc : (c == separator || c == radixChar) = true
      · simp only [hc, ite_true] at h ⊢
        have e : a + b + 1 = (a + 1) + b := by omega
        rw [e] at h
        exact ih (a + 1) b ds rest h
      · simp only [hc] at h ⊢
        cases hd : digitPos base c with
        | none => simp only [hd] at h; cases h
        | some d =>
          simp only [hd] at h ⊢
          obtain ⟨r, hr, hok⟩ := bind_eq_ok h
          injection hok with hok
          have hds : ds = d :: r.1 := by injection hok with e1 _; exact e1.symm
          have hrest : rest = r.2 := by injection hok with _ e2; exact e2.symm
          obtain ⟨ds1, ds2, mid, h1, h2, h3, h4⟩ := ih a b r.1 r.2 (by rw [hr])
          refine ⟨d :: ds1, ds2, mid, ?_, by rw [hrest]; exact h2, ?_, by simp [h4]⟩
          · rw [h1]; rfl
          · rw [hds, h3]; rfl

/-! ## multi-limb results: everything is arithmetic modulo `2^bits` -/

theorem wrap_rel (t : IntTy) (a : Int) : ∃ k : Int, t.wrap a = a + k * 2 ^ t.bits := by
  unfold IntTy.wrap
  by_cases hs : t.signed = true
  · simp only [hs, ite_true]
    refine ⟨-((a + 2 ^ (t.bits - 1)) / 2 ^ t.bits), ?_⟩
    have := Int.ediv_mul_add_emod (a + 2 ^ (t.bits - 1)) (2 ^ t.bits)
    rw [Int.neg_mul]
    omega
  · simp only [hs]
    refine ⟨-(a / 2 ^ t.bits), ?_⟩
    have := Int.ediv_mul_add_emod a (2 ^ t.bits)
    rw [Int.neg_mul]
    simp only [Bool.false_eq_true, ite_false]
    omega

theorem wrap_congr (t : IntTy) (a b k : Int) (h : a = b + k * 2 ^ t.bits) : t.wrap a = t.wrap b := by
  subst h
  unfold IntTy.wrap
  by_cases hs : t.signed = true
  · simp only [hs, ite_true]
    have : b + k * 2 ^ t.bits + 2 ^ (t.bits - 1) = (b + 2 ^ (t.bits - 1)) + k * 2 ^ t.bits := by omega
    rw [this, Int.add_mul_emod_self_right]
  · simp only [hs, Bool.false_eq_true, ite_false]
    rw [Int.add_mul_emod_self_right]

/-- `wrap (wrap (wrap x · F) + c) = wrap (x·F + c)` -/
theorem wrap_step (t : IntTy) (x F c : Int) : t.wrap (t.wrap (t.wrap x * F) + c) = t.wrap (x * F + c) := by
  obtain ⟨k1, h1⟩ := wrap_rel t x
  obtain ⟨k2, h2⟩ := wrap_rel t (t.wrap x * F)
  apply wrap_congr t _ _ (k2 + k1 * F)
  rw [h2, h1]
  rw [Int.add_mul, Int.add_mul, Int.mul_assoc k1, Int.mul_comm (2 ^ t.bits) F, ← Int.mul_assoc k1]
  omega

/-- conversion into a `bits`-bit two's-complement integer -/
def W (bits : Nat) (v : Int) : Int := (IntTy.mk bits true).wrap v

theorem sg_mul (neg : Bool) (a c : Nat) : sg neg a * (c : Int) = sg neg (a * c) := by
  cases neg <;> simp [sg, Int.natCast_mul, Int.neg_mul]

theorem strideOK_pos {base stride : Nat} (h : StrideOK base stride) : 0 < stride := by
  rcases h with ⟨_, rfl⟩ | ⟨_, rfl⟩ | ⟨_, rfl⟩ | ⟨_, rfl⟩ <;> decide

/-- the chunk step of a multi-limb result multiplies by `base^stride` and adds, modulo `2^bits` -/
theorem chunkStep_wide {base stride : Nat} (h : StrideOK base stride) (bits : Nat) (init c : Int) :
    chunkStep (.wide bits) base init c = .ok (W bits (W bits (init * ((base ^ stride : Nat) : Int)) + c)) := by
  rcases h with ⟨rfl, rfl⟩ | ⟨rfl, rfl⟩ | ⟨rfl, rfl⟩ | ⟨rfl, rfl⟩
  · have e : ((10 ^ 18 : Nat) : Int) = 1000000000000000000 := by decide +kernel
    simp only [chunkStep, ite_true, e]; rfl
  · have e : ((16 ^ 15 : Nat) : Int) = 2 ^ 60 := by decide +kernel
    simp only [chunkStep, chunkShift, show (16:Nat) ≠ 10 by decide, ite_false, ite_true, or_true, e]; rfl
  · have e : ((8 ^ 21 : Nat) : Int) = 2 ^ 63 := by decide +kernel
    simp only [chunkStep, chunkShift, show (8:Nat) ≠ 10 by decide, show (8:Nat) ≠ 16 by decide, show (8:Nat) ≠ 2 by decide,
      ite_false, ite_true, or_true, true_or, e]; rfl
  · have e : ((2 ^ 63 : Nat) : Int) = 2 ^ 63 := by decide +kernel
    simp only [chunkStep, chunkShift, show (2:Nat) ≠ 10 by decide, show (2:Nat) ≠ 16 by decide, ite_false, ite_true, true_or, e]; rfl

theorem parseInt64_chunk {base stride : Nat} (hs : StrideOK base stride) (neg : Bool) (cs : List Char) (n : Nat)
    (ds : List Nat) (mid : List Char) (h : readDigits base cs n = .ok (ds, mid)) (hd : ∀ d ∈ ds, d < base)
    (hl : ds.length ≤ stride) :
    parseInt64 neg base cs n 0 = .ok (sg neg (foldFrom base 0 ds), mid) := by
  unfold parseInt64
  rw [h]; simp only [Res.bind_ok]
  rw [chunk_ok hs neg ds hd hl]; rfl

/-- Horner over the chunk list, multi-limb result: any number of chunks -/
theorem parseChunks_wide {base stride : Nat} (hs : StrideOK base stride) (bits : Nat) (neg : Bool) :
    ∀ (k : Nat) (cs : List Char) (A : Nat) (ds : List Nat) (rest : List Char),
      readDigits base cs (k * stride) = .ok (ds, rest) → (∀ d ∈ ds, d < base) →
      parseChunks (.wide bits) neg base stride k cs (W bits (sg neg A))
        = .ok (W bits (sg neg (foldFrom base A ds))) := by
  intro k
  induction k with
  | zero =>
    intro cs A ds rest h _
    rw [Nat.zero_mul, readDigits_zero] at h
    injection h with h; injection h with h1 _
    subst h1; rfl
  | succ k ih =>
    intro cs A ds rest h hd
    have e : (k + 1) * stride = stride + k * stride := by rw [Nat.succ_mul, Nat.add_comm]
    rw [e] at h
    obtain ⟨ds1, ds2, mid, h1, h2, h3, h4⟩ := readDigits_split base cs stride (k * stride) ds rest h
    subst h3
    have hd1 : ∀ d ∈ ds1, d < base := fun d hx => hd d (List.mem_append_left _ hx)
    have hd2 : ∀ d ∈ ds2, d < base := fun d hx => hd d (List.mem_append_right _ hx)
    unfold parseChunks
    rw [parseInt64_chunk hs neg cs stride ds1 mid h1 hd1 (by omega)]
    simp only [Res.bind_ok]
    rw [chunkStep_wide hs]
    simp only [Res.bind_ok]
    have hw : W bits (W bits (W bits (sg neg A) * ((base ^ stride : Nat) : Int)) + sg neg (foldFrom base 0 ds1))
        = W bits (sg neg (foldFrom base A ds1)) := by
      unfold W
      rw [wrap_step, sg_mul, sg_add, foldFrom_eq base ds1 A, h4]
    rw [hw, foldFrom_append]
    exact ih mid (foldFrom base A ds1) ds2 rest h2 hd2

/-- `parse_string` into a multi-limb result returns the token's value modulo `2^bits`, for a
token of any length -/
theorem parseString_wide {base stride : Nat} (hs : StrideOK base stride) (bits : Nat) (neg : Bool)
    (cs : List Char) (n : Nat) (ds : List Nat) (rest : List Char)
    (h : readDigits base cs n = .ok (ds, rest)) (hd : ∀ d ∈ ds, d < base) :
    parseString (.wide bits) cs n neg base stride = .ok (W bits (sg neg (positional base ds))) := by
  have hpos := strideOK_pos hs
  have e : n = n % stride + (n / stride) * stride := by
    have := Nat.mod_add_div n stride; rw [Nat.mul_comm] at this; omega
  rw [e] at h
  obtain ⟨ds1, ds2, mid, h1, h2, h3, h4⟩ := readDigits_split base cs _ _ ds rest h
  subst h3
  have hd1 : ∀ d ∈ ds1, d < base := fun d hx => hd d (List.mem_append_left _ hx)
  have hd2 : ∀ d ∈ ds2, d < base := fun d hx => hd d (List.mem_append_right _ hx)
  have hlt : n % stride < stride := Nat.mod_lt _ hpos
  unfold parseString
  rw [Nat.add_mod_right, parseInt64_chunk hs neg cs _ ds1 mid h1 hd1 (by omega)]
  simp only [Res.bind_ok, Storage.ofInt64]
  have := parseChunks_wide hs bits neg (n / stride) mid (foldFrom base 0 ds1) ds2 rest h2 hd2
  unfold W at this
  rw [this, positional_eq, foldFrom_append]; rfl

/-! ## signed built-in results (`__int128` for `_c`, `_cnl`, `CNL_INTMAX_C`; `int64`) -/

/-- a signed built-in type at least as wide as the `int64` chunks -/
def SignedWide (t : IntTy) : Prop := t.signed = true ∧ 64 ≤ t.bits

theorem signedWide_range {t : IntTy} (h : SignedWide t) (v : Int) :
    t.InRange v ↔ (-(2:Int) ^ (t.bits - 1) ≤ v ∧ v ≤ 2 ^ (t.bits - 1) - 1) := by
  obtain ⟨hs, _⟩ := h
  unfold IntTy.InRange IntTy.max IntTy.lowest
  simp only [hs, ite_true]

theorem inRange_of_i64 {t : IntTy} (h : SignedWide t) {v : Int} (hv : i64.InRange v) : t.InRange v := by
  rw [signedWide_range h]
  rw [i64_inRange_iff] at hv
  have : (2:Int) ^ 63 ≤ 2 ^ (t.bits - 1) := two_pow_le (by have := h.2; omega)
  omega

theorem inRange_sg_le {t : IntTy} (h : SignedWide t) (neg : Bool) {X Y : Nat} (hY : t.InRange (sg neg Y)) (hXY : X ≤ Y) :
    t.InRange (sg neg X) := by
  rw [signedWide_range h] at hY ⊢
  have hp := two_pow_pos (t.bits - 1)
  cases neg <;> simp [sg] at hY ⊢ <;> omega

theorem usualArith_wide {t : IntTy} (h : SignedWide t) : usualArith t i64 = t := by
  obtain ⟨hs, hb⟩ := h
  have h1 : ¬ t.bits < 32 := by omega
  have h2 : t.bits ≥ 64 := hb
  simp [usualArith, promote, h1, hs, i64, h2]

theorem promote_wide {t : IntTy} (h : SignedWide t) : promote t = t := by
  have h1 : ¬ t.bits < 32 := by have := h.2; omega
  simp [promote, h1]

theorem cBin_mul_wide {t : IntTy} (h : SignedWide t) (x c : Int) (hx : t.InRange x) (hc : i64.InRange c)
    (hr : t.InRange (x * c)) : cBin .mul (t, x) (i64, c) = .ok (t, x * c) := by
  have hb : 1 ≤ t.bits := by have := h.2; omega
  simp only [cBin, usualArith_wide h]
  rw [IntTy.wrap_id hb hx, IntTy.wrap_id hb (inRange_of_i64 h hc)]
  exact arith_ok hb hr

theorem cBin_add_wide {t : IntTy} (h : SignedWide t) (x c : Int) (hx : t.InRange x) (hc : i64.InRange c)
    (hr : t.InRange (x + c)) : cBin .add (t, x) (i64, c) = .ok (t, x + c) := by
  have hb : 1 ≤ t.bits := by have := h.2; omega
  simp only [cBin, usualArith_wide h]
  rw [IntTy.wrap_id hb hx, IntTy.wrap_id hb (inRange_of_i64 h hc)]
  exact arith_ok hb hr

theorem cBin_shl_wide {t : IntTy} (h : SignedWide t) (x : Int) (k : Nat) (hk : k < 64) (hr : t.InRange (x * 2 ^ k)) :
    cBin .shl (t, x) (i32, (k : Int)) = .ok (t, x * 2 ^ k) := by
  have hb : 1 ≤ t.bits := by have := h.2; omega
  simp only [cBin, promote_wide h]
  have : ¬ ((k : Int) < 0 ∨ (k : Int) ≥ (t.bits : Int)) := by have := h.2; omega
  simp only [this, ite_false, Int.toNat_natCast]
  rw [IntTy.wrap_id hb hr]

/-- the chunk step in a signed built-in type is exact while the running value stays in range -/
theorem chunkStep_builtin {base stride : Nat} (hs : StrideOK base stride) {t : IntTy} (h : SignedWide t) (X c : Int)
    (hX : t.InRange X) (hc : i64.InRange c) (h1 : t.InRange (X * ((base ^ stride : Nat) : Int)))
    (h2 : t.InRange (X * ((base ^ stride : Nat) : Int) + c)) :
    chunkStep (.builtin t) base X c = .ok (X * ((base ^ stride : Nat) : Int) + c) := by
  have hb : 1 ≤ t.bits := by have := h.2; omega
  rcases hs with ⟨rfl, rfl⟩ | ⟨rfl, rfl⟩ | ⟨rfl, rfl⟩ | ⟨rfl, rfl⟩
  · have e : ((10 ^ 18 : Nat) : Int) = 1000000000000000000 := by decide +kernel
    rw [e] at h1 h2 ⊢
    have hF : i64.InRange 1000000000000000000 := by rw [i64_inRange_iff]; omega
    simp only [chunkStep, ite_true]
    rw [cBin_mul_wide h X _ hX hF h1]; simp only [Res.bind_ok]
    rw [IntTy.wrap_id hb h1, cBin_add_wide h _ c h1 hc h2]; simp only [Res.bind_ok]
    rw [IntTy.wrap_id hb h2]
  · have e : ((16 ^ 15 : Nat) : Int) = 2 ^ 60 := by decide +kernel
    rw [e] at h1 h2 ⊢
    simp only [chunkStep, chunkShift, show (16:Nat) ≠ 10 by decide, ite_false, ite_true, or_true]
    rw [cBin_shl_wide h X 60 (by decide) h1]; simp only [Res.bind_ok]
    rw [IntTy.wrap_id hb h1, cBin_add_wide h _ c h1 hc h2]; simp only [Res.bind_ok]
    rw [IntTy.wrap_id hb h2]
  · have e : ((8 ^ 21 : Nat) : Int) = 2 ^ 63 := by decide +kernel
    rw [e] at h1 h2 ⊢
    simp only [chunkStep, chunkShift, show (8:Nat) ≠ 10 by decide, show (8:Nat) ≠ 16 by decide, show (8:Nat) ≠ 2 by decide,
      ite_false, ite_true, or_true, true_or]
    rw [cBin_shl_wide h X 63 (by decide) h1]; simp only [Res.bind_ok]
    rw [IntTy.wrap_id hb h1, cBin_add_wide h _ c h1 hc h2]; simp only [Res.bind_ok]
    rw [IntTy.wrap_id hb h2]
  · have e : ((2 ^ 63 : Nat) : Int) = 2 ^ 63 := by decide +kernel
    rw [e] at h1 h2 ⊢
    simp only [chunkStep, chunkShift, show (2:Nat) ≠ 10 by decide, show (2:Nat) ≠ 16 by decide, ite_false, ite_true, true_or]
    rw [cBin_shl_wide h X 63 (by decide) h1]; simp only [Res.bind_ok]
    rw [IntTy.wrap_id hb h1, cBin_add_wide h _ c h1 hc h2]; simp only [Res.bind_ok]
    rw [IntTy.wrap_id hb h2]

theorem foldFrom_lt_pow {base stride : Nat} (hs : StrideOK base stride) (ds : List Nat) (hd : ∀ d ∈ ds, d < base)
    (hl : ds.length ≤ stride) : foldFrom base 0 ds < 2 ^ 63 := by
  have h1 := foldFrom_lt base ds hd 0
  have hb := strideOK_base hs
  have h2 : base ^ ds.length ≤ base ^ stride :=
    Nat.pow_le_pow_right (by rcases hb with rfl | rfl | rfl | rfl <;> decide) hl
  have := strideOK_fits hs
  omega

/-- Horner over the chunk list, signed built-in result: exact whenever the final value is in range -/
theorem parseChunks_builtin {base stride : Nat} (hs : StrideOK base stride) {t : IntTy} (ht : SignedWide t) (neg : Bool) :
    ∀ (k : Nat) (cs : List Char) (A : Nat) (ds : List Nat) (rest : List Char),
      readDigits base cs (k * stride) = .ok (ds, rest) → (∀ d ∈ ds, d < base) →
      t.InRange (sg neg (foldFrom base A ds)) →
      parseChunks (.builtin t) neg base stride k cs (sg neg A) = .ok (sg neg (foldFrom base A ds)) := by
  have hb1 : 1 ≤ base := by rcases strideOK_base hs with rfl | rfl | rfl | rfl <;> decide
  intro k
  induction k with
  | zero =>
    intro cs A ds rest h _ _
    rw [Nat.zero_mul, readDigits_zero] at h
    injection h with h; injection h with h1 _
    subst h1; rfl
  | succ k ih =>
    intro cs A ds rest h hd hfin
    have e : (k + 1) * stride = stride + k * stride := by rw [Nat.succ_mul, Nat.add_comm]
    rw [e] at h
    obtain ⟨ds1, ds2, mid, h1, h2, h3, h4⟩ := readDigits_split base cs stride (k * stride) ds rest h
    subst h3
    have hd1 : ∀ d ∈ ds1, d < base := fun d hx => hd d (List.mem_append_left _ hx)
    have hd2 : ∀ d ∈ ds2, d < base := fun d hx => hd d (List.mem_append_right _ hx)
    rw [foldFrom_append] at hfin
    have hmono := foldFrom_mono base ds2 hb1 (foldFrom base A ds1)
    have hstep : foldFrom base A ds1 = A * base ^ stride + foldFrom base 0 ds1 := by
      rw [foldFrom_eq base ds1 A, h4]
    have hA : A ≤ foldFrom base A ds1 := foldFrom_mono base ds1 hb1 A
    unfold parseChunks
    rw [parseInt64_chunk hs neg cs stride ds1 mid h1 hd1 (by omega)]
    simp only [Res.bind_ok]
    have hc : i64.InRange (sg neg (foldFrom base 0 ds1)) :=
      inRange_sg neg _ (foldFrom_lt_pow hs ds1 hd1 (by omega))
    have e1 : sg neg A * ((base ^ stride : Nat) : Int) = sg neg (A * base ^ stride) := sg_mul neg A _
    have e2 : sg neg A * ((base ^ stride : Nat) : Int) + sg neg (foldFrom base 0 ds1) = sg neg (foldFrom base A ds1) := by
      rw [e1, sg_add, hstep]
    rw [chunkStep_builtin hs ht (sg neg A) _ (inRange_sg_le ht neg hfin (by omega)) hc
      (by rw [e1]; exact inRange_sg_le ht neg hfin (by omega))
      (by rw [e2]; exact inRange_sg_le ht neg hfin hmono)]
    simp only [Res.bind_ok]
    rw [e2, foldFrom_append]
    exact ih mid (foldFrom base A ds1) ds2 rest h2 hd2 hfin

/-- `parse_string` into a signed built-in result: the token's value, whenever the type holds it -/
theorem parseString_builtin {base stride : Nat} (hs : StrideOK base stride) {t : IntTy} (ht : SignedWide t) (neg : Bool)
    (cs : List Char) (n : Nat) (ds : List Nat) (rest : List Char)
    (h : readDigits base cs n = .ok (ds, rest)) (hd : ∀ d ∈ ds, d < base)
    (hfit : t.InRange (sg neg (positional base ds))) :
    parseString (.builtin t) cs n neg base stride = .ok (sg neg (positional base ds)) := by
  have hpos := strideOK_pos hs
  have hb : 1 ≤ t.bits := by have := ht.2; omega
  have hb1 : 1 ≤ base := by rcases strideOK_base hs with rfl | rfl | rfl | rfl <;> decide
  have e : n = n % stride + (n / stride) * stride := by
    have := Nat.mod_add_div n stride; rw [Nat.mul_comm] at this; omega
  rw [e] at h
  obtain ⟨ds1, ds2, mid, h1, h2, h3, h4⟩ := readDigits_split base cs _ _ ds rest h
  subst h3
  have hd1 : ∀ d ∈ ds1, d < base := fun d hx => hd d (List.mem_append_left _ hx)
  have hd2 : ∀ d ∈ ds2, d < base := fun d hx => hd d (List.mem_append_right _ hx)
  have hlt : n % stride < stride := Nat.mod_lt _ hpos
  rw [positional_eq, foldFrom_append] at hfit ⊢
  unfold parseString
  rw [Nat.add_mod_right, parseInt64_chunk hs neg cs _ ds1 mid h1 hd1 (by omega)]
  simp only [Res.bind_ok, Storage.ofInt64]
  have hc : i64.InRange (sg neg (foldFrom base 0 ds1)) := inRange_sg neg _ (foldFrom_lt_pow hs ds1 hd1 (by omega))
  rw [IntTy.wrap_id hb (inRange_of_i64 ht hc)]
  exact parseChunks_builtin hs ht neg (n / stride) mid (foldFrom base 0 ds1) ds2 rest h2 hd2 hfit

end Cnl.ParseProofs
