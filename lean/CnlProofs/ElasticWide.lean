import CnlProofs.Elastic
import CnlModel.ElasticWide
/-!
# Lemmas for C05: elastic_integer operators whose result needs multi-word storage (`CnlModel.ElasticWide`)

`xBin` / `xNeg` are `binOp` / `neg` wherever those are well-formed, and otherwise the policy's digits with the exact
value (exactness of the multi-word storage is C10's theorem; the model takes it as the definition).  What is proved
here is the part of C05 that does not depend on the storage: the exact result lies in the declared range of the
policy's digits, for every operator, digit count and signedness mix.  Lean core only.
-/
namespace Cnl.Elastic
open Cnl Cnl.Spec

theorem exactBin_eq (op : AOp) (l r : Int) : exactBin (AOp.toBin op) l r = exact op l r := by
  cases op <;> rfl

/-- `xBin` is `binOp` wherever that is well-formed -/
theorem xBin_eq_binOp (op : BinOp) (x y : ENum) (h : ∀ m, binOp op x y ≠ .ill m) : xBin op x y = binOp op x y := by
  unfold xBin
  cases h' : binOp op x y <;> first | rfl | exact absurd h' (h _)

theorem xBin_of_ill (op : BinOp) (x y : ENum) {m : String} (h : binOp op x y = .ill m) {d : Nat} {sg : Bool}
    (hp : policy op x.digits x.narrowest.signed y.digits y.narrowest.signed = some (d, sg)) :
    xBin op x y = .ok ⟨d, ⟨max x.narrowest.bits y.narrowest.bits, sg⟩, exactBin op x.value y.value⟩ := by
  unfold xBin
  rw [h]
  simp only [hp]

theorem xNeg_eq_neg (x : ENum) (h : ∀ m, neg x ≠ .ill m) : xNeg x = neg x := by
  unfold xNeg
  cases h' : neg x <;> first | rfl | exact absurd h' (h _)

theorem xNeg_of_ill (x : ENum) {m : String} (h : neg x = .ill m) :
    xNeg x = .ok ⟨x.digits, ⟨x.narrowest.bits, true⟩, -x.value⟩ := by
  unfold xNeg
  rw [h]

/-- every arithmetic operator, whatever storage the result needs -/
theorem xBin_wf (op : AOp) (x y : ENum) (hx : x.InRange) (hy : y.InRange)
    (h0 : (op = .div ∨ op = .mod) → y.value ≠ 0) {d : Nat} {sg : Bool}
    (hp : policy (AOp.toBin op) x.digits x.narrowest.signed y.digits y.narrowest.signed = some (d, sg)) :
    ∃ n, xBin (AOp.toBin op) x y = .ok ⟨d, n, exact op x.value y.value⟩ ∧
      Fits d sg (exact op x.value y.value) ∧ (n.signed = false → sg = false) := by
  by_cases hill : ∃ m, binOp (AOp.toBin op) x y = .ill m
  · obtain ⟨m, hm⟩ := hill
    refine ⟨⟨max x.narrowest.bits y.narrowest.bits, sg⟩, ?_, exact_fits op hx hy (fun h => h0 (Or.inr h)) hp, fun h => h⟩
    rw [xBin_of_ill _ x y hm hp, exactBin_eq]
  · have hwf : ∀ m, binOp (AOp.toBin op) x y ≠ .ill m := fun m h => hill ⟨m, h⟩
    obtain ⟨d', sg', n, hp', h1, he, hs⟩ := binOp_wf op x y hx hy h0 hwf
    rw [hp] at hp'
    simp only [Option.some.injEq, Prod.mk.injEq] at hp'
    obtain ⟨rfl, rfl⟩ := hp'
    exact ⟨n, by rw [xBin_eq_binOp _ x y hwf, h1], he, hs⟩

theorem xNeg_wf (x : ENum) (hx : x.InRange) :
    xNeg x = .ok ⟨x.digits, ⟨x.narrowest.bits, true⟩, -x.value⟩ ∧ Fits x.digits true (-x.value) := by
  by_cases hill : ∃ m, neg x = .ill m
  · obtain ⟨m, hm⟩ := hill
    refine ⟨xNeg_of_ill x hm, ?_⟩
    have := (fits_iff.mp hx).1
    rw [fits_iff]; exact ⟨by omega, fun h => by cases h⟩
  · have hwf : ∀ m, neg x ≠ .ill m := fun m h => hill ⟨m, h⟩
    have ⟨h1, hf⟩ := neg_wf x hx hwf
    exact ⟨by rw [xNeg_eq_neg x hwf, h1], hf⟩

end Cnl.Elastic
