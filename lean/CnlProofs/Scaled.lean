import CnlProofs.CIntLemmas
import CnlProofs.Elastic
import CnlProofs.Rounding
import CnlProofs.Native
import CnlModel.Layered
import CnlSpec.Scaled
/-!
# Lemmas for C01–C04: `scaled_integer` over built-in representations

* conversion to an integer type is reduction modulo `2^bits` (`wrap_congr`, `wrap_mul_wrap`, …);
* `power_value` (`powerValueInt`) evaluated: radix 2 and the repeated multiplication of every
  other radix (`powerValueInt_eq`), and exactly when it is well-formed (`powerValueInt_ok_iff`);
* `scale<k>` (`scaleInt`) evaluated for `k ≥ 0` (multiplication) and `k < 0` (truncating division);
* how `Layered.bin / cmp / un / cast` unfold for `scaled_integer<built-in>` operands;
* the built-in operators on values the common type holds unchanged.

Lean core only.
-/
set_option linter.unusedVariables false
set_option linter.unusedSimpArgs false
set_option linter.unusedSectionVars false

namespace Cnl.ScaledP
open Cnl Cnl.Spec Cnl.Rounding Cnl.Layered

/-! ## conversion to an integer type is reduction modulo `2^bits` -/

theorem wrap_congr (T : IntTy) {a b : Int} (h : a % 2^T.bits = b % 2^T.bits) : T.wrap a = T.wrap b := by
  unfold IntTy.wrap
  cases T.signed with
  | false => simpa using h
  | true =>
    simp only [ite_true]
    rw [← Int.emod_add_emod a, h, Int.emod_add_emod]

theorem wrap_emod (T : IntTy) (v : Int) : (T.wrap v) % 2^T.bits = v % 2^T.bits := by
  unfold IntTy.wrap
  cases T.signed with
  | false => simp
  | true =>
    simp only [ite_true]
    rw [Int.sub_eq_add_neg, Int.emod_add_emod]
    congr 1; omega

theorem wrap_wrap (T : IntTy) (v : Int) : T.wrap (T.wrap v) = T.wrap v :=
  wrap_congr T (wrap_emod T v)

theorem wrap_mul_wrap (T : IntTy) (a b : Int) : T.wrap (T.wrap a * T.wrap b) = T.wrap (a * b) := by
  apply wrap_congr
  rw [Int.mul_emod, wrap_emod, wrap_emod, ← Int.mul_emod]

theorem wrap_mul_wrap_right (T : IntTy) (a b : Int) : T.wrap (a * T.wrap b) = T.wrap (a * b) := by
  apply wrap_congr
  rw [Int.mul_emod, wrap_emod, ← Int.mul_emod]

theorem wrap_mul_wrap_left (T : IntTy) (a b : Int) : T.wrap (T.wrap a * b) = T.wrap (a * b) := by
  apply wrap_congr
  rw [Int.mul_emod, wrap_emod, ← Int.mul_emod]

theorem wrap_add_wrap (T : IntTy) (a b : Int) : T.wrap (T.wrap a + T.wrap b) = T.wrap (a + b) := by
  apply wrap_congr
  rw [Int.add_emod, wrap_emod, wrap_emod, ← Int.add_emod]

theorem wrap_sub_wrap (T : IntTy) (a b : Int) : T.wrap (T.wrap a - T.wrap b) = T.wrap (a - b) := by
  apply wrap_congr
  rw [Int.sub_emod, wrap_emod, wrap_emod, ← Int.sub_emod]

/-- the result of a conversion is a value of the destination type -/
theorem wrap_inRange (T : IntTy) (hb : 1 ≤ T.bits) (v : Int) : T.InRange (T.wrap v) := by
  unfold IntTy.InRange IntTy.wrap IntTy.lowest IntTy.max
  have hp := two_pow_pos T.bits
  cases T.signed with
  | false =>
    simp only [Bool.false_eq_true, ite_false]
    have := Int.emod_nonneg v (Int.ne_of_gt hp)
    have := Int.emod_lt_of_pos v hp
    omega
  | true =>
    simp only [ite_true]
    have e : (2:Int)^T.bits = 2 * 2^(T.bits - 1) := by
      rw [← two_pow_succ]; congr 1; omega
    have := Int.emod_nonneg (v + 2^(T.bits-1)) (Int.ne_of_gt hp)
    have := Int.emod_lt_of_pos (v + 2^(T.bits-1)) hp
    omega

theorem wrap_eq_self_iff (T : IntTy) (hb : 1 ≤ T.bits) (v : Int) : T.wrap v = v ↔ T.InRange v :=
  ⟨fun h => h ▸ wrap_inRange T hb v, IntTy.wrap_id hb⟩

/-! ## `arith` -/

/-- `arith` returns the exact value `e` when `e` is representable and the computed value `x`
is `e` (signed) or congruent to it (unsigned: the operation wraps) -/
theorem arith_of {T : IntTy} (hb : 1 ≤ T.bits) {x e : Int} (he : T.InRange e)
    (hs : T.signed = true → x = e) (hu : T.signed = false → T.wrap x = T.wrap e) :
    arith T x = .ok (T, e) := by
  unfold arith
  cases h : T.signed with
  | true => simp only [ite_true]; rw [hs h]; simp only [he, ite_true]
  | false =>
    simp only [Bool.false_eq_true, ite_false]
    rw [hu h, IntTy.wrap_id hb he]

theorem arith_signed {T : IntTy} (hs : T.signed = true) (x : Int) :
    arith T x = if T.InRange x then .ok (T, x) else .ub .signedOverflow := by
  unfold arith; simp only [hs, ite_true]

theorem arith_unsigned {T : IntTy} (hs : T.signed = false) (x : Int) :
    arith T x = .ok (T, T.wrap x) := by
  unfold arith; simp only [hs, Bool.false_eq_true, ite_false]

/-! ## types -/

theorem usualArith_promote (A B : IntTy) : usualArith (promote A) (promote B) = usualArith A B := by
  unfold usualArith
  simp only [promote_promote]

theorem usualArith_promote_right (A B : IntTy) : usualArith A (promote B) = usualArith A B := by
  unfold usualArith
  simp only [promote_promote]

theorem usualArith_promote_left' (A B : IntTy) : usualArith (promote A) B = usualArith A B := by
  unfold usualArith
  simp only [promote_promote]

theorem usualArith_self_promote (A : IntTy) : usualArith A (promote A) = promote A := by
  rw [usualArith_promote_right, usualArith_self]

theorem promote_bits_pos (A : IntTy) : 1 ≤ (promote A).bits := by
  have := promote_bits_ge32 A; omega

theorem usualArith_bits_pos (A B : IntTy) : 1 ≤ (usualArith A B).bits := by
  have := usualArith_bits_ge A B; omega

theorem max_le_of_digits {A B : IntTy} (h : A.digits ≤ B.digits) : A.max ≤ B.max := by
  rw [IntTy.max_eq, IntTy.max_eq]; have := two_pow_le h; omega

/-- digits of the common type: at least those of both promoted operand types -/
theorem usualArith_digits (L R : IntTy) :
    (promote L).digits ≤ (usualArith L R).digits ∧ (promote R).digits ≤ (usualArith L R).digits := by
  rw [usualArith_key]
  have hL := promote_bits_ge32 L
  have hR := promote_bits_ge32 R
  generalize promote L = A at *; generalize promote R = B at *
  obtain ⟨ab, as⟩ := A; obtain ⟨bb, bs⟩ := B
  simp only at hL hR
  cases as <;> cases bs <;> simp [key, IntTy.digits] <;> split <;> simp <;> omega

/-- a value of the promoted left operand type is held unchanged by the common type if that is
signed or the value is not negative -/
theorem inRange_common_left {L R : IntTy} {a : Int} (h : (promote L).InRange a)
    (hs : (usualArith L R).signed = true ∨ 0 ≤ a) : (usualArith L R).InRange a := by
  have hd := (usualArith_digits L R).1
  have hp := two_pow_le hd
  have h0 := two_pow_pos (promote L).digits
  unfold IntTy.InRange at *
  rw [IntTy.max_eq, IntTy.lowest_eq] at *
  constructor
  · cases hT : (usualArith L R).signed with
    | true => simp only [ite_true]; split at h <;> omega
    | false =>
      simp only [Bool.false_eq_true, ite_false]
      rcases hs with hs | hs
      · rw [hT] at hs; cases hs
      · exact hs
  · omega

theorem inRange_common_right {L R : IntTy} {a : Int} (h : (promote R).InRange a)
    (hs : (usualArith L R).signed = true ∨ 0 ≤ a) : (usualArith L R).InRange a := by
  have hd := (usualArith_digits L R).2
  have hp := two_pow_le hd
  have h0 := two_pow_pos (promote R).digits
  unfold IntTy.InRange at *
  rw [IntTy.max_eq, IntTy.lowest_eq] at *
  constructor
  · cases hT : (usualArith L R).signed with
    | true => simp only [ite_true]; split at h <;> omega
    | false =>
      simp only [Bool.false_eq_true, ite_false]
      rcases hs with hs | hs
      · rw [hT] at hs; cases hs
      · exact hs
  · omega

/-- the common type of two types whose promotions are signed is signed -/
theorem usualArith_signed {L R : IntTy} (hL : (promote L).signed = true) (hR : (promote R).signed = true) :
    (usualArith L R).signed = true := by
  rcases usualArith_cases L R with h | h <;> rw [h] <;> assumption

/-! ## `power_value` -/

theorem pw_pos {ρ : Nat} (hρ : 2 ≤ ρ) (k : Nat) : 0 < pw ρ k := by
  unfold pw; exact Int.pow_pos (by omega)

theorem pw_succ (ρ k : Nat) : pw ρ (k+1) = pw ρ k * ρ := by
  unfold pw; exact Int.pow_succ ..

theorem pw_zero (ρ : Nat) : pw ρ 0 = 1 := by unfold pw; exact Int.pow_zero _

theorem pw_add (ρ a b : Nat) : pw ρ (a + b) = pw ρ a * pw ρ b := by
  unfold pw; exact Int.pow_add ..

theorem pw_two (k : Nat) : pw 2 k = 2^k := rfl

theorem pw_ge_one {ρ : Nat} (hρ : 2 ≤ ρ) (k : Nat) : 1 ≤ pw ρ k := pw_pos hρ k

theorem pw_mono {ρ : Nat} (hρ : 2 ≤ ρ) {a b : Nat} (h : a ≤ b) : pw ρ a ≤ pw ρ b := by
  obtain ⟨d, rfl⟩ := Nat.exists_eq_add_of_le h
  rw [pw_add]
  have h1 := pw_pos hρ a
  have h2 := pw_ge_one hρ d
  have := Int.mul_le_mul_of_nonneg_left h2 (Int.le_of_lt h1)
  omega

/-- the instantiation `power_value<S, k, ρ>` is well-formed: radix 2 needs `k` below the digits
of the promoted type (`static_assert`); any other radix multiplies `k` times by `ρ`, each step under
the assertion that the product fits the promoted type (signed or unsigned: since the repair of
`C04.unsigned_power_value_wraps` an unsigned type no longer wraps) -/
def PowOk (S : IntTy) (k : Nat) (ρ : Nat) : Prop :=
  k = 0 ∨ (if ρ = 2 then k < (promote S).digits else pw ρ k ≤ (promote S).max)

instance (S : IntTy) (k ρ : Nat) : Decidable (PowOk S k ρ) := by unfold PowOk; exact inferInstance

/-- `ρ^k` is a value of the promoted type -/
def PowFits (S : IntTy) (k : Nat) (ρ : Nat) : Prop := (promote S).InRange (pw ρ k)

instance (S : IntTy) (k ρ : Nat) : Decidable (PowFits S k ρ) := by unfold PowFits; exact inferInstance

theorem two_pow_lt_iff {k d : Nat} : (2:Int)^k ≤ 2^d - 1 ↔ k < d := by
  constructor
  · intro h
    apply Decidable.byContradiction; intro hn
    have := two_pow_le (show d ≤ k by omega)
    omega
  · intro h
    have := two_pow_le (show k + 1 ≤ d by omega)
    rw [two_pow_succ] at this
    have := two_pow_pos k
    omega

theorem PowFits.ok {S : IntTy} {k ρ : Nat} (h : PowFits S k ρ) : PowOk S k ρ := by
  right
  unfold PowFits IntTy.InRange at h
  split
  · rename_i h2; subst h2
    rw [IntTy.max_eq, pw_two] at h
    exact two_pow_lt_iff.1 h.2
  · exact h.2

/-- a well-formed power is representable (every radix, signed and unsigned promoted types) -/
theorem PowOk.representable {S : IntTy} {k ρ : Nat} (hρ : 2 ≤ ρ) (h : PowOk S k ρ) : PowFits S k ρ := by
  have hz := zero_le_max (promote S)
  have h32 := lo_hi (promote S) (promote_bits_ge32 S)
  unfold PowFits IntTy.InRange
  have hpos := pw_pos hρ k
  refine ⟨by omega, ?_⟩
  rcases h with h | h
  · subst h; rw [pw_zero]; omega
  · split at h
    · rename_i h2; subst h2
      rw [IntTy.max_eq, pw_two]; exact two_pow_lt_iff.2 h
    · exact h

/-- the same with the side condition the as-found code needed (an unsigned promoted type used to
wrap for `ρ ≠ 2`); kept for its callers -/
theorem PowOk.fits {S : IntTy} {k ρ : Nat} (hρ : 2 ≤ ρ) (h : PowOk S k ρ)
    (_hs : (promote S).signed = true ∨ ρ = 2) : PowFits S k ρ := h.representable hρ

/-- well-formed = representable -/
theorem powOk_iff_fits (S : IntTy) (k ρ : Nat) (hρ : 2 ≤ ρ) : PowOk S k ρ ↔ PowFits S k ρ :=
  ⟨fun h => h.representable hρ, PowFits.ok⟩

/-- one step of the constant evaluation: multiplication of a promoted-type value by the `int` radix -/
theorem go_step (P : IntTy) (hP : promote P = P) (a : Int) (ρ : Nat) :
    cBin .mul (P, a) (i32, (ρ : Int)) = arith P (P.wrap a * P.wrap ρ) := by
  simp only [cBin]
  rw [usualArith_i32, hP]

/-- the asserted condition of one step: `a ≤ max / ρ` says that `a · ρ` fits -/
theorem le_div_iff_mul_le {a m : Int} {ρ : Nat} (hρ : 2 ≤ ρ) : a ≤ m / (ρ : Int) ↔ a * (ρ : Int) ≤ m :=
  Int.le_ediv_iff_mul_le (by omega)

/-- the bound of the assertion, `numeric_limits<P>::max() / Radix`, evaluated -/
theorem bound_eval (P : IntTy) (hP : promote P = P) (ρ : Nat) (hρ : 2 ≤ ρ) (hρm : (ρ:Int) ≤ P.max) :
    cBin .div (P, P.max) (i32, (ρ:Int)) = .ok (P, P.max / (ρ:Int)) := by
  have hb : 1 ≤ P.bits := by have := promote_bits_ge32 P; rw [hP] at this; omega
  have hz := zero_le_max P
  have hρ' : (2:Int) ≤ (ρ : Int) := by exact_mod_cast hρ
  have wm : P.wrap P.max = P.max := IntTy.wrap_id hb ⟨by omega, by omega⟩
  have wρ : P.wrap (ρ:Int) = ρ := IntTy.wrap_id hb ⟨by omega, by omega⟩
  have hne : (ρ:Int) ≠ 0 := by omega
  have hov : ¬ (P.signed = true ∧ P.max = P.lowest ∧ (ρ:Int) = -1) := by intro ⟨_, _, h⟩; omega
  have hq0 : 0 ≤ P.max / (ρ:Int) := Int.ediv_nonneg (by omega) (by omega)
  have hq1 : P.max / (ρ:Int) ≤ P.max := Int.ediv_le_self _ (by omega)
  simp only [cBin, usualArith_i32, hP, wm, wρ, hne, hov, ite_false, Int.tdiv_eq_ediv_of_nonneg (show 0 ≤ P.max by omega)]
  exact arith_ok hb ⟨by omega, by omega⟩

/-- the comparison of the assertion, on values of the promoted type -/
theorem le_eval (A P : IntTy) (hT : usualArith A P = P) (hb : 1 ≤ P.bits) {a b : Int}
    (ha : P.InRange a) (hb' : P.InRange b) : cCmp .le (A, a) (P, b) = decide (a ≤ b) := by
  simp only [cCmp, hT, IntTy.wrap_id hb ha, IntTy.wrap_id hb hb']

theorem usualArith_of_promote_self {P : IntTy} (hP : promote P = P) : usualArith P P = P := by
  rw [usualArith_self, hP]

/-- exact while the running product fits (signed and unsigned alike) … -/
theorem go_ok (P : IntTy) (hP : promote P = P) (ρ : Nat) (hρ : 2 ≤ ρ) :
    ∀ (n : Nat) (a : Int), 1 ≤ a → a * pw ρ n ≤ P.max → powerValueInt.go ρ n (P, a) = .ok (P, a * pw ρ n)
  | 0, a, h1, h => by simp only [powerValueInt.go, pw_zero, Int.mul_one]
  | n+1, a, h1, h => by
    have hb : 1 ≤ P.bits := by have := promote_bits_ge32 P; rw [hP] at this; omega
    have hz := zero_le_max P
    have hlo : P.lowest ≤ 0 := hz.1
    have hpn := pw_ge_one hρ n
    rw [pw_succ, ← Int.mul_assoc, Int.mul_right_comm] at h
    -- a * ρ ≤ a * ρ * ρ^n ≤ max, ρ ≤ a * ρ
    have hρ' : (2:Int) ≤ (ρ : Int) := by exact_mod_cast hρ
    have haρ : 1 ≤ a * (ρ:Int) := by
      have := Int.mul_le_mul h1 (show (1:Int) ≤ ρ by omega) (by omega) (by omega); omega
    have h2 : a * (ρ:Int) ≤ a * ρ * pw ρ n := by
      have := Int.mul_le_mul_of_nonneg_left hpn (show 0 ≤ a * (ρ:Int) by omega); omega
    have h3 : (ρ:Int) ≤ a * ρ := by
      have := Int.mul_le_mul_of_nonneg_right h1 (show 0 ≤ (ρ:Int) by omega); omega
    have h4 : a ≤ a * ρ := by
      have := Int.mul_le_mul_of_nonneg_left (show (1:Int) ≤ ρ by omega) (show 0 ≤ a by omega); omega
    have wa : P.wrap a = a := IntTy.wrap_id hb ⟨by omega, by omega⟩
    have wρ : P.wrap (ρ:Int) = ρ := IntTy.wrap_id hb ⟨by omega, by omega⟩
    have hin : P.InRange (a * (ρ:Int)) := ⟨by omega, by omega⟩
    have hg : a ≤ P.max / (ρ:Int) := (le_div_iff_mul_le hρ).2 (by omega)
    have hbd := bound_eval P hP ρ hρ (by omega)
    have hq1 : P.max / (ρ:Int) ≤ P.max := Int.ediv_le_self _ (by omega)
    have hle := le_eval P P (usualArith_of_promote_self hP) hb (a := a) (b := P.max / (ρ:Int))
      ⟨by omega, by omega⟩ ⟨by omega, by omega⟩
    simp only [powerValueInt.go, usualArith_i32, hP, hbd, hle, hg, decide_true, ite_true, go_step P hP, wa, wρ,
      arith_ok hb hin]
    rw [go_ok P hP ρ hρ n _ haρ h, pw_succ]
    congr 2
    rw [Int.mul_assoc, Int.mul_comm (ρ:Int)]

/-- … and ill-formed (the assertion fails) as soon as it does not -/
theorem go_ill (P : IntTy) (hP : promote P = P) (ρ : Nat) (hρ : 2 ≤ ρ) (hρi : (ρ:Int) ≤ 2147483647) :
    ∀ (n : Nat) (a : Int), 1 ≤ a → a ≤ P.max → P.max < a * pw ρ n → ∃ m, powerValueInt.go ρ n (P, a) = .ill m
  | 0, a, h1, ha, h => by rw [pw_zero] at h; omega
  | n+1, a, h1, ha, h => by
    have h32 : 32 ≤ P.bits := by have := promote_bits_ge32 P; rw [hP] at this; omega
    have hb : 1 ≤ P.bits := by omega
    have hz := zero_le_max P
    have hlo : P.lowest ≤ 0 := hz.1
    have hρ' : (2:Int) ≤ (ρ : Int) := by exact_mod_cast hρ
    have haρ : 1 ≤ a * (ρ:Int) := by
      have := Int.mul_le_mul h1 (show (1:Int) ≤ ρ by omega) (by omega) (by omega); omega
    have hlh := (lo_hi P h32).2
    have hbd := bound_eval P hP ρ hρ (by omega)
    have hq0 : 0 ≤ P.max / (ρ:Int) := Int.ediv_nonneg (by omega) (by omega)
    have hq1 : P.max / (ρ:Int) ≤ P.max := Int.ediv_le_self _ (by omega)
    have hle := le_eval P P (usualArith_of_promote_self hP) hb (a := a) (b := P.max / (ρ:Int))
      ⟨by omega, by omega⟩ ⟨by omega, by omega⟩
    by_cases hfit : a * (ρ:Int) ≤ P.max
    · have h3 : (ρ:Int) ≤ a * ρ := by
        have := Int.mul_le_mul_of_nonneg_right h1 (show 0 ≤ (ρ:Int) by omega); omega
      have wa : P.wrap a = a := IntTy.wrap_id hb ⟨by omega, by omega⟩
      have wρ : P.wrap (ρ:Int) = ρ := IntTy.wrap_id hb ⟨by omega, by omega⟩
      have hin : P.InRange (a * (ρ:Int)) := ⟨by omega, by omega⟩
      have hg : a ≤ P.max / (ρ:Int) := (le_div_iff_mul_le hρ).2 hfit
      simp only [powerValueInt.go, usualArith_i32, hP, hbd, hle, hg, decide_true, ite_true, go_step P hP, wa, wρ,
        arith_ok hb hin]
      apply go_ill P hP ρ hρ hρi n _ haρ hfit
      rw [pw_succ, ← Int.mul_assoc, Int.mul_right_comm] at h
      exact h
    · have hg : ¬ a ≤ P.max / (ρ:Int) := fun hh => hfit ((le_div_iff_mul_le hρ).1 hh)
      simp only [powerValueInt.go, usualArith_i32, hP, hbd, hle, hg, decide_false, Bool.false_eq_true, ite_false]
      exact ⟨_, rfl⟩

/-- `power_value<S, k, ρ>()`: type and value of a well-formed instantiation: `ρ^k` in the promoted type
(written with the conversion into that type, which is the identity on a well-formed power:
`PowOk.representable`) -/
theorem powerValueInt_eq (S : IntTy) (k ρ : Nat) (hρ : 2 ≤ ρ) (h : PowOk S k ρ) :
    powerValueInt S k ρ = .ok (if k = 0 then S else promote S, (promote S).wrap (pw ρ k)) := by
  have hP := promote_promote S
  have hb := promote_bits_pos S
  have hf := h.representable hρ
  rw [IntTy.wrap_id hb hf]
  unfold powerValueInt
  by_cases hk : k = 0
  · subst hk
    simp only [ite_true, pw_zero]
  · simp only [hk, ite_false]
    by_cases h2 : ρ = 2
    · subst h2
      have hk' : k < (promote S).digits := by
        rcases h with h | h
        · exact absurd h hk
        · simpa using h
      simp only [ite_true, hk', pw_two]
    · simp only [h2, ite_false]
      obtain ⟨n, rfl⟩ : ∃ n, k = n + 1 := ⟨k - 1, by omega⟩
      have hstep : cBin .mul (S, 1) (i32, (ρ:Int)) = arith (promote S) ((promote S).wrap 1 * (promote S).wrap ρ) := by
        simp only [cBin]; rw [usualArith_i32]
      have hz := zero_le_max (promote S)
      have hlh := (lo_hi (promote S) (promote_bits_ge32 S)).2
      have h1 : (promote S).InRange 1 := ⟨by omega, by omega⟩
      have w1 : (promote S).wrap 1 = 1 := IntTy.wrap_id hb h1
      have hmax : pw ρ (n+1) ≤ (promote S).max := hf.2
      have hρ' : (2:Int) ≤ (ρ : Int) := by exact_mod_cast hρ
      have hpn := pw_ge_one hρ n
      have hle : (ρ:Int) ≤ pw ρ (n+1) := by
        rw [pw_succ]
        have := Int.mul_le_mul_of_nonneg_right hpn (show 0 ≤ (ρ:Int) by omega); omega
      have hin : (promote S).InRange (ρ:Int) := ⟨by omega, by omega⟩
      have wρ : (promote S).wrap (ρ:Int) = ρ := IntTy.wrap_id hb hin
      have hg : (1:Int) ≤ (promote S).max / (ρ:Int) := (le_div_iff_mul_le hρ).2 (by omega)
      have hbd := bound_eval (promote S) hP ρ hρ (by omega)
      have hq1 : (promote S).max / (ρ:Int) ≤ (promote S).max := Int.ediv_le_self _ (by omega)
      have hle := le_eval S (promote S) (usualArith_self_promote S) hb (a := 1) (b := (promote S).max / (ρ:Int))
        h1 ⟨by omega, by omega⟩
      simp only [powerValueInt.go, usualArith_i32, hbd, hle, hg, decide_true, ite_true, hstep, w1, wρ, Int.one_mul,
        arith_ok hb hin]
      rw [go_ok _ hP ρ hρ n _ (by omega) (by rw [pw_succ, Int.mul_comm] at hmax; exact hmax),
        pw_succ, Int.mul_comm]

/-- an instantiation that is not well-formed does not compile (`ρ` is an `int` template argument) -/
theorem powerValueInt_ill (S : IntTy) (k ρ : Nat) (hρ : 2 ≤ ρ) (hρi : (ρ:Int) ≤ 2147483647)
    (h : ¬ PowOk S k ρ) : ∃ m, powerValueInt S k ρ = .ill m := by
  have hP := promote_promote S
  have hb := promote_bits_pos S
  unfold PowOk at h
  have hk : k ≠ 0 := fun hk => h (Or.inl hk)
  have h' := fun hh => h (Or.inr hh)
  unfold powerValueInt
  simp only [hk, ite_false]
  by_cases h2 : ρ = 2
  · subst h2
    simp only [ite_true] at h' ⊢
    have hnk : ¬ k < (promote S).digits := h'
    simp only [hnk, ite_false]
    exact ⟨_, rfl⟩
  · simp only [h2, ite_false] at h' ⊢
    obtain ⟨n, rfl⟩ : ∃ n, k = n + 1 := ⟨k - 1, by omega⟩
    have hmax : (promote S).max < pw ρ (n+1) := Int.not_le.1 h'
    have hstep : cBin .mul (S, 1) (i32, (ρ:Int)) = arith (promote S) ((promote S).wrap 1 * (promote S).wrap ρ) := by
      simp only [cBin]; rw [usualArith_i32]
    have hlh := (lo_hi (promote S) (promote_bits_ge32 S)).2
    have hz := zero_le_max (promote S)
    have hρ' : (2:Int) ≤ (ρ : Int) := by exact_mod_cast hρ
    have w1 : (promote S).wrap 1 = 1 := IntTy.wrap_id hb ⟨by omega, by omega⟩
    have hin : (promote S).InRange (ρ:Int) := ⟨by omega, by omega⟩
    have wρ : (promote S).wrap (ρ:Int) = ρ := IntTy.wrap_id hb hin
    have hg : (1:Int) ≤ (promote S).max / (ρ:Int) := (le_div_iff_mul_le hρ).2 (by omega)
    have hbd := bound_eval (promote S) hP ρ hρ (by omega)
    have hq1 : (promote S).max / (ρ:Int) ≤ (promote S).max := Int.ediv_le_self _ (by omega)
    have hle := le_eval S (promote S) (usualArith_self_promote S) hb (a := 1) (b := (promote S).max / (ρ:Int))
      ⟨by omega, by omega⟩ ⟨by omega, by omega⟩
    simp only [powerValueInt.go, usualArith_i32, hbd, hle, hg, decide_true, ite_true, hstep, w1, wρ, Int.one_mul,
      arith_ok hb hin]
    apply go_ill _ hP ρ hρ hρi n _ (by omega) (by omega)
    rw [pw_succ, Int.mul_comm] at hmax; exact hmax

/-- the as-found repeated multiplication: exact while the running product fits -/
theorem goOrig_ok (P : IntTy) (hP : promote P = P) (ρ : Nat) (hρ : 2 ≤ ρ) :
    ∀ (n : Nat) (a : Int), 1 ≤ a → a * pw ρ n ≤ P.max → powerValueIntOrig.go ρ n (P, a) = .ok (P, a * pw ρ n)
  | 0, a, h1, h => by simp only [powerValueIntOrig.go, pw_zero, Int.mul_one]
  | n+1, a, h1, h => by
    have hb : 1 ≤ P.bits := by have := promote_bits_ge32 P; rw [hP] at this; omega
    have hz := zero_le_max P
    have hlo : P.lowest ≤ 0 := hz.1
    have hpn := pw_ge_one hρ n
    rw [pw_succ, ← Int.mul_assoc, Int.mul_right_comm] at h
    have hρ' : (2:Int) ≤ (ρ : Int) := by exact_mod_cast hρ
    have haρ : 1 ≤ a * (ρ:Int) := by
      have := Int.mul_le_mul h1 (show (1:Int) ≤ ρ by omega) (by omega) (by omega); omega
    have h2 : a * (ρ:Int) ≤ a * ρ * pw ρ n := by
      have := Int.mul_le_mul_of_nonneg_left hpn (show 0 ≤ a * (ρ:Int) by omega); omega
    have h3 : (ρ:Int) ≤ a * ρ := by
      have := Int.mul_le_mul_of_nonneg_right h1 (show 0 ≤ (ρ:Int) by omega); omega
    have h4 : a ≤ a * ρ := by
      have := Int.mul_le_mul_of_nonneg_left (show (1:Int) ≤ ρ by omega) (show 0 ≤ a by omega); omega
    have wa : P.wrap a = a := IntTy.wrap_id hb ⟨by omega, by omega⟩
    have wρ : P.wrap (ρ:Int) = ρ := IntTy.wrap_id hb ⟨by omega, by omega⟩
    have hin : P.InRange (a * (ρ:Int)) := ⟨by omega, by omega⟩
    simp only [powerValueIntOrig.go, go_step P hP, wa, wρ, arith_ok hb hin]
    rw [goOrig_ok P hP ρ hρ n _ haρ h, pw_succ]
    congr 2
    rw [Int.mul_assoc, Int.mul_comm (ρ:Int)]

/-- the repair changed nothing where the power is representable -/
theorem powerValueIntOrig_eq (S : IntTy) (k ρ : Nat) (hρ : 2 ≤ ρ) (hf : PowFits S k ρ) :
    powerValueIntOrig S k ρ = powerValueInt S k ρ := by
  have hP := promote_promote S
  have hb := promote_bits_pos S
  rw [powerValueInt_eq S k ρ hρ hf.ok, IntTy.wrap_id hb hf]
  unfold powerValueIntOrig
  by_cases hk : k = 0
  · subst hk; simp only [ite_true, pw_zero]
  · simp only [hk, ite_false]
    by_cases h2 : ρ = 2
    · subst h2
      have hk' : k < (promote S).digits := by
        rcases hf.ok with h | h
        · exact absurd h hk
        · simpa using h
      simp only [ite_true, hk', pw_two]
    · simp only [h2, ite_false]
      obtain ⟨n, rfl⟩ : ∃ n, k = n + 1 := ⟨k - 1, by omega⟩
      have hstep : cBin .mul (S, 1) (i32, (ρ:Int)) = arith (promote S) ((promote S).wrap 1 * (promote S).wrap ρ) := by
        simp only [cBin]; rw [usualArith_i32]
      have hz := zero_le_max (promote S)
      have hlh := (lo_hi (promote S) (promote_bits_ge32 S)).2
      have w1 : (promote S).wrap 1 = 1 := IntTy.wrap_id hb ⟨by omega, by omega⟩
      have hmax : pw ρ (n+1) ≤ (promote S).max := hf.2
      have hρ' : (2:Int) ≤ (ρ : Int) := by exact_mod_cast hρ
      have hpn := pw_ge_one hρ n
      have hle : (ρ:Int) ≤ pw ρ (n+1) := by
        rw [pw_succ]
        have := Int.mul_le_mul_of_nonneg_right hpn (show 0 ≤ (ρ:Int) by omega); omega
      have hin : (promote S).InRange (ρ:Int) := ⟨by omega, by omega⟩
      have wρ : (promote S).wrap (ρ:Int) = ρ := IntTy.wrap_id hb hin
      simp only [powerValueIntOrig.go, hstep, w1, wρ, Int.one_mul, arith_ok hb hin]
      rw [goOrig_ok _ hP ρ hρ n _ (by omega) (by rw [pw_succ, Int.mul_comm] at hmax; exact hmax),
        pw_succ, Int.mul_comm]

/-- `power_value` compiles exactly when `PowOk` holds -/
theorem powerValueInt_ok_iff (S : IntTy) (k ρ : Nat) (hρ : 2 ≤ ρ) (hρi : (ρ:Int) ≤ 2147483647) :
    (∃ v, powerValueInt S k ρ = .ok v) ↔ PowOk S k ρ := by
  constructor
  · intro ⟨v, hv⟩
    apply Decidable.byContradiction; intro h
    obtain ⟨m, hm⟩ := powerValueInt_ill S k ρ hρ hρi h
    rw [hm] at hv; cases hv
  · intro h; exact ⟨_, powerValueInt_eq S k ρ hρ h⟩

/-- a well-formed power is positive: the assertion `0 < divisor` of `default_scale<-k>` cannot fail for
a built-in representation -/
theorem powerValueInt_pos (S : IntTy) (k ρ : Nat) (hρ : 2 ≤ ρ) (hρi : (ρ:Int) ≤ 2147483647) (p : TV)
    (h : powerValueInt S k ρ = .ok p) : 0 < p.2 := by
  have hok := (powerValueInt_ok_iff S k ρ hρ hρi).1 ⟨p, h⟩
  rw [powerValueInt_eq S k ρ hρ hok, IntTy.wrap_id (promote_bits_pos S) (hok.representable hρ)] at h
  cases h
  exact pw_pos hρ k

/-! ## `scale<k, ρ>` -/

/-- `scale<k>` for `k ≥ 0` is one built-in multiplication in the promoted type -/
theorem scaleInt_up_eq (S : IntTy) (hS : 1 ≤ S.bits) (k : Int) (hk : 0 ≤ k) (ρ : Nat) (hρ : 2 ≤ ρ)
    (hw : PowOk S k.toNat ρ) (v : Int) (hv : S.InRange v) :
    scaleInt k ρ (S, v) = arith (promote S) (v * (promote S).wrap (pw ρ k.toNat)) := by
  have hb := promote_bits_pos S
  unfold scaleInt
  simp only [ge_iff_le, hk, ite_true, powerValueInt_eq S k.toNat ρ hρ hw, Res.bind_ok]
  have hT : usualArith S (if k.toNat = 0 then S else promote S) = promote S := by
    split
    · exact usualArith_self S
    · exact usualArith_self_promote S
  simp only [cBin, hT, wrap_wrap, IntTy.wrap_id hb (promote_inRange hS hv)]

/-- … exact whenever the scaled value fits the promoted type (an unsigned promoted type wraps,
which cancels) -/
theorem scaleInt_up (S : IntTy) (hS : 1 ≤ S.bits) (k : Int) (hk : 0 ≤ k) (ρ : Nat) (hρ : 2 ≤ ρ)
    (hw : PowOk S k.toNat ρ) (v : Int) (hv : S.InRange v) (hfit : (promote S).InRange (v * pw ρ k.toNat)) :
    scaleInt k ρ (S, v) = .ok (promote S, v * pw ρ k.toNat) := by
  have hb := promote_bits_pos S
  rw [scaleInt_up_eq S hS k hk ρ hρ hw v hv]
  apply arith_of hb hfit
  · intro hs
    rw [IntTy.wrap_id hb (PowOk.fits hρ hw (Or.inl hs))]
  · intro _
    exact wrap_mul_wrap_right _ _ _

/-- signed promoted type: `scale<k>`, `k ≥ 0`, is defined exactly when the scaled value fits -/
theorem scaleInt_up_signed (S : IntTy) (hS : 1 ≤ S.bits) (k : Int) (hk : 0 ≤ k) (ρ : Nat) (hρ : 2 ≤ ρ)
    (hw : PowOk S k.toNat ρ) (v : Int) (hv : S.InRange v) (hs : (promote S).signed = true) :
    scaleInt k ρ (S, v) = if (promote S).InRange (v * pw ρ k.toNat) then .ok (promote S, v * pw ρ k.toNat)
      else .ub .signedOverflow := by
  have hb := promote_bits_pos S
  rw [scaleInt_up_eq S hS k hk ρ hρ hw v hv, IntTy.wrap_id hb (PowOk.fits hρ hw (Or.inl hs)), arith_signed hs]

/-- truncated division by a positive number keeps a value in range -/
theorem tdiv_pos_inRange {T : IntTy} {a b : Int} (ha : T.InRange a) (hb : 0 < b) : T.InRange (a.tdiv b) := by
  have hz := zero_le_max T
  unfold IntTy.InRange at *
  have hf := tdiv_tmod_facts a b (by omega)
  have h1 := Int.natAbs_tdiv_le_natAbs a b
  by_cases h0 : 0 ≤ a
  · have := Int.tdiv_nonneg h0 (Int.le_of_lt hb); omega
  · have := Int.tdiv_nonneg (a := -a) (b := b) (by omega) (Int.le_of_lt hb)
    rw [Int.neg_tdiv] at this
    omega

/-- `scale<k>` for `k < 0` is one truncating division by `ρ^(-k)` (which must be representable:
for an unsigned promoted type the constant evaluation of the power would wrap silently) -/
theorem scaleInt_down (S : IntTy) (hS : 1 ≤ S.bits) (k : Int) (hk : k < 0) (ρ : Nat) (hρ : 2 ≤ ρ)
    (hw : PowFits S (-k).toNat ρ) (v : Int) (hv : S.InRange v) :
    scaleInt k ρ (S, v) = .ok (promote S, v.tdiv (pw ρ (-k).toNat)) := by
  have hb := promote_bits_pos S
  have hk' : ¬ (0 ≤ k) := by omega
  have hn : (-k).toNat ≠ 0 := by omega
  have hpos := pw_pos hρ (-k).toNat
  unfold scaleInt
  have hgt : cCmp .gt (promote S, pw ρ (-k).toNat) (i32, 0) = true := by
    have h0 : (promote S).InRange 0 := zero_le_max (promote S)
    simp only [cCmp, usualArith_i32, promote_promote, IntTy.wrap_id hb hw, IntTy.wrap_id hb h0]
    exact decide_eq_true hpos
  simp only [ge_iff_le, hk', ite_false, powerValueInt_eq S _ ρ hρ hw.ok, Res.bind_ok, hn,
    IntTy.wrap_id hb hw, hgt, ite_true]
  have hne : pw ρ (-k).toNat ≠ 0 := by omega
  have hov : ¬ ((promote S).signed = true ∧ v = (promote S).lowest ∧ pw ρ (-k).toNat = -1) := by
    intro ⟨_, _, h⟩; omega
  simp only [cBin, usualArith_self_promote, wrap_wrap, IntTy.wrap_id hb (promote_inRange hS hv),
    IntTy.wrap_id hb hw, hne, hov, ite_false]
  exact arith_ok hb (tdiv_pos_inRange (promote_inRange hS hv) hpos)

/-! ## how the wrapper dispatch unfolds for `scaled_integer<built-in>` operands -/

/-- the scaled number `(rep type, exponent, radix, rep value)` -/
abbrev sc (T : IntTy) (e : Int) (ρ : Nat) (v : Int) : Num := (.sc (.int T) e ρ, v)

/-- the result of a representation operator, wrapped at exponent `e` -/
def wrapAt (e : Int) (ρ : Nat) (r : Res TV) : Res Num := r.map (fun v => sc v.1 e ρ v.2)

@[simp] theorem wrapAt_ok (e : Int) (ρ : Nat) (v : TV) : wrapAt e ρ (.ok v) = .ok (sc v.1 e ρ v.2) := rfl

theorem bin_sc_sc (op : BinOp) (L R : IntTy) (eL eR : Int) (ρ : Nat) (l r : Int) :
    Layered.bin op (sc L eL ρ l) (sc R eR ρ r)
      = match op with
        | .shl | .shr => shiftWith (ops 0) op (sc L eL ρ l) (sc R eR ρ r)
        | _ => (Scaled.binOp intOps op ρ ⟨(.int L, l), eL⟩ ⟨(.int R, r), eR⟩).map (wrapSc ρ) := by
  cases op <;> simp [Layered.bin, level, Ty.depth, ops, binWith, balance, binHeads]

/-- operators that are applied to the representations directly -/
theorem binOp_direct (op : BinOp) (L R : IntTy) (eL eR : Int) (ρ : Nat) (l r : Int)
    (h : eL = eR ∨ Scaled.isZeroDegree op = false) :
    (Scaled.binOp intOps op ρ ⟨(.int L, l), eL⟩ ⟨(.int R, r), eR⟩).map (wrapSc ρ)
      = wrapAt (Scaled.resultExp op eL eR) ρ (cBin op (L, l) (R, r)) := by
  have h' : eL = eR ∨ (!Scaled.isZeroDegree op) = true := by
    rcases h with h | h
    · exact Or.inl h
    · right; simp [h]
  simp only [Scaled.binOp, h', ite_true, intOps, liftTV]
  cases cBin op (L, l) (R, r) <;> rfl

/-- `+ - & | ^` between different exponents: both operands are scaled to the smaller exponent -/
theorem binOp_aligned (op : BinOp) (L R : IntTy) (eL eR : Int) (ρ : Nat) (l r : Int)
    (hne : eL ≠ eR) (hz : Scaled.isZeroDegree op = true) :
    (Scaled.binOp intOps op ρ ⟨(.int L, l), eL⟩ ⟨(.int R, r), eR⟩).map (wrapSc ρ)
      = (scaleInt (eL - min eL eR) ρ (L, l) >>= fun a =>
         scaleInt (eR - min eL eR) ρ (R, r) >>= fun b =>
         wrapAt (min eL eR) ρ (cBin op a b)) := by
  have h' : ¬ (eL = eR ∨ (!Scaled.isZeroDegree op) = true) := by simp [hne, hz]
  simp only [Scaled.binOp, h', ite_false, intOps, liftTV]
  cases scaleInt (eL - min eL eR) ρ (L, l) <;> try rfl
  cases scaleInt (eR - min eL eR) ρ (R, r) <;> try rfl
  rename_i a b
  obtain ⟨aT, av⟩ := a; obtain ⟨bT, bv⟩ := b
  show (Res.map _ (Res.bind (Res.map _ (cBin op (aT, av) (bT, bv))) _)) = (wrapAt _ _ (cBin op (aT, av) (bT, bv)))
  cases cBin op (aT, av) (bT, bv) <;> rfl

theorem cmp_sc_sc (op : CmpOp) (L R : IntTy) (eL eR : Int) (ρ : Nat) (l r : Int) :
    Layered.cmp op (sc L eL ρ l) (sc R eR ρ r)
      = Scaled.cmp intOps op ρ ⟨(.int L, l), eL⟩ ⟨(.int R, r), eR⟩ := by
  simp [Layered.cmp, level, Ty.depth, ops, cmpWith, balance, cmpHeads]

theorem cast_sc_sc (D S : IntTy) (eD eS : Int) (ρ : Nat) (v : Int) :
    Layered.cast (.sc (.int D) eD ρ) (sc S eS ρ v)
      = (Scaled.convert intOps ρ ⟨(.int S, v), eS⟩ (.int D) eD).map (wrapSc ρ) := by
  simp [Layered.cast, Ty.depth, ops, castWith]

theorem neg_sc (L : IntTy) (e : Int) (ρ : Nat) (l : Int) :
    Layered.un .neg (sc L e ρ l) = wrapAt e ρ (cNeg (L, l)) := by
  show Res.map _ (Res.map _ (cNeg (L, l))) = Res.map _ (cNeg (L, l))
  cases cNeg (L, l) <;> rfl

/-- conversion of a scaled integer with a built-in representation -/
theorem convert_eq (D S : IntTy) (eD eS : Int) (ρ : Nat) (v : Int) :
    (Scaled.convert intOps ρ ⟨(.int S, v), eS⟩ (.int D) eD).map (wrapSc ρ)
      = if eS = eD then .ok (sc D eD ρ (D.wrap v))
        else scaleInt (eS - eD) ρ (S, v) >>= fun a => .ok (sc D eD ρ (D.wrap a.2)) := by
  unfold Scaled.convert
  split
  · rfl
  · simp only [intOps, liftTV]
    cases scaleInt (eS - eD) ρ (S, v) <;> rfl

/-! ## the built-in ring operators `+ - *` -/

open Cnl.Elastic (AOp.toBin)

/-- `+`, `-`, `*` -/
def IsRing (op : AOp) : Prop := op = .add ∨ op = .sub ∨ op = .mul

theorem cBin_ring_eq (op : AOp) (hop : IsRing op) (A B : IntTy) (a b : Int) :
    cBin (AOp.toBin op) (A, a) (B, b)
      = arith (usualArith A B) (exact op ((usualArith A B).wrap a) ((usualArith A B).wrap b)) := by
  rcases hop with h | h | h <;> subst h <;> rfl

theorem wrap_exact_wrap (T : IntTy) (op : AOp) (hop : IsRing op) (a b : Int) :
    T.wrap (exact op (T.wrap a) (T.wrap b)) = T.wrap (exact op a b) := by
  rcases hop with h | h | h <;> subst h
  · exact wrap_add_wrap T a b
  · exact wrap_sub_wrap T a b
  · exact wrap_mul_wrap T a b

/-- signed common type holding both operands: defined exactly when the exact result fits -/
theorem cBin_ring_signed (op : AOp) (hop : IsRing op) {A B T : IntTy} (hT : usualArith A B = T)
    (hs : T.signed = true) {a b : Int} (ha : T.InRange a) (hb : T.InRange b) :
    cBin (AOp.toBin op) (A, a) (B, b)
      = if T.InRange (exact op a b) then .ok (T, exact op a b) else .ub .signedOverflow := by
  have hbits : 1 ≤ T.bits := by rw [← hT]; exact usualArith_bits_pos A B
  rw [cBin_ring_eq op hop, hT, IntTy.wrap_id hbits ha, IntTy.wrap_id hbits hb, arith_signed hs]

/-- unsigned common type: the operation wraps -/
theorem cBin_ring_unsigned (op : AOp) (hop : IsRing op) {A B T : IntTy} (hT : usualArith A B = T)
    (hs : T.signed = false) (a b : Int) :
    cBin (AOp.toBin op) (A, a) (B, b) = .ok (T, T.wrap (exact op a b)) := by
  rw [cBin_ring_eq op hop, hT, arith_unsigned hs, wrap_exact_wrap T op hop]

/-- the exact result whenever it fits (and, for a signed common type, the operands do) -/
theorem cBin_ring_exact (op : AOp) (hop : IsRing op) {A B T : IntTy} (hT : usualArith A B = T)
    {a b : Int} (hs : T.signed = true → T.InRange a ∧ T.InRange b) (he : T.InRange (exact op a b)) :
    cBin (AOp.toBin op) (A, a) (B, b) = .ok (T, exact op a b) := by
  have hbits : 1 ≤ T.bits := by rw [← hT]; exact usualArith_bits_pos A B
  cases h : T.signed with
  | true => rw [cBin_ring_signed op hop hT h (hs h).1 (hs h).2]; simp only [he, ite_true]
  | false => rw [cBin_ring_unsigned op hop hT h, IntTy.wrap_id hbits he]

/-! ## alignment -/

theorem aligned_self (ρ : Nat) (e : Int) (v : Int) : aligned ρ e e v = v := by
  unfold aligned; rw [Int.sub_self]; simp [pw_zero]

theorem aligned_of_eq (ρ : Nat) {e c : Int} (h : e = c) (v : Int) : aligned ρ e c v = v := by
  subst h; exact aligned_self ρ e v

/-- re-expressing twice is re-expressing once -/
theorem aligned_aligned (ρ : Nat) {e c b : Int} (h1 : c ≤ e) (h2 : b ≤ c) (v : Int) :
    aligned ρ c b (aligned ρ e c v) = aligned ρ e b v := by
  unfold aligned
  have : (e - b).toNat = (e - c).toNat + (c - b).toNat := by omega
  rw [this, pw_add, Int.mul_assoc]

theorem aligned_add (ρ : Nat) (e c : Int) (v w : Int) : aligned ρ e c (v + w) = aligned ρ e c v + aligned ρ e c w := by
  unfold aligned; exact Int.add_mul ..

theorem aligned_sub (ρ : Nat) (e c : Int) (v w : Int) : aligned ρ e c (v - w) = aligned ρ e c v - aligned ρ e c w := by
  unfold aligned; exact Int.sub_mul ..

theorem aligned_neg (ρ : Nat) (e c : Int) (v : Int) : aligned ρ e c (-v) = -aligned ρ e c v := by
  unfold aligned; exact Int.neg_mul ..

/-- the type in which an aligned operand reaches the representation operator: its own type if no
scaling is needed at all (equal exponents), else the promoted type (the type of `rep * power`) -/
def alTy (S : IntTy) (eL eR : Int) : IntTy := if eL = eR then S else promote S

theorem usualArith_alTy (L R : IntTy) (eL eR : Int) :
    usualArith (alTy L eL eR) (alTy R eL eR) = usualArith L R := by
  unfold alTy; split
  · rfl
  · exact usualArith_promote L R

/-- zero-degree operators (`+ -`): if both alignments are well-formed and fit the promoted types,
the scaled operator is the built-in operator on the aligned representations -/
theorem bin_aligned (op : AOp) (hop : op = .add ∨ op = .sub) (L R : IntTy) (hL : 1 ≤ L.bits) (hR : 1 ≤ R.bits)
    (eL eR : Int) (ρ : Nat) (hρ : 2 ≤ ρ) (l r : Int) (hl : L.InRange l) (hr : R.InRange r)
    (hwL : PowOk L (eL - min eL eR).toNat ρ) (hwR : PowOk R (eR - min eL eR).toNat ρ)
    (hal : (promote L).InRange (aligned ρ eL (min eL eR) l))
    (har : (promote R).InRange (aligned ρ eR (min eL eR) r)) :
    Layered.bin (AOp.toBin op) (sc L eL ρ l) (sc R eR ρ r)
      = wrapAt (min eL eR) ρ (cBin (AOp.toBin op) (alTy L eL eR, aligned ρ eL (min eL eR) l)
                                               (alTy R eL eR, aligned ρ eR (min eL eR) r)) := by
  have hz : Scaled.isZeroDegree (AOp.toBin op) = true := by rcases hop with h | h <;> subst h <;> rfl
  have hre : Scaled.resultExp (AOp.toBin op) eL eR = min eL eR := by rcases hop with h | h <;> subst h <;> rfl
  have hb : Layered.bin (AOp.toBin op) (sc L eL ρ l) (sc R eR ρ r)
      = (Scaled.binOp intOps (AOp.toBin op) ρ ⟨(.int L, l), eL⟩ ⟨(.int R, r), eR⟩).map (wrapSc ρ) := by
    rw [bin_sc_sc]; rcases hop with h | h <;> subst h <;> rfl
  rw [hb]
  by_cases he : eL = eR
  · rw [binOp_direct _ _ _ _ _ _ _ _ (Or.inl he), hre]
    have h1 : eL = min eL eR := by omega
    have h2 : eR = min eL eR := by omega
    simp only [alTy, he, ite_true]
    rw [aligned_of_eq ρ (by omega) l, aligned_of_eq ρ (by omega) r]
  · rw [binOp_aligned _ _ _ _ _ _ _ _ he hz]
    unfold aligned at hal har ⊢
    rw [scaleInt_up L hL _ (by omega) ρ hρ hwL l hl hal, scaleInt_up R hR _ (by omega) ρ hρ hwR r hr har]
    simp only [alTy, he, ite_false]
    rfl

/-- `+ -` with signed promoted representations: the evaluation is defined exactly when the aligned
operands fit their promoted types and the exact result fits the common type -/
theorem bin_signed_guard (op : AOp) (hop : op = .add ∨ op = .sub) (L R : IntTy) (hL : 1 ≤ L.bits) (hR : 1 ≤ R.bits)
    (eL eR : Int) (ρ : Nat) (hρ : 2 ≤ ρ) (l r : Int) (hl : L.InRange l) (hr : R.InRange r)
    (hwL : PowOk L (eL - min eL eR).toNat ρ) (hwR : PowOk R (eR - min eL eR).toNat ρ)
    (hsL : (promote L).signed = true) (hsR : (promote R).signed = true) :
    Layered.bin (AOp.toBin op) (sc L eL ρ l) (sc R eR ρ r)
      = if (promote L).InRange (aligned ρ eL (min eL eR) l) ∧ (promote R).InRange (aligned ρ eR (min eL eR) r)
            ∧ (usualArith L R).InRange (exact op (aligned ρ eL (min eL eR) l) (aligned ρ eR (min eL eR) r))
        then .ok (sc (usualArith L R) (min eL eR) ρ (exact op (aligned ρ eL (min eL eR) l) (aligned ρ eR (min eL eR) r)))
        else .ub .signedOverflow := by
  have hring : IsRing op := by rcases hop with h | h <;> simp [IsRing, h]
  have hTs := usualArith_signed hsL hsR
  by_cases hal : (promote L).InRange (aligned ρ eL (min eL eR) l)
  · by_cases har : (promote R).InRange (aligned ρ eR (min eL eR) r)
    · rw [bin_aligned op hop L R hL hR eL eR ρ hρ l r hl hr hwL hwR hal har,
        cBin_ring_signed op hring (usualArith_alTy L R eL eR) hTs
          (inRange_common_left hal (Or.inl hTs)) (inRange_common_right har (Or.inl hTs))]
      simp only [hal, har, true_and]
      split <;> rfl
    · -- the right alignment overflows
      have he : eL ≠ eR := by
        intro he; apply har; rw [aligned_of_eq ρ (by omega) r]; exact promote_inRange hR hr
      have hz : Scaled.isZeroDegree (AOp.toBin op) = true := by rcases hop with h | h <;> subst h <;> rfl
      have hb : Layered.bin (AOp.toBin op) (sc L eL ρ l) (sc R eR ρ r)
          = (Scaled.binOp intOps (AOp.toBin op) ρ ⟨(.int L, l), eL⟩ ⟨(.int R, r), eR⟩).map (wrapSc ρ) := by
        rw [bin_sc_sc]; rcases hop with h | h <;> subst h <;> rfl
      rw [hb, binOp_aligned _ _ _ _ _ _ _ _ he hz]
      unfold aligned at hal har ⊢
      rw [scaleInt_up L hL _ (by omega) ρ hρ hwL l hl hal,
        scaleInt_up_signed R hR _ (by omega) ρ hρ hwR r hr hsR]
      simp only [har, hal, ite_false, false_and, and_false]
      rfl
  · have he : eL ≠ eR := by
      intro he; apply hal; rw [aligned_of_eq ρ (by omega) l]; exact promote_inRange hL hl
    have hz : Scaled.isZeroDegree (AOp.toBin op) = true := by rcases hop with h | h <;> subst h <;> rfl
    have hb : Layered.bin (AOp.toBin op) (sc L eL ρ l) (sc R eR ρ r)
        = (Scaled.binOp intOps (AOp.toBin op) ρ ⟨(.int L, l), eL⟩ ⟨(.int R, r), eR⟩).map (wrapSc ρ) := by
      rw [bin_sc_sc]; rcases hop with h | h <;> subst h <;> rfl
    rw [hb, binOp_aligned _ _ _ _ _ _ _ _ he hz]
    unfold aligned at hal ⊢
    rw [scaleInt_up_signed L hL _ (by omega) ρ hρ hwL l hl hsL]
    simp only [hal, ite_false, false_and]
    rfl

/-- an operand value is a value of the common type when that is signed -/
theorem inRange_common_of_left {L R : IntTy} (hL : 1 ≤ L.bits) {l : Int} (hl : L.InRange l)
    (hs : (usualArith L R).signed = true ∨ 0 ≤ l) : (usualArith L R).InRange l :=
  inRange_common_left (promote_inRange hL hl) hs

theorem inRange_common_of_right {L R : IntTy} (hR : 1 ≤ R.bits) {r : Int} (hr : R.InRange r)
    (hs : (usualArith L R).signed = true ∨ 0 ≤ r) : (usualArith L R).InRange r :=
  inRange_common_right (promote_inRange hR hr) hs

/-- `* / %`: the built-in operator on the two representations, exponent by the operator's rule -/
theorem bin_direct (op : AOp) (hop : op = .mul ∨ op = .div ∨ op = .mod) (L R : IntTy)
    (eL eR : Int) (ρ : Nat) (l r : Int) :
    Layered.bin (AOp.toBin op) (sc L eL ρ l) (sc R eR ρ r)
      = wrapAt (Scaled.resultExp (AOp.toBin op) eL eR) ρ (cBin (AOp.toBin op) (L, l) (R, r)) := by
  have hz : Scaled.isZeroDegree (AOp.toBin op) = false := by rcases hop with h | h | h <;> subst h <;> rfl
  have hb : Layered.bin (AOp.toBin op) (sc L eL ρ l) (sc R eR ρ r)
      = (Scaled.binOp intOps (AOp.toBin op) ρ ⟨(.int L, l), eL⟩ ⟨(.int R, r), eR⟩).map (wrapSc ρ) := by
    rw [bin_sc_sc]; rcases hop with h | h | h <;> subst h <;> rfl
  rw [hb, binOp_direct _ _ _ _ _ _ _ _ (Or.inr hz)]

/-- `*`: exact whenever the product fits the common type -/
theorem bin_mul_exact (L R : IntTy) (hL : 1 ≤ L.bits) (hR : 1 ≤ R.bits) (eL eR : Int) (ρ : Nat)
    (l r : Int) (hl : L.InRange l) (hr : R.InRange r)
    (hres : (usualArith L R).InRange (l * r)) :
    Layered.bin .mul (sc L eL ρ l) (sc R eR ρ r) = .ok (sc (usualArith L R) (eL + eR) ρ (l * r)) := by
  have h := bin_direct .mul (Or.inl rfl) L R eL eR ρ l r
  have hring : IsRing .mul := by simp [IsRing]
  rw [show AOp.toBin .mul = BinOp.mul from rfl] at h
  rw [h, show BinOp.mul = AOp.toBin .mul from rfl, cBin_ring_exact .mul hring rfl
      (fun hs => ⟨inRange_common_of_left hL hl (Or.inl hs), inRange_common_of_right hR hr (Or.inl hs)⟩) hres]
  rfl

/-! ## `/` and `%` -/

theorem lowest_eq_of {T : IntTy} (h32 : 32 ≤ T.bits) {a : Int} (ha : T.InRange a) (h : a = -T.max - 1) :
    T.signed = true ∧ a = T.lowest := by
  have ⟨hlh, hhi⟩ := lo_hi T h32
  have h1 := ha.1
  rcases hlh with h0 | h0
  · omega
  · refine ⟨?_, by omega⟩
    apply Decidable.byContradiction; intro hs
    have : T.lowest = 0 := by unfold IntTy.lowest; simp [hs]
    omega

theorem tmod_inRange {T : IntTy} {a b : Int} (ha : T.InRange a) (hb0 : b ≠ 0) : T.InRange (a.tmod b) := by
  have hz := zero_le_max T
  have hf := tdiv_tmod_facts a b hb0
  unfold IntTy.InRange at *
  by_cases h0 : 0 ≤ a
  · have := hf.2.1 h0; omega
  · have := hf.2.2.1 (by omega); omega

/-- the product `quotient * divisor` lies between `0` and the dividend -/
theorem tdiv_mul_inRange {T : IntTy} {a b : Int} (ha : T.InRange a) (hb0 : b ≠ 0) : T.InRange (a.tdiv b * b) := by
  have hz := zero_le_max T
  have hf := tdiv_tmod_facts a b hb0
  rw [Int.mul_comm] at hf
  unfold IntTy.InRange at *
  by_cases h0 : 0 ≤ a
  · have := hf.2.1 h0; omega
  · have := hf.2.2.1 (by omega); omega

section divmod
variable {L R : IntTy} {l r : Int}

/-- the C02 guard: the usual arithmetic conversions keep both values, the divisor is not zero and
the quotient is not the overflowing `lowest / -1` -/
structure DivGuard (L R : IntTy) (l r : Int) : Prop where
  wl : (usualArith L R).wrap l = l
  wr : (usualArith L R).wrap r = r
  r0 : r ≠ 0
  nov : ¬ ((usualArith L R).signed = true ∧ l = (usualArith L R).lowest ∧ r = -1)

theorem DivGuard.inl (g : DivGuard L R l r) : (usualArith L R).InRange l :=
  (wrap_eq_self_iff _ (usualArith_bits_pos L R) l).1 g.wl
theorem DivGuard.inr (g : DivGuard L R l r) : (usualArith L R).InRange r :=
  (wrap_eq_self_iff _ (usualArith_bits_pos L R) r).1 g.wr

theorem DivGuard.tdiv_inRange (g : DivGuard L R l r) : (usualArith L R).InRange (l.tdiv r) := by
  apply Rounding.tdiv_inRange (usualArith_bits_ge L R) g.inl g.inr g.r0
  intro ⟨h1, h2⟩
  have := lowest_eq_of (usualArith_bits_ge L R) g.inl h1
  exact g.nov ⟨this.1, this.2, h2⟩

theorem cBin_div (g : DivGuard L R l r) : cBin .div (L, l) (R, r) = .ok (usualArith L R, l.tdiv r) := by
  have nov := g.nov
  simp only [cBin, g.wl, g.wr, g.r0, nov, ite_false]
  exact arith_ok (usualArith_bits_pos L R) g.tdiv_inRange

theorem cBin_mod (g : DivGuard L R l r) : cBin .mod (L, l) (R, r) = .ok (usualArith L R, l.tmod r) := by
  have nov := g.nov
  simp only [cBin, g.wl, g.wr, g.r0, nov, ite_false]
  exact arith_ok (usualArith_bits_pos L R) (tmod_inRange g.inl g.r0)

theorem bin_div (g : DivGuard L R l r) (eL eR : Int) (ρ : Nat) :
    Layered.bin .div (sc L eL ρ l) (sc R eR ρ r) = .ok (sc (usualArith L R) (eL - eR) ρ (l.tdiv r)) := by
  have h := bin_direct .div (Or.inr (Or.inl rfl)) L R eL eR ρ l r
  rw [show AOp.toBin .div = BinOp.div from rfl] at h
  rw [h, cBin_div g]; rfl

theorem bin_mod (g : DivGuard L R l r) (eL eR : Int) (ρ : Nat) :
    Layered.bin .mod (sc L eL ρ l) (sc R eR ρ r) = .ok (sc (usualArith L R) eL ρ (l.tmod r)) := by
  have h := bin_direct .mod (Or.inr (Or.inr rfl)) L R eL eR ρ l r
  rw [show AOp.toBin .mod = BinOp.mod from rfl] at h
  rw [h, cBin_mod g]; rfl

end divmod

/-- `+` between equal exponents: the built-in operator on the representations -/
theorem bin_add_same_exp (A B : IntTy) (e : Int) (ρ : Nat) (a b : Int) :
    Layered.bin .add (sc A e ρ a) (sc B e ρ b) = wrapAt e ρ (cBin .add (A, a) (B, b)) := by
  have hb : Layered.bin .add (sc A e ρ a) (sc B e ρ b)
      = (Scaled.binOp intOps .add ρ ⟨(.int A, a), e⟩ ⟨(.int B, b), e⟩).map (wrapSc ρ) := by
    rw [bin_sc_sc]
  rw [hb, binOp_direct _ _ _ _ _ _ _ _ (Or.inl rfl)]
  simp [Scaled.resultExp]

theorem cmp_same_exp (op : CmpOp) (A B : IntTy) (e : Int) (ρ : Nat) (a b : Int) :
    Layered.cmp op (sc A e ρ a) (sc B e ρ b) = .ok (cCmp op (A, a) (B, b)) := by
  rw [cmp_sc_sc]; simp [Scaled.cmp, intOps]

/-- the expression `(a/b)*b + a%b == a`, each operator evaluated by the model -/
def divModIdentity (x y : Num) : Res Bool := do
  let q ← Layered.bin .div x y
  let p ← Layered.bin .mul q y
  let rm ← Layered.bin .mod x y
  let s ← Layered.bin .add p rm
  Layered.cmp .eq s x

theorem divModIdentity_true {L R : IntTy} {l r : Int} (hL : 1 ≤ L.bits) (hR : 1 ≤ R.bits)
    (hr : R.InRange r) (g : DivGuard L R l r) (eL eR : Int) (ρ : Nat) :
    divModIdentity (sc L eL ρ l) (sc R eR ρ r) = .ok true := by
  have hT := usualArith_bits_pos L R
  have habs := usualArith_absorb L R
  simp only at habs
  have hf := tdiv_tmod_facts l r g.r0
  have hprod : (usualArith L R).InRange (l.tdiv r * r) := tdiv_mul_inRange g.inl g.r0
  have hmul := bin_mul_exact (usualArith L R) R hT hR (eL - eR) eR ρ (l.tdiv r) r g.tdiv_inRange hr
    (by rw [habs.2.1]; exact hprod)
  rw [habs.2.1, Int.sub_add_cancel] at hmul
  have hsum : l.tdiv r * r + l.tmod r = l := by rw [Int.mul_comm]; exact hf.1
  have hadd : Layered.bin .add (sc (usualArith L R) eL ρ (l.tdiv r * r)) (sc (usualArith L R) eL ρ (l.tmod r))
      = .ok (sc (usualArith L R) eL ρ l) := by
    rw [bin_add_same_exp, show BinOp.add = AOp.toBin .add from rfl,
      cBin_ring_exact .add (Or.inl rfl) habs.2.2.2.2
        (fun _ => ⟨hprod, tmod_inRange g.inl g.r0⟩) (by simp only [exact]; rw [hsum]; exact g.inl)]
    simp only [exact, hsum]; rfl
  have hcmp : Layered.cmp .eq (sc (usualArith L R) eL ρ l) (sc L eL ρ l) = .ok true := by
    rw [cmp_same_exp]
    simp only [cCmp, habs.2.2.2.1, g.wl, decide_true]
  unfold divModIdentity
  rw [bin_div g]; simp only [Res.bind_ok]
  rw [hmul]; simp only [Res.bind_ok]
  rw [bin_mod g]; simp only [Res.bind_ok]
  rw [hadd]; simp only [Res.bind_ok]
  exact hcmp

/-! ## comparison -/

/-- the type in which an operand reaches the built-in comparison: the operand with the larger
exponent is converted to `decltype(rep << constant<k>)`, the promoted type; the other is untouched -/
def cmpTy (S : IntTy) (own other : Int) : IntTy := if other < own then promote S else S

theorem usualArith_cmpTy (L R : IntTy) (eL eR : Int) :
    usualArith (cmpTy L eL eR) (cmpTy R eR eL) = usualArith L R := by
  unfold cmpTy
  split <;> split <;>
    first | rfl | exact usualArith_promote L R | exact usualArith_promote_left' L R | exact usualArith_promote_right L R

/-- comparison: if the alignment of the operand with the larger exponent is well-formed and fits
its promoted type, the result is the built-in comparison of the aligned representations -/
theorem cmp_aligned (op : CmpOp) (L R : IntTy) (hL : 1 ≤ L.bits) (hR : 1 ≤ R.bits)
    (eL eR : Int) (ρ : Nat) (hρ : 2 ≤ ρ) (l r : Int) (hl : L.InRange l) (hr : R.InRange r)
    (hwL : PowOk L (eL - min eL eR).toNat ρ) (hwR : PowOk R (eR - min eL eR).toNat ρ)
    (hal : (promote L).InRange (aligned ρ eL (min eL eR) l))
    (har : (promote R).InRange (aligned ρ eR (min eL eR) r)) :
    Layered.cmp op (sc L eL ρ l) (sc R eR ρ r)
      = .ok (cCmp op (cmpTy L eL eR, aligned ρ eL (min eL eR) l) (cmpTy R eR eL, aligned ρ eR (min eL eR) r)) := by
  rw [cmp_sc_sc]
  unfold Scaled.cmp
  by_cases he : eL = eR
  · subst he
    simp only [ite_true, intOps, cmpTy, Int.lt_irrefl, ite_false]
    rw [aligned_of_eq ρ (by omega) l, aligned_of_eq ρ (by omega) r]
  · simp only [he, ite_false]
    by_cases hlt : eL < eR
    · have hm : min eL eR = eL := by omega
      rw [hm] at hwR har hal ⊢
      have hgt : ¬ eR < eL := by omega
      have hne : ¬ eR = eL := by omega
      simp only [hlt, ite_true, Scaled.convert, hne, ite_false, intOps, liftTV, cmpTy, hgt]
      unfold aligned at har
      rw [scaleInt_up R hR _ (by omega) ρ hρ hwR r hr har]
      simp only [Res.map, Res.bind_ok, bind, Res.bind, Cnl.convert, pure, IntTy.wrap_id (promote_bits_pos R) har]
      rw [aligned_self]; rfl
    · have hm : min eL eR = eR := by omega
      rw [hm] at hwL har hal ⊢
      have hgt : eR < eL := by omega
      simp only [hlt, ite_false, Scaled.convert, he, intOps, liftTV, cmpTy, hgt, ite_true]
      unfold aligned at hal
      rw [scaleInt_up L hL _ (by omega) ρ hρ hwL l hl hal]
      simp only [Res.map, Res.bind_ok, bind, Res.bind, Cnl.convert, pure, IntTy.wrap_id (promote_bits_pos L) hal]
      rw [aligned_self]; rfl

/-- the built-in comparison of two values the common type holds unchanged is the comparison of
the values -/
theorem cCmp_value (op : CmpOp) {A B T : IntTy} (hT : usualArith A B = T) (hb : 1 ≤ T.bits) {a b : Int}
    (ha : T.InRange a) (hb' : T.InRange b) : cCmp op (A, a) (B, b) = cmpInt op a b := by
  simp only [cCmp, hT, IntTy.wrap_id hb ha, IntTy.wrap_id hb hb']
  cases op <;> rfl

/-- in every case it is the comparison of the two *converted* values -/
theorem cCmp_wrapped (op : CmpOp) (A B : IntTy) (a b : Int) :
    cCmp op (A, a) (B, b) = cmpInt op ((usualArith A B).wrap a) ((usualArith A B).wrap b) := by
  cases op <;> rfl

theorem aligned_nonneg {ρ : Nat} (hρ : 2 ≤ ρ) (e c : Int) {v : Int} (h : 0 ≤ v) : 0 ≤ aligned ρ e c v := by
  unfold aligned; exact Int.mul_nonneg h (Int.le_of_lt (pw_pos hρ _))

/-- alignment multiplies by a positive number: it preserves and reflects order -/
theorem aligned_lt_iff {ρ : Nat} (hρ : 2 ≤ ρ) (e c : Int) (v w : Int) : aligned ρ e c v < aligned ρ e c w ↔ v < w := by
  unfold aligned
  exact Int.mul_lt_mul_right (pw_pos hρ _)

theorem aligned_inj {ρ : Nat} (hρ : 2 ≤ ρ) (e c : Int) (v w : Int) : aligned ρ e c v = aligned ρ e c w ↔ v = w := by
  unfold aligned
  have := pw_pos hρ (e - c).toNat
  exact ⟨fun h => Int.eq_of_mul_eq_mul_right (by omega) h, fun h => by rw [h]⟩

theorem cmpInt_aligned {ρ : Nat} (hρ : 2 ≤ ρ) (op : CmpOp) (e c : Int) (v w : Int) :
    cmpInt op (aligned ρ e c v) (aligned ρ e c w) = cmpInt op v w := by
  have h1 := aligned_lt_iff hρ e c v w
  have h2 := aligned_lt_iff hρ e c w v
  have h3 := aligned_inj hρ e c v w
  cases op <;> simp only [cmpInt, decide_eq_decide] <;> omega

/-! ## conversion -/

theorem scaleTrunc_zero (ρ : Nat) (v : Int) : scaleTrunc ρ 0 v = v := by
  simp [scaleTrunc, pw_zero]

/-- the well-formedness and intermediate-fit condition of a conversion by `k = eS - eD` digits -/
def CvtOk (S : IntTy) (k : Int) (ρ : Nat) (v : Int) : Prop :=
  if 0 ≤ k then PowOk S k.toNat ρ ∧ (promote S).InRange (v * pw ρ k.toNat) else PowFits S (-k).toNat ρ

instance (S : IntTy) (k : Int) (ρ : Nat) (v : Int) : Decidable (CvtOk S k ρ v) := by
  unfold CvtOk; exact inferInstance

/-- integer → integer conversion between scaled integers of one radix -/
theorem cast_eval (D S : IntTy) (hS : 1 ≤ S.bits) (eD eS : Int) (ρ : Nat) (hρ : 2 ≤ ρ) (v : Int)
    (hv : S.InRange v) (hok : CvtOk S (eS - eD) ρ v) :
    Layered.cast (.sc (.int D) eD ρ) (sc S eS ρ v) = .ok (sc D eD ρ (D.wrap (scaleTrunc ρ (eS - eD) v))) := by
  rw [cast_sc_sc, convert_eq]
  unfold CvtOk at hok
  by_cases he : eS = eD
  · subst he
    simp only [ite_true, Int.sub_self, scaleTrunc_zero]
  · simp only [he, ite_false]
    by_cases hk : 0 ≤ eS - eD
    · simp only [hk, ite_true] at hok
      rw [scaleInt_up S hS _ hk ρ hρ hok.1 v hv hok.2]
      simp only [Res.bind_ok, scaleTrunc, hk, ite_true]
    · simp only [hk, ite_false] at hok
      rw [scaleInt_down S hS _ (by omega) ρ hρ hok v hv]
      simp only [Res.bind_ok, scaleTrunc, hk, ite_false]

/-- truncating division is rounding toward zero: the quotient has the sign of the dividend and
`|dividend| - |quotient · divisor|` lies in `[0, divisor)` -/
theorem tdiv_toward_zero (v p : Int) (hp : 0 < p) :
    (0 ≤ v → 0 ≤ v.tdiv p ∧ v.tdiv p * p ≤ v ∧ v < v.tdiv p * p + p) ∧
    (v ≤ 0 → v.tdiv p ≤ 0 ∧ v ≤ v.tdiv p * p ∧ v.tdiv p * p - p < v) := by
  have hf := tdiv_tmod_facts v p (by omega)
  rw [Int.mul_comm] at hf
  have h3 := hf.2.2.2.1 hp
  constructor
  · intro h0
    have := hf.2.1 h0
    have := Int.tdiv_nonneg h0 (Int.le_of_lt hp)
    omega
  · intro h0
    have := hf.2.2.1 h0
    have := Int.tdiv_nonneg (a := -v) (b := p) (by omega) (Int.le_of_lt hp)
    rw [Int.neg_tdiv] at this
    omega

/-! ## the denoted rational value -/

/-- one unit of the last place at exponent `e`: `ρ^e` -/
def unit (ρ : Nat) (e : Int) : Rat := den ρ 1 e

theorem pwR_ne (ρ : Nat) (hρ : 2 ≤ ρ) (k : Nat) : ((pw ρ k : Int) : Rat) ≠ 0 := by
  have := pw_pos hρ k
  intro h; rw [Rat.intCast_eq_zero_iff] at h; omega

theorem pwR_pos (ρ : Nat) (hρ : 2 ≤ ρ) (k : Nat) : (0 : Rat) < ((pw ρ k : Int) : Rat) := by
  have := pw_pos hρ k
  exact Rat.intCast_pos.2 this

theorem den_eq_mul_unit (ρ : Nat) (rep e : Int) : den ρ rep e = (rep : Rat) * unit ρ e := by
  unfold unit den
  split <;> grind

theorem unit_pos (ρ : Nat) (hρ : 2 ≤ ρ) (e : Int) : 0 < unit ρ e := by
  unfold unit den
  split
  · have := pwR_pos ρ hρ e.toNat
    unfold pw at this
    simpa using this
  · have := pwR_pos ρ hρ (-e).toNat
    unfold pw at this
    rw [Rat.div_def]
    simpa using Rat.inv_pos.2 this

/-- `ρ^e = ρ^(e-c) · ρ^c` for `c ≤ e`, whatever the signs -/
theorem unit_split (ρ : Nat) (hρ : 2 ≤ ρ) {e c : Int} (h : c ≤ e) :
    unit ρ e = ((pw ρ (e - c).toNat : Int) : Rat) * unit ρ c := by
  unfold unit den
  by_cases h0 : 0 ≤ c
  · have he : 0 ≤ e := by omega
    simp only [h0, he, ite_true]
    have : e.toNat = (e - c).toNat + c.toNat := by omega
    have hp := pw_add ρ (e - c).toNat c.toNat
    rw [← this] at hp
    unfold pw at hp ⊢
    rw [hp, Rat.intCast_mul]; grind
  · by_cases he : 0 ≤ e
    · simp only [h0, he, ite_true, ite_false]
      have : (e - c).toNat = e.toNat + (-c).toNat := by omega
      have hp := pw_add ρ e.toNat (-c).toNat
      rw [← this] at hp
      have hne := pwR_ne ρ hρ (-c).toNat
      unfold pw at hp hne ⊢
      rw [hp, Rat.intCast_mul]; grind
    · simp only [h0, he, ite_false]
      have : (-c).toNat = (e - c).toNat + (-e).toNat := by omega
      have hp := pw_add ρ (e - c).toNat (-e).toNat
      rw [← this] at hp
      have hne := pwR_ne ρ hρ (-c).toNat
      have hne' := pwR_ne ρ hρ (-e).toNat
      have hne'' := pwR_ne ρ hρ (e - c).toNat
      unfold pw at hp hne hne' hne'' ⊢
      have hp' : (((ρ:Int) ^ (-c).toNat : Int) : Rat) = (((ρ:Int) ^ (e - c).toNat : Int) : Rat) * (((ρ:Int) ^ (-e).toNat : Int) : Rat) := by
        rw [hp, Rat.intCast_mul]
      grind

/-- re-expressing a representation at a smaller exponent does not change the denoted value -/
theorem den_aligned (ρ : Nat) (hρ : 2 ≤ ρ) {e c : Int} (h : c ≤ e) (rep : Int) :
    den ρ (aligned ρ e c rep) c = den ρ rep e := by
  rw [den_eq_mul_unit, den_eq_mul_unit ρ rep e, unit_split ρ hρ h]
  unfold aligned
  rw [Rat.intCast_mul, Rat.mul_assoc]

theorem den_add (ρ : Nat) (a b e : Int) : den ρ (a + b) e = den ρ a e + den ρ b e := by
  simp only [den_eq_mul_unit, Rat.intCast_add, Rat.add_mul]

theorem den_sub (ρ : Nat) (a b e : Int) : den ρ (a - b) e = den ρ a e - den ρ b e := by
  simp only [den_eq_mul_unit, Rat.intCast_sub]; grind

theorem den_neg (ρ : Nat) (a e : Int) : den ρ (-a) e = -den ρ a e := by
  simp only [den_eq_mul_unit, Rat.intCast_neg, Rat.neg_mul]

theorem den_lt_iff (ρ : Nat) (hρ : 2 ≤ ρ) (a b e : Int) : den ρ a e < den ρ b e ↔ a < b := by
  rw [den_eq_mul_unit, den_eq_mul_unit ρ b e, Rat.mul_lt_mul_right (unit_pos ρ hρ e), Rat.intCast_lt_intCast]

theorem den_le_iff (ρ : Nat) (hρ : 2 ≤ ρ) (a b e : Int) : den ρ a e ≤ den ρ b e ↔ a ≤ b := by
  rw [← Rat.not_lt, den_lt_iff ρ hρ]; omega

theorem den_inj (ρ : Nat) (hρ : 2 ≤ ρ) (a b e : Int) : den ρ a e = den ρ b e ↔ a = b := by
  constructor
  · intro h
    have h1 : ¬ den ρ a e < den ρ b e := by rw [h]; exact Rat.lt_irrefl
    have h2 : ¬ den ρ b e < den ρ a e := by rw [h]; exact Rat.lt_irrefl
    rw [den_lt_iff ρ hρ] at h1 h2; omega
  · intro h; rw [h]

/-- the six relations on rationals -/
def cmpRat (op : CmpOp) (a b : Rat) : Bool :=
  match op with
  | .lt => decide (a < b) | .le => decide (a ≤ b) | .gt => decide (b < a)
  | .ge => decide (b ≤ a) | .eq => decide (a = b) | .ne => decide (a ≠ b)

theorem cmpRat_den (ρ : Nat) (hρ : 2 ≤ ρ) (op : CmpOp) (a b e : Int) :
    cmpRat op (den ρ a e) (den ρ b e) = cmpInt op a b := by
  cases op <;> simp only [cmpRat, cmpInt, decide_eq_decide, den_lt_iff ρ hρ, den_le_iff ρ hρ, den_inj ρ hρ, ne_eq,
    gt_iff_lt, ge_iff_le]

/-- the order of the denoted values is the order of the aligned representations -/
theorem cmpRat_den_aligned (ρ : Nat) (hρ : 2 ≤ ρ) (op : CmpOp) (eL eR l r : Int) :
    cmpRat op (den ρ l eL) (den ρ r eR)
      = cmpInt op (aligned ρ eL (min eL eR) l) (aligned ρ eR (min eL eR) r) := by
  rw [← den_aligned ρ hρ (show min eL eR ≤ eL by omega) l, ← den_aligned ρ hρ (show min eL eR ≤ eR by omega) r]
  exact cmpRat_den ρ hρ op _ _ _

/-- `ρ^(eL+eR) = ρ^eL · ρ^eR` -/
theorem unit_add (ρ : Nat) (hρ : 2 ≤ ρ) (eL eR : Int) : unit ρ (eL + eR) = unit ρ eL * unit ρ eR := by
  -- express all three at an exponent `b ≤ 0` below all of them
  let b : Int := -((eL.natAbs : Int) + eR.natAbs)
  have hb0 : b ≤ 0 := by omega
  have h1 := unit_split ρ hρ (show b ≤ eL by omega)
  have h2 := unit_split ρ hρ (show b ≤ eR by omega)
  have h3 := unit_split ρ hρ (show b ≤ eL + eR by omega)
  have h4 := unit_split ρ hρ (show b ≤ 0 by omega)
  have hu0 : unit ρ 0 = 1 := by unfold unit den; simp
  rw [hu0] at h4
  have e : (eL - b).toNat + (eR - b).toNat = (eL + eR - b).toNat + (0 - b).toNat := by omega
  have hp : pw ρ (eL - b).toNat * pw ρ (eR - b).toNat = pw ρ (eL + eR - b).toNat * pw ρ (0 - b).toNat := by
    rw [← pw_add, ← pw_add, e]
  have hp' : ((pw ρ (eL - b).toNat : Int) : Rat) * ((pw ρ (eR - b).toNat : Int) : Rat)
      = ((pw ρ (eL + eR - b).toNat : Int) : Rat) * ((pw ρ (0 - b).toNat : Int) : Rat) := by
    rw [← Rat.intCast_mul, ← Rat.intCast_mul, hp]
  rw [h1, h2, h3]
  generalize unit ρ b = u at *
  generalize ((pw ρ (eL - b).toNat : Int) : Rat) = A at *
  generalize ((pw ρ (eR - b).toNat : Int) : Rat) = B at *
  generalize ((pw ρ (eL + eR - b).toNat : Int) : Rat) = C at *
  generalize ((pw ρ (0 - b).toNat : Int) : Rat) = D at *
  grind

theorem den_mul (ρ : Nat) (hρ : 2 ≤ ρ) (l r eL eR : Int) :
    den ρ (l * r) (eL + eR) = den ρ l eL * den ρ r eR := by
  simp only [den_eq_mul_unit, unit_add ρ hρ, Rat.intCast_mul]; grind

end Cnl.ScaledP
