import CnlProofs.WideFloatTo
import CnlProofs.WideFloatFrom
import CnlProofs.FloatFaithful
import CnlProofs.WideFloatBracket
import CnlSpec.WideFloat
/-!
# C10, floating-point part: theorems about `wide_integer` ⇄ `float` / `double` / `long double`

Model: `CnlModel/WideFloat.lean` (`toFloat`, `fromFloat`, operation by operation in `CnlModel.CFloat`);
specification: `CnlSpec/WideFloat.lean` (`toFloatOk`, `fromFloat`).  The heavy lifting is in
`CnlProofs/WideFloatFrom.lean` (constructor from a float), `CnlProofs/WideFloatTo.lean` (exact conversions to a
float), `CnlProofs/FloatFaithful.lean` (round-to-nearest-even accumulation on natural numbers is faithful) and
`CnlProofs/WideFloatBracket.lean` (the model's limb loop is that accumulation).

Everything in the section `namespace Cnl.C10Float` below is meant to be re-exported into
`CnlProperties/C10.lean` (check.py audits the axioms of the theorems of that file only).

## What is proved (all limb widths `w ≥ 1`, limb counts, signedness; floating formats as stated)

* `from_float_wraps` — for every finite datum `x` of a format with `prec ≤ 64` (binary32, binary64, x87 extended) and a
  multi-limb format of more than 64 bits the constructed value is `trunc(x)` reduced to the `N`-bit two's-complement
  range; `from_float_exact` — it is `trunc(x)` itself when `|trunc x| < 2^(N-1)` (and the type is signed or `x ≥ 0`);
  `from_float_nonfinite` — NaN and ±∞ give 0.
* `to_float_exact` — a value with at most `prec F` significant bits (below the overflow threshold of `F`) converts
  exactly, for every target format and every limb width that fits `long double`'s significand.
* `to_float_bracket_partial` — for **every** limb width (also limbs wider than the precision, whose term is itself
  rounded before it is added), limb count, signedness and target format: if `|v| < 2^(emax F − 1)` the result is the
  datum of `v` when `v` is representable and otherwise one of its two neighbours in `F` (`WideFloatSpec.toFloatOk`).
  `to_float_bracket_of_width` — hence without any condition on the value when `N + 1 ≤ emax F`: `double` for every width
  up to 1022 bits, `long double` for every width of the property's range (and beyond, to 16382 bits).
  The code performs up to two roundings per limb (conversion of the limb term when `w > prec F`, addition), i.e. up to
  `2·⌈N/w⌉` roundings; the result is *faithful*, not always correctly rounded (`to_float_not_correctly_rounded`).
* `to_float_bracket_tiny_*` — kernel-checked exhaustive instances of the *full* bracket statement in tiny formats,
  including limb widths above the precision and overflow to infinity.
* `to_float_not_correctly_rounded` — a binary32 witness (`wide_integer<200,int>`): the result is the *other* neighbour.

## What is not proved

`FullToFloatBracket` — the bracket also for `|v| ≥ 2^(emax F − 1)`, i.e. next to and beyond the overflow threshold of
`F` (only `float` from 2^126, and `double` from 2^1022, can get there; the expected results are the largest finite datum
or `±∞`) — is a definition: the exactness lemmas of the proof are stated below `2^emax`.  That range is supported by
the exhaustive tiny-format theorems (`to_float_bracket_tiny_overflow` overflows), an exhaustive `#eval` sweep (prec 2…6 × w 1…8 × ≤ 14 bits, signed and unsigned: no
exception) and the differential harness (`C10 w2f` lines, ~10^5 per run on the real formats).
-/
namespace Cnl.C10Float
open Cnl Cnl.Wide Cnl.WideFloat Cnl.FloatP

/-- the full bracket statement: for all formats the conversion to floating point returns the exact datum or one of
its two neighbours (`∞` counting as the neighbour above the largest finite datum) -/
def FullToFloatBracket : Prop :=
  ∀ (L F : FFmt) (f : WFmt) (a : Limbs), FmtOk L → FmtOk F → 1 ≤ f.w → 1 ≤ f.n → f.w ≤ L.prec → (f.N : Int) ≤ L.emax →
    WF f.w a → a.length = f.n →
    WideFloatSpec.toFloatOk F (toInt f a) (toFloat L F f a) = true

/-! ## kernel-checked exhaustive instances in tiny formats -/

/-- the bracket holds for the `k` smallest bit patterns of format `f` -/
def okAll (L F : FFmt) (f : WFmt) : Nat → Bool
  | 0 => true
  | p+1 => WideFloatSpec.toFloatOk F (toInt f (ofNat f.w f.n p)) (toFloat L F f (ofNat f.w f.n p)) && okAll L F f p

theorem okAll_spec (L F : FFmt) (f : WFmt) : ∀ k, okAll L F f k = true → ∀ p, p < k →
    WideFloatSpec.toFloatOk F (toInt f (ofNat f.w f.n p)) (toFloat L F f (ofNat f.w f.n p)) = true := by
  intro k
  induction k with
  | zero => intro _ p hp; omega
  | succ k ih =>
    intro h p hp
    simp only [okAll, Bool.and_eq_true] at h
    by_cases hpk : p = k
    · subst hpk; exact h.1
    · exact ih h.2 p (by omega)

/-- precision 3, two 5-bit limbs (limb wider than the precision), signed: all 1024 values -/
theorem to_float_bracket_tiny_wide_limb :
    okAll ⟨8, -40, 40⟩ ⟨3, -20, 30⟩ ⟨5, 2, true⟩ (2^10) = true := by decide +kernel
/-- precision 2, three 3-bit limbs, unsigned: all 512 values -/
theorem to_float_bracket_tiny_three_limbs :
    okAll ⟨8, -40, 40⟩ ⟨2, -20, 30⟩ ⟨3, 3, false⟩ (2^9) = true := by decide +kernel
/-- precision 4, five 2-bit limbs (limb narrower than the precision), signed: all 1024 values -/
theorem to_float_bracket_tiny_narrow_limb :
    okAll ⟨8, -40, 40⟩ ⟨4, -20, 30⟩ ⟨2, 5, true⟩ (2^10) = true := by decide +kernel
/-- precision 3 with `emax = 6`: values from `2^7` overflow (largest finite datum / infinity), all 1024 values -/
theorem to_float_bracket_tiny_overflow :
    okAll ⟨8, -40, 40⟩ ⟨3, -6, 6⟩ ⟨5, 2, false⟩ (2^10) = true := by decide +kernel

/-- `static_cast<float>(wide_integer<200,int>{2^56 + 2^33 - 1})` is `2^56`, the correctly rounded value is
`2^56 + 2^33`: the conversion is not correctly rounded, yet inside the bracket -/
theorem to_float_not_correctly_rounded :
    toFloat x87ext binary32 ⟨32, 7, true⟩ (ofNat 32 7 (2^56 + 2^33 - 1)) = .fin false (2^23) 33
    ∧ WideFloatSpec.nearest binary32 (2^56 + 2^33 - 1) = .fin false (2^23 + 1) 33
    ∧ WideFloatSpec.toFloatOk binary32 (2^56 + 2^33 - 1) (.fin false (2^23) 33) = true := by decide +kernel

/-! ## to floating point: exact conversions -/

/-- a value with at most `prec F` significant bits converts exactly (to the datum `static_cast<F>` of the
mathematical integer), whatever the limb width, limb count and signedness -/
theorem to_float_exact (L F : FFmt) (hL : FmtOk L) (hF : FmtOk F) (f : WFmt) (hw : 1 ≤ f.w) (hn : 1 ≤ f.n)
    (hLw : f.w ≤ L.prec) (hLN : (f.N : Int) ≤ L.emax)
    {a : Limbs} (ha : WF f.w a) (hl : a.length = f.n)
    (hrep : ∃ M t, (toInt f a).natAbs = M * 2^t ∧ M < 2^F.prec)
    (hmax : ((toInt f a).natAbs.log2 : Int) ≤ F.emax) :
    toFloat L F f a = F.ofInt (toInt f a) :=
  ToP.toFloat_exact L F hL hF f hw hn hLw hLN ha hl hrep hmax

example : toFloat x87ext binary64 ⟨32, 7, true⟩ (ofNat 32 7 (2^224 - 3 * 2^100)) = binary64.ofInt (-(3 * 2^100)) := by
  have h := to_float_exact x87ext binary64 (by decide) (by decide) ⟨32, 7, true⟩ (by decide) (by decide) (by decide) (by decide)
    (a := ofNat 32 7 (2^224 - 3 * 2^100)) (Basic.ofNat_WF _ _ _) (Basic.ofNat_length _ _ _)
    ⟨3, 100, by decide +kernel, by decide⟩ (by decide +kernel)
  rw [h]; decide +kernel

/-! ## to floating point: the two-neighbour bracket -/

/-- the conversion to floating point returns the datum of the value when it is representable and one of its two
neighbours in `F` otherwise — every limb width / count / signedness, every target format — provided the magnitude is
below `2^(emax F − 1)` (partial only in this bound: see `FullToFloatBracket`) -/
theorem to_float_bracket_partial (L F : FFmt) (hL : FmtOk L) (hF : FmtOk F) (f : WFmt) (hw : 1 ≤ f.w) (hn : 1 ≤ f.n)
    (hLw : f.w ≤ L.prec) (hLN : (f.N : Int) ≤ L.emax)
    {a : Limbs} (ha : WF f.w a) (hl : a.length = f.n)
    (hmax : ((toInt f a).natAbs.log2 : Int) + 2 ≤ F.emax) :
    WideFloatSpec.toFloatOk F (toInt f a) (toFloat L F f a) = true :=
  BracketP.toFloat_bracket L F hL hF f hw hn hLw hLN ha hl hmax

/-- the model's limb loop *is* the abstract accumulation `accLoop` (round the limb term, add, round) over the
magnitude's significant limbs -/
theorem to_float_eq_accumulation (L F : FFmt) (hL : FmtOk L) (hF : FmtOk F) (f : WFmt) (hw : 1 ≤ f.w) (hn : 1 ≤ f.n)
    (hLw : f.w ≤ L.prec) (hLN : (f.N : Int) ≤ L.emax)
    {a : Limbs} (ha : WF f.w a) (hl : a.length = f.n)
    (hmax : ((toInt f a).natAbs.log2 : Int) + 2 ≤ F.emax) :
    toFloat L F f a = F.roundND (decide (toInt f a < 0))
      (FloatFaithful.accLoop F.prec f.w ((if isNeg f a then negate f.w a else a).take
        (ilim f.w (if isNeg f a then negate f.w a else a))) 0 0) 1 :=
  BracketP.toFloat_eq_acc L F hL hF f hw hn hLw hLN ha hl hmax

/-- when the whole `N`-bit range stays below the overflow threshold (`N + 1 ≤ emax F`: `double` up to 1022 bits,
`long double` always) the bracket holds for every value -/
theorem to_float_bracket_of_width (L F : FFmt) (hL : FmtOk L) (hF : FmtOk F) (f : WFmt) (hw : 1 ≤ f.w) (hn : 1 ≤ f.n)
    (hLw : f.w ≤ L.prec) (hLN : (f.N : Int) ≤ L.emax) (hFN : (f.N : Int) + 1 ≤ F.emax)
    {a : Limbs} (ha : WF f.w a) (hl : a.length = f.n) :
    WideFloatSpec.toFloatOk F (toInt f a) (toFloat L F f a) = true := by
  apply to_float_bracket_partial L F hL hF f hw hn hLw hLN ha hl
  obtain ⟨_, hval, hwf, hlen⟩ := ToP.abs_spec f hw hn ha hl
  have hlt := Basic.toNat_lt hwf
  rw [hval, hlen] at hlt
  have hpos : 1 ≤ f.w * f.n := Nat.mul_pos hw hn
  unfold Wide.Fmt.N at hFN
  generalize f.w * f.n = N at hFN hpos hlt
  by_cases h0 : (toInt f a).natAbs = 0
  · rw [h0]; simp only [Nat.log2_zero]; omega
  · have := (Nat.log2_lt h0).2 hlt
    omega

-- `static_cast<double>(wide_integer<200,int>)` and `static_cast<long double>(wide_integer<2048, uint64_t>)`: all values
example {a : Limbs} (ha : WF 32 a) (hl : a.length = 7) :
    WideFloatSpec.toFloatOk binary64 (toInt ⟨32, 7, true⟩ a) (toFloat x87ext binary64 ⟨32, 7, true⟩ a) = true :=
  to_float_bracket_of_width x87ext binary64 (by decide) (by decide) ⟨32, 7, true⟩ (by decide) (by decide) (by decide)
    (by decide) (by decide) ha hl
example {a : Limbs} (ha : WF 64 a) (hl : a.length = 32) :
    WideFloatSpec.toFloatOk x87ext (toInt ⟨64, 32, false⟩ a) (toFloat x87ext x87ext ⟨64, 32, false⟩ a) = true :=
  to_float_bracket_of_width x87ext x87ext (by decide) (by decide) ⟨64, 32, false⟩ (by decide) (by decide) (by decide)
    (by decide) (by decide) ha hl
-- `static_cast<float>(wide_integer<200,int>{2^56 + 2^33 - 1})`: not representable, limb wider than the precision
example : WideFloatSpec.toFloatOk binary32 (toInt ⟨32, 7, true⟩ (ofNat 32 7 (2^56 + 2^33 - 1)))
    (toFloat x87ext binary32 ⟨32, 7, true⟩ (ofNat 32 7 (2^56 + 2^33 - 1))) = true :=
  to_float_bracket_partial x87ext binary32 (by decide) (by decide) ⟨32, 7, true⟩ (by decide) (by decide) (by decide)
    (by decide) (Basic.ofNat_WF _ _ _) (Basic.ofNat_length _ _ _) (by decide +kernel)

/-! ## from floating point -/

/-- the floating formats covered: `FmtOk`, `2^32` finite, significand fits `unsigned long long`, `2^-prec` normal -/
abbrev FloatOk (F : FFmt) : Prop := FromP.FOK F

example : FloatOk binary32 ∧ FloatOk binary64 ∧ FloatOk x87ext := ⟨FromP.fok_binary32, FromP.fok_binary64, FromP.fok_x87ext⟩

/-- `wide_integer{x}` for any finite datum `x` (zeros, subnormals, fractions, values beyond the width, both signs):
the constructor runs without undefined behaviour and yields `trunc(x)` reduced to the `N`-bit two's-complement range -/
theorem from_float_wraps (f : WFmt) (F : FFmt) (hf : FloatOk F) (hw : 1 ≤ f.w) (hn : 1 ≤ f.n) (hN : 64 < f.N)
    (x : FVal) (hc : F.Canonical x = true) (hx : x.isFinite = true) :
    ∃ l, fromFloat f F x = .ok l ∧ WF f.w l ∧ l.length = f.n
      ∧ some (toInt f l) = WideFloatSpec.fromFloat f.N f.signed x :=
  FromP.fromFloat_spec f F hf hw hn hN x hc hx

/-- for a finite `x` with `|trunc x| < 2^(N-1)` (into a signed type, or `x ≥ 0`) the constructed value is `trunc(x)` -/
theorem from_float_exact (f : WFmt) (F : FFmt) (hf : FloatOk F) (hw : 1 ≤ f.w) (hn : 1 ≤ f.n) (hN : 64 < f.N)
    (s : Bool) (m : Nat) (e : Int) (hc : F.Canonical (.fin s m e) = true)
    (hr : (truncInt s m e).natAbs < 2^(f.N-1)) (hs : f.signed = true ∨ s = false) :
    ∃ l, fromFloat f F (.fin s m e) = .ok l ∧ WF f.w l ∧ l.length = f.n ∧ toInt f l = truncInt s m e :=
  FromP.fromFloat_inRange f F hf hw hn hN s m e hc hr hs

/-- NaN and the infinities construct 0 (the property does not constrain them) -/
theorem from_float_nonfinite (f : WFmt) (F : FFmt) (x : FVal) (hx : x.isFinite = false) :
    fromFloat f F x = .ok (zeroW f) :=
  FromP.fromFloat_nonfinite f F x hx

-- `wide_integer<200,int>{-1536.75f}` is -1536
example : ∃ l, fromFloat ⟨32, 7, true⟩ binary32 (.fin true (24588 * 2^9) (-13)) = .ok l ∧ toInt ⟨32, 7, true⟩ l = -1536 := by
  obtain ⟨l, h1, _, _, h4⟩ := from_float_exact ⟨32, 7, true⟩ binary32 FromP.fok_binary32 (by decide) (by decide) (by decide)
    true (24588 * 2^9) (-13) (by decide) (by decide +kernel) (Or.inl rfl)
  exact ⟨l, h1, by rw [h4]; decide +kernel⟩

end Cnl.C10Float
