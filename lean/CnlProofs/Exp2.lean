import CnlModel.Exp2
import CnlSpec.Exp2
import CnlProofs.CIntLemmas
import Mathlib.Tactic.Ring
import Mathlib.Tactic.Linarith
import Mathlib.Tactic.Positivity
/-!
# CnlProofs.Exp2 — lemmas for C20 (exp2)

1. the kernel-fast operators of `CnlModel.Exp2` are *equal* to the `CnlModel.CInt` originals;
2. the generated coefficient table equals the table derived inside Lean from the header's decimal literals;
3. the floor oracle of `CnlSpec.Exp2` is sound (`floorPow2?_sound`): certified enclosure chain → interval product → floor;
4. table infrastructure: a Boolean sweep over every representation of a format implies the ∀-statement about
   the true `⌊2^x⌋` (`bound_of_table`);
5. the repaired tests of `exp2`: `notAbove` (`fp::not_above_exponent`) is `floored ≤ Exponent` by value for every standard
   `Rep` (`notAbove_iff`), never taken for an unsigned `Rep` with a negative exponent (`notAbove_unsigned_neg`); the as-found
   built-in comparison is not (`cLe_orig_not_by_value`); negative inputs of positive-exponent formats return 0, which is the true
   floor (`exp2_neg_posExp`, `isRef_neg_posExp`);
6. integral inputs: the floor of `2^(j·2^n/2^n)` is `2^j` (`isFloor_pow`), `2^j ≤ max → j < digits`, `E + 32 ≤ 2^E` for `E ≥ 6`.
-/
open Cnl Cnl.Exp2 Cnl.Spec.Exp2

namespace Cnl.Exp2Proofs

/-! ## 1. fast operators = CInt operators -/

theorem p2_eq (n : Nat) : p2 n = (2:Int)^n := by simp [p2]
theorem maxF_eq (t : IntTy) : maxF t = t.max := by simp [maxF, IntTy.max, p2_eq]
theorem lowestF_eq (t : IntTy) : lowestF t = t.lowest := by simp [lowestF, IntTy.lowest, p2_eq]
theorem wrapF_eq (t : IntTy) (v : Int) : wrapF t v = t.wrap v := by simp [wrapF, IntTy.wrap, p2_eq]

theorem forceNat_eq {α : Type} (n : Nat) (k : Nat → α) : forceNat n k = k n := by cases n <;> rfl
theorem forceInt_eq {α : Type} (x : Int) (k : Int → α) : forceInt x k = k x := by
  cases x <;> simp [forceInt, forceNat_eq]
theorem forceTy_eq {α : Type} (t : IntTy) (k : IntTy → α) : forceTy t k = k t := by
  obtain ⟨b, s⟩ := t; cases s <;> simp [forceTy, forceNat_eq]
theorem forceTV_eq {α : Type} (v : TV) (k : TV → α) : forceTV v k = k v := by
  obtain ⟨⟨b, s⟩, x⟩ := v; cases s <;> simp [forceTV, forceNat_eq, forceInt_eq]

theorem bindS_eq {β : Type} (x : Res TV) (f : TV → Res β) : (x >>=! f) = (x >>= f) := by
  cases x <;> simp [bindS, forceTV_eq] <;> rfl
theorem bindI_eq {β : Type} (x : Res Int) (f : Int → Res β) : (x >>=? f) = (x >>= f) := by
  cases x <;> simp [bindI, forceInt_eq] <;> rfl

theorem arithF_eq (T : IntTy) (x : Int) : arithF T x = arith T x := by
  simp [arithF, arith, forceInt_eq, IntTy.InRange, lowestF_eq, maxF_eq, wrapF_eq]

theorem cBinF_eq (op : BinOp) (x y : TV) : cBinF op x y = cBin op x y := by
  cases op <;> simp [cBinF, cBin, forceTy_eq, forceInt_eq, arithF_eq, wrapF_eq, lowestF_eq, p2_eq]

theorem cLeF_eq (x y : TV) : cLeF x y = cCmp .le x y := by simp [cLeF, cCmp, wrapF_eq]

theorem powerValue2F_eq (S : IntTy) (k : Nat) : powerValue2F S k = powerValueInt S k 2 := by
  simp [powerValue2F, powerValueInt, p2_eq]

theorem cGt_eq_not_le (x y : TV) : cCmp .gt x y = !cCmp .le x y := by
  simp only [cCmp]
  by_cases h : (usualArith x.1 y.1).wrap x.2 ≤ (usualArith x.1 y.1).wrap y.2
  · have : ¬ (usualArith x.1 y.1).wrap x.2 > (usualArith x.1 y.1).wrap y.2 := by omega
    simp [h, this]
  · have : (usualArith x.1 y.1).wrap x.2 > (usualArith x.1 y.1).wrap y.2 := by omega
    simp [h, this]

theorem scale2F_eq (k : Int) (s : TV) : scale2F k s = scaleInt k 2 s := by
  simp [scale2F, scaleInt, bindS_eq, powerValue2F_eq, cBinF_eq, cLeF_eq, cGt_eq_not_le]


/-! ## 2. the compiler-printed coefficient tables equal the ones derived from the header's decimal literals

`derivedCoeffs W` = each literal of `poly_coeffs` → nearest binary64 → `rounding_conversion` into `scaled_integer<uW, power<-W>>`.
A changed digit in the header (or a changed conversion) breaks the equation for the widths it affects. -/

theorem coeffs_eq_8 : lookup 8 Generated.exp2Coeffs = some (derivedCoeffs 8) := by decide +kernel
theorem coeffs_eq_16 : lookup 16 Generated.exp2Coeffs = some (derivedCoeffs 16) := by decide +kernel
theorem coeffs_eq_32 : lookup 32 Generated.exp2Coeffs = some (derivedCoeffs 32) := by decide +kernel
theorem coeffs_eq_64 : lookup 64 Generated.exp2Coeffs = some (derivedCoeffs 64) := by decide +kernel

/-- the model's table is the derived one for every width (generated where present, derived otherwise) -/
theorem coeffs_eq_derived (W : Nat) (h : W = 8 ∨ W = 16 ∨ W = 32 ∨ W = 64) : coeffs W = derivedCoeffs W := by
  rcases h with h | h | h | h <;> subst h <;> unfold coeffs
  · rw [coeffs_eq_8]
  · rw [coeffs_eq_16]
  · rw [coeffs_eq_32]
  · rw [coeffs_eq_64]

/-! ## 3. soundness of the floor oracle -/

/-- `a / D ≤ 2^(g / 2^n)` in integers -/
def LoOK (n g a : Nat) : Prop := a^(2^n) ≤ 2^g * D^(2^n)
/-- `2^(g / 2^n) ≤ a / D` in integers -/
def HiOK (n g a : Nat) : Prop := 2^g * D^(2^n) ≤ a^(2^n)

theorem D_pos : 0 < D := by unfold D; positivity

theorem lo_step {i plo lo : Nat} (h : LoOK i 1 plo) (hs : lo * lo ≤ plo * D) : LoOK (i+1) 1 lo := by
  unfold LoOK at *
  have e : lo^(2^(i+1)) = (lo*lo)^(2^i) := by rw [pow_succ, Nat.mul_comm, pow_mul]; congr 1; ring
  rw [e]
  calc (lo*lo)^(2^i) ≤ (plo * D)^(2^i) := Nat.pow_le_pow_left hs _
    _ = plo^(2^i) * D^(2^i) := by rw [Nat.mul_pow]
    _ ≤ (2^1 * D^(2^i)) * D^(2^i) := Nat.mul_le_mul_right _ h
    _ = 2^1 * D^(2^(i+1)) := by rw [pow_succ 2 i, pow_mul, mul_assoc]; congr 1; ring

theorem hi_step {i phi hi : Nat} (h : HiOK i 1 phi) (hs : phi * D ≤ hi * hi) : HiOK (i+1) 1 hi := by
  unfold HiOK at *
  have e : hi^(2^(i+1)) = (hi*hi)^(2^i) := by rw [pow_succ, Nat.mul_comm, pow_mul]; congr 1; ring
  rw [e]
  calc 2^1 * D^(2^(i+1)) = (2^1 * D^(2^i)) * D^(2^i) := by rw [pow_succ 2 i, pow_mul, mul_assoc]; congr 1; ring
    _ ≤ phi^(2^i) * D^(2^i) := Nat.mul_le_mul_right _ h
    _ = (phi * D)^(2^i) := by rw [Nat.mul_pow]
    _ ≤ (hi*hi)^(2^i) := Nat.pow_le_pow_left hs _

/-- every entry of a list, read as levels `i, i+1, …`, encloses `2^(2^−level)` -/
def Cert : Nat → List (Nat × Nat) → Prop
  | _, [] => True
  | i, (lo, hi) :: t => LoOK i 1 lo ∧ HiOK i 1 hi ∧ Cert (i+1) t

theorem cert_of_chain : ∀ (l : List (Nat × Nat)) (i plo phi : Nat), LoOK i 1 plo → HiOK i 1 phi →
    chainOK plo phi l = true → Cert (i+1) l
  | [], _, _, _, _, _, _ => trivial
  | (lo, hi) :: t, i, plo, phi, hl, hh, hc => by
    simp only [chainOK, Bool.and_eq_true, decide_eq_true_eq] at hc
    obtain ⟨⟨h1, h2⟩, h3⟩ := hc
    exact ⟨lo_step hl h1, hi_step hh h2, cert_of_chain t (i+1) lo hi (lo_step hl h1) (hi_step hh h2) h3⟩

theorem lo_lift {i n lo : Nat} (hin : i ≤ n) (h : LoOK i 1 lo) : LoOK n (2^(n-i)) lo := by
  unfold LoOK at *
  have e : 2^n = 2^i * 2^(n-i) := by rw [← pow_add]; congr 1; omega
  rw [e, pow_mul, pow_mul]
  calc (lo^(2^i))^(2^(n-i)) ≤ (2^1 * D^(2^i))^(2^(n-i)) := Nat.pow_le_pow_left h _
    _ = 2^(2^(n-i)) * (D^(2^i))^(2^(n-i)) := by rw [Nat.mul_pow, pow_one]

theorem hi_lift {i n hi : Nat} (hin : i ≤ n) (h : HiOK i 1 hi) : HiOK n (2^(n-i)) hi := by
  unfold HiOK at *
  have e : 2^n = 2^i * 2^(n-i) := by rw [← pow_add]; congr 1; omega
  rw [e, pow_mul, pow_mul]
  calc 2^(2^(n-i)) * (D^(2^i))^(2^(n-i)) = (2^1 * D^(2^i))^(2^(n-i)) := by rw [Nat.mul_pow, pow_one]
    _ ≤ (hi^(2^i))^(2^(n-i)) := Nat.pow_le_pow_left h _

theorem lo_mul {n f g a b c : Nat} (ha : LoOK n f a) (hb : LoOK n g b) (hc : c * D ≤ a * b) : LoOK n (f+g) c := by
  unfold LoOK at *
  have hD : 0 < D^(2^n) := Nat.pow_pos D_pos
  apply Nat.le_of_mul_le_mul_right _ hD
  calc c^(2^n) * D^(2^n) = (c*D)^(2^n) := by rw [Nat.mul_pow]
    _ ≤ (a*b)^(2^n) := Nat.pow_le_pow_left hc _
    _ = a^(2^n) * b^(2^n) := by rw [Nat.mul_pow]
    _ ≤ (2^f * D^(2^n)) * (2^g * D^(2^n)) := Nat.mul_le_mul ha hb
    _ = 2^(f+g) * D^(2^n) * D^(2^n) := by rw [pow_add]; ring

theorem hi_mul {n f g a b c : Nat} (ha : HiOK n f a) (hb : HiOK n g b) (hc : a * b ≤ c * D) : HiOK n (f+g) c := by
  unfold HiOK at *
  have hD : 0 < D^(2^n) := Nat.pow_pos D_pos
  apply Nat.le_of_mul_le_mul_right _ hD
  calc 2^(f+g) * D^(2^n) * D^(2^n) = (2^f * D^(2^n)) * (2^g * D^(2^n)) := by rw [pow_add]; ring
    _ ≤ a^(2^n) * b^(2^n) := Nat.mul_le_mul ha hb
    _ = (a*b)^(2^n) := by rw [Nat.mul_pow]
    _ ≤ (c*D)^(2^n) := Nat.pow_le_pow_left hc _
    _ = c^(2^n) * D^(2^n) := by rw [Nat.mul_pow]

theorem ceil_div_mul (x d : Nat) (hd : 0 < d) : x ≤ (x + (d - 1)) / d * d := by
  have h1 := Nat.div_add_mod (x + (d-1)) d
  have h2 := Nat.mod_lt (x + (d-1)) hd
  have h3 : d * ((x + (d - 1)) / d) = (x + (d - 1)) / d * d := Nat.mul_comm _ _
  omega

/-- invariant of `enclGo` -/
theorem enclGo_ok (n f : Nat) : ∀ (l : List (Nat × Nat)) (i : Nat) (acc : Encl), Cert i l →
    LoOK n acc.g acc.lo → HiOK n acc.g acc.hi →
    LoOK n (enclGo n f l i acc).g (enclGo n f l i acc).lo ∧ HiOK n (enclGo n f l i acc).g (enclGo n f l i acc).hi
  | [], _, acc, _, hl, hh => by simp only [enclGo]; exact ⟨hl, hh⟩
  | (lo, hi) :: t, i, acc, hc, hl, hh => by
    obtain ⟨c1, c2, c3⟩ := hc
    simp only [enclGo]
    split
    · rename_i hcond
      apply enclGo_ok n f t (i+1) _ c3
      · exact lo_mul hl (lo_lift hcond.1 c1) (Nat.div_mul_le_self _ _)
      · exact hi_mul hh (hi_lift hcond.1 c2) (ceil_div_mul _ _ D_pos)
    · exact enclGo_ok n f t (i+1) acc c3 hl hh

/-- the certificate of the table, by kernel evaluation of 80 squarings -/
theorem rootTable_chain : chainOK (2 * D) (2 * D) rootTable = true := by decide +kernel

theorem rootTable_cert : Cert 1 rootTable := by
  apply cert_of_chain rootTable 0 (2*D) (2*D) _ _ rootTable_chain
  · unfold LoOK; simp
  · unfold HiOK; simp

theorem encl_ok (n k : Nat) : LoOK n (encl n k).g (encl n k).lo ∧ HiOK n (encl n k).g (encl n k).hi := by
  unfold encl
  apply enclGo_ok n _ rootTable 1 _ rootTable_cert
  · show (D * 2^(k / 2^n))^(2^n) ≤ 2^(k / 2^n * 2^n) * D^(2^n)
    rw [Nat.mul_pow, ← pow_mul, Nat.mul_comm]
  · show 2^(k / 2^n * 2^n) * D^(2^n) ≤ (D * 2^(k / 2^n))^(2^n)
    rw [Nat.mul_pow, ← pow_mul, Nat.mul_comm]

theorem floor_of_encl {n k a b r : Nat} (hl : LoOK n k a) (hh : HiOK n k b) (hr : r = a / D) (hb : b < (r+1) * D) :
    r^(2^n) ≤ 2^k ∧ 2^k < (r+1)^(2^n) := by
  unfold LoOK at hl; unfold HiOK at hh
  have hD : 0 < D^(2^n) := Nat.pow_pos D_pos
  have hN : 2^n ≠ 0 := by positivity
  constructor
  · apply Nat.le_of_mul_le_mul_right _ hD
    calc r^(2^n) * D^(2^n) = (r*D)^(2^n) := by rw [Nat.mul_pow]
      _ ≤ a^(2^n) := Nat.pow_le_pow_left (by rw [hr]; exact Nat.div_mul_le_self _ _) _
      _ ≤ 2^k * D^(2^n) := hl
  · apply Nat.lt_of_mul_lt_mul_right (a := D^(2^n))
    calc 2^k * D^(2^n) ≤ b^(2^n) := hh
      _ < ((r+1)*D)^(2^n) := Nat.pow_lt_pow_left hb hN
      _ = (r+1)^(2^n) * D^(2^n) := by rw [Nat.mul_pow]

/-- **the oracle is sound**: whatever `floorPow2?` returns is the floor of `2^(k/2^n)` -/
theorem floorPow2?_sound {n : Nat} {k : Int} {r : Nat} (h : floorPow2? n k = some r) : IsFloorPow2 n k r := by
  unfold floorPow2? at h
  by_cases hk : k < 0
  · simp only [hk, if_true, Option.some.injEq] at h
    unfold IsFloorPow2; simp [hk, h.symm]
  · simp only [hk, if_false] at h
    split at h
    · rename_i hc
      simp only [Option.some.injEq] at h
      obtain ⟨hg, hb⟩ := hc
      have e := encl_ok n k.toNat
      rw [hg] at e
      unfold IsFloorPow2; simp only [hk, if_false]
      exact floor_of_encl e.1 e.2 h.symm (by rw [← h]; exact hb)
    · split at h
      · exact absurd h (by simp)
      · split at h
        · rename_i hd; simp only [Option.some.injEq] at h; rw [← h]; exact hd
        · split at h
          · rename_i hd; simp only [Option.some.injEq] at h; rw [← h]; exact hd
          · exact absurd h (by simp)

theorem ref?_sound {W : Nat} {E rep : Int} {r : Nat} (h : ref? W E rep = some r) : IsRef E rep r := by
  unfold ref? at h
  split at h
  · exact absurd h (by simp)
  · split at h
    · exact absurd h (by simp)
    · exact floorPow2?_sound h


/-! ## 4. tables -/

/-- the floor is unique -/
theorem isFloorPow2_unique {n : Nat} {k : Int} {r r' : Nat} (h : IsFloorPow2 n k r) (h' : IsFloorPow2 n k r') : r = r' := by
  unfold IsFloorPow2 at h h'
  by_cases hk : k < 0
  · simp only [hk, if_true] at h h'; rw [h, h']
  · simp only [hk, if_false] at h h'
    have hN : 2^n ≠ 0 := by positivity
    rcases Nat.lt_trichotomy r r' with hlt | heq | hgt
    · exfalso
      have : (r+1)^(2^n) ≤ r'^(2^n) := Nat.pow_le_pow_left hlt _
      omega
    · exact heq
    · exfalso
      have : (r'+1)^(2^n) ≤ r^(2^n) := Nat.pow_le_pow_left hgt _
      omega

/-- a result the oracle skips as too big does not fit any `W`-bit representation -/
theorem tooBig_large {W : Nat} {E rep : Int} {r : Nat} (h : tooBig W E rep = true) (hr : IsRef E rep r) : 2^W ≤ r := by
  unfold tooBig at h
  unfold IsRef IsFloorPow2 at hr
  simp only [decide_eq_true_eq] at h
  have hpos : (0:Int) ≤ (W : Int) * 2^(expArg E rep).1 := by positivity
  have hk : ¬ (expArg E rep).2 < 0 := by omega
  simp only [hk, if_false] at hr
  by_contra hlt
  have hlt' : r + 1 ≤ 2^W := by omega
  have h1 : (r+1)^(2^(expArg E rep).1) ≤ (2^W)^(2^(expArg E rep).1) := Nat.pow_le_pow_left hlt' _
  have h2 : (2^W)^(2^(expArg E rep).1) ≤ 2^(expArg E rep).2.toNat := by
    rw [← pow_mul]
    apply Nat.pow_le_pow_right (by norm_num)
    have : ((W * 2^(expArg E rep).1 : Nat) : Int) ≤ (expArg E rep).2 := by push_cast; exact h
    omega
  omega

/-- deviation of the model from the certified floor; `none` = the model is not `ok` or the oracle is undecided -/
def devAt (f : Fmt) (rep : Int) : Option Nat :=
  match ref? f.bits f.exp rep with
  | none => if tooBig f.bits f.exp rep then some 0 else none
  | some want =>
    if (want : Int) ≤ maxF f.rep then
      match exp2 f rep with
      | .ok v => some (v - want).natAbs
      | _ => none
    else some 0

/-- on `rep` the result is representable ⇒ the model returns a value within `B` units of the true floor -/
def boundOK (f : Fmt) (B : Nat) (rep : Int) : Bool :=
  match devAt f rep with
  | some d => decide (d ≤ B)
  | none => false

/-- some input reaches deviation `B` -/
def attains (f : Fmt) (B : Nat) (rep : Int) : Bool := devAt f rep == some B

/-- `p` on the representations `lowest + lo, …, lowest + lo + len − 1` -/
def sweep (f : Fmt) (p : Int → Bool) (lo len : Nat) : Bool :=
  (List.range len).all fun i => p (((i + lo : Nat) : Int) + lowestF f.rep)

theorem sweep_spec {f : Fmt} {p : Int → Bool} {lo len : Nat} (h : sweep f p lo len = true)
    (rep : Int) (h1 : lowestF f.rep + lo ≤ rep) (h2 : rep < lowestF f.rep + lo + len) : p rep = true := by
  unfold sweep at h
  rw [List.all_eq_true] at h
  have := h ((rep - lowestF f.rep - lo).toNat) (by rw [List.mem_range]; omega)
  have e : (((rep - lowestF f.rep - lo).toNat + lo : Nat) : Int) + lowestF f.rep = rep := by omega
  rwa [e] at this

/-- from a complete Boolean sweep to the statement about the true floor -/
theorem bound_of_table {f : Fmt} {B : Nat} (h : ∀ rep, f.rep.InRange rep → boundOK f B rep = true) :
    ∀ rep, f.rep.InRange rep → ∀ r : Nat, IsRef f.exp rep r → (r : Int) ≤ f.rep.max →
      ∃ v, exp2 f rep = .ok v ∧ (v - r).natAbs ≤ B := by
  intro rep hin r hr hmax
  have hb := h rep hin
  unfold boundOK devAt at hb
  cases hq : ref? f.bits f.exp rep with
  | none =>
    rw [hq] at hb
    by_cases ht : tooBig f.bits f.exp rep = true
    · exfalso
      have hbig := tooBig_large ht hr
      have : f.rep.max < 2^f.bits := by
        unfold IntTy.max Fmt.rep
        by_cases hs : f.signed = true
        · simp only [hs, if_true]
          have : (2:Int)^(f.bits-1) ≤ 2^f.bits := pow_le_pow_right₀ (by norm_num) (by omega)
          omega
        · simp only [hs]; simp
      have : ((2^f.bits : Nat) : Int) ≤ r := by exact_mod_cast hbig
      push_cast at this
      omega
    · simp [ht] at hb
  | some want =>
    rw [hq] at hb
    have hw : r = want := isFloorPow2_unique hr (ref?_sound hq)
    subst hw
    rw [maxF_eq] at hb
    simp only [hmax, if_true] at hb
    cases hm : exp2 f rep with
    | ok v => rw [hm] at hb; exact ⟨v, rfl, by simpa using hb⟩
    | _ => rw [hm] at hb; simp at hb

/-! ## 5. the repaired tests -/

/-- unsigned `Rep`, negative `Exponent`: the early return of `fp::exp2` is never taken (every `floored` is ≥ 0 > `Exponent`) -/
theorem notAbove_unsigned_neg (f : Fmt) (fl : Int) (hs : f.signed = false) (he : f.exp < 0) : notAbove f fl = false := by
  simp [notAbove, hs, he]

/-- `fp::not_above_exponent<Exponent>(floored)` is `floored ≤ Exponent` BY VALUE for every standard `Rep` (signed or unsigned,
8 … 64 bits), every `floored` of that type and every `int` exponent -/
theorem notAbove_iff (f : Fmt) (fl : Int) (hb : f.bits = 8 ∨ f.bits = 16 ∨ f.bits = 32 ∨ f.bits = 64)
    (hfl : f.rep.InRange fl) (he : i32.InRange f.exp) : notAbove f fl = true ↔ fl ≤ f.exp := by
  obtain ⟨b, s, e⟩ := f
  simp only at hb
  unfold notAbove
  rw [cLeF_eq]
  rcases hb with rfl | rfl | rfl | rfl <;> cases s <;>
    simp [Fmt.rep, IntTy.InRange, IntTy.lowest, IntTy.max, i32] at hfl he <;>
    simp [cCmp, usualArith, promote, i32, Fmt.rep, IntTy.wrap] <;> omega

/-- AS FOUND: the built-in `floored <= Exponent` is not by value: `3u <= -16` holds for a `uint32_t` (and `uint64_t`) `floored` -/
theorem cLe_orig_not_by_value : cLeF (u32, 3) (i32, -16) = true ∧ cLeF (u64, 3) (i32, -16) = true ∧ ¬ ((3 : Int) ≤ -16) := by
  decide

/-- positive exponent, negative input: the repaired `exp2` returns zero for EVERY width and coefficient table, without
converting `floor(x)` to `Rep` -/
theorem exp2With_neg_posExp (cs : List Nat) (f : Fmt) (rep : Int) (he : 0 < f.exp) (hr : rep < 0) : exp2With cs f rep = .ok 0 := by
  simp [exp2With, he, hr]

theorem exp2_neg_posExp (f : Fmt) (rep : Int) (he : 0 < f.exp) (hr : rep < 0) : exp2 f rep = .ok 0 :=
  exp2With_neg_posExp _ f rep he hr

/-- … and zero is the true `⌊2^x · 2^(−E)⌋` there (`x = rep·2^E < 0 < E`) -/
theorem isRef_neg_posExp (E rep : Int) (he : 0 < E) (hr : rep < 0) : IsRef E rep 0 := by
  have hp : (0 : Int) < 2 ^ E.toNat := two_pow_pos _
  have hk : (expArg E rep).2 < 0 := by
    have hE : ¬ E < 0 := by omega
    simp only [expArg, hE, if_false]
    have : rep * 2 ^ E.toNat < 0 := Int.mul_neg_of_neg_of_pos hr hp
    omega
  unfold IsRef IsFloorPow2
  simp [hk]

/-! ## 6. integral inputs -/

/-- the floor of `2^(j·2^n / 2^n)` is `2^j` -/
theorem isFloor_pow (n j r : Nat) (h : IsFloorPow2 n ((j * 2^n : Nat) : Int) r) : r = 2^j := by
  apply isFloorPow2_unique h
  unfold IsFloorPow2
  have hk : ¬ (((j * 2^n : Nat) : Int) < 0) := by omega
  simp only [hk, if_false, Int.toNat_natCast]
  have hN : 2^n ≠ 0 := by positivity
  constructor
  · rw [← pow_mul]
  · rw [pow_mul]; exact Nat.pow_lt_pow_left (Nat.lt_succ_self _) hN

/-- a power of two that fits a type has fewer than `digits` doublings -/
theorem lt_digits_of_le_max (t : IntTy) (j : Nat) (h : ((2^j : Nat) : Int) ≤ t.max) : j < t.digits := by
  rw [IntTy.max_eq] at h
  by_contra hc
  have : (2:Nat)^t.digits ≤ 2^j := Nat.pow_le_pow_right (by decide) (by omega)
  have h2 : ((2^t.digits : Nat) : Int) ≤ ((2^j : Nat) : Int) := by exact_mod_cast this
  push_cast at h h2
  omega

theorem two_pow_ge (E : Nat) (h : 6 ≤ E) : E + 32 ≤ 2^E := by
  induction E, h using Nat.le_induction with
  | base => decide
  | succ n hn ih => rw [Nat.pow_succ]; omega

end Cnl.Exp2Proofs
