import CnlProofs.Elastic
import CnlProofs.Rounding
import CnlProofs.Overflow
import CnlModel.StaticExpr
import CnlSpec.Static
/-!
# Lemmas for C11, typed level: every narrowest type, every digit count (multi-word storage), built-in operands

`storage_spec`: the storage rule returns a two's-complement type of the narrowest type's signedness with at
least the requested digits — all the elastic layer needs (the proofs of C05 use nothing else of `set_digits`),
for built-in and multi-word storage alike.  Then, for operands in the range their type declares (`TNum.InRange`):
`scale<k>` is exact (`scaleUpT_spec`), `+ − *` are exact in the policy's digits (`elBin_arith`), `/` is the rounding
division of C08 (`elBin_div`), unary minus (`elNegE_spec`), comparison by value (`elCmp_spec`), the conversion
(`convertT_core`).  Lean core only.
-/
namespace Cnl.Static
open Cnl Cnl.Spec Cnl.Elastic Cnl.Rounding

/-! ## `Res` plumbing -/

@[simp] theorem bind_trap {α β : Type} (p : Bool) (f : α → Res β) : ((Res.trap p : Res α) >>= f) = .trap p := rfl
@[simp] theorem bind_throws {α β : Type} (p : Bool) (f : α → Res β) : ((Res.throws p : Res α) >>= f) = .throws p := rfl
@[simp] theorem bind_unreachable {α β : Type} (m : String) (f : α → Res β) :
    ((Res.unreachable m : Res α) >>= f) = .unreachable m := rfl
@[simp] theorem bind_oob {α β : Type} (i : Nat) (f : α → Res β) : ((Res.oob i : Res α) >>= f) = .oob i := rfl
@[simp] theorem bind_diverges {α β : Type} (f : α → Res β) : ((Res.diverges : Res α) >>= f) = .diverges := rfl
@[simp] theorem bind_ill {α β : Type} (m : String) (f : α → Res β) : ((Res.ill m : Res α) >>= f) = .ill m := rfl
@[simp] theorem map_ok {α β : Type} (f : α → β) (a : α) : (Res.ok a).map f = .ok (f a) := rfl
@[simp] theorem map_ill {α β : Type} (f : α → β) (m : String) : (Res.ill m : Res α).map f = .ill m := rfl

theorem rmode_eq_modeOf (m : RdMode) : rmode m = modeOf m := by cases m <;> rfl

/-! ## the storage rule -/

theorem ceil_mul_ge {w m : Nat} (hw : 0 < w) : m ≤ w * ((m + w - 1) / w) := by
  have h1 := Nat.div_add_mod (m + w - 1) w
  have h2 := Nat.mod_lt (m + w - 1) hw
  generalize (m + w - 1) / w = q at *
  generalize (m + w - 1) % w = r at *
  generalize w * q = P at *
  omega

theorem setDigits_none {s : Bool} {need : Nat} (h : setDigits s need = none) : 127 < need := by
  cases s <;> simp only [setDigits, Bool.false_eq_true, ite_false, ite_true] at h <;>
    (repeat' split at h) <;> first | omega | (exact absurd h (by simp))

/-- the storage of `d` digits over the narrowest type `n`: a two's-complement type of `n`'s signedness with at
least `max (digits n) d` digits — the built-in one `set_digits` selects or the multi-word one of C10 -/
theorem storage_spec {n : IntTy} {d : Nat} {t : IntTy} (h : storage n d = some t) :
    t.signed = n.signed ∧ max n.digits d ≤ t.digits ∧ 8 ≤ t.bits := by
  unfold storage at h
  cases hR : repTy d n with
  | some r =>
    rw [hR] at h
    simp only [Option.some.injEq] at h
    subst h
    exact setDigits_spec hR
  | none =>
    rw [hR] at h
    by_cases hb : n.bits = 0
    · simp [hb] at h
    · simp only [hb, ite_false, Option.some.injEq] at h
      subst h
      have hn := setDigits_none (show setDigits n.signed (max n.digits d) = none from hR)
      have hge := ceil_mul_ge (w := n.bits) (m := max n.digits d + (if n.signed then 1 else 0)) (by omega)
      generalize (max n.digits d + (if n.signed then 1 else 0) + n.bits - 1) / n.bits = q at *
      generalize n.bits * q = P at *
      have hdg : (⟨P, n.signed⟩ : IntTy).digits = if n.signed then P - 1 else P := rfl
      refine ⟨rfl, ?_, ?_⟩
      · rw [hdg]
        cases hs : n.signed <;> simp only [hs, Bool.false_eq_true, ite_false, ite_true] at hge ⊢ <;> omega
      · show 8 ≤ P
        cases hs : n.signed <;> simp only [hs, Bool.false_eq_true, ite_false, ite_true] at hge <;> omega

/-- up to the widest built-in the storage is `set_digits`' (the rule of C05's elastic_integer) -/
theorem storage_builtin {n : IntTy} {d : Nat} {t : IntTy} (h : repTy d n = some t) : storage n d = some t := by
  simp only [storage, h]

/-- beyond it, the format is the one `Wide.storage` gives: `ceil((digits + signed) / width)` limbs of the
narrowest type's width, i.e. the `N`-bit two's-complement integer of property C10 -/
theorem storage_multiword {n : IntTy} {d : Nat} (h : repTy d n = none) (hb : n.bits ≠ 0) :
    storage n d = some ⟨n.bits * ((max n.digits d + (if n.signed then 1 else 0) + n.bits - 1) / n.bits), n.signed⟩ := by
  simp only [storage, h, hb, ite_false]

/-! ## ranges -/

theorem TNum.inRange_iff (t : TNum) : t.InRange ↔ Fits t.x.digits t.n.signed t.x.value := Iff.rfl

theorem two_pow_fits {t : IntTy} {k : Nat} (hk : k < t.digits) : t.InRange (2^k) := by
  have hp := two_pow_pos k
  have h2 := two_pow_succ k
  exact inRange_of_fits (D := k + 1) (s := false) (by omega) (by unfold Fits; simp; omega) (fun _ => rfl)

/-! ## `scale<k>`: exact, `k` more digits, the narrowest type is kept -/

theorem elScaleUp_spec (x : ENum) (k : Nat) (hx : x.InRange) :
    elScaleUp x k = .ok ⟨x.digits + k, x.narrowest, x.value * 2^k⟩ ∨ ∃ m, elScaleUp x k = .ill m := by
  cases hR : storage x.narrowest (x.digits + k) with
  | none => right; exact ⟨_, by simp only [elScaleUp, hR] <;> rfl⟩
  | some rep =>
    left
    have ⟨hRs, hRd, hRb⟩ := storage_spec hR
    have hb1 : 1 ≤ rep.bits := by omega
    have hP := promote_bits_ge hb1
    have hsR : rep.signed = false → x.narrowest.signed = false := fun h => by rw [← hRs]; exact h
    have hsP : (promote rep).signed = false → x.narrowest.signed = false := fun h => hsR (promote_unsigned h).1
    have hxR : rep.InRange x.value := inRange_of_fits (by omega) hx hsR
    have hs : Fits (x.digits + k) x.narrowest.signed (x.value * 2^k) := shl_bound (k := k) hx
    have hsRr : rep.InRange (x.value * 2^k) := inRange_of_fits (by omega) hs hsR
    have hsPr : (promote rep).InRange (x.value * 2^k) :=
      inRange_of_fits (by have := promote_digits_le hb1; omega) hs hsP
    have wa : (promote rep).wrap x.value = x.value := IntTy.wrap_id hP (promote_inRange hb1 hxR)
    by_cases hd : x.digits = 0
    · have hv : x.value = 0 := by
        have := (fits_iff.mp hx).1
        rw [hd] at this; simp at this; omega
      have h0 : (promote rep).InRange 0 := by rw [hv, Int.zero_mul] at hsPr; exact hsPr
      have h0R : rep.InRange 0 := by rw [hv, Int.zero_mul] at hsRr; exact hsRr
      simp only [elScaleUp, hR, Cnl.convert, cBin, usualArith_self, hv, IntTy.wrap_id hb1 h0R, IntTy.wrap_id hP h0,
        Int.zero_mul, arith_ok hP h0]
    · have hk : k < rep.digits := by omega
      have hpR : rep.InRange (2^k) := two_pow_fits hk
      have wb : (promote rep).wrap (2^k) = 2^k := IntTy.wrap_id hP (promote_inRange hb1 hpR)
      simp only [elScaleUp, hR, Cnl.convert, IntTy.wrap_id hb1 hxR, cBin, usualArith_self, wa, wb,
        arith_ok hP hsPr, IntTy.wrap_id hb1 hsRr]

theorem scaleUpT_spec (t : TNum) (k : Nat) (ht : t.InRange) :
    scaleUpT t k = .ok ⟨t.n, ⟨t.x.digits + k, t.x.exp - k, t.x.value * 2^k⟩⟩ ∨ ∃ m, scaleUpT t k = .ill m := by
  by_cases hk : k = 0
  · subst hk; left
    obtain ⟨n, ⟨d, e, v⟩⟩ := t
    simp [scaleUpT]
  · rcases elScaleUp_spec t.toE k ht with h | ⟨m, h⟩
    · left; simp only [scaleUpT, hk, ite_false, h, map_ok]; rfl
    · right; exact ⟨m, by simp only [scaleUpT, hk, ite_false, h, map_ill]⟩

theorem scaleUpT_inRange {t : TNum} (k : Nat) (ht : t.InRange) :
    (⟨t.n, ⟨t.x.digits + k, t.x.exp - k, t.x.value * 2^k⟩⟩ : TNum).InRange :=
  shl_bound (k := k) ht

/-! ## the representation operator under a rounding tag -/

theorem repOp_eq_cBin (c : Cfg) (op : BinOp) (h : op ≠ .div) (a b : TV) : repOp c op a b = cBin op a b := by
  obtain ⟨ta, va⟩ := a
  obtain ⟨tb, vb⟩ := b
  unfold repOp
  rw [binOp_other intOps c.mode op _ _ h]
  simp only [intOps, liftTV, Res.map]
  cases cBin op (ta, va) (tb, vb) <;> rfl

/-! ## rounded quotients -/

theorem isRounded_close {m : RoundMode} {a b q : Int} (_hb : b ≠ 0) (h : IsRounded m a b q) :
    (a - q * b).natAbs < b.natAbs := by
  cases m with
  | truncate => exact h.1
  | floor =>
    simp only [IsRounded] at h
    rw [Int.add_mul, Int.one_mul] at h
    generalize q * b = X at *
    split at h <;> omega
  | nearestUp =>
    simp only [IsRounded] at h
    rw [Int.mul_assoc, Int.mul_assoc, Int.add_mul, Int.one_mul] at h
    generalize q * b = X at *
    split at h <;> omega
  | nearestAway =>
    simp only [IsRounded] at h
    generalize q * b = X at *
    omega

theorem natAbs_le_of_close {a b q : Int} (h : (a - q * b).natAbs < b.natAbs) : q.natAbs ≤ a.natAbs := by
  have hm : (q * b).natAbs = q.natAbs * b.natAbs := Int.natAbs_mul ..
  refine Decidable.byContradiction fun hc => ?_
  have h1 : (a.natAbs + 1) * b.natAbs ≤ q.natAbs * b.natAbs := Nat.mul_le_mul_right _ (by omega)
  have h2 : a.natAbs * 1 ≤ a.natAbs * b.natAbs := Nat.mul_le_mul_left _ (by omega)
  rw [Nat.add_mul, Nat.one_mul] at h1
  generalize q * b = X at *
  generalize q.natAbs * b.natAbs = P at *
  generalize a.natAbs * b.natAbs = R at *
  omega

/-- a quotient by a non-zero integer, rounded in any mode, is no larger in magnitude than the dividend -/
theorem roundDiv_natAbs_le (m : RoundMode) (a b : Int) (hb : b ≠ 0) : (roundDiv m a b).natAbs ≤ a.natAbs :=
  natAbs_le_of_close (isRounded_close hb (roundDiv_isRounded m a b hb))

/-- a non-negative dividend and a positive divisor have a non-negative quotient in every mode -/
theorem roundDiv_nonneg (m : RoundMode) {a b : Int} (ha : 0 ≤ a) (hb : 0 < b) : 0 ≤ roundDiv m a b := by
  have h := isRounded_close (a := a) (b := b) (by omega) (roundDiv_isRounded m a b (by omega))
  refine Decidable.byContradiction fun hc => ?_
  have h1 : roundDiv m a b * b ≤ -1 * b := Int.mul_le_mul_of_nonneg_right (by omega) (by omega)
  generalize roundDiv m a b * b = X at *
  omega

theorem roundDiv_fits (m : RoundMode) {d : Nat} {a b : Int} (hb : b ≠ 0) (ha : Fits d true a) :
    Fits d true (roundDiv m a b) := by
  have h := roundDiv_natAbs_le m a b hb
  have := natAbs_le_of_bound ha
  exact bound_of_natAbs_le (by omega)

/-- … and of either signedness: with an unsigned dividend type the divisor is non-negative as well -/
theorem roundDiv_fits_s (m : RoundMode) {d : Nat} {s : Bool} {a b : Int} (hb : b ≠ 0) (ha : Fits d s a)
    (hb0 : s = false → 0 ≤ b) : Fits d s (roundDiv m a b) := by
  have h := roundDiv_natAbs_le m a b hb
  rw [fits_iff] at ha ⊢
  have := natAbs_le_of_bound ha.1
  exact ⟨bound_of_natAbs_le (by omega), fun hs => roundDiv_nonneg m (ha.2 hs) (by have := hb0 hs; omega)⟩

theorem repOp_div (c : Cfg) {O : IntTy} (hO : 1 ≤ O.bits) {a b : Int} (ha : O.InRange a) (hb : O.InRange b)
    (hb0 : b ≠ 0) (hq : (promote O).InRange (roundDiv (modeOf c.mode) a b)) :
    repOp c .div (O, a) (O, b) = .ok (promote O, roundDiv (modeOf c.mode) a b) := by
  have h := binOp_div_eval c.mode hO hO ha hb (by rw [usualArith_self]; exact promote_inRange hO ha)
    (by rw [usualArith_self]; exact promote_inRange hO hb) hb0 (by rw [usualArith_self]; exact hq)
  rw [usualArith_self] at h
  simp only [repOp, h]

/-- division under a rounding tag on operands of two different storage types -/
theorem repOp_div_mixed (c : Cfg) {L R : IntTy} (hL : 1 ≤ L.bits) (hR : 1 ≤ R.bits) {a b : Int}
    (haL : L.InRange a) (hbR : R.InRange b) (haT : (usualArith L R).InRange a) (hbT : (usualArith L R).InRange b)
    (hb0 : b ≠ 0) (hq : (usualArith L R).InRange (roundDiv (modeOf c.mode) a b)) :
    repOp c .div (L, a) (R, b) = .ok (usualArith L R, roundDiv (modeOf c.mode) a b) := by
  have h := binOp_div_eval c.mode hL hR haL hbR haT hbT hb0 hq
  simp only [repOp, h]

/-! ## the elastic layer over the storage rule: `+ − *`, `/`, unary minus, comparison -/

/-- `+ − *` on two in-range operands of any narrowest types: exact, in the policy's digits and signedness, in the
narrowest type of the wider operand's width -/
theorem elBin_arith (c : Cfg) (op : AOp) (hnd : op ≠ .div) (hnm : op ≠ .mod) (x y : ENum)
    (hx : x.InRange) (hy : y.InRange) :
    (∃ d sg, policy (AOp.toBin op) x.digits x.narrowest.signed y.digits y.narrowest.signed = some (d, sg) ∧
      elBin (repOp c) (AOp.toBin op) x y
        = .ok ⟨d, ⟨max x.narrowest.bits y.narrowest.bits, sg⟩, exact op x.value y.value⟩ ∧
      Fits d sg (exact op x.value y.value)) ∨
    ∃ m, elBin (repOp c) (AOp.toBin op) x y = .ill m := by
  obtain ⟨d, sg, hp⟩ := policy_some op x.digits y.digits x.narrowest.signed y.narrowest.signed
  cases hR : storage ⟨max x.narrowest.bits y.narrowest.bits, sg⟩ d with
  | none => right; exact ⟨_, by simp only [elBin, hp, hR] <;> rfl⟩
  | some R =>
    cases hO : storage ⟨max x.narrowest.bits y.narrowest.bits, sg⟩ (max d (max x.digits y.digits)) with
    | none => right; exact ⟨_, by simp only [elBin, hp, hR, hO] <;> rfl⟩
    | some O =>
      left
      have ⟨hRs, hRd, hRb⟩ := storage_spec hR
      have ⟨hOs, hOd, hOb⟩ := storage_spec hO
      simp only at hRs hOs
      have hOb1 : 1 ≤ O.bits := by omega
      have hRb1 : 1 ≤ R.bits := by omega
      have hOsg : O.signed = false → sg = false := fun h => by rw [← hOs]; exact h
      have hRsg : R.signed = false → sg = false := fun h => by rw [← hRs]; exact h
      have hPsg : (promote O).signed = false → sg = false := fun h => hOsg (promote_unsigned h).1
      have hxO : O.InRange x.value := inRange_of_fits (by omega) hx (fun h => (policy_signed op hp (hOsg h)).1)
      have hyO : O.InRange y.value := inRange_of_fits (by omega) hy (fun h => (policy_signed op hp (hOsg h)).2)
      have he : Fits d sg (exact op x.value y.value) := exact_fits op hx hy (fun h => absurd h hnm) hp
      have heP : (promote O).InRange (exact op x.value y.value) :=
        inRange_of_fits (by have := promote_digits_le hOb1; omega) he hPsg
      have heR : R.InRange (exact op x.value y.value) := inRange_of_fits (by omega) he hRsg
      have hdiv : (op = .div ∨ op = .mod) → y.value ≠ 0 ∧ ¬(x.value = (promote O).lowest ∧ y.value = -1) := by
        rintro (h | h)
        · exact absurd h hnd
        · exact absurd h hnm
      have hc := cBin_same_exact O hOb1 op x.value y.value hxO hyO heP hdiv
      have hne : AOp.toBin op ≠ .div := by cases op <;> first | exact absurd rfl hnd | (intro h; cases h)
      refine ⟨d, sg, hp, ?_, he⟩
      simp only [elBin, hp, hR, hO, Cnl.convert, IntTy.wrap_id hOb1 hxO, IntTy.wrap_id hOb1 hyO,
        repOp_eq_cBin c _ hne, hc, IntTy.wrap_id hRb1 heR]

/-- `/`: the rounding division of C08 in a storage type that holds both operands; the quotient has the dividend's
digits and the signedness of either operand -/
theorem elBin_div (c : Cfg) (x y : ENum) (hx : x.InRange) (hy : y.InRange) (h0 : y.value ≠ 0) :
    (elBin (repOp c) .div x y
        = .ok ⟨x.digits, ⟨max x.narrowest.bits y.narrowest.bits, x.narrowest.signed || y.narrowest.signed⟩,
            roundDiv (modeOf c.mode) x.value y.value⟩ ∧
      Fits x.digits (x.narrowest.signed || y.narrowest.signed) (roundDiv (modeOf c.mode) x.value y.value)) ∨
    ∃ m, elBin (repOp c) .div x y = .ill m := by
  have hp : policy .div x.digits x.narrowest.signed y.digits y.narrowest.signed
      = some (x.digits, x.narrowest.signed || y.narrowest.signed) := rfl
  cases hR : storage ⟨max x.narrowest.bits y.narrowest.bits, x.narrowest.signed || y.narrowest.signed⟩ x.digits with
  | none => right; exact ⟨_, by simp only [elBin, hp, hR] <;> rfl⟩
  | some R =>
    cases hO : storage ⟨max x.narrowest.bits y.narrowest.bits, x.narrowest.signed || y.narrowest.signed⟩
        (max x.digits (max x.digits y.digits)) with
    | none => right; exact ⟨_, by simp only [elBin, hp, hR, hO] <;> rfl⟩
    | some O =>
      left
      have ⟨hRs, hRd, hRb⟩ := storage_spec hR
      have ⟨hOs, hOd, hOb⟩ := storage_spec hO
      simp only at hRs hOs
      have hOb1 : 1 ≤ O.bits := by omega
      have hRb1 : 1 ≤ R.bits := by omega
      have hOsg : O.signed = false → x.narrowest.signed = false ∧ y.narrowest.signed = false :=
        fun h => or_false_iff' (by rw [← hOs]; exact h)
      have hRsg : R.signed = false → (x.narrowest.signed || y.narrowest.signed) = false :=
        fun h => by rw [← hRs]; exact h
      have hPsg : (promote O).signed = false → (x.narrowest.signed || y.narrowest.signed) = false :=
        fun h => by rw [← hOs]; exact (promote_unsigned h).1
      have hxO : O.InRange x.value := inRange_of_fits (by omega) hx (fun h => (hOsg h).1)
      have hyO : O.InRange y.value := inRange_of_fits (by omega) hy (fun h => (hOsg h).2)
      have hxs : Fits x.digits (x.narrowest.signed || y.narrowest.signed) x.value :=
        Fits.mono hx (fun h => (or_false_iff' h).1)
      have hq : Fits x.digits (x.narrowest.signed || y.narrowest.signed) (roundDiv (modeOf c.mode) x.value y.value) :=
        roundDiv_fits_s (modeOf c.mode) h0 hxs (fun h => (fits_iff.mp hy).2 (or_false_iff' h).2)
      have hqP : (promote O).InRange (roundDiv (modeOf c.mode) x.value y.value) :=
        inRange_of_fits (by have := promote_digits_le hOb1; omega) hq hPsg
      have hqR : R.InRange (roundDiv (modeOf c.mode) x.value y.value) := inRange_of_fits (by omega) hq hRsg
      refine ⟨?_, hq⟩
      simp only [elBin, hp, hR, hO, Cnl.convert, IntTy.wrap_id hOb1 hxO, IntTy.wrap_id hOb1 hyO,
        repOp_div c hOb1 hxO hyO h0 hqP, IntTy.wrap_id hRb1 hqR]

/-- `%`: the exact remainder of the truncating division (sign of the dividend) of two in-range operands of any
narrowest types — an unsigned dividend against a negative signed divisor included: the result is signed when either
operand is, and both operands convert unchanged into one storage type that holds either of them -/
theorem elBin_mod (c : Cfg) (x y : ENum) (hx : x.InRange) (hy : y.InRange) (h0 : y.value ≠ 0) :
    (elBin (repOp c) .mod x y
        = .ok ⟨min x.digits y.digits, ⟨max x.narrowest.bits y.narrowest.bits, x.narrowest.signed || y.narrowest.signed⟩,
            x.value.tmod y.value⟩ ∧
      Fits (min x.digits y.digits) (x.narrowest.signed || y.narrowest.signed) (x.value.tmod y.value)) ∨
    ∃ m, elBin (repOp c) .mod x y = .ill m := by
  have hp : policy (AOp.toBin .mod) x.digits x.narrowest.signed y.digits y.narrowest.signed
      = some (min x.digits y.digits, x.narrowest.signed || y.narrowest.signed) := rfl
  have hp' : policy .mod x.digits x.narrowest.signed y.digits y.narrowest.signed
      = some (min x.digits y.digits, x.narrowest.signed || y.narrowest.signed) := rfl
  cases hR : storage ⟨max x.narrowest.bits y.narrowest.bits, x.narrowest.signed || y.narrowest.signed⟩
      (min x.digits y.digits) with
  | none => right; exact ⟨_, by simp only [elBin, hp', hR] <;> rfl⟩
  | some R =>
    cases hO : storage ⟨max x.narrowest.bits y.narrowest.bits, x.narrowest.signed || y.narrowest.signed⟩
        (max (min x.digits y.digits) (max x.digits y.digits)) with
    | none => right; exact ⟨_, by simp only [elBin, hp', hR, hO] <;> rfl⟩
    | some O =>
      left
      have ⟨hRs, hRd, hRb⟩ := storage_spec hR
      have ⟨hOs, hOd, hOb⟩ := storage_spec hO
      simp only at hRs hOs
      have hOb1 : 1 ≤ O.bits := by omega
      have hRb1 : 1 ≤ R.bits := by omega
      have hOsg : O.signed = false → (x.narrowest.signed || y.narrowest.signed) = false := fun h => by rw [← hOs]; exact h
      have hRsg : R.signed = false → (x.narrowest.signed || y.narrowest.signed) = false := fun h => by rw [← hRs]; exact h
      have hPsg : (promote O).signed = false → (x.narrowest.signed || y.narrowest.signed) = false :=
        fun h => hOsg (promote_unsigned h).1
      have hxO : O.InRange x.value := inRange_of_fits (by omega) hx (fun h => (or_false_iff' (hOsg h)).1)
      have hyO : O.InRange y.value := inRange_of_fits (by omega) hy (fun h => (or_false_iff' (hOsg h)).2)
      have he : Fits (min x.digits y.digits) (x.narrowest.signed || y.narrowest.signed) (exact .mod x.value y.value) :=
        exact_fits .mod hx hy (fun _ => h0) hp
      have heP : (promote O).InRange (exact .mod x.value y.value) :=
        inRange_of_fits (by have := promote_digits_le hOb1; omega) he hPsg
      have heR : R.InRange (exact .mod x.value y.value) := inRange_of_fits (by omega) he hRsg
      have hdiv : ((AOp.mod = .div) ∨ (AOp.mod = .mod)) → y.value ≠ 0 ∧ ¬(x.value = (promote O).lowest ∧ y.value = -1) := by
        intro _
        refine ⟨h0, fun ⟨h1, h2⟩ => ?_⟩
        have hyP := (promote_inRange hOb1 hyO).1
        rw [IntTy.lowest_eq] at hyP h1
        have hx' := ((fits_iff.mp hx).1).1
        have hpw : (2:Int)^x.digits ≤ 2^(promote O).digits := two_pow_le (by have := promote_digits_le hOb1; omega)
        by_cases hs : (promote O).signed = true
        · simp only [hs, ite_true] at h1; omega
        · simp only [hs] at hyP; simp at hyP; omega
      have hc := cBin_same_exact O hOb1 .mod x.value y.value hxO hyO heP hdiv
      have hne : BinOp.mod ≠ .div := by intro h; cases h
      refine ⟨?_, he⟩
      simp only [elBin, hp', hR, hO, Cnl.convert, IntTy.wrap_id hOb1 hxO, IntTy.wrap_id hOb1 hyO,
        repOp_eq_cBin c _ hne]
      have hc' : cBin .mod (O, x.value) (O, y.value) = .ok (promote O, exact .mod x.value y.value) := hc
      simp only [hc', IntTy.wrap_id hRb1 heR]
      rfl

/-- unary minus: exact, same digits, the signed narrowest type of the same width -/
theorem elNegE_spec (x : ENum) (hx : x.InRange) :
    (elNegE x = .ok ⟨x.digits, ⟨x.narrowest.bits, true⟩, -x.value⟩ ∧ Fits x.digits true (-x.value)) ∨
      ∃ m, elNegE x = .ill m := by
  cases hR : storage ⟨x.narrowest.bits, true⟩ x.digits with
  | none => right; exact ⟨_, by simp only [elNegE, hR] <;> rfl⟩
  | some rep =>
    left
    have ⟨hRs, hRd, hRb⟩ := storage_spec hR
    simp only at hRs
    have hb1 : 1 ≤ rep.bits := by omega
    have hxR : rep.InRange x.value := inRange_of_fits (by omega) hx (fun h => by rw [hRs] at h; cases h)
    have hP := promote_bits_ge hb1
    have hPs := promote_signed_of_signed hRs
    have hn : Fits x.digits true (-x.value) := by
      have := (fits_iff.mp hx).1
      rw [fits_iff]; refine ⟨by omega, fun h => by cases h⟩
    have hnP : (promote rep).InRange (-x.value) :=
      inRange_of_fits (by have := promote_digits_le hb1; omega) hn (fun h => by rw [hPs] at h; cases h)
    have hnR : rep.InRange (-x.value) := inRange_of_fits (by omega) hn (fun h => by rw [hRs] at h; cases h)
    refine ⟨?_, hn⟩
    simp only [elNegE, hR, Cnl.convert, IntTy.wrap_id hb1 hxR, cNeg, IntTy.wrap_id hP (promote_inRange hb1 hxR),
      arith_ok hP hnP, IntTy.wrap_id hb1 hnR]

/-- comparison of two in-range operands of any narrowest types: by value -/
theorem elCmp_spec (op : CmpOp) (x y : ENum) (hx : x.InRange) (hy : y.InRange) :
    elCmp op x y = .ok (cmpExact op x.value y.value) ∨ ∃ m, elCmp op x y = .ill m := by
  cases hR : storage ⟨max x.narrowest.bits y.narrowest.bits, x.narrowest.signed || y.narrowest.signed⟩
      (max x.digits y.digits) with
  | none => right; exact ⟨_, by simp only [elCmp, hR] <;> rfl⟩
  | some rep =>
    left
    have ⟨hRs, hRd, hRb⟩ := storage_spec hR
    simp only at hRs
    have hb1 : 1 ≤ rep.bits := by omega
    have hs : rep.signed = false → x.narrowest.signed = false ∧ y.narrowest.signed = false :=
      fun h => or_false_iff' (by rw [← hRs]; exact h)
    have hxR : rep.InRange x.value := inRange_of_fits (by omega) hx (fun h => (hs h).1)
    have hyR : rep.InRange y.value := inRange_of_fits (by omega) hy (fun h => (hs h).2)
    simp only [elCmp, hR, Cnl.convert, IntTy.wrap_id hb1 hxR, IntTy.wrap_id hb1 hyR,
      cCmp_same_exact rep hb1 op _ _ hxR hyR]

/-! ## the operators of a typed static number -/

/-- the narrowest type of `s op t` (`elastic_tag/overloads.h`): the width of the wider operand narrowest, signed
when either operand is — a difference is always signed -/
def resN (op : BinOp) (a b : IntTy) : IntTy := ⟨max a.bits b.bits, if op = .sub then true else (a.signed || b.signed)⟩

/-- what the property demands of `s op t` on typed operands: the value and exponent of `exactBin`, the digits the
policy declares (a difference of two unsigned operands needs no extra digit) and the result narrowest type -/
def exactBinT (m : RoundMode) (op : BinOp) (s t : TNum) : TNum :=
  ⟨resN op s.n t.n,
   ⟨if op = .sub ∧ (s.n.signed || t.n.signed) = false then (exactBin m op s.x t.x).digits - 1
      else (exactBin m op s.x t.x).digits,
    (exactBin m op s.x t.x).exp, (exactBin m op s.x t.x).value⟩⟩

theorem exactBinT_sub (m : RoundMode) (s t : TNum) : exactBinT m .sub s t =
    ⟨⟨max s.n.bits t.n.bits, true⟩,
     ⟨max (s.x.digits + (s.x.exp - min s.x.exp t.x.exp).toNat) (t.x.digits + (t.x.exp - min s.x.exp t.x.exp).toNat)
        + (if (s.n.signed || t.n.signed) = true then 1 else 0),
      min s.x.exp t.x.exp,
      s.x.value * 2^(s.x.exp - min s.x.exp t.x.exp).toNat - t.x.value * 2^(t.x.exp - min s.x.exp t.x.exp).toNat⟩⟩ := by
  cases h : (s.n.signed || t.n.signed) <;> simp [exactBinT, exactBin, resN, h]

theorem binOpT_add_spec (c : Cfg) (s t : TNum) (hs : s.InRange) (ht : t.InRange) :
    (binOpT c .add s t = .ok (exactBinT (rmode c.mode) .add s t) ∧ (exactBinT (rmode c.mode) .add s t).InRange) ∨
      ∃ m, binOpT c .add s t = .ill m := by
  have hb : binOpT c .add s t =
      (scaleUpT s (s.x.exp - min s.x.exp t.x.exp).toNat >>= fun a =>
       scaleUpT t (t.x.exp - min s.x.exp t.x.exp).toNat >>= fun b =>
       elBin (repOp c) .add a.toE b.toE >>= fun z => .ok (ofE z (min s.x.exp t.x.exp))) := rfl
  rw [hb]
  rcases scaleUpT_spec s (s.x.exp - min s.x.exp t.x.exp).toNat hs with h1 | ⟨m, h1⟩
  · rcases scaleUpT_spec t (t.x.exp - min s.x.exp t.x.exp).toNat ht with h2 | ⟨m, h2⟩
    · rcases elBin_arith c .add (by decide) (by decide) _ _
          (scaleUpT_inRange (s.x.exp - min s.x.exp t.x.exp).toNat hs)
          (scaleUpT_inRange (t.x.exp - min s.x.exp t.x.exp).toNat ht) with ⟨d, sg, hp, h3, hf⟩ | ⟨m, h3⟩
      · left
        simp only [AOp.toBin, policy, TNum.toE, Option.some.injEq, Prod.mk.injEq] at hp
        obtain ⟨rfl, rfl⟩ := hp
        simp only [h1, h2, Res.bind_ok]
        simp only [AOp.toBin] at h3
        rw [h3]
        exact ⟨rfl, hf⟩
      · right; exact ⟨m, by simp only [h1, h2, Res.bind_ok]; simp only [AOp.toBin] at h3; rw [h3]; rfl⟩
    · right; exact ⟨m, by simp only [h1, h2, Res.bind_ok, bind_ill]⟩
  · right; exact ⟨m, by simp only [h1, bind_ill]⟩

theorem binOpT_sub_spec (c : Cfg) (s t : TNum) (hs : s.InRange) (ht : t.InRange) :
    (binOpT c .sub s t = .ok (exactBinT (rmode c.mode) .sub s t) ∧ (exactBinT (rmode c.mode) .sub s t).InRange) ∨
      ∃ m, binOpT c .sub s t = .ill m := by
  have hb : binOpT c .sub s t =
      (scaleUpT s (s.x.exp - min s.x.exp t.x.exp).toNat >>= fun a =>
       scaleUpT t (t.x.exp - min s.x.exp t.x.exp).toNat >>= fun b =>
       elBin (repOp c) .sub a.toE b.toE >>= fun z => .ok (ofE z (min s.x.exp t.x.exp))) := rfl
  rw [hb]
  rcases scaleUpT_spec s (s.x.exp - min s.x.exp t.x.exp).toNat hs with h1 | ⟨m, h1⟩
  · rcases scaleUpT_spec t (t.x.exp - min s.x.exp t.x.exp).toNat ht with h2 | ⟨m, h2⟩
    · rcases elBin_arith c .sub (by decide) (by decide) _ _
          (scaleUpT_inRange (s.x.exp - min s.x.exp t.x.exp).toNat hs)
          (scaleUpT_inRange (t.x.exp - min s.x.exp t.x.exp).toNat ht) with ⟨d, sg, hp, h3, hf⟩ | ⟨m, h3⟩
      · left
        simp only [AOp.toBin, policy, TNum.toE, Option.some.injEq, Prod.mk.injEq] at hp
        obtain ⟨rfl, rfl⟩ := hp
        simp only [h1, h2, Res.bind_ok]
        simp only [AOp.toBin] at h3
        rw [h3]
        rw [exactBinT_sub]
        exact ⟨rfl, hf⟩
      · right; exact ⟨m, by simp only [h1, h2, Res.bind_ok]; simp only [AOp.toBin] at h3; rw [h3]; rfl⟩
    · right; exact ⟨m, by simp only [h1, h2, Res.bind_ok, bind_ill]⟩
  · right; exact ⟨m, by simp only [h1, bind_ill]⟩

theorem binOpT_mul_spec (c : Cfg) (s t : TNum) (hs : s.InRange) (ht : t.InRange) :
    (binOpT c .mul s t = .ok (exactBinT (rmode c.mode) .mul s t) ∧ (exactBinT (rmode c.mode) .mul s t).InRange) ∨
      ∃ m, binOpT c .mul s t = .ill m := by
  have hb : binOpT c .mul s t =
      (elBin (repOp c) .mul s.toE t.toE >>= fun z => .ok (ofE z (s.x.exp + t.x.exp))) := rfl
  rw [hb]
  rcases elBin_arith c .mul (by decide) (by decide) _ _ hs ht with ⟨d, sg, hp, h3, hf⟩ | ⟨m, h3⟩
  · left
    simp only [AOp.toBin, policy, TNum.toE, Option.some.injEq, Prod.mk.injEq] at hp
    obtain ⟨rfl, rfl⟩ := hp
    simp only [AOp.toBin] at h3
    rw [h3]
    exact ⟨rfl, hf⟩
  · right; exact ⟨m, by simp only [AOp.toBin] at h3; rw [h3]; rfl⟩

theorem binOpT_div_spec (c : Cfg) (s t : TNum) (hs : s.InRange) (ht : t.InRange) (h0 : t.x.value ≠ 0) :
    (binOpT c .div s t = .ok (exactBinT (rmode c.mode) .div s t) ∧ (exactBinT (rmode c.mode) .div s t).InRange) ∨
      ∃ m, binOpT c .div s t = .ill m := by
  have hb : binOpT c .div s t =
      (elBin (repOp c) .div s.toE t.toE >>= fun z => .ok (ofE z (s.x.exp - t.x.exp))) := rfl
  rw [hb]
  rcases elBin_div c _ _ hs ht h0 with ⟨h3, hf⟩ | ⟨m, h3⟩
  · left
    rw [h3, rmode_eq_modeOf]
    exact ⟨rfl, hf⟩
  · right; exact ⟨m, by rw [h3]; rfl⟩

theorem negT_spec (t : TNum) (ht : t.InRange) :
    (negT t = .ok ⟨⟨t.n.bits, true⟩, ⟨t.x.digits, t.x.exp, -t.x.value⟩⟩ ∧
        (⟨⟨t.n.bits, true⟩, ⟨t.x.digits, t.x.exp, -t.x.value⟩⟩ : TNum).InRange) ∨
      ∃ m, negT t = .ill m := by
  rcases elNegE_spec t.toE ht with ⟨h, hf⟩ | ⟨m, h⟩
  · left; exact ⟨by simp only [negT, h, map_ok]; rfl, hf⟩
  · right; exact ⟨m, by simp only [negT, h, map_ill]⟩

theorem cmpT_spec (op : CmpOp) (s t : TNum) (hs : s.InRange) (ht : t.InRange) :
    cmpT op s t = .ok (cmpExact op (alignL s.x.exp t.x.exp s.x.value) (alignR s.x.exp t.x.exp t.x.value)) ∨
      ∃ m, cmpT op s t = .ill m := by
  have hb : cmpT op s t =
      (scaleUpT s (s.x.exp - min s.x.exp t.x.exp).toNat >>= fun a =>
       scaleUpT t (t.x.exp - min s.x.exp t.x.exp).toNat >>= fun b => elCmp op a.toE b.toE) := rfl
  rw [hb]
  rcases scaleUpT_spec s (s.x.exp - min s.x.exp t.x.exp).toNat hs with h1 | ⟨m, h1⟩
  · rcases scaleUpT_spec t (t.x.exp - min s.x.exp t.x.exp).toNat ht with h2 | ⟨m, h2⟩
    · simp only [h1, h2, Res.bind_ok]
      rcases elCmp_spec op _ _ (scaleUpT_inRange (s.x.exp - min s.x.exp t.x.exp).toNat hs)
          (scaleUpT_inRange (t.x.exp - min s.x.exp t.x.exp).toNat ht) with h | ⟨m, h⟩
      · left; rw [h]; rfl
      · right; exact ⟨m, h⟩
    · right; exact ⟨m, by simp only [h1, h2, Res.bind_ok, bind_ill]⟩
  · right; exact ⟨m, by simp only [h1, bind_ill]⟩

/-! ## conversion -/

/-- the limits of `D` digits of the given signedness -/
def loOf (signed : Bool) (D : Nat) : Int := if signed then -(2^D - 1 : Int) else 0

theorem narrowTo_true (c : Cfg) (D : Nat) (v : Int) : narrowTo c true D v = narrowDigits c D v := by
  simp [narrowTo, narrowDigits]

theorem narrowTo_fits (c : Cfg) (sg : Bool) (D : Nat) {v : Int} (h : Fits D sg v) : narrowTo c sg D v = .ok v := by
  unfold Fits at h
  have h1 : ¬ v > 2^D - 1 := by omega
  have h2 : ¬ v < (if sg = true then -(2^D - 1 : Int) else 0) := by omega
  simp only [narrowTo, h1, h2, ite_false]

/-- a value the overflow-checked narrowing returns is in range of the destination -/
theorem narrowTo_inRange (c : Cfg) (sg : Bool) (D : Nat) (v w : Int) (h : narrowTo c sg D v = .ok w) : Fits D sg w := by
  have hp := two_pow_pos D
  unfold narrowTo at h
  unfold Fits
  by_cases h1 : v > 2^D - 1
  · simp only [h1, ite_true] at h
    cases ht : c.tag <;> simp only [ht] at h <;> first | (cases h; cases sg <;> simp <;> omega) | cases h
  · by_cases h2 : v < (if sg = true then -(2^D - 1 : Int) else 0)
    · simp only [h1, h2, ite_true, ite_false] at h
      cases ht : c.tag <;> simp only [ht] at h <;> first | (cases h; cases sg <;> simp <;> omega) | cases h
    · simp only [h1, h2, ite_false] at h
      cases h; omega

theorem two_pow_inRange {t : IntTy} {k : Nat} (hs : t.signed = true) (hk : k < t.digits) : t.InRange (2^k) :=
  two_pow_fits hk

/-- the conversion to `static_number<D, E, _, _, N>` is the overflow-checked narrowing of the rescaled value —
exactly rescaled when the exponent does not grow, rounded otherwise (a mixed-type rounding division by `2^k`, whose
divisor has its own storage type) — outside the two open defect classes; a negative value into an unsigned
narrowest type is excluded by `hneg` (it is flagged before the rescaling) -/
theorem convertT_core (c : Cfg) (N : IntTy) (D : Nat) (E : Int) (t : TNum) (ht : t.InRange)
    (hneg : N.signed = false → 0 ≤ t.x.value) (hnd : ¬ KnownDefect c E t.x) :
    convertT c N D E t = (narrowTo c N.signed D (rescale (rmode c.mode) E t.x.exp t.x.value) >>= fun v =>
        .ok ⟨N, ⟨D, E, v⟩⟩) ∨ ∃ m, convertT c N D E t = .ill m := by
  have hfN : Fits t.x.digits N.signed t.x.value := by
    have h := (fits_iff.mp ht).1
    rw [fits_iff]; exact ⟨h, hneg⟩
  have h0 : (if N.signed = false ∧ t.n.signed = true ∧ t.x.value < 0 then
      (if c.tag = .nat then .ill "native tag: not modelled" else reactTo c.tag false false t.x.digits)
    else .ok t.x.value : Res Int) = .ok t.x.value := by
    have : ¬ (N.signed = false ∧ t.n.signed = true ∧ t.x.value < 0) := fun ⟨h1, _, h3⟩ => by have := hneg h1; omega
    simp only [this, ite_false]
  have hsIn : (⟨N, ⟨t.x.digits, t.x.exp, t.x.value⟩⟩ : TNum).InRange := hfN
  by_cases hE : E ≤ t.x.exp
  · have hb : convertT c N D E t =
        (scaleUpT ⟨N, ⟨t.x.digits, t.x.exp, t.x.value⟩⟩ (t.x.exp - E).toNat >>= fun a =>
          narrowTo c N.signed D a.x.value >>= fun v => .ok ⟨N, ⟨D, E, v⟩⟩) := by
      simp only [convertT, h0, Res.bind_ok, hE, ite_true]; rfl
    rw [hb]
    rcases scaleUpT_spec _ (t.x.exp - E).toNat hsIn with h1 | ⟨m, h1⟩
    · left; simp only [h1, Res.bind_ok, rescale, hE, ite_true]
    · right; exact ⟨m, by simp only [h1, bind_ill]⟩
  · have hlt : t.x.exp < E := by omega
    have hk : (E - t.x.exp).toNat ≤ t.x.digits := by
      refine Decidable.byContradiction fun h => hnd (.inl ⟨hlt, by omega⟩)
    have hq : (roundDiv (rmode c.mode) t.x.value (2^(E - t.x.exp).toNat)).natAbs
        ≤ 2^(t.x.digits - (E - t.x.exp).toNat) - 1 := by
      refine Decidable.byContradiction fun h => hnd (.inr ⟨hlt, hk, by omega⟩)
    have hk' : ¬ ((E - t.x.exp).toNat > t.x.digits ∧ negDigitsOK N (E - t.x.exp).toNat t.x.digits = false) :=
      fun h => by omega
    cases hR : storage N t.x.digits with
    | none => right; exact ⟨_, by simp only [convertT, h0, Res.bind_ok, hE, ite_false, hR] <;> rfl⟩
    | some rep =>
      cases hDr : storage N (1 + (E - t.x.exp).toNat) with
      | none =>
        right
        exact ⟨_, by simp only [convertT, h0, Res.bind_ok, hE, ite_false, hR, hk', hDr] <;> rfl⟩
      | some drep =>
        left
        have ⟨hRs, hRd, hRb⟩ := storage_spec hR
        have ⟨hDs, hDd, hDb⟩ := storage_spec hDr
        have hb1 : 1 ≤ rep.bits := by omega
        have hd1 : 1 ≤ drep.bits := by omega
        have hsame : rep.signed = drep.signed := by rw [hRs, hDs]
        have ⟨hTL, hTR⟩ := Cnl.Overflow.digits_le_usualArith rep drep
        have hTs : (usualArith rep drep).signed = false → N.signed = false := fun h => by
          rw [← hRs]; exact (Cnl.Overflow.same_sign_unsigned hsame h).1
        have hxR : rep.InRange t.x.value := inRange_of_fits (by omega) hfN (fun h => by rw [← hRs]; exact h)
        have hxT : (usualArith rep drep).InRange t.x.value := inRange_of_fits (by omega) hfN hTs
        have hpR : drep.InRange (2^(E - t.x.exp).toNat) := two_pow_fits (by omega)
        have hpT : (usualArith rep drep).InRange (2^(E - t.x.exp).toNat) := two_pow_fits (by omega)
        have hp0 : (2:Int)^(E - t.x.exp).toNat ≠ 0 := by have := two_pow_pos (E - t.x.exp).toNat; omega
        have hqf := roundDiv_fits_s (modeOf c.mode) hp0 hfN (fun _ => Int.le_of_lt (two_pow_pos _))
        have hqT : (usualArith rep drep).InRange (roundDiv (modeOf c.mode) t.x.value (2^(E - t.x.exp).toNat)) :=
          inRange_of_fits (by omega) hqf hTs
        have hmid : Fits (t.x.digits - (E - t.x.exp).toNat) N.signed
            (roundDiv (modeOf c.mode) t.x.value (2^(E - t.x.exp).toNat)) := by
          rw [rmode_eq_modeOf] at hq
          have := Nat.two_pow_pos (t.x.digits - (E - t.x.exp).toNat)
          rw [fits_iff]
          exact ⟨bound_of_natAbs_le (by omega), (fits_iff.mp hqf).2⟩
        simp only [convertT, h0, Res.bind_ok, hE, ite_false, hR, hk', hDr,
          repOp_div_mixed c hb1 hd1 hxR hpR hxT hpT hp0 hqT, narrowTo_fits c _ _ hmid, rescale, rmode_eq_modeOf]
        rfl

/-! ## built-in operands -/

theorem ofBuiltin_inRange (n : IntTy) {ty : IntTy} {v : Int} (e : Int) (hb : 1 ≤ ty.bits) (hv : ty.InRange v)
    (hlow : ty.signed = true → v ≠ ty.lowest) : (ofBuiltin n ty v e).InRange := by
  unfold IntTy.InRange at hv
  rw [IntTy.max_eq, IntTy.lowest_eq] at hv
  rw [IntTy.lowest_eq] at hlow
  show Fits ty.digits ty.signed v
  unfold Fits
  cases hs : ty.signed
  · simp only [hs, Bool.false_eq_true, ite_false] at hv ⊢; exact hv
  · simp only [hs, ite_true] at hv ⊢
    have := hlow hs
    simp only [hs, ite_true] at this
    omega

/-- `scale<k, 2>` of a built-in integer, in its own promoted type: exact **when the product fits that type** -/
theorem scaleInt_two_spec {ty : IntTy} (hb : 1 ≤ ty.bits) {v : Int} (hv : ty.InRange v) (k : Nat)
    (hk : k < (promote ty).digits) (hf : (promote ty).InRange (v * 2^k)) :
    scaleInt (k : Int) 2 (ty, v) = .ok (promote ty, v * 2^k) := by
  have hP := promote_bits_ge hb
  have wv : (promote ty).wrap v = v := IntTy.wrap_id hP (promote_inRange hb hv)
  have hge : (k : Int) ≥ 0 := by omega
  by_cases hk0 : k = 0
  · subst hk0
    have h1 : (promote ty).InRange 1 := by
      have := two_pow_fits (t := promote ty) (k := 0) (by omega); simpa using this
    simp only [scaleInt, hge, ite_true, Int.toNat_natCast, powerValueInt, Res.bind_ok, cBin, usualArith_self, wv,
      IntTy.wrap_id hP h1, Int.mul_one]
    rw [Int.pow_zero, Int.mul_one] at hf ⊢
    exact arith_ok hP hf
  · have hp : (promote ty).InRange (2^k) := two_pow_fits hk
    have hpp : promote (promote ty) = promote ty := promote_promote ty
    have hu : usualArith ty (promote ty) = promote ty := Cnl.Overflow.usualArith_promote_left ty
    simp only [scaleInt, hge, ite_true, Int.toNat_natCast, powerValueInt, hk0, ite_false, hk, Res.bind_ok, cBin, hu, wv,
      IntTy.wrap_id hP hp]
    exact arith_ok hP hf

/-- an operand the theorems speak of: a static number in the range its type declares, or a built-in integer other
than the most negative value of a signed type (which `from_value`'s `digits T`-digit type does not hold) -/
def Opnd.OK : Opnd → Prop
  | .stat t => t.InRange
  | .builtin ty v => 1 ≤ ty.bits ∧ ty.InRange v ∧ (ty.signed = true → v ≠ ty.lowest)

instance (o : Opnd) : Decidable o.OK := by cases o <;> unfold Opnd.OK <;> exact inferInstance

def Opnd.value : Opnd → Int
  | .stat t => t.x.value
  | .builtin _ v => v

theorem Opnd.raw_inRange (n : IntTy) {o : Opnd} (h : o.OK) : (o.raw n).InRange := by
  cases o with
  | stat t => exact h
  | builtin ty v => exact ofBuiltin_inRange n 0 h.1 h.2.1 h.2.2

theorem Opnd.raw_exp (n : IntTy) (o : Opnd) : (o.raw n).x.exp = o.exp := by cases o <;> rfl
theorem Opnd.raw_value (n : IntTy) (o : Opnd) : (o.raw n).x.value = o.value := by cases o <;> rfl

/-- `+ −` with a built-in operand at the same exponent (a bare static_integer, or a static_number of exponent 0)
is the operator of the typed static numbers on the `from_value` image of the built-in operand -/
theorem binOpO_addsub_same_exp (c : Cfg) (n : IntTy) (op : BinOp) (hop : op = .add ∨ op = .sub) (s t : Opnd)
    (he : s.exp = t.exp) : binOpO c n op s t = binOpT c op (s.raw n) (t.raw n) := by
  have r1 := Opnd.raw_exp n s
  have r2 := Opnd.raw_exp n t
  rcases hop with h | h <;> subst h <;> simp [binOpO, binOpT, scaleUpT, r1, r2, he]

/-- `*` with a built-in operand when both operands have at least two digits: the digit test of the overflow layer is
false (the product type has the sum of the digits) -/
theorem binOpO_mul_eq (c : Cfg) (n : IntTy) (s t : Opnd) (h1 : 2 ≤ (s.raw n).x.digits) (h2 : 2 ≤ (t.raw n).x.digits) :
    binOpO c n .mul s t = binOpT c .mul (s.raw n) (t.raw n) := by
  have hd : ¬ ((s.raw n).x.digits + (t.raw n).x.digits >
      max 1 ((if (s.raw n).x.digits = 1 then 0 else (s.raw n).x.digits) +
        (if (t.raw n).x.digits = 1 then 0 else (t.raw n).x.digits))) := by
    have a1 : (s.raw n).x.digits ≠ 1 := by omega
    have a2 : (t.raw n).x.digits ≠ 1 := by omega
    simp only [a1, a2, ite_false]; omega
  simp only [binOpO, policy, mixedOverflow, hd, ite_false, Res.pure_eq]

/-- `/` with a built-in operand outside the one input the overflow layer flags spuriously
(`−(2^digits T − 1) / −1` with the built-in operand as the dividend) -/
theorem binOpO_div_eq (c : Cfg) (n : IntTy) (s t : Opnd)
    (h : ¬ (s.isBuiltinSigned = true ∧ (t.raw n).x.value = -1 ∧ (s.raw n).x.value = -(2^(s.raw n).x.digits - 1 : Int))) :
    binOpO c n .div s t = binOpT c .div (s.raw n) (t.raw n) := by
  have hc : (s.isBuiltinSigned && (t.raw n).x.value == -1 && (s.raw n).x.value == -(2^(s.raw n).x.digits - 1 : Int)) = false := by
    cases hb : s.isBuiltinSigned
    · simp
    · by_cases h2 : (t.raw n).x.value = -1
      · by_cases h3 : (s.raw n).x.value = -(2^(s.raw n).x.digits - 1 : Int)
        · exact absurd ⟨hb, h2, h3⟩ h
        · simp [h3]
      · simp [h2]
  simp only [binOpO, policy, mixedOverflow, hc, Res.pure_eq]
  rfl

/-- comparison with a built-in operand at the same exponent: by value -/
theorem cmpO_same_exp (n : IntTy) (op : CmpOp) (s t : Opnd) (hs : s.OK) (ht : t.OK) (he : s.exp = t.exp) :
    cmpO n op s t = .ok (cmpExact op s.value t.value) ∨ ∃ m, cmpO n op s t = .ill m := by
  rcases elCmp_spec op (s.raw n).toE (t.raw n).toE (Opnd.raw_inRange n hs) (Opnd.raw_inRange n ht) with h | ⟨m, h⟩
  · left; simp only [cmpO, he, ite_true, h]; rw [← Opnd.raw_value n s, ← Opnd.raw_value n t]; rfl
  · right; exact ⟨m, by simp only [cmpO, he, ite_true, h]⟩

/-- the built-in operand of a static_number with a different exponent is scaled by `2^k` **in its own promoted type**:
the hypothesis under which that is exact (the complement of `C11.builtin_operand_scaled_in_its_own_type`) -/
def Opnd.ScaleFits (o : Opnd) (k : Nat) : Prop :=
  match o with
  | .stat _ => True
  | .builtin ty v => k < (promote ty).digits ∧ (promote ty).InRange (v * 2^k) ∧
      ((promote ty).signed = true → v * 2^k ≠ (promote ty).lowest)

instance (o : Opnd) (k : Nat) : Decidable (o.ScaleFits k) := by cases o <;> unfold Opnd.ScaleFits <;> exact inferInstance

theorem Opnd.align_spec (n : IntTy) (o : Opnd) (k : Nat) (h : o.OK) (hf : o.ScaleFits k) :
    (∃ a, o.align n k = .ok a ∧ a.InRange ∧ a.x.value = o.value * 2^k ∧ a.x.exp = o.exp - k) ∨
      ∃ m, o.align n k = .ill m := by
  cases o with
  | stat t =>
    rcases scaleUpT_spec t k h with h1 | ⟨m, h1⟩
    · left; exact ⟨_, h1, scaleUpT_inRange k h, rfl, rfl⟩
    · right; exact ⟨m, h1⟩
  | builtin ty v =>
    left
    obtain ⟨hk, hfit, hlow⟩ := hf
    have hs := scaleInt_two_spec h.1 h.2.1 k hk hfit
    refine ⟨ofBuiltin n (promote ty) (v * 2^k) (-(k : Int)), by simp only [Opnd.align, hs], ?_, rfl, ?_⟩
    · exact ofBuiltin_inRange n _ (promote_bits_ge h.1) hfit hlow
    · show -(k : Int) = (0 : Int) - k
      omega

/-- `+ −` with a built-in operand at a different exponent, when the scaling of the built-in operand fits its own
type: the exact sum / difference at the smaller exponent, in range of the digits the result type declares -/
theorem binOpO_addsub_aligned (c : Cfg) (n : IntTy) (op : BinOp) (hop : op = .add ∨ op = .sub) (s t : Opnd)
    (hs : s.OK) (ht : t.OK) (he : s.exp ≠ t.exp)
    (hfs : s.ScaleFits (s.exp - min s.exp t.exp).toNat) (hft : t.ScaleFits (t.exp - min s.exp t.exp).toNat) :
    (∃ z, binOpO c n op s t = .ok z ∧ z.InRange ∧ z.x.exp = min s.exp t.exp ∧
      z.x.value = (if op = .add then s.value * 2^(s.exp - min s.exp t.exp).toNat + t.value * 2^(t.exp - min s.exp t.exp).toNat
                   else s.value * 2^(s.exp - min s.exp t.exp).toNat - t.value * 2^(t.exp - min s.exp t.exp).toNat)) ∨
      ∃ m, binOpO c n op s t = .ill m := by
  have hb : binOpO c n op s t =
      (s.align n (s.exp - min s.exp t.exp).toNat >>= fun a =>
       t.align n (t.exp - min s.exp t.exp).toNat >>= fun b =>
       elBin (repOp c) op a.toE b.toE >>= fun z => .ok (ofE z (min s.exp t.exp))) := by
    rcases hop with h | h <;> subst h <;> simp only [binOpO, he, ite_false] <;> rfl
  rw [hb]
  rcases Opnd.align_spec n s _ hs hfs with ⟨a, h1, ha, hav, _⟩ | ⟨m, h1⟩
  · rcases Opnd.align_spec n t _ ht hft with ⟨b, h2, hbb, hbv, _⟩ | ⟨m, h2⟩
    · rcases hop with h | h <;> subst h
      · rcases elBin_arith c .add (by decide) (by decide) a.toE b.toE ha hbb with ⟨d, sg, _, h3, hf⟩ | ⟨m, h3⟩
        · left
          simp only [AOp.toBin] at h3
          refine ⟨ofE ⟨d, ⟨max a.n.bits b.n.bits, sg⟩, exact .add a.x.value b.x.value⟩ (min s.exp t.exp),
            by simp only [h1, h2, Res.bind_ok, h3]; rfl, hf, rfl, ?_⟩
          show a.x.value + b.x.value = _
          rw [hav, hbv]; simp
        · right; exact ⟨m, by simp only [AOp.toBin] at h3; simp only [h1, h2, Res.bind_ok, h3, bind_ill]⟩
      · rcases elBin_arith c .sub (by decide) (by decide) a.toE b.toE ha hbb with ⟨d, sg, _, h3, hf⟩ | ⟨m, h3⟩
        · left
          simp only [AOp.toBin] at h3
          refine ⟨ofE ⟨d, ⟨max a.n.bits b.n.bits, sg⟩, exact .sub a.x.value b.x.value⟩ (min s.exp t.exp),
            by simp only [h1, h2, Res.bind_ok, h3]; rfl, hf, rfl, ?_⟩
          show a.x.value - b.x.value = _
          rw [hav, hbv]; simp
        · right; exact ⟨m, by simp only [AOp.toBin] at h3; simp only [h1, h2, Res.bind_ok, h3, bind_ill]⟩
    · right; exact ⟨m, by simp only [h1, h2, Res.bind_ok, bind_ill]⟩
  · right; exact ⟨m, by simp only [h1, bind_ill]⟩

end Cnl.Static
